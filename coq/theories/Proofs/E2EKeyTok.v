(* C01 layer (c), full writer domain, part 3: trees with simple keys, and the token-level round trip with the tree
   hypothesis restricted to the keys (the main induction of E2EProofs.TR replayed). *)
From Coq Require Import String.
From Coq Require Import NArith ZArith List Bool Lia ZifyBool ZifyN ZifyNat.
From DictIO Require Import Chars Str Value Scalar KeyPath SDict Layout Lexer TokParser TreeSpec NativeSpec LayoutSpec E2ESpec.
From DictIO Require ScalarProofs SDictProofs TokProofs LayoutProofs SemProofs QuoteProofs KeyPathProofs.
From DictIO Require Import E2EProofs.
Import ListNotations.
Import LayoutProofs.
Open Scope N_scope.

(* ================================================================================================ *)
(* 1. trees with simple keys and leaves satisfying a given test                                     *)
(* ================================================================================================ *)

Fixpoint ktree (ok : scalar -> bool) (t : tree) : bool :=
  match t with
  | Leaf v => ok v
  | Dict kvs => (fix go (l : list (key * tree)) : bool :=
                   match l with [] => true | (k, c) :: l' => simple_key k && ktree ok c && go l' end) kvs
  | Lst ts => (fix go (l : list tree) : bool :=
                 match l with [] => true | c :: l' => ktree ok c && go l' end) ts
  end.

Lemma ktree_dict_cons ok k c kvs :
  ktree ok (Dict ((k, c) :: kvs)) = simple_key k && ktree ok c && ktree ok (Dict kvs).
Proof. reflexivity. Qed.
Lemma ktree_lst_cons ok c l : ktree ok (Lst (c :: l)) = ktree ok c && ktree ok (Lst l).
Proof. reflexivity. Qed.

Lemma writable_ktree : forall t, writable_tree t = ktree writable_leaf t.
Proof.
  induction t as [v|kvs IH|ts IH] using tree_ind'; [reflexivity| |].
  - induction IH as [|[k c] kvs Hc _ IHk]; [reflexivity|].
    change (writable_tree (Dict ((k, c) :: kvs))) with (simple_key k && writable_tree c && writable_tree (Dict kvs)).
    rewrite ktree_dict_cons. cbn [snd] in Hc. rewrite Hc, IHk. reflexivity.
  - induction IH as [|c l Hc _ IHl]; [reflexivity|].
    change (writable_tree (Lst (c :: l))) with (writable_tree c && writable_tree (Lst l)).
    rewrite ktree_lst_cons, Hc, IHl. reflexivity.
Qed.

Lemma ktree_skeys ok : forall t, ktree ok t = true -> ktree (fun _ => true) t = true.
Proof.
  induction t as [v|kvs IH|ts IH] using tree_ind'; intros H; [reflexivity| |].
  - induction IH as [|[k c] kvs Hc _ IHk]; [reflexivity|].
    rewrite ktree_dict_cons in *. apply andb_true_iff in H. destruct H as [H H3].
    apply andb_true_iff in H. destruct H as [H1 H2]. cbn [snd] in Hc. rewrite H1, (Hc H2), (IHk H3). reflexivity.
  - induction IH as [|c l Hc _ IHl]; [reflexivity|].
    rewrite ktree_lst_cons in *. apply andb_true_iff in H. destruct H as [H1 H2]. rewrite (Hc H1), (IHl H2). reflexivity.
Qed.

Definition skeys (t : tree) : bool := ktree (fun _ => true) t.
Lemma skeys_dict_cons k c kvs : skeys (Dict ((k, c) :: kvs)) = simple_key k && skeys c && skeys (Dict kvs).
Proof. reflexivity. Qed.
Lemma skeys_lst_cons c l : skeys (Lst (c :: l)) = skeys c && skeys (Lst l).
Proof. reflexivity. Qed.

Lemma ktree_dict_keys ok kvs : ktree ok (Dict kvs) = true -> forall kc, In kc kvs -> simple_key (fst kc) = true.
Proof.
  induction kvs as [|[k c] kvs IH]; intros Hs kc Hin; [destruct Hin|].
  rewrite ktree_dict_cons in Hs. apply andb_true_iff in Hs. destruct Hs as [Hs Hs3].
  apply andb_true_iff in Hs. destruct Hs as [Hs1 _].
  destruct Hin as [<-|Hin]; [exact Hs1|exact (IH Hs3 kc Hin)].
Qed.

(* ================================================================================================ *)
(* 2. the token parser inverts the token grammar (E2EProofs.TR with the tree hypothesis restricted  *)
(*    to the keys: the leaves are covered by the hypothesis on lt)                                  *)
(* ================================================================================================ *)
Module TRK.
Import TokProofs.
Local Open Scope Z_scope.
Section Main.
  Variable lt : scalar -> str.
  Variable kt : key -> str.
  Variable nv : scalar -> scalar.
  Hypothesis Hlt : forall v, plain_token (lt v) = true /\ parse_value (lt v) = Ok (nv v).
  Hypothesis Hktp : forall k, plain_token (kt k) = true.
  Hypothesis Hkpk : forall k, simple_key k = true -> parse_key (kt k) = Ok k.

  Local Notation entry_toks := (TokProofs.entry_toks lt kt).
  Local Notation entries := (TokProofs.entries lt kt).
  Local Notation items := (TokProofs.items lt kt).
  Local Notation mkv := (TokProofs.mkv nv).
  Local Notation toks_dict := (TokProofs.toks_dict lt kt).
  Local Notation toks_lst := (TokProofs.toks_lst lt kt).
  Local Notation toks_lst_b := (TokProofs.toks_lst_b lt kt).
  Local Notation toks_leaf := (TokProofs.toks_leaf lt kt).
  Local Notation map_leaves_dict := (TokProofs.map_leaves_dict nv).
  Local Notation map_leaves_lst := (TokProofs.map_leaves_lst nv).

  Lemma plain_lt v : plain (lt v). Proof. exact (proj1 (Hlt v)). Qed.
  Lemma plain_kt k : plain (kt k). Proof. exact (Hktp k). Qed.

  Lemma good_plain t : plain t -> good [t].
  Proof.
    intros Hp. destruct (plain_inv t Hp) as (A1 & A2 & _ & A4 & _). apply good_single; assumption.
  Qed.
  Lemma good_semi : good [t_semi].
  Proof. apply good_single; vm_compute; reflexivity. Qed.
  Lemma good_cons t a : good [t] -> good a -> good (t :: a).
  Proof. intros H1 H2. change (t :: a) with ([t] ++ a). apply good_app; assumption. Qed.
  Lemma good_braces a : good a -> good (t_lbrace :: a ++ [t_rbrace]).
  Proof. intros H. apply good_wrap; try (vm_compute; reflexivity). exact H. Qed.
  Lemma good_pars a : good a -> good (t_lpar :: a ++ [t_rpar]).
  Proof. intros H. apply good_wrap; try (vm_compute; reflexivity). exact H. Qed.

  Lemma good_entry kc : (forall b, good (toks_tree lt kt b (snd kc))) -> good (entry_toks kc).
  Proof.
    destruct kc as [k c]. cbn [snd]. intros Hc. unfold TokProofs.entry_toks. cbn [fst snd].
    destruct c as [v|d|l].
    - apply good_cons; [apply good_plain, plain_kt|].
      apply good_cons; [apply good_plain, plain_lt|]. apply good_semi.
    - cbn [app]. apply good_cons; [apply good_plain, plain_kt|]. apply good_braces. apply Hc.
    - cbn [app]. apply good_cons; [apply good_plain, plain_kt|]. apply good_app; [apply Hc|apply good_semi].
  Qed.

  Lemma good_tree : forall t b, good (toks_tree lt kt b t).
  Proof.
    induction t as [v|kvs IH|l IH] using tree_ind'; intros b.
    - apply good_plain, plain_lt.
    - rewrite toks_dict.
      assert (He : good (entries kvs)).
      { induction IH as [|kc kvs Hc _ IHk]; [apply good_nil|].
        unfold TokProofs.entries. cbn [flat_map]. apply good_app; [apply good_entry; exact Hc|exact IHk]. }
      destruct b; cbn [app]; [apply good_braces; exact He|rewrite app_nil_r; exact He].
    - rewrite toks_lst_b, toks_lst. cbn [app]. apply good_pars.
      induction IH as [|c l Hc _ IHl]; [apply good_nil|].
      unfold TokProofs.items. cbn [flat_map]. apply good_app; [apply Hc|exact IHl].
  Qed.

  Lemma good_entries kvs : good (entries kvs).
  Proof.
    induction kvs as [|kc kvs IH]; [apply good_nil|].
    unfold TokProofs.entries. cbn [flat_map]. apply good_app; [|exact IH].
    apply good_entry. intros b. apply good_tree.
  Qed.
  Lemma good_items l : good (items l).
  Proof.
    induction l as [|c l IH]; [apply good_nil|].
    unfold TokProofs.items. cbn [flat_map]. apply good_app; [apply good_tree|exact IH].
  Qed.

  Lemma items_nil l : items l = [] -> l = [].
  Proof.
    destruct l as [|c l]; [reflexivity|]. unfold TokProofs.items. cbn [flat_map]. intros H.
    apply app_eq_nil in H. destruct H as [H _]. destruct c; cbn in H; discriminate.
  Qed.

  (* levels of the statements and items *)
  Lemma lev_item_dict L d rest :
    levels_go L (toks_tree lt kt true (Dict d) ++ rest)
    = (L, t_lbrace) :: levels_go (L + 1) (entries d) ++ (L, t_rbrace) :: levels_go L rest.
  Proof.
    rewrite toks_dict. cbn [app]. rewrite <- app_assoc. cbn [app].
    rewrite lev_lbrace, levels_go_app, (g_net _ (good_entries d)), Z.add_0_r, lev_rbrace. reflexivity.
  Qed.
  Lemma lev_item_lst L l rest :
    levels_go L (toks_tree lt kt true (Lst l) ++ rest)
    = (L, t_lpar) :: levels_go (L + 1) (items l) ++ (L, t_rpar) :: levels_go L rest.
  Proof.
    rewrite toks_lst. cbn [app]. rewrite <- app_assoc. cbn [app].
    rewrite lev_lpar, levels_go_app, (g_net _ (good_items l)), Z.add_0_r, lev_rpar. reflexivity.
  Qed.
  Lemma lev_entry_leaf L k v rest :
    levels_go L (entry_toks (k, Leaf v) ++ rest)
    = (L, kt k) :: (L, lt v) :: (L, t_semi) :: levels_go L rest.
  Proof.
    unfold TokProofs.entry_toks. cbn [fst snd app].
    rewrite (lev_plain _ _ _ (plain_kt k)), (lev_plain _ _ _ (plain_lt v)), lev_semi. reflexivity.
  Qed.
  Lemma lev_entry_dict L k d rest :
    levels_go L (entry_toks (k, Dict d) ++ rest)
    = (L, kt k) :: (L, t_lbrace) :: levels_go (L + 1) (entries d) ++ (L, t_rbrace) :: levels_go L rest.
  Proof.
    replace (entry_toks (k, Dict d)) with (kt k :: toks_tree lt kt true (Dict d)).
    - cbn [app]. rewrite (lev_plain _ _ _ (plain_kt k)), lev_item_dict. reflexivity.
    - unfold TokProofs.entry_toks. cbn [fst snd]. rewrite !toks_dict. cbn [app]. rewrite app_nil_r. reflexivity.
  Qed.
  Lemma lev_entry_lst L k l rest :
    levels_go L (entry_toks (k, Lst l) ++ rest)
    = (L, kt k) :: (L, t_lpar) :: levels_go (L + 1) (items l) ++ (L, t_rpar) :: (L, t_semi) :: levels_go L rest.
  Proof.
    unfold TokProofs.entry_toks. cbn [fst snd]. cbn [app]. rewrite <- app_assoc.
    rewrite (lev_plain _ _ _ (plain_kt k)), lev_item_lst. cbn [app]. rewrite lev_semi. reflexivity.
  Qed.

  Lemma nc_kt k : nc (kt k).
  Proof. destruct (plain_inv _ (plain_kt k)) as (_ & _ & _ & A & _). exact A. Qed.

  Definition dict_spec (kvs : list (key * tree)) : Prop :=
    forall L (pre tail : list ztok) acc f (ts : list ztok) ti,
    ts = pre ++ levels_go L (entries kvs) ++ tail -> ti = Z.of_nat (length pre) ->
    pre_ok pre -> tail_ok tail ->
    (length (entries kvs) + length tail + 4 <= f)%nat ->
    keys_nodup (map fst acc ++ map fst kvs) = true ->
    forallb (fun kc => wf (snd kc)) kvs = true ->
    skeys (Dict kvs) = true ->
    parse_dict_go f ts ti acc = Ok (acc ++ map mkv kvs).

  Definition list_spec (l : list tree) : Prop :=
    forall L f (ts : list ztok),
    ts = (L, t_lpar) :: levels_go (L + 1) (items l) ++ [(L, t_rpar)] ->
    (length (items l) + 2 + 4 <= f)%nat -> forallb wf l = true ->
    skeys (Lst l) = true ->
    parse_list_go f ts 0 L [] = Ok (map (map_leaves nv) l).

  Definition items_spec (l : list tree) : Prop :=
    forall L (pre : list ztok) acc f (ts : list ztok) ti,
    ts = pre ++ levels_go (L + 1) (items l) ++ [(L, t_rpar)] -> ti = Z.of_nat (length pre) ->
    (length (items l) + 1 + 4 <= f)%nat -> forallb wf l = true ->
    skeys (Lst l) = true ->
    parse_list_go f ts ti L acc = Ok (rev acc ++ map (map_leaves nv) l).

  Definition P (t : tree) : Prop :=
    match t with Leaf _ => True | Dict kvs => dict_spec kvs | Lst l => list_spec l end.

  Ltac norm_in H := repeat (first [rewrite <- app_assoc in H | progress cbn [app] in H]).
  Ltac fuel f Hf := destruct f as [|f]; [exfalso; cbn [length] in Hf; lia|].

  Lemma dict_loop kvs : Forall (fun kc => P (snd kc)) kvs -> dict_spec kvs.
  Proof.
    induction 1 as [|[k c] kvs Hc Hall IH]; intros L pre tail acc f ts ti Hts Hti Hpre Htail Hf Hnd Hwf Hsim.
    - cbn [TokProofs.entries flat_map levels_go app] in Hts. cbn [map]. rewrite app_nil_r.
      destruct Htail as [->|[l ->]].
      + fuel f Hf. apply pd_end. apply py_nth_end. len_eq.
      + fuel f Hf. fuel f Hf.
        rewrite (pd_skip (S f) ts ti acc l []); [| |lia|reflexivity..].
        * apply pd_end. apply py_nth_end. len_eq.
        * apply py_nth_split with (a := pre) (b := []); [exact Hts|exact Hti].
    - assert (Hlen : length (entries ((k, c) :: kvs)) = (length (entry_toks (k, c)) + length (entries kvs))%nat).
      { unfold TokProofs.entries. cbn [flat_map]. apply app_length. }
      change (entries ((k, c) :: kvs)) with (entry_toks (k, c) ++ entries kvs) in Hts.
      cbn [map fst] in Hnd. cbn [forallb snd] in Hwf. apply andb_true_iff in Hwf. destruct Hwf as [Hwc Hwf].
      cbn [map]. unfold TokProofs.mkv at 1. cbn [fst snd].
      rewrite skeys_dict_cons in Hsim. apply andb_true_iff in Hsim. destruct Hsim as [Hsim Hs3].
      apply andb_true_iff in Hsim. destruct Hsim as [Hs1 Hs2].
      pose proof (Hkpk k Hs1) as Hpk.
      cbn [snd] in Hc.
      destruct c as [v|d|l].
      + (* k v ; *)
        rewrite lev_entry_leaf in Hts. norm_in Hts.
        assert (Hel : length (entry_toks (k, Leaf v)) = 3%nat) by reflexivity.
        rewrite Hlen, Hel in Hf. clear Hlen Hel.
        do 6 (fuel f Hf).
        rewrite (pd_plain _ ts ti acc L (kt k)); [| |lia|apply plain_kt].
        2:{ rewrite Hts. apply (py_nth_off pre []). len_eq. }
        rewrite (pd_plain _ ts (ti + 1) acc L (lt v)); [| |lia|apply plain_lt].
        2:{ rewrite Hts. apply (py_nth_off pre [(L, kt k)]). len_eq. }
        rewrite (pd_kv f ts (ti + 1 + 1) acc L (kt k) (lt v) k (nv v)).
        * destruct (aset_step k (Leaf (nv v)) acc (map fst kvs) Hnd) as [Has Hnd'].
          rewrite Has.
          rewrite (IH L (pre ++ [(L, kt k); (L, lt v); (L, t_semi)]) tail (acc ++ [(k, Leaf (nv v))]) _ ts (ti + 1 + 1 + 1)).
          -- cbn [map_leaves]. rewrite <- app_assoc. reflexivity.
          -- list_eq.
          -- len_eq.
          -- right. exists (pre ++ [(L, kt k); (L, lt v)]), L, t_semi. split; [list_eq|left; reflexivity].
          -- exact Htail.
          -- lia.
          -- exact Hnd'.
          -- exact Hwf.
          -- exact Hs3.
        * rewrite Hts. apply (py_nth_off pre [(L, kt k); (L, lt v)]). len_eq.
        * rewrite Hts. apply (py_nth_off pre [(L, kt k)]). len_eq.
        * rewrite Hts. apply (py_nth_off pre []). len_eq.
        * apply plain_kt.
        * apply plain_lt.
        * lia.
        * eapply stop3_of_pre; [exact Hpre|exact Hts|lia].
        * exact Hpk.
        * exact (proj2 (Hlt v)).
      + (* k { ... } *)
        rewrite lev_entry_dict in Hts. norm_in Hts.
        assert (Hel : length (entry_toks (k, Dict d)) = (length (entries d) + 3)%nat).
        { unfold TokProofs.entry_toks. cbn [fst snd]. rewrite toks_dict. cbn [app]. rewrite app_nil_r. len_eq. }
        rewrite Hlen, Hel in Hf. clear Hlen Hel.
        destruct (good_ge_nc (entries d) (L + 1) (good_entries d)) as [Hge Hncc].
        rewrite wf_dict in Hwc. apply andb_true_iff in Hwc. destruct Hwc as [Hnd_d Hwf_d].
        do 3 (fuel f Hf).
        rewrite (pd_plain _ ts ti acc L (kt k)); [| |lia|apply plain_kt].
        2:{ rewrite Hts. apply (py_nth_off pre []). len_eq. }
        assert (Hd : parse_dict_go (S f) (levels_go (L + 1) (entries d)) 0 [] = Ok (map mkv d)).
        { apply (Hc (L + 1) [] [] [] (S f)).
          - rewrite app_nil_r. reflexivity.
          - reflexivity.
          - left. reflexivity.
          - left. reflexivity.
          - cbn [length]. lia.
          - exact Hnd_d.
          - exact Hwf_d.
          - exact Hs2. }
        rewrite (pd_open_dict f ts pre (levels_go (L + 1) (entries d)) (levels_go L (entries kvs) ++ tail)
                   (ti + 1) acc L (kt k) k (map mkv d));
          [|exact Hts|lia|apply nc_kt|exact Hpk|exact Hge|exact Hncc|len_eq|exact Hd].
        destruct (aset_step k (Dict (map mkv d)) acc (map fst kvs) Hnd) as [Has Hnd'].
        rewrite Has. rewrite map_leaves_dict.
        rewrite (IH L (pre ++ (L, kt k) :: (L, t_lbrace) :: levels_go (L + 1) (entries d) ++ [(L, t_rbrace)])
                   tail (acc ++ [(k, Dict (map mkv d))]) _ ts
                   (ti + 1 + Z.of_nat (length (levels_go (L + 1) (entries d))) + 2)).
        * rewrite <- app_assoc. reflexivity.
        * list_eq.
        * len_eq.
        * right. exists (pre ++ (L, kt k) :: (L, t_lbrace) :: levels_go (L + 1) (entries d)), L, t_rbrace.
          split; [list_eq|right; reflexivity].
        * exact Htail.
        * lia.
        * exact Hnd'.
        * exact Hwf.
        * exact Hs3.
      + (* k ( ... ) ; *)
        rewrite lev_entry_lst in Hts. norm_in Hts.
        assert (Hel : length (entry_toks (k, Lst l)) = (length (items l) + 4)%nat).
        { unfold TokProofs.entry_toks. cbn [fst snd]. rewrite toks_lst. len_eq. }
        rewrite Hlen, Hel in Hf. clear Hlen Hel.
        destruct (good_ge_nc (items l) (L + 1) (good_items l)) as [Hge Hncc].
        rewrite wf_lst in Hwc.
        do 4 (fuel f Hf).
        rewrite (pd_plain _ ts ti acc L (kt k)); [| |lia|apply plain_kt].
        2:{ rewrite Hts. apply (py_nth_off pre []). len_eq. }
        rewrite (pd_open_list (S f) ts pre (levels_go (L + 1) (items l)) (levels_go L (entries kvs) ++ tail)
                   (ti + 1) acc L (kt k) k (map (map_leaves nv) l));
          [|exact Hts|lia|apply nc_kt|exact Hpk|exact Hge|len_eq| |].
        2:{ intros He. apply (f_equal (@length _)) in He. rewrite levels_go_length in He. cbn [length] in He.
            apply length_zero_iff_nil in He. apply items_nil in He. subst l. reflexivity. }
        2:{ intros _. apply (Hc L (S (S f))); [reflexivity|lia|exact Hwc|exact Hs2]. }
        rewrite (pd_semi_rpar (S f) ts (ti + 1 + Z.of_nat (length (levels_go (L + 1) (items l))) + 2) _ L L).
        * destruct (aset_step k (Lst (map (map_leaves nv) l)) acc (map fst kvs) Hnd) as [Has Hnd'].
          rewrite Has. rewrite map_leaves_lst.
          rewrite (IH L (pre ++ (L, kt k) :: (L, t_lpar) :: levels_go (L + 1) (items l) ++ [(L, t_rpar); (L, t_semi)])
                     tail (acc ++ [(k, Lst (map (map_leaves nv) l))]) _ ts
                     (ti + 1 + Z.of_nat (length (levels_go (L + 1) (items l))) + 2 + 1)).
          -- rewrite <- app_assoc. reflexivity.
          -- list_eq.
          -- len_eq.
          -- right. exists (pre ++ (L, kt k) :: (L, t_lpar) :: levels_go (L + 1) (items l) ++ [(L, t_rpar)]), L, t_semi.
             split; [list_eq|left; reflexivity].
          -- exact Htail.
          -- lia.
          -- exact Hnd'.
          -- exact Hwf.
          -- exact Hs3.
        * apply py_nth_split with (a := pre ++ (L, kt k) :: (L, t_lpar) :: levels_go (L + 1) (items l) ++ [(L, t_rpar)])
                                  (b := levels_go L (entries kvs) ++ tail); [list_eq|len_eq].
        * lia.
        * apply py_nth_split with (a := pre ++ (L, kt k) :: (L, t_lpar) :: levels_go (L + 1) (items l))
                                  (b := (L, t_semi) :: levels_go L (entries kvs) ++ tail); [list_eq|len_eq].
  Qed.

  Lemma list_loop l : Forall P l -> items_spec l.
  Proof.
    induction 1 as [|c l Hc Hall IH]; intros L pre acc f ts ti Hts Hti Hf Hwf Hsim.
    - cbn [TokProofs.items flat_map levels_go app] in Hts. cbn [map]. rewrite app_nil_r.
      fuel f Hf. fuel f Hf.
      rewrite (pl_rpar (S f) ts ti L acc L); [| |lia].
      + apply pl_end. apply py_nth_end. len_eq.
      + apply py_nth_split with (a := pre) (b := []); [exact Hts|exact Hti].
    - assert (Hlen : length (items (c :: l)) = (length (toks_tree lt kt true c) + length (items l))%nat).
      { unfold TokProofs.items. cbn [flat_map]. apply app_length. }
      change (items (c :: l)) with (toks_tree lt kt true c ++ items l) in Hts.
      cbn [forallb] in Hwf. apply andb_true_iff in Hwf. destruct Hwf as [Hwc Hwf].
      rewrite skeys_lst_cons in Hsim. apply andb_true_iff in Hsim. destruct Hsim as [Hs2 Hs3].
      cbn [map].
      destruct c as [v|d|l'].
      + (* scalar item *)
        rewrite toks_leaf in Hts. cbn [app] in Hts. rewrite (lev_plain _ _ _ (plain_lt v)) in Hts. norm_in Hts.
        fuel f Hf.
        rewrite (pl_leaf f ts ti L acc (L + 1) (lt v) (nv v)); [| |lia|apply plain_lt|exact (proj2 (Hlt v))].
        2:{ rewrite Hts. apply (py_nth_off pre []). len_eq. }
        rewrite (IH L (pre ++ [(L + 1, lt v)]) (Leaf (nv v) :: acc) f ts (ti + 1)).
        * cbn [rev map_leaves]. rewrite <- app_assoc. reflexivity.
        * list_eq.
        * len_eq.
        * rewrite Hlen in Hf. cbn [toks_tree length] in Hf. lia.
        * exact Hwf.
        * exact Hs3.
      + (* dict item *)
        rewrite lev_item_dict in Hts. norm_in Hts.
        assert (Hel : length (toks_tree lt kt true (Dict d)) = (length (entries d) + 2)%nat).
        { rewrite toks_dict. len_eq. }
        rewrite Hlen, Hel in Hf. clear Hlen Hel.
        destruct (good_ge_nc (entries d) (L + 1 + 1) (good_entries d)) as [Hge Hncc].
        rewrite wf_dict in Hwc. apply andb_true_iff in Hwc. destruct Hwc as [Hnd_d Hwf_d].
        cbn [P] in Hc.
        do 2 (fuel f Hf).
        assert (Hd : parse_dict_go (S f) (levels_go (L + 1 + 1) (entries d)) 0 [] = Ok (map mkv d)).
        { apply (Hc (L + 1 + 1) [] [] [] (S f)).
          - rewrite app_nil_r. reflexivity.
          - reflexivity.
          - left. reflexivity.
          - left. reflexivity.
          - cbn [length]. lia.
          - exact Hnd_d.
          - exact Hwf_d.
          - exact Hs2. }
        rewrite (pl_open_dict f ts pre (levels_go (L + 1 + 1) (entries d)) (levels_go (L + 1) (items l) ++ [(L, t_rpar)])
                   ti L acc (L + 1) (map mkv d));
          [|exact Hts|exact Hti|lia|exact Hge|exact Hncc|len_eq|exact Hd].
        rewrite map_leaves_dict.
        rewrite (IH L (pre ++ (L + 1, t_lbrace) :: levels_go (L + 1 + 1) (entries d) ++ [(L + 1, t_rbrace)])
                   (Dict (map mkv d) :: acc) _ ts
                   (ti + Z.of_nat (length (levels_go (L + 1 + 1) (entries d))) + 2)).
        * cbn [rev]. rewrite <- app_assoc. reflexivity.
        * list_eq.
        * len_eq.
        * lia.
        * exact Hwf.
        * exact Hs3.
      + (* list item *)
        rewrite lev_item_lst in Hts. norm_in Hts.
        assert (Hel : length (toks_tree lt kt true (Lst l')) = (length (items l') + 2)%nat).
        { rewrite toks_lst. len_eq. }
        rewrite Hlen, Hel in Hf. clear Hlen Hel.
        destruct (good_ge_nc (items l') (L + 1 + 1) (good_items l')) as [Hge Hncc].
        rewrite wf_lst in Hwc.
        cbn [P] in Hc.
        do 2 (fuel f Hf).
        rewrite (pl_open_list f ts pre (levels_go (L + 1 + 1) (items l')) (levels_go (L + 1) (items l) ++ [(L, t_rpar)])
                   ti L acc (L + 1) (map (map_leaves nv) l'));
          [|exact Hts|exact Hti|lia|exact Hge|len_eq| |].
        2:{ intros He. apply (f_equal (@length _)) in He. rewrite levels_go_length in He. cbn [length] in He.
            apply length_zero_iff_nil in He. apply items_nil in He. subst l'. reflexivity. }
        2:{ intros _. apply (Hc (L + 1) (S f)); [reflexivity|lia|exact Hwc|exact Hs2]. }
        rewrite map_leaves_lst.
        rewrite (IH L (pre ++ (L + 1, t_lpar) :: levels_go (L + 1 + 1) (items l') ++ [(L + 1, t_rpar)])
                   (Lst (map (map_leaves nv) l') :: acc) _ ts
                   (ti + Z.of_nat (length (levels_go (L + 1 + 1) (items l'))) + 2)).
        * cbn [rev]. rewrite <- app_assoc. reflexivity.
        * list_eq.
        * len_eq.
        * lia.
        * exact Hwf.
        * exact Hs3.
  Qed.

  Lemma P_all : forall t, P t.
  Proof.
    induction t as [v|kvs IH|l IH] using tree_ind'.
    - exact I.
    - cbn [P]. apply dict_loop. exact IH.
    - cbn [P]. intros L f ts Hts Hf Hwf Hsim.
      fuel f Hf.
      rewrite (pl_lpar f ts 0 L []); [| |lia].
      + rewrite (list_loop l IH L [(L, t_lpar)] [] f ts (0 + 1)).
        * reflexivity.
        * exact Hts.
        * reflexivity.
        * lia.
        * exact Hwf.
        * exact Hsim.
      + rewrite Hts. reflexivity.
  Qed.

  Theorem tok_roundtrip_main kvs :
    wf (Dict kvs) = true -> skeys (Dict kvs) = true ->
    parse_tokens (toks_doc lt kt kvs) = Ok (kvs_of (map_leaves nv (Dict kvs))).
  Proof.
    intros Hwf Hsim. rewrite wf_dict in Hwf. apply andb_true_iff in Hwf. destruct Hwf as [Hnd Hwf].
    rewrite map_leaves_dict. cbn [kvs_of].
    unfold parse_tokens, toks_doc, levels. rewrite toks_dict. cbn [app]. rewrite app_nil_r.
    rewrite levels_go_app, (g_net _ (good_entries kvs)).
    change (levels_go (0 + 0) [[]]) with [(0, @nil N)].
    apply (P_all (Dict kvs) 0 [] [(0, [])] []).
    - reflexivity.
    - reflexivity.
    - left. reflexivity.
    - right. exists 0. reflexivity.
    - rewrite app_length, levels_go_length. cbn [length]. lia.
    - exact Hnd.
    - exact Hwf.
    - exact Hsim.
  Qed.
End Main.

End TRK.
