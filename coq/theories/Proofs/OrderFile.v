(* Proofs for C15, second part: the order OPTION of read / write / parse, SDict.order_keys on the whole SDict,
   closure of the writer domain under ordering, and "an ordered file reads back to the same data". *)
From Coq Require Import String.
From Coq Require Import NArith ZArith List Bool Sorted Permutation.
From Coq Require Import Lia ZifyBool ZifyNat ZifyN.
From DictIO Require Import Chars Str Value Scalar KeyPath SDict Layout Lexer TokParser Reader Expr Eval Cli Parse.
From DictIO Require Import TreeSpec NativeSpec E2ESpec OrderProofs KeyPathProofs TokProofs E2EKeyTok E2EInsert E2EHoles E2EFullProofs
WriteProofs XmlProofs AnyLayoutProofs E2EProofs.
Import ListNotations.

(* ================================================================================================ *)
(* 1. the key order is a total preorder: transitivity                                               *)
(* ================================================================================================ *)
Lemma str_ltb_trans : forall a b c : list N, str_ltb a b = true -> str_ltb b c = true -> str_ltb a c = true.
Proof.
  induction a as [|x a IH]; intros [|y b] [|z c] H1 H2; simpl in *; try discriminate; try reflexivity.
  destruct (N.ltb x y) eqn:Exy.
  - destruct (N.ltb y z) eqn:Eyz.
    + assert (E : N.ltb x z = true) by lia. rewrite E. reflexivity.
    + destruct (N.ltb z y) eqn:Ezy; [discriminate|].
      assert (E : N.ltb x z = true) by lia. rewrite E. reflexivity.
  - destruct (N.ltb y x) eqn:Eyx; [discriminate|].
    destruct (N.ltb y z) eqn:Eyz.
    + assert (E : N.ltb x z = true) by lia. rewrite E. reflexivity.
    + destruct (N.ltb z y) eqn:Ezy; [discriminate|].
      assert (E : N.ltb x z = false) by lia. assert (E' : N.ltb z x = false) by lia. rewrite E, E'.
      exact (IH b c H1 H2).
Qed.

Lemma str_ltb_tricho : forall a b : list N, str_ltb a b = false -> str_ltb b a = false -> a = b.
Proof.
  induction a as [|x a IH]; intros [|y b] H1 H2; simpl in *; try discriminate; try reflexivity.
  destruct (N.ltb x y) eqn:Exy; [discriminate|]. destruct (N.ltb y x) eqn:Eyx; [discriminate|].
  assert (x = y) by lia. subst y. f_equal. exact (IH b H1 H2).
Qed.

Lemma key_ltb_trans : forall a b c, key_ltb a b = true -> key_ltb b c = true -> key_ltb a c = true.
Proof.
  intros [x|x] [y|y] [z|z] H1 H2; simpl in *; try discriminate; try reflexivity.
  - lia.
  - exact (str_ltb_trans x y z H1 H2).
Qed.

Lemma key_ltb_tricho : forall a b, key_ltb a b = false -> key_ltb b a = false -> a = b.
Proof.
  intros [x|x] [y|y] H1 H2; simpl in *; try discriminate.
  - f_equal. lia.
  - f_equal. exact (str_ltb_tricho x y H1 H2).
Qed.

Lemma key_leb_trans : forall a b c, key_leb a b = true -> key_leb b c = true -> key_leb a c = true.
Proof.
  intros a b c H1 H2. unfold key_leb in *. apply negb_true_iff in H1, H2. apply negb_true_iff.
  destruct (key_ltb c a) eqn:E; [|reflexivity].
  destruct (key_ltb a b) eqn:Eab.
  - rewrite (key_ltb_trans c a b E Eab) in H2. discriminate.
  - pose proof (key_ltb_tricho a b Eab H1) as ->. rewrite E in H2. discriminate.
Qed.

(* ================================================================================================ *)
(* 2. a filter on keys commutes with the stable sort                                                *)
(* ================================================================================================ *)
Section FilterSort.
  Context {V : Type} (pk : key -> bool).
  Let P (kv : key * V) : bool := pk (fst kv).

  Lemma sorted_head_le : forall k ks, keys_sorted (k :: ks) = true -> Forall (fun k' => key_leb k k' = true) ks.
  Proof.
    intros k ks. revert k. induction ks as [|k1 ks IH]; intros k H; [constructor|].
    cbn [keys_sorted] in H. apply andb_true_iff in H. destruct H as [H1 H2].
    constructor; [exact H1|].
    specialize (IH k1 H2). eapply Forall_impl; [|exact IH].
    intros k' Hk'. cbv beta in *. exact (key_leb_trans k k1 k' H1 Hk').
  Qed.

  Lemma insert_kv_below : forall kv (l : list (key * V)),
    Forall (fun k' => key_leb (fst kv) k' = true) (map fst l) -> insert_kv kv l = kv :: l.
  Proof.
    intros kv [|h l] H; [reflexivity|]. cbn [insert_kv]. cbn [map] in H. inversion H as [|? ? H1 _]; subst.
    rewrite H1. reflexivity.
  Qed.

  Lemma Forall_filter_keys : forall (Q : key -> Prop) (l : list (key * V)),
    Forall Q (map fst l) -> Forall Q (map fst (filter P l)).
  Proof.
    intros Q l. induction l as [|h l IH]; intros H; [constructor|].
    cbn [map] in H. inversion H as [|? ? H1 H2]; subst. cbn [filter]. destruct (P h); [|exact (IH H2)].
    cbn [map]. constructor; [exact H1 | exact (IH H2)].
  Qed.

  Lemma filter_insert_kv : forall kv (l : list (key * V)), keys_sorted (map fst l) = true ->
    filter P (insert_kv kv l) = if P kv then insert_kv kv (filter P l) else filter P l.
  Proof.
    intros kv l. induction l as [|h l IH]; intros Hs.
    - cbn [insert_kv filter]. destruct (P kv); reflexivity.
    - cbn [insert_kv]. destruct (key_leb (fst kv) (fst h)) eqn:E.
      + cbn [filter]. destruct (P kv) eqn:Ekv; [|reflexivity].
        destruct (P h) eqn:Eh.
        * cbn [insert_kv]. rewrite E. reflexivity.
        * symmetry. apply insert_kv_below. apply Forall_filter_keys.
          cbn [map] in Hs. pose proof (sorted_head_le _ _ Hs) as Hall.
          eapply Forall_impl; [|exact Hall]. intros k' Hk'. cbv beta in *.
          exact (key_leb_trans _ _ _ E Hk').
      + cbn [filter]. cbn [map] in Hs. rewrite (IH (keys_sorted_cons _ _ Hs)).
        destruct (P kv) eqn:Ekv; destruct (P h) eqn:Eh; try reflexivity.
        cbn [insert_kv]. rewrite E. reflexivity.
  Qed.

  Lemma filter_sort_kvs : forall l : list (key * V), filter P (sort_kvs l) = sort_kvs (filter P l).
  Proof.
    induction l as [|h l IH]; [reflexivity|].
    cbn [sort_kvs]. rewrite filter_insert_kv by apply sort_kvs_sorted.
    cbn [filter]. destruct (P h); [cbn [sort_kvs]; rewrite IH; reflexivity | exact IH].
  Qed.
End FilterSort.

Lemma filter_map_snd {V W} (f : V -> W) (pk : key -> bool) (l : list (key * V)) :
  filter (fun kv => pk (fst kv)) (map_snd f l) = map_snd f (filter (fun kv => pk (fst kv)) l).
Proof.
  induction l as [|h l IH]; [reflexivity|]. cbn [map_snd map filter fst].
  destruct (pk (fst h)); [cbn [map]; f_equal; exact IH | exact IH].
Qed.

(* _remove_include_keys (a filter on the top-level keys) commutes with ordering *)
Lemma remove_include_keys_order : forall d,
  remove_include_keys (kvs_of (order_tree (Dict d))) = kvs_of (order_tree (Dict (remove_include_keys d))).
Proof.
  intros d. rewrite !order_tree_dict. cbn [kvs_of]. unfold remove_include_keys.
  set (pk := fun k : key => match k with KS s => negb (has_include_mark s) | KI _ => true end).
  change (filter (fun kv : key * tree => pk (fst kv)) (sort_kvs (map_snd order_tree d)) =
          sort_kvs (map_snd order_tree (filter (fun kv : key * tree => pk (fst kv)) d))).
  rewrite (filter_sort_kvs pk), filter_map_snd. reflexivity.
Qed.

(* ================================================================================================ *)
(* 3. the side tables: stable sort by id                                                            *)
(* ================================================================================================ *)
Fixpoint ids_sorted (l : list N) : bool :=
  match l with
  | [] => true
  | i :: l' => match l' with [] => true | j :: _ => N.leb i j end && ids_sorted l'
  end.

Section TSortFacts.
  Context {V : Type}.
  Implicit Types (l : list (N * V)) (kv : N * V).

  Lemma tinsert_perm : forall kv l, Permutation (tinsert kv l) (kv :: l).
  Proof.
    intros kv l. induction l as [|h l IH]; simpl; [apply Permutation_refl|].
    destruct (N.leb (fst kv) (fst h)); [apply Permutation_refl|].
    eapply perm_trans; [apply perm_skip; exact IH | apply perm_swap].
  Qed.
  Lemma tsort_perm : forall l, Permutation (tsort l) l.
  Proof.
    induction l as [|h l IH]; simpl; [apply perm_nil|].
    eapply perm_trans; [apply tinsert_perm | apply perm_skip; exact IH].
  Qed.

  Lemma tinsert_sorted : forall kv l, ids_sorted (map fst l) = true -> ids_sorted (map fst (tinsert kv l)) = true.
  Proof.
    intros kv l. induction l as [|h l IH]; intros Hs; [reflexivity|].
    cbn [tinsert]. destruct (N.leb (fst kv) (fst h)) eqn:E.
    - change (ids_sorted (fst kv :: map fst (h :: l)) = true).
      change ((N.leb (fst kv) (fst h) && ids_sorted (map fst (h :: l))) = true). rewrite E, Hs. reflexivity.
    - cbn [map] in Hs. cbn [ids_sorted] in Hs. apply andb_true_iff in Hs. destruct Hs as [Hs1 Hs2].
      specialize (IH Hs2). cbn [map]. cbn [ids_sorted]. rewrite IH, andb_true_r.
      destruct l as [|h2 l2]; cbn [tinsert map]; [lia|].
      destruct (N.leb (fst kv) (fst h2)); cbn [map]; [lia | exact Hs1].
  Qed.
  Lemma tsort_sorted : forall l, ids_sorted (map fst (tsort l)) = true.
  Proof. induction l as [|h l IH]; [reflexivity|]. cbn [tsort]. apply tinsert_sorted. exact IH. Qed.

  Lemma tsort_id : forall l, ids_sorted (map fst l) = true -> tsort l = l.
  Proof.
    induction l as [|h l IH]; intros Hs; [reflexivity|].
    cbn [map ids_sorted] in Hs. apply andb_true_iff in Hs. destruct Hs as [Hs1 Hs2].
    cbn [tsort]. rewrite (IH Hs2). destruct l as [|h2 l2]; [reflexivity|].
    cbn [tinsert]. cbn [map] in Hs1. rewrite Hs1. reflexivity.
  Qed.
  Lemma tsort_idem : forall l, tsort (tsort l) = tsort l.
  Proof. intros l. apply tsort_id. apply tsort_sorted. Qed.

  (* stability: the entry found for an id is the same one *)
  Lemma tlookup_tinsert : forall i kv l, tlookup i (tinsert kv l) = tlookup i (kv :: l).
  Proof.
    intros i kv l. induction l as [|h l IH]; [reflexivity|].
    cbn [tinsert]. destruct (N.leb (fst kv) (fst h)) eqn:E; [reflexivity|].
    destruct kv as [i1 v1]. destruct h as [i2 v2]. cbn [fst] in E. cbn [tlookup] in *. rewrite IH.
    destruct (N.eqb i i2) eqn:E2; [|reflexivity].
    destruct (N.eqb i i1) eqn:E1; [|reflexivity]. lia.
  Qed.
  Lemma tlookup_tsort : forall i l, tlookup i (tsort l) = tlookup i l.
  Proof.
    intros i l. induction l as [|[i1 v1] l IH]; [reflexivity|].
    cbn [tsort]. rewrite tlookup_tinsert. cbn [tlookup]. rewrite IH. reflexivity.
  Qed.
End TSortFacts.

(* ================================================================================================ *)
(* 4. SDict.order_keys                                                                              *)
(* ================================================================================================ *)
Lemma sd_order_eq : forall s,
  sd_order s = mkSD (kvs_of (order_tree (Dict (sd_data s)))) (tsort (sd_lc s)) (tsort (sd_bc s)) (tsort (sd_inc s))
                    (tsort (sd_expr s)).
Proof. intros s. unfold sd_order. rewrite order_tree_dict. reflexivity. Qed.

Lemma kvs_of_order_dict : forall d, Dict (kvs_of (order_tree (Dict d))) = order_tree (Dict d).
Proof. intros d. rewrite order_tree_dict. reflexivity. Qed.

Lemma sd_order_idem : forall s, sd_order (sd_order s) = sd_order s.
Proof.
  intros s. rewrite (sd_order_eq (sd_order s)). rewrite (sd_order_eq s). cbn [sd_data sd_lc sd_bc sd_inc sd_expr].
  rewrite kvs_of_order_dict, order_idem, !tsort_idem. reflexivity.
Qed.

(* the data: order_tree semantics; the four side tables: the same entries, stably sorted by id *)
Lemma sd_order_spec : forall s,
  Dict (sd_data (sd_order s)) = order_tree (Dict (sd_data s)) /\
  sd_lc (sd_order s) = tsort (sd_lc s) /\ sd_bc (sd_order s) = tsort (sd_bc s) /\
  sd_inc (sd_order s) = tsort (sd_inc s) /\ sd_expr (sd_order s) = tsort (sd_expr s).
Proof.
  intros s. rewrite sd_order_eq. cbn [sd_data sd_lc sd_bc sd_inc sd_expr]. rewrite kvs_of_order_dict.
  repeat split; reflexivity.
Qed.

Lemma tsort_spec : forall (V : Type) (l : list (N * V)),
  Permutation (tsort l) l /\ ids_sorted (map fst (tsort l)) = true /\ (forall i, tlookup i (tsort l) = tlookup i l) /\
  (ids_sorted (map fst l) = true -> tsort l = l).
Proof.
  intros V l. split; [apply tsort_perm|]. split; [apply tsort_sorted|]. split; [intros i; apply tlookup_tsort|].
  apply tsort_id.
Qed.

(* ================================================================================================ *)
(* 5. the order option of DictReader.read                                                           *)
(* ================================================================================================ *)
Definition opt_res_map {A B} (f : A -> B) (r : option (res A)) : option (res B) :=
  match r with
  | None => None
  | Some (Raise e) => Some (Raise e)
  | Some (Ok a) => Some (Ok (f a))
  end.
Definition on_fst {A B C} (f : A -> B) (p : A * C) : B * C := (f (fst p), snd p).

Lemma read_order_option : forall fs root includes comments scope count,
  read_opts fs root includes true comments scope count =
  opt_res_map (on_fst sd_order) (read_opts fs root includes false comments scope count).
Proof.
  intros fs root includes comments scope count. unfold read_opts.
  destruct (scope_keys scope) as [sk|]; [|reflexivity].
  destruct (fs_lookup (norm_path root) fs) as [u|]; [|reflexivity].
  destruct (parse_unit comments root count u) as [pr|e]; [|reflexivity].
  destruct (if includes then merge_includes fs comments (pr_sd pr) (pr_count pr) else Ok (pr_sd pr, pr_count pr))
    as [[s c]|e]; [|reflexivity].
  destruct (eval_expressions s) as [[s1|e]|]; [|reflexivity|reflexivity].
  match goal with |- match ?X with _ => _ end = _ => destruct X as [s2|e] end; [|reflexivity].
  cbv zeta. cbn [opt_res_map]. f_equal. f_equal.
  destruct includes; [reflexivity|].
  rewrite (sd_order_eq s2). cbn [sd_data sd_lc sd_bc sd_inc sd_expr].
  unfold on_fst. cbn [fst snd]. rewrite sd_order_eq. cbn [sd_data sd_lc sd_bc sd_inc sd_expr].
  rewrite remove_include_keys_order. reflexivity.
Qed.

(* ================================================================================================ *)
(* 6. the typing pass of the writer commutes with ordering; the order option of DictWriter.write    *)
(* ================================================================================================ *)
Lemma map_snd_map_snd {A B C} (f : A -> B) (g : B -> C) (l : list (key * A)) :
  map_snd g (map_snd f l) = map_snd (fun x => g (f x)) l.
Proof. unfold map_snd. rewrite map_map. reflexivity. Qed.

Lemma map_snd_ext_in {A B} (f g : A -> B) (l : list (key * A)) :
  (forall kv, In kv l -> f (snd kv) = g (snd kv)) -> map_snd f l = map_snd g l.
Proof. intros H. unfold map_snd. apply map_ext_in. intros kv Hin. rewrite (H kv Hin). reflexivity. Qed.

Lemma tmap_dict : forall kvs, XmlProofs.tmap (Dict kvs) = Dict (map_snd XmlProofs.tmap kvs).
Proof. reflexivity. Qed.

Lemma tmap_order : forall t, XmlProofs.tmap (order_tree t) = order_tree (XmlProofs.tmap t).
Proof.
  induction t as [v|kvs IH|ts IH] using tree_ind'; try reflexivity.
  rewrite tmap_dict, !order_tree_dict, tmap_dict. f_equal.
  rewrite <- sort_kvs_map_snd. f_equal. rewrite !map_snd_map_snd.
  apply map_snd_ext_in. intros kv Hin. rewrite Forall_forall in IH. exact (IH kv Hin).
Qed.

Definition render (foam : bool) (s : sdict) : str := if foam then foam_to_string_sd s else to_string_sd s.

(* the source as DictWriter.write sees it after parse_values (which never raises) *)
Definition typed_src (s : sdict) : sdict :=
  mkSD (kvs_of_tree (XmlProofs.tmap (Dict (sd_data s)))) (sd_lc s) (sd_bc s) (sd_inc s) (sd_expr s).

Lemma typed_src_order : forall s, typed_src (sd_order s) = sd_order (typed_src s).
Proof.
  intros s. unfold typed_src. rewrite (sd_order_eq s). cbn [sd_data sd_lc sd_bc sd_inc sd_expr].
  rewrite kvs_of_order_dict, tmap_order, sd_order_eq. cbn [sd_data sd_lc sd_bc sd_inc sd_expr].
  rewrite tmap_dict. cbn [kvs_of_tree]. rewrite order_tree_dict. reflexivity.
Qed.

(* write_sd unfolded: no append (or nothing to append to) *)
Lemma write_sd_fresh : forall fs foam target (append : bool) order s count,
  (if append then fs_lookup (norm_path target) fs else None) = None ->
  write_sd fs foam target append order s count =
  Some (Ok (render foam (if order then sd_order (typed_src s) else typed_src s), count)).
Proof.
  intros fs foam target append order s count H. unfold write_sd. rewrite XmlProofs.parse_values_tree_tmap.
  rewrite H. unfold render, typed_src. destruct order; destruct foam; reflexivity.
Qed.

Lemma write_order_option : forall fs foam target (append : bool) s count,
  (if append then fs_lookup (norm_path target) fs else None) = None ->
  write_sd fs foam target append true s count = write_sd fs foam target append false (sd_order s) count.
Proof.
  intros fs foam target append s count H. rewrite !write_sd_fresh by exact H.
  rewrite typed_src_order. reflexivity.
Qed.

(* append onto an existing target: the target is read ORDERED, the source merged into it, the result ordered *)
Lemma write_order_option_append : forall fs foam target s count u,
  fs_lookup (norm_path target) fs = Some u ->
  write_sd fs foam target true true s count =
  opt_res_map (fun ec => (render foam (sd_order (sd_merge (sd_order (fst ec)) (sd_data (typed_src s)) (Some (typed_src s)))),
                          snd ec))
              (read_opts fs target true false true [] count).
Proof.
  intros fs foam target s count u H. unfold write_sd. rewrite XmlProofs.parse_values_tree_tmap. rewrite H.
  rewrite read_order_option. fold (typed_src s).
  destruct (read_opts fs target true false true [] count) as [[[ex c]|e]|]; cbn [opt_res_map on_fst fst snd]; try reflexivity.
Qed.
Lemma write_noorder_append : forall fs foam target s count u,
  fs_lookup (norm_path target) fs = Some u ->
  write_sd fs foam target true false s count =
  opt_res_map (fun ec => (render foam (sd_merge (fst ec) (sd_data (typed_src s)) (Some (typed_src s))), snd ec))
              (read_opts fs target true false true [] count).
Proof.
  intros fs foam target s count u H. unfold write_sd. rewrite XmlProofs.parse_values_tree_tmap. rewrite H.
  fold (typed_src s).
  destruct (read_opts fs target true false true [] count) as [[[ex c]|e]|]; cbn [opt_res_map on_fst fst snd]; try reflexivity.
Qed.

(* ================================================================================================ *)
(* 7. the writer domain is closed under ordering                                                    *)
(* ================================================================================================ *)
Lemma bool_eq_iff : forall a b : bool, (a = true <-> b = true) -> a = b.
Proof. intros [|] [|] [H1 H2]; try reflexivity; [symmetry; apply H1; reflexivity | apply H2; reflexivity]. Qed.

Lemma forallb_perm {A} (f : A -> bool) (l l' : list A) : Permutation l l' -> forallb f l = forallb f l'.
Proof.
  intros H. induction H as [|x l l' _ IH|x y l|l l' l'' _ IH1 _ IH2]; cbn [forallb].
  - reflexivity.
  - rewrite IH. reflexivity.
  - destruct (f x); destruct (f y); reflexivity.
  - rewrite IH1. exact IH2.
Qed.

Lemma keys_nodup_perm : forall ks ks', Permutation ks ks' -> keys_nodup ks = keys_nodup ks'.
Proof.
  intros ks ks' H. apply bool_eq_iff. rewrite !SDictProofs.keys_nodup_iff. split; intros Hn.
  - exact (Permutation_NoDup H Hn).
  - exact (Permutation_NoDup (Permutation_sym H) Hn).
Qed.

Lemma forallb_map_snd {V W} (f : V -> W) (g : key * W -> bool) (l : list (key * V)) :
  forallb g (map_snd f l) = forallb (fun kv => g (fst kv, f (snd kv))) l.
Proof. unfold map_snd. induction l as [|h l IH]; [reflexivity|]. cbn [map forallb]. rewrite IH. reflexivity. Qed.

Lemma forallb_ext_in {A} (f g : A -> bool) (l : list A) : (forall x, In x l -> f x = g x) -> forallb f l = forallb g l.
Proof.
  induction l as [|h l IH]; intros H; [reflexivity|]. cbn [forallb].
  rewrite (H h (or_introl eq_refl)), IH; [reflexivity|]. intros x Hx. apply H. right. exact Hx.
Qed.

(* a per-entry test over the entries of an ordered dict level *)
Lemma forallb_order_level (g : key * tree -> bool) (kvs : list (key * tree)) :
  (forall kv, In kv kvs -> g (fst kv, order_tree (snd kv)) = g kv) ->
  forallb g (sort_kvs (map_snd order_tree kvs)) = forallb g kvs.
Proof.
  intros H. rewrite (forallb_perm g _ _ (sort_kvs_perm _)), forallb_map_snd.
  apply forallb_ext_in. intros [k c] Hin. exact (H (k, c) Hin).
Qed.

Lemma order_wf : forall t, wf (order_tree t) = wf t.
Proof.
  induction t as [v|kvs IH|ts IH] using tree_ind'; try reflexivity.
  rewrite order_tree_dict, !wf_dict. f_equal.
  - apply keys_nodup_perm. eapply perm_trans; [apply Permutation_map; apply sort_kvs_perm|].
    rewrite map_snd_fst. apply Permutation_refl.
  - apply (forallb_order_level (fun kv => wf (snd kv))). intros kv Hin. cbn [snd].
    rewrite Forall_forall in IH. exact (IH kv Hin).
Qed.

Lemma ktree_dict ok kvs : ktree ok (Dict kvs) = forallb (fun kc => simple_key (fst kc) && ktree ok (snd kc)) kvs.
Proof.
  induction kvs as [|[k c] kvs IH]; [reflexivity|]. rewrite ktree_dict_cons, IH. reflexivity.
Qed.

Lemma order_ktree ok : forall t, ktree ok (order_tree t) = ktree ok t.
Proof.
  induction t as [v|kvs IH|ts IH] using tree_ind'; try reflexivity.
  rewrite order_tree_dict, !ktree_dict.
  apply (forallb_order_level (fun kc => simple_key (fst kc) && ktree ok (snd kc))). intros kv Hin. cbn [fst snd].
  rewrite Forall_forall in IH. rewrite (IH kv Hin). reflexivity.
Qed.

Lemma order_writable : forall t, writable_tree (order_tree t) = writable_tree t.
Proof. intros t. rewrite !writable_ktree. apply order_ktree. Qed.

Lemma order_simple : forall t, simple_tree (order_tree t) = simple_tree t.
Proof. intros t. rewrite !AnyLayoutProofs.simple_ktree. apply order_ktree. Qed.

Lemma order_lw PW : forall t b, lw PW b (order_tree t) = lw PW b t.
Proof.
  induction t as [v|kvs IH|ts IH] using tree_ind'; intros b; try reflexivity.
  rewrite order_tree_dict, !lw_dict.
  apply (forallb_order_level (fun kc => lw PW (Nat.pred b) (snd kc))). intros kv Hin. cbn [snd].
  rewrite Forall_forall in IH. exact (IH kv Hin (Nat.pred b)).
Qed.

Lemma order_quoted_within : forall b t, quoted_within b (order_tree t) = quoted_within b t.
Proof. intros b t. unfold quoted_within. apply order_lw. Qed.

(* the number of quoted leaves *)
Definition nq_level (kvs : list (key * tree)) : nat := fold_right (fun kc n => (nq (snd kc) + n)%nat) 0%nat kvs.
Lemma nq_dict kvs : nq (Dict kvs) = nq_level kvs.
Proof. induction kvs as [|[k c] kvs IH]; [reflexivity|]. rewrite nq_dict_cons, IH. reflexivity. Qed.
Lemma nq_level_perm l l' : Permutation l l' -> nq_level l = nq_level l'.
Proof.
  intros H. unfold nq_level. induction H as [|x l l' _ IH|x y l|l l' l'' _ IH1 _ IH2]; cbn [fold_right] in *.
  - reflexivity.
  - rewrite IH. reflexivity.
  - lia.
  - rewrite IH1. exact IH2.
Qed.
Lemma order_nq : forall t, nq (order_tree t) = nq t.
Proof.
  induction t as [v|kvs IH|ts IH] using tree_ind'; try reflexivity.
  rewrite order_tree_dict, !nq_dict. rewrite (nq_level_perm _ _ (sort_kvs_perm _)).
  unfold map_snd. induction IH as [|[k c] kvs Hc _ IHk]; [reflexivity|].
  cbn [map nq_level fold_right fst snd] in *. rewrite Hc. f_equal. exact IHk.
Qed.

(* ================================================================================================ *)
(* 8. an ordered file reads back to the same data as the unordered one                               *)
(* ================================================================================================ *)
Lemma map_leaves_order f : forall t, map_leaves f (order_tree t) = order_tree (map_leaves f t).
Proof.
  induction t as [v|kvs IH|ts IH] using tree_ind'; try reflexivity.
  rewrite order_tree_dict, !TokProofs.map_leaves_dict, order_tree_dict. f_equal.
  change (map (TokProofs.mkv f)) with (@map_snd tree tree (map_leaves f)).
  rewrite <- sort_kvs_map_snd. f_equal. rewrite !map_snd_map_snd.
  apply map_snd_ext_in. intros kv Hin. rewrite Forall_forall in IH. exact (IH kv Hin).
Qed.

Definition ordered_kvs (kvs : list (key * tree)) : list (key * tree) := kvs_of (order_tree (Dict kvs)).

Lemma ordered_kvs_dict kvs : Dict (ordered_kvs kvs) = order_tree (Dict kvs).
Proof. apply kvs_of_order_dict. Qed.

Lemma sd_order_plain d : sd_order (mkSD d [] [] [] []) = mkSD (ordered_kvs d) [] [] [] [].
Proof. rewrite sd_order_eq. reflexivity. Qed.

Theorem ordered_file_reads_back : forall kvs dirc count,
  wf (Dict kvs) = true -> writable_tree (Dict kvs) = true ->
  (-1 <= count)%Z -> (Z.of_nat (nq (Dict kvs)) <= 1000000)%Z -> quoted_within 11 (Dict kvs) = true ->
  (* the ordered dict is in the writer domain again *)
  (wf (Dict (ordered_kvs kvs)) = true /\ writable_tree (Dict (ordered_kvs kvs)) = true /\
   nq (Dict (ordered_kvs kvs)) = nq (Dict kvs) /\ quoted_within 11 (Dict (ordered_kvs kvs)) = true) /\
  (* both files are read, and the ordered file gives the ordered data of the unordered file *)
  exists s count',
    parse_string true dirc count (to_string_plain kvs) = Ok (mkParsed s count') /\
    parse_string true dirc count (to_string_plain (ordered_kvs kvs)) = Ok (mkParsed (sd_order s) count') /\
    sd_data s = kvs_of (map_leaves written_value (Dict kvs)) /\
    sd_data (sd_order s) = ordered_kvs (sd_data s) /\
    (* same association at every key path *)
    forall p, get_dpath (Dict (sd_data (sd_order s))) p = option_map order_child (get_dpath (Dict (sd_data s)) p).
Proof.
  intros kvs dirc count Hw Hwr Hc Hn Hdeep.
  assert (C1 : wf (Dict (ordered_kvs kvs)) = true) by (rewrite ordered_kvs_dict, order_wf; exact Hw).
  assert (C2 : writable_tree (Dict (ordered_kvs kvs)) = true) by (rewrite ordered_kvs_dict, order_writable; exact Hwr).
  assert (C3 : nq (Dict (ordered_kvs kvs)) = nq (Dict kvs)) by (rewrite ordered_kvs_dict; apply order_nq).
  assert (C4 : quoted_within 11 (Dict (ordered_kvs kvs)) = true) by (rewrite ordered_kvs_dict, order_quoted_within; exact Hdeep).
  split; [exact (conj C1 (conj C2 (conj C3 C4)))|].
  pose proof (ids_nodup count (nq (Dict kvs)) Hc Hn) as Hnd.
  exists (mkSD (kvs_of (map_leaves written_value (Dict kvs))) [] [] [] []), (cafter count (nq (Dict kvs))).
  split; [exact (roundtrip_native_nodup kvs dirc count Hw Hwr Hnd Hdeep)|].
  rewrite sd_order_plain. cbn [sd_data].
  split.
  - rewrite <- C3 in Hnd. rewrite (roundtrip_native_nodup (ordered_kvs kvs) dirc count C1 C2 Hnd C4).
    rewrite C3, ordered_kvs_dict, map_leaves_order. unfold ordered_kvs.
    rewrite TokProofs.map_leaves_dict. reflexivity.
  - split; [reflexivity|]. split; [reflexivity|].
    intros p. rewrite ordered_kvs_dict. apply order_assoc_deep.
Qed.

(* ================================================================================================ *)
(* 9. the order option of DictParser.parse (no append): read unordered, order the SDict ONCE, write  *)
(*    unordered                                                                                      *)
(* ================================================================================================ *)
Lemma parse_order_option : forall fs src includes comments scope output count,
  parse_model fs src includes false true comments scope output count =
  match output_kind output with
  | None => None
  | Some foam0 =>
      match read_opts fs src includes false comments scope count with
      | None => None
      | Some (Raise e) => Some (Raise e)
      | Some (Ok (s, c)) =>
          let name := target_file_name (base_name src) (Some (of_string "parsed")) scope output in
          let target := dir_of src ++ [c_slash] ++ name in
          let foam := foam0 || ends_with (of_string ".foam") name in
          if ends_with (of_string ".json") name || ends_with (of_string ".xml") name then None else
          match write_sd fs foam target false false (sd_order s) c with
          | None => None
          | Some (Raise e) => Some (Raise e)
          | Some (Ok (txt, c')) => Some (Ok (dir_of src ++ [c_slash] ++ name, txt, c'))
          end
      end
  end.
Proof.
  intros fs src includes comments scope output count. unfold parse_model.
  destruct (output_kind output) as [foam0|]; [|reflexivity].
  rewrite read_order_option.
  destruct (read_opts fs src includes false comments scope count) as [[[s c]|e]|]; cbn [opt_res_map on_fst fst snd];
    try reflexivity.
  cbv zeta. rewrite write_order_option by reflexivity. rewrite sd_order_idem. reflexivity.
Qed.

(* ================================================================================================ *)
(* 10. append + order: the existing target is ordered BEFORE the merge as well.  For an arbitrary    *)
(*     SDict (one that still holds two comments with the same text: never the result of a read,       *)
(*     which has removed such duplicates) the inner ordering is not absorbed by the outer one: it     *)
(*     decides which of the two placeholders survives _clean                                         *)
(* ================================================================================================ *)
Definition preorder_ex : sdict :=
  mkSD [(KS (of_string "LINECOMMENT000001"), Leaf (SStr (of_string "LINECOMMENT000001")));
        (KS (of_string "LINECOMMENT000000"), Leaf (SStr (of_string "LINECOMMENT000000")))]
       [(1%N, of_string "// c"); (0%N, of_string "// c")] [] [] [].
Lemma append_preorder_finding :
  sd_order (sd_merge (sd_order preorder_ex) [] None) =
    mkSD [(KS (of_string "LINECOMMENT000000"), Leaf (SStr (of_string "LINECOMMENT000000")))] [(0%N, of_string "// c")] [] [] [] /\
  sd_order (sd_merge preorder_ex [] None) =
    mkSD [(KS (of_string "LINECOMMENT000001"), Leaf (SStr (of_string "LINECOMMENT000001")))] [(1%N, of_string "// c")] [] [] [].
Proof. vm_compute. split; reflexivity. Qed.

(* ================================================================================================ *)
(* 11. the statements in model vocabulary only (for Properties/C15)                                  *)
(* ================================================================================================ *)
Lemma read_order_option_x : forall fs root includes comments scope count,
  read_opts fs root includes true comments scope count =
  match read_opts fs root includes false comments scope count with
  | None => None
  | Some (Raise e) => Some (Raise e)
  | Some (Ok (s, c)) => Some (Ok (sd_order s, c))
  end.
Proof.
  intros. rewrite read_order_option.
  destruct (read_opts fs root includes false comments scope count) as [[[s c]|e]|]; reflexivity.
Qed.

Lemma pvt_total : forall t, exists t', parse_values_tree t = Ok t'.
Proof. intros t. exists (XmlProofs.tmap t). apply XmlProofs.parse_values_tree_tmap. Qed.

Lemma pvt_order : forall t t', parse_values_tree t = Ok t' -> parse_values_tree (order_tree t) = Ok (order_tree t').
Proof.
  intros t t' H. rewrite XmlProofs.parse_values_tree_tmap in *. injection H as <-. rewrite tmap_order. reflexivity.
Qed.

Lemma write_order_option_append_x : forall fs foam target s count u t,
  fs_lookup (norm_path target) fs = Some u ->
  parse_values_tree (Dict (sd_data s)) = Ok t ->
  let src := mkSD (kvs_of_tree t) (sd_lc s) (sd_bc s) (sd_inc s) (sd_expr s) in
  write_sd fs foam target true true s count =
  match read_opts fs target true false true [] count with
  | None => None
  | Some (Raise e) => Some (Raise e)
  | Some (Ok (existing, c)) =>
      let m := sd_order (sd_merge (sd_order existing) (sd_data src) (Some src)) in
      Some (Ok (if foam then foam_to_string_sd m else to_string_sd m, c))
  end.
Proof.
  intros fs foam target s count u t H Ht src.
  rewrite (write_order_option_append fs foam target s count u H).
  assert (E : typed_src s = src).
  { unfold typed_src, src. rewrite XmlProofs.parse_values_tree_tmap in Ht. injection Ht as <-. reflexivity. }
  rewrite E.
  destruct (read_opts fs target true false true [] count) as [[[ex c]|e]|]; reflexivity.
Qed.

Lemma writer_domain_closed : forall t,
  wf (order_tree t) = wf t /\ writable_tree (order_tree t) = writable_tree t /\ simple_tree (order_tree t) = simple_tree t /\
  nq (order_tree t) = nq t /\ (forall b, quoted_within b (order_tree t) = quoted_within b t) /\
  (forall f, map_leaves f (order_tree t) = order_tree (map_leaves f t)).
Proof.
  intros t. split; [apply order_wf|]. split; [apply order_writable|]. split; [apply order_simple|].
  split; [apply order_nq|]. split; [intros b; apply order_quoted_within | intros f; apply map_leaves_order].
Qed.

(* ================================================================================================ *)
(* 12. ordering when the file is written  =  ordering when the file is read (DictReader.read with    *)
(*     include processing off)                                                                       *)
(* ================================================================================================ *)
Lemma include_mark_contains : forall s, has_include_mark s = true -> contains w_INCLUDE s = true.
Proof.
  induction s as [|c s IH]; intros H.
  - cbn in H. discriminate H.
  - cbn [has_include_mark] in H. cbn [contains]. apply orb_true_iff in H. destruct H as [H|H].
    + apply andb_true_iff in H. destruct H as [H _]. rewrite H. reflexivity.
    + rewrite (IH H). apply orb_true_r.
Qed.

Lemma simple_key_no_include_mark : forall k, simple_key k = true ->
  match k with KS s => negb (has_include_mark s) | KI _ => true end = true.
Proof.
  intros [z|s] H; [reflexivity|]. destruct (E2EProofs.simple_key_inv _ H) as (H1 & H2 & _).
  cbn [key_text] in H2. rewrite <- H2 in H1. unfold simple_tok in H1.
  apply andb_true_iff in H1. destruct H1 as [_ H1]. unfold no_reserved_word in H1.
  apply andb_true_iff in H1. destruct H1 as [H1 _]. apply andb_true_iff in H1. destruct H1 as [H1 _].
  apply andb_true_iff in H1. destruct H1 as [_ H1]. apply negb_true_iff in H1. apply negb_true_iff.
  destruct (has_include_mark s) eqn:E; [|reflexivity]. rewrite (include_mark_contains s E) in H1. discriminate H1.
Qed.

Lemma remove_include_keys_simple : forall d, (forall kc, In kc d -> simple_key (fst kc) = true) -> remove_include_keys d = d.
Proof.
  induction d as [|h d IH]; intros H; [reflexivity|]. unfold remove_include_keys in *. cbn [filter].
  rewrite (simple_key_no_include_mark (fst h) (H h (or_introl eq_refl))). f_equal. apply IH.
  intros kc Hin. apply H. right. exact Hin.
Qed.

(* read of a file whose parse leaves no side table, include processing off *)
Lemma read_opts_plain_file : forall fs root text order count D c',
  fs_lookup (norm_path root) fs = Some (FNative text) ->
  parse_string true (dir_of root) count text = Ok (mkParsed (mkSD D [] [] [] []) c') ->
  read_opts fs root false order true [] count =
  Some (Ok (mkSD (remove_include_keys (if order then ordered_kvs D else D)) [] [] [] [], c')).
Proof.
  intros fs root text order count D c' Hf Hp. unfold read_opts. cbn [scope_keys]. rewrite Hf.
  cbn [parse_unit]. rewrite Hp. cbn [pr_sd pr_count].
  change (eval_expressions (mkSD D [] [] [] [])) with (Some (Ok (mkSD D [] [] [] []))).
  cbv iota beta zeta. destruct order; [rewrite sd_order_plain|]; reflexivity.
Qed.

Theorem order_at_write_or_at_read : forall kvs root count fsU fsO,
  wf (Dict kvs) = true -> writable_tree (Dict kvs) = true ->
  (-1 <= count)%Z -> (Z.of_nat (nq (Dict kvs)) <= 1000000)%Z -> quoted_within 11 (Dict kvs) = true ->
  fs_lookup (norm_path root) fsU = Some (FNative (to_string_plain kvs)) ->
  fs_lookup (norm_path root) fsO = Some (FNative (to_string_plain (kvs_of (order_tree (Dict kvs))))) ->
  exists s c',
    read_opts fsU root false false true [] count = Some (Ok (s, c')) /\
    read_opts fsU root false true true [] count = Some (Ok (sd_order s, c')) /\
    read_opts fsO root false false true [] count = Some (Ok (sd_order s, c')) /\
    read_opts fsO root false true true [] count = Some (Ok (sd_order s, c')) /\
    sd_data s = kvs_of (map_leaves written_value (Dict kvs)).
Proof.
  intros kvs root count fsU fsO Hw Hwr Hc Hn Hdeep HU HO.
  destruct (ordered_file_reads_back kvs (dir_of root) count Hw Hwr Hc Hn Hdeep) as [_ (s & c' & E1 & E2 & E3 & E4 & _)].
  assert (Es : s = mkSD (sd_data s) [] [] [] []).
  { pose proof (roundtrip_native_nodup kvs (dir_of root) count Hw Hwr (ids_nodup count _ Hc Hn) Hdeep) as R.
    rewrite E1 in R. injection R as R _. rewrite R. reflexivity. }
  assert (Hk : forall kc, In kc (sd_data s) -> simple_key (fst kc) = true).
  { rewrite E3, TokProofs.map_leaves_dict. cbn [kvs_of]. intros kc Hin. apply in_map_iff in Hin.
    destruct Hin as (kc0 & <- & Hin0). cbn [TokProofs.mkv fst]. rewrite writable_ktree in Hwr.
    exact (ktree_dict_keys _ _ Hwr kc0 Hin0). }
  assert (Hko : forall kc, In kc (ordered_kvs (sd_data s)) -> simple_key (fst kc) = true).
  { intros kc Hin. unfold ordered_kvs in Hin. rewrite order_tree_dict in Hin. cbn [kvs_of] in Hin.
    apply (Permutation_in _ (sort_kvs_perm _)) in Hin. unfold map_snd in Hin. apply in_map_iff in Hin.
    destruct Hin as (kc0 & <- & Hin0). cbn [fst]. exact (Hk kc0 Hin0). }
  assert (Eo : sd_order s = mkSD (ordered_kvs (sd_data s)) [] [] [] []) by (rewrite Es at 1; apply sd_order_plain).
  assert (Eoo : ordered_kvs (ordered_kvs (sd_data s)) = ordered_kvs (sd_data s)).
  { unfold ordered_kvs at 1. rewrite ordered_kvs_dict, order_idem. reflexivity. }
  exists s, c'. rewrite Es in E1. rewrite Eo in E2.
  rewrite (read_opts_plain_file fsU root _ false count _ c' HU E1).
  rewrite (read_opts_plain_file fsU root _ true count _ c' HU E1).
  rewrite (read_opts_plain_file fsO root _ false count _ c' HO E2).
  rewrite (read_opts_plain_file fsO root _ true count _ c' HO E2).
  rewrite Eoo, (remove_include_keys_simple _ Hk), (remove_include_keys_simple _ Hko), Eo, <- Es.
  repeat split; try reflexivity. exact E3.
Qed.
