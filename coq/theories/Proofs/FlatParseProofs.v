(* C05, the missing link: the native front end really delivers the SDict the C05 theorems speak about.
   [render_pdoc p] is the native text of a document p of the class of IndexSpec (one statement per entry, entries
   separated by line feeds; nested dicts, lists, quoted expressions, bare references);  parse_string on it gives
   psdict_ord q (ptab q)  where q = pnumbered c p is p with the expression ids the parser hands out (quoted expressions
   first, then bare references) and ptab q is the flattened document in the order of the parser's table.
   Main results: parser_delivers_psdict (section 9), numbering_composes, text_direct_value (section 11).
   Route: the text is a layout of the token list (1); removing the line endings joins the statements with blanks (2, 5);
   the joined text is a list of plain stretches / quoted expressions / bare references in the sense of JsonNativeExpr (4), so
   scan_segs / xe_segs give the literal stage (nothing) and the expression stage (placeholders, table); the text behind the
   stage is the same layout of the tokens of  pdata q nothing  (4, 6); LayoutProofs.layout_scan + tokens_full give the tokens,
   TRK.tok_roundtrip_main the dict (8).
   NOT covered (see the findings in Properties/C05_add.v):
   - static strings that need quotes (pdoc_plain asks for bare leaves): the literal stage numbers them first, the expression
     ids are shifted by their number (C05_parser_quoted_static_finding); the statement would have to start the numbering
     at  cafter c (number of literals)  and go through _insert_string_literals;
   - other layouts of the same token list (any white space, the writer's indentation), comments, includes;
   - repeated quoted expression texts (the statement is false there: C05_parser_duplicate_expression_finding). *)
From Coq Require Import String.
From Coq Require Import NArith ZArith List Bool Lia ZifyBool ZifyN ZifyNat Permutation.
From DictIO Require Import Chars Str Value Scalar KeyPath SDict Layout Lexer TokParser Reader Expr Eval
     TreeSpec NativeSpec LayoutSpec E2ESpec MiscSpec EvalSpec FlatSpec IndexSpec.
From DictIO Require ScalarProofs SDictProofs TokProofs LayoutProofs SemProofs QuoteProofs KeyPathProofs FlatDataProofs.
From DictIO Require Import E2EProofs E2EHoles E2EInsert E2EKeyTok E2EFullProofs AnyLayoutLex AnyLayoutProofs
     AnyLayoutComments JsonNativeProofs JsonNativeExpr.
Import ListNotations.
Open Scope N_scope.

(* ================================================================================================ *)
(* 0. the text of a document                                                                        *)
(* ================================================================================================ *)

(* tokens joined by one blank; nothing in front of a semicolon *)
Fixpoint tjoin (ts : list str) : str :=
  match ts with
  | [] => []
  | x :: r => match r with
              | [] => x
              | y :: _ => x ++ (if str_eqb y t_semi then [] else [c_sp]) ++ tjoin r
              end
  end.
(* statements joined by a separator character *)
Fixpoint pjoin (sep : N) (ls : list str) : str :=
  match ls with
  | [] => []
  | x :: r => match r with [] => x | _ :: _ => x ++ sep :: pjoin sep r end
  end.
Definition etxt (lt : scalar -> str) (kt : key -> str) (kv : key * tree) : str := tjoin (TokProofs.entry_toks lt kt kv).
Definition dtxt (lt : scalar -> str) (kt : key -> str) (sep : N) (kvs : list (key * tree)) : str :=
  pjoin sep (map (etxt lt kt) kvs).

(* the source text of a leaf: a string with a dollar is a bare reference ($y, $l[1]) or a double-quoted expression;
   every other leaf is written as the formatter writes it *)
Definition src_text (e : str) : str := if is_ref_str e then e else dq e.
Definition ltSrc (v : scalar) : str :=
  match v with
  | SStr s => if has_char c_dollar s then src_text s else format_scalar v
  | _ => format_scalar v
  end.
(* the dict whose text is written: expressions as the strings they are *)
Definition psrc_entry (it : pitem) : key * tree :=
  match it with
  | PDyn x (FInt z) => (KS x, Leaf (SInt z))
  | PDyn x (FExp _ g a) => (KS x, Leaf (SStr (render g a)))
  | PStat x t => (KS x, t)
  end.
Definition psrc (p : pdoc) : list (key * tree) := map psrc_entry p.

(* x 5;  x "<expression>";  x $y;  sub { y 4; deep { z 5; } }  l ( 3 5 8 );   one statement per line *)
Definition render_pdoc (p : pdoc) : str := dtxt ltSrc key_text c_lf (psrc p) ++ [c_lf].

(* ---- the numbering of the parser: quoted expressions from one list of ids, bare references from another ---- *)
Definition bare_exp (g : nat -> str) (a : aexp) : bool := is_ref_str (render g a).
Fixpoint pnum (es rs : list N) (p : pdoc) : pdoc :=
  match p with
  | [] => []
  | PDyn x (FExp i g a) :: r =>
      if bare_exp g a then PDyn x (FExp (hd 0 rs) g a) :: pnum es (tl rs) r
      else PDyn x (FExp (hd 0 es) g a) :: pnum (tl es) rs r
  | it :: r => it :: pnum es rs r
  end.
Definition qexp_item (it : pitem) : list str :=
  match it with PDyn _ (FExp _ g a) => if bare_exp g a then [] else [render g a] | _ => [] end.
Definition bexp_item (it : pitem) : list str :=
  match it with PDyn _ (FExp _ g a) => if bare_exp g a then [render g a] else [] | _ => [] end.
Definition qexps (p : pdoc) : list str := flat_map qexp_item p.
Definition bexps (p : pdoc) : list str := flat_map bexp_item p.

(* the order of the table of expressions: quoted expressions, bare references (then the integers, which have no entry) *)
Definition is_q (xv : str * fval) : bool := match snd xv with FExp _ g a => negb (bare_exp g a) | FInt _ => false end.
Definition is_b (xv : str * fval) : bool := match snd xv with FExp _ g a => bare_exp g a | FInt _ => false end.
Definition is_i (xv : str * fval) : bool := match snd xv with FExp _ _ _ => false | FInt _ => true end.
Definition ptab (p : pdoc) : fdoc := filter is_q (psem p) ++ filter is_b (psem p) ++ filter is_i (psem p).

(* what the parser delivers for the text of p, the counter standing at [count] *)
Definition pparsed (count : Z) (p : pdoc) : parsed :=
  let ne := length (qexps p) in let nr := length (bexps p) in
  let c' := cafter count ne in
  let q := pnum (ids count ne) (ids c' nr) p in
  mkParsed (psdict_ord q (ptab q) [] [] []) (cafter c' nr).

(* ================================================================================================ *)
(* 1. the text is a layout of the token list                                                        *)
(* ================================================================================================ *)
Lemma tjoin_cons2 x y r : tjoin (x :: y :: r) = x ++ (if str_eqb y t_semi then [] else [c_sp]) ++ tjoin (y :: r).
Proof. reflexivity. Qed.
Lemma pjoin_cons2 sep x y r : pjoin sep (x :: y :: r) = x ++ sep :: pjoin sep (y :: r).
Proof. reflexivity. Qed.

Lemma rendering_tjoin : forall ts, rendering ts (tjoin ts).
Proof.
  induction ts as [|x ts IH]; [constructor|]. destruct ts as [|y r]; [constructor|].
  rewrite tjoin_cons2. apply r_cons; [exact IH| |].
  - destruct (str_eqb y t_semi); [constructor|constructor; [reflexivity|constructor]].
  - destruct (str_eqb y t_semi) eqn:E; [|left; discriminate].
    right. right. apply SDictProofs.str_eqb_eq in E. subst y. exists c_semi. split; reflexivity.
Qed.

Lemma rendering_app : forall a A, rendering a A -> forall b B w, a <> [] -> b <> [] -> rendering b B -> ws_run w -> w <> [] ->
  rendering (a ++ b) (A ++ w ++ B).
Proof.
  induction 1 as [|x|x y l w0 txt R IH Hw0 Hsep]; intros b B w Ha Hb RB Hw Hne.
  - congruence.
  - destruct b as [|y l]; [congruence|]. cbn [app]. apply r_cons; [exact RB|exact Hw|left; exact Hne].
  - cbn [app]. rewrite <- !app_assoc. apply r_cons; [|exact Hw0|exact Hsep].
    apply (IH b B w); [discriminate|exact Hb|exact RB|exact Hw|exact Hne].
Qed.

Lemma entry_toks_ne lt kt kv : TokProofs.entry_toks lt kt kv <> [].
Proof. destruct kv as [k [v|d|l]]; unfold TokProofs.entry_toks; cbn [fst snd app]; discriminate. Qed.

Lemma entries_ne lt kt kv kvs : TokProofs.entries lt kt (kv :: kvs) <> [].
Proof.
  rewrite entries_cons'. intros H. apply app_eq_nil in H. exact (entry_toks_ne lt kt kv (proj1 H)).
Qed.

Lemma rendering_dtxt lt kt sep : is_space sep = true -> forall kvs,
  rendering (TokProofs.entries lt kt kvs) (dtxt lt kt sep kvs).
Proof.
  intros Hs. induction kvs as [|kv kvs IH]; [constructor|]. destruct kvs as [|kv' r].
  - unfold dtxt, TokProofs.entries. cbn [map pjoin flat_map]. rewrite app_nil_r. apply rendering_tjoin.
  - rewrite entries_cons'. unfold dtxt in *. cbn [map]. rewrite pjoin_cons2.
    change (etxt lt kt kv ++ sep :: ?x) with (etxt lt kt kv ++ [sep] ++ x).
    apply rendering_app; [apply rendering_tjoin|apply entry_toks_ne|apply entries_ne|exact IH| |discriminate].
    constructor; [exact Hs|constructor].
Qed.

(* characters *)
Lemma tjoin_chars (P : N -> bool) : P c_sp = true -> forall ts, Forall (fun x => forallb P x = true) ts -> forallb P (tjoin ts) = true.
Proof.
  intros Hsp. induction ts as [|x ts IH]; intros H; [reflexivity|]. inversion H as [|x' ts' Hx Hts]; subst.
  destruct ts as [|y r]; [exact Hx|]. rewrite tjoin_cons2, !forallb_app, Hx. unfold cp, str in *. rewrite (IH Hts).
  destruct (str_eqb y t_semi); cbn [forallb]; rewrite ?Hsp; reflexivity.
Qed.
Lemma pjoin_chars (P : N -> bool) sep : P sep = true -> forall ls, Forall (fun x => forallb P x = true) ls -> forallb P (pjoin sep ls) = true.
Proof.
  intros Hsp. induction ls as [|x ls IH]; intros H; [reflexivity|]. inversion H as [|x' ls' Hx Hls]; subst.
  destruct ls as [|y r]; [exact Hx|]. rewrite pjoin_cons2, forallb_app, Hx. cbn [forallb]. unfold cp, str in *. rewrite Hsp, (IH Hls). reflexivity.
Qed.

Lemma entries_one lt kt kv : TokProofs.entries lt kt [kv] = TokProofs.entry_toks lt kt kv.
Proof. unfold TokProofs.entries. cbn [flat_map]. apply app_nil_r. Qed.
Lemma entries_toks lt kt kvs : TokProofs.entries lt kt kvs = toks_tree lt kt false (Dict kvs).
Proof. rewrite TokProofs.toks_dict. cbn [app]. rewrite app_nil_r. reflexivity. Qed.

Lemma ktree_one ok k t : ktree ok (Dict [(k, t)]) = simple_key k && ktree ok t.
Proof. rewrite ktree_dict_cons. cbn [ktree]. rewrite andb_true_r. reflexivity. Qed.

(* the tokens of two token functions that agree on the leaves and keys of the tree *)
Lemma toks_ext lt1 kt1 lt2 kt2 ok : (forall v, ok v = true -> lt1 v = lt2 v) -> (forall k, simple_key k = true -> kt1 k = kt2 k) ->
  forall t b, ktree ok t = true -> toks_tree lt1 kt1 b t = toks_tree lt2 kt2 b t.
Proof.
  intros Hl Hk. induction t as [v|kvs IH|ts IH] using tree_ind'; intros b H.
  - cbn [toks_tree]. rewrite (Hl v H). reflexivity.
  - rewrite !TokProofs.toks_dict. f_equal. f_equal.
    induction IH as [|[k c] kvs Hc _ IHk]; [reflexivity|].
    rewrite ktree_dict_cons in H. apply andb_true_iff in H. destruct H as [H H3]. apply andb_true_iff in H. destruct H as [H1 H2].
    rewrite !entries_cons', (IHk H3). f_equal. cbn [snd] in Hc. unfold TokProofs.entry_toks. cbn [fst snd].
    rewrite (Hk k H1). destruct c as [v|d|l].
    + cbn [ktree] in H2. rewrite (Hl v H2). reflexivity.
    + rewrite (Hc false H2). reflexivity.
    + rewrite (Hc true H2). reflexivity.
  - rewrite !(TokProofs.toks_lst_b _ _ b), !TokProofs.toks_lst. f_equal. f_equal.
    induction IH as [|c l Hc _ IHl]; [reflexivity|].
    rewrite ktree_lst_cons in H. apply andb_true_iff in H. destruct H as [H1 H2].
    rewrite !items_cons', (Hc true H1), (IHl H2). reflexivity.
Qed.

(* ================================================================================================ *)
(* 2. removing the line endings                                                                     *)
(* ================================================================================================ *)
From DictIO Require ArithProofs RefTextProofs FlatEngine FlatIndexProofs.
From DictIO Require Import EvalProofs.

(* a text that begins with h and ends with d *)
Definition ends (x : str) (h d : N) : Prop := (exists m, x = h :: m) /\ (exists m, x = m ++ [d]).

Lemma tjoin_head : forall ts h r rest, ts = (h :: r) :: rest -> exists m, tjoin ts = h :: m.
Proof.
  intros ts h r rest ->. destruct rest as [|y l]; [exists r; reflexivity|]. rewrite tjoin_cons2. cbn [app]. eexists. reflexivity.
Qed.
Lemma tjoin_last : forall pre d, exists m, tjoin (pre ++ [[d]]) = m ++ [d].
Proof.
  induction pre as [|x pre IH]; intros d; [exists []; reflexivity|]. destruct (IH d) as [m Em].
  cbn [app]. destruct (pre ++ [[d]]) as [|y l] eqn:E; [destruct pre; discriminate E|].
  rewrite tjoin_cons2. unfold cp, str in *. rewrite Em. exists (x ++ (if str_eqb y t_semi then [] else [c_sp]) ++ m). rewrite <- !app_assoc. reflexivity.
Qed.

Lemma pjoin_ends (Q : N -> Prop) sep : forall ls x h d, Forall (fun y => exists h' d', ends y h' d' /\ Q d') ls -> ends x h d -> Q d ->
  exists d', ends (pjoin sep (x :: ls)) h d' /\ Q d'.
Proof.
  induction ls as [|y ls IH]; intros x h d Hl Hx Hq; [exists d; split; assumption|].
  inversion Hl as [|y' ls' (h' & d' & Hy & Hq') Hls]; subst. destruct (IH y h' d' Hls Hy Hq') as (d2 & [_ [m2 E2]] & Hq2).
  exists d2. split; [|exact Hq2]. rewrite pjoin_cons2. destruct Hx as [[m1 E1] _]. split.
  - rewrite E1. cbn [app]. eexists. reflexivity.
  - rewrite E2. exists (x ++ sep :: m2). rewrite <- app_assoc. reflexivity.
Qed.

Lemma pjoin_map_lf : forall ls, Forall (fun x => has_char c_lf x = false) ls -> map lf2sp (pjoin c_lf ls) = pjoin c_sp ls.
Proof.
  induction ls as [|x ls IH]; intros H; [reflexivity|]. inversion H as [|x' ls' Hx Hls]; subst.
  destruct ls as [|y r]; [exact (map_lf2sp_nolf x Hx)|]. rewrite !pjoin_cons2, map_app. cbn [map]. unfold cp, str in *.
  rewrite (map_lf2sp_nolf x Hx), (IH Hls). reflexivity.
Qed.

Lemma strip_ends (X : str) h d : ends X h d -> is_space h = false -> is_space d = false -> strip (X ++ [c_sp]) = X.
Proof.
  intros [[m1 E1] [m2 E2]] Hh Hd. unfold strip.
  assert (L : lstrip (X ++ [c_sp]) = X ++ [c_sp]) by (rewrite E1; cbn [app]; apply RefTextProofs.lstrip_hd; exact Hh).
  rewrite L, rstrip_sp, E2. apply RefTextProofs.rstrip_last. exact Hd.
Qed.

Lemma rle_lines : forall ls h d, ls <> [] -> Forall (fun x => has_char c_lf x = false) ls -> ends (pjoin c_sp ls) h d ->
  is_space h = false -> is_space d = false ->
  remove_line_endings (pjoin c_lf ls ++ [c_lf]) = pjoin c_sp ls.
Proof.
  intros ls h d Hne Hlf He Hh Hd. rewrite remove_line_endings_eq, map_app, (pjoin_map_lf ls Hlf). cbn [map].
  change (lf2sp c_lf) with c_sp. exact (strip_ends _ h d He Hh Hd).
Qed.

(* ---- the characters of an expression text ------------------------------------------------------- *)
Lemma blank_expr c : is_blank c = true -> expr_char c = true.
Proof. unfold is_blank, expr_char. intros H. uc. lia. Qed.
Lemma refch_expr c : is_ref_char c = true -> expr_char c = true.
Proof. unfold is_ref_char, is_word, is_digit, is_upper, is_lower, expr_char. intros H. uc. lia. Qed.
Lemma digit_expr c : is_digit c = true -> expr_char c = true.
Proof. unfold is_digit, expr_char. intros H. uc. lia. Qed.

Lemma layout_expr_chars g : blank_fn g -> forall ts i,
  (forall x, In (DVar x) ts -> Forall (fun c => is_ref_char c = true) x) ->
  forallb expr_char (layout g nothing i ts) = true.
Proof.
  intros Hg. assert (Hb : forall i, forallb expr_char (g i) = true).
  { intros i. apply forallb_forall. intros c Hc. apply blank_expr. exact (forallb_In _ _ _ (Hg i) Hc). }
  induction ts as [|t ts IH]; intros i Hv; cbn [layout]; [apply Hb|].
  rewrite !forallb_app. unfold cp, str in *. rewrite (Hb i), (IH (S i)) by (intros x Hx; apply Hv; right; exact Hx). rewrite andb_true_r. cbn [andb].
  destruct t as [n|x| | | | |]; cbn [dtext]; try reflexivity.
  - apply forallb_forall. intros c Hc. apply digit_expr. pose proof (FlatDataProofs.N_to_dec_digits n) as Hd.
    rewrite Forall_forall in Hd. exact (Hd c Hc).
  - unfold nothing. cbn [forallb]. apply andb_true_iff. split; [reflexivity|]. apply forallb_forall. intros c Hc.
    apply refch_expr. pose proof (Hv x (or_introl eq_refl)) as Hx. rewrite Forall_forall in Hx. exact (Hx c Hc).
Qed.

Lemma render_expr_chars g a : blank_fn g -> Forall rname (avars a) -> forallb expr_char (render g a) = true.
Proof.
  intros Hg Hv. unfold render, render_in. apply (layout_expr_chars g Hg). intros x Hx.
  rewrite Forall_forall in Hv. destruct (Hv x (ArithProofs.dtoks_vars a x Hx)) as (_ & H & _). exact H.
Qed.

Lemma render_ebody g a : blank_fn g -> Forall rname (avars a) -> avars a <> [] -> ebody (render g a).
Proof.
  intros Hg Hv Hne. assert (Hd : has_char c_dollar (render g a) = true).
  { unfold render. rewrite (FlatEngine.dollar_render' _ g a Hg). unfold known_all. destruct (avars a) as [|y l]; [congruence|reflexivity]. }
  split; [exact (render_expr_chars g a Hg Hv)|]. split; [exact Hd|]. intros E. rewrite E in Hd. discriminate Hd.
Qed.

(* ================================================================================================ *)
(* 3. the side conditions; leaves and keys                                                          *)
(* ================================================================================================ *)
(* the names are keys the parser reads back as themselves; the leaves of the static entries are written bare and read
   back as themselves *)
Definition plain_item (it : pitem) : bool :=
  simple_key (KS (pname it)) && match it with PStat _ t => ktree is_plain_leaf t | PDyn _ _ => true end.
Definition pdoc_plain (p : pdoc) : bool := forallb plain_item p.

Definition item_ok (it : pitem) : Prop :=
  plain_item it = true /\ match it with PDyn _ v => gexp_ok v | PStat _ _ => True end.

Lemma items_ok p : pdoc_ok p -> pdoc_plain p = true -> Forall item_ok p.
Proof.
  intros (_ & _ & _ & _ & _ & Hg) Hp. apply Forall_forall. intros it Hin. split.
  - unfold pdoc_plain in Hp. rewrite forallb_forall in Hp. exact (Hp it Hin).
  - destruct it as [x v|x t]; [|exact I]. rewrite Forall_forall in Hg. apply Hg. apply in_map_iff.
    exists (x, v). split; [reflexivity|]. apply FlatIndexProofs.psem_dyn. exact Hin.
Qed.

(* leaves of the source dict / of the delivered dict *)
Definition xstr (s : str) : bool := has_char c_dollar s && forallb expr_char s.
Definition src_leaf (v : scalar) : bool := is_plain_leaf v || match v with SStr s => xstr s | _ => false end.
Definition fin_leaf (v : scalar) : bool := is_plain_leaf v || (is_eph v && negb (simple_leaf v)).

Lemma ltSrc_simple v : simple_leaf v = true -> ltSrc v = FS v.
Proof. intros H. destruct v as [z|l|b| |s]; try reflexivity. cbn [ltSrc]. rewrite (simple_leaf_nodollar s H). reflexivity. Qed.

Lemma plain_leaf_inv v : is_plain_leaf v = true -> simple_leaf v = true /\ norm_scalar v = v.
Proof.
  unfold is_plain_leaf. intros H. apply andb_true_iff in H. destruct H as [H1 H2]. split; [exact H1|].
  exact (FoamProofs.scalar_eqb_eq _ _ H2).
Qed.

Lemma plain_int z : is_plain_leaf (SInt z) = true.
Proof.
  unfold is_plain_leaf, simple_leaf, norm_scalar. rewrite ScalarProofs.fmt_int_roundtrip. cbn [format_scalar scalar_eqb].
  rewrite RereadPlain.Z_to_dec_simple, Z.eqb_refl. reflexivity.
Qed.

(* source leaves: characters *)
Lemma src_text_chars (P : N -> bool) s : P c_dq = true -> forallb P s = true -> forallb P (src_text s) = true.
Proof.
  intros Hq Hs. unfold src_text. destruct (is_ref_str s); [exact Hs|]. unfold dq. cbn [forallb]. rewrite forallb_app, Hq, Hs. cbn [forallb]. rewrite Hq. reflexivity.
Qed.

Lemma src_leaf_chars (P : N -> bool) : P c_dq = true -> (forall c, simple_char c = true -> P c = true) ->
  (forall c, expr_char c = true -> P c = true) -> forall v, src_leaf v = true -> forallb P (ltSrc v) = true.
Proof.
  intros Hq Hs He v Hv. unfold src_leaf in Hv. destruct (is_plain_leaf v) eqn:Ep.
  - destruct (plain_leaf_inv v Ep) as [H1 _]. rewrite (ltSrc_simple v H1). apply forallb_forall. intros c Hc. apply Hs.
    exact (forallb_In _ _ _ (proj1 (simple_leaf_chars v H1)) Hc).
  - cbn [orb] in Hv. destruct v as [z|l|b| |s]; try discriminate Hv. unfold xstr in Hv. apply andb_true_iff in Hv.
    destruct Hv as [Hd Hc]. cbn [ltSrc]. rewrite Hd. apply src_text_chars; [exact Hq|]. apply forallb_forall. intros c Hin. apply He.
    exact (forallb_In _ _ _ Hc Hin).
Qed.

Lemma key_chars (P : N -> bool) : (forall c, simple_char c = true -> P c = true) -> forall k, simple_key k = true ->
  forallb P (key_text k) = true.
Proof.
  intros Hs k Hk. destruct (simple_key_text k Hk) as [E _]. rewrite E. destruct (FK_facts k Hk) as (_ & Hc & _).
  apply forallb_forall. intros c Hin. apply Hs. exact (forallb_In _ _ _ Hc Hin).
Qed.

(* the text of one entry: characters *)
Section EntryChars.
  Variable P : N -> bool.
  Variable lt : scalar -> str.
  Variable kt : key -> str.
  Variable ok : scalar -> bool.
  Hypothesis Hsp : P c_sp = true.
  Hypothesis Hl : forall v, ok v = true -> forallb P (lt v) = true.
  Hypothesis Hk : forall k, simple_key k = true -> forallb P (kt k) = true.
  Hypothesis H1 : P c_lbrace = true. Hypothesis H2 : P c_rbrace = true. Hypothesis H3 : P c_lpar = true.
  Hypothesis H4 : P c_rpar = true. Hypothesis H5 : P c_semi = true.

  Lemma entry_toks_chars kv : simple_key (fst kv) = true -> ktree ok (snd kv) = true ->
    Forall (fun x => forallb P x = true) (TokProofs.entry_toks lt kt kv).
  Proof.
    intros Hkk Ht. rewrite <- entries_one, entries_toks.
    apply (toks_Forall (fun x => forallb P x = true) lt kt ok Hl Hk); try (cbn [forallb t_lbrace t_rbrace t_lpar t_rpar t_semi]; rewrite ?H1, ?H2, ?H3, ?H4, ?H5; reflexivity).
    destruct kv as [k t]. rewrite ktree_one. cbn [fst snd] in *. rewrite Hkk, Ht. reflexivity.
  Qed.

  Lemma etxt_chars kv : simple_key (fst kv) = true -> ktree ok (snd kv) = true -> forallb P (etxt lt kt kv) = true.
  Proof. intros Hkk Ht. unfold etxt. apply tjoin_chars; [exact Hsp|]. apply entry_toks_chars; assumption. Qed.
End EntryChars.

(* the text of one entry: first and last character *)
Lemma etxt_ends lt kt k c h r : kt k = h :: r -> exists d, ends (etxt lt kt (k, c)) h d /\ is_delim d = true.
Proof.
  intros E. destruct (entries_head' lt kt k c []) as (rest & E1). rewrite entries_one, E in E1.
  destruct (entries_last' lt kt [(k, c)] ltac:(discriminate)) as (pre & d & E2 & Hd). rewrite entries_one in E2.
  exists d. split; [|exact Hd]. unfold etxt. split.
  - exact (tjoin_head _ h r rest E1).
  - rewrite E2. apply tjoin_last.
Qed.

Lemma ends_shape (X : str) h d : ends X h d -> is_delim h = false -> is_delim d = true -> exists m, X = h :: m ++ [d].
Proof.
  intros [[m1 E1] [m2 E2]] Hh Hd. destruct m2 as [|h' m].
  - rewrite E2 in E1. cbn [app] in E1. inversion E1; subst. congruence.
  - rewrite E2 in E1. cbn [app] in E1. inversion E1 as [[Eh Em]]. exists m. rewrite E2, Eh. reflexivity.
Qed.

(* ================================================================================================ *)
(* 4. the text as plain stretches, quoted expressions and bare references                           *)
(* ================================================================================================ *)
Lemma pjoin_alt sep x : forall r, pjoin sep (x :: r) = x ++ flat_map (fun y => sep :: y) r.
Proof.
  intros r. revert x. induction r as [|y r IH]; intros x; [cbn [pjoin flat_map]; rewrite app_nil_r; reflexivity|].
  rewrite pjoin_cons2, (IH y). reflexivity.
Qed.

Definition xseg (g : nat -> str) (a : aexp) : seg := if bare_exp g a then SR (render g a) else SE (render g a).
Definition isegs (it : pitem) : list seg :=
  match it with
  | PDyn x (FExp _ g a) => [SP (x ++ [c_sp]); xseg g a; SP [c_semi]]
  | _ => [SP (etxt ltSrc key_text (psrc_entry it))]
  end.
(* behind the expression stage *)
Definition isegs' (it : pitem) : list seg :=
  match it with
  | PDyn x (FExp i _ _) => [SP (x ++ [c_sp]); SP (ph_of i); SP [c_semi]]
  | _ => [SP (etxt ltSrc key_text (psrc_entry it))]
  end.
Definition tsegs (f : pitem -> list seg) (r : pdoc) : list seg := flat_map (fun it => SP [c_sp] :: f it) r.
Definition jsegs (f : pitem -> list seg) (p : pdoc) : list seg :=
  match p with [] => [] | it :: r => f it ++ tsegs f r end.

Lemma stext_cons s l : stext (s :: l) = seg_text s ++ stext l.
Proof. reflexivity. Qed.

Lemma stext_jsegs f p : stext (jsegs f p) = pjoin c_sp (map (fun it => stext (f it)) p).
Proof.
  destruct p as [|it r]; [reflexivity|]. cbn [jsegs map]. rewrite pjoin_alt, stext_app. f_equal.
  induction r as [|y r IH]; [reflexivity|]. unfold tsegs in *. cbn [flat_map map app]. rewrite stext_cons, stext_app, IH. reflexivity.
Qed.

Lemma str_eqb_long (s : str) c : (2 <= length s)%nat -> str_eqb s [c] = false.
Proof. destruct s as [|a [|b r]]; cbn [length]; try lia. intros _. cbn [str_eqb]. apply andb_false_r. Qed.

Lemma src_text_not_semi e : e <> [] -> str_eqb (src_text e) t_semi = false.
Proof.
  intros Hne. unfold src_text. destruct (is_ref_str e) eqn:E.
  - apply str_eqb_long. destruct e as [|d [|w tl]]; try discriminate E. cbn [length]. lia.
  - apply str_eqb_long. unfold dq. cbn [length]. rewrite app_length. cbn [length]. lia.
Qed.

Lemma tjoin3 x v : str_eqb v t_semi = false -> tjoin [x; v; t_semi] = x ++ c_sp :: v ++ [c_semi].
Proof. intros H. rewrite !tjoin_cons2, H. cbn [str_eqb t_semi N.eqb Pos.eqb andb tjoin app]. reflexivity. Qed.

Lemma isegs_text it : item_ok it -> stext (isegs it) = etxt ltSrc key_text (psrc_entry it).
Proof.
  intros [_ Hg]. destruct it as [x [z|i g a]|x t]; try (cbn [isegs stext flat_map seg_text]; apply app_nil_r).
  destruct Hg as (_ & Hb & Hv & Hne). destruct (render_ebody g a Hb Hv Hne) as (_ & Hd & He).
  unfold etxt, TokProofs.entry_toks. cbn [psrc_entry fst snd key_text ltSrc]. rewrite Hd, (tjoin3 _ _ (src_text_not_semi _ He)).
  cbn [isegs]. rewrite !stext_cons. cbn [seg_text stext flat_map]. rewrite <- !app_assoc. cbn [app]. do 2 f_equal.
  unfold xseg, src_text, bare_exp. destruct (is_ref_str (render g a)); reflexivity.
Qed.

Lemma simple_plainc1 c : simple_char c = true -> plainc c = true.
Proof. intros H. pose proof (simple_plainc [c]) as G. cbn [forallb] in G. rewrite H in G. specialize (G eq_refl). rewrite andb_true_r in G. exact G. Qed.

Lemma plain_etxt_plainc kv : simple_key (fst kv) = true -> ktree is_plain_leaf (snd kv) = true -> forallb plainc (etxt ltSrc key_text kv) = true.
Proof.
  apply (etxt_chars plainc ltSrc key_text is_plain_leaf); try reflexivity.
  - intros v Hv. destruct (plain_leaf_inv v Hv) as [H1 _]. rewrite (ltSrc_simple v H1). exact (simple_plainc _ (proj1 (simple_leaf_chars v H1))).
  - apply key_chars. exact simple_plainc1.
Qed.

Lemma item_key it : item_ok it -> simple_key (KS (pname it)) = true.
Proof. intros [H _]. unfold plain_item in H. apply andb_true_iff in H. exact (proj1 H). Qed.

Lemma psrc_entry_key it : fst (psrc_entry it) = KS (pname it).
Proof. destruct it as [x [z|i g a]|x t]; reflexivity. Qed.

Lemma isegs_ok it rest : item_ok it -> segs_ok rest -> segs_ok (isegs it ++ rest).
Proof.
  intros Hok Hr. pose proof (item_key it Hok) as Hk. destruct Hok as [Hp Hg].
  assert (Hplain : forall kv, kv = psrc_entry it -> ktree is_plain_leaf (snd kv) = true -> segs_ok ([SP (etxt ltSrc key_text kv)] ++ rest)).
  { intros kv -> Ht. cbn [app segs_ok]. split; [|exact Hr]. apply plain_etxt_plainc; [rewrite psrc_entry_key; exact Hk|exact Ht]. }
  destruct it as [x [z|i g a]|x t].
  - apply (Hplain _ eq_refl). exact (plain_int z).
  - destruct Hg as (_ & Hb & Hv & Hne). cbn [isegs app segs_ok pname] in *.
    split; [rewrite forallb_app; cbn [forallb]; pose proof (key_chars plainc simple_plainc1 (KS x) Hk) as Hkc; cbn [key_text] in Hkc; unfold cp, str in *; rewrite Hkc; reflexivity|].
    assert (Hn : next_semi (SP [c_semi] :: rest)) by (exists [], rest; reflexivity).
    assert (Hs : segs_ok (SP [c_semi] :: rest)) by (cbn [segs_ok]; split; [reflexivity|exact Hr]).
    unfold xseg, bare_exp. destruct (is_ref_str (render g a)) eqn:E; cbn [segs_ok].
    + split; [exact E|]. split; [exact Hn|exact Hs].
    + split; [exact (render_ebody g a Hb Hv Hne)|]. split; [exact Hn|exact Hs].
  - apply (Hplain _ eq_refl). unfold plain_item in Hp. apply andb_true_iff in Hp. exact (proj2 Hp).
Qed.

Lemma isegs_exprs it : sexprs (isegs it) = qexp_item it /\ srefs (isegs it) = bexp_item it.
Proof.
  destruct it as [x [z|i g a]|x t]; try (split; reflexivity). cbn [isegs qexp_item bexp_item]. unfold xseg.
  destruct (bare_exp g a); split; reflexivity.
Qed.

Lemma sexprs_app a b : sexprs (a ++ b) = sexprs a ++ sexprs b.
Proof. unfold sexprs. apply flat_map_app. Qed.
Lemma srefs_app a b : srefs (a ++ b) = srefs a ++ srefs b.
Proof. unfold srefs. apply flat_map_app. Qed.

Lemma tsegs_cons f it r : tsegs f (it :: r) = SP [c_sp] :: f it ++ tsegs f r.
Proof. reflexivity. Qed.

Lemma jsegs_ok p : Forall item_ok p -> segs_ok (jsegs isegs p).
Proof.
  assert (T : forall r, Forall item_ok r -> segs_ok (tsegs isegs r)).
  { induction 1 as [|it r Hit _ IH]; [exact I|]. rewrite tsegs_cons. cbn [segs_ok]. split; [reflexivity|]. exact (isegs_ok it _ Hit IH). }
  intros H. destruct H as [|it r Hit Hr]; [exact I|]. cbn [jsegs]. exact (isegs_ok it _ Hit (T r Hr)).
Qed.

Lemma jsegs_exprs p : sexprs (jsegs isegs p) = qexps p /\ srefs (jsegs isegs p) = bexps p.
Proof.
  assert (T : forall r, sexprs (tsegs isegs r) = qexps r /\ srefs (tsegs isegs r) = bexps r).
  { induction r as [|it r [IH1 IH2]]; [split; reflexivity|]. rewrite tsegs_cons, sexprs_cons, srefs_cons, sexprs_app, srefs_app, IH1, IH2.
    destruct (isegs_exprs it) as [E1 E2]. rewrite E1, E2. split; reflexivity. }
  destruct p as [|it r]; [split; reflexivity|]. cbn [jsegs]. rewrite sexprs_app, srefs_app. destruct (T r) as [T1 T2].
  destruct (isegs_exprs it) as [E1 E2]. rewrite T1, T2, E1, E2. split; reflexivity.
Qed.

(* the numbering *)
Lemma lab_item it es rs X :
  labR rs (labE es (isegs it ++ X)) =
  match it with
  | PDyn x (FExp i g a) =>
      if bare_exp g a then isegs' (PDyn x (FExp (hd 0 rs) g a)) ++ labR (tl rs) (labE es X)
      else isegs' (PDyn x (FExp (hd 0 es) g a)) ++ labR rs (labE (tl es) X)
  | _ => isegs' it ++ labR rs (labE es X)
  end.
Proof.
  destruct it as [x [z|i g a]|x t]; try reflexivity. cbn [isegs isegs' app]. unfold xseg. destruct (bare_exp g a); reflexivity.
Qed.

Lemma tsegs_lab : forall r es rs, labR rs (labE es (tsegs isegs r)) = tsegs isegs' (pnum es rs r).
Proof.
  induction r as [|it r IH]; intros es rs; [reflexivity|]. rewrite tsegs_cons. cbn [labE labR]. rewrite lab_item.
  destruct it as [x [z|i g a]|x t]; cbn [pnum]; try (rewrite tsegs_cons, IH; reflexivity).
  destruct (bare_exp g a); rewrite tsegs_cons, IH; reflexivity.
Qed.

Lemma jsegs_lab p es rs : labR rs (labE es (jsegs isegs p)) = jsegs isegs' (pnum es rs p).
Proof.
  destruct p as [|it r]; [reflexivity|]. cbn [jsegs]. rewrite lab_item.
  destruct it as [x [z|i g a]|x t]; cbn [pnum jsegs]; try (rewrite tsegs_lab; reflexivity).
  destruct (bare_exp g a); cbn [jsegs]; rewrite tsegs_lab; reflexivity.
Qed.

(* ================================================================================================ *)
(* 5. the whole text: first and last character, characters, tokens                                  *)
(* ================================================================================================ *)
Lemma ktree_dict_all ok kvs : (forall kv, In kv kvs -> simple_key (fst kv) = true /\ ktree ok (snd kv) = true) ->
  ktree ok (Dict kvs) = true.
Proof.
  induction kvs as [|[k t] kvs IH]; intros H; [reflexivity|]. rewrite ktree_dict_cons.
  destruct (H (k, t) (or_introl eq_refl)) as [H1 H2]. cbn [fst snd] in *. rewrite H1, H2. cbn [andb]. apply IH.
  intros kv Hin. apply H. right. exact Hin.
Qed.

Definition key_head (kt : key -> str) : Prop :=
  forall k, simple_key k = true -> exists h r, kt k = h :: r /\ is_space h = false /\ is_delim h = false.

Lemma key_head_text : key_head key_text.
Proof.
  intros k Hk. destruct (simple_key_text k Hk) as [E _]. destruct (FK_facts k Hk) as (_ & _ & h & r & E2 & Hh).
  destruct (simple_char_word h Hh) as [A B]. exists h, r. rewrite E, E2. repeat split; assumption.
Qed.
Lemma key_head_ktS : key_head ktS.
Proof.
  intros k Hk. rewrite (ktS_simple k Hk). destruct (FK_facts k Hk) as (_ & _ & h & r & E2 & Hh).
  destruct (simple_char_word h Hh) as [A B]. exists h, r. repeat split; assumption.
Qed.

Lemma dtxt_ends lt kt sep kvs : key_head kt -> kvs <> [] -> (forall kv, In kv kvs -> simple_key (fst kv) = true) ->
  exists h d, ends (dtxt lt kt sep kvs) h d /\ is_space h = false /\ is_delim h = false /\ is_delim d = true.
Proof.
  intros Hkt Hne Hk. destruct kvs as [|[k c] kvs]; [congruence|].
  destruct (Hkt k (Hk (k, c) (or_introl eq_refl))) as (h & r & E & Hs & Hd).
  destruct (etxt_ends lt kt k c h r E) as (d & He & Hdd).
  assert (Hall : Forall (fun y => exists h' d', ends y h' d' /\ is_delim d' = true) (map (etxt lt kt) kvs)).
  { apply Forall_forall. intros y Hy. apply in_map_iff in Hy. destruct Hy as ([k' c'] & <- & Hin).
    destruct (Hkt k' (Hk (k', c') (or_intror Hin))) as (h' & r' & E' & _ & _).
    destruct (etxt_ends lt kt k' c' h' r' E') as (d' & He' & Hdd'). exists h', d'. split; assumption. }
  unfold dtxt. cbn [map]. destruct (pjoin_ends (fun d => is_delim d = true) sep _ _ h d Hall He Hdd) as (d2 & He2 & Hd2).
  exists h, d2. repeat split; try assumption; apply He2.
Qed.

(* the lines end where the statements end *)
Lemma rle_dtxt lt kt kvs : key_head kt -> kvs <> [] -> (forall kv, In kv kvs -> simple_key (fst kv) = true) ->
  (forall kv, In kv kvs -> has_char c_lf (etxt lt kt kv) = false) ->
  remove_line_endings (dtxt lt kt c_lf kvs ++ [c_lf]) = dtxt lt kt c_sp kvs.
Proof.
  intros Hkt Hne Hk Hlf. destruct (dtxt_ends lt kt c_sp kvs Hkt Hne Hk) as (h & d & He & Hs & _ & Hd).
  unfold dtxt in *. apply (rle_lines _ h d).
  - destruct kvs; [congruence|discriminate].
  - apply Forall_forall. intros y Hy. apply in_map_iff in Hy. destruct Hy as (kv & <- & Hin). exact (Hlf kv Hin).
  - exact He.
  - exact Hs.
  - exact (LayoutProofs.delim_not_space d Hd).
Qed.

(* the tokens of a one-line text *)
Lemma tokens_dtxt lt kt ok kvs : key_head kt -> (forall v, ok v = true -> lexeme (lt v)) -> (forall k, simple_key k = true -> lexeme (kt k)) ->
  kvs <> [] -> ktree ok (Dict kvs) = true ->
  tokenize (separate_delimiters (dtxt lt kt c_sp kvs)) = toks_doc lt kt kvs.
Proof.
  intros Hkt Hl Hkl Hne Ht. rewrite toks_doc_entries'.
  pose proof (ktree_dict_keys _ _ Ht) as Hk.
  destruct (dtxt_ends lt kt c_sp kvs Hkt Hne Hk) as (h & d & He & Hs & Hdh & Hd).
  destruct (ends_shape _ h d He Hdh Hd) as [m Em].
  assert (HL : Forall lexeme (TokProofs.entries lt kt kvs)).
  { rewrite entries_toks. apply (toks_Forall lexeme lt kt ok Hl Hkl); try (apply delim_tok_lexeme; reflexivity). exact Ht. }
  pose proof (LayoutProofs.layout_scan _ _ (rendering_dtxt lt kt c_sp eq_refl kvs) HL [] ltac:(constructor)) as Hscan.
  rewrite app_nil_r in Hscan. rewrite <- Hscan, Em. apply tokens_full; assumption.
Qed.

(* ================================================================================================ *)
(* 6. the lexer on the text of a document                                                           *)
(* ================================================================================================ *)
Lemma etxt_ext lt1 kt1 lt2 kt2 ok kv : (forall v, ok v = true -> lt1 v = lt2 v) -> (forall k, simple_key k = true -> kt1 k = kt2 k) ->
  simple_key (fst kv) = true -> ktree ok (snd kv) = true -> etxt lt1 kt1 kv = etxt lt2 kt2 kv.
Proof.
  intros Hl Hk H1 H2. unfold etxt. f_equal. rewrite <- !entries_one, !entries_toks. apply (toks_ext lt1 kt1 lt2 kt2 ok Hl Hk).
  destruct kv as [k t]. rewrite ktree_one. cbn [fst snd] in *. rewrite H1, H2. reflexivity.
Qed.

Lemma src_entry_ok it : item_ok it -> simple_key (fst (psrc_entry it)) = true /\ ktree src_leaf (snd (psrc_entry it)) = true.
Proof.
  intros Hok. split; [rewrite psrc_entry_key; exact (item_key it Hok)|]. destruct Hok as [Hp Hg].
  destruct it as [x [z|i g a]|x t]; cbn [psrc_entry snd ktree].
  - unfold src_leaf. rewrite plain_int. reflexivity.
  - destruct Hg as (_ & Hb & Hv & Hne). destruct (render_ebody g a Hb Hv Hne) as (Hc & Hd & _).
    unfold src_leaf, xstr. rewrite Hd, Hc. apply orb_true_r.
  - unfold plain_item in Hp. apply andb_true_iff in Hp. destruct Hp as [_ Hp].
    apply (FoamProofs.ktree_mono is_plain_leaf src_leaf); [|exact Hp]. intros v Hv. unfold src_leaf. rewrite Hv. reflexivity.
Qed.

Definition nolfc (c : N) : bool := negb (c =? c_lf).

Lemma src_etxt_chars it : item_ok it ->
  forallb okc (etxt ltSrc key_text (psrc_entry it)) = true /\ has_char c_lf (etxt ltSrc key_text (psrc_entry it)) = false.
Proof.
  intros Hok. destruct (src_entry_ok it Hok) as [Hk Ht]. split.
  - apply (etxt_chars okc ltSrc key_text src_leaf); try reflexivity; try assumption.
    + apply src_leaf_chars; [reflexivity|exact simple_okc|exact exprchar_okc].
    + apply key_chars. exact simple_okc.
  - apply forallb_nochar. apply (etxt_chars nolfc ltSrc key_text src_leaf); try reflexivity; try assumption.
    + apply src_leaf_chars; [reflexivity| |]; intros c H; unfold nolfc.
      * destruct (c =? c_lf) eqn:E; [apply N.eqb_eq in E; subst c; discriminate H|reflexivity].
      * destruct (c =? c_lf) eqn:E; [apply N.eqb_eq in E; subst c; discriminate H|reflexivity].
    + apply key_chars. intros c H. unfold nolfc. destruct (c =? c_lf) eqn:E; [apply N.eqb_eq in E; subst c; discriminate H|reflexivity].
Qed.

(* the items behind the expression stage *)
Definition item_fin (it : pitem) : Prop :=
  plain_item it = true /\ match it with PDyn _ (FExp i _ _) => i < 1000000 | _ => True end.

Lemma ltX_simple v : simple_leaf v = true -> ltX v = FS v.
Proof. intros H. unfold ltX. rewrite H. reflexivity. Qed.

Lemma plain_agree v : is_plain_leaf v = true -> ltSrc v = ltX v.
Proof. intros H. destruct (plain_leaf_inv v H) as [H1 _]. rewrite (ltSrc_simple v H1), (ltX_simple v H1). reflexivity. Qed.
Lemma key_agree k : simple_key k = true -> key_text k = ktS k.
Proof. intros H. rewrite (ktS_simple k H). exact (proj1 (simple_key_text k H)). Qed.

Lemma ltX_ph i : i < 1000000 -> ltX (SStr (ph_of i)) = ph_of i.
Proof. intros Hi. unfold ltX. rewrite (ph_not_simple_leaf i), (proj2 (ph_format i Hi)). reflexivity. Qed.

Lemma fin_ph i : i < 1000000 -> fin_leaf (SStr (ph_of i)) = true.
Proof. intros Hi. unfold fin_leaf. rewrite (ph_not_simple_leaf i), (proj2 (ph_format i Hi)). apply orb_true_r. Qed.

Lemma pentry_key k it : fst (pentry k it) = KS (pname it).
Proof. destruct it; reflexivity. Qed.

Lemma item_fin_key it : item_fin it -> simple_key (KS (pname it)) = true.
Proof. intros [H _]. unfold plain_item in H. apply andb_true_iff in H. exact (proj1 H). Qed.

Lemma isegs'_text it : item_fin it -> stext (isegs' it) = etxt ltX ktS (pentry nothing it).
Proof.
  intros Hf. pose proof (item_fin_key it Hf) as Hk. destruct Hf as [Hp Hi].
  assert (G : forall kv, simple_key (fst kv) = true -> ktree is_plain_leaf (snd kv) = true ->
              stext [SP (etxt ltSrc key_text kv)] = etxt ltX ktS kv).
  { intros kv H1 H2. cbn [stext flat_map seg_text]. rewrite app_nil_r.
    exact (etxt_ext ltSrc key_text ltX ktS is_plain_leaf kv plain_agree key_agree H1 H2). }
  destruct it as [x [z|i g a]|x t].
  - apply (G (KS x, Leaf (SInt z))); [exact Hk|exact (plain_int z)].
  - unfold etxt, TokProofs.entry_toks. cbn [pentry fst snd fleaf]. unfold nothing at 1. cbv iota.
    cbn [pname] in Hk. rewrite (ktS_simple _ Hk), (ltX_ph i Hi).
    assert (Hns : str_eqb (ph_of i) t_semi = false).
    { destruct (ph_cons i) as [r E]. rewrite E. reflexivity. }
    rewrite (tjoin3 _ _ Hns). cbn [isegs' format_key]. rewrite !stext_cons. cbn [seg_text stext flat_map].
    destruct (simple_key_text _ Hk) as [E _]. cbn [key_text format_key] in E. rewrite <- E, <- !app_assoc. reflexivity.
  - unfold plain_item in Hp. apply andb_true_iff in Hp. apply (G (KS x, t)); [exact Hk|exact (proj2 Hp)].
Qed.

Lemma fin_entry_ok it : item_fin it -> simple_key (fst (pentry nothing it)) = true /\ ktree fin_leaf (snd (pentry nothing it)) = true.
Proof.
  intros Hf. split; [rewrite pentry_key; exact (item_fin_key it Hf)|]. destruct Hf as [Hp Hi].
  destruct it as [x [z|i g a]|x t]; cbn [pentry snd fleaf ktree].
  - unfold fin_leaf. rewrite plain_int. reflexivity.
  - unfold nothing. exact (fin_ph i Hi).
  - unfold plain_item in Hp. apply andb_true_iff in Hp. destruct Hp as [_ Hp].
    apply (FoamProofs.ktree_mono is_plain_leaf fin_leaf); [|exact Hp]. intros v Hv. unfold fin_leaf. rewrite Hv. reflexivity.
Qed.

Lemma fin_leaf_facts v : fin_leaf v = true -> word_lexeme (ltX v) /\ nvX v = v.
Proof.
  unfold fin_leaf. intros H. destruct (is_plain_leaf v) eqn:Ep.
  - destruct (plain_leaf_inv v Ep) as [H1 H2]. rewrite (ltX_simple v H1). unfold nvX. rewrite H1.
    split; [exact (proj2 (simple_leaf_chars v H1))|exact H2].
  - cbn [orb] in H. apply andb_true_iff in H. destruct H as [He Hs]. apply negb_true_iff in Hs.
    destruct (is_eph_inv v He) as [i ->]. unfold ltX, nvX. rewrite Hs, He. cbn [xtext]. split; [apply ph_word|reflexivity].
Qed.

(* the numbering keeps the items well-formed *)
Lemma pnum_fin : forall p es rs, Forall item_ok p -> small es -> small rs -> Forall item_fin (pnum es rs p).
Proof.
  induction p as [|it p IH]; intros es rs H Hes Hrs; [constructor|]. inversion H as [|it' p' [Hp Hg] Hr]; subst.
  destruct it as [x [z|i g a]|x t]; cbn [pnum].
  - constructor; [split; [exact Hp|exact I]|exact (IH es rs Hr Hes Hrs)].
  - destruct (bare_exp g a).
    + constructor; [split; [exact Hp|exact (hd_small _ Hrs)]|exact (IH es (tl rs) Hr Hes (tl_small _ Hrs))].
    + constructor; [split; [exact Hp|exact (hd_small _ Hes)]|exact (IH (tl es) rs Hr (tl_small _ Hes) Hrs)].
  - constructor; [split; [exact Hp|exact I]|exact (IH es rs Hr Hes Hrs)].
Qed.

Lemma pnum_nil es rs p : pnum es rs p = [] -> p = [].
Proof. destruct p as [|[x [z|i g a]|x t] r]; cbn [pnum]; try discriminate; [reflexivity|destruct (bare_exp g a); discriminate]. Qed.

Theorem lex_pdoc com dir c p : Forall item_ok p -> p <> [] -> NoDup (qexps p) -> (-1 <= c)%Z ->
  (Z.of_nat (length (qexps p) + length (bexps p)) <= 1000000)%Z ->
  let ne := length (qexps p) in let nr := length (bexps p) in
  let es := ids c ne in let c' := cafter c ne in let rs := ids c' nr in
  lex com dir c (render_pdoc p) =
    mkLexed (toks_doc ltX ktS (pdata (pnum es rs p) nothing)) (cafter c' nr) [] [] []
            (xtab es (qexps p) ++ xtab rs (bexps p)) [].
Proof.
  intros Hok Hne Hnd Hc Hm ne nr es c' rs.
  set (l := jsegs isegs p). pose proof (jsegs_ok p Hok) as Hl. destruct (jsegs_exprs p) as [Ee Er]. fold l in Hl, Ee, Er.
  set (q := pnum es rs p).
  assert (Hfin : Forall item_fin q) by (apply pnum_fin; [exact Hok|apply ids_small|apply ids_small]).
  assert (Hall : NoDup (es ++ rs)).
  { unfold es, rs, c', ne, nr. rewrite <- ids_app. apply ids_nodup; assumption. }
  assert (Hle : length es = length (qexps p)) by apply ids_length.
  assert (Htab : jxtab c' (jxtab c [] (qexps p)) (bexps p) = xtab es (qexps p) ++ xtab rs (bexps p)).
  { rewrite (jxtab_fresh (qexps p) c []) by (cbn [map app]; exact (RereadStr.NoDup_app_l _ _ Hall)). cbn [app]. fold ne es.
    rewrite (jxtab_fresh (bexps p) c'); [reflexivity|]. fold nr rs. rewrite (xtab_keys _ _ Hle). exact Hall. }
  (* the source text *)
  assert (Hsrc : forall kv, In kv (psrc p) -> exists it, In it p /\ kv = psrc_entry it).
  { intros kv Hin. apply in_map_iff in Hin. destruct Hin as (it & <- & Hit). exists it. split; [exact Hit|reflexivity]. }
  assert (Hokc : forallb okc (render_pdoc p) = true).
  { unfold render_pdoc, dtxt. rewrite forallb_app. cbn [forallb]. rewrite andb_true_r. apply pjoin_chars; [reflexivity|].
    apply Forall_forall. intros y Hy. apply in_map_iff in Hy. destruct Hy as (kv & <- & Hin). destruct (Hsrc kv Hin) as (it & Hit & ->).
    rewrite Forall_forall in Hok. exact (proj1 (src_etxt_chars it (Hok it Hit))). }
  assert (Hrle : remove_line_endings (render_pdoc p) = stext l).
  { unfold render_pdoc. rewrite (rle_dtxt ltSrc key_text (psrc p) key_head_text).
    - unfold l. rewrite stext_jsegs. unfold dtxt, psrc. rewrite map_map. f_equal. apply map_ext_in. intros it Hit.
      rewrite Forall_forall in Hok. symmetry. exact (isegs_text it (Hok it Hit)).
    - unfold psrc. destruct p; [congruence|discriminate].
    - intros kv Hin. destruct (Hsrc kv Hin) as (it & Hit & ->). rewrite Forall_forall in Hok. exact (proj1 (src_entry_ok it (Hok it Hit))).
    - intros kv Hin. destruct (Hsrc kv Hin) as (it & Hit & ->). rewrite Forall_forall in Hok. exact (proj2 (src_etxt_chars it (Hok it Hit))). }
  (* the delivered text *)
  assert (Hq : stext (jsegs isegs' q) = dtxt ltX ktS c_sp (pdata q nothing)).
  { rewrite stext_jsegs. unfold dtxt, pdata. rewrite map_map. f_equal. apply map_ext_in. intros it Hit.
    rewrite Forall_forall in Hfin. exact (isegs'_text it (Hfin it Hit)). }
  assert (Hkt : ktree fin_leaf (Dict (pdata q nothing)) = true).
  { apply ktree_dict_all. intros kv Hin. apply in_map_iff in Hin. destruct Hin as (it & <- & Hit).
    rewrite Forall_forall in Hfin. exact (fin_entry_ok it (Hfin it Hit)). }
  rewrite (lex_clean_early com dir c _ Hokc). unfold lex_tail. rewrite Hrle.
  unfold extract_string_literals. rewrite (scan_segs l _ c [] [] Hl (Nat.le_succ_diag_r _)). cbn [rev app].
  rewrite (xe_segs l c Hl ltac:(rewrite Ee; exact Hnd)). cbv zeta. rewrite Ee, Er. fold ne nr es c' rs.
  unfold l. rewrite (jsegs_lab p es rs). fold q. rewrite Hq, Htab.
  rewrite (tokens_dtxt ltX ktS fin_leaf (pdata q nothing) key_head_ktS); [reflexivity| | | |exact Hkt].
  - intros v Hv. right. exact (proj1 (fin_leaf_facts v Hv)).
  - intros k Hk. right. rewrite (ktS_simple k Hk). exact (proj1 (FK_facts k Hk)).
  - unfold pdata. intros E. apply map_eq_nil in E. apply Hne. exact (pnum_nil es rs p E).
Qed.

(* ================================================================================================ *)
(* 7. the delivered dict is well-formed                                                             *)
(* ================================================================================================ *)
Lemma NoDup_flat_map_in {A B} (f : A -> list B) : forall l a, NoDup (flat_map f l) -> In a l -> NoDup (f a).
Proof.
  induction l as [|x l IH]; intros a H Hin; [destruct Hin|]. cbn [flat_map] in H.
  destruct (FlatIndexProofs.NoDup_app_inv _ _ H) as (H1 & H2 & _). destruct Hin as [->|Hin]; [exact H1|exact (IH a H2 Hin)].
Qed.

Lemma stat_wf : forall t, stat t = true -> NoDup (map fst (tbinds t)) -> wf t = true.
Proof.
  induction t as [v|kvs IH|ts IH] using tree_ind'; intros Hs Hn.
  - reflexivity.
  - rewrite FlatIndexProofs.stat_dict in Hs. rewrite FlatIndexProofs.tbinds_dict in Hn. rewrite TokProofs.wf_dict.
    assert (G : NoDup (map fst kvs) /\ forallb (fun kc => wf (snd kc)) kvs = true).
    { induction IH as [|[k c] kvs Hc _ IHk]; [split; [constructor|reflexivity]|].
      cbn [forallb fst snd] in Hs. apply andb_true_iff in Hs. destruct Hs as [Hs Hs']. apply andb_true_iff in Hs. destruct Hs as [Hk Hsc].
      destruct k as [z|x]; [discriminate Hk|]. cbn [flat_map] in Hn. rewrite map_app in Hn.
      destruct (FlatIndexProofs.NoDup_app_inv _ _ Hn) as (Hn1 & Hn2 & Hd). unfold ebinds in Hn1, Hd. cbn [fst snd] in Hn1, Hd.
      rewrite map_app in Hn1, Hd. cbn [map fst] in Hn1, Hd. destruct (FlatIndexProofs.NoDup_app_inv _ _ Hn1) as (Hn3 & _ & _).
      destruct (IHk Hs' Hn2) as [I1 I2]. cbn [snd] in Hc. split.
      - cbn [map fst]. constructor; [|exact I1]. intros Hin. apply in_map_iff in Hin. destruct Hin as ([k' c'] & Ek & Hin'). cbn [fst] in Ek. subst k'.
        apply (Hd x); [apply in_or_app; right; left; reflexivity|]. apply in_map_iff. exists (x, c'). split; [reflexivity|].
        apply in_flat_map. exists (KS x, c'). split; [exact Hin'|]. unfold ebinds. cbn [fst snd]. apply in_or_app. right. left. reflexivity.
      - cbn [forallb snd]. rewrite (Hc Hsc Hn3), I2. reflexivity. }
    destruct G as [G1 G2]. rewrite G2, andb_true_r. apply SDictProofs.keys_nodup_iff. exact G1.
  - cbn [stat] in Hs. clear IH Hn. induction ts as [|c ts IH]; [reflexivity|]. cbn [forallb] in Hs. apply andb_true_iff in Hs.
    destruct Hs as [H1 H2]. destruct c as [v|d|l]; try discriminate H1. change (wf (Lst (Leaf v :: ts))) with (wf (Leaf v) && wf (Lst ts)).
    rewrite (IH H2). reflexivity.
Qed.

Lemma pdata_wf p k : NoDup (pall p) -> Forall stat_item p -> wf (Dict (pdata p k)) = true.
Proof.
  intros Hn Hs. rewrite TokProofs.wf_dict. apply andb_true_iff. split.
  - apply SDictProofs.keys_nodup_iff. rewrite FlatIndexProofs.pdata_keys. apply FinFun.Injective_map_NoDup.
    + intros a b E. inversion E. reflexivity.
    + exact (FlatIndexProofs.pnames_nodup p Hn).
  - apply forallb_forall. intros kv Hin. apply in_map_iff in Hin. destruct Hin as (it & <- & Hit).
    destruct it as [x v|x t]; cbn [pentry snd].
    + destruct v as [z|i g a]; cbn [fleaf]; [reflexivity|]. destruct (k x); reflexivity.
    + rewrite Forall_forall in Hs. pose proof (Hs _ Hit) as Hst. cbn [stat_item] in Hst. apply (stat_wf t Hst).
      pose proof (NoDup_flat_map_in pall_item p _ Hn Hit) as H1. cbn [pall_item sbinds_item] in H1. unfold ebinds in H1. cbn [fst snd] in H1.
      rewrite map_app in H1. exact (proj1 (FlatIndexProofs.NoDup_app_inv _ _ H1)).
Qed.

Lemma pall_pnum : forall p es rs, pall (pnum es rs p) = pall p.
Proof.
  induction p as [|it p IH]; intros es rs; [reflexivity|]. destruct it as [x [z|i g a]|x t]; cbn [pnum].
  - unfold pall in *. cbn [flat_map]. rewrite IH. reflexivity.
  - destruct (bare_exp g a); unfold pall in *; cbn [flat_map pall_item]; rewrite IH; reflexivity.
  - unfold pall in *. cbn [flat_map]. rewrite IH. reflexivity.
Qed.

Lemma stat_pnum : forall p es rs, Forall stat_item p -> Forall stat_item (pnum es rs p).
Proof.
  induction p as [|it p IH]; intros es rs H; [constructor|]. inversion H as [|it' p' Hi Hr]; subst.
  destruct it as [x [z|i g a]|x t]; cbn [pnum].
  - constructor; [exact I|exact (IH es rs Hr)].
  - destruct (bare_exp g a); (constructor; [exact I|apply IH; exact Hr]).
  - constructor; [exact Hi|exact (IH es rs Hr)].
Qed.

(* ================================================================================================ *)
(* 8. the parser on the text of a document                                                          *)
(* ================================================================================================ *)
Definition ptable (c : Z) (p : pdoc) : list (N * expr_entry) :=
  let ne := length (qexps p) in
  xtab (ids c ne) (qexps p) ++ xtab (ids (cafter c ne) (length (bexps p))) (bexps p).

Theorem parse_pdoc_data com dir c p : pdoc_ok p -> pdoc_plain p = true -> NoDup (qexps p) -> (-1 <= c)%Z ->
  (Z.of_nat (length (qexps p) + length (bexps p)) <= 1000000)%Z ->
  let ne := length (qexps p) in let nr := length (bexps p) in
  let c' := cafter c ne in
  parse_string com dir c (render_pdoc p) =
    Ok (mkParsed (mkSD (pdata (pnum (ids c ne) (ids c' nr) p) nothing) [] [] [] (ptable c p)) (cafter c' nr)).
Proof.
  intros Hpok Hpl Hnd Hc Hm.
  assert (Hne : p = [] \/ p <> []) by (destruct p; [left; reflexivity|right; discriminate]).
  destruct Hne as [->|Hne]; [vm_compute; reflexivity|].
  intros ne nr c'. pose proof (items_ok p Hpok Hpl) as Hok.
  set (q := pnum (ids c ne) (ids c' nr) p). set (D := pdata q nothing).
  assert (Hfin : Forall item_fin q) by (apply pnum_fin; [exact Hok|apply ids_small|apply ids_small]).
  assert (Hkt : ktree fin_leaf (Dict D) = true).
  { apply ktree_dict_all. intros kv Hin. apply in_map_iff in Hin. destruct Hin as (it & <- & Hit).
    rewrite Forall_forall in Hfin. exact (fin_entry_ok it (Hfin it Hit)). }
  assert (Hw : wf (Dict D) = true).
  { destruct Hpok as (H1 & _ & H3 & _). apply pdata_wf; [unfold q; rewrite pall_pnum; exact H1|apply stat_pnum; exact H3]. }
  assert (Hsk : skeys (Dict D) = true) by exact (ktree_skeys _ _ Hkt).
  assert (Hk' : forall kc, In kc D -> simple_key (fst kc) = true) by exact (ktree_dict_keys _ _ Hkt).
  assert (Hval : map_leaves nvX (Dict D) = Dict D).
  { rewrite (FoamProofs.map_leaves_ext_on fin_leaf nvX (fun x => x)); [apply E2EInsert.map_leaves_id| |exact Hkt].
    intros v Hv. exact (proj2 (fin_leaf_facts v Hv)). }
  assert (Hmv : map (TokProofs.mkv nvX) D = D).
  { rewrite TokProofs.map_leaves_dict in Hval. inversion Hval as [E]. rewrite E. exact E. }
  unfold parse_string. cbv zeta. rewrite (lex_pdoc com dir c p Hok Hne Hnd Hc Hm). cbv zeta. fold ne nr c' q D.
  cbn [lxd_tokens lxd_count lxd_lc lxd_bc lxd_inc lxd_expr lxd_lit].
  rewrite (TRK.tok_roundtrip_main ltX ktS nvX HltX HktpS HkpkS D Hw Hsk), Hval. cbn [kvs_of bind].
  rewrite (sd_clean_keys D [] [] [] _ Hsk Hw). cbn [sd_data sd_lc sd_bc sd_inc sd_expr insert_string_literals fold_left bind].
  pose proof (parser_clean_keys nvX D Hk') as Hpc. rewrite Hmv in Hpc. rewrite Hpc, (sd_clean_keys D [] [] [] _ Hsk Hw). reflexivity.
Qed.

(* ================================================================================================ *)
(* 9. the table of expressions, in the order of the parser                                          *)
(* ================================================================================================ *)
Definition all_int (d : fdoc) : Prop := Forall (fun xv => exists z, snd xv = FInt z) d.

Lemma elems_int l : forall ts pos, all_int (elems l pos ts).
Proof.
  induction ts as [|c ts IH]; intros pos; [constructor|]. cbn [elems]. apply Forall_app. split; [|apply IH].
  destruct c as [[z|f|b| |s]|d|l']; try constructor. - exists z. reflexivity. - constructor.
Qed.
Lemma decl_int b : all_int (decl b).
Proof.
  unfold decl. destruct (snd b) as [[z|f|b'| |s]|d|l]; try constructor; [exists z; reflexivity|constructor|apply elems_int].
Qed.
Lemma decls_int bs : all_int (flat_map decl bs).
Proof. induction bs as [|b bs IH]; [constructor|]. cbn [flat_map]. apply Forall_app. split; [apply decl_int|exact IH]. Qed.

Lemma psem_cons it r : psem (it :: r) = psem_item it ++ psem r.
Proof. reflexivity. Qed.

Lemma filter_ints d : all_int d -> filter is_q d = [] /\ filter is_b d = [] /\ filter is_i d = d.
Proof.
  induction 1 as [|[x v] d [z Hz] _ (I1 & I2 & I3)]; [repeat split; reflexivity|]. cbn [snd] in Hz. subst v.
  cbn [filter is_q is_b is_i snd]. rewrite I1, I2, I3. repeat split; reflexivity.
Qed.

Lemma ftable_cons xv d : ftable (xv :: d) nothing nothing = fentry nothing nothing xv ++ ftable d nothing nothing.
Proof. reflexivity. Qed.

Lemma xtab_cons k ks t ts : xtab (k :: ks) (t :: ts) = xentry k t :: xtab ks ts.
Proof. reflexivity. Qed.

Lemma ftable_q : forall p es rs, (length (qexps p) <= length es)%nat ->
  ftable (filter is_q (psem (pnum es rs p))) nothing nothing = xtab es (qexps p).
Proof.
  induction p as [|it p IH]; intros es rs Hl; [destruct es; reflexivity|].
  destruct it as [x [z|i g a]|x t]; cbn [pnum].
  - rewrite psem_cons. cbn [psem_item app filter is_q snd]. exact (IH es rs Hl).
  - unfold qexps in Hl. cbn [flat_map qexp_item] in Hl. fold (qexps p) in Hl. destruct (bare_exp g a) eqn:E.
    + rewrite psem_cons. cbn [psem_item app filter]. unfold is_q at 1. cbn [snd]. rewrite E. cbn [negb].
      unfold qexps. cbn [flat_map qexp_item]. rewrite E. cbn [app]. exact (IH es (tl rs) Hl).
    + cbn [app length] in Hl. destruct es as [|e0 es]; [cbn [length] in Hl; lia|].
      rewrite psem_cons. cbn [psem_item app filter hd tl]. unfold is_q at 1. cbn [snd]. rewrite E. cbn [negb].
      unfold qexps. cbn [flat_map qexp_item]. rewrite E. cbn [app]. fold (qexps p). rewrite ftable_cons, xtab_cons.
      rewrite (IH es rs) by (cbn [length] in Hl; lia). reflexivity.
  - rewrite psem_cons, filter_app. destruct (filter_ints _ (decls_int (sbinds_item (PStat x t)))) as (F1 & _ & _).
    cbn [psem_item]. rewrite F1. cbn [app]. exact (IH es rs Hl).
Qed.

Lemma ftable_b : forall p es rs, (length (bexps p) <= length rs)%nat ->
  ftable (filter is_b (psem (pnum es rs p))) nothing nothing = xtab rs (bexps p).
Proof.
  induction p as [|it p IH]; intros es rs Hl; [destruct rs; reflexivity|].
  destruct it as [x [z|i g a]|x t]; cbn [pnum].
  - rewrite psem_cons. cbn [psem_item app filter is_b snd]. exact (IH es rs Hl).
  - unfold bexps in Hl. cbn [flat_map bexp_item] in Hl. fold (bexps p) in Hl. destruct (bare_exp g a) eqn:E.
    + cbn [app length] in Hl. destruct rs as [|r0 rs]; [cbn [length] in Hl; lia|].
      rewrite psem_cons. cbn [psem_item app filter hd tl]. unfold is_b at 1. cbn [snd]. rewrite E.
      unfold bexps. cbn [flat_map bexp_item]. rewrite E. cbn [app]. fold (bexps p). rewrite ftable_cons, xtab_cons.
      rewrite (IH es rs) by (cbn [length] in Hl; lia). reflexivity.
    + rewrite psem_cons. cbn [psem_item app filter]. unfold is_b at 1. cbn [snd]. rewrite E.
      unfold bexps. cbn [flat_map bexp_item]. rewrite E. cbn [app]. exact (IH (tl es) rs Hl).
  - rewrite psem_cons, filter_app. destruct (filter_ints _ (decls_int (sbinds_item (PStat x t)))) as (_ & F2 & _).
    cbn [psem_item]. rewrite F2. cbn [app]. exact (IH es rs Hl).
Qed.

Lemma ftable_i d : ftable (filter is_i d) nothing nothing = [].
Proof.
  induction d as [|[x v] d IH]; [reflexivity|]. cbn [filter]. destruct v as [z|i g a]; cbn [is_i snd]; [|exact IH].
  rewrite ftable_cons, IH. reflexivity.
Qed.

Lemma ftable_app a b : ftable (a ++ b) nothing nothing = ftable a nothing nothing ++ ftable b nothing nothing.
Proof. unfold ftable. apply flat_map_app. Qed.

Lemma ptab_table c p : let ne := length (qexps p) in let nr := length (bexps p) in
  let q := pnum (ids c ne) (ids (cafter c ne) nr) p in
  ftable (ptab q) nothing nothing = ptable c p.
Proof.
  intros ne nr q. unfold ptab, ptable. rewrite !ftable_app, ftable_i, app_nil_r. unfold q.
  rewrite ftable_q by (rewrite ids_length; apply Nat.le_refl). rewrite ftable_b by (rewrite ids_length; apply Nat.le_refl). reflexivity.
Qed.

Lemma ptab_perm d : Permutation d (filter is_q d ++ filter is_b d ++ filter is_i d).
Proof.
  induction d as [|[x v] d IH]; [constructor|]. cbn [filter]. destruct v as [z|i g a]; cbn [is_q is_b is_i snd].
  - rewrite app_assoc. apply Permutation_cons_app. rewrite <- app_assoc. exact IH.
  - destruct (bare_exp g a); cbn [negb].
    + apply Permutation_cons_app. exact IH.
    + cbn [app]. apply perm_skip. exact IH.
Qed.

(* (2) the parser delivers the SDict of the C05 theorems, numbered its way *)
Theorem parser_delivers_psdict com dir c p : pdoc_ok p -> pdoc_plain p = true -> NoDup (qexps p) -> (-1 <= c)%Z ->
  (Z.of_nat (length (qexps p) + length (bexps p)) <= 1000000)%Z ->
  parse_string com dir c (render_pdoc p) = Ok (pparsed c p).
Proof.
  intros Hok Hpl Hnd Hc Hm. rewrite (parse_pdoc_data com dir c p Hok Hpl Hnd Hc Hm). cbv zeta.
  unfold pparsed, psdict_ord. cbv zeta. rewrite (ptab_table c p). reflexivity.
Qed.

(* ================================================================================================ *)
(* 10. the numbering of the parser keeps the document well-formed and its meaning                   *)
(* ================================================================================================ *)
Lemma pnum_names : forall p es rs, map pname (pnum es rs p) = map pname p.
Proof.
  induction p as [|it p IH]; intros es rs; [reflexivity|]. destruct it as [x [z|i g a]|x t]; cbn [pnum map pname]; try (rewrite IH; reflexivity).
  destruct (bare_exp g a); cbn [map pname]; rewrite IH; reflexivity.
Qed.

Lemma pnum_in_dyn : forall p es rs x v, In (PDyn x v) p -> exists v', In (PDyn x v') (pnum es rs p).
Proof.
  induction p as [|it p IH]; intros es rs x v Hin; [destruct Hin|]. destruct Hin as [->|Hin].
  - destruct v as [z|i g a]; cbn [pnum]; [exists (FInt z); left; reflexivity|].
    destruct (bare_exp g a); eexists; left; reflexivity.
  - destruct it as [y [z|i g a]|y t]; cbn [pnum].
    + destruct (IH es rs x v Hin) as [v' H]. exists v'. right. exact H.
    + destruct (bare_exp g a); [destruct (IH es (tl rs) x v Hin) as [v' H]|destruct (IH (tl es) rs x v Hin) as [v' H]]; exists v'; right; exact H.
    + destruct (IH es rs x v Hin) as [v' H]. exists v'. right. exact H.
Qed.

Lemma pnum_in_stat : forall p es rs x t, In (PStat x t) p -> In (PStat x t) (pnum es rs p).
Proof.
  induction p as [|it p IH]; intros es rs x t Hin; [destruct Hin|]. destruct Hin as [->|Hin]; [left; reflexivity|].
  destruct it as [y [z|i g a]|y t']; cbn [pnum]; try (right; apply IH; exact Hin).
  destruct (bare_exp g a); right; apply IH; exact Hin.
Qed.

(* the document without its expression ids *)
Definition er (v : fval) : fval := match v with FInt z => FInt z | FExp _ g a => FExp 0 g a end.
Definition erd (d : fdoc) : fdoc := map (fun xv => (fst xv, er (snd xv))) d.

Lemma erd_app a b : erd (a ++ b) = erd a ++ erd b.
Proof. apply map_app. Qed.

Lemma erd_pnum : forall p es rs, erd (psem (pnum es rs p)) = erd (psem p).
Proof.
  induction p as [|it p IH]; intros es rs; [reflexivity|]. destruct it as [x [z|i g a]|x t]; cbn [pnum].
  - rewrite !psem_cons, !erd_app, IH. reflexivity.
  - destruct (bare_exp g a); rewrite !psem_cons, !erd_app, IH; reflexivity.
  - rewrite !psem_cons, !erd_app, IH. reflexivity.
Qed.

Lemma flookup_erd x : forall d, flookup x (erd d) = option_map er (flookup x d).
Proof.
  induction d as [|[y v] d IH]; [reflexivity|]. cbn [erd map fst snd flookup]. destruct (str_eqb x y); [reflexivity|exact IH].
Qed.

Lemma kstep_erd d k x : kstep (erd d) k x = kstep d k x.
Proof. unfold kstep. rewrite flookup_erd. destruct (flookup x d) as [[z|i g a]|]; reflexivity. Qed.

Lemma know_erd d : forall n x, know (erd d) n x = know d n x.
Proof.
  induction n as [|n IH]; intros x; [reflexivity|]. cbn [know]. rewrite (EvalProofs.kstep_ext (erd d) _ (know d n) x IH). apply kstep_erd.
Qed.

Lemma denote_erd d x : denote (erd d) x = denote d x.
Proof. unfold denote, erd. rewrite map_length. apply know_erd. Qed.

Lemma total_erd d : total_doc (erd d) = total_doc d.
Proof.
  unfold total_doc. generalize d at 2 4. intros d'. induction d' as [|[y v] d' IH]; [reflexivity|].
  cbn [erd map forallb fst]. rewrite denote_erd. f_equal. exact IH.
Qed.

Lemma pnum_denote p es rs x : denote (psem (pnum es rs p)) x = denote (psem p) x.
Proof. rewrite <- denote_erd, erd_pnum. apply denote_erd. Qed.
Lemma pnum_total p es rs : total_doc (psem (pnum es rs p)) = total_doc (psem p).
Proof. rewrite <- total_erd, erd_pnum. apply total_erd. Qed.

Lemma erd_names d : map fst (erd d) = map fst d.
Proof. unfold erd. rewrite map_map. reflexivity. Qed.

Lemma fexp_ids_app a b : fexp_ids (a ++ b) = fexp_ids a ++ fexp_ids b.
Proof. unfold fexp_ids. apply flat_map_app. Qed.
Lemma fexp_ids_ints d : all_int d -> fexp_ids d = [].
Proof. induction 1 as [|[x v] d [z Hz] _ IH]; [reflexivity|]. cbn [snd] in Hz. subst v. exact IH. Qed.

Lemma psem_item_stat_ids x t : fexp_ids (psem_item (PStat x t)) = [].
Proof. apply fexp_ids_ints. apply decls_int. Qed.

Lemma pnum_ids : forall p es rs, NoDup (es ++ rs) -> (length (qexps p) <= length es)%nat -> (length (bexps p) <= length rs)%nat ->
  NoDup (fexp_ids (psem (pnum es rs p))) /\ (forall i, In i (fexp_ids (psem (pnum es rs p))) -> In i (es ++ rs)).
Proof.
  induction p as [|it p IH]; intros es rs Hnd H1 H2; [split; [constructor|intros i []]|].
  destruct it as [x [z|i0 g a]|x t]; cbn [pnum].
  - rewrite psem_cons, fexp_ids_app. exact (IH es rs Hnd H1 H2).
  - unfold qexps, bexps in H1, H2. cbn [flat_map qexp_item bexp_item] in H1, H2. fold (qexps p) in H1. fold (bexps p) in H2.
    destruct (bare_exp g a).
    + cbn [app length] in H1, H2. destruct rs as [|r0 rs]; [cbn [length] in H2; lia|]. cbn [hd tl length] in *.
      assert (Hnd' : NoDup (es ++ rs)) by (apply NoDup_remove_1 in Hnd; exact Hnd).
      destruct (IH es rs Hnd' H1 ltac:(lia)) as [I1 I2]. rewrite psem_cons, fexp_ids_app. cbn [psem_item fexp_ids flat_map snd app]. split.
      * constructor; [|exact I1]. intros Hin. apply NoDup_remove_2 in Hnd. apply Hnd. exact (I2 _ Hin).
      * intros i [<-|Hi]; [apply in_or_app; right; left; reflexivity|]. specialize (I2 i Hi). apply in_app_or in I2.
        apply in_or_app. destruct I2 as [I2|I2]; [left; exact I2|right; right; exact I2].
    + cbn [app length] in H1, H2. destruct es as [|e0 es]; [cbn [length] in H1; lia|]. cbn [hd tl length app] in *.
      inversion Hnd as [|? ? Hn0 Hnd']; subst.
      destruct (IH es rs Hnd' ltac:(lia) H2) as [I1 I2]. rewrite psem_cons, fexp_ids_app. cbn [psem_item fexp_ids flat_map snd app]. split.
      * constructor; [|exact I1]. intros Hin. apply Hn0. exact (I2 _ Hin).
      * intros i [<-|Hi]; [left; reflexivity|right; exact (I2 i Hi)].
  - rewrite psem_cons, fexp_ids_app, psem_item_stat_ids. exact (IH es rs Hnd H1 H2).
Qed.

Lemma pnum_gexp : forall p es rs, Forall gexp_ok (map snd (psem p)) -> small es -> small rs -> Forall gexp_ok (map snd (psem (pnum es rs p))).
Proof.
  induction p as [|it p IH]; intros es rs H Hes Hrs; [constructor|]. rewrite psem_cons, map_app in H. apply Forall_app in H. destruct H as [Hi Hr].
  destruct it as [x [z|i g a]|x t]; cbn [pnum].
  - rewrite psem_cons, map_app. apply Forall_app. split; [exact Hi|exact (IH es rs Hr Hes Hrs)].
  - cbn [psem_item map snd] in Hi. inversion Hi as [|? ? G0 _]; subst. cbn [gexp_ok] in G0. destruct G0 as (_ & G). destruct (bare_exp g a); rewrite psem_cons, map_app; apply Forall_app.
    + split; [|exact (IH es (tl rs) Hr Hes (tl_small _ Hrs))]. cbn [psem_item map snd]. constructor; [|constructor]. split; [exact (hd_small _ Hrs)|exact G].
    + split; [|exact (IH (tl es) rs Hr (tl_small _ Hes) Hrs)]. cbn [psem_item map snd]. constructor; [|constructor]. split; [exact (hd_small _ Hes)|exact G].
  - rewrite psem_cons, map_app. apply Forall_app. split; [exact Hi|exact (IH es rs Hr Hes Hrs)].
Qed.

Lemma pnum_ok p es rs : pdoc_ok p -> small es -> small rs -> NoDup (es ++ rs) ->
  (length (qexps p) <= length es)%nat -> (length (bexps p) <= length rs)%nat -> pdoc_ok (pnum es rs p).
Proof.
  intros (H1 & H2 & H3 & H4 & _ & H6) Hes Hrs Hnd L1 L2. unfold pdoc_ok. rewrite pall_pnum.
  split; [exact H1|]. split; [exact H2|]. split; [exact (stat_pnum p es rs H3)|]. split.
  - rewrite <- erd_names, erd_pnum, erd_names. exact H4.
  - split; [exact (proj1 (pnum_ids p es rs Hnd L1 L2))|exact (pnum_gexp p es rs H6 Hes Hrs)].
Qed.

(* the document with the numbering the parser gives it, the counter standing at [c] *)
Definition pnumbered (c : Z) (p : pdoc) : pdoc :=
  let ne := length (qexps p) in pnum (ids c ne) (ids (cafter c ne) (length (bexps p))) p.

Lemma pnumbered_ok c p : pdoc_ok p -> (-1 <= c)%Z -> (Z.of_nat (length (qexps p) + length (bexps p)) <= 1000000)%Z ->
  pdoc_ok (pnumbered c p).
Proof.
  intros Hok Hc Hm. unfold pnumbered. cbv zeta. apply pnum_ok; [exact Hok|apply ids_small|apply ids_small| | |].
  - rewrite <- ids_app. apply ids_nodup; assumption.
  - rewrite ids_length. apply Nat.le_refl.
  - rewrite ids_length. apply Nat.le_refl.
Qed.

(* ================================================================================================ *)
(* 11. reading the file: every dynamic entry holds the directly computed value                      *)
(* ================================================================================================ *)
From DictIO Require AppendCommented RereadOff.

Lemma pparsed_eq c p : pparsed c p =
  mkParsed (psdict_ord (pnumbered c p) (ptab (pnumbered c p)) [] [] [])
           (cafter (cafter c (length (qexps p))) (length (bexps p))).
Proof. reflexivity. Qed.

Lemma pnumbered_fin c p : Forall item_ok p -> Forall item_fin (pnumbered c p).
Proof. intros H. unfold pnumbered. cbv zeta. apply pnum_fin; [exact H|apply ids_small|apply ids_small]. Qed.

Lemma fin_ktree q : Forall item_fin q -> ktree fin_leaf (Dict (pdata q nothing)) = true.
Proof.
  intros Hfin. apply ktree_dict_all. intros kv Hin. apply in_map_iff in Hin. destruct Hin as (it & <- & Hit).
  rewrite Forall_forall in Hfin. exact (fin_entry_ok it (Hfin it Hit)).
Qed.

Theorem text_direct_value : forall p fs root c, pdoc_ok p -> pdoc_plain p = true -> NoDup (qexps p) -> (-1 <= c)%Z ->
  (Z.of_nat (length (qexps p) + length (bexps p)) <= 1000000)%Z -> total_doc (psem p) = true ->
  fs_lookup (norm_path root) fs = Some (FNative (render_pdoc p)) ->
  exists s', read_full fs root true c = Some (Ok (s', cafter (cafter c (length (qexps p))) (length (bexps p)))) /\
    sd_expr s' = [] /\ map fst (sd_data s') = map KS (map pname p) /\
    (forall x v z, In (PDyn x v) p -> denote (psem p) x = Some z -> alookup (KS x) (sd_data s') = Some (Leaf (SInt z))) /\
    (forall x t, In (PStat x t) p -> alookup (KS x) (sd_data s') = Some t).
Proof.
  intros p fs root c Hok Hpl Hnd Hc Hm Ht Hfs.
  set (q := pnumbered c p). pose proof (pnumbered_ok c p Hok Hc Hm) as Hq. fold q in Hq.
  assert (Htq : total_doc (psem q) = true) by (unfold q, pnumbered; cbv zeta; rewrite pnum_total; exact Ht).
  destruct (FlatIndexProofs.pdoc_value_ord q (ptab q) [] [] [] Hq (ptab_perm (psem q)) Htq) as (s' & He & Hx & Hk & Hv & Hs).
  pose proof (fin_ktree q (pnumbered_fin c p (items_ok p Hok Hpl))) as Hkt.
  assert (Hw : wf (Dict (pdata q nothing)) = true) by (destruct Hq as (H1 & _ & H3 & _); exact (pdata_wf q nothing H1 H3)).
  assert (Hmi : merge_includes fs true (psdict_ord q (ptab q) [] [] []) (cafter (cafter c (length (qexps p))) (length (bexps p))) =
                Ok (psdict_ord q (ptab q) [] [] [], cafter (cafter c (length (qexps p))) (length (bexps p)))).
  { apply AppendCommented.merge_includes_clean; [reflexivity|exact Hw|]. apply RereadOff.ctabs_plain. exact (ktree_skeys _ _ Hkt). }
  exists s'. split.
  - unfold read_full. rewrite Hfs. cbn [parse_unit]. rewrite (parser_delivers_psdict true (dir_of root) c p Hok Hpl Hnd Hc Hm), pparsed_eq.
    fold q. cbn [pr_sd pr_count]. rewrite Hmi, He. reflexivity.
  - split; [exact Hx|]. split; [rewrite Hk; unfold q, pnumbered; cbv zeta; rewrite pnum_names; reflexivity|]. split.
    + intros x v z Hin Hd. destruct (pnum_in_dyn p (ids c (length (qexps p))) (ids (cafter c (length (qexps p))) (length (bexps p))) x v Hin) as [v' Hin']. apply (Hv x v' z Hin').
      unfold q, pnumbered. cbv zeta. rewrite pnum_denote. exact Hd.
    + intros x t Hin. apply Hs. apply pnum_in_stat. exact Hin.
Qed.

(* ---- the same with computable side conditions ---------------------------------------------------- *)
Theorem parser_delivers_psdict_b com dir c p : pdoc_ok p -> pdoc_plain p = true -> FlatIndexProofs.nodupb (qexps p) = true ->
  (-1 <= c)%Z -> (Z.of_nat (length (qexps p) + length (bexps p)) <= 1000000)%Z ->
  parse_string com dir c (render_pdoc p) = Ok (pparsed c p).
Proof. intros Hok Hpl Hnd. apply parser_delivers_psdict; [exact Hok|exact Hpl|exact (FlatIndexProofs.nodupb_sound _ Hnd)]. Qed.

(* the numbered document composes with the evaluation theorems: it is well-formed, its table order is a permutation of the
   flattened document, it denotes what p denotes *)
Theorem numbering_composes c p : pdoc_ok p -> (-1 <= c)%Z -> (Z.of_nat (length (qexps p) + length (bexps p)) <= 1000000)%Z ->
  pdoc_ok (pnumbered c p) /\ Permutation (psem (pnumbered c p)) (ptab (pnumbered c p)) /\
  render_pdoc (pnumbered c p) = render_pdoc p /\ map pname (pnumbered c p) = map pname p /\
  (forall x, denote (psem (pnumbered c p)) x = denote (psem p) x) /\
  total_doc (psem (pnumbered c p)) = total_doc (psem p).
Proof.
  intros Hok Hc Hm. split; [exact (pnumbered_ok c p Hok Hc Hm)|]. split; [apply ptab_perm|].
  unfold pnumbered. cbv zeta. split; [|split; [apply pnum_names|split; [intros x; apply pnum_denote|apply pnum_total]]].
  unfold render_pdoc. do 2 f_equal. generalize (ids c (length (qexps p))) (ids (cafter c (length (qexps p))) (length (bexps p))).
  clear Hok Hm. induction p as [|it p IH]; intros es rs; [reflexivity|]. destruct it as [x [z|i g a]|x t]; cbn [pnum]; unfold psrc in *; cbn [map psrc_entry].
  - rewrite IH. reflexivity.
  - destruct (bare_exp g a); cbn [map psrc_entry]; rewrite IH; reflexivity.
  - rewrite IH. reflexivity.
Qed.

Theorem text_direct_value_b : forall p fs root c, pdoc_ok p -> pdoc_plain p = true -> FlatIndexProofs.nodupb (qexps p) = true -> (-1 <= c)%Z ->
  (Z.of_nat (length (qexps p) + length (bexps p)) <= 1000000)%Z -> total_doc (psem p) = true ->
  fs_lookup (norm_path root) fs = Some (FNative (render_pdoc p)) ->
  exists s', read_full fs root true c = Some (Ok (s', cafter (cafter c (length (qexps p))) (length (bexps p)))) /\
    sd_expr s' = [] /\ map fst (sd_data s') = map KS (map pname p) /\
    (forall x v z, In (PDyn x v) p -> denote (psem p) x = Some z -> alookup (KS x) (sd_data s') = Some (Leaf (SInt z))) /\
    (forall x t, In (PStat x t) p -> alookup (KS x) (sd_data s') = Some t).
Proof. intros p fs root c Hok Hpl Hnd. apply text_direct_value; [exact Hok|exact Hpl|exact (FlatIndexProofs.nodupb_sound _ Hnd)]. Qed.
