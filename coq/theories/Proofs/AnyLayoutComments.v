(* C02, arbitrary layouts, part 3: comments.  Reading with comments = false deletes line comments (per line, before
   anything else) and block comments (on the re-joined text, every occurrence of every comment text, one comment after
   the other).  Stage B: a text with block comments between "plain" stretches loses exactly the comments.  Stage L: a
   text with line comments at line ends loses the comments (and the carriage return of a CRLF line end). *)
From Coq Require Import String.
From Coq Require Import NArith ZArith List Bool Lia ZifyBool ZifyN ZifyNat.
From DictIO Require Import Chars Str Value Scalar KeyPath SDict Layout Lexer TokParser TreeSpec NativeSpec LayoutSpec E2ESpec.
From DictIO Require ScalarProofs SDictProofs TokProofs LayoutProofs SemProofs QuoteProofs KeyPathProofs.
From DictIO Require Import E2EProofs E2EHoles E2EInsert E2EKeyTok E2EFullProofs AnyLayoutLex AnyLayoutProofs.
Import ListNotations.
Import LayoutProofs.
Open Scope N_scope.

(* ================================================================================================ *)
(* B. block comments                                                                                *)
(* ================================================================================================ *)

(* a block comment: slash star, a body without any slash (hence without star-slash, slash-star, slash-slash), star slash *)
Definition bcomment (body : str) : str := c_slash :: c_star :: body ++ [c_star; c_slash].
Definition bc_body (body : str) : bool := negb (has_char c_slash body).

(* a stretch of text between comments: no slash-star inside, not ending with a slash *)
Definition ends_slash (p : str) : bool := match rev p with c :: _ => c =? c_slash | [] => false end.
Definition plain_in (p : str) : bool := nopair c_slash c_star p && negb (ends_slash p).
(* ... and, behind a comment, not starting with a slash or a star *)
Definition plain_after (p : str) : bool :=
  match p with c :: _ => negb (c =? c_slash) && negb (c =? c_star) | [] => true end.

(* the text: p0, then comment + plain stretch, repeatedly; [keep] selects the comments that are (still) there *)
Definition seg_text (keep : str -> bool) (cp : str * str) : str :=
  (if keep (bcomment (fst cp)) then bcomment (fst cp) else []) ++ snd cp.
Definition flat (keep : str -> bool) (p0 : str) (cps : list (str * str)) : str := p0 ++ flat_map (seg_text keep) cps.
Definition seg_ok (cp : str * str) : bool := bc_body (fst cp) && plain_in (snd cp) && plain_after (snd cp).

Definition nostar (s : str) : bool := match s with c :: _ => negb (c =? c_star) | [] => true end.

Lemma nostar_flat keep cps : forallb seg_ok cps = true -> nostar (flat_map (seg_text keep) cps) = true.
Proof.
  induction cps as [|[b p] cps IH]; intros H; [reflexivity|]. cbn [forallb] in H. apply andb_true_iff in H.
  destruct H as [H1 H2]. cbn [flat_map]. unfold seg_text at 1. cbn [fst snd].
  destruct (keep (bcomment b)); [reflexivity|]. cbn [app]. destruct p as [|c p']; [exact (IH H2)|].
  unfold seg_ok in H1. cbn [snd plain_after] in H1. apply andb_true_iff in H1. destruct H1 as [_ H1].
  apply andb_true_iff in H1. cbn [app nostar]. exact (proj2 H1).
Qed.

(* ---- finding the comments ------------------------------------------------------------------------ *)
Lemma find_block_eq fuel a b (r : list N) :
  find_block_comments (S fuel) (a :: b :: r) =
  if (a =? c_slash) && (b =? c_star) then
    match take_until_close [b; a] r with
    | Some (cmt, rest) => cmt :: find_block_comments fuel rest
    | None => find_block_comments fuel (b :: r)
    end
  else find_block_comments fuel (b :: r).
Proof. reflexivity. Qed.

Lemma ends_slash_cons c d (p : list N) : ends_slash (c :: d :: p) = ends_slash (d :: p).
Proof.
  unfold ends_slash. cbn [rev]. destruct (rev p ++ [d]) as [|x l] eqn:E.
  - destruct (rev p); discriminate E.
  - reflexivity.
Qed.

(* skipping a plain stretch: the head of what follows may be anything when the stretch does not end with a slash *)
Lemma find_plain (p : list N) : forall (R : list N) fuel, plain_in p = true -> (length (p ++ R) < fuel)%nat ->
  find_block_comments fuel (p ++ R) = find_block_comments (fuel - length p) R.
Proof.
  induction p as [|a p IH]; intros R fuel Hp Hf.
  - cbn [app length]. rewrite Nat.sub_0_r. reflexivity.
  - unfold plain_in in Hp. apply andb_true_iff in Hp. destruct Hp as [Hn He]. apply negb_true_iff in He.
    destruct fuel as [|f]; [inversion Hf|]. cbn [app length] in Hf.
    assert (Hp' : plain_in p = true).
    { unfold plain_in. rewrite (nopair_tail _ _ _ _ Hn). destruct p as [|d p']; [reflexivity|].
      rewrite ends_slash_cons in He. rewrite He. reflexivity. }
    cbn [length Nat.sub]. rewrite <- (IH R f Hp' ltac:(lia)).
    destruct p as [|d p'].
    + (* a is the last character of the stretch: not a slash *)
      cbn [app]. unfold ends_slash in He. cbn [rev app] in He.
      destruct R as [|b r]; [destruct f; reflexivity|]. rewrite find_block_eq, He. reflexivity.
    + cbn [app]. rewrite find_block_eq. cbn [nopair] in Hn. apply andb_true_iff in Hn. destruct Hn as [Hn _].
      apply negb_true_iff in Hn. rewrite Hn. reflexivity.
Qed.

Lemma tuc_eq acc a b (r : list N) :
  take_until_close acc (a :: b :: r) =
  if (a =? c_star) && (b =? c_slash) then Some (rev (b :: a :: acc), r) else take_until_close (a :: acc) (b :: r).
Proof. reflexivity. Qed.

Lemma take_until_close_body (body : list N) : forall acc (R : list N), has_char c_slash body = false ->
  take_until_close acc (body ++ c_star :: c_slash :: R) = Some (rev acc ++ body ++ [c_star; c_slash], R).
Proof.
  induction body as [|a body IH]; intros acc R Hb.
  - cbn [app]. rewrite tuc_eq, !N.eqb_refl. cbn [andb rev]. rewrite <- !app_assoc. reflexivity.
  - rewrite has_char_cons in Hb. apply orb_false_iff in Hb. destruct Hb as [Ha Hb]. rewrite N.eqb_sym in Ha.
    assert (E : exists b r, body ++ c_star :: c_slash :: R = b :: r /\ (b =? c_slash) = false).
    { destruct body as [|b body']; [exists c_star, (c_slash :: R); split; reflexivity|].
      exists b, (body' ++ c_star :: c_slash :: R). split; [reflexivity|].
      rewrite has_char_cons in Hb. apply orb_false_iff in Hb. rewrite N.eqb_sym. exact (proj1 Hb). }
    destruct E as (b & r & E & Hbs). change ((a :: body) ++ c_star :: c_slash :: R) with (a :: (body ++ c_star :: c_slash :: R)).
    rewrite E, tuc_eq, Hbs, andb_false_r.
    rewrite <- E, (IH (a :: acc) R Hb). cbn [rev]. rewrite <- !app_assoc. reflexivity.
Qed.

Lemma find_comment_seg body (R : list N) fuel : bc_body body = true ->
  find_block_comments (S fuel) (bcomment body ++ R) = bcomment body :: find_block_comments fuel R.
Proof.
  intros Hb. unfold bc_body in Hb. apply negb_true_iff in Hb. unfold bcomment. cbn [app].
  rewrite find_block_eq, !N.eqb_refl. cbn [andb]. rewrite <- app_assoc. cbn [app].
  rewrite (take_until_close_body body [c_star; c_slash] R Hb). cbn [rev app]. reflexivity.
Qed.

Lemma seg_ok_inv cp : seg_ok cp = true -> bc_body (fst cp) = true /\ plain_in (snd cp) = true /\ plain_after (snd cp) = true.
Proof.
  unfold seg_ok. intros H. apply andb_true_iff in H. destruct H as [H H3]. apply andb_true_iff in H. destruct H as [H1 H2].
  repeat split; assumption.
Qed.

Definition all_kept : str -> bool := fun _ => true.

Lemma find_segs : forall cps fuel, forallb seg_ok cps = true ->
  (length (flat_map (seg_text all_kept) cps) < fuel)%nat ->
  find_block_comments fuel (flat_map (seg_text all_kept) cps) = map (fun cp => bcomment (fst cp)) cps.
Proof.
  induction cps as [|[b p] cps IH]; intros fuel H Hf.
  - destruct fuel; reflexivity.
  - cbn [forallb] in H. apply andb_true_iff in H. destruct H as [H1 H2].
    destruct (seg_ok_inv _ H1) as (Hb & Hp & _). cbn [fst snd] in Hb, Hp.
    cbn [flat_map map fst] in *. unfold seg_text at 1 in Hf. unfold seg_text at 1. unfold all_kept at 1 in Hf. unfold all_kept at 1.
    cbn [fst snd] in *. rewrite <- app_assoc in *.
    destruct fuel as [|f]; [inversion Hf|].
    rewrite (find_comment_seg b _ f Hb). f_equal.
    assert (Hl : (length (p ++ flat_map (seg_text all_kept) cps) < f)%nat).
    { unfold bcomment in Hf. cbn [app length] in Hf. rewrite !app_length in Hf. rewrite app_length. cbn [length] in Hf. lia. }
    rewrite (find_plain p _ f Hp Hl). apply IH; [exact H2|]. rewrite app_length in Hl. lia.
Qed.

Lemma find_flat p0 cps : plain_in p0 = true -> forallb seg_ok cps = true ->
  find_block_comments (S (length (flat all_kept p0 cps))) (flat all_kept p0 cps) = map (fun cp => bcomment (fst cp)) cps.
Proof.
  intros H0 H. unfold flat. rewrite (find_plain p0 _ _ H0 (Nat.lt_succ_diag_r _)).
  apply find_segs; [exact H|]. rewrite app_length. lia.
Qed.

(* ---- deleting one comment text everywhere -------------------------------------------------------- *)
Lemma replace_plain (c' new p : list N) : forall (R : list N), plain_in p = true ->
  replace_go (c_slash :: c_star :: c') new O (p ++ R) = p ++ replace_go (c_slash :: c_star :: c') new O R.
Proof.
  induction p as [|a p IH]; intros R Hp; [reflexivity|].
  unfold plain_in in Hp. apply andb_true_iff in Hp. destruct Hp as [Hn He]. apply negb_true_iff in He.
  assert (Hp' : plain_in p = true).
  { unfold plain_in. rewrite (nopair_tail _ _ _ _ Hn). destruct p as [|d p']; [reflexivity|].
    rewrite ends_slash_cons in He. rewrite He. reflexivity. }
  cbn [app]. rewrite replace_go_O.
  assert (Hs : starts_with (c_slash :: c_star :: c') (a :: p ++ R) = false).
  { destruct p as [|d p'].
    - unfold ends_slash in He. cbn [rev app] in He. cbn [starts_with]. rewrite N.eqb_sym, He. reflexivity.
    - cbn [nopair] in Hn. apply andb_true_iff in Hn. destruct Hn as [Hn _]. apply negb_true_iff in Hn.
      cbn [app starts_with]. rewrite (N.eqb_sym c_slash a), (N.eqb_sym c_star d).
      destruct (a =? c_slash); [|reflexivity]. cbn [andb] in Hn |- *. rewrite Hn. reflexivity. }
  rewrite Hs. f_equal. apply IH. exact Hp'.
Qed.

Lemma replace_same (c R : list N) : c <> [] -> replace_go c [] O (c ++ R) = replace_go c [] O R.
Proof.
  intros Hc. destruct c as [|x c']; [congruence|]. cbn [app]. rewrite replace_go_O.
  change (x :: c' ++ R) with ((x :: c') ++ R). rewrite starts_with_app. cbn [app length Nat.pred]. apply replace_go_skip.
Qed.

(* the first slash behind the opening one decides *)
Lemma starts_with_mid (m : list N) : forall (m' R : list N), has_char c_slash m = false -> has_char c_slash m' = false ->
  starts_with (m ++ [c_slash]) (m' ++ c_slash :: R) = true -> m = m'.
Proof.
  induction m as [|a m IH]; intros m' R Hm Hm' H.
  - destruct m' as [|b m'']; [reflexivity|]. rewrite has_char_cons in Hm'. apply orb_false_iff in Hm'.
    cbn [app starts_with] in H. rewrite (proj1 Hm') in H. discriminate H.
  - rewrite has_char_cons in Hm. apply orb_false_iff in Hm. destruct Hm as [Ha Hm].
    destruct m' as [|b m''].
    + cbn [app starts_with] in H. rewrite N.eqb_sym, Ha in H. discriminate H.
    + rewrite has_char_cons in Hm'. apply orb_false_iff in Hm'. cbn [app starts_with] in H. apply andb_true_iff in H.
      destruct H as [H1 H2]. apply N.eqb_eq in H1. subst b. f_equal. exact (IH m'' R Hm (proj2 Hm') H2).
Qed.

Lemma mid_noslash body : bc_body body = true -> has_char c_slash (c_star :: body ++ [c_star]) = false.
Proof.
  unfold bc_body. intros H. apply negb_true_iff in H. rewrite has_char_cons, has_char_app', H. reflexivity.
Qed.

Lemma bcomment_mid body : bcomment body = c_slash :: (c_star :: body ++ [c_star]) ++ [c_slash].
Proof. unfold bcomment. cbn [app]. rewrite <- app_assoc. reflexivity. Qed.

Lemma replace_noslash (c : list N) new (m : list N) : forall (R : list N), has_char c_slash m = false ->
  replace_go (c_slash :: c) new O (m ++ R) = m ++ replace_go (c_slash :: c) new O R.
Proof.
  induction m as [|a m IH]; intros R Hm; [reflexivity|]. rewrite has_char_cons in Hm. apply orb_false_iff in Hm.
  destruct Hm as [Ha Hm]. cbn [app]. rewrite replace_go_O. cbn [starts_with]. rewrite Ha. cbn [andb]. f_equal. exact (IH R Hm).
Qed.

Lemma bcomment_app body (R : list N) : bcomment body ++ R = c_slash :: (c_star :: body ++ [c_star]) ++ c_slash :: R.
Proof. unfold bcomment. cbn [app]. rewrite <- !app_assoc. reflexivity. Qed.

Lemma replace_other b b' (R : list N) : bc_body b = true -> bc_body b' = true -> bcomment b <> bcomment b' ->
  nostar R = true ->
  replace_go (bcomment b) [] O (bcomment b' ++ R) = bcomment b' ++ replace_go (bcomment b) [] O R.
Proof.
  intros Hb Hb' Hne Hr. pose proof (mid_noslash b Hb) as Hm. pose proof (mid_noslash b' Hb') as Hm'.
  assert (Ne : bcomment b = bcomment b' -> False) by exact Hne.
  rewrite !(bcomment_app b'), !(bcomment_mid b) in *.
  set (m := c_star :: b ++ [c_star]) in *. set (m' := c_star :: b' ++ [c_star]) in *.
  rewrite replace_go_O.
  assert (H0 : starts_with (c_slash :: m ++ [c_slash]) (c_slash :: m' ++ c_slash :: R) = false).
  { destruct (starts_with (c_slash :: m ++ [c_slash]) _) eqn:E; [|reflexivity]. exfalso. apply Hne.
    cbn [starts_with] in E. rewrite N.eqb_refl in E. cbn [andb] in E.
    pose proof (starts_with_mid m m' R Hm Hm' E) as Em. rewrite (bcomment_mid b'). fold m'. rewrite Em. reflexivity. }
  rewrite H0. f_equal.
  rewrite (replace_noslash (m ++ [c_slash]) [] m' _ Hm'). f_equal.
  rewrite replace_go_O.
  assert (H1 : starts_with (c_slash :: m ++ [c_slash]) (c_slash :: R) = false).
  { cbn [starts_with]. rewrite N.eqb_refl. cbn [andb]. unfold m. cbn [app]. destruct R as [|x r]; [reflexivity|].
    cbn [nostar] in Hr. apply negb_true_iff in Hr. cbn [starts_with]. rewrite N.eqb_sym, Hr. reflexivity. }
  rewrite H1. reflexivity.
Qed.

(* ---- deleting the comments one after the other --------------------------------------------------- *)
Definition keepD (D : list str) (c : str) : bool := negb (existsb (str_eqb c) D).
Definition none_kept : str -> bool := fun _ => false.

Lemma nostar_after keep p cps : plain_after p = true -> forallb seg_ok cps = true ->
  nostar (p ++ flat_map (seg_text keep) cps) = true.
Proof.
  intros Hp H. destruct p as [|c p']; [exact (nostar_flat keep cps H)|].
  cbn [plain_after] in Hp. apply andb_true_iff in Hp. cbn [app nostar]. exact (proj2 Hp).
Qed.

Lemma replace_flat b D : bc_body b = true -> forall cps, forallb seg_ok cps = true ->
  replace_go (bcomment b) [] O (flat_map (seg_text (keepD D)) cps) = flat_map (seg_text (keepD (bcomment b :: D))) cps.
Proof.
  intros Hb. induction cps as [|[b' p] cps IH]; intros H; [reflexivity|].
  cbn [forallb] in H. apply andb_true_iff in H. destruct H as [H1 H2].
  destruct (seg_ok_inv _ H1) as (Hb' & Hp & Hpa). cbn [fst snd] in Hb', Hp, Hpa.
  cbn [flat_map]. unfold seg_text at 1 3. cbn [fst snd]. rewrite <- !app_assoc.
  assert (Hplain : forall R, replace_go (bcomment b) [] O (p ++ R) = p ++ replace_go (bcomment b) [] O R).
  { intros R. unfold bcomment at 1 2. apply replace_plain. exact Hp. }
  unfold keepD at 1 3. cbn [existsb]. destruct (existsb (str_eqb (bcomment b')) D) eqn:ED.
  - rewrite orb_true_r. cbn [negb app]. rewrite Hplain, (IH H2). reflexivity.
  - rewrite orb_false_r. cbn [negb]. destruct (str_eqb (bcomment b') (bcomment b)) eqn:Eb.
    + apply SDictProofs.str_eqb_eq in Eb. rewrite Eb. cbn [negb app].
      rewrite replace_same by (unfold bcomment; discriminate). rewrite Hplain, (IH H2). reflexivity.
    + cbn [negb]. rewrite (replace_other b b' _ Hb Hb').
      * rewrite Hplain, (IH H2). reflexivity.
      * intros E. rewrite E, ScalarProofs.str_eqb_refl in Eb. discriminate Eb.
      * apply nostar_after; assumption.
Qed.

Lemma replace_all_flat b D p0 cps : bc_body b = true -> plain_in p0 = true -> forallb seg_ok cps = true ->
  replace_all (bcomment b) [] (flat (keepD D) p0 cps) = flat (keepD (bcomment b :: D)) p0 cps.
Proof.
  intros Hb H0 H. unfold replace_all, flat. unfold bcomment at 1. cbv iota. fold (bcomment b).
  unfold bcomment at 1. rewrite (replace_plain _ [] p0 _ H0). fold (bcomment b). rewrite (replace_flat b D Hb cps H). reflexivity.
Qed.

Lemma fold_flat p0 cps : plain_in p0 = true -> forallb seg_ok cps = true ->
  forall bodies i D, Forall (fun b => bc_body b = true) bodies ->
  fold_left (fun acc (e : N * str) => replace_all (snd e) [] acc) (number_from i (map bcomment bodies)) (flat (keepD D) p0 cps) =
  flat (keepD (rev (map bcomment bodies) ++ D)) p0 cps.
Proof.
  intros H0 H. induction bodies as [|b bodies IH]; intros i D Hbs; [reflexivity|].
  inversion Hbs as [|b' l' Hb Hbs']; subst. cbn [map number_from fold_left snd].
  rewrite (replace_all_flat b D p0 cps Hb H0 H), (IH (i + 1) (bcomment b :: D) Hbs').
  cbn [rev]. rewrite <- app_assoc. reflexivity.
Qed.

Lemma flat_ext k1 k2 p0 cps : (forall cp, In cp cps -> k1 (bcomment (fst cp)) = k2 (bcomment (fst cp))) ->
  flat k1 p0 cps = flat k2 p0 cps.
Proof.
  intros Hk. unfold flat. f_equal. induction cps as [|cp cps IH]; [reflexivity|]. cbn [flat_map].
  rewrite IH by (intros cp' Hin; apply Hk; right; exact Hin). unfold seg_text. rewrite (Hk cp (or_introl eq_refl)). reflexivity.
Qed.

(* with comments = false the block comment stage deletes exactly the comments *)
Theorem block_stage p0 cps : plain_in p0 = true -> forallb seg_ok cps = true ->
  extract_block_comments false (flat all_kept p0 cps) =
    (flat none_kept p0 cps, number_from 0 (map (fun cp => bcomment (fst cp)) cps)).
Proof.
  intros H0 H. unfold extract_block_comments. rewrite (find_flat p0 cps H0 H). f_equal.
  assert (Em : map (fun cp : str * str => bcomment (fst cp)) cps = map bcomment (map fst cps)) by (rewrite map_map; reflexivity).
  rewrite Em.
  assert (Hbs : Forall (fun b => bc_body b = true) (map fst cps)).
  { apply Forall_forall. intros b Hin. apply in_map_iff in Hin. destruct Hin as (cp & <- & Hin).
    rewrite forallb_forall in H. exact (proj1 (seg_ok_inv cp (H cp Hin))). }
  change (flat all_kept p0 cps) with (flat (keepD []) p0 cps).
  rewrite (fold_flat p0 cps H0 H (map fst cps) 0 [] Hbs). apply flat_ext. intros cp Hin.
  unfold keepD, none_kept. apply negb_false_iff. apply existsb_exists. exists (bcomment (fst cp)). split.
  - apply in_or_app. left. apply in_rev. rewrite rev_involutive. apply in_map. apply in_map. exact Hin.
  - apply ScalarProofs.str_eqb_refl.
Qed.

(* ================================================================================================ *)
(* L. line comments                                                                                 *)
(* ================================================================================================ *)

Definition lcomment (rest : str) : str := c_slash :: c_slash :: rest.
Definition nolb (s : str) : bool := forallb (fun c => negb (is_linebreak c)) s.

(* Tc is T1 with line comments inserted: a comment (two slashes, anything but a line break) stands in front of a line
   end that is LF or CR LF, or at the very end of the text; T1 has the bare LF there.  The flag says whether a comment
   may start here: the previous character is neither a slash (it would pair with the first slash of the comment) nor a
   colon (a colon directly before the slashes makes the scanner skip them: URLs). *)
Inductive lcm : bool -> str -> str -> Prop :=
  | l_nil ok : lcm ok [] []
  | l_char ok c Tc T1 : lcm (negb (c =? c_slash) && negb (c =? c_colon)) Tc T1 -> lcm ok (c :: Tc) (c :: T1)
  | l_line rest nl Tc T1 : nolb rest = true -> (nl = [c_lf] \/ nl = [c_cr; c_lf]) -> lcm true Tc T1 ->
      lcm true (lcomment rest ++ nl ++ Tc) (c_lf :: T1)
  | l_last rest : nolb rest = true -> lcm true (lcomment rest) [].

(* no line of the text has a hash as its first visible character; [vis]: the current line already has one *)
Fixpoint hash_safe (vis : bool) (s : str) : bool :=
  match s with
  | [] => true
  | c :: s' => if is_linebreak c then hash_safe false s'
               else if is_space c then hash_safe vis s'
               else if c =? c_hash then vis && hash_safe true s'
               else hash_safe true s'
  end.
Definition inc_st (vis : bool) (p : str) : Prop :=
  if vis then exists w c r, p = w ++ c :: r /\ ws_run w /\ is_space c = false /\ (c =? c_hash) = false else ws_run p.
Lemma inc_st_pre vis p : inc_st vis p -> inc_pre p.
Proof. destruct vis; intros H; [right|left]; exact H. Qed.

Definition free_end (p : str) : Prop := ends_slash p = false /\ colon_ok p false.

(* ---- one line ------------------------------------------------------------------------------------ *)
Lemma find_comment_first (rest : list N) : forall (before acc : list N) pc,
  nopair c_slash c_slash before = true -> ends_slash before = false -> colon_ok before pc ->
  find_comment pc acc (before ++ c_slash :: c_slash :: rest) = Some (rev acc ++ before, c_slash :: c_slash :: rest).
Proof.
  induction before as [|x b IH]; intros acc pc Hn He Hc.
  - unfold colon_ok in Hc. cbn [rev] in Hc. subst pc. cbn [app]. rewrite find_comment_eq.
    rewrite N.eqb_refl. cbn [andb negb]. rewrite app_nil_r. reflexivity.
  - assert (Hc' : colon_ok b (x =? c_colon)).
    { unfold colon_ok in Hc |- *. cbn [rev] in Hc. destruct (rev b) as [|c r]; cbn [app] in Hc; exact Hc. }
    assert (Hb : nopair c_slash c_slash b = true) by exact (nopair_tail _ _ _ _ Hn).
    assert (E : find_comment pc acc ((x :: b) ++ c_slash :: c_slash :: rest) =
                find_comment (x =? c_colon) (x :: acc) (b ++ c_slash :: c_slash :: rest)).
    { destruct b as [|y b'].
      - cbn [app]. rewrite find_comment_eq. unfold ends_slash in He. cbn [rev app] in He. rewrite He. reflexivity.
      - cbn [app]. rewrite find_comment_eq. cbn [nopair] in Hn. apply andb_true_iff in Hn. destruct Hn as [Hn _].
        apply negb_true_iff in Hn. rewrite Hn. reflexivity. }
    assert (He' : ends_slash b = false).
    { destruct b as [|y b']; [reflexivity|]. rewrite ends_slash_cons in He. exact He. }
    rewrite E, (IH (x :: acc) (x =? c_colon) Hb He' Hc'). cbn [rev]. rewrite <- app_assoc. reflexivity.
Qed.

Lemma replace_cmt_first (rest nl : list N) : forall before : list N,
  nopair c_slash c_slash before = true -> ends_slash before = false -> (nl = [] \/ nl = [c_lf]) ->
  replace_go (c_slash :: c_slash :: rest) [] O (before ++ c_slash :: c_slash :: rest ++ nl) = before ++ nl.
Proof.
  induction before as [|x b IH]; intros Hn He Hnl.
  - cbn [app]. rewrite replace_go_O.
    change (c_slash :: c_slash :: rest ++ nl) with ((c_slash :: c_slash :: rest) ++ nl).
    rewrite starts_with_app. cbn [length Nat.pred app].
    change (S (length rest)) with (length (c_slash :: rest)).
    change (c_slash :: rest ++ nl) with ((c_slash :: rest) ++ nl).
    rewrite replace_go_skip.
    destruct Hnl as [-> | ->]; [reflexivity|]. reflexivity.
  - assert (Hb : nopair c_slash c_slash b = true) by exact (nopair_tail _ _ _ _ Hn).
    assert (He' : ends_slash b = false).
    { destruct b as [|y b']; [reflexivity|]. rewrite ends_slash_cons in He. exact He. }
    change ((x :: b) ++ c_slash :: c_slash :: rest ++ nl) with (x :: (b ++ c_slash :: c_slash :: rest ++ nl)).
    rewrite replace_go_O.
    assert (Hs : starts_with (c_slash :: c_slash :: rest) (x :: (b ++ c_slash :: c_slash :: rest ++ nl)) = false).
    { destruct b as [|y b'].
      - unfold ends_slash in He. cbn [rev app] in He. cbn [starts_with]. rewrite N.eqb_sym, He. reflexivity.
      - cbn [nopair] in Hn. apply andb_true_iff in Hn. destruct Hn as [Hn _]. apply negb_true_iff in Hn.
        cbn [app starts_with]. rewrite (N.eqb_sym c_slash x), (N.eqb_sym c_slash y).
        destruct (x =? c_slash); [|reflexivity]. cbn [andb] in Hn |- *. rewrite Hn. reflexivity. }
    rewrite Hs. cbn [app]. f_equal. exact (IH Hb He' Hnl).
Qed.

Lemma has_lf_nolb (s : list N) : nolb s = true -> has_char c_lf s = false.
Proof. intros H. apply (forallb_no _ _ _ H). reflexivity. Qed.

(* cr is empty or the carriage return of a CR LF line end: it is swallowed with the comment *)
Lemma line_with_comment (before rest cr nl : list N) count :
  nopair c_slash c_slash before = true -> free_end before -> has_char c_lf before = false -> nolb rest = true ->
  (cr = [] \/ cr = [c_cr]) -> (nl = [] \/ nl = [c_lf]) ->
  extract_line_comment false count (before ++ (lcomment rest ++ cr) ++ nl) =
    (before ++ nl, counter_next count, Some (Z.to_N (counter_next count), lcomment rest ++ cr)).
Proof.
  intros Hn [He Hc] Hlf Hr Hcr Hnl. unfold extract_line_comment.
  assert (Hbody : has_char c_lf (before ++ lcomment rest ++ cr) = false).
  { rewrite !has_char_app', Hlf. unfold lcomment. rewrite !has_char_cons, (has_lf_nolb rest Hr).
    destruct Hcr as [-> | ->]; reflexivity. }
  rewrite app_assoc, (chomp_lf_spec _ nl Hbody Hnl).
  unfold lcomment. cbn [app]. rewrite (find_comment_first (rest ++ cr) before [] false Hn He Hc). cbn [rev app].
  cbv zeta. reflexivity.
Qed.

(* ---- the stage ----------------------------------------------------------------------------------- *)
Definition lstage (count : Z) (lines : list str) (T : str) : Prop :=
  exists L1 c1 lc, extract_line_comments false count lines = (L1, c1, lc) /\ concat L1 = T /\
                   Forall (fun l => include_line_rest l = None) L1 /\ (-1 <= c1)%Z.

Lemma lstage_nil count : (-1 <= count)%Z -> lstage count [] [].
Proof. intros H. exists [], count, []. repeat split; [constructor|exact H]. Qed.

Lemma lstage_plain count l ls T : nopair c_slash c_slash l = true -> include_line_rest l = None ->
  lstage count ls T -> lstage count (l :: ls) (l ++ T).
Proof.
  intros Hn Hi (L1 & c1 & lc & E & Ec & Hf & Hc). exists (l :: L1), c1, lc. cbn [extract_line_comments].
  rewrite (extract_line_comment_nopair false count l Hn), E. repeat split; [cbn [concat]; rewrite Ec; reflexivity| |exact Hc].
  constructor; assumption.
Qed.

Lemma lstage_cmt count l l' e ls T : extract_line_comment false count l = (l', counter_next count, Some e) ->
  include_line_rest l' = None -> (-1 <= count)%Z ->
  lstage (counter_next count) ls T -> lstage count (l :: ls) (l' ++ T).
Proof.
  intros El Hi Hcount (L1 & c1 & lc & E & Ec & Hf & Hc). exists (l' :: L1), c1, (tupdate [e] lc).
  cbn [extract_line_comments]. rewrite El, E. repeat split; [cbn [concat]; rewrite Ec; reflexivity| |exact Hc].
  constructor; assumption.
Qed.

(* the lines behind a line feed *)
Lemma lstage_lf_inv count X T : lstage count ([c_lf] :: X) T -> exists T', T = c_lf :: T' /\ lstage count X T'.
Proof.
  intros (L1 & c1 & lc & E & Ec & Hf & Hc). cbn [extract_line_comments] in E.
  change (extract_line_comment false count [c_lf]) with ([c_lf], count, @None (N * str)) in E.
  cbv beta iota zeta in E.
  destruct (extract_line_comments false count X) as [[rest c2] tab] eqn:EX. cbv beta iota zeta in E. injection E as <- <- <-.
  exists (concat rest). split; [rewrite <- Ec; reflexivity|]. exists rest, c2, tab.
  repeat split; [exact EX|exact (Forall_tail _ _ _ Hf)|exact Hc].
Qed.

Lemma free_end_snoc (p : list N) c : (negb (c =? c_slash) && negb (c =? c_colon)) = true -> free_end (p ++ [c]).
Proof.
  intros H. apply andb_true_iff in H. destruct H as [H1 H2]. apply negb_true_iff in H1. apply negb_true_iff in H2.
  unfold free_end, ends_slash, colon_ok. rewrite rev_app_distr. cbn [rev app]. split; assumption.
Qed.

Lemma free_end_nil : free_end [].
Proof. split; reflexivity. Qed.

Lemma inc_st_snoc vis (p : list N) c : is_linebreak c = false -> inc_st vis p ->
  hash_safe vis (c :: []) = true ->
  inc_st (if is_space c then vis else true) (p ++ [c]).
Proof.
  intros Hlb Hp Hh. cbn [hash_safe] in Hh. rewrite Hlb in Hh. destruct (is_space c) eqn:Es.
  - destruct vis; cbn [inc_st] in *.
    + destruct Hp as (w & c0 & r0 & -> & Hw & Hc0 & Hh0). exists w, c0, (r0 ++ [c]). rewrite <- app_assoc. repeat split; assumption.
    + apply Forall_app. split; [exact Hp|]. constructor; [exact Es|constructor].
  - cbn [inc_st]. destruct (c =? c_hash) eqn:Eh.
    + rewrite andb_true_r in Hh. subst vis. cbn [inc_st] in Hp. destruct Hp as (w & c0 & r0 & -> & Hw & Hc0 & Hh0).
      exists w, c0, (r0 ++ [c]). rewrite <- app_assoc. repeat split; assumption.
    + destruct vis; cbn [inc_st] in Hp.
      * destruct Hp as (w & c0 & r0 & -> & Hw & Hc0 & Hh0). exists w, c0, (r0 ++ [c]). rewrite <- app_assoc. repeat split; assumption.
      * exists p, c, []. repeat split; assumption.
Qed.

Lemma hash_safe_step vis c (s : list N) : hash_safe vis (c :: s) = true ->
  hash_safe vis [c] = true /\
  hash_safe (if is_linebreak c then false else if is_space c then vis else true) s = true.
Proof.
  cbn [hash_safe]. destruct (is_linebreak c); [intros H; split; [reflexivity|exact H]|].
  destruct (is_space c); [intros H; split; [reflexivity|exact H]|].
  destruct (c =? c_hash); [|intros H; split; [reflexivity|exact H]].
  intros H. apply andb_true_iff in H. destruct H as [H1 H2]. rewrite H1. split; [reflexivity|exact H2].
Qed.

Lemma nopair_snoc_inv a b (p : list N) c (T : list N) : nopair a b ((p ++ [c]) ++ T) = nopair a b (p ++ c :: T).
Proof. rewrite <- app_assoc. reflexivity. Qed.

Theorem line_stage : forall ok Tc T1, lcm ok Tc T1 -> forall cur count vis,
  nopair c_slash c_slash (rev cur ++ T1) = true -> (ok = true -> free_end (rev cur)) ->
  has_char c_lf (rev cur) = false -> hash_safe vis T1 = true -> inc_st vis (rev cur) -> (-1 <= count)%Z ->
  lstage count (splitlines_go cur Tc) (rev cur ++ T1).
Proof.
  intros ok Tc T1 D. induction D as [ok|ok c Tc T1 D IH|rest nl Tc T1 Hr Hnl D IH|rest Hr];
    intros cur count vis Hn Hok Hlf Hh Hst Hcount.
  - (* end of text *)
    cbn [splitlines_go]. rewrite app_nil_r in *. destruct cur as [|x cur'].
    + apply lstage_nil. exact Hcount.
    + rewrite <- (app_nil_r (rev (x :: cur'))) at 2. apply lstage_plain; [exact Hn| |apply lstage_nil; exact Hcount].
      rewrite <- (app_nil_r (rev (x :: cur'))). apply inc_pre_none; [exact (inc_st_pre _ _ Hst)|left; reflexivity].
  - (* an ordinary character *)
    destruct (hash_safe_step vis c T1 Hh) as [Hh1 Hh2].
    assert (Hn' : nopair c_slash c_slash (rev (c :: cur) ++ T1) = true) by (cbn [rev]; rewrite nopair_snoc_inv; exact Hn).
    assert (HnT : nopair c_slash c_slash T1 = true).
    { apply nopair_app_inv in Hn. destruct Hn as [_ Hn]. exact (nopair_tail _ _ _ _ Hn). }
    assert (Hline : nopair c_slash c_slash (rev (c :: cur)) = true) by (apply nopair_app_inv in Hn'; exact (proj1 Hn')).
    (* the line ends here *)
    assert (Hend : forall X T', lstage count X T' -> is_linebreak c = true ->
              lstage count (rev (c :: cur) :: X) (rev cur ++ c :: T')).
    { intros X T' HX Hlb. replace (rev cur ++ c :: T') with (rev (c :: cur) ++ T') by (cbn [rev]; rewrite <- app_assoc; reflexivity).
      apply lstage_plain; [exact Hline| |exact HX].
      destruct (c =? c_lf) eqn:Elf.
      - apply N.eqb_eq in Elf. subst c. cbn [rev]. apply inc_pre_none; [exact (inc_st_pre _ _ Hst)|right; reflexivity].
      - rewrite <- (app_nil_r (rev (c :: cur))). apply inc_pre_none; [|left; reflexivity]. cbn [rev].
        apply inc_pre_snoc; [exact (inc_st_pre _ _ Hst)|].
        pose proof (linebreak_space c Hlb) as Hs. destruct (c =? c_hash) eqn:Eh; [|reflexivity].
        apply N.eqb_eq in Eh. subst c. discriminate Hs. }
    assert (Hnext : is_linebreak c = true -> lstage count (splitlines_go [] Tc) T1).
    { intros Hlb. rewrite Hlb in Hh2. apply (IH [] count false); try assumption; try reflexivity.
      - intros _. exact free_end_nil.
      - constructor. }
    cbn [splitlines_go]. destruct (c =? c_cr) eqn:Ecr.
    + assert (Hlb : is_linebreak c = true) by (apply N.eqb_eq in Ecr; subst c; reflexivity).
      specialize (Hnext Hlb).
      destruct Tc as [|d Tc'].
      * (* the text ends with the carriage return *)
        inversion D; subst. apply (Hend [] [] (lstage_nil count Hcount) Hlb).
      * destruct (d =? c_lf) eqn:Ed.
        -- apply N.eqb_eq in Ed. subst d. rewrite splitlines_go_lf in Hnext.
           destruct (lstage_lf_inv count _ _ Hnext) as (T' & -> & HX).
           replace (rev cur ++ c :: c_lf :: T') with (rev (c_lf :: c :: cur) ++ T')
             by (cbn [rev]; rewrite <- !app_assoc; reflexivity).
           apply lstage_plain; [| |exact HX].
           ++ cbn [rev].
              replace (rev cur ++ c :: c_lf :: T') with (((rev cur ++ [c]) ++ [c_lf]) ++ T') in Hn
                by (rewrite <- !app_assoc; reflexivity).
              exact (proj1 (nopair_app_inv _ _ _ _ Hn)).
           ++ change (rev (c_lf :: c :: cur)) with (rev (c :: cur) ++ [c_lf]). apply inc_pre_none; [|right; reflexivity].
              cbn [rev]. apply inc_pre_snoc; [exact (inc_st_pre _ _ Hst)|]. apply N.eqb_eq in Ecr. subst c. reflexivity.
        -- exact (Hend _ _ Hnext Hlb).
    + destruct (is_linebreak c) eqn:Elb.
      * exact (Hend _ _ (Hnext eq_refl) eq_refl).
      * replace (rev cur ++ c :: T1) with (rev (c :: cur) ++ T1) by (cbn [rev]; rewrite <- app_assoc; reflexivity).
        apply (IH (c :: cur) count (if is_space c then vis else true)); try assumption.
        -- intros Hk. cbn [rev]. apply free_end_snoc. exact Hk.
        -- cbn [rev]. rewrite has_char_app', Hlf. rewrite has_char_cons. cbn [has_char existsb]. rewrite orb_false_r.
           destruct (c_lf =? c) eqn:E; [|reflexivity]. apply N.eqb_eq in E. subst c. discriminate Elb.
        -- cbn [rev]. apply inc_st_snoc; assumption.
  - (* a line comment and its line end *)
    assert (HnC : nopair c_slash c_slash (rev cur) = true) by (apply nopair_app_inv in Hn; exact (proj1 Hn)).
    assert (HnT : nopair c_slash c_slash T1 = true).
    { apply nopair_app_inv in Hn. destruct Hn as [_ Hn]. exact (nopair_tail _ _ _ _ Hn). }
    cbn [hash_safe] in Hh. change (is_linebreak c_lf) with true in Hh. cbv iota in Hh.
    assert (Hnext : lstage (counter_next count) (splitlines_go [] Tc) T1).
    { apply (IH [] (counter_next count) false); try assumption; try reflexivity.
      - intros _. exact free_end_nil.
      - constructor.
      - pose proof (counter_next_nonneg count Hcount). lia. }
    assert (Hlb : forallb (fun c => negb (is_linebreak c)) (lcomment rest) = true) by (unfold lcomment; cbn [forallb]; exact Hr).
    rewrite (splitlines_go_nolb (lcomment rest) Hlb).
    assert (Hinc : include_line_rest (rev cur ++ [c_lf]) = None)
      by (apply inc_pre_none; [exact (inc_st_pre _ _ Hst)|right; reflexivity]).
    replace (rev cur ++ c_lf :: T1) with ((rev cur ++ [c_lf]) ++ T1) by (rewrite <- app_assoc; reflexivity).
    destruct Hnl as [-> | ->].
    + change ([c_lf] ++ Tc) with (c_lf :: Tc). cbn [splitlines_go]. change (c_lf =? c_cr) with false. change (is_linebreak c_lf) with true. cbv iota.
      apply (lstage_cmt count _ _ (Z.to_N (counter_next count), lcomment rest ++ [])); [|exact Hinc|exact Hcount|exact Hnext].
      cbn [rev]. rewrite rev_app_distr, rev_involutive.
      pose proof (line_with_comment (rev cur) rest [] [c_lf] count HnC (Hok eq_refl) Hlf Hr (or_introl eq_refl) (or_intror eq_refl)) as E.
      rewrite <- app_assoc. rewrite <- app_assoc in E. exact E.
    + change ([c_cr; c_lf] ++ Tc) with (c_cr :: c_lf :: Tc). cbn [splitlines_go]. rewrite !N.eqb_refl.
      apply (lstage_cmt count _ _ (Z.to_N (counter_next count), lcomment rest ++ [c_cr])); [|exact Hinc|exact Hcount|exact Hnext].
      cbn [rev]. rewrite rev_app_distr, rev_involutive.
      pose proof (line_with_comment (rev cur) rest [c_cr] [c_lf] count HnC (Hok eq_refl) Hlf Hr (or_intror eq_refl) (or_intror eq_refl)) as E.
      rewrite <- !app_assoc. rewrite <- !app_assoc in E. exact E.
  - (* a line comment at the end of the text *)
    assert (HnC : nopair c_slash c_slash (rev cur) = true) by (apply nopair_app_inv in Hn; exact (proj1 Hn)).
    assert (Hlb : forallb (fun c => negb (is_linebreak c)) (lcomment rest) = true) by (unfold lcomment; cbn [forallb]; exact Hr).
    rewrite <- (app_nil_r (lcomment rest)). rewrite (splitlines_go_nolb (lcomment rest) Hlb). cbn [splitlines_go].
    destruct (rev (lcomment rest) ++ cur) as [|x l] eqn:El.
    { exfalso. apply app_eq_nil in El. destruct El as [El _]. unfold lcomment in El. cbn [rev] in El.
      apply app_eq_nil in El. destruct El as [_ El]. discriminate El. }
    rewrite <- El.
    rewrite <- (app_nil_r (rev cur ++ [])).
    apply (lstage_cmt count _ _ (Z.to_N (counter_next count), lcomment rest ++ [])); [| |exact Hcount|].
    + rewrite rev_app_distr, rev_involutive.
      pose proof (line_with_comment (rev cur) rest [] [] count HnC (Hok eq_refl) Hlf Hr (or_introl eq_refl) (or_introl eq_refl)) as E.
      rewrite !app_nil_r in E. rewrite !app_nil_r. exact E.
    + apply inc_pre_none; [exact (inc_st_pre _ _ Hst)|left; reflexivity].
    + apply lstage_nil. pose proof (counter_next_nonneg count Hcount). lia.
Qed.

(* ================================================================================================ *)
(* T. the rest of the lexer, as a function of the text behind the comment stages                    *)
(* ================================================================================================ *)

Definition lex_tail (c2 : Z) (lc bc : list (N * str)) (inc : list (N * include_entry)) (b1 : str) : lexed :=
  let b2 := remove_line_endings b1 in
  let '(b3, c3, lit) := extract_string_literals c2 b2 in
  let '(b4, c4, ex) := extract_expressions c3 b3 in
  mkLexed (tokenize (separate_delimiters b4)) c4 lc bc inc ex lit.

Lemma lex_early cm dir count (text : list N) l1 c1 lc b1 bc :
  extract_line_comments cm count (splitlines text) = (l1, c1, lc) ->
  Forall (fun l => include_line_rest l = None) l1 ->
  extract_block_comments cm (concat l1) = (b1, bc) ->
  lex cm dir count text = lex_tail c1 lc bc [] b1.
Proof.
  intros E1 E2 E3. unfold lex, lex_tail. cbv zeta. rewrite E1, (extract_includes_none' dir _ E2 c1), E3. reflexivity.
Qed.

Lemma lex_tail_filled c2 lc bc inc (A : list N) fs ls :
  forallb gachar A = true -> Forall2 qflav fs ls -> nh A = length ls ->
  lex_tail c2 lc bc inc (expandL fs A) =
  mkLexed (tokenize (separate_delimiters (expandL (map PH (ids c2 (length ls))) (remove_line_endings A))))
          (cafter c2 (length ls)) lc bc inc [] (tupdate [] (combine (ids c2 (length ls)) ls)).
Proof.
  intros HA Hls Hn.
  assert (Hlf : Forall litform fs) by (exact (Forall2_Forall_l _ _ _ _ qflav_litform Hls)).
  assert (Hsol : Forall solid fs) by (revert Hlf; apply Forall_impl; exact litform_solid).
  pose proof (gachar_rle A HA) as HA2.
  assert (Hn2 : nh (remove_line_endings A) = length ls) by (rewrite nh_rle; exact Hn).
  assert (Hw : Forall2 flav fs ls).
  { clear -Hls. induction Hls; constructor; [apply qflav_flav; assumption|assumption]. }
  assert (Ht4 : forallb gchar (expandL (map PH (ids c2 (length ls))) (remove_line_endings A)) = true).
  { apply (expandL_fill gchar gachar gachar_inv); [exact HA2| |rewrite map_length, ids_length, Hn2; lia].
    apply Forall_map_iff. apply Forall_forall. intros k _. apply PH_gchars. }
  unfold lex_tail. cbv zeta. rewrite (rle_expand A fs Hsol).
  unfold extract_string_literals.
  rewrite (scan_expand_gen (remove_line_endings A) fs ls _ c2 [] [] Hw HA2 Hn2 (Nat.le_succ_diag_r _)).
  cbn [rev app].
  rewrite (extract_expressions_none _ _ (forallb_no _ c_dq _ Ht4 eq_refl) (forallb_no _ c_dollar _ Ht4 eq_refl)).
  reflexivity.
Qed.

(* a layout of a document, seen as a filled abstract text, with its token list for every admissible numbering *)
Lemma layout_abstract kvs fs (txt w1 w2 : list N) :
  ktree writable_leaf (Dict kvs) = true -> Forall2 qflav fs (qstrs (Dict kvs)) ->
  rendering (fillT fs (toks_tree lfa FK false (Dict kvs))) txt -> ws_run w1 -> ws_run w2 ->
  exists A, w1 ++ txt ++ w2 = expandL fs A /\ forallb gachar A = true /\ nh A = length (qstrs (Dict kvs)) /\
            forall ks, (nq (Dict kvs) <= length ks)%nat -> small ks ->
              tokenize (separate_delimiters (expandL (map PH ks) (remove_line_endings A))) = toks_doc ltL ktS (labelD ks kvs).
Proof.
  intros Hs Hfl R H1 H2.
  set (hl := toks_tree lfa FK false (Dict kvs)) in *. set (ls := qstrs (Dict kvs)) in *.
  pose proof (hole_toks_htok (Dict kvs) false Hs) as Hh. fold hl in Hh.
  destruct (render_fill_bwd hl fs txt Hh (Forall2_Forall_l _ _ _ _ qflav_not_delim Hfl) R) as (A0 & RA & ->).
  exists (w1 ++ A0 ++ w2). split; [symmetry; apply expand_around; assumption|].
  set (A := w1 ++ A0 ++ w2).
  assert (HA : forallb gachar A = true).
  { unfold A. rewrite !forallb_app, (gchars_gachars _ (ws_gchars w1 H1)), (gchars_gachars _ (ws_gchars w2 H2)), andb_true_r.
    cbn [andb]. apply (rendering_chars gachar hl A0 RA (hole_toks_gachars _ false Hs)).
    intros c Hc. unfold gachar. rewrite (space_gchar c Hc). reflexivity. }
  assert (HnA : nh A = length ls).
  { rewrite <- nh_filter. unfold A. rewrite !filter_app, (fl_ws w1 H1), (fl_ws w2 H2), app_nil_r. cbn [app].
    rewrite (rendering_filter hl A0 RA).
    - unfold hl. rewrite (hole_toks_count _ false Hs). reflexivity.
    - pose proof (hole_toks_lexeme (Dict kvs) false Hs) as HL. revert HL. apply Forall_impl. exact lexeme_nospace. }
  split; [exact HA|]. split; [exact HnA|]. intros ks Hlen Hsm.
  rewrite <- (rle_expand A (map PH ks) (PHs_solid ks)). unfold A. rewrite (expand_around _ w1 A0 w2 H1 H2).
  pose proof (render_fill_fwd hl A0 RA (map PH ks) Hh) as RP.
  unfold hl in RP. rewrite (fill_label kvs ks Hs Hlen Hsm) in RP.
  assert (HLp : Forall lexeme (TokProofs.entries ltL ktS (labelD ks kvs))).
  { rewrite <- (fill_label kvs ks Hs Hlen Hsm). apply fillT_Forall.
    + exact (hole_toks_lexeme (Dict kvs) false Hs).
    + apply Forall_map_iff. apply Forall_forall. intros k _. right. apply PH_word. }
  rewrite (tokens_layout _ _ w1 w2 HLp RP H1 H2).
  - rewrite toks_doc_entries'. reflexivity.
  - assert (Hkeys : forall kc, In kc (labelD ks kvs) -> simple_key (fst kc) = true).
    { intros kc Hin. assert (Hf : In (fst kc) (map fst kvs)).
      { rewrite <- (labelD_keys kvs ks). apply in_map. exact Hin. }
      apply in_map_iff in Hf. destruct Hf as (kc0 & E0 & Hin0). rewrite <- E0.
      exact (ktree_dict_keys _ kvs Hs kc0 Hin0). }
    apply doc_shape; [exact ktS_simple|exact Hkeys].
Qed.

(* ================================================================================================ *)
(* C. cleaning with comment tables: nothing to clean when no key is a placeholder                   *)
(* ================================================================================================ *)

Lemma line_contains_comment (s : list N) : contains w_LINECOMMENT s = true -> contains w_COMMENT s = true.
Proof.
  induction s as [|x s IH]; intros H; [discriminate H|].
  cbn [contains] in H. apply orb_true_iff in H. destruct H as [H|H].
  - destruct (starts_with_split _ _ H) as [t E]. rewrite E. reflexivity.
  - cbn [contains]. rewrite (IH H). apply orb_true_r.
Qed.

Lemma simple_key_nokind k : simple_key k = true -> ph_kind_of k = None.
Proof.
  intros Hk. destruct (simple_key_inv k Hk) as (Hkt & Hkx & _).
  destruct (simple_tok_inv _ Hkt) as (_ & _ & Hr).
  destruct k as [z|s]; [reflexivity|].
  cbn [key_text] in Hkx. rewrite <- Hkx in Hr. unfold no_reserved_word in Hr.
  apply andb_true_iff in Hr. destruct Hr as [Hr _]. apply andb_true_iff in Hr. destruct Hr as [Hr _].
  apply andb_true_iff in Hr. destruct Hr as [H1 H2].
  apply negb_true_iff in H1. apply negb_true_iff in H2.
  cbn [ph_kind_of].
  destruct (has_placeholder w_BLOCKCOMMENT s) eqn:E1.
  { apply has_placeholder_contains, block_contains_comment in E1. congruence. }
  destruct (has_placeholder w_INCLUDE s) eqn:E2.
  { apply has_placeholder_contains in E2. congruence. }
  destruct (has_placeholder w_LINECOMMENT s) eqn:E3.
  { apply has_placeholder_contains, line_contains_comment in E3. congruence. }
  reflexivity.
Qed.

Lemma clean_kind_nokeys {V} (veqb : V -> V -> bool) data tab seen : clean_kind veqb [] data tab seen = (data, tab).
Proof. reflexivity. Qed.

Lemma keys_of_kind_simple kd data : (forall kc, In kc data -> simple_key (fst kc) = true) -> keys_of_kind kd data = [].
Proof.
  intros H. unfold keys_of_kind. apply filter_none. intros k Hin. apply in_map_iff in Hin.
  destruct Hin as (kc & <- & Hin). rewrite (simple_key_nokind _ (H kc Hin)). reflexivity.
Qed.

Lemma clean_level_keys data s : (forall kc, In kc data -> simple_key (fst kc) = true) -> clean_level data s = (data, s).
Proof.
  intros H. unfold clean_level. rewrite !(keys_of_kind_simple _ data H). cbn [clean_kind].
  destruct s as [d lc bc inc ex]. reflexivity.
Qed.

Lemma skeys_In k v data : skeys (Dict data) = true -> In (k, v) data -> simple_key k = true /\ skeys v = true.
Proof.
  induction data as [|[k0 c0] data IH]; intros Hs Hin; [destruct Hin|].
  rewrite skeys_dict_cons in Hs. apply andb_true_iff in Hs. destruct Hs as [Hs Hs3].
  apply andb_true_iff in Hs. destruct Hs as [Hs1 Hs2].
  destruct Hin as [E|Hin]; [inversion E; subst; split; assumption|exact (IH Hs3 Hin)].
Qed.

Lemma clean_tree_keys : forall fuel data s, skeys (Dict data) = true -> wf (Dict data) = true ->
  clean_tree fuel data s = (data, s).
Proof.
  induction fuel as [|f IH]; intros data s Hk Hw; [reflexivity|].
  rewrite SDictProofs.clean_tree_S. apply SDictProofs.wf_Dict_iff in Hw. destruct Hw as [Hnd Hw].
  rewrite (clean_level_keys data s).
  2:{ intros [k v] Hin. exact (proj1 (skeys_In k v data Hk Hin)). }
  cbn [fst].
  assert (Hgen : forall l, (forall kv, In kv l -> In kv data) ->
                           fold_left (SDictProofs.cstep f) l (data, s) = (data, s)).
  { induction l as [|[k v] l IHl]; intros Hsub; [reflexivity|]. cbn [fold_left].
    assert (Hin : In (k, v) data) by (apply Hsub; left; reflexivity).
    assert (Hc : SDictProofs.cstep f (data, s) (k, v) = (data, s)).
    { unfold SDictProofs.cstep. cbn [fst snd]. destruct v as [x|sub|ts]; try reflexivity.
      rewrite Forall_forall in Hw. pose proof (Hw _ Hin) as Hws. unfold SDictProofs.wfkv in Hws. cbn [snd] in Hws.
      rewrite (IH sub s (proj2 (skeys_In k _ data Hk Hin)) Hws).
      rewrite SDictProofs.aset_same; [reflexivity|]. apply SDictProofs.alookup_In_nodup; assumption. }
    rewrite Hc. apply IHl. intros kv H'. apply Hsub. right. exact H'. }
  apply Hgen. auto.
Qed.

Lemma sd_clean_keys d lc bc inc ex : skeys (Dict d) = true -> wf (Dict d) = true ->
  sd_clean (mkSD d lc bc inc ex) = mkSD d lc bc inc ex.
Proof.
  intros Hk Hw. unfold sd_clean. cbn [sd_data]. rewrite (clean_tree_keys _ d _ Hk Hw). reflexivity.
Qed.

Lemma skeys_map_leaves f : forall t, skeys (map_leaves f t) = skeys t.
Proof.
  induction t as [v|kvs IH|ts IH] using tree_ind'.
  - reflexivity.
  - rewrite TokProofs.map_leaves_dict. induction IH as [|[k c] kvs Hc _ IHk]; [reflexivity|].
    cbn [map]. unfold TokProofs.mkv at 1. cbn [fst snd]. rewrite !skeys_dict_cons. cbn [snd] in Hc. rewrite Hc, IHk. reflexivity.
  - rewrite TokProofs.map_leaves_lst. induction IH as [|c l Hc _ IHl]; [reflexivity|].
    cbn [map]. rewrite !skeys_lst_cons, Hc, IHl. reflexivity.
Qed.

(* everything behind the lexer, with comment tables and either value of the comments flag *)
Lemma parse_of_lexed_tables : forall kvs ks cm dirc count c' lc bc (txt : list N),
  wf (Dict kvs) = true -> ktree writable_leaf (Dict kvs) = true ->
  NoDup ks -> small ks -> length ks = nq (Dict kvs) -> quoted_within 11 (Dict kvs) = true ->
  lex cm dirc count txt = mkLexed (toks_doc ltL ktS (labelD ks kvs)) c' lc bc [] []
                                  (tupdate [] (combine ks (qstrs (Dict kvs)))) ->
  parse_string cm dirc count txt =
    Ok (mkParsed (mkSD (kvs_of (map_leaves written_value (Dict kvs))) lc bc [] []) c').
Proof.
  intros kvs ks cm dirc count c' lc bc txt Hw Hwr Hnd Hsm Hlen0 Hdeep Hlex.
  set (ls := qstrs (Dict kvs)) in *.
  assert (Hlen : length ks = length ls) by exact Hlen0.
  destruct (label_facts (Dict kvs) ks) as (L1 & L2 & L3). rewrite label_dict in L1, L2, L3.
  assert (HwL : wf (Dict (labelD ks kvs)) = true) by (rewrite L1; exact Hw).
  assert (HkL : skeys (Dict (labelD ks kvs)) = true) by (rewrite L2; exact (ktree_skeys _ _ Hwr)).
  set (d0 := map (TokProofs.mkv nvL) (labelD ks kvs)).
  assert (Hd0 : Dict d0 = map_leaves nvL (Dict (labelD ks kvs))) by (rewrite TokProofs.map_leaves_dict; reflexivity).
  assert (Hw0 : wf (Dict d0) = true) by (rewrite Hd0, wf_map_leaves; exact HwL).
  assert (Hk0 : skeys (Dict d0) = true) by (rewrite Hd0, skeys_map_leaves; exact HkL).
  assert (Hlits : Forall qlit ls) by (apply qstrs_qlit; exact Hwr).
  assert (Hok : Forall (fun s => PWs (pv s) = false) ls).
  { revert Hlits. apply Forall_impl. intros s Hs. destruct (qlit_content s Hs) as [A B]. apply PWs_pv; assumption. }
  assert (Htab : tupdate [] (combine ks ls) = combine ks ls).
  { apply (tupdate_fresh (combine ks ls) []). cbn [app]. rewrite (combine_fst ks ls Hlen). exact Hnd. }
  assert (Hfin : map_leaves (Gfun (combine ks ls)) (Dict d0) = map_leaves written_value (Dict kvs)).
  { rewrite Hd0, map_leaves_compose, <- label_dict.
    apply (Vt_all (combine ks ls) (Dict kvs) ks []); [|exact Hwr].
    rewrite app_nil_r. apply rel_top; assumption. }
  assert (Hw' : wf (Dict (map (TokProofs.mkv written_value) kvs)) = true).
  { rewrite <- TokProofs.map_leaves_dict, wf_map_leaves. exact Hw. }
  assert (Hk' : skeys (Dict (map (TokProofs.mkv written_value) kvs)) = true).
  { rewrite <- TokProofs.map_leaves_dict, skeys_map_leaves. exact (ktree_skeys _ _ Hwr). }
  unfold parse_string. cbv zeta. rewrite Hlex.
  cbn [lxd_tokens lxd_count lxd_lc lxd_bc lxd_inc lxd_expr lxd_lit].
  rewrite (TRK.tok_roundtrip_main ltL ktS nvL HltL HktpS HkpkS (labelD ks kvs) HwL HkL).
  rewrite TokProofs.map_leaves_dict. cbn [kvs_of bind]. fold d0.
  rewrite (sd_clean_keys _ lc bc [] [] Hk0 Hw0). cbn [sd_data sd_lc sd_bc sd_inc sd_expr].
  rewrite Htab, (insert_all (combine ks ls) d0 Hw0).
  - rewrite Hfin, TokProofs.map_leaves_dict. cbn [kvs_of bind].
    rewrite (parser_clean_keys written_value kvs (ktree_dict_keys _ kvs Hwr)), (sd_clean_keys _ lc bc [] [] Hk' Hw'). reflexivity.
  - rewrite Hd0. apply L3; assumption.
  - apply Forall_forall. intros [k s] Hin. cbn [snd]. rewrite Forall_forall in Hok. apply Hok.
    exact (in_combine_r _ _ _ _ Hin).
Qed.

(* ================================================================================================ *)
(* F. documents with comments, read with comments = false                                           *)
(* ================================================================================================ *)

(* Tc: the text as written; T1: the same without the line comments; p0, cps: T1 cut into plain stretches and block
   comments; the plain stretches together are a layout of the document *)
Theorem parse_commented : forall kvs fs (txt w1 w2 Tc : list N) p0 cps dirc count,
  wf (Dict kvs) = true -> writable_tree (Dict kvs) = true ->
  Forall2 spelling fs (qstrs (Dict kvs)) -> rendering (doc_toks fs kvs) txt -> ws_run w1 -> ws_run w2 ->
  (-1 <= count)%Z -> (Z.of_nat (nq (Dict kvs)) <= 1000000)%Z -> quoted_within 11 (Dict kvs) = true ->
  lcm true Tc (flat all_kept p0 cps) ->
  nopair c_slash c_slash (flat all_kept p0 cps) = true -> hash_safe false (flat all_kept p0 cps) = true ->
  plain_in p0 = true -> forallb seg_ok cps = true ->
  flat none_kept p0 cps = w1 ++ txt ++ w2 ->
  exists lc bc count',
    parse_string false dirc count Tc =
      Ok (mkParsed (mkSD (kvs_of (map_leaves written_value (Dict kvs))) lc bc [] []) count').
Proof.
  intros kvs fs txt w1 w2 Tc p0 cps dirc count Hw Hwr Hsp R H1 H2 Hc Hn Hdeep HL Hnp Hhs Hp0 Hcps HT0.
  rewrite writable_ktree in Hwr.
  pose proof (spellings_qflav (Dict kvs) fs Hwr Hsp) as Hfl.
  destruct (line_stage true Tc _ HL [] count false Hnp (fun _ => free_end_nil) eq_refl Hhs (Forall_nil _) Hc)
    as (L1 & c1 & lc & E1 & Ecat & Hinc & Hc1).
  cbn [rev app] in Ecat.
  pose proof (block_stage p0 cps Hp0 Hcps) as E3. rewrite <- Ecat in E3.
  destruct (layout_abstract kvs fs txt w1 w2 Hwr Hfl R H1 H2) as (A & EA & HA & HnA & Htok).
  exists lc, (number_from 0 (map (fun cp => bcomment (fst cp)) cps)), (cafter c1 (nq (Dict kvs))).
  apply (parse_of_lexed_tables kvs (ids c1 (nq (Dict kvs)))); try assumption.
  - apply ids_nodup; assumption.
  - apply ids_small.
  - apply ids_length.
  - rewrite (lex_early false dirc count Tc L1 c1 lc _ _ E1 Hinc E3), HT0, EA.
    rewrite (lex_tail_filled c1 lc _ [] A fs _ HA Hfl HnA). change (length (qstrs (Dict kvs))) with (nq (Dict kvs)).
    rewrite (Htok (ids c1 (nq (Dict kvs)))); [reflexivity|rewrite ids_length; apply Nat.le_refl|apply ids_small].
Qed.
Print Assumptions parse_commented.

(* ================================================================================================ *)
(* X. what had to be excluded, machine checked: layouts of comments that change the tree read       *)
(*    (comments = false; each line: the text, the tree it should denote, the tree the model reads)  *)
(* ================================================================================================ *)
Definition tree_read (text : str) : option (list (key * tree)) :=
  match parse_string false [] 0%Z text with Ok p => Some (sd_data (pr_sd p)) | Raise _ => None end.
Definition kv_a1 : key * tree := (KS (of_string "a"), Leaf (SInt 1)).
Definition kv_b2 : key * tree := (KS (of_string "b"), Leaf (SInt 2)).

(* reference: comments surrounded by white space are harmless *)
Lemma ce_reference : tree_read (of_string "a /* c */ 1; // d
b 2;") = Some [kv_a1; kv_b2].
Proof. vm_compute. reflexivity. Qed.

(* 1. a block comment glued between two words: deleting it glues the words (Lexer.extract_block_comments replaces the
      comment by the empty string when comments = false) *)
Lemma ce_block_glues : tree_read (of_string "a/* c */1; b 2;") = Some [kv_b2].
Proof. vm_compute. reflexivity. Qed.

(* 2. a line comment on a line that ends with a lone CR (or VT, FF, ...): the pattern runs to the next LF or to the end
      of the line, the terminator is swallowed with the comment and the next line is glued on *)
Lemma ce_cr_line_end : tree_read (of_string "a// c" ++ [c_cr] ++ of_string "1; b 2;") = Some [kv_b2].
Proof. vm_compute. reflexivity. Qed.

(* 3. a block comment directly followed by a line comment: the closing slash pairs with the next slash *)
Lemma ce_block_then_line : tree_read (of_string "a /* c *///d
1; b 2;") = Some [kv_b2].
Proof. vm_compute. reflexivity. Qed.

(* 4. two slashes inside a block comment: the line comment stage runs first and cuts the comment open *)
Lemma ce_slashes_in_block : tree_read (of_string "a /* c // d */ 1; b 2;") = Some [].
Proof. vm_compute. reflexivity. Qed.

(* 5. a comment opener inside a later comment whose inner part is the text of an earlier comment: every occurrence of
      the earlier comment's text is deleted first *)
Lemma ce_nested_opener : tree_read (of_string "a /*y*/ 1; b /*x/*y*/ 2;") = Some [kv_a1].
Proof. vm_compute. reflexivity. Qed.

(* 6. a word starting with a star directly behind a block comment, when the closing slash + that word + the following
      text spell an earlier comment: the document is { *k : "p*/q" } with and without the first comment *)
Lemma ce_star_after_block :
  tree_read (of_string "/*x*/*k 'p*/q';") = Some [(KS (of_string "*k"), Leaf (SStr (of_string "p*/q")))] /\
  tree_read (of_string "/*k 'p*/ /*x*/*k 'p*/q';") = Some [].
Proof. split; vm_compute; reflexivity. Qed.
