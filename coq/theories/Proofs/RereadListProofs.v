(* LIST VERSION of RereadProofs.v: the same development over the event stream of RereadListTree.v, which enters lists
   (comment entries inside dicts that are list items, at any nesting).  Statements and proofs are those of RereadProofs.v
   with the cases of the list skeleton events (ELOpen / EIOpen / EDOpen / ELEnd) added and the tree recursions entering
   lists; see RereadList.v for the interface. *)
(* C03 / C12 on documents with comments, part 7: reading the written text back.
   NativeParser.parse_string on the text NativeFormatter.to_string writes for a re-readable SDict: the same ordinary data
   (leaves as the classifier reads their written form), every comment with its exact text at its place, the header first,
   the placeholders renumbered in text order. *)
From Coq Require Import String.
From Coq Require Import NArith ZArith List Bool Lia ZifyBool ZifyN ZifyNat.
From DictIO Require Import Chars Str Value Scalar KeyPath SDict Layout Lexer TokParser TreeSpec NativeSpec LayoutSpec E2ESpec.
From DictIO Require ScalarProofs SDictProofs TokProofs LayoutProofs SemProofs QuoteProofs KeyPathProofs.
From DictIO Require Import E2EProofs E2EHoles E2EInsert E2EKeyTok E2EFullProofs RereadStr RereadListTree RereadListWrite RereadListLex RereadListParse RereadListNum.
Import ListNotations.
Import LayoutProofs.
Open Scope N_scope.

(* ================================================================================================ *)
(* 1. from the labelled placeholder document to the numbered document                               *)
(* ================================================================================================ *)

Lemma cph_noW w i : cw w -> contains w_STRINGLITERAL (placeholder w i) = false.
Proof.
  intros Hw. destruct (contains w_STRINGLITERAL (placeholder w i)) eqn:E; [|reflexivity]. exfalso.
  apply contains_head_In in E. destruct (cph_In w i 83 Hw E) as [H|H]; [|discriminate H].
  destruct Hw as [-> | ->]; cbn in H; repeat (destruct H as [H|H]; [discriminate H|]); exact H.
Qed.

Lemma cph_ctok w i : cw w -> TRC.ctokb (placeholder w i) = true.
Proof.
  intros Hw. destruct (cw_facts w Hw) as (Hne & _ & Hc).
  assert (Hcm : is_comment_tok (placeholder w i) = true) by (unfold is_comment_tok, placeholder; apply contains_app_l; exact Hc).
  assert (Hh : exists c r, placeholder w i = c :: r /\ simple_char c = true).
  { destruct Hw as [-> | ->]; unfold placeholder; eexists; eexists; (split; [reflexivity|reflexivity]). }
  destruct Hh as (c & r & E & Hs). destruct (simple_not_struct c r Hs) as (B1 & B2 & B3).
  assert (A1 : is_open (placeholder w i) = false) by (rewrite E; exact B1).
  assert (A2 : is_close (placeholder w i) = false) by (rewrite E; exact B2).
  assert (A3 : str_eqb (placeholder w i) t_semi = false) by (rewrite E; exact B3).
  unfold TRC.ctokb. rewrite A1, A2, A3, Hcm. reflexivity.
Qed.

Section Values.
  Variable ltab btab : list (N * str).
  Variable tab : list (N * str).           (* the literal table *)
  Notation gx := (numx ltab btab).

  Lemma gx_cases n x : exists w i, cw w /\ gx n x = placeholder w i.
  Proof.
    unfold numx. destruct (str_eqb n w_LINECOMMENT); [exists w_LINECOMMENT, (rlookup x ltab)|exists w_BLOCKCOMMENT, (rlookup x btab)];
      (split; [first [left; reflexivity|right; reflexivity]|reflexivity]).
  Qed.

  (* the document the token parser sees: comment values numbered, quoted leaves labelled *)
  Definition doc2 (t : tree) : tree := cmapg (gkv keepn gx) idf t.
  Definition doc3 (ks : list N) (t : tree) : tree := clabel ks (doc2 t).

  Lemma keepn_cm n x : is_cm n = true -> is_cm (keepn n x) = true.
  Proof. intros H. exact H. Qed.

  Lemma cm_entry_gkv n x y : is_cm n = true -> cm_entry (gkv keepn gx n y) = Some (n, gx n y) /\ cm_entry (KS n, Leaf (SStr x)) = Some (n, x).
  Proof. intros H. unfold gkv, keepn. cbn [cm_entry]. rewrite H. split; reflexivity. Qed.

  Notation e2 := (cmap_entry (gkv keepn gx) idf).
  Notation e3 := (cmap_entry TRC.gtok nvL).
  Notation e4 := (cmap_entry (gkv gx gx) written_value).

  Lemma doc2_eventsA t lvl anc : cshapeT t = true -> eventsA lvl anc (doc2 t) = map (ev_map keepn gx idf) (eventsA lvl anc t).
  Proof. intros H. apply cmapg_events; [exact keepn_cm|exact H]. Qed.
  Lemma doc2_events t lvl : cshape t = true -> events lvl (doc2 t) = map (ev_map keepn gx idf) (events lvl t).
  Proof. intros H. apply doc2_eventsA. apply cshape_T. exact H. Qed.

  Lemma ev_map_lits es : lits (map (ev_map keepn gx idf) es) = lits es.
  Proof.
    induction es as [|e es IH]; [reflexivity|]. unfold lits in *. cbn [map flat_map]. rewrite IH. f_equal.
    destruct e as [lvl k v|lvl k|lvl|lvl n x|lvl k|lvl len idx first run|lvl len idx first run|lvl anc len idx first run]; cbn [ev_map ev_lits]; try reflexivity;
      rewrite map_idf; reflexivity.
  Qed.

  Lemma doc2_dict kvs : doc2 (Dict kvs) = Dict (map e2 kvs).
  Proof. unfold doc2. apply cmapg_dict. Qed.
  Lemma doc2_lst ts : doc2 (Lst ts) = Lst (map doc2 ts).
  Proof. unfold doc2. apply cmapg_lst. Qed.

  Lemma doc2_cshape : forall t, cshapeT t = true -> cshapeT (doc2 t) = true /\ cnqT (doc2 t) = cnqT t.
  Proof.
    induction t as [v|kvs IH|ts IH] using tree_ind'; intros H.
    - split; [exact H|reflexivity].
    - rewrite doc2_dict. induction IH as [|[k c] kvs Hc _ IHk]; [split; reflexivity|].
      rewrite cshapeT_cons in H. apply andb_true_iff in H. destruct H as [H1 H2]. destruct (IHk H2) as [I1 I2].
      cbn [map]. rewrite !cshapeT_cons, !cnqT_cons, I1, I2. cbn [snd] in Hc.
      unfold cshape_entry, cnq_entry, cmap_entry in *. destruct (cm_entry (k, c)) as [[n x]|] eqn:Ec.
      + destruct (cm_entry_inv _ _ _ Ec) as [_ Hn]. destruct (cm_entry_gkv n x x Hn) as [E1 _]. rewrite E1. split; reflexivity.
      + cbn [fst snd] in *. apply andb_true_iff in H1. destruct H1 as [Hk Hcs]. rewrite (cm_entry_simple k _ Hk), Hk. cbn [snd andb].
        fold (doc2 c). destruct (Hc Hcs) as [C1 C2]. rewrite C1, C2. split; reflexivity.
    - rewrite doc2_lst. induction IH as [|c l Hc _ IHl]; [split; reflexivity|].
      rewrite cshapeT_lst_cons in H. apply andb_true_iff in H. destruct H as [H1 H2]. destruct (IHl H2) as [I1 I2]. destruct (Hc H1) as [C1 C2].
      cbn [map]. rewrite !cshapeT_lst_cons, !cnqT_lst_cons, I1, I2, C1, C2. split; reflexivity.
  Qed.
  Lemma doc2_cnq t : cshapeT t = true -> cnqT (doc2 t) = cnqT t.
  Proof. intros H. exact (proj2 (doc2_cshape t H)). Qed.
  Lemma doc2_cshape_dict c : cshape (Dict c) = true -> cshape (doc2 (Dict c)) = true.
  Proof. intros H. rewrite doc2_dict. rewrite <- doc2_dict. pose proof (proj1 (doc2_cshape (Dict c) H)) as G. rewrite doc2_dict in *. exact G. Qed.

  (* the quoted literals of a tree in text order: independent of the layout *)
  Fixpoint tlits (t : tree) {struct t} : list str :=
    match t with
    | Leaf v => qstr v
    | Dict kvs =>
        (fix go (l : list (key * tree)) : list str :=
           match l with
           | [] => []
           | (k, c) :: l' => (match cm_entry (k, c) with Some _ => [] | None => tlits c end) ++ go l'
           end) kvs
    | Lst ts => (fix go (l : list tree) : list str := match l with [] => [] | c :: l' => tlits c ++ go l' end) ts
    end.
  Definition tlits_entry (kc : key * tree) : list str := match cm_entry kc with Some _ => [] | None => tlits (snd kc) end.
  Lemma tlits_cons kc l : tlits (Dict (kc :: l)) = tlits_entry kc ++ tlits (Dict l).
  Proof. destruct kc as [k c]. unfold tlits_entry. cbn [tlits fst snd]. destruct (cm_entry (k, c)); reflexivity. Qed.
  Lemma tlits_lst_cons c l : tlits (Lst (c :: l)) = tlits c ++ tlits (Lst l).
  Proof. reflexivity. Qed.

  Lemma tlits_len : forall t, length (tlits t) = cnqT t.
  Proof.
    induction t as [v|kvs IH|ts IH] using tree_ind'; [reflexivity| |].
    - induction IH as [|[k c] kvs Hc _ IHk]; [reflexivity|]. rewrite tlits_cons, cnqT_cons, app_length, IHk. f_equal.
      unfold tlits_entry, cnq_entry. destruct (cm_entry (k, c)); [reflexivity|exact Hc].
    - induction IH as [|c l Hc _ IHl]; [reflexivity|]. rewrite tlits_lst_cons, cnqT_lst_cons, app_length, IHl, Hc. reflexivity.
  Qed.
  Lemma tlits_entry_len kc : length (tlits_entry kc) = cnq_entry kc.
  Proof. unfold tlits_entry, cnq_entry. destruct (cm_entry kc); [reflexivity|apply tlits_len]. Qed.

  Lemma lits_tlits : forall t lvl anc, match t with Leaf _ => True | _ => lits (eventsA lvl anc t) = tlits t end.
  Proof.
    induction t as [v|kvs IH|ts IH] using tree_ind'; intros lvl anc; [exact I| |].
    - rewrite eventsA_dict. revert lvl. induction IH as [|[k c] kvs Hc _ IHk]; intros lvl; [reflexivity|].
      rewrite events_cons, lits_app, tlits_cons, (IHk lvl). f_equal. cbn [snd] in Hc.
      unfold entry_events, tlits_entry. destruct (cm_entry (k, c)) as [[n x]|]; [reflexivity|]. cbn [fst snd]. destruct c as [v|d|l].
      + cbn [lits flat_map ev_lits tlits]. rewrite app_nil_r. reflexivity.
      + change (EOpen lvl k :: events (S lvl) (Dict d) ++ [EClose lvl]) with ([EOpen lvl k] ++ events (S lvl) (Dict d) ++ [EClose lvl]).
        rewrite !lits_app. unfold events. rewrite (Hc (S lvl) false). cbn [lits flat_map ev_lits app]. rewrite app_nil_r. reflexivity.
      + change (ELOpen lvl k :: eventsA lvl false (Lst l)) with ([ELOpen lvl k] ++ eventsA lvl false (Lst l)).
        rewrite lits_app, (Hc lvl false). reflexivity.
    - rewrite eventsA_lst. set (len := length ts). clearbody len.
      assert (G : forall run idx first, lits (ievents lvl anc len ts run idx first) = flat_map qstr run ++ tlits (Lst ts)).
      { induction IH as [|c l Hc _ IHl]; intros run idx first; [cbn [ievents lits flat_map ev_lits tlits]; rewrite app_nil_r; reflexivity|].
        cbn [ievents]. rewrite tlits_lst_cons. destruct c as [v|d|l2].
        - rewrite IHl, flat_map_app. cbn [flat_map tlits]. rewrite app_nil_r, <- app_assoc. reflexivity.
        - change (EDOpen lvl len idx first run :: ?A ++ EClose (S lvl) :: ?B) with ([EDOpen lvl len idx first run] ++ A ++ [EClose (S lvl)] ++ B).
          rewrite !lits_app, (Hc (S (S lvl)) false), IHl. cbn [lits flat_map ev_lits app]. rewrite app_nil_r. reflexivity.
        - change (EIOpen lvl len idx first run :: ?A ++ ?B) with ([EIOpen lvl len idx first run] ++ A ++ B).
          rewrite !lits_app, (Hc (S lvl) true), IHl. cbn [lits flat_map ev_lits app]. rewrite app_nil_r. reflexivity. }
      exact (G [] 0%nat true).
  Qed.
  Lemma lits_events_dict c lvl : lits (events lvl (Dict c)) = tlits (Dict c).
  Proof. exact (lits_tlits (Dict c) lvl false). Qed.

  Definition Vc (t : tree) : Prop :=
    cshapeT t = true -> forall ks R b, Forall2 (Rel tab) ks (tlits t ++ R) ->
    map_leaves (Gfun tab) (TRC.cres nvL (doc3 ks t)) = numT ltab btab written_value t /\
    (quoted_within b (cstrip t) = true -> lw PWs b (TRC.cres nvL (doc3 ks t)) = true) /\
    TRC.cskeysT (doc3 ks t) = true /\ TRC.call TRC.ctokb (doc3 ks t) = true.

  (* one entry *)
  Definition Ve (kc : key * tree) : Prop :=
    cshape_entry kc = true -> forall ks R b, Forall2 (Rel tab) ks (tlits_entry kc ++ R) ->
    TokProofs.mkv (Gfun tab) (e3 (clabel_entry ks (e2 kc))) = e4 kc /\
    (forallb (fun e => quoted_within b (snd e)) (cstrip_entry kc) = true -> lw PWs b (snd (e3 (clabel_entry ks (e2 kc)))) = true) /\
    TRC.cskeys_entry (clabel_entry ks (e2 kc)) = true /\ TRC.call_entry TRC.ctokb (clabel_entry ks (e2 kc)) = true /\
    cnq_entry (e2 kc) = cnq_entry kc.

  Lemma Ve_entry k c : Vc c -> Ve (k, c).
  Proof.
    intros IHc Hs ks R b HR. unfold cshape_entry in Hs. unfold cstrip_entry, tlits_entry in *.
    destruct (cm_entry (k, c)) as [[n x]|] eqn:Ec.
    - (* a comment entry *)
      destruct (cm_entry_inv _ _ _ Ec) as [_ Hn]. destruct (cm_entry_gkv n x x Hn) as [E1 _].
      destruct (gx_cases n x) as (w & i & Hw & Eg).
      assert (A2 : e2 (k, c) = (KS n, Leaf (SStr (gx n x)))) by (unfold cmap_entry; rewrite Ec; reflexivity).
      assert (A4 : e4 (k, c) = (KS (gx n x), Leaf (SStr (gx n x)))) by (unfold cmap_entry; rewrite Ec; reflexivity).
      unfold gkv, keepn in E1.
      assert (A3 : clabel_entry ks (KS n, Leaf (SStr (gx n x))) = (KS n, Leaf (SStr (gx n x)))) by (unfold clabel_entry; rewrite E1; reflexivity).
      assert (A5 : e3 (KS n, Leaf (SStr (gx n x))) = (KS (gx n x), Leaf (SStr (gx n x)))) by (unfold cmap_entry; rewrite E1; reflexivity).
      rewrite A2, A3, A4, A5. unfold cnq_entry, TRC.cskeys_entry, TRC.call_entry. rewrite E1, Ec. cbn [snd fst]. rewrite Eg.
      split; [|split; [|split; [|split]]]; try reflexivity.
      + unfold TokProofs.mkv. cbn [fst snd map_leaves]. rewrite Gfun_noW; [reflexivity|]. unfold PWs. cbn [py_str]. exact (cph_noW w i Hw).
      + intros _. cbn [lw]. unfold PWs. cbn [py_str]. rewrite (cph_noW w i Hw). reflexivity.
      + exact (cph_ctok w i Hw).
    - cbn [fst snd] in *. apply andb_true_iff in Hs. destruct Hs as [Hk Hc].
      assert (Ecm : forall c', cm_entry (k, c') = None) by (intros c'; apply cm_entry_simple; exact Hk).
      assert (A2 : e2 (k, c) = (k, doc2 c)) by (unfold cmap_entry; rewrite Ec; reflexivity).
      assert (A4 : e4 (k, c) = (k, numT ltab btab written_value c)) by (unfold cmap_entry; rewrite Ec; reflexivity).
      rewrite A2, A4. destruct (IHc Hc ks R b HR) as (V1 & V2 & V3 & V4). unfold doc3 in V1, V2, V3, V4.
      unfold clabel_entry, cnq_entry, TRC.cskeys_entry, TRC.call_entry. rewrite !Ecm. cbn [fst snd].
      unfold cmap_entry. rewrite !Ecm. cbn [fst snd]. rewrite Hk. cbn [andb].
      split; [unfold TokProofs.mkv; cbn [fst snd]; f_equal; exact V1|]. split; [|split; [exact V3|split; [exact V4|]]].
      + cbn [forallb snd]. rewrite andb_true_r. intros Hq. apply V2. exact Hq.
      + exact (doc2_cnq c Hc).
  Qed.

  Lemma Vc_entries b kvs : Forall (fun kc => Ve kc) kvs -> cshapeT (Dict kvs) = true ->
    forall ks R, Forall2 (Rel tab) ks (tlits (Dict kvs) ++ R) ->
    exists k3, clabel ks (Dict (map e2 kvs)) = Dict k3 /\
      map (TokProofs.mkv (Gfun tab)) (map e3 k3) = map e4 kvs /\
      (forallb (fun e => quoted_within b (snd e)) (flat_map cstrip_entry kvs) = true -> forallb (fun e => lw PWs b (snd e)) (map e3 k3) = true) /\
      TRC.cskeysT (Dict k3) = true /\ TRC.call TRC.ctokb (Dict k3) = true.
  Proof.
    induction 1 as [|kc kvs Hkc _ IH]; intros Hs ks R HR.
    - exists []. repeat split; reflexivity.
    - rewrite cshapeT_cons in Hs. apply andb_true_iff in Hs. destruct Hs as [Hs1 Hs2].
      rewrite tlits_cons, <- app_assoc in HR.
      destruct (Hkc Hs1 ks _ b HR) as (E1 & E2 & E3 & E4 & E5).
      pose proof (Forall2_skipn _ _ _ _ HR) as HR'. rewrite tlits_entry_len, <- E5 in HR'.
      destruct (IH Hs2 _ R HR') as (k3 & K0 & K1 & K2 & K3 & K4).
      cbn [map]. rewrite clabel_cons, K0. cbn [kvs_of]. eexists. split; [reflexivity|].
      cbn [map flat_map]. rewrite E1, K1. split; [reflexivity|]. split; [|split].
      + rewrite forallb_app. intros Hq. apply andb_true_iff in Hq. destruct Hq as [Hq1 Hq2]. cbn [forallb]. rewrite (E2 Hq1), (K2 Hq2). reflexivity.
      + rewrite TRC.cskeysT_cons, E3, K3. reflexivity.
      + rewrite TRC.call_cons, E4, K4. reflexivity.
  Qed.

  Lemma Vc_items b ts : Forall Vc ts -> cshapeT (Lst ts) = true ->
    forall ks R, Forall2 (Rel tab) ks (tlits (Lst ts) ++ R) ->
    map (map_leaves (Gfun tab)) (map (TRC.cres nvL) (clabelL ks (map doc2 ts))) = map (numT ltab btab written_value) ts /\
    (forallb (quoted_within b) (map cstrip ts) = true -> forallb (lw PWs b) (map (TRC.cres nvL) (clabelL ks (map doc2 ts))) = true) /\
    TRC.cskeysT (Lst (clabelL ks (map doc2 ts))) = true /\ TRC.call TRC.ctokb (Lst (clabelL ks (map doc2 ts))) = true.
  Proof.
    induction 1 as [|c l Hc _ IH]; intros Hs ks R HR; [repeat split; reflexivity|].
    rewrite cshapeT_lst_cons in Hs. apply andb_true_iff in Hs. destruct Hs as [Hs1 Hs2].
    rewrite tlits_lst_cons, <- app_assoc in HR.
    destruct (Hc Hs1 ks _ b HR) as (V1 & V2 & V3 & V4). unfold doc3 in V1, V2, V3, V4.
    pose proof (Forall2_skipn _ _ _ _ HR) as HR'. rewrite tlits_len, <- (doc2_cnq c Hs1) in HR'.
    destruct (IH Hs2 _ R HR') as (K1 & K2 & K3 & K4).
    cbn [map clabelL]. rewrite V1, K1. split; [reflexivity|]. split; [|split].
    - cbn [forallb]. intros Hq. apply andb_true_iff in Hq. destruct Hq as [Hq1 Hq2]. rewrite (V2 Hq1), (K2 Hq2). reflexivity.
    - rewrite TRC.cskeysT_lst_cons, V3, K3. reflexivity.
    - rewrite TRC.call_lst_cons, V4, K4. reflexivity.
  Qed.

  Lemma Vc_all : forall t, Vc t.
  Proof.
    induction t as [v|kvs IH|ts IH] using tree_ind'; intros Hs ks R b HR.
    - cbn [cshapeT tlits] in *. unfold doc3, doc2. cbn [cmapg clabel]. unfold TRC.cres, numT. cbn [cmapg map_leaves]. unfold idf.
      pose proof (Vt_all tab (Leaf v) ks R HR Hs) as HV. cbn [label map_leaves] in HV.
      split; [exact HV|]. split; [|split; reflexivity].
      intros Hq. destruct (label_facts (Leaf v) ks) as (_ & _ & L3). exact (L3 b Hs Hq).
    - assert (HVe : Forall (fun kc => Ve kc) kvs).
      { revert IH. apply Forall_impl. intros [k c] Hc. apply Ve_entry. exact Hc. }
      destruct (Vc_entries (Nat.pred b) kvs HVe Hs ks R HR) as (k3 & K0 & K1 & K2 & K3 & K4).
      unfold doc3. rewrite doc2_dict, K0. unfold TRC.cres, numT. rewrite !cmapg_dict, TokProofs.map_leaves_dict, K1.
      split; [reflexivity|]. split; [|split; assumption].
      rewrite cstrip_dict. unfold quoted_within. rewrite !lw_dict. exact K2.
    - destruct (Vc_items (Nat.pred b) ts IH Hs ks R HR) as (K1 & K2 & K3 & K4).
      unfold doc3. rewrite doc2_lst, clabel_lst. unfold TRC.cres, numT. rewrite !cmapg_lst, TokProofs.map_leaves_lst.
      change (cmapg TRC.gtok nvL) with (TRC.cres nvL). change (cmapg (gkv gx gx) written_value) with (numT ltab btab written_value). rewrite K1. split; [reflexivity|]. split; [|split; assumption].
      rewrite cstrip_lst. unfold quoted_within. rewrite !lw_lst. exact K2.
  Qed.
End Values.

(* ================================================================================================ *)
(* 2. tables                                                                                        *)
(* ================================================================================================ *)

Lemma number_from_fst {A} (l : list A) : forall i, map fst (number_from i l) = map (fun j => i + N.of_nat j) (seq 0 (length l)).
Proof.
  induction l as [|x l IH]; intros i; [reflexivity|]. cbn [number_from map fst length seq]. rewrite IH, <- seq_shift, map_map.
  f_equal; [lia|]. apply map_ext. intros j. lia.
Qed.

Lemma number_from_nodup {A} (l : list A) i : NoDup (map fst (number_from i l)).
Proof.
  rewrite number_from_fst. apply NoDup_map_on; [|apply seq_NoDup]. intros a b _ _ H. lia.
Qed.

Lemma number_from_lt {A} (l : list A) i j x : In (j, x) (number_from i l) -> j < i + N.of_nat (length l).
Proof.
  intros H. assert (Hj : In j (map fst (number_from i l))) by (apply in_map_iff; exists (j, x); split; [reflexivity|exact H]).
  rewrite number_from_fst in Hj. apply in_map_iff in Hj. destruct Hj as (k & <- & Hk). apply in_seq in Hk. lia.
Qed.

Lemma inb_combine (ks : list N) (xs : list str) x : length ks = length xs -> In x xs -> inb x (combine ks xs) = true.
Proof.
  revert xs. induction ks as [|k ks IH]; intros xs Hl Hin; destruct xs as [|y xs]; try discriminate Hl; [destruct Hin|].
  cbn [combine inb existsb snd]. destruct Hin as [-> |Hin]; [rewrite ScalarProofs.str_eqb_refl; reflexivity|].
  fold (inb x (combine ks xs)). rewrite (IH xs ltac:(cbn [length] in Hl; lia) Hin). apply orb_true_r.
Qed.

Lemma cafter_ge c n : (-1 <= c)%Z -> (-1 <= cafter c n)%Z.
Proof.
  revert c. induction n as [|n IH]; intros c H; [exact H|]. cbn [cafter]. apply IH. pose proof (counter_next_nonneg c H). lia.
Qed.

(* _clean looks at keys only *)
Lemma keys_of_kind_mkv g kd kvs : keys_of_kind kd (map (TokProofs.mkv g) kvs) = keys_of_kind kd kvs.
Proof. unfold keys_of_kind. rewrite map_map. reflexivity. Qed.

Lemma ctabs_map_leaves lc bc g : forall t, ctabs lc bc (map_leaves g t) -> ctabs lc bc t.
Proof.
  induction t as [v|kvs IH|ts IH] using tree_ind'; intros H; try exact I.
  rewrite TokProofs.map_leaves_dict in H. cbn [ctabs] in *. rewrite !keys_of_kind_mkv in H. destruct H as (H1 & H2 & H3).
  split; [exact H1|]. split; [exact H2|]. clear H1 H2. induction IH as [|[k c] kvs Hc _ IHk]; [exact I|].
  cbn [map] in H3. destruct H3 as [H3 H4]. split; [|exact (IHk H4)]. cbn [snd] in Hc. unfold TokProofs.mkv in H3. cbn [fst snd] in H3.
  destruct c as [v|d|l]; try exact I. rewrite TokProofs.map_leaves_dict in H3. apply Hc. rewrite TokProofs.map_leaves_dict. exact H3.
Qed.

Lemma parser_clean_num ltab btab f (c : list (key * tree)) : cshape (Dict c) = true ->
  parser_clean (kvs_of (numT ltab btab f (Dict c))) = kvs_of (numT ltab btab f (Dict c)).
Proof.
  intros Hs. unfold numT. rewrite cmapg_dict. cbn [kvs_of]. unfold parser_clean.
  assert (G : forall k0, (k0 = KS (of_string "_variables") \/ k0 = KS (of_string "_includes")) ->
              forall l : list (key * tree), (forall kc, In kc l -> In kc (map (cmap_entry (gkv (numx ltab btab) (numx ltab btab)) f) c)) -> adel k0 l = l).
  { intros k0 Hk0 l Hl. apply adel_absent. intros e He. apply Hl in He. apply in_map_iff in He. destruct He as (kc & <- & Hin).
    rewrite fst_ce. rewrite cshape_forallb, forallb_forall in Hs. pose proof (Hs kc Hin) as Hk. unfold cshape_entry in Hk.
    apply SDictProofs.key_eqb_neq. destruct (cm_entry kc) as [[n x]|].
    - destruct (gx_cases ltab btab n x) as (w & i & Hw & ->). intros E.
      destruct Hk0 as [-> | ->]; destruct Hw as [-> | ->]; inversion E.
    - apply andb_true_iff in Hk. destruct Hk as [Hk _]. destruct (simple_key_inv _ Hk) as (_ & _ & _ & N1 & N2).
      destruct Hk0 as [-> | ->]; intros Heq; [apply N1|apply N2]; symmetry; exact Heq. }
  rewrite (G _ (or_introl eq_refl) _ (fun kc H => H)). apply (G _ (or_intror eq_refl)). intros kc H. exact H.
Qed.

(* ================================================================================================ *)
(* 3. reading a canonical document                                                                  *)
(* ================================================================================================ *)

Definition lc_list (c : list (key * tree)) : list str := lcx (events 0 (Dict c)).
Definition bc_list (c : list (key * tree)) : list str := bcx (events 0 (Dict c)).
Definition lit_list (c : list (key * tree)) : list str := lits (events 0 (Dict c)).
Definition lc_tab (count : Z) (c : list (key * tree)) : list (N * str) := combine (ids count (length (lc_list c))) (lc_list c).
Definition bc_tab (c : list (key * tree)) : list (N * str) := number_from 0 (bc_list c).
(* the SDict the reader returns for the text of the canonical document c: comments renumbered in text order (line
   comments by the placeholder counter, block comments from zero), ordinary leaves as the classifier reads them *)
Definition number (count : Z) (c : list (key * tree)) : sdict :=
  mkSD (kvs_of (numT (lc_tab count c) (bc_tab c) written_value (Dict c))) (lc_tab count c) (bc_tab c) [] [].
Definition count_after (count : Z) (c : list (key * tree)) : Z :=
  cafter (cafter count (length (lc_list c))) (length (lit_list c)).

Lemma cdoc_ok_inv c : cdoc_ok c = true ->
  cshape (Dict c) = true /\ wf (cstrip (Dict c)) = true /\ quoted_within 11 (cstrip (Dict c)) = true /\
  forallb cm_ok (cms (Dict c)) = true /\ NoDup (lc_list c) /\ NoDup (bc_list c).
Proof.
  unfold cdoc_ok. intros H. apply andb_true_iff in H. destruct H as [H H6]. apply andb_true_iff in H. destruct H as [H H5].
  apply andb_true_iff in H. destruct H as [H H4]. apply andb_true_iff in H. destruct H as [H H3]. apply andb_true_iff in H. destruct H as [H1 H2].
  repeat split; try assumption.
  - unfold lc_list. rewrite lcx_texts. apply nodupb_NoDup. exact H5.
  - unfold bc_list. rewrite bcx_texts. apply nodupb_NoDup. exact H6.
Qed.

Lemma lits_qlit_ok es : Forall ev_ok es -> Forall qlit (lits es).
Proof.
  induction 1 as [|e es He _ IH]; [constructor|]. unfold lits in *. cbn [flat_map]. apply Forall_app. split; [|exact IH].
  destruct e as [lvl k v|lvl k|lvl|lvl n x|lvl k|lvl len idx first run|lvl len idx first run|lvl anc len idx first run]; cbn [ev_lits ev_ok] in *; try constructor; try exact (run_qlit run He).
  exact (qstrs_qlit (Leaf v) (proj2 He)).
Qed.

(* the facts about the events of a document give the layout-free facts about its comment entries *)
Lemma src_of_events ltab btab c : cshape (Dict c) = true -> wf (cstrip (Dict c)) = true ->
  Forall ev_src (events 0 (Dict c)) -> NoDup (lc_list c) -> NoDup (bc_list c) ->
  (forall x, In x (lc_list c) -> inb x ltab = true) -> (forall x, In x (bc_list c) -> inb x btab = true) ->
  src_tree ltab btab (Dict c).
Proof.
  intros Hs Hw Hsrc Hl Hb Hil Hib. unfold lc_list, bc_list in *. rewrite lcx_wxe in Hl, Hil. rewrite bcx_wxe in Hb, Hib.
  unfold events in *. rewrite (wxe_tcms w_LINECOMMENT (Dict c) 0 false) in Hl, Hil. rewrite (wxe_tcms w_BLOCKCOMMENT (Dict c) 0 false) in Hb, Hib.
  split; [exact Hs|]. split; [exact Hw|]. split; [|split; assumption].
  intros n x Hin. rewrite <- (cms_tcms (Dict c) 0 false) in Hin. apply in_map_iff in Hin. destruct Hin as ([[lvl n'] x'] & E & Hin).
  unfold cm_nt, cm_name, cm_text in E. cbn [fst snd] in E. inversion E; subst n' x'.
  apply In_cms in Hin. rewrite Forall_forall in Hsrc. pose proof (Hsrc _ Hin) as He. cbn [ev_src] in He.
  assert (Hnx : In (n, x) (tcms (Dict c))).
  { rewrite <- (cms_tcms (Dict c) 0 false). apply in_map_iff. exists (lvl, n, x). split; [reflexivity|]. apply In_cms. exact Hin. }
  destruct He as [[-> _]|[-> _]]; [left|right]; (split; [reflexivity|]).
  - apply Hil. exact (wtx_In _ _ _ _ Hnx eq_refl).
  - apply Hib. exact (wtx_In _ _ _ _ Hnx eq_refl).
Qed.

Theorem reader_canon c dir count : cdoc_ok c = true -> (-1 <= count)%Z ->
  (Z.of_nat (length (lc_list c)) <= 1000000)%Z -> (Z.of_nat (length (bc_list c)) <= 1000000)%Z ->
  (Z.of_nat (length (lit_list c)) <= 1000000)%Z ->
  parse_string true dir count (remove_trailing_spaces (cat cm_line (events 0 (Dict c)))) =
  Ok (mkParsed (number count c) (count_after count c)).
Proof.
  intros Hc Hcount Hnl Hnb Hnq. destruct (cdoc_ok_inv c Hc) as (Hs & Hw & Hqw & Hcm & Hlnd & Hbnd).
  set (es := events 0 (Dict c)) in *.
  assert (Hok : Forall ev_ok es) by (apply cshape_events; exact Hs).
  assert (Hsrc : Forall ev_src es) by (apply cms_of_events_src; assumption).
  set (nl := length (lc_list c)). set (nq := length (lit_list c)). set (lids := ids count nl). set (c1 := cafter count nl).
  set (ltab := lc_tab count c). set (btab := bc_tab c). set (ks := ids c1 nq). set (tab := combine ks (lit_list c)).
  assert (Hlids : NoDup lids) by (apply ids_nodup; assumption).
  assert (Hc1 : (-1 <= c1)%Z) by (apply cafter_ge; exact Hcount).
  assert (Hks : NoDup ks) by (apply ids_nodup; assumption).
  assert (Hlen_l : length lids = length (lc_list c)) by apply ids_length.
  assert (Hlen_k : length ks = length (lit_list c)) by apply ids_length.
  (* the tables *)
  assert (TLnd : NoDup (map fst ltab)) by (unfold ltab, lc_tab; fold nl lids; rewrite (combine_fst _ _ Hlen_l); exact Hlids).
  assert (TBnd : NoDup (map fst btab)) by apply number_from_nodup.
  assert (TLlt : forall i x, In (i, x) ltab -> i < 1000000).
  { intros i x Hin. apply in_combine_l in Hin. pose proof (ids_small count nl) as Hsm. unfold small in Hsm. rewrite Forall_forall in Hsm. exact (Hsm i Hin). }
  assert (TBlt : forall i x, In (i, x) btab -> i < 1000000).
  { intros i x Hin. apply number_from_lt in Hin. fold (bc_list c) in Hnb. lia. }
  assert (TLin : forall x, In x (lc_list c) -> inb x ltab = true) by (intros x Hx; apply inb_combine; [exact Hlen_l|exact Hx]).
  assert (TBin : forall x, In x (bc_list c) -> inb x btab = true) by (intros x Hx; apply inb_number_from; exact Hx).
  (* the numbered document *)
  assert (Hsrct : src_tree ltab btab (Dict c)) by (apply src_of_events; assumption).
  destruct (num_ok ltab btab TLnd TBnd TLlt TBlt written_value (Dict c) Hsrct) as [Wnum Cnum].
  (* the lexer *)
  rewrite (rts_cat es (Forall_impl _ ev_src_lexW Hsrc)).
  destruct (lex_events true dir count es Hsrc (events_first_nc c 0) Hbnd Hlids) as (tl & Htl & Elex).
  (* the final events are those of the numbered placeholder document *)
  assert (EE2 : map (numB true btab) (relab true lids es) = events 0 (doc2 ltab btab (Dict c))).
  { rewrite (relab_keyed true es lids Hlnd Hlen_l).
    change (map (numB true btab) (map (relL true ltab) es) = events 0 (doc2 ltab btab (Dict c))).
    rewrite (passes_keyed ltab btab es Hsrc TBin). symmetry. apply doc2_events. exact Hs. }
  assert (Elex' : lex true dir count (catR es) =
                  mkLexed (evs_tokL ks (events 0 (doc2 ltab btab (Dict c))) ++ tl) (cafter c1 nq) ltab btab [] []
                          (tupdate [] (combine ks (lit_list c)))) by (rewrite <- EE2; exact Elex).
  clear Elex. unfold parse_string. cbv zeta. rewrite Elex'. cbn [lxd_tokens lxd_count lxd_lc lxd_bc lxd_inc lxd_expr lxd_lit].
  assert (Hfin : Forall ev_fin (events 0 (doc2 ltab btab (Dict c)))).
  { rewrite <- EE2. apply final_events; [exact Hsrc|exact TBin|exact Hlen_l]. }
  assert (Hnb0 : forall lvl n, ~ In (ECm lvl n []) (events 0 (doc2 ltab btab (Dict c)))).
  { intros lvl n Hin. rewrite (doc2_events ltab btab (Dict c) 0 Hs) in Hin. apply in_map_iff in Hin. destruct Hin as (e & Ee & _).
    destruct e as [l k v|l k|l|l m y|l k|l len idx first run|l len idx first run|l anc len idx first run]; cbn [ev_map] in Ee; try discriminate Ee. inversion Ee as [[E1 E2 E3]].
    destruct (gx_cases ltab btab m y) as (w & i & Hcw & Eg). rewrite Eg in E3. exact (cph_ne w i Hcw E3). }
  rewrite (evs_tokL_lab _ ks Hfin Hnb0).
  destruct (events_clabel (doc2 ltab btab (Dict c)) 0%nat ks (doc2_cshape_dict ltab btab c Hs)) as [Elab _]. rewrite <- Elab.
  fold (doc3 ltab btab ks (Dict c)).
  (* values *)
  assert (Hlits : Forall qlit (lit_list c)) by (apply lits_qlit_ok; exact Hok).
  assert (Hpv : Forall (fun s => PWs (pv s) = false) (lit_list c)).
  { revert Hlits. apply Forall_impl. intros s Hq. destruct (qlit_content s Hq) as [A B]. apply PWs_pv; assumption. }
  assert (Hrel : Forall2 (Rel tab) ks (tlits (Dict c) ++ [])).
  { rewrite app_nil_r, <- (lits_events_dict c 0). apply rel_top; [exact Hks|apply ids_small|exact Hlen_k|exact Hpv]. }
  destruct (Vc_all ltab btab tab (Dict c) Hs ks [] 11%nat Hrel) as (V1 & V2 & V3 & V4).
  specialize (V2 Hqw).
  destruct (clabel_dict ks (kvs_of (doc2 ltab btab (Dict c)))) as [k3 Ek3].
  assert (Ed2 : exists d2, doc2 ltab btab (Dict c) = Dict d2) by (unfold doc2; rewrite cmapg_dict; eexists; reflexivity).
  destruct Ed2 as [d2 Ed2]. unfold doc3 in *. rewrite Ed2 in *. cbn [kvs_of] in Ek3. rewrite Ek3 in *.
  set (d0 := kvs_of (TRC.cres nvL (Dict k3))).
  assert (Ed0 : TRC.cres nvL (Dict k3) = Dict d0) by (unfold d0, TRC.cres; rewrite cmapg_dict; reflexivity).
  assert (Wd0 : wf (Dict d0) = true) by (rewrite <- Ed0, <- (wf_map_leaves (Gfun tab)), V1; exact Wnum).
  assert (Cd0 : ctabs ltab btab (Dict d0)) by (rewrite <- Ed0; apply (ctabs_map_leaves _ _ (Gfun tab)); rewrite V1; exact Cnum).
  rewrite (TRC.tok_roundtrip ltL ktS nvL HltL HktpS HkpkS k3 tl Htl); [|rewrite Ed0; exact Wd0|exact V3|exact V4].
  fold d0. cbn [bind].
  rewrite (sd_clean_keep d0 ltab btab [] Cd0 Wd0). cbn [sd_data sd_lc sd_bc sd_inc sd_expr].
  assert (Htab : tupdate [] (combine ks (lit_list c)) = tab).
  { apply (tupdate_fresh (combine ks (lit_list c)) []). cbn [app]. rewrite (combine_fst ks _ Hlen_k). exact Hks. }
  rewrite Htab, (insert_all tab d0 Wd0).
  - rewrite <- Ed0, V1. cbn [bind].
    rewrite (parser_clean_num ltab btab written_value c Hs).
    assert (Ednum : exists d1, numT ltab btab written_value (Dict c) = Dict d1) by (unfold numT; rewrite cmapg_dict; eexists; reflexivity).
    destruct Ednum as [d1 Ed1]. rewrite Ed1 in *. cbn [kvs_of].
    rewrite (sd_clean_keep d1 ltab btab [] Cnum Wnum). unfold number, count_after. fold ltab btab nl nq c1. rewrite Ed1. reflexivity.
  - rewrite <- Ed0. exact V2.
  - apply Forall_forall. intros [k s] Hin. cbn [snd]. rewrite Forall_forall in Hpv. apply Hpv. exact (in_combine_r _ _ _ _ Hin).
Qed.

(* ================================================================================================ *)
(* 4. write, then read                                                                              *)
(* ================================================================================================ *)

(* the canonical document the written text of s spells *)
Definition written_doc (s : sdict) : list (key * tree) := hdr (canon s).

Lemma rereadable_doc s : rereadable s = true -> cdoc_ok (written_doc s) = true.
Proof. intros H. exact (wf_canon s (rereadable_facts s H)). Qed.

(* reading what NativeFormatter.to_string wrote for a re-readable SDict returns the numbered canonical document *)
Theorem reread_sd s dir count : rereadable s = true -> (-1 <= count)%Z ->
  (Z.of_nat (length (lc_list (written_doc s))) <= 1000000)%Z -> (Z.of_nat (length (bc_list (written_doc s))) <= 1000000)%Z ->
  (Z.of_nat (length (lit_list (written_doc s))) <= 1000000)%Z ->
  parse_string true dir count (to_string_sd s) =
  Ok (mkParsed (number count (written_doc s)) (count_after count (written_doc s))).
Proof.
  intros Hr Hc H1 H2 H3. rewrite (writer_canon s Hr). exact (reader_canon (written_doc s) dir count (rereadable_doc s Hr) Hc H1 H2 H3).
Qed.

(* ---- what the numbered document is ----------------------------------------------------------------- *)
(* the canonical document with every ordinary leaf read back by the classifier; comments untouched *)
Definition keepx (_ x : str) : str := x.
Definition cwv (c : list (key * tree)) : list (key * tree) := kvs_of (cmapg (gkv keepn keepx) written_value (Dict c)).

(* comment entries of a canonical document carry the names LINECOMMENT / BLOCKCOMMENT and texts that are in the tables *)
Definition cnames_ok (ltab btab : list (N * str)) (t : tree) : Prop :=
  forall n x, In (n, x) (tcms t) -> (n = w_LINECOMMENT /\ inb x ltab = true) \/ (n = w_BLOCKCOMMENT /\ inb x btab = true).

Lemma src_cnames ltab btab t : src_tree ltab btab t -> cnames_ok ltab btab t.
Proof. intros (_ & _ & H & _). exact H. Qed.

Lemma cnames_cons ltab btab kc l : cnames_ok ltab btab (Dict (kc :: l)) ->
  (match cm_entry kc with
   | Some (n, x) => (n = w_LINECOMMENT /\ inb x ltab = true) \/ (n = w_BLOCKCOMMENT /\ inb x btab = true)
   | None => cnames_ok ltab btab (snd kc)
   end) /\ cnames_ok ltab btab (Dict l).
Proof.
  intros H. unfold cnames_ok in *. rewrite tcms_dict in H. cbn [flat_map] in H. split.
  - unfold tcms_entry in H. destruct (cm_entry kc) as [[n x]|].
    + apply H. apply in_or_app. left. left. reflexivity.
    + intros n x Hin. apply H. apply in_or_app. left. exact Hin.
  - intros n x Hin. apply H. apply in_or_app. right. rewrite <- tcms_dict. exact Hin.
Qed.
Lemma cnames_lst_cons ltab btab c l : cnames_ok ltab btab (Lst (c :: l)) -> cnames_ok ltab btab c /\ cnames_ok ltab btab (Lst l).
Proof.
  intros H. unfold cnames_ok in *. rewrite tcms_lst in H. cbn [flat_map] in H. split.
  - intros n x Hin. apply H. apply in_or_app. left. exact Hin.
  - intros n x Hin. apply H. apply in_or_app. right. rewrite <- tcms_lst. exact Hin.
Qed.

Section CanonNumber.
  Variable ltab btab : list (N * str).
  Hypothesis HLnd : NoDup (map fst ltab).
  Hypothesis HBnd : NoDup (map fst btab).
  Hypothesis HLlt : forall i x, In (i, x) ltab -> i < 1000000.
  Hypothesis HBlt : forall i x, In (i, x) btab -> i < 1000000.

  Lemma canon_numT : forall t, cshapeT t = true -> cnames_ok ltab btab t ->
    canon_tree ltab btab (numT ltab btab written_value t) = cmapg (gkv keepn keepx) written_value t.
  Proof.
    induction t as [v|kvs IH|ts IH] using tree_ind'; intros Hs Hn.
    - reflexivity.
    - unfold canon_tree, numT. rewrite !cmapg_dict. apply (f_equal Dict). etransitivity; [apply List.map_map|].
      revert Hs Hn. induction IH as [|[k c] kvs Hc _ IHk]; intros Hs Hn; [reflexivity|].
      rewrite cshapeT_cons in Hs. apply andb_true_iff in Hs. destruct Hs as [Hs1 Hs2]. apply cnames_cons in Hn. destruct Hn as [Hn1 Hn2].
      cbn [map]. rewrite (IHk Hs2 Hn2). f_equal. cbn [snd] in Hc, Hn1.
      unfold cshape_entry in Hs1. unfold cmap_entry at 2 3. destruct (cm_entry (k, c)) as [[n x]|] eqn:Ec.
      + destruct (cm_entry_inv _ _ _ Ec) as [_ Hcmn]. unfold gkv at 2 3. unfold cmap_entry.
        assert (Enum : exists w i, cw w /\ i < 1000000 /\ numx ltab btab n x = placeholder w i /\ n = w /\
                                   tlookup i (if str_eqb w w_LINECOMMENT then ltab else btab) = Some x).
        { unfold numx. destruct Hn1 as [[-> Hx]|[-> Hx]].
          - exists w_LINECOMMENT, (rlookup x ltab). replace (str_eqb w_LINECOMMENT w_LINECOMMENT) with true by reflexivity.
            repeat split; [left; reflexivity|exact (HLlt _ _ (rlookup_In x ltab Hx))|exact (tlookup_rlookup x ltab HLnd Hx)].
          - exists w_BLOCKCOMMENT, (rlookup x btab). replace (str_eqb w_BLOCKCOMMENT w_LINECOMMENT) with false by reflexivity.
            repeat split; [right; reflexivity|exact (HBlt _ _ (rlookup_In x btab Hx))|exact (tlookup_rlookup x btab HBnd Hx)]. }
        destruct Enum as (w & i & Hw & Hi & Eg & -> & Hl). rewrite Eg.
        assert (Ecm : cm_entry (KS (placeholder w i), Leaf (SStr (placeholder w i))) = Some (placeholder w i, placeholder w i)).
        { cbn [cm_entry]. unfold is_cm. destruct (cw_facts w Hw) as (_ & _ & Hcc). unfold placeholder. rewrite (contains_app_l _ _ _ Hcc). reflexivity. }
        rewrite Ecm. unfold gkv, keepn, keepx, res_name, res_text, tget.
        destruct Hw as [-> | ->].
        * rewrite (is_ph_ph w_LINECOMMENT i Hi), ph_id_ph. replace (str_eqb w_LINECOMMENT w_LINECOMMENT) with true in Hl by reflexivity. rewrite Hl. reflexivity.
        * fold (bph i). rewrite is_ph_cross_lb. unfold bph. rewrite (is_ph_ph w_BLOCKCOMMENT i Hi), ph_id_ph.
          replace (str_eqb w_BLOCKCOMMENT w_LINECOMMENT) with false in Hl by reflexivity. rewrite Hl. reflexivity.
      + cbn [fst snd] in *. apply andb_true_iff in Hs1. destruct Hs1 as [Hk Hc1]. unfold cmap_entry. rewrite (cm_entry_simple k _ Hk). cbn [fst snd].
        f_equal. exact (Hc Hc1 Hn1).
    - unfold canon_tree, numT. rewrite !cmapg_lst. apply (f_equal Lst). etransitivity; [apply List.map_map|].
      revert Hs Hn. induction IH as [|c l Hc _ IHl]; intros Hs Hn; [reflexivity|].
      rewrite cshapeT_lst_cons in Hs. apply andb_true_iff in Hs. destruct Hs as [Hs1 Hs2]. apply cnames_lst_cons in Hn. destruct Hn as [Hn1 Hn2].
      cbn [map]. rewrite (IHl Hs2 Hn2). f_equal. exact (Hc Hs1 Hn1).
  Qed.
End CanonNumber.

(* the ordinary data of a mapped document *)
Lemma cstrip_cmapg gn gx f : (forall n x, is_cm n = true -> is_cm (gn n x) = true) ->
  forall t, cshapeT t = true -> cstrip (cmapg (gkv gn gx) f t) = map_leaves f (cstrip t).
Proof.
  intros Hgn. induction t as [v|kvs IH|ts IH] using tree_ind'; intros Hs.
  - reflexivity.
  - rewrite cmapg_dict, !cstrip_dict, TokProofs.map_leaves_dict. f_equal.
    revert Hs. induction IH as [|[k c] kvs Hc _ IHk]; intros Hs; [reflexivity|].
    rewrite cshapeT_cons in Hs. apply andb_true_iff in Hs. destruct Hs as [Hs1 Hs2]. cbn [map flat_map]. rewrite map_app, (IHk Hs2). f_equal.
    unfold cshape_entry in Hs1. unfold cmap_entry, cstrip_entry. cbn [snd] in Hc. destruct (cm_entry (k, c)) as [[n x]|] eqn:Ec.
    + destruct (cm_entry_inv _ _ _ Ec) as [_ Hn]. unfold gkv. cbn [cm_entry]. rewrite (Hgn n x Hn). reflexivity.
    + cbn [fst snd] in *. apply andb_true_iff in Hs1. destruct Hs1 as [Hk Hc1]. rewrite (cm_entry_simple k _ Hk). cbn [fst snd map].
      unfold TokProofs.mkv. cbn [fst snd]. rewrite (Hc Hc1). reflexivity.
  - rewrite cmapg_lst, !cstrip_lst, TokProofs.map_leaves_lst. f_equal. rewrite !map_map.
    revert Hs. induction IH as [|c l Hc _ IHl]; intros Hs; [reflexivity|].
    rewrite cshapeT_lst_cons in Hs. apply andb_true_iff in Hs. destruct Hs as [Hs1 Hs2]. cbn [map]. rewrite (Hc Hs1), (IHl Hs2). reflexivity.
Qed.

(* the facts about a canonical document and its tables used above, collected *)
Lemma doc_src c count : cdoc_ok c = true -> (-1 <= count)%Z ->
  (Z.of_nat (length (lc_list c)) <= 1000000)%Z -> (Z.of_nat (length (bc_list c)) <= 1000000)%Z ->
  NoDup (map fst (lc_tab count c)) /\ NoDup (map fst (bc_tab c)) /\
  (forall i x, In (i, x) (lc_tab count c) -> i < 1000000) /\ (forall i x, In (i, x) (bc_tab c) -> i < 1000000) /\
  src_tree (lc_tab count c) (bc_tab c) (Dict c).
Proof.
  intros Hc Hcount Hnl Hnb. destruct (cdoc_ok_inv c Hc) as (Hs & Hw & Hqw & Hcm & Hlnd & Hbnd).
  assert (Hok : Forall ev_ok (events 0 (Dict c))) by (apply cshape_events; exact Hs).
  assert (Hsrc : Forall ev_src (events 0 (Dict c))) by (apply cms_of_events_src; assumption).
  assert (Hlen_l : length (ids count (length (lc_list c))) = length (lc_list c)) by apply ids_length.
  split; [unfold lc_tab; rewrite (combine_fst _ _ Hlen_l); apply ids_nodup; assumption|]. split; [apply number_from_nodup|]. split; [|split].
  - intros i x Hin. apply in_combine_l in Hin. pose proof (ids_small count (length (lc_list c))) as Hsm. unfold small in Hsm.
    rewrite Forall_forall in Hsm. exact (Hsm i Hin).
  - intros i x Hin. apply number_from_lt in Hin. lia.
  - apply src_of_events; try assumption.
    + intros x Hx. apply inb_combine; [exact Hlen_l|exact Hx].
    + intros x Hx. apply inb_number_from. exact Hx.
Qed.

Lemma numT_dict ltab btab f c : exists d, numT ltab btab f (Dict c) = Dict d.
Proof. unfold numT. rewrite cmapg_dict. eexists. reflexivity. Qed.

(* (b), (c): the canonical form of the re-read SDict is the canonical document, leaves read back *)
Theorem canon_number c count : cdoc_ok c = true -> (-1 <= count)%Z ->
  (Z.of_nat (length (lc_list c)) <= 1000000)%Z -> (Z.of_nat (length (bc_list c)) <= 1000000)%Z ->
  canon (number count c) = cwv c.
Proof.
  intros Hc Hcount Hnl Hnb. destruct (doc_src c count Hc Hcount Hnl Hnb) as (A1 & A2 & A3 & A4 & A5).
  destruct (cdoc_ok_inv c Hc) as (Hs & _). unfold canon, number, cwv. cbn [sd_data sd_lc sd_bc].
  destruct (numT_dict (lc_tab count c) (bc_tab c) written_value c) as [d Ed]. rewrite Ed. cbn [kvs_of]. rewrite <- Ed.
  rewrite (canon_numT _ _ A1 A2 A3 A4 (Dict c) Hs (src_cnames _ _ (Dict c) A5)). reflexivity.
Qed.

(* (a): the ordinary data of the re-read SDict *)
Theorem data_number c count : cdoc_ok c = true ->
  cstrip (Dict (sd_data (number count c))) = map_leaves written_value (cstrip (Dict c)).
Proof.
  intros Hc. destruct (cdoc_ok_inv c Hc) as (Hs & _). unfold number. cbn [sd_data].
  destruct (numT_dict (lc_tab count c) (bc_tab c) written_value c) as [d Ed]. rewrite Ed. cbn [kvs_of]. rewrite <- Ed.
  unfold numT. apply cstrip_cmapg; [|exact Hs]. intros n x _.
  destruct (gx_cases (lc_tab count c) (bc_tab c) n x) as (w & i & Hw & ->). destruct (cw_facts w Hw) as (_ & _ & Hcc).
  unfold is_cm, placeholder. apply contains_app_l. exact Hcc.
Qed.

Print Assumptions reread_sd.
Print Assumptions canon_number.
