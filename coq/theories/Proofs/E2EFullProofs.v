(* C01 layer (c), full writer domain: NativeParser.parse_string inverts NativeFormatter.to_string on trees whose
   string leaves may need quotes.  The written text is an abstract body with holes filled with the written literals
   (E2EHoles); the lexer replaces every literal by a fresh placeholder token (lex_filled); the token parser reads the
   placeholder document back (TRK, the induction of E2EProofs.TR with the hypothesis restricted to the keys);
   _insert_string_literals maps the placeholders to the classified literal contents (E2EInsert).

   FINDINGS (the statement of C01_full.C01_roundtrip is false for the model as it stands; see the end of this file):
   1. counter values below -1 make several literals share the placeholder STRINGLITERAL000000
      (Lexer.scan_literals numbers with Z.to_N (counter_next count)); more than a million literals wrap around.
   2. a quoted literal more than ten keys deep makes KeyPath.set_global_key raise RecursionError
      (TokParser.insert_literal -> set_at, "the 10th descent"). *)
From Coq Require Import String.
From Coq Require Import NArith ZArith List Bool Lia ZifyBool ZifyN ZifyNat.
From DictIO Require Import Chars Str Value Scalar KeyPath SDict Layout Lexer TokParser TreeSpec NativeSpec LayoutSpec E2ESpec.
From DictIO Require ScalarProofs SDictProofs TokProofs LayoutProofs SemProofs QuoteProofs KeyPathProofs.
From DictIO Require Import E2EProofs E2EHoles E2EInsert E2EKeyTok.
Import ListNotations.
Import LayoutProofs.
Open Scope N_scope.


(* ================================================================================================ *)
(* 1. the formatter with the leaf text and the leaf width as separate parameters                    *)
(* ================================================================================================ *)

Section GF.
  Variable lf : scalar -> str.       (* text of a leaf *)
  Variable ll : scalar -> nat.       (* width used for the padding of list items *)

  Definition glist_item (level : nat) (first : bool) (idx len : nat) (v : scalar) : str * bool :=
    let value := lf v in
    let item_level := if first then S level else 1%nat in
    let last := Nat.eqb (Nat.modulo (S idx) 10) 0 || Nat.eqb (S idx) len in
    if last then (line item_level value true, true)
    else (line item_level (value ++ spaces (14 - ll v)) false, false).

  Fixpoint gfmt (level : nat) (anc_list : bool) (t : tree) : str :=
    match t with
    | Leaf v => lf v
    | Lst ts =>
        line level [c_lpar] true ++
        (fix items (l : list tree) (idx : nat) (first : bool) : str :=
           match l with
           | [] => []
           | c :: l' =>
               match c with
               | Lst _ => gfmt (S level) true c ++ items l' (S idx) first
               | Dict _ =>
                   line (S level) [] true ++ line (S level) [c_lbrace] true ++
                   gfmt (S (S level)) false c ++ line (S level) [c_rbrace] true ++
                   items l' (S idx) true
               | Leaf v =>
                   let (s, first') := glist_item level first idx (length ts) v in
                   s ++ items l' (S idx) first'
               end
           end) ts 0%nat true ++
        line level (if anc_list then [c_rpar] else [c_rpar; c_semi]) true
    | Dict kvs =>
        (fix entries (l : list (key * tree)) : str :=
           match l with
           | [] => []
           | (k, c) :: l' =>
               match c with
               | Dict _ =>
                   line level (key_text k) true ++ line level [c_lbrace] true ++
                   gfmt (S level) false c ++ line level [c_rbrace] true
               | Lst _ => line level (key_text k) true ++ gfmt level false c
               | Leaf v =>
                   let skey := FK k in
                   let value := lf v in
                   line level (skey ++ spaces (Nat.max 8 (30 - length skey - 4 * level)) ++ value ++ [c_semi]) true
               end ++ entries l'
           end) kvs
    end.

  Section GLoops.
    Variable level : nat.
    Fixpoint gentries (l : list (key * tree)) : str :=
      match l with
      | [] => []
      | (k, c) :: l' =>
          match c with
          | Dict _ =>
              line level (key_text k) true ++ line level [c_lbrace] true ++
              gfmt (S level) false c ++ line level [c_rbrace] true
          | Lst _ => line level (key_text k) true ++ gfmt level false c
          | Leaf v =>
              let skey := FK k in
              let value := lf v in
              line level (skey ++ spaces (Nat.max 8 (30 - length skey - 4 * level)) ++ value ++ [c_semi]) true
          end ++ gentries l'
      end.
    Variable len : nat.
    Fixpoint gitems (l : list tree) (idx : nat) (first : bool) : str :=
      match l with
      | [] => []
      | c :: l' =>
          match c with
          | Lst _ => gfmt (S level) true c ++ gitems l' (S idx) first
          | Dict _ =>
              line (S level) [] true ++ line (S level) [c_lbrace] true ++
              gfmt (S (S level)) false c ++ line (S level) [c_rbrace] true ++
              gitems l' (S idx) true
          | Leaf v =>
              let (s, first') := glist_item level first idx len v in
              s ++ gitems l' (S idx) first'
          end
      end.
  End GLoops.

  Lemma gfmt_dict level anc kvs : gfmt level anc (Dict kvs) = gentries level kvs.
  Proof. reflexivity. Qed.
  Lemma gfmt_lst level anc ts :
    gfmt level anc (Lst ts) =
    line level [c_lpar] true ++ gitems level (length ts) ts 0%nat true ++
    line level (if anc then [c_rpar] else [c_rpar; c_semi]) true.
  Proof. reflexivity. Qed.
End GF.

Definition llw (v : scalar) : nat := length (FS v).

Lemma gfmt_real level anc t : fmt_tree FS FK level anc t = gfmt FS llw level anc t.
Proof. reflexivity. Qed.

(* the position of a list item does not depend on the leaf text *)
Lemma glist_item_cases ll level first idx len v :
  exists lv pad nl first', forall lf, glist_item lf ll level first idx len v = (line (S lv) (lf v ++ spaces pad) nl, first').
Proof.
  unfold glist_item.
  destruct (Nat.eqb (Nat.modulo (S idx) 10) 0 || Nat.eqb (S idx) len).
  - exists (if first then level else 0%nat), 0%nat, true, true. intros lf. cbn [spaces repeat]. rewrite app_nil_r.
    destruct first; reflexivity.
  - exists (if first then level else 0%nat), (14 - ll v)%nat, false, false. intros lf. destruct first; reflexivity.
Qed.

(* ================================================================================================ *)
(* 2. the abstract body: quoted leaves become holes                                                 *)
(* ================================================================================================ *)

Definition lfa (v : scalar) : str := if simple_leaf v then FS v else [HOLE].
Definition qstr (v : scalar) : list str :=
  if simple_leaf v then [] else [match v with SStr s => s | _ => [] end].
(* the contents of the quoted leaves in document order *)
Fixpoint qstrs (t : tree) : list str :=
  match t with
  | Leaf v => qstr v
  | Dict kvs => (fix go (l : list (key * tree)) : list str :=
                   match l with [] => [] | (_, c) :: l' => qstrs c ++ go l' end) kvs
  | Lst ts => (fix go (l : list tree) : list str :=
                 match l with [] => [] | c :: l' => qstrs c ++ go l' end) ts
  end.
Definition nq (t : tree) : nat := length (qstrs t).

Lemma qstrs_dict_cons k c l : qstrs (Dict ((k, c) :: l)) = qstrs c ++ qstrs (Dict l).
Proof. reflexivity. Qed.
Lemma qstrs_lst_cons c l : qstrs (Lst (c :: l)) = qstrs c ++ qstrs (Lst l).
Proof. reflexivity. Qed.
Lemma nq_dict_cons k c l : nq (Dict ((k, c) :: l)) = (nq c + nq (Dict l))%nat.
Proof. unfold nq. rewrite qstrs_dict_cons. apply app_length. Qed.
Lemma nq_lst_cons c l : nq (Lst (c :: l)) = (nq c + nq (Lst l))%nat.
Proof. unfold nq. rewrite qstrs_lst_cons. apply app_length. Qed.

(* a writable leaf is a bare token or a quoted string *)
Lemma writable_leaf_cases v : writable_leaf v = true ->
  simple_leaf v = true \/ (simple_leaf v = false /\ exists s, v = SStr s /\ qlit s).
Proof.
  unfold writable_leaf. intros H. destruct (simple_leaf v) eqn:E; [left; reflexivity|right].
  split; [reflexivity|]. cbn [orb] in H. destruct v as [z|l|b| |s]; try discriminate H.
  exists s. split; [reflexivity|]. apply andb_true_iff in H. exact H.
Qed.

Lemma qstrs_qlit : forall t, ktree writable_leaf t = true -> Forall qlit (qstrs t).
Proof.
  induction t as [v|kvs IH|ts IH] using tree_ind'; intros H.
  - cbn [ktree] in H. cbn [qstrs]. unfold qstr.
    destruct (writable_leaf_cases v H) as [E|(E & s & -> & Hs)]; rewrite E; [constructor|].
    constructor; [exact Hs|constructor].
  - induction IH as [|[k c] kvs Hc _ IHk]; [constructor|].
    rewrite ktree_dict_cons in H. apply andb_true_iff in H. destruct H as [H H3].
    apply andb_true_iff in H. destruct H as [_ H2]. rewrite qstrs_dict_cons. apply Forall_app.
    split; [exact (Hc H2)|exact (IHk H3)].
  - induction IH as [|c l Hc _ IHl]; [constructor|].
    rewrite ktree_lst_cons in H. apply andb_true_iff in H. destruct H as [H1 H2].
    rewrite qstrs_lst_cons. apply Forall_app. split; [exact (Hc H1)|exact (IHl H2)].
Qed.

Lemma nohole_spaces n : has_char HOLE (spaces n) = false.
Proof. apply tchars_nohole, tc_spaces. Qed.

Lemma exp_plain fs (X Y : list N) : forallb tchar X = true -> expandL fs (X ++ Y) = X ++ expandL fs Y.
Proof. intros H. apply expandL_plain, tchars_nohole. exact H. Qed.

Lemma simple_key_text k : simple_key k = true -> key_text k = FK k /\ forallb tchar (FK k) = true.
Proof.
  intros Hk. destruct (simple_key_inv k Hk) as (Hkt & Hkx & _). split; [exact Hkx|apply simple_tok_tchars; exact Hkt].
Qed.

(* ---- the written body is the abstract body filled with the written literals --------------------- *)
Definition Wd (t : tree) : Prop :=
  ktree writable_leaf t = true -> forall level anc R Y,
  expandL (map format_string (qstrs t) ++ R) (gfmt lfa llw level anc t ++ Y) = gfmt FS llw level anc t ++ expandL R Y.

Lemma Wd_leaf_txt v (X Z : list N) R Y : writable_leaf v = true ->
  forallb tchar X = true -> forallb tchar Z = true ->
  expandL (map format_string (qstr v) ++ R) (X ++ lfa v ++ Z ++ Y) = X ++ FS v ++ Z ++ expandL R Y.
Proof.
  intros Hv HX HZ. unfold qstr, lfa.
  destruct (writable_leaf_cases v Hv) as [E|(E & s & -> & Hs)]; rewrite E.
  - cbn [map app]. rewrite (exp_plain _ X _ HX), (exp_plain _ (FS v)) by (apply simple_tok_tchars; exact E).
    rewrite (exp_plain _ Z _ HZ). reflexivity.
  - cbn [map app FS]. rewrite (exp_plain _ X _ HX). rewrite expandL_hole, (exp_plain _ Z _ HZ). reflexivity.
Qed.

Lemma Wd_entries kvs : Forall (fun kc => Wd (snd kc)) kvs -> ktree writable_leaf (Dict kvs) = true ->
  forall level R Y,
  expandL (map format_string (qstrs (Dict kvs)) ++ R) (gentries lfa llw level kvs ++ Y) =
  gentries FS llw level kvs ++ expandL R Y.
Proof.
  induction 1 as [|[k c] kvs Hc _ IH]; intros Hs level R Y; [reflexivity|].
  rewrite ktree_dict_cons in Hs. apply andb_true_iff in Hs. destruct Hs as [Hs Hs3].
  apply andb_true_iff in Hs. destruct Hs as [Hs1 Hs2].
  destruct (simple_key_text k Hs1) as [Hkx Hkc].
  cbn [snd] in Hc. specialize (Hc Hs2).
  rewrite qstrs_dict_cons, map_app, <- app_assoc. cbn [gentries].
  destruct c as [v|d|ts].
  - cbn zeta. cbn [qstrs ktree] in *. unfold line, indent_of. rewrite <- !app_assoc.
    rewrite (app_assoc (spaces (4 * level)) (FK k)), (app_assoc (spaces (4 * level) ++ FK k)).
    rewrite (app_assoc (spaces (4 * level)) (FK k)), (app_assoc (spaces (4 * level) ++ FK k)).
    change ([c_semi] ++ [c_lf] ++ ?x) with ([c_semi; c_lf] ++ x).
    rewrite (Wd_leaf_txt v _ [c_semi; c_lf] _ _ Hs2).
    + rewrite (IH Hs3). reflexivity.
    + apply tc_app; [apply tc_app; [apply tc_spaces|exact Hkc]|apply tc_spaces].
    + reflexivity.
  - rewrite Hkx. rewrite <- !app_assoc.
    rewrite (exp_plain _ (line level (FK k) true)) by (apply tc_line; exact Hkc).
    rewrite (exp_plain _ (line level [c_lbrace] true)) by (apply tc_line; reflexivity).
    rewrite (Hc (S level) false). rewrite (exp_plain _ (line level [c_rbrace] true)) by (apply tc_line; reflexivity).
    rewrite (IH Hs3). reflexivity.
  - rewrite Hkx. rewrite <- !app_assoc.
    rewrite (exp_plain _ (line level (FK k) true)) by (apply tc_line; exact Hkc).
    rewrite (Hc level false). rewrite (IH Hs3). reflexivity.
Qed.

Lemma Wd_items ts : Forall Wd ts -> ktree writable_leaf (Lst ts) = true ->
  forall level len idx first R Y,
  expandL (map format_string (qstrs (Lst ts)) ++ R) (gitems lfa llw level len ts idx first ++ Y) =
  gitems FS llw level len ts idx first ++ expandL R Y.
Proof.
  induction 1 as [|c l Hc _ IH]; intros Hs level len idx first R Y; [reflexivity|].
  rewrite ktree_lst_cons in Hs. apply andb_true_iff in Hs. destruct Hs as [Hs1 Hs2].
  specialize (Hc Hs1). rewrite qstrs_lst_cons, map_app, <- app_assoc. cbn [gitems].
  destruct c as [v|d|ts'].
  - destruct (glist_item_cases llw level first idx len v) as (lv & pad & nl & f' & E). rewrite !E.
    cbn [qstrs ktree] in *. unfold line, indent_of. rewrite <- !app_assoc.
    rewrite (Wd_leaf_txt v (spaces (4 * S lv)) (spaces pad) _ _ Hs1 (tc_spaces _) (tc_spaces _)).
    rewrite (exp_plain _ (if nl then [c_lf] else [])) by (destruct nl; reflexivity).
    rewrite (IH Hs2). reflexivity.
  - rewrite <- !app_assoc.
    rewrite (exp_plain _ (line (S level) [] true)) by (apply tc_line; reflexivity).
    rewrite (exp_plain _ (line (S level) [c_lbrace] true)) by (apply tc_line; reflexivity).
    rewrite (Hc (S (S level)) false).
    rewrite (exp_plain _ (line (S level) [c_rbrace] true)) by (apply tc_line; reflexivity).
    rewrite (IH Hs2). reflexivity.
  - rewrite <- !app_assoc. rewrite (Hc (S level) true). rewrite (IH Hs2). reflexivity.
Qed.

Lemma Wd_all : forall t, Wd t.
Proof.
  induction t as [v|kvs IH|ts IH] using tree_ind'; intros Hs level anc R Y.
  - cbn [gfmt qstrs ktree] in *.
    pose proof (Wd_leaf_txt v [] [] R Y Hs eq_refl eq_refl) as H. cbn [app] in H. exact H.
  - rewrite !gfmt_dict. apply Wd_entries; assumption.
  - rewrite !gfmt_lst. rewrite <- !app_assoc.
    rewrite (exp_plain _ (line level [c_lpar] true)) by (apply tc_line; reflexivity).
    rewrite (Wd_items ts IH Hs).
    rewrite (exp_plain _ (line level _ true)) by (apply tc_line; destruct anc; reflexivity).
    reflexivity.
Qed.

(* ---- characters and holes of the abstract body -------------------------------------------------- *)
Definition aok (n : nat) (A : list N) : Prop := forallb achar A = true /\ nh A = n.

Lemma aok_app n m (A B : list N) : aok n A -> aok m B -> aok (n + m) (A ++ B).
Proof. intros [A1 A2] [B1 B2]. split; [rewrite forallb_app, A1, B1; reflexivity|rewrite nh_app, A2, B2; reflexivity]. Qed.

Lemma aok_plain (X : list N) : forallb tchar X = true -> aok 0 X.
Proof.
  intros H. split; [|apply nh_plain, tchars_nohole; exact H].
  apply forallb_forall. intros c Hc. unfold achar. rewrite (forallb_In _ _ _ H Hc). reflexivity.
Qed.

Lemma aok_plain_app n (X A : list N) : forallb tchar X = true -> aok n A -> aok n (X ++ A).
Proof. intros HX HA. exact (aok_app 0 n X A (aok_plain X HX) HA). Qed.

Lemma aok_leaf v : writable_leaf v = true -> aok (length (qstr v)) (lfa v).
Proof.
  intros Hv. unfold qstr, lfa. destruct (writable_leaf_cases v Hv) as [E|(E & s & -> & Hs)]; rewrite E.
  - apply aok_plain. apply simple_tok_tchars. exact E.
  - split; reflexivity.
Qed.

Definition Qa (t : tree) : Prop :=
  ktree writable_leaf t = true -> forall level anc, aok (nq t) (gfmt lfa llw level anc t).

Lemma Qa_entries kvs : Forall (fun kc => Qa (snd kc)) kvs -> ktree writable_leaf (Dict kvs) = true ->
  forall level, aok (nq (Dict kvs)) (gentries lfa llw level kvs).
Proof.
  induction 1 as [|[k c] kvs Hc _ IH]; intros Hs level; [split; reflexivity|].
  rewrite ktree_dict_cons in Hs. apply andb_true_iff in Hs. destruct Hs as [Hs Hs3].
  apply andb_true_iff in Hs. destruct Hs as [Hs1 Hs2].
  destruct (simple_key_text k Hs1) as [Hkx Hkc].
  cbn [snd] in Hc. specialize (Hc Hs2). rewrite nq_dict_cons. cbn [gentries].
  apply aok_app; [|exact (IH Hs3 level)].
  destruct c as [v|d|ts].
  - cbn zeta. unfold line, indent_of. apply aok_plain_app; [apply tc_spaces|].
    rewrite <- !app_assoc. apply aok_plain_app; [exact Hkc|]. apply aok_plain_app; [apply tc_spaces|].
    replace (nq (Leaf v)) with (length (qstr v) + 0)%nat by (unfold nq; cbn [qstrs]; lia).
    apply aok_app; [apply aok_leaf; exact Hs2|]. apply aok_plain. reflexivity.
  - rewrite Hkx. apply aok_plain_app; [apply tc_line; exact Hkc|].
    apply aok_plain_app; [apply tc_line; reflexivity|].
    replace (nq (Dict d)) with (nq (Dict d) + 0)%nat by lia.
    apply aok_app; [apply Hc|]. apply aok_plain. apply tc_line. reflexivity.
  - rewrite Hkx. apply aok_plain_app; [apply tc_line; exact Hkc|]. apply Hc.
Qed.

Lemma Qa_items ts : Forall Qa ts -> ktree writable_leaf (Lst ts) = true ->
  forall level len idx first, aok (nq (Lst ts)) (gitems lfa llw level len ts idx first).
Proof.
  induction 1 as [|c l Hc _ IH]; intros Hs level len idx first; [split; reflexivity|].
  rewrite ktree_lst_cons in Hs. apply andb_true_iff in Hs. destruct Hs as [Hs1 Hs2].
  specialize (Hc Hs1). rewrite nq_lst_cons. cbn [gitems].
  destruct c as [v|d|ts'].
  - destruct (glist_item_cases llw level first idx len v) as (lv & pad & nl & f' & E). rewrite E.
    apply aok_app; [|apply IH; exact Hs2].
    unfold line, indent_of. apply aok_plain_app; [apply tc_spaces|]. rewrite <- !app_assoc.
    replace (nq (Leaf v)) with (length (qstr v) + 0)%nat by (unfold nq; cbn [qstrs]; lia).
    apply aok_app; [apply aok_leaf; exact Hs1|]. apply aok_plain.
    apply tc_app; [apply tc_spaces|destruct nl; reflexivity].
  - apply aok_plain_app; [apply tc_line; reflexivity|].
    apply aok_plain_app; [apply tc_line; reflexivity|].
    apply aok_app; [apply Hc|]. apply aok_plain_app; [apply tc_line; reflexivity|]. apply IH. exact Hs2.
  - apply aok_app; [apply Hc|apply IH; exact Hs2].
Qed.

Lemma Qa_all : forall t, Qa t.
Proof.
  induction t as [v|kvs IH|ts IH] using tree_ind'; intros Hs level anc.
  - cbn [gfmt ktree] in *. unfold nq. cbn [qstrs]. apply aok_leaf. exact Hs.
  - rewrite gfmt_dict. apply Qa_entries; assumption.
  - rewrite gfmt_lst. apply aok_plain_app; [apply tc_line; reflexivity|].
    replace (nq (Lst ts)) with (nq (Lst ts) + 0)%nat by lia.
    apply aok_app; [apply Qa_items; assumption|]. apply aok_plain. apply tc_line. destruct anc; reflexivity.
Qed.

(* ---- first and last visible character of the abstract body -------------------------------------- *)
Lemma gentries_end lf ll level kvs : kvs <> [] -> ends_delim (gentries lf ll level kvs).
Proof.
  induction kvs as [|[k c] kvs IH]; intros Hne; [congruence|]. cbn [gentries].
  destruct kvs as [|kc kvs'].
  - cbn [gentries]. rewrite app_nil_r. destruct c as [v|d|ts].
    + cbn zeta. rewrite !app_assoc. apply ends_delim_line. reflexivity.
    + apply ends_delim_app. apply ends_delim_app. apply ends_delim_app.
      apply (ends_delim_line level [] c_rbrace). reflexivity.
    + apply ends_delim_app. rewrite gfmt_lst. apply ends_delim_app. apply ends_delim_app.
      apply (ends_delim_line level [c_rpar] c_semi). reflexivity.
  - apply ends_delim_app. apply IH. discriminate.
Qed.

Lemma gentries_head lf ll k c kvs : simple_key k = true ->
  exists h r, gentries lf ll 0 ((k, c) :: kvs) = h :: r /\ simple_char h = true.
Proof.
  intros Hk. destruct (simple_key_inv k Hk) as (Hkt & Hkx & _).
  destruct (simple_tok_inv _ Hkt) as (Hne & Hc & _).
  destruct (FK k) as [|h x] eqn:E; [congruence|].
  cbn [forallb] in Hc. apply andb_true_iff in Hc. destruct Hc as [Hh _].
  cbn [gentries]. destruct c as [v|d|ts].
  - cbn zeta. rewrite E. unfold line, indent_of. cbn [Nat.mul spaces repeat app]. eexists. eexists. split; [reflexivity|exact Hh].
  - rewrite Hkx. unfold line at 1, indent_of. cbn [Nat.mul spaces repeat app]. eexists. eexists. split; [reflexivity|exact Hh].
  - rewrite Hkx. unfold line at 1, indent_of. cbn [Nat.mul spaces repeat app]. eexists. eexists. split; [reflexivity|exact Hh].
Qed.

(* ================================================================================================ *)
(* 3. the placeholder document: quoted leaves relabelled with their placeholders                    *)
(* ================================================================================================ *)

Definition phk (s : str) : N := dec_to_N (drop_n 13 s).
Definition is_lab (v : scalar) : bool :=
  match v with SStr s => str_eqb s (PH (phk s)) && (phk s <? 1000000) | _ => false end.
Definition lab_text (v : scalar) : str := match v with SStr s => s | _ => [120] end.
(* total token and value functions for TRK *)
Definition ltL (v : scalar) : str := if simple_leaf v then FS v else if is_lab v then lab_text v else [120].
Definition nvL (v : scalar) : scalar := if simple_leaf v then norm_scalar v else if is_lab v then v else SStr [120].

Definition lleaf (ks : list N) (v : scalar) : scalar := if simple_leaf v then v else SStr (PH (hd 0 ks)).
Fixpoint label (ks : list N) (t : tree) {struct t} : tree :=
  match t with
  | Leaf v => Leaf (lleaf ks v)
  | Dict kvs => Dict ((fix go (ks : list N) (l : list (key * tree)) {struct l} : list (key * tree) :=
                         match l with [] => [] | (k, c) :: l' => (k, label ks c) :: go (skipn (nq c) ks) l' end) ks kvs)
  | Lst ts => Lst ((fix go (ks : list N) (l : list tree) {struct l} : list tree :=
                      match l with [] => [] | c :: l' => label ks c :: go (skipn (nq c) ks) l' end) ks ts)
  end.
Fixpoint labelD (ks : list N) (l : list (key * tree)) : list (key * tree) :=
  match l with [] => [] | (k, c) :: l' => (k, label ks c) :: labelD (skipn (nq c) ks) l' end.
Fixpoint labelL (ks : list N) (l : list tree) : list tree :=
  match l with [] => [] | c :: l' => label ks c :: labelL (skipn (nq c) ks) l' end.
Lemma label_dict ks kvs : label ks (Dict kvs) = Dict (labelD ks kvs).
Proof. reflexivity. Qed.
Lemma label_lst ks ts : label ks (Lst ts) = Lst (labelL ks ts).
Proof. reflexivity. Qed.

Lemma skipn_add {A} a b (l : list A) : skipn a (skipn b l) = skipn (b + a) l.
Proof.
  revert l. induction b as [|b IH]; intros l; [reflexivity|]. destruct l as [|x l]; [rewrite !skipn_nil; reflexivity|].
  cbn [skipn Nat.add]. apply IH.
Qed.

(* ---- the placeholder as a token ------------------------------------------------------------------ *)
Lemma W_length : length w_STRINGLITERAL = 13%nat. Proof. reflexivity. Qed.

Lemma phk_PH k : phk (PH k) = k.
Proof.
  unfold phk, PH, placeholder. rewrite <- W_length, drop_n_app. apply dec_to_N_pad6.
Qed.

Lemma lab_PH k : k < 1000000 -> is_lab (SStr (PH k)) = true.
Proof.
  intros Hk. unfold is_lab. rewrite phk_PH, ScalarProofs.str_eqb_refl. cbn [andb]. apply N.ltb_lt. exact Hk.
Qed.

Lemma is_lab_inv v : is_lab v = true -> exists k, v = SStr (PH k) /\ k < 1000000.
Proof.
  destruct v as [z|l|b| |s]; try discriminate. unfold is_lab. intros H. apply andb_true_iff in H. destruct H as [H1 H2].
  apply SDictProofs.str_eqb_eq in H1. apply N.ltb_lt in H2. exists (phk s). split; [f_equal; exact H1|exact H2].
Qed.

Lemma contains_refl_app (p t : list N) : p <> [] -> contains p (p ++ t) = true.
Proof.
  intros Hp. destruct p as [|x p]; [congruence|]. change ((x :: p) ++ t) with (x :: (p ++ t)). cbn [contains].
  change (x :: p ++ t) with ((x :: p) ++ t). rewrite starts_with_app. reflexivity.
Qed.

Lemma contains_cons (p : list N) x (s : list N) : contains p s = true -> contains p (x :: s) = true.
Proof. intros H. cbn [contains]. rewrite H. apply orb_true_r. Qed.

Lemma starts_with_app_r (p : list N) : forall s b : list N, starts_with p s = true -> starts_with p (s ++ b) = true.
Proof.
  induction p as [|x p IH]; intros s b H; [reflexivity|]. destruct s as [|y s]; [discriminate H|].
  cbn [app starts_with] in *. apply andb_true_iff in H. rewrite (proj1 H), (IH s b (proj2 H)). reflexivity.
Qed.

Lemma contains_app_l (p s b : list N) : contains p s = true -> contains p (s ++ b) = true.
Proof.
  induction s as [|x s IH]; intros H.
  - cbn [contains] in H. destruct p; [|discriminate H]. destruct b; reflexivity.
  - cbn [app contains] in *. apply orb_true_iff in H. destruct H as [H|H].
    + change (x :: s ++ b) with ((x :: s) ++ b). rewrite (starts_with_app_r p (x :: s) b H). reflexivity.
    + rewrite (IH H). apply orb_true_r.
Qed.

Lemma PH_has_W k : contains w_STRINGLITERAL (PH k) = true.
Proof. unfold PH, placeholder. apply contains_refl_app. discriminate. Qed.

Lemma format_string_has (w s : list N) : contains w s = true -> contains w (format_string s) = true.
Proof.
  intros H. unfold format_string.
  destruct (classify_string s); try exact H; unfold sq, dq; apply contains_cons, contains_app_l; exact H.
Qed.

Lemma simple_PH k : simple_leaf (SStr (PH k)) = false.
Proof.
  unfold simple_leaf, simple_tok. cbn [FS]. destruct (no_reserved_word (format_string (PH k))) eqn:E; [|apply andb_false_r].
  exfalso. unfold no_reserved_word in E. apply andb_true_iff in E. destruct E as [_ E]. apply negb_true_iff in E.
  rewrite (format_string_has _ _ (PH_has_W k)) in E. discriminate E.
Qed.

Lemma ltL_PH k : k < 1000000 -> ltL (SStr (PH k)) = PH k.
Proof. intros Hk. unfold ltL. rewrite simple_PH, (lab_PH k Hk). reflexivity. Qed.
Lemma nvL_PH k : k < 1000000 -> nvL (SStr (PH k)) = SStr (PH k).
Proof. intros Hk. unfold nvL. rewrite simple_PH, (lab_PH k Hk). reflexivity. Qed.

Lemma PH_cons k : exists r, PH k = 83 :: r.
Proof. unfold PH, placeholder. eexists. reflexivity. Qed.

Lemma PH_word k : word_lexeme (PH k).
Proof.
  destruct (PH_cons k) as [r E]. split; [rewrite E; discriminate|].
  apply Forall_forall. intros c Hc. apply simple_char_word. exact (forallb_In _ _ _ (PH_simple k) Hc).
Qed.

Lemma contains_head_In (x : N) (p s : list N) : contains (x :: p) s = true -> In x s.
Proof.
  induction s as [|y s IH]; intros H; [discriminate H|]. cbn [contains] in H. apply orb_true_iff in H.
  destruct H as [H|H]; [|right; exact (IH H)]. cbn [starts_with] in H. apply andb_true_iff in H.
  left. symmetry. apply N.eqb_eq. exact (proj1 H).
Qed.

Lemma PH_chars k c : In c (PH k) -> In c w_STRINGLITERAL \/ is_digit c = true.
Proof.
  unfold PH, placeholder. intros H. apply in_app_or in H. destruct H as [H|H]; [left; exact H|right].
  exact (forallb_In _ _ _ (pad6_digits k) H).
Qed.

Lemma PH_no_comment k : contains w_COMMENT (PH k) = false.
Proof.
  destruct (contains w_COMMENT (PH k)) eqn:E; [|reflexivity]. exfalso.
  apply contains_head_In in E. apply PH_chars in E. destruct E as [E|E]; [|discriminate E].
  cbn in E. repeat (destruct E as [E|E]; [discriminate E|]). exact E.
Qed.

Lemma starts_with_digits_tail (p d : list N) x : forallb is_digit d = true -> is_digit x = false ->
  contains (x :: p) d = false.
Proof.
  intros Hd Hx. destruct (contains (x :: p) d) eqn:E; [|reflexivity]. apply contains_head_In in E.
  rewrite (forallb_In _ _ _ Hd E) in Hx. discriminate Hx.
Qed.

Lemma PH_no_include k : contains w_INCLUDE (PH k) = false.
Proof.
  unfold PH, placeholder. pose proof (pad6_digits k) as Hd. generalize dependent (pad6 k). intros d Hd.
  cbn [w_STRINGLITERAL w_INCLUDE of_string app contains starts_with Ascii.N_of_ascii Ascii.N_of_digits N.eqb Pos.eqb andb orb N.add N.mul Pos.add Pos.mul Pos.succ].
  apply (starts_with_digits_tail _ d _ Hd). reflexivity.
Qed.

Lemma plain_PH k : plain_token (PH k) = true.
Proof.
  destruct (PH_cons k) as [r E].
  assert (Hs : simple_char 83 = true) by reflexivity.
  pose proof (simple_not_struct 83 r Hs) as (B1 & B2 & B3).
  assert (A1 : is_open (PH k) = false) by (rewrite E; exact B1).
  assert (A2 : is_close (PH k) = false) by (rewrite E; exact B2).
  assert (A3 : str_eqb (PH k) t_semi = false) by (rewrite E; exact B3).
  unfold plain_token, is_comment_tok, is_include_tok. rewrite PH_no_comment, PH_no_include, A1, A2, A3. rewrite E. reflexivity.
Qed.

Lemma rstrip_nonspace_last (r : list N) e : is_space e = false -> rstrip (r ++ [e]) = r ++ [e].
Proof. intros He. apply (rstrip_unique _ _ []); [rewrite app_nil_r; reflexivity|constructor|]. right. exists r, e. split; [reflexivity|exact He]. Qed.

Lemma parse_PH k : parse_value (PH k) = Ok (SStr (PH k)).
Proof.
  assert (Hnq : ScalarProofs.noquote (PH k)).
  { apply Forall_forall. intros c Hc. pose proof (forallb_In _ _ _ (PH_simple k) Hc) as H. tch. }
  assert (Hlast : exists r e, PH k = r ++ [e] /\ is_space e = false).
  { unfold PH, placeholder, pad6.
    destruct (ScalarProofs.N_to_dec_spec k) as [[Hd Hne] _].
    destruct (exists_last Hne) as (d' & e & Ed). rewrite Ed.
    exists (w_STRINGLITERAL ++ repeat 48 (6 - length (d' ++ [e])) ++ d'), e. split; [rewrite <- !app_assoc; reflexivity|].
    unfold TypeTable.digits in Hd. rewrite Forall_forall in Hd.
    assert (He : is_digit e = true) by (apply Hd; rewrite Ed; apply in_or_app; right; left; reflexivity).
    uc. lia. }
  destruct Hlast as (r0 & e & E0 & He).
  assert (Hstrip : strip (PH k) = PH k).
  { unfold strip. destruct (PH_cons k) as [r E]. rewrite E. cbn [lstrip]. replace (is_space 83) with false by reflexivity.
    rewrite <- E, E0. apply rstrip_nonspace_last. exact He. }
  unfold parse_value. rewrite (ScalarProofs.remove_quotes_noquote _ Hnq), Hstrip.
  destruct (PH_cons k) as [r E]. rewrite E. reflexivity.
Qed.

Lemma HltL : forall v, plain_token (ltL v) = true /\ parse_value (ltL v) = Ok (nvL v).
Proof.
  intros v. unfold ltL, nvL. destruct (simple_leaf v) eqn:E.
  - split; [apply plain_simple; exact E|apply parse_norm].
  - destruct (is_lab v) eqn:El; [|split; reflexivity].
    destruct (is_lab_inv v El) as (k & -> & Hk). cbn [lab_text]. split; [apply plain_PH|apply parse_PH].
Qed.

(* ---- scanning the placeholder text --------------------------------------------------------------- *)
Notation entriesL := (TokProofs.entries ltL ktS).
Notation itemsL := (TokProofs.items ltL ktS).

Definition small (ks : list N) : Prop := Forall (fun k => k < 1000000) ks.

Lemma lleaf_word v ks : writable_leaf v = true -> (length (qstr v) <= length ks)%nat -> small ks ->
  word_lexeme (ltL (lleaf ks v)).
Proof.
  intros Hv Hn Hks. unfold lleaf, qstr in *. destruct (writable_leaf_cases v Hv) as [E|(E & s & -> & Hs)]; rewrite E in *.
  - unfold ltL. rewrite E. apply simple_tok_word. exact E.
  - destruct ks as [|k ks]; [cbn [length] in Hn; lia|]. inversion Hks as [|k' ks' Hk _]; subst.
    cbn [hd]. rewrite (ltL_PH k Hk). apply PH_word.
Qed.

Lemma M_leaf_txt v (X Z : list N) ks Y : writable_leaf v = true ->
  forallb tchar X = true -> forallb tchar Z = true -> (length (qstr v) <= length ks)%nat -> small ks ->
  expandL (map PH ks) (X ++ lfa v ++ Z ++ Y) =
  X ++ ltL (lleaf ks v) ++ Z ++ expandL (map PH (skipn (length (qstr v)) ks)) Y.
Proof.
  intros Hv HX HZ Hn Hks. unfold qstr, lfa, lleaf in *.
  destruct (writable_leaf_cases v Hv) as [E|(E & s & -> & Hs)]; rewrite E in *.
  - cbn [length skipn]. unfold ltL. rewrite E.
    rewrite (exp_plain _ X _ HX), (exp_plain _ (FS v)) by (apply simple_tok_tchars; exact E).
    rewrite (exp_plain _ Z _ HZ). reflexivity.
  - destruct ks as [|k ks]; [cbn [length] in Hn; lia|]. inversion Hks as [|k' ks' Hk _]; subst.
    cbn [length skipn hd map]. rewrite (ltL_PH k Hk).
    rewrite (exp_plain _ X _ HX). cbn [app]. rewrite expandL_hole, (exp_plain _ Z _ HZ). reflexivity.
Qed.

Lemma ktS_simple k : simple_key k = true -> ktS k = FK k.
Proof. intros H. unfold ktS. rewrite H. reflexivity. Qed.

Definition Mt (t : tree) : Prop :=
  ktree writable_leaf t = true -> forall level anc ks rest, (nq t <= length ks)%nat -> small ks ->
  match t with
  | Leaf _ => True
  | Dict kvs => toks_go [] (expandL (map PH ks) (gfmt lfa llw level anc t ++ rest)) =
                entriesL (labelD ks kvs) ++ toks_go [] (expandL (map PH (skipn (nq t) ks)) rest)
  | Lst ts => toks_go [] (expandL (map PH ks) (gfmt lfa llw level anc t ++ rest)) =
              t_lpar :: itemsL (labelL ks ts) ++ t_rpar :: (if anc then [] else [t_semi]) ++
              toks_go [] (expandL (map PH (skipn (nq t) ks)) rest)
  end.

Lemma entriesL_cons kc kvs : entriesL (kc :: kvs) = TokProofs.entry_toks ltL ktS kc ++ entriesL kvs.
Proof. reflexivity. Qed.
Lemma itemsL_cons c l : itemsL (c :: l) = toks_tree ltL ktS true c ++ itemsL l.
Proof. reflexivity. Qed.

Lemma small_skipn n ks : small ks -> small (skipn n ks).
Proof. apply Forall_skipn. Qed.

Lemma M_entries kvs : Forall (fun kc => Mt (snd kc)) kvs -> ktree writable_leaf (Dict kvs) = true ->
  forall level ks rest, (nq (Dict kvs) <= length ks)%nat -> small ks ->
  toks_go [] (expandL (map PH ks) (gentries lfa llw level kvs ++ rest)) =
  entriesL (labelD ks kvs) ++ toks_go [] (expandL (map PH (skipn (nq (Dict kvs)) ks)) rest).
Proof.
  induction 1 as [|[k c] kvs Hc _ IH]; intros Hs level ks rest Hn Hks; [reflexivity|].
  rewrite ktree_dict_cons in Hs. apply andb_true_iff in Hs. destruct Hs as [Hs Hs3].
  apply andb_true_iff in Hs. destruct Hs as [Hs1 Hs2].
  destruct (simple_key_text k Hs1) as [Hkx Hkc].
  destruct (simple_key_inv k Hs1) as (Hkt & _).
  pose proof (simple_tok_word _ Hkt) as Hkw.
  cbn [snd] in Hc. specialize (Hc Hs2).
  rewrite nq_dict_cons in Hn.
  assert (Hn2 : (nq (Dict kvs) <= length (skipn (nq c) ks))%nat) by (rewrite skipn_length; lia).
  pose proof (small_skipn (nq c) ks Hks) as Hks2.
  rewrite nq_dict_cons, <- skipn_add.
  cbn [labelD]. rewrite entriesL_cons. cbn [gentries]. unfold TokProofs.entry_toks. cbn [fst snd].
  rewrite (ktS_simple k Hs1).
  destruct c as [v|d|ts].
  - cbn zeta. cbn [ktree] in Hs2. cbn [label]. unfold line, indent_of. rewrite <- !app_assoc.
    rewrite (app_assoc (spaces (4 * level)) (FK k)), (app_assoc (spaces (4 * level) ++ FK k)).
    change ([c_semi] ++ [c_lf] ++ ?x) with ([c_semi; c_lf] ++ x).
    assert (Hn1 : (length (qstr v) <= length ks)%nat) by (unfold nq in Hn; cbn [qstrs] in Hn; lia).
    rewrite (M_leaf_txt v _ [c_semi; c_lf] ks _ Hs2); [| |reflexivity|exact Hn1|exact Hks].
    2:{ apply tc_app; [apply tc_app; [apply tc_spaces|exact Hkc]|apply tc_spaces]. }
    pose proof (tk_line_kv level (FK k) (ltL (lleaf ks v))
                  (expandL (map PH (skipn (length (qstr v)) ks)) (gentries lfa llw level kvs ++ rest))
                  (Nat.max 8 (30 - length (FK k) - 4 * level)) Hkw (lleaf_word v ks Hs2 Hn1 Hks) ltac:(lia)) as Htk.
    unfold line, indent_of in Htk. rewrite <- !app_assoc in Htk. cbn [app] in Htk. cbn [app].
    rewrite <- !app_assoc. rewrite Htk. cbn [app].
    change (length (qstr v)) with (nq (Leaf v)). rewrite (IH Hs3 level _ rest Hn2 Hks2). reflexivity.
  - rewrite Hkx. rewrite <- !app_assoc.
    rewrite (exp_plain _ (line level (FK k) true)) by (apply tc_line; exact Hkc).
    rewrite (exp_plain _ (line level [c_lbrace] true)) by (apply tc_line; reflexivity).
    rewrite (tk_line_word level _ _ Hkw), (tk_line_delim level c_lbrace _ eq_refl).
    rewrite (Hc (S level) false ks _ ltac:(lia) Hks).
    rewrite (exp_plain _ (line level [c_rbrace] true)) by (apply tc_line; reflexivity).
    rewrite (tk_line_delim level c_rbrace _ eq_refl).
    rewrite (IH Hs3 level _ rest Hn2 Hks2).
    rewrite label_dict, TokProofs.toks_dict. cbn [app]. rewrite app_nil_r.
    repeat rewrite <- app_assoc. reflexivity.
  - rewrite Hkx. rewrite <- !app_assoc.
    rewrite (exp_plain _ (line level (FK k) true)) by (apply tc_line; exact Hkc).
    rewrite (tk_line_word level _ _ Hkw).
    rewrite (Hc level false ks _ ltac:(lia) Hks). rewrite (IH Hs3 level _ rest Hn2 Hks2).
    rewrite label_lst, TokProofs.toks_lst. cbn [app]. rewrite <- !app_assoc. reflexivity.
Qed.

Lemma brk_exp_space fs n (X : list N) : brk (expandL fs (spaces (S n) ++ X)).
Proof. cbn [spaces repeat app]. rewrite expandL_char by reflexivity. left. reflexivity. Qed.

Lemma gitems_brk fs level len l idx first (rest : list N) : (l = [] -> brk (expandL fs rest)) ->
  brk (expandL fs (gitems lfa llw level len l idx first ++ rest)).
Proof.
  intros Hr. destruct l as [|c l]; [exact (Hr eq_refl)|]. cbn [gitems]. destruct c as [v|d|ts].
  - destruct (glist_item_cases llw level first idx len v) as (lv & pad & nl & f' & E). rewrite E.
    unfold line, indent_of. rewrite <- !app_assoc. replace (4 * S lv)%nat with (S (3 + 4 * lv)) by lia. apply brk_exp_space.
  - unfold line at 1, indent_of. rewrite <- !app_assoc. replace (4 * S level)%nat with (S (3 + 4 * level)) by lia. apply brk_exp_space.
  - rewrite gfmt_lst. unfold line at 1, indent_of. rewrite <- !app_assoc. replace (4 * S level)%nat with (S (3 + 4 * level)) by lia. apply brk_exp_space.
Qed.

Lemma M_items ts : Forall Mt ts -> ktree writable_leaf (Lst ts) = true ->
  forall level len idx first ks rest, (nq (Lst ts) <= length ks)%nat -> small ks ->
  brk (expandL (map PH (skipn (nq (Lst ts)) ks)) rest) ->
  toks_go [] (expandL (map PH ks) (gitems lfa llw level len ts idx first ++ rest)) =
  itemsL (labelL ks ts) ++ toks_go [] (expandL (map PH (skipn (nq (Lst ts)) ks)) rest).
Proof.
  induction 1 as [|c l Hc _ IH]; intros Hs level len idx first ks rest Hn Hks Hr; [reflexivity|].
  rewrite ktree_lst_cons in Hs. apply andb_true_iff in Hs. destruct Hs as [Hs1 Hs2].
  specialize (Hc Hs1).
  rewrite nq_lst_cons in Hn.
  assert (Hn2 : (nq (Lst l) <= length (skipn (nq c) ks))%nat) by (rewrite skipn_length; lia).
  pose proof (small_skipn (nq c) ks Hks) as Hks2.
  rewrite nq_lst_cons, <- skipn_add in *.
  cbn [labelL]. rewrite itemsL_cons. cbn [gitems].
  destruct c as [v|d|ts'].
  - destruct (glist_item_cases llw level first idx len v) as (lv & pad & nl & f' & E). rewrite E.
    cbn [ktree] in Hs1. cbn [label toks_tree app].
    assert (Hn1 : (length (qstr v) <= length ks)%nat) by (unfold nq in Hn; cbn [qstrs] in Hn; lia).
    pose proof (lleaf_word v ks Hs1 Hn1 Hks) as Hw.
    change (nq (Leaf v)) with (length (qstr v)) in *.
    assert (Hb : brk (expandL (map PH (skipn (length (qstr v)) ks)) (gitems lfa llw level len l (S idx) f' ++ rest))).
    { apply gitems_brk. intros ->. exact Hr. }
    rewrite <- (IH Hs2 level len (S idx) f' _ rest Hn2 Hks2 Hr).
    unfold line, indent_of. rewrite <- !app_assoc.
    rewrite (M_leaf_txt v (spaces (4 * S lv)) (spaces pad) ks _ Hs1 (tc_spaces _) (tc_spaces _) Hn1 Hks).
    rewrite (exp_plain _ (if nl then [c_lf] else [])) by (destruct nl; reflexivity).
    rewrite (toks_go_ws _ _ (ws_spaces _)).
    rewrite (word_then_brk _ _ Hw).
    + rewrite (toks_go_ws _ _ (ws_spaces _)). destruct nl; reflexivity.
    + destruct pad as [|pad]; [|apply brk_spaces_S]. cbn [spaces repeat app].
      destruct nl; [apply brk_lf|exact Hb].
  - rewrite <- !app_assoc.
    rewrite (exp_plain _ (line (S level) [] true)) by (apply tc_line; reflexivity).
    rewrite (exp_plain _ (line (S level) [c_lbrace] true)) by (apply tc_line; reflexivity).
    rewrite tk_line_empty, (tk_line_delim _ c_lbrace _ eq_refl).
    rewrite (Hc (S (S level)) false ks _ ltac:(lia) Hks).
    rewrite (exp_plain _ (line (S level) [c_rbrace] true)) by (apply tc_line; reflexivity).
    rewrite (tk_line_delim _ c_rbrace _ eq_refl).
    rewrite (IH Hs2 level len (S idx) true _ rest Hn2 Hks2 Hr).
    rewrite label_dict, TokProofs.toks_dict. cbn [app]. rewrite <- !app_assoc. reflexivity.
  - rewrite <- !app_assoc. rewrite (Hc (S level) true ks _ ltac:(lia) Hks).
    rewrite (IH Hs2 level len (S idx) first _ rest Hn2 Hks2 Hr).
    rewrite label_lst, TokProofs.toks_lst. cbn [app]. rewrite <- !app_assoc. reflexivity.
Qed.

Lemma Mt_all : forall t, Mt t.
Proof.
  induction t as [v|kvs IH|ts IH] using tree_ind'; intros Hs level anc ks rest Hn Hks.
  - exact I.
  - rewrite gfmt_dict. apply M_entries; assumption.
  - rewrite gfmt_lst. rewrite <- !app_assoc.
    rewrite (exp_plain _ (line level [c_lpar] true)) by (apply tc_line; reflexivity).
    rewrite (tk_line_delim level c_lpar _ eq_refl).
    assert (Hcl : forall fs, expandL fs (line level (if anc then [c_rpar] else [c_rpar; c_semi]) true ++ rest) =
                             line level (if anc then [c_rpar] else [c_rpar; c_semi]) true ++ expandL fs rest).
    { intros fs. apply exp_plain. apply tc_line. destruct anc; reflexivity. }
    rewrite (M_items ts IH Hs level (length ts) 0%nat true ks _ Hn Hks).
    + rewrite Hcl, tk_line_close. reflexivity.
    + rewrite Hcl. apply brk_close.
Qed.

(* ================================================================================================ *)
(* 4. the lexer on the written text                                                                 *)
(* ================================================================================================ *)

Lemma sort_top_keys kvs : (forall kc, In kc kvs -> simple_key (fst kc) = true) -> sort_top kvs = kvs.
Proof.
  intros Hk. unfold sort_top.
  rewrite (filter_none (fun kv => is_block_key (fst kv))).
  2:{ intros kc Hin. exact (proj1 (simple_key_unsorted _ (Hk kc Hin))). }
  rewrite (filter_none (fun kv => is_include_key (fst kv))).
  2:{ intros kc Hin. exact (proj2 (simple_key_unsorted _ (Hk kc Hin))). }
  cbn [aupdate fold_left app]. apply filter_all. intros kc _. reflexivity.
Qed.

Definition abody (kvs : list (key * tree)) : list N := gentries lfa llw 0 kvs.
Definition wfill (kvs : list (key * tree)) : list (list N) := map format_string (qstrs (Dict kvs)).

Lemma native_body_filled kvs : ktree writable_leaf (Dict kvs) = true ->
  native_body kvs = expandL (wfill kvs) (abody kvs).
Proof.
  intros Hs. unfold native_body. rewrite (sort_top_keys kvs (ktree_dict_keys _ kvs Hs)).
  rewrite gfmt_real.
  pose proof (Wd_all (Dict kvs) Hs 0%nat false [] []) as H. rewrite !app_nil_r in H.
  rewrite !gfmt_dict in H. unfold wfill, abody. rewrite H. apply gfmt_dict.
Qed.

Lemma wfill_litform kvs : ktree writable_leaf (Dict kvs) = true -> Forall litform (wfill kvs).
Proof.
  intros Hs. unfold wfill. apply Forall_map_iff. pose proof (qstrs_qlit (Dict kvs) Hs) as H.
  revert H. apply Forall_impl. exact qlit_litform.
Qed.

Lemma written_filled kvs : ktree writable_leaf (Dict kvs) = true ->
  to_string_plain kvs = expandL (wfill kvs) (remove_trailing_spaces (abody kvs)).
Proof.
  intros Hs. unfold to_string_plain. rewrite (native_body_filled kvs Hs). apply rts_expand.
  pose proof (wfill_litform kvs Hs) as H. revert H. apply Forall_impl. exact litform_solid.
Qed.

Lemma forallb_rts (p : N -> bool) (s : list N) : forallb p s = true -> forallb p (remove_trailing_spaces s) = true.
Proof.
  pattern s. apply lines_ind; clear s.
  - intros b Hb H. rewrite (rts_last b Hb). apply forallb_rstrip. exact H.
  - intros b t Hb IH H. rewrite (rts_line b t Hb). rewrite forallb_app in H. apply andb_true_iff in H.
    destruct H as [H1 H2]. cbn [forallb] in H2. apply andb_true_iff in H2. destruct H2 as [H2 H3].
    rewrite forallb_app, (forallb_rstrip p b H1). cbn [forallb andb]. rewrite H2, (IH H3). reflexivity.
Qed.

Lemma PH_solid k : solid (PH k).
Proof.
  split; [|split].
  - unfold nolf. apply forallb_nochar. apply forallb_forall. intros c Hc.
    pose proof (forallb_In _ _ _ (PH_simple k) Hc) as H. cbn beta.
    destruct (c =? c_lf) eqn:E; [|reflexivity]. apply N.eqb_eq in E. subst c. discriminate H.
  - destruct (PH_cons k) as [r E]. exists 83, r. split; [exact E|reflexivity].
  - destruct (exists_last (l := PH k)) as (r & e & E); [destruct (PH_cons k) as [r E]; rewrite E; discriminate|].
    exists r, e. split; [exact E|].
    assert (Hin : In e (PH k)) by (rewrite E; apply in_or_app; right; left; reflexivity).
    exact (proj1 (simple_char_word e (forallb_In _ _ _ (PH_simple k) Hin))).
Qed.

Lemma PHs_solid ks : Forall solid (map PH ks).
Proof. apply Forall_map_iff. apply Forall_forall. intros k _. apply PH_solid. Qed.

Lemma counter_next_range c : (0 <= counter_next c <= 999999)%Z \/ (counter_next c < 0 /\ c < -1)%Z.
Proof. unfold counter_next. cbv zeta. destruct (999999 <? c + 1)%Z eqn:E; lia. Qed.

Lemma ids_small c n : small (ids c n).
Proof.
  unfold small, ids. revert c. induction n as [|n IH]; intros c; [constructor|]. cbn [idsZ map]. constructor; [|apply IH].
  destruct (counter_next_range c) as [H|H]; lia.
Qed.

(* the shape of a stripped text that begins with a word character and whose last visible character is a delimiter *)
Lemma rle_rts_shape (T : list N) h r F0 d :
  T = h :: r -> is_space h = false -> is_delim h = false -> is_delim d = true -> filter nsp T = F0 ++ [d] ->
  exists m, remove_line_endings (remove_trailing_spaces T) = h :: m ++ [d].
Proof.
  intros Eh Hhs Hhd Hd Ed. rewrite remove_line_endings_eq.
  set (b2 := strip (map lf2sp (remove_trailing_spaces T))).
  assert (Hfl : filter nsp b2 = filter nsp T).
  { unfold b2. rewrite fl_strip, fl_map, fl_rts. reflexivity. }
  assert (Efh : filter nsp T = h :: filter nsp r).
  { rewrite Eh. cbn [filter]. unfold nsp at 1. rewrite Hhs. reflexivity. }
  destruct (strip_shape (map lf2sp (remove_trailing_spaces T))) as [E|(c0 & m & e & Hc0 & He & [[E _]|E])];
    fold b2 in E.
  - rewrite E in Hfl. rewrite Efh in Hfl. discriminate Hfl.
  - exfalso. rewrite E in Hfl. cbn [filter] in Hfl. unfold nsp at 1 in Hfl. rewrite Hc0 in Hfl. cbn [negb] in Hfl.
    assert (c0 = h) by (rewrite Efh in Hfl; congruence). subst c0.
    rewrite Ed in Hfl. change [h] with ([] ++ [h]) in Hfl. apply app_inj_tail in Hfl. destruct Hfl as [_ <-].
    congruence.
  - assert (Ef : filter nsp b2 = (c0 :: filter nsp m) ++ [e]).
    { rewrite E. cbn [filter]. unfold nsp at 1. rewrite Hc0. cbn [negb]. rewrite filter_app. cbn [filter].
      unfold nsp at 2. rewrite He. reflexivity. }
    assert (c0 = h) by (rewrite Hfl, Efh in Ef; cbn [app] in Ef; congruence). subst c0.
    rewrite Hfl, Ed in Ef. apply app_inj_tail in Ef. destruct Ef as [_ <-].
    exists m. exact E.
Qed.

Lemma toks_doc_entries' lt kt kvs : toks_doc lt kt kvs = TokProofs.entries lt kt kvs ++ [[]].
Proof. unfold toks_doc. rewrite TokProofs.toks_dict. cbn [app]. rewrite app_nil_r. reflexivity. Qed.

Lemma delim_nothole d : is_delim d = true -> (d =? HOLE) = false.
Proof. intros H. destruct (d =? HOLE) eqn:E; [|reflexivity]. apply N.eqb_eq in E. subst d. discriminate H. Qed.

Lemma tokens_filled kvs ks : ktree writable_leaf (Dict kvs) = true -> (nq (Dict kvs) <= length ks)%nat -> small ks ->
  tokenize (separate_delimiters (expandL (map PH ks) (remove_line_endings (remove_trailing_spaces (abody kvs))))) =
  toks_doc ltL ktS (labelD ks kvs).
Proof.
  intros Hs Hn Hks. rewrite toks_doc_entries'.
  assert (Htok : toks_go [] (expandL (map PH ks) (remove_line_endings (remove_trailing_spaces (abody kvs)))) =
                 entriesL (labelD ks kvs)).
  { rewrite <- (surgery_expand _ _ (PHs_solid ks)). rewrite remove_line_endings_eq, tg_strip, tg_map, tg_rts.
    pose proof (Mt_all (Dict kvs) Hs 0%nat false ks [] Hn Hks) as H. cbn beta iota in H.
    rewrite gfmt_dict, app_nil_r in H. unfold abody. rewrite H. cbn [expandL toks_go emit]. apply app_nil_r. }
  destruct kvs as [|[k c] kvs'].
  - reflexivity.
  - rewrite ktree_dict_cons in Hs. apply andb_true_iff in Hs. destruct Hs as [Hs _].
    apply andb_true_iff in Hs. destruct Hs as [Hk _].
    destruct (gentries_head lfa llw k c kvs' Hk) as (h & r & Eh & Hh).
    destruct (gentries_end lfa llw 0 ((k, c) :: kvs') ltac:(discriminate)) as (F0 & d & Hd & Ed).
    destruct (simple_char_word h Hh) as [Hhs Hhd].
    destruct (rle_rts_shape (abody ((k, c) :: kvs')) h r F0 d Eh Hhs Hhd Hd Ed) as (m & Em).
    rewrite <- Htok, Em.
    assert (Hh' : (h =? HOLE) = false).
    { destruct (h =? HOLE) eqn:E; [|reflexivity]. apply N.eqb_eq in E. subst h. discriminate Hh. }
    rewrite (expandL_char _ h _ Hh'), expandL_app, (expandL_char _ d [] (delim_nothole d Hd)).
    cbn [expandL]. apply tokens_full; assumption.
Qed.

Theorem lex_written_full kvs comments dir count : ktree writable_leaf (Dict kvs) = true ->
  lex comments dir count (to_string_plain kvs) =
  mkLexed (toks_doc ltL ktS (labelD (ids count (nq (Dict kvs))) kvs)) (cafter count (nq (Dict kvs))) [] [] [] []
          (tupdate [] (combine (ids count (nq (Dict kvs))) (qstrs (Dict kvs)))).
Proof.
  intros Hs. rewrite (written_filled kvs Hs). unfold wfill.
  destruct (Qa_all (Dict kvs) Hs 0%nat false) as [Ha Hn]. rewrite gfmt_dict in Ha, Hn. fold (abody kvs) in Ha, Hn.
  rewrite (lex_filled comments dir count (remove_trailing_spaces (abody kvs)) (qstrs (Dict kvs))).
  - fold (nq (Dict kvs)). rewrite (tokens_filled kvs _ Hs); [reflexivity|rewrite ids_length; apply Nat.le_refl|apply ids_small].
  - apply forallb_rts. exact Ha.
  - apply qstrs_qlit. exact Hs.
  - rewrite nh_rts. exact Hn.
Qed.

(* ================================================================================================ *)
(* 5. values: what the classifier makes of tokens and literal contents                              *)
(* ================================================================================================ *)

Lemma nores_W a : no_reserved_word a = true -> contains w_STRINGLITERAL a = false.
Proof. unfold no_reserved_word. intros H. apply andb_true_iff in H. destruct H as [_ H]. apply negb_true_iff in H. exact H. Qed.

Lemma Z_to_dec_chars z c : In c (Z_to_dec z) -> is_digit c = true \/ c = c_minus.
Proof.
  assert (Hn : forall n x, In x (N_to_dec n) -> is_digit x = true).
  { intros n x Hx. destruct (ScalarProofs.N_to_dec_spec n) as [[Hd _] _].
    unfold TypeTable.digits in Hd. rewrite Forall_forall in Hd. exact (Hd x Hx). }
  destruct z as [|p|p]; cbn [Z_to_dec]; intros H.
  - destruct H as [<-|[]]. left. reflexivity.
  - left. exact (Hn _ _ H).
  - destruct H as [<-|H]; [right; reflexivity|left; exact (Hn _ _ H)].
Qed.

Lemma PWs_pv a : no_reserved_word a = true -> remove_quotes a = a -> PWs (pv a) = false.
Proof.
  intros Hr Hq. pose proof (nores_W a Hr) as Hw.
  destruct (ScalarProofs.parse_value_table a) as (v & E & Hc). unfold pv. rewrite E. unfold PWs.
  inversion Hc; subst; cbn [py_str]; try reflexivity; try exact Hw.
  - destruct (contains w_STRINGLITERAL (Z_to_dec z)) eqn:Ec; [|reflexivity]. exfalso.
    apply contains_head_In in Ec. destruct (Z_to_dec_chars z _ Ec) as [Hd|Hd]; discriminate Hd.
  - rewrite Hq. exact Hw.
Qed.

Lemma simple_tok_noquote a : simple_tok a = true -> remove_quotes a = a.
Proof.
  intros H. apply ScalarProofs.remove_quotes_noquote. destruct (simple_tok_inv a H) as (_ & Hc & _).
  apply Forall_forall. intros c Hin. pose proof (forallb_In _ _ _ Hc Hin) as Hs. tch.
Qed.

Lemma norm_pv v : norm_scalar v = pv (FS v).
Proof.
  unfold norm_scalar, pv. destruct (parse_value (FS v)) as [x|e] eqn:E; [reflexivity|].
  exfalso. exact (ScalarProofs.parse_value_total _ _ E).
Qed.

Lemma written_simple v : simple_leaf v = true -> written_value v = norm_scalar v.
Proof. intros H. unfold written_value, norm_scalar. rewrite (simple_tok_noquote _ H). reflexivity. Qed.

Lemma PWs_norm v : simple_leaf v = true -> PWs (norm_scalar v) = false.
Proof.
  intros H. rewrite norm_pv. apply PWs_pv; [|apply simple_tok_noquote; exact H].
  exact (proj2 (proj2 (simple_tok_inv _ H))).
Qed.

Lemma qlit_content s : qlit s -> no_reserved_word s = true /\ remove_quotes s = s.
Proof.
  intros [Hq _]. destruct (quotable_inv s Hq) as (H1 & H2 & _ & _ & _ & H6). split; [exact H2|].
  unfold quote_at_end in H6. apply orb_false_iff in H6. destruct H6 as [Ha Hb].
  unfold remove_quotes.
  assert (E1 : strip_lead_quote s = s).
  { destruct s as [|c r]; [reflexivity|]. cbn [strip_lead_quote]. rewrite Ha. reflexivity. }
  rewrite E1. unfold strip_trail_quote. destruct (rev s) as [|c t] eqn:Er.
  - apply ScalarProofs.rev_nil_inv in Er. symmetry. exact Er.
  - rewrite Hb.
    assert (Hin : In c s) by (apply in_rev; rewrite Er; left; reflexivity).
    destruct (lit_char_facts c (forallb_In _ _ _ H1 Hin)) as (_ & A & _). rewrite A. reflexivity.
Qed.

Lemma written_quoted s : qlit s -> written_value (SStr s) = pv s.
Proof.
  intros Hs. destruct (qlit_form s Hs) as (_ & Hc). unfold written_value, pv. cbn [FS].
  assert (E : remove_quotes (format_string s) = s).
  { destruct Hc as [[-> _]|[-> _]]; [exact (proj1 (QuoteProofs.unquote_quoted s))|exact (proj2 (QuoteProofs.unquote_quoted s))]. }
  rewrite E. destruct (parse_value s) as [x|e] eqn:Ep; [reflexivity|].
  exfalso. exact (ScalarProofs.parse_value_total _ _ Ep).
Qed.

(* ---- the relabelled tree keeps keys and shape ---------------------------------------------------- *)
Definition quoted_within (b : nat) (t : tree) : bool := lw (fun v => negb (simple_leaf v)) b t.

Lemma label_facts : forall t ks,
  wf (label ks t) = wf t /\ skeys (label ks t) = skeys t /\
  (forall b, ktree writable_leaf t = true -> quoted_within b t = true -> lw PWs b (map_leaves nvL (label ks t)) = true).
Proof.
  induction t as [v|kvs IH|ts IH] using tree_ind'; intros ks.
  - split; [reflexivity|]. split; [reflexivity|]. intros b Hs Hb. cbn [label map_leaves lw]. unfold quoted_within in Hb.
    cbn [lw] in Hb. unfold lleaf. destruct (simple_leaf v) eqn:E.
    + unfold nvL. rewrite E, (PWs_norm v E). reflexivity.
    + cbn [negb orb] in Hb. rewrite Hb. apply orb_true_r.
  - rewrite label_dict.
    assert (G : forall ks, map fst (labelD ks kvs) = map fst kvs /\
                forallb (fun kc => wf (snd kc)) (labelD ks kvs) = forallb (fun kc => wf (snd kc)) kvs /\
                skeys (Dict (labelD ks kvs)) = skeys (Dict kvs) /\
                (forall b, ktree writable_leaf (Dict kvs) = true -> quoted_within b (Dict kvs) = true ->
                           forallb (fun kc => lw PWs (Nat.pred b) (snd kc)) (map (TokProofs.mkv nvL) (labelD ks kvs)) = true)).
    { clear ks. induction IH as [|[k c] kvs Hc _ IHk]; intros ks.
      - repeat split; reflexivity.
      - cbn [snd] in Hc. destruct (Hc ks) as (C1 & C2 & C3). destruct (IHk (skipn (nq c) ks)) as (I1 & I2 & I3 & I4).
        cbn [labelD map fst forallb snd]. rewrite I1, I2, C1. rewrite !skeys_dict_cons, C2, I3.
        split; [reflexivity|]. split; [reflexivity|]. split; [reflexivity|].
        intros b Hs Hb. rewrite ktree_dict_cons in Hs. apply andb_true_iff in Hs. destruct Hs as [Hs Hs3].
        apply andb_true_iff in Hs. destruct Hs as [_ Hs2]. unfold quoted_within in Hb. rewrite lw_dict in Hb.
        cbn [forallb snd] in Hb. apply andb_true_iff in Hb. destruct Hb as [Hb1 Hb2].
        unfold TokProofs.mkv at 1. cbn [fst snd]. rewrite (C3 _ Hs2 Hb1). cbn [andb].
        apply (I4 b Hs3). unfold quoted_within. rewrite lw_dict. exact Hb2. }
    destruct (G ks) as (G1 & G2 & G3 & G4). split; [|split].
    + rewrite !KeyPathProofs.wf_dict, G1, G2. reflexivity.
    + exact G3.
    + intros b Hs Hb. rewrite TokProofs.map_leaves_dict, lw_dict. exact (G4 b Hs Hb).
  - rewrite label_lst.
    assert (G : forall ks, forallb wf (labelL ks ts) = forallb wf ts /\ skeys (Lst (labelL ks ts)) = skeys (Lst ts) /\
                (forall b, ktree writable_leaf (Lst ts) = true -> quoted_within b (Lst ts) = true ->
                           forallb (lw PWs (Nat.pred b)) (map (map_leaves nvL) (labelL ks ts)) = true)).
    { clear ks. induction IH as [|c l Hc _ IHl]; intros ks.
      - repeat split; reflexivity.
      - destruct (Hc ks) as (C1 & C2 & C3). destruct (IHl (skipn (nq c) ks)) as (I1 & I2 & I3).
        cbn [labelL forallb map]. rewrite I1, C1. rewrite !skeys_lst_cons, C2, I2.
        split; [reflexivity|]. split; [reflexivity|].
        intros b Hs Hb. rewrite ktree_lst_cons in Hs. apply andb_true_iff in Hs. destruct Hs as [Hs1 Hs2].
        unfold quoted_within in Hb. rewrite lw_lst in Hb. cbn [forallb] in Hb. apply andb_true_iff in Hb.
        destruct Hb as [Hb1 Hb2]. rewrite (C3 _ Hs1 Hb1). cbn [andb].
        apply (I3 b Hs2). unfold quoted_within. rewrite lw_lst. exact Hb2. }
    destruct (G ks) as (G1 & G2 & G3). split; [|split].
    + rewrite !KeyPathProofs.wf_lst. exact G1.
    + exact G2.
    + intros b Hs Hb. rewrite TokProofs.map_leaves_lst, lw_lst. exact (G3 b Hs Hb).
Qed.

(* ---- the literal table ---------------------------------------------------------------------------- *)
Lemma tset_fresh {V} k (v : V) tab : ~ In k (map fst tab) -> tset k v tab = tab ++ [(k, v)].
Proof.
  induction tab as [|[j x] tab IH]; intros Hn; [reflexivity|]. cbn [tset]. destruct (k =? j) eqn:E.
  - apply N.eqb_eq in E. subst j. exfalso. apply Hn. left. reflexivity.
  - cbn [app]. f_equal. apply IH. intros Hin. apply Hn. right. exact Hin.
Qed.

Lemma tupdate_fresh {V} (m : list (N * V)) : forall tab, NoDup (map fst (tab ++ m)) -> tupdate tab m = tab ++ m.
Proof.
  induction m as [|[k v] m IH]; intros tab Hnd; [rewrite app_nil_r; reflexivity|].
  rewrite tupdate_cons. cbn [fst snd].
  rewrite map_app in Hnd. cbn [map fst] in Hnd. pose proof (NoDup_remove_2 _ _ _ Hnd) as Hnotin.
  rewrite tset_fresh.
  - rewrite IH; [rewrite <- app_assoc; reflexivity|]. rewrite <- app_assoc, map_app. exact Hnd.
  - intros Hin. apply Hnotin. apply in_or_app. left. exact Hin.
Qed.

Lemma combine_fst {A B} (ks : list A) (ls : list B) : length ks = length ls -> map fst (combine ks ls) = ks.
Proof.
  revert ls. induction ks as [|k ks IH]; intros ls H; [reflexivity|]. destruct ls as [|s ls]; [discriminate H|].
  cbn [combine map fst]. f_equal. apply IH. cbn [length] in H. lia.
Qed.

Lemma Gfun_noW tab x : PWs x = false -> Gfun tab x = x.
Proof.
  revert x. induction tab as [|[k s] tab IH]; intros x Hx; [reflexivity|].
  unfold Gfun. cbn [fold_left]. fold (Gfun tab (Gstep x (k, s))).
  assert (E : Gstep x (k, s) = x).
  { unfold Gstep, Fsub. cbn [fst snd]. destruct (Pq (PH k) x) eqn:Ep; [|reflexivity].
    rewrite (Pq_PWs k x Ep) in Hx. discriminate Hx. }
  rewrite E. apply IH. exact Hx.
Qed.

Lemma contains_length (p s : list N) : contains p s = true -> (length p <= length s)%nat.
Proof.
  induction s as [|x s IH]; intros H.
  - cbn [contains] in H. destruct p; [cbn; lia|discriminate H].
  - cbn [contains] in H. apply orb_true_iff in H. destruct H as [H|H].
    + destruct (starts_with_split _ _ H) as [t E]. rewrite E, app_length. lia.
    + pose proof (IH H). cbn [length]. lia.
Qed.

Lemma contains_same_length (p s : list N) : length p = length s -> contains p s = true -> p = s.
Proof.
  intros Hl H. destruct s as [|x s].
  - destruct p; [reflexivity|discriminate Hl].
  - cbn [contains] in H. apply orb_true_iff in H. destruct H as [H|H].
    + destruct (starts_with_split _ _ H) as [t E]. rewrite E in Hl. rewrite app_length in Hl.
      destruct t; [rewrite E, app_nil_r; reflexivity|cbn [length] in Hl; lia].
    + apply contains_length in H. cbn [length] in Hl. lia.
Qed.

Lemma PH_length k : k < 1000000 -> length (PH k) = 19%nat.
Proof. intros Hk. unfold PH, placeholder. rewrite app_length, (proj2 (SemProofs.pad6_props k Hk)). reflexivity. Qed.

Lemma PH_contains k0 k : k0 < 1000000 -> k < 1000000 -> contains (PH k0) (PH k) = true -> k0 = k.
Proof.
  intros H0 H1 Hc. apply (placeholder_injective w_STRINGLITERAL k0 k H0 H1).
  apply contains_same_length; [rewrite !PH_length by assumption; reflexivity|exact Hc].
Qed.

Lemma Gfun_hit tab : NoDup (map fst tab) -> small (map fst tab) -> Forall (fun e => PWs (pv (snd e)) = false) tab ->
  forall k s, In (k, s) tab -> Gfun tab (SStr (PH k)) = pv s.
Proof.
  induction tab as [|[k0 s0] tab IH]; intros Hnd Hsm Hok k s Hin; [destruct Hin|].
  cbn [map fst] in Hnd, Hsm. inversion Hnd as [|x xs Hnotin Hnd']; subst. inversion Hsm as [|x xs Hk0 Hsm']; subst.
  inversion Hok as [|e es He Hok']; subst. cbn [snd] in He.
  unfold Gfun. cbn [fold_left]. fold (Gfun tab (Gstep (SStr (PH k)) (k0, s0))).
  unfold Gstep, Fsub, Pq. cbn [fst snd py_str].
  destruct Hin as [Heq|Hin].
  - inversion Heq; subst k0 s0.
    assert (Eself : contains (PH k) (PH k) = true).
    { pose proof (contains_refl_app (PH k) []) as Hc. rewrite app_nil_r in Hc. apply Hc.
      destruct (PH_cons k) as [r E]. rewrite E. discriminate. }
    rewrite Eself. apply Gfun_noW. exact He.
  - assert (Hk : k < 1000000).
    { unfold small in Hsm'. rewrite Forall_forall in Hsm'. apply Hsm'. apply in_map_iff. exists (k, s). split; [reflexivity|exact Hin]. }
    destruct (contains (PH k0) (PH k)) eqn:Ec.
    + exfalso. apply (PH_contains k0 k Hk0 Hk) in Ec. subst k0. apply Hnotin. apply in_map_iff. exists (k, s). split; [reflexivity|exact Hin].
    + apply IH; assumption.
Qed.

(* ================================================================================================ *)
(* 6. inserting the table into the placeholder tree gives the written values                        *)
(* ================================================================================================ *)

Lemma Forall2_skipn {A B} (R : A -> B -> Prop) (a b : list B) : forall ks,
  Forall2 R ks (a ++ b) -> Forall2 R (skipn (length a) ks) b.
Proof.
  induction a as [|x a IH]; intros ks H; [exact H|]. inversion H as [|k y ks' l' _ H' E1 E2]; subst.
  cbn [length skipn]. apply IH. exact H'.
Qed.

Lemma Forall2_combine {A B} (R : A -> B -> Prop) : forall (ks : list A) (ls : list B), length ks = length ls ->
  (forall k s, In (k, s) (combine ks ls) -> R k s) -> Forall2 R ks ls.
Proof.
  induction ks as [|k ks IH]; intros ls Hl H; destruct ls as [|s ls]; try discriminate Hl; [constructor|].
  constructor; [apply H; left; reflexivity|]. apply IH; [cbn [length] in Hl; lia|].
  intros k' s' Hin. apply H. right. exact Hin.
Qed.

Section Final.
  Variable tab : list (N * str).
  Definition Rel (k : N) (s : str) : Prop := k < 1000000 /\ Gfun tab (SStr (PH k)) = pv s.
  Definition Gv (x : scalar) : scalar := Gfun tab (nvL x).

  Definition Vt (t : tree) : Prop :=
    forall ks R, Forall2 Rel ks (qstrs t ++ R) -> ktree writable_leaf t = true ->
    map_leaves Gv (label ks t) = map_leaves written_value t.

  Lemma Vt_all : forall t, Vt t.
  Proof.
    induction t as [v|kvs IH|ts IH] using tree_ind'; intros ks R H Hs.
    - cbn [label map_leaves qstrs ktree] in *. unfold lleaf, qstr in *.
      destruct (writable_leaf_cases v Hs) as [E|(E & s & -> & Hq)]; rewrite E in *.
      + f_equal. unfold Gv, nvL. rewrite E, (Gfun_noW tab _ (PWs_norm v E)). symmetry. apply written_simple. exact E.
      + cbn [app] in H. inversion H as [|k y ks' l' [Hk Hr] _ E1 E2]; subst. cbn [hd]. f_equal.
        unfold Gv. rewrite (nvL_PH k Hk), Hr. symmetry. apply written_quoted. exact Hq.
    - rewrite label_dict, !TokProofs.map_leaves_dict. f_equal.
      revert ks R H Hs. induction IH as [|[k c] kvs Hc _ IHk]; intros ks R H Hs; [reflexivity|].
      rewrite ktree_dict_cons in Hs. apply andb_true_iff in Hs. destruct Hs as [Hs Hs3].
      apply andb_true_iff in Hs. destruct Hs as [_ Hs2].
      rewrite qstrs_dict_cons, <- app_assoc in H. cbn [labelD map]. cbn [snd] in Hc.
      unfold TokProofs.mkv at 1 3. cbn [fst snd]. rewrite (Hc ks _ H Hs2). f_equal.
      apply (IHk (skipn (nq c) ks) R); [|exact Hs3]. unfold nq. apply Forall2_skipn. exact H.
    - rewrite label_lst, !TokProofs.map_leaves_lst. f_equal.
      revert ks R H Hs. induction IH as [|c l Hc _ IHl]; intros ks R H Hs; [reflexivity|].
      rewrite ktree_lst_cons in Hs. apply andb_true_iff in Hs. destruct Hs as [Hs1 Hs2].
      rewrite qstrs_lst_cons, <- app_assoc in H. cbn [labelL map]. rewrite (Hc ks _ H Hs1). f_equal.
      apply (IHl (skipn (nq c) ks) R); [|exact Hs2]. unfold nq. apply Forall2_skipn. exact H.
  Qed.
End Final.

Lemma Gfun_tree tab : forall t, fold_left (fun t e => map_leaves (fun x => Gstep x e) t) tab t = map_leaves (Gfun tab) t.
Proof.
  induction tab as [|e tab IH]; intros t.
  - cbn [fold_left]. rewrite (map_leaves_ext (Gfun []) (fun x => x) t (fun x => eq_refl)), map_leaves_id. reflexivity.
  - cbn [fold_left]. rewrite IH, map_leaves_compose. reflexivity.
Qed.

Lemma rel_top ks ls : NoDup ks -> small ks -> length ks = length ls -> Forall (fun s => PWs (pv s) = false) ls ->
  Forall2 (Rel (combine ks ls)) ks ls.
Proof.
  intros Hnd Hsm Hl Hok. apply Forall2_combine; [exact Hl|]. intros k s Hin. split.
  - unfold small in Hsm. rewrite Forall_forall in Hsm. apply Hsm. exact (in_combine_l _ _ _ _ Hin).
  - apply Gfun_hit; [rewrite (combine_fst ks ls Hl); exact Hnd|rewrite (combine_fst ks ls Hl); exact Hsm| |exact Hin].
    apply Forall_forall. intros [k' s'] Hin'. cbn [snd]. rewrite Forall_forall in Hok. apply Hok.
    exact (in_combine_r _ _ _ _ Hin').
Qed.

(* ---- the counter ----------------------------------------------------------------------------------- *)
Lemma idsZ_in : forall n c x, (0 <= c < 1000000)%Z -> (Z.of_nat n <= 1000000)%Z -> In x (idsZ c n) ->
  ((c < x <= c + Z.of_nat n /\ x <= 999999) \/ (0 <= x <= c + Z.of_nat n - 1000000))%Z.
Proof.
  induction n as [|n IH]; intros c x Hc Hn Hin; [destruct Hin|].
  cbn [idsZ] in Hin.
  assert (Hf : (counter_next c = if (999999 <? c + 1)%Z then 0 else c + 1)%Z) by reflexivity.
  destruct (999999 <? c + 1)%Z eqn:E.
  - destruct Hin as [<-|Hin]; [lia|]. rewrite Hf in Hin. destruct (IH 0%Z x ltac:(lia) ltac:(lia) Hin); lia.
  - destruct Hin as [<-|Hin]; [lia|]. rewrite Hf in Hin. destruct (IH (c + 1)%Z x ltac:(lia) ltac:(lia) Hin); lia.
Qed.

Lemma counter_next_nonneg c : (-1 <= c)%Z -> (0 <= counter_next c < 1000000)%Z.
Proof. intros H. unfold counter_next. cbv zeta. destruct (999999 <? c + 1)%Z eqn:E; lia. Qed.

Lemma idsZ_nodup : forall n c, (-1 <= c)%Z -> (Z.of_nat n <= 1000000)%Z -> NoDup (idsZ c n) /\ Forall (fun x => (0 <= x)%Z) (idsZ c n).
Proof.
  induction n as [|n IH]; intros c Hc Hn; [split; constructor|].
  cbn [idsZ]. pose proof (counter_next_nonneg c Hc) as Hr.
  destruct (IH (counter_next c) ltac:(lia) ltac:(lia)) as [I1 I2]. split.
  - constructor; [|exact I1]. intros Hin. destruct (idsZ_in n (counter_next c) _ Hr ltac:(lia) Hin); lia.
  - constructor; [lia|exact I2].
Qed.

Lemma NoDup_map_on {A B} (f : A -> B) (l : list A) :
  (forall x y, In x l -> In y l -> f x = f y -> x = y) -> NoDup l -> NoDup (map f l).
Proof.
  intros Hinj H. induction H as [|x l Hx _ IH]; [constructor|]. cbn [map]. constructor.
  - intros Hin. apply in_map_iff in Hin. destruct Hin as (y & Ey & Hy).
    assert (y = x) by (apply Hinj; [right; exact Hy|left; reflexivity|exact Ey]). subst y. exact (Hx Hy).
  - apply IH. intros a b Ha Hb. apply Hinj; right; assumption.
Qed.

Lemma ids_nodup count n : (-1 <= count)%Z -> (Z.of_nat n <= 1000000)%Z -> NoDup (ids count n).
Proof.
  intros Hc Hn. destruct (idsZ_nodup n count Hc Hn) as [H1 H2]. unfold ids. apply NoDup_map_on; [|exact H1].
  intros x y Hx Hy E. rewrite Forall_forall in H2. apply Z2N.inj; [exact (H2 x Hx)|exact (H2 y Hy)|exact E].
Qed.

(* ================================================================================================ *)
(* 7. the end-to-end round trip                                                                     *)
(* ================================================================================================ *)

Lemma parser_clean_keys f kvs : (forall kc, In kc kvs -> simple_key (fst kc) = true) ->
  parser_clean (map (TokProofs.mkv f) kvs) = map (TokProofs.mkv f) kvs.
Proof.
  intros Hs. unfold parser_clean.
  assert (G : forall k0, (k0 = KS (of_string "_variables") \/ k0 = KS (of_string "_includes")) ->
              adel k0 (map (TokProofs.mkv f) kvs) = map (TokProofs.mkv f) kvs).
  { intros k0 Hk0. apply adel_absent. intros kc Hin. apply in_map_iff in Hin. destruct Hin as (kc0 & <- & Hin0).
    cbn [TokProofs.mkv fst]. pose proof (Hs kc0 Hin0) as Hk.
    destruct (simple_key_inv _ Hk) as (_ & _ & _ & N1 & N2).
    apply SDictProofs.key_eqb_neq. destruct Hk0 as [-> | ->]; intros Heq; [apply N1|apply N2]; symmetry; exact Heq. }
  rewrite (G _ (or_introl eq_refl)). apply G. right. reflexivity.
Qed.

(* the general form: the placeholder numbers handed out by the counter are pairwise distinct, and no quoted
   literal sits more than ten keys deep *)
Theorem roundtrip_native_nodup : forall kvs dirc count,
  wf (Dict kvs) = true -> writable_tree (Dict kvs) = true ->
  NoDup (ids count (nq (Dict kvs))) -> quoted_within 11 (Dict kvs) = true ->
  parse_string true dirc count (to_string_plain kvs) =
    Ok (mkParsed (mkSD (kvs_of (map_leaves written_value (Dict kvs))) [] [] [] []) (cafter count (nq (Dict kvs)))).
Proof.
  intros kvs dirc count Hw Hwr Hnd Hdeep. rewrite writable_ktree in Hwr.
  set (n := nq (Dict kvs)) in *. set (ks := ids count n) in *. set (ls := qstrs (Dict kvs)).
  assert (Hlen : length ks = length ls) by (unfold ks; rewrite ids_length; reflexivity).
  pose proof (ids_small count n) as Hsm. fold ks in Hsm.
  destruct (label_facts (Dict kvs) ks) as (L1 & L2 & L3). rewrite label_dict in L1, L2, L3.
  assert (HwL : wf (Dict (labelD ks kvs)) = true) by (rewrite L1; exact Hw).
  assert (HkL : skeys (Dict (labelD ks kvs)) = true) by (rewrite L2; exact (ktree_skeys _ _ Hwr)).
  set (d0 := map (TokProofs.mkv nvL) (labelD ks kvs)).
  assert (Hd0 : Dict d0 = map_leaves nvL (Dict (labelD ks kvs))) by (rewrite TokProofs.map_leaves_dict; reflexivity).
  assert (Hw0 : wf (Dict d0) = true) by (rewrite Hd0, wf_map_leaves; exact HwL).
  assert (Hlits : Forall qlit ls) by (apply qstrs_qlit; exact Hwr).
  assert (Hok : Forall (fun s => PWs (pv s) = false) ls).
  { revert Hlits. apply Forall_impl. intros s Hs. destruct (qlit_content s Hs) as [A B]. apply PWs_pv; assumption. }
  assert (Htab : tupdate [] (combine ks ls) = combine ks ls).
  { apply (tupdate_fresh (combine ks ls) []). cbn [app]. rewrite (combine_fst ks ls Hlen). exact Hnd. }
  assert (Hfin : map_leaves (Gfun (combine ks ls)) (Dict d0) = map_leaves written_value (Dict kvs)).
  { rewrite Hd0, map_leaves_compose, <- label_dict.
    apply (Vt_all (combine ks ls) (Dict kvs) ks []); [|exact Hwr].
    rewrite app_nil_r. apply rel_top; assumption. }
  assert (Hw' : wf (Dict (map (TokProofs.mkv written_value) kvs)) = true).
  { rewrite <- TokProofs.map_leaves_dict, wf_map_leaves. exact Hw. }
  unfold parse_string. cbv zeta. rewrite (lex_written_full kvs true dirc count Hwr). fold n ks ls.
  cbn [lxd_tokens lxd_count lxd_lc lxd_bc lxd_inc lxd_expr lxd_lit].
  rewrite (TRK.tok_roundtrip_main ltL ktS nvL HltL HktpS HkpkS (labelD ks kvs) HwL HkL).
  rewrite TokProofs.map_leaves_dict. cbn [kvs_of bind]. fold d0.
  rewrite (sd_clean_bare _ Hw0). cbn [sd_data sd_lc sd_bc sd_inc sd_expr].
  rewrite Htab, (insert_all (combine ks ls) d0 Hw0).
  - rewrite Hfin, TokProofs.map_leaves_dict. cbn [kvs_of bind].
    rewrite (parser_clean_keys written_value kvs (ktree_dict_keys _ kvs Hwr)), (sd_clean_bare _ Hw'). reflexivity.
  - rewrite Hd0. apply L3; assumption.
  - apply Forall_forall. intros [k s] Hin. cbn [snd]. rewrite Forall_forall in Hok. apply Hok.
    exact (in_combine_r _ _ _ _ Hin).
Qed.

(* ORIGINAL STATEMENT (C01_full.C01_roundtrip), FALSE for the model:
     Theorem roundtrip_native : forall kvs dirc count,
       wf (Dict kvs) = true -> writable_tree (Dict kvs) = true ->
       exists count', parse_string true dirc count (to_string_plain kvs) =
         Ok (mkParsed (mkSD (kvs_of (map_leaves written_value (Dict kvs))) [] [] [] []) count').
   Counterexamples (Eval vm_compute, see the end of the file):
   (1) count = -2, {a : "x y", b : "u v"} : both literals are numbered Z.to_N (-1) = Z.to_N 0 = 0, the table entry of
       the first is overwritten, both leaves come back as "u v"   [Lexer.scan_literals / counter_next + Z.to_N];
   (2) count = 0, {a : {k : {k : ... {k : "x y"}}}} with the leaf eleven keys deep: parse_string raises E_Recursion
       [TokParser.insert_literal -> KeyPath.set_global_key, the 10th descent of set_at].
   The amended statement adds: the counter starts at -1 or above, at most a million quoted literals (the counter
   wraps after 999999), and no quoted literal more than ten keys deep. *)
Theorem roundtrip_native_partial : forall kvs dirc count,
  wf (Dict kvs) = true -> writable_tree (Dict kvs) = true ->
  (-1 <= count)%Z -> (Z.of_nat (nq (Dict kvs)) <= 1000000)%Z -> quoted_within 11 (Dict kvs) = true ->
  exists count',
  parse_string true dirc count (to_string_plain kvs) =
    Ok (mkParsed (mkSD (kvs_of (map_leaves written_value (Dict kvs))) [] [] [] []) count').
Proof.
  intros kvs dirc count Hw Hwr Hc Hn Hdeep. exists (cafter count (nq (Dict kvs))).
  apply roundtrip_native_nodup; try assumption. apply ids_nodup; assumption.
Qed.

(* a string leaf that the classifier does not re-type comes back as itself *)
Theorem written_value_string : forall s, writable_leaf (SStr s) = true -> parse_value s = Ok (SStr s) ->
  written_value (SStr s) = SStr s.
Proof.
  intros s Hw Hp. destruct (writable_leaf_cases (SStr s) Hw) as [E|(E & s' & Es & Hq)].
  - rewrite (written_simple _ E). unfold norm_scalar. cbn [FS].
    assert (Ef : format_string s = s).
    { unfold simple_leaf in E. cbn [FS] in E. destruct (simple_tok_inv _ E) as (_ & Hc & _).
      unfold format_string in *. destruct (classify_string s); try reflexivity; exfalso;
        unfold sq, dq in Hc; cbn [forallb] in Hc; discriminate Hc. }
    rewrite Ef, Hp. reflexivity.
  - inversion Es; subst s'. rewrite (written_quoted s Hq). unfold pv. rewrite Hp. reflexivity.
Qed.


(* ---- the two counterexamples to the original statement, machine checked ---------------------------- *)
Definition ce_counter : list (key * tree) :=
  [(KS (of_string "a"), Leaf (SStr (of_string "x y"))); (KS (of_string "b"), Leaf (SStr (of_string "u v")))].
Fixpoint ce_nest (n : nat) (t : tree) : tree :=
  match n with O => t | S n' => Dict [(KS (of_string "k"), ce_nest n' t)] end.
Definition ce_deep : list (key * tree) := [(KS (of_string "a"), ce_nest 10 (Leaf (SStr (of_string "x y"))))].

(* counter below -1: both literals get the number 0 and the second value overwrites the first *)
Lemma roundtrip_native_fails_counter :
  wf (Dict ce_counter) = true /\ writable_tree (Dict ce_counter) = true /\
  parse_string true [] (-2)%Z (to_string_plain ce_counter) =
    Ok (mkParsed (mkSD [(KS (of_string "a"), Leaf (SStr (of_string "u v")));
                        (KS (of_string "b"), Leaf (SStr (of_string "u v")))] [] [] [] []) 0%Z) /\
  kvs_of (map_leaves written_value (Dict ce_counter)) = ce_counter.
Proof. repeat split; vm_compute; reflexivity. Qed.

(* a quoted literal eleven keys deep: RecursionError from set_global_key *)
Lemma roundtrip_native_fails_depth :
  wf (Dict ce_deep) = true /\ writable_tree (Dict ce_deep) = true /\
  parse_string true [] 0%Z (to_string_plain ce_deep) = Raise E_Recursion.
Proof. repeat split; vm_compute; reflexivity. Qed.

Theorem roundtrip_native_false :
  ~ (forall kvs dirc count, wf (Dict kvs) = true -> writable_tree (Dict kvs) = true ->
     exists count', parse_string true dirc count (to_string_plain kvs) =
       Ok (mkParsed (mkSD (kvs_of (map_leaves written_value (Dict kvs))) [] [] [] []) count')).
Proof.
  intros H. destruct roundtrip_native_fails_depth as (H1 & H2 & H3).
  destruct (H ce_deep [] 0%Z H1 H2) as [c' Hc]. rewrite H3 in Hc. discriminate Hc.
Qed.

Print Assumptions roundtrip_native_nodup.
Print Assumptions roundtrip_native_partial.
Print Assumptions written_value_string.
Print Assumptions roundtrip_native_false.
