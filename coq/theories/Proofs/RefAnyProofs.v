(* C05, documents whose dynamic entries are plain references ($y, possibly chains) and whose literals are arbitrary
   trees: every reference takes exactly the literal its chain ends in (same tree, same type); dangling and cyclic
   references -- and references to the literal None -- keep their text. *)
From Coq Require Import String.
From Coq Require Import NArith ZArith List Bool Lia Permutation.
From DictIO Require Import Chars Str Value Scalar KeyPath SDict Layout Lexer TokParser Reader Expr Eval
     MiscSpec EvalSpec FlatSpec IndexSpec ScalarProofs KeyPathProofs SDictProofs SemProofs ArithProofs TextProofs FlatDataProofs
     EvalProofs RefTextProofs FlatEngine FlatIndexProofs.
Import ListNotations.

Inductive rval := VLit (t : tree) | VRef (i : N) (y : str).
Definition rdoc := list (str * rval).
Fixpoint rlook (x : str) (d : rdoc) : option rval :=
  match d with
  | [] => None
  | (y, v) :: d' => if str_eqb x y then Some v else rlook x d'
  end.
Definition rleaf (v : rval) : tree := match v with VLit t => t | VRef i _ => Leaf (SStr (ph_of i)) end.
Definition rdata (d : rdoc) : list (key * tree) := map (fun xv => (KS (fst xv), rleaf (snd xv))) d.
Definition rentry (xv : str * rval) : list (N * expr_entry) :=
  match snd xv with VRef i y => [(i, (ref_of y, ph_of i))] | VLit _ => [] end.
Definition rtable (d : rdoc) : list (N * expr_entry) := flat_map rentry d.
Definition ref_sdict (d : rdoc) (lc bc : list (N * str)) (inc : list (N * include_entry)) : sdict :=
  mkSD (rdata d) lc bc inc (rtable d).

Fixpoint follow (d : rdoc) (n : nat) (y : str) : option tree :=
  match n with
  | O => None
  | S n' => match rlook y d with
            | Some (VLit t) => Some t
            | Some (VRef _ z) => follow d n' z
            | None => None
            end
  end.
Definition denote_ref (d : rdoc) (y : str) : option tree := follow d (length d) y.
Definition ref_value (d : rdoc) (y : str) : option tree :=
  match denote_ref d y with Some (Leaf SNone) => None | r => r end.
Definition rfinal (d : rdoc) (v : rval) : tree :=
  match v with
  | VLit t => t
  | VRef _ y => match ref_value d y with Some t => t | None => Leaf (SStr (ref_of y)) end
  end.
Definition ref_result (d : rdoc) : list (key * tree) := map (fun xv => (KS (fst xv), rfinal d (snd xv))) d.

Definition rtargets (d : rdoc) : list str := flat_map (fun xv => match snd xv with VRef _ y => [y] | VLit _ => [] end) d.
Definition rids (d : rdoc) : list N := flat_map (fun xv => match snd xv with VRef i _ => [i] | VLit _ => [] end) d.
Definition rlits (d : rdoc) : list tree := flat_map (fun xv => match snd xv with VLit t => [t] | VRef _ _ => [] end) d.

(* every string key at any depth below the root of t *)
Fixpoint inner_names (t : tree) : list str :=
  match t with
  | Leaf _ => []
  | Dict kvs => (fix go (l : list (key * tree)) : list str :=
                   match l with
                   | [] => []
                   | (k, c) :: l' => (match k with KS x => [x] | KI _ => [] end) ++ inner_names c ++ go l'
                   end) kvs
  | Lst ts => (fix go (l : list tree) : list str :=
                 match l with [] => [] | c :: l' => inner_names c ++ go l' end) ts
  end.
Definition no_ph (i : N) (t : tree) : bool := match find_key (ph_of i) t with None => true | Some _ => false end.
Definition lit_ok (y : str) (t : tree) : bool :=
  negb (tree_has_dollar t) && negb (has_char c_dollar (py_str_tree t)) && negb (contains w_EXPRESSION (py_str_tree t)) &&
  negb (circular (KS y) t).
Definition mem (y : str) (l : list str) : bool := existsb (str_eqb y) l.
Definition rdoc_okb (d : rdoc) : bool :=
  nodupb (map fst d) && nodupNb (rids d) && forallb (fun i => (i <? 1000000)%N) (rids d) &&
  forallb word_nameb (rtargets d) &&
  forallb (fun y => negb (mem y (flat_map inner_names (rlits d)))) (rtargets d) &&
  forallb (fun i => forallb (no_ph i) (rlits d) && forallb (fun y => negb (contains (ph_of i) (ref_of y))) (rtargets d)) (rids d) &&
  forallb (fun xv => match snd xv with VLit t => if mem (fst xv) (rtargets d) then lit_ok (fst xv) t else true | _ => true end) d.


(* ================================================================================================ *)
(* 0. look-up and chains                                                                            *)
(* ================================================================================================ *)
Lemma rlook_in : forall d x v, rlook x d = Some v -> In (x, v) d.
Proof.
  induction d as [|[y w] d IH]; intros x v H; [discriminate H|]. cbn [rlook] in H.
  destruct (str_eqb x y) eqn:E.
  - apply str_eqb_eq in E. subst y. inversion H; subst. left. reflexivity.
  - right. apply IH. exact H.
Qed.

Lemma in_rlook : forall d x v, NoDup (map fst d) -> In (x, v) d -> rlook x d = Some v.
Proof.
  induction d as [|[y w] d IH]; intros x v Hnd Hin; [contradiction|].
  cbn [map fst] in Hnd. inversion Hnd as [|? ? Hy Hnd']; subst. cbn [rlook].
  destruct Hin as [Hin|Hin].
  - inversion Hin; subst. rewrite str_eqb_refl. reflexivity.
  - destruct (str_eqb x y) eqn:E; [|apply IH; assumption].
    apply str_eqb_eq in E. subst y. exfalso. apply Hy. apply in_map_iff. exists (x, v). split; [reflexivity|exact Hin].
Qed.

Lemma rlook_none : forall d x, ~ In x (map fst d) -> rlook x d = None.
Proof.
  induction d as [|[y w] d IH]; intros x H; [reflexivity|]. cbn [rlook map fst In] in *.
  destruct (str_eqb x y) eqn:E; [apply str_eqb_eq in E; subst y; exfalso; apply H; left; reflexivity|].
  apply IH. intro Hc. apply H. right. exact Hc.
Qed.

Lemma follow_S : forall d n y, follow d (S n) y =
  match rlook y d with Some (VLit t) => Some t | Some (VRef _ z) => follow d n z | None => None end.
Proof. reflexivity. Qed.

Lemma follow_mono : forall d n y t, follow d n y = Some t -> follow d (S n) y = Some t.
Proof.
  intros d. induction n as [|n IH]; intros y t H; [discriminate H|].
  rewrite follow_S in *. destruct (rlook y d) as [[t0|i z]|]; [exact H| |discriminate H]. apply IH. exact H.
Qed.

Lemma follow_le : forall d n m y t, (n <= m)%nat -> follow d n y = Some t -> follow d m y = Some t.
Proof.
  intros d n m y t Hle H. induction Hle as [|m Hle IH]; [exact H|]. apply follow_mono. exact IH.
Qed.

(* the first depth at which the chain reaches its literal *)
Lemma follow_exact : forall d N y t, follow d N y = Some t ->
  exists n, (S n <= N)%nat /\ follow d (S n) y = Some t /\ follow d n y = None.
Proof.
  intros d. induction N as [|N IH]; intros y t H; [discriminate H|].
  destruct (follow d N y) as [t'|] eqn:E.
  - destruct (IH y t') as [n [Hn [H1 H2]]]; [exact E|]. exists n. split; [lia|]. split; [|exact H2].
    rewrite (follow_mono d N y t' E) in H. inversion H; subst. exact H1.
  - exists N. split; [lia|]. split; assumption.
Qed.

(* a chain visits distinct names of the document: it is no longer than the document *)
Lemma follow_bound : forall d n y t seen, follow d (S n) y = Some t -> follow d n y = None ->
  NoDup seen -> (forall z, In z seen -> follow d (S n) z = None /\ In z (map fst d)) ->
  (length seen + S n <= length d)%nat.
Proof.
  intros d. induction n as [|n IH]; intros y t seen H1 H0 Hnd Hs.
  - rewrite follow_S in H1. destruct (rlook y d) as [v|] eqn:El; [|discriminate H1].
    assert (Hy : In y (map fst d)) by (apply in_map_iff; exists (y, v); split; [reflexivity | apply rlook_in; exact El]).
    assert (Hn : ~ In y seen).
    { intro Hc. destruct (Hs y Hc) as [Hc1 _]. rewrite follow_S, El in Hc1. destruct v; [discriminate Hc1|discriminate H1]. }
    assert (Hnd' : NoDup (y :: seen)) by (constructor; assumption).
    pose proof (NoDup_incl_length Hnd' (l' := map fst d)) as Hl. rewrite map_length in Hl. cbn [length] in Hl.
    assert (incl (y :: seen) (map fst d)); [|lia].
    intros z [Hz|Hz]; [subst z; exact Hy | apply (Hs z Hz)].
  - assert (Hn : ~ In y seen).
    { intro Hc. destruct (Hs y Hc) as [Hc1 _]. congruence. }
    rewrite follow_S in H1. destruct (rlook y d) as [[t0|i z]|] eqn:El; [| |discriminate H1].
    + rewrite follow_S, El in H0. discriminate H0.
    + assert (H0' : follow d n z = None).
      { pose proof H0 as Hc. rewrite follow_S, El in Hc. exact Hc. }
      assert (H0y : follow d (S n) y = None).
      { destruct (follow d (S n) y) as [t'|] eqn:E; [|reflexivity]. exfalso.
        rewrite follow_S, El in E. (* follow d n z = Some t' *) congruence. }
      pose proof (IH z t (y :: seen) H1 H0') as Hb. cbn [length] in Hb.
      assert (Hy : In y (map fst d)) by (apply in_map_iff; exists (y, VRef i z); split; [reflexivity | apply rlook_in; exact El]).
      enough (length seen + 1 + S n <= length d)%nat by lia.
      assert ((S (length seen) + S n <= length d)%nat); [|lia]. apply Hb.
      * constructor; assumption.
      * intros w [Hw|Hw]; [subst w; split; assumption|].
        destruct (Hs w Hw) as [Hw1 Hw2]. split; [|exact Hw2].
        destruct (follow d (S n) w) as [t'|] eqn:E; [|reflexivity]. rewrite (follow_mono d _ w t' E) in Hw1. discriminate Hw1.
Qed.

(* the denotation does not depend on the depth allowed, once that is the size of the document *)
Lemma follow_denote : forall d N y t, follow d N y = Some t -> denote_ref d y = Some t.
Proof.
  intros d N y t H. destruct (follow_exact d N y t H) as [n [_ [H1 H0]]].
  pose proof (follow_bound d n y t [] H1 H0 (NoDup_nil _) (fun z (Hz : In z []) => match Hz with end)) as Hb.
  cbn [length] in Hb. unfold denote_ref. apply (follow_le d (S n)); [lia | exact H1].
Qed.

Lemma denote_none_all : forall d y, denote_ref d y = None -> forall N, follow d N y = None.
Proof.
  intros d y H N. destruct (follow d N y) as [t|] eqn:E; [|reflexivity].
  rewrite (follow_denote d N y t E) in H. discriminate H.
Qed.

(* ================================================================================================ *)
(* 1. the resolver follows the chain                                                                *)
(* ================================================================================================ *)
Lemma existsb_str_in : forall y l, existsb (str_eqb y) l = true -> In y l.
Proof.
  intros y l H. apply existsb_exists in H. destruct H as [z [Hz E]]. apply str_eqb_eq in E. subst z. exact Hz.
Qed.
Lemma existsb_str_notin : forall y l, ~ In y l -> existsb (str_eqb y) l = false.
Proof.
  intros y l H. destruct (existsb (str_eqb y) l) eqn:E; [|reflexivity]. exfalso. apply H. apply existsb_str_in. exact E.
Qed.

(* what the table of variables holds for a name: its literal, or the text of its reference (a self reference is
   dropped by SDict.variables) *)
Definition vshape (d : rdoc) (y : str) : option tree :=
  match rlook y d with
  | Some (VLit t) => Some t
  | Some (VRef _ z) => if circular (KS y) (Leaf (SStr (ref_of z))) then None else Some (Leaf (SStr (ref_of z)))
  | None => None
  end.

Lemma word_no_dollar : forall z, word_name z -> has_char c_dollar z = false.
Proof.
  intros z [_ Hz]. apply has_char_forall. eapply Forall_impl; [|exact Hz].
  intros c Hc E. subst c. rewrite dollar_not_word in Hc. discriminate Hc.
Qed.

(* a reference to another name is not circular *)
Lemma circular_diff : forall y z, word_name y -> word_name z -> y <> z ->
  circular (KS y) (Leaf (SStr (ref_of z))) = false.
Proof.
  intros y z Hy Hz Hne. unfold circular, ref_of.
  assert (E2 : str_eqb y (c_dollar :: z) = false).
  { apply str_eqb_neq. intro E. destruct Hy as [_ Hy]. rewrite E in Hy. inversion Hy as [|? ? Hc _]; subst.
    rewrite dollar_not_word in Hc. discriminate Hc. }
  rewrite E2. cbn [andb]. rewrite orb_false_r. apply andb_false_iff. right.
  cbn [refers_to]. rewrite (refers_to_dollar y z (word_no_dollar z Hz)). rewrite orb_false_r.
  rewrite N.eqb_refl. cbn [andb]. destruct (starts_with y z) eqn:Es; [|reflexivity]. cbn [andb].
  apply starts_with_split in Es. destruct Es as [post ->]. rewrite drop_n_app.
  destruct post as [|c post]; [exfalso; apply Hne; rewrite app_nil_r; reflexivity|].
  destruct Hz as [_ Hz]. apply Forall_app in Hz. destruct Hz as [_ Hz]. inversion Hz as [|? ? Hc _]; subst.
  rewrite Hc. reflexivity.
Qed.

Section Resolve.
  Variables (vars : vtab) (d : rdoc) (T : str -> Prop).
  Hypothesis HTw : forall y, T y -> word_name y.
  Hypothesis HTv : forall y, T y -> alookup (KS y) vars = vshape d y.
  Hypothesis HTc : forall y i z, T y -> rlook y d = Some (VRef i z) -> T z.
  Hypothesis HTl : forall y t, T y -> rlook y d = Some (VLit t) -> tree_has_dollar t = false.

  Lemma chase_any : forall f seen x y' r', word_name x -> rname y' -> existsb (str_eqb x) seen = false ->
    alookup (KS x) vars = Some (Leaf (SStr (ref_of y'))) ->
    resolve_ref f vars (seen ++ [x]) (ref_of y') = r' ->
    (r' = RNone \/ r' = RFuel \/ exists t, r' = RVal t /\ tree_has_dollar t = false) ->
    resolve_ref (S f) vars seen (ref_of x) = r'.
  Proof.
    intros f seen x y' r' Hx Hy Hs Ha Hr Hres. destruct (ref_of_parts x Hx) as [Hn Hi].
    rewrite resolve_ref_S. cbv zeta. rewrite Hn, Hs, Ha.
    pose proof (vars_size_pos vars _ _ Ha) as Hsz. destruct (vars_size vars) as [|g]; [lia|].
    cbn [chase_f tree_has_dollar py_str_tree py_str existsb].
    assert (Hdol : has_char c_dollar (ref_of y') = true) by (unfold has_char, ref_of; cbn [existsb]; rewrite N.eqb_refl; reflexivity).
    rewrite Hdol. cbv zeta. rewrite (plain_ref_of y' Hy). cbn [negb].
    destruct Hres as [E|[E|[t [E Hd]]]]; rewrite E in Hr |- *; rewrite Hr.
    - unfold resolve_tail. rewrite Hi. reflexivity.
    - unfold resolve_tail. reflexivity.
    - rewrite Hd. unfold resolve_tail. rewrite Hi. reflexivity.
  Qed.

  Lemma follow_nodollar : forall m z t, T z -> follow d m z = Some t -> tree_has_dollar t = false.
  Proof.
    induction m as [|m IHm]; intros z t Hz H1; [discriminate H1|].
    rewrite follow_S in H1. destruct (rlook z d) as [[t0|j w]|] eqn:Elz; [| |discriminate H1].
    - inversion H1; subst t0. apply (HTl z t Hz Elz).
    - apply (IHm w t (HTc z j w Hz Elz) H1).
  Qed.

  Lemma res_some : forall n y t f seen, T y -> follow d (S n) y = Some t -> follow d n y = None ->
    (forall z, In z seen -> follow d (S n) z = None) ->
    resolve_ref f vars seen (ref_of y) = RVal t \/ resolve_ref f vars seen (ref_of y) = RFuel.
  Proof.
    induction n as [|n IH]; intros y t f seen Hy H1 H0 Hs; (destruct f as [|f]; [right; reflexivity|]).
    - left. rewrite follow_S in H1. destruct (rlook y d) as [[t0|i z]|] eqn:El; try discriminate H1.
      inversion H1; subst t0. destruct (ref_of_parts y (HTw y Hy)) as [Hn Hi].
      apply (resolve_static f vars seen (ref_of y) t t).
      + rewrite Hn. apply existsb_str_notin. intro Hc. pose proof (Hs y Hc) as Hc1. rewrite follow_S, El in Hc1. discriminate Hc1.
      + rewrite Hn, (HTv y Hy). unfold vshape. rewrite El. reflexivity.
      + apply (HTl y t Hy El).
      + rewrite Hi. reflexivity.
    - assert (Hn : ~ In y seen) by (intro Hc; pose proof (Hs y Hc); congruence).
      rewrite follow_S in H1. destruct (rlook y d) as [[t0|i z]|] eqn:El; [| |discriminate H1].
      + rewrite follow_S, El in H0. discriminate H0.
      + assert (H0' : follow d n z = None) by (pose proof H0 as Hc; rewrite follow_S, El in Hc; exact Hc).
        assert (Hz : T z) by (apply (HTc y i z Hy El)).
        assert (Hyz : circular (KS y) (Leaf (SStr (ref_of z))) = false).
        { apply (circular_diff y z (HTw y Hy) (HTw z Hz)). intro E. subst z. congruence. }
        assert (Ha : alookup (KS y) vars = Some (Leaf (SStr (ref_of z)))).
        { rewrite (HTv y Hy). unfold vshape. rewrite El, Hyz. reflexivity. }
        assert (Hs' : forall w, In w (seen ++ [y]) -> follow d (S n) w = None).
        { intros w Hw. apply in_app_or in Hw. destruct Hw as [Hw|[Hw|[]]]; [|subst w; exact H0].
          destruct (follow d (S n) w) as [t'|] eqn:E; [|reflexivity].
          pose proof (Hs w Hw) as Hc. rewrite (follow_mono d _ w t' E) in Hc. discriminate Hc. }
        destruct (IH z t f (seen ++ [y]) Hz H1 H0' Hs') as [E|E].
        * left. apply (chase_any f seen y z (RVal t) (HTw y Hy) (word_rname z (HTw z Hz)) (existsb_str_notin y seen Hn) Ha E).
          right. right. exists t. split; [reflexivity|].
          apply (follow_nodollar (S n) z t Hz H1).
        * right. apply (chase_any f seen y z RFuel (HTw y Hy) (word_rname z (HTw z Hz)) (existsb_str_notin y seen Hn) Ha E).
          right. left. reflexivity.
  Qed.

  Lemma res_none : forall f y seen, T y -> (forall N, follow d N y = None) ->
    resolve_ref f vars seen (ref_of y) = RNone \/ resolve_ref f vars seen (ref_of y) = RFuel.
  Proof.
    induction f as [|f IH]; intros y seen Hy Hno; [right; reflexivity|].
    destruct (ref_of_parts y (HTw y Hy)) as [Hn Hi].
    destruct (existsb (str_eqb y) seen) eqn:Es.
    { left. apply resolve_none_gen. left. rewrite Hn. exact Es. }
    pose proof (HTv y Hy) as Ha. unfold vshape in Ha.
    destruct (rlook y d) as [[t0|i z]|] eqn:El.
    - pose proof (Hno 1%nat) as Hc. rewrite follow_S, El in Hc. discriminate Hc.
    - destruct (circular (KS y) (Leaf (SStr (ref_of z)))) eqn:Eyz.
      + left. apply resolve_none_gen. right. rewrite Hn. exact Ha.
      + assert (Hz : T z) by (apply (HTc y i z Hy El)).
        assert (Hnoz : forall N, follow d N z = None).
        { intro N. pose proof (Hno (S N)) as Hc. rewrite follow_S, El in Hc. exact Hc. }
        destruct (IH z (seen ++ [y]) Hz Hnoz) as [E|E].
        * left. apply (chase_any f seen y z RNone (HTw y Hy) (word_rname z (HTw z Hz)) Es Ha E). left. reflexivity.
        * right. apply (chase_any f seen y z RFuel (HTw y Hy) (word_rname z (HTw z Hz)) Es Ha E). right. left. reflexivity.
    - left. apply resolve_none_gen. right. rewrite Hn. exact Ha.
  Qed.

  Lemma resolve_follow : forall y, T y ->
    resolve_reference vars (ref_of y) = match denote_ref d y with Some t => RVal t | None => RNone end.
  Proof.
    intros y Hy. pose proof (resolve_terminates vars (ref_of y)) as Hnf. unfold resolve_reference in *.
    destruct (denote_ref d y) as [t|] eqn:Ed.
    - unfold denote_ref in Ed. destruct (follow_exact d _ y t Ed) as [n [_ [H1 H0]]].
      destruct (res_some n y t (S (S (length vars))) [] Hy H1 H0 (fun z (Hz : In z []) => match Hz with end)) as [E|E];
        [exact E | contradiction].
    - destruct (res_none (S (S (length vars))) y [] Hy (denote_none_all d y Ed)) as [E|E]; [exact E | contradiction].
  Qed.
End Resolve.

(* ================================================================================================ *)
(* 2. the table of variables of the document                                                        *)
(* ================================================================================================ *)
Definition key_names (k : key) : list str := match k with KS x => [x] | KI _ => [] end.
Lemma inner_names_dict : forall kvs,
  inner_names (Dict kvs) = flat_map (fun kv => key_names (fst kv) ++ inner_names (snd kv)) kvs.
Proof.
  induction kvs as [|[k c] l IH]; [reflexivity|]. cbn [flat_map fst snd]. rewrite <- IH, <- app_assoc. reflexivity.
Qed.
Lemma inner_names_lst : forall ts, inner_names (Lst ts) = flat_map inner_names ts.
Proof. induction ts as [|c l IH]; [reflexivity|]. cbn [flat_map]. rewrite <- IH. reflexivity. Qed.

(* a name that is no key inside t is not touched by the bindings t makes *)
Lemma vars_descend : forall exprs y t, ~ In y (inner_names t) -> forall b acc,
  alookup (KS y) (vars_tree exprs b t acc) = alookup (KS y) acc.
Proof.
  intros exprs y. induction t as [s|kvs IH|ts IH] using tree_ind'; intros Hn b acc.
  - reflexivity.
  - rewrite vars_tree_dict. rewrite inner_names_dict in Hn. revert acc.
    induction IH as [|[k c] l Hc Hl IHl]; intro acc; [reflexivity|].
    cbn [flat_map fst snd] in Hn. cbn [fold_left].
    rewrite IHl by (intro H; apply Hn; apply in_or_app; right; exact H).
    assert (Hnc : ~ In y (inner_names c)) by (intro H; apply Hn; apply in_or_app; left; apply in_or_app; right; exact H).
    assert (Hnk : ~ In y (key_names k)) by (intro H; apply Hn; apply in_or_app; left; apply in_or_app; left; exact H).
    cbn [snd] in Hc. unfold vt_dict_step.
    assert (H1 : alookup (KS y) (match c with
                                 | Dict _ => vars_tree exprs false c acc
                                 | Lst _ => if list_contains_dict c then vars_tree exprs true c acc else acc
                                 | Leaf _ => acc
                                 end) = alookup (KS y) acc).
    { destruct c as [s|kvs'|ts']; [reflexivity | apply (Hc Hnc) |].
      destruct (list_contains_dict (Lst ts')); [apply (Hc Hnc) | reflexivity]. }
    destruct k as [z|x]; [exact H1|].
    assert (Hne : KS x <> KS y) by (intro E; inversion E; subst x; apply Hnk; left; reflexivity).
    destruct c as [s|kvs'|ts'].
    + cbv zeta. destruct (circular (KS x) (insert_expression (Leaf s) exprs)); [exact H1|].
      rewrite (alookup_aset_other _ _ _ _ Hne). exact H1.
    + cbv zeta. destruct (circular (KS x) (insert_expression (Dict kvs') exprs)); [exact H1|].
      rewrite (alookup_aset_other _ _ _ _ Hne). exact H1.
    + rewrite (alookup_aset_other _ _ _ _ Hne). exact H1.
  - rewrite vars_tree_lst. rewrite inner_names_lst in Hn. revert acc.
    induction IH as [|c l Hc Hl IHl]; intro acc; [reflexivity|].
    cbn [flat_map] in Hn. cbn [fold_left].
    rewrite IHl by (intro H; apply Hn; apply in_or_app; right; exact H).
    assert (Hnc : ~ In y (inner_names c)) by (intro H; apply Hn; apply in_or_app; left; exact H).
    unfold vt_lst_step. destruct c as [s|kvs'|ts']; [reflexivity | apply (Hc Hnc) | apply (Hc Hnc)].
Qed.

Lemma vars_top : forall exprs y kvs acc,
  (forall kv, In kv kvs -> ~ In y (inner_names (snd kv))) -> NoDup (map fst kvs) ->
  alookup (KS y) (vars_tree exprs false (Dict kvs) acc) =
  match alookup (KS y) kvs with
  | Some v => match assigned exprs y v with Some v' => Some v' | None => alookup (KS y) acc end
  | None => alookup (KS y) acc
  end.
Proof.
  intros exprs y kvs. assert (Hd : forall acc, vars_tree exprs false (Dict kvs) acc = fold_left (fun a kv => vt_dict_step exprs kv a) kvs acc) by (intro; apply vars_tree_dict). intros acc. rewrite Hd. clear Hd. revert acc. induction kvs as [|[k v] l IH]; intros acc Hin Hnd; [reflexivity|].
  cbn [map fst] in Hnd. inversion Hnd as [|? ? Hk Hnd']; subst. cbn [fold_left].
  rewrite IH; [|intros kv Hkv; apply Hin; right; exact Hkv | exact Hnd'].
  assert (Hnv : ~ In y (inner_names v)) by (apply (Hin (k, v)); left; reflexivity).
  assert (H1 : alookup (KS y) (match v with
                               | Dict _ => vars_tree exprs false v acc
                               | Lst _ => if list_contains_dict v then vars_tree exprs true v acc else acc
                               | Leaf _ => acc
                               end) = alookup (KS y) acc).
  { destruct v as [s|kvs'|ts']; [reflexivity | apply (vars_descend exprs y _ Hnv) |].
    destruct (list_contains_dict (Lst ts')); [apply (vars_descend exprs y _ Hnv) | reflexivity]. }
  cbn [alookup]. destruct (key_eqb (KS y) k) eqn:E.
  - apply key_eqb_eq in E. subst k. rewrite (alookup_notin _ _ Hk).
    unfold vt_dict_step, assigned. destruct v as [s|kvs'|ts'].
    + cbv zeta. destruct (circular (KS y) (insert_expression (Leaf s) exprs)); [exact H1 | apply alookup_aset_same].
    + cbv zeta. destruct (circular (KS y) (insert_expression (Dict kvs') exprs)); [exact H1 | apply alookup_aset_same].
    + apply alookup_aset_same.
  - assert (E2 : alookup (KS y) (vt_dict_step exprs (k, v) acc) = alookup (KS y) acc).
    { unfold vt_dict_step. destruct k as [z|x]; [exact H1|].
      assert (Hne : KS x <> KS y) by (intro Ec; inversion Ec; subst x; rewrite key_eqb_refl in E; discriminate E).
      destruct v as [s|kvs'|ts'].
      - cbv zeta. destruct (circular (KS x) (insert_expression (Leaf s) exprs)); [exact H1|].
        rewrite (alookup_aset_other _ _ _ _ Hne). exact H1.
      - cbv zeta. destruct (circular (KS x) (insert_expression (Dict kvs') exprs)); [exact H1|].
        rewrite (alookup_aset_other _ _ _ _ Hne). exact H1.
      - rewrite (alookup_aset_other _ _ _ _ Hne). exact H1. }
    rewrite E2. reflexivity.
Qed.

(* ---- well-formed documents (the Prop form of [rdoc_okb]) ------------------------------------------------ *)
Record rok (d : rdoc) : Prop := {
  rok_names : NoDup (map fst d);
  rok_ids : NoDup (rids d);
  rok_idb : forall i, In i (rids d) -> (i < 1000000)%N;
  rok_word : forall y, In y (rtargets d) -> word_name y;
  rok_top : forall y t, In y (rtargets d) -> In t (rlits d) -> ~ In y (inner_names t);
  rok_ph : forall i t, In i (rids d) -> In t (rlits d) -> find_key (ph_of i) t = None;
  rok_phy : forall i y, In i (rids d) -> In y (rtargets d) -> contains (ph_of i) (ref_of y) = false;
  rok_lit : forall y t, In y (rtargets d) -> In (y, VLit t) d -> lit_ok y t = true
}.

Lemma in_rtargets : forall d x i y, In (x, VRef i y) d -> In y (rtargets d).
Proof. intros d x i y H. unfold rtargets. apply in_flat_map. exists (x, VRef i y). split; [exact H | left; reflexivity]. Qed.
Lemma in_rids : forall d x i y, In (x, VRef i y) d -> In i (rids d).
Proof. intros d x i y H. unfold rids. apply in_flat_map. exists (x, VRef i y). split; [exact H | left; reflexivity]. Qed.
Lemma in_rlits : forall d x t, In (x, VLit t) d -> In t (rlits d).
Proof. intros d x t H. unfold rlits. apply in_flat_map. exists (x, VLit t). split; [exact H | left; reflexivity]. Qed.
Lemma rtargets_inv : forall d y, In y (rtargets d) -> exists x i, In (x, VRef i y) d.
Proof.
  intros d y H. unfold rtargets in H. apply in_flat_map in H. destruct H as [[x [t|i z]] [Hin H]]; cbn [snd] in H; [contradiction|].
  destruct H as [H|[]]. subst z. exists x, i. exact Hin.
Qed.
Lemma rids_inv : forall d i, In i (rids d) -> exists x y, In (x, VRef i y) d.
Proof.
  intros d i H. unfold rids in H. apply in_flat_map in H. destruct H as [[x [t|j z]] [Hin H]]; cbn [snd] in H; [contradiction|].
  destruct H as [H|[]]. subst j. exists x, z. exact Hin.
Qed.
Lemma rlits_inv : forall d t, In t (rlits d) -> exists x, In (x, VLit t) d.
Proof.
  intros d t H. unfold rlits in H. apply in_flat_map in H. destruct H as [[x [t0|j z]] [Hin H]]; cbn [snd] in H; [|contradiction].
  destruct H as [H|[]]. subst t0. exists x. exact Hin.
Qed.

Lemma rtable_app : forall d1 d2, rtable (d1 ++ d2) = rtable d1 ++ rtable d2.
Proof. intros. unfold rtable. apply flat_map_app. Qed.
Lemma rids_app : forall d1 d2, rids (d1 ++ d2) = rids d1 ++ rids d2.
Proof. intros. unfold rids. apply flat_map_app. Qed.
Lemma rdata_app : forall d1 d2, rdata (d1 ++ d2) = rdata d1 ++ rdata d2.
Proof. intros. unfold rdata. apply map_app. Qed.
Lemma rtable_ids : forall d, map fst (rtable d) = rids d.
Proof.
  induction d as [|[x [t|i y]] d IH]; [reflexivity| |]; unfold rtable, rids in *; cbn [flat_map rentry snd app map fst];
    [exact IH | rewrite IH; reflexivity].
Qed.
Lemma rdata_keys : forall d, map fst (rdata d) = map KS (map fst d).
Proof. intro d. unfold rdata. rewrite !map_map. reflexivity. Qed.
Lemma KS_nodup : forall l : list str, NoDup l -> NoDup (map KS l).
Proof.
  intros l H. induction H as [|x l Hx Hl IH]; cbn [map]; constructor; [|exact IH].
  intro Hc. apply in_map_iff in Hc. destruct Hc as [z [E Hz]]. inversion E; subst. contradiction.
Qed.

Lemma alookup_rdata : forall d y, alookup (KS y) (rdata d) = option_map rleaf (rlook y d).
Proof.
  induction d as [|[x v] d IH]; intro y; [reflexivity|]. cbn [rdata map fst snd alookup key_eqb rlook].
  destruct (str_eqb y x); [reflexivity | apply IH].
Qed.

Lemma tlookup_rtable : forall d x i y, NoDup (rids d) -> In (x, VRef i y) d ->
  tlookup i (rtable d) = Some (ref_of y, ph_of i).
Proof.
  intros d x i y Hnd Hin. apply in_split in Hin. destruct Hin as [d1 [d2 ->]].
  rewrite rtable_app. change (rtable ((x, VRef i y) :: d2)) with ((i, (ref_of y, ph_of i)) :: rtable d2).
  apply tlookup_mid. rewrite rtable_ids. rewrite rids_app in Hnd.
  change (rids ((x, VRef i y) :: d2)) with (i :: rids d2) in Hnd.
  apply NoDup_remove_2 in Hnd. intro Hc. apply Hnd. apply in_or_app. left. exact Hc.
Qed.

Lemma has_placeholder_contains : forall w s, has_placeholder w s = true -> contains w s = true.
Proof.
  intros w. induction s as [|c s IH]; intro H; rewrite has_placeholder_unfold in H.
  - rewrite orb_false_r in H. apply andb_true_iff in H. destruct H as [H _]. destruct w; [reflexivity | discriminate H].
  - cbn [contains]. apply orb_true_iff in H. destruct H as [H|H].
    + apply andb_true_iff in H. destruct H as [H _]. rewrite H. reflexivity.
    + rewrite (IH H). apply orb_true_r.
Qed.

Lemma insert_expression_lit : forall t tab, contains w_EXPRESSION (py_str_tree t) = false -> insert_expression t tab = t.
Proof.
  intros t tab H. destruct t as [[z|l|b| |s]|kvs|ts]; try reflexivity. cbn [py_str_tree py_str] in H.
  unfold insert_expression. destruct (has_placeholder w_EXPRESSION s) eqn:E; [|reflexivity].
  rewrite (has_placeholder_contains _ _ E) in H. discriminate H.
Qed.

Lemma assigned_lit : forall tab y t, lit_ok y t = true -> assigned tab y t = Some t.
Proof.
  intros tab y t H. unfold lit_ok in H. apply andb_true_iff in H. destruct H as [H Hc].
  apply andb_true_iff in H. destruct H as [_ He]. apply negb_true_iff in He, Hc.
  unfold assigned. destruct t as [s|kvs|ts]; [| |reflexivity]; cbv zeta; rewrite (insert_expression_lit _ tab He), Hc; reflexivity.
Qed.

Lemma vars_ref_sdict : forall d lc bc inc y, rok d -> In y (rtargets d) ->
  alookup (KS y) (variables_of (ref_sdict d lc bc inc)) = vshape d y.
Proof.
  intros d lc bc inc y Hok Hy. unfold variables_of, ref_sdict. cbn [sd_data sd_expr].
  rewrite vars_top.
  - rewrite alookup_rdata. unfold vshape. destruct (rlook y d) as [[t|i z]|] eqn:El; cbn [option_map rleaf]; [| |reflexivity].
    + rewrite (assigned_lit _ y t); [reflexivity|]. apply (rok_lit d Hok y t Hy). apply rlook_in. exact El.
    + apply rlook_in in El. unfold assigned. cbv zeta.
      rewrite (insert_expression_ph i _ (rok_idb d Hok i (in_rids d y i z El))).
      rewrite (tlookup_rtable d y i z (rok_ids d Hok) El).
      destruct (circular (KS y) (Leaf (SStr (ref_of z)))); reflexivity.
  - intros kv Hkv. unfold rdata in Hkv. apply in_map_iff in Hkv. destruct Hkv as [[x v] [E Hin]]. subst kv. cbn [fst snd].
    destruct v as [t|i z]; cbn [rleaf inner_names]; [|intros []].
    apply (rok_top d Hok y t Hy). apply (in_rlits d x t Hin).
  - rewrite rdata_keys. apply KS_nodup. apply (rok_names d Hok).
Qed.

(* what a reference of the document resolves to *)
Lemma resolve_ref_sdict : forall d lc bc inc y, rok d -> In y (rtargets d) ->
  resolve_reference (variables_of (ref_sdict d lc bc inc)) (ref_of y) =
  match denote_ref d y with Some t => RVal t | None => RNone end.
Proof.
  intros d lc bc inc y Hok Hy.
  apply (resolve_follow (variables_of (ref_sdict d lc bc inc)) d (fun y => In y (rtargets d))).
  - apply (rok_word d Hok).
  - intros z Hz. apply (vars_ref_sdict d lc bc inc z Hok Hz).
  - intros z i w _ El. apply (in_rtargets d z i w). apply rlook_in. exact El.
  - intros z t Hz El. pose proof (rok_lit d Hok z t Hz (rlook_in d z _ El)) as H. unfold lit_ok in H.
    apply andb_true_iff in H. destruct H as [H _]. apply andb_true_iff in H. destruct H as [H _].
    apply andb_true_iff in H. destruct H as [H _]. apply negb_true_iff in H. exact H.
  - exact Hy.
Qed.

(* ================================================================================================ *)
(* 3. resolve_all on the document                                                                   *)
(* ================================================================================================ *)
Definition tres_list (m : str -> option tree) (names : list str) : list (str * tree) :=
  flat_map (fun y => match m y with Some t => [(ref_of y, t)] | None => [] end) names.
Definition tunres (m : str -> option tree) (names : list str) : nat :=
  length (filter (fun y => negb (is_some (m y))) names).

Lemma resolve_body_tnames : forall f m names,
  (forall y, In y names -> (f (ref_of y) <> ROutside /\ f (ref_of y) <> RFuel) /\ usable (f (ref_of y)) = m y) ->
  resolve_body f (map ref_of names) = Some (tres_list m names, tunres m names).
Proof.
  intros f m names H. unfold resolve_body.
  assert (E1 : existsb (fun p : str * rres => match snd p with ROutside | RFuel => true | _ => false end)
                 (map (fun r => (r, f r)) (map ref_of names)) = false).
  { induction names as [|y names IH]; [reflexivity|]. cbn [map existsb snd].
    rewrite IH by (intros z Hz; apply H; right; exact Hz).
    destruct (H y (or_introl eq_refl)) as [[Ho Hf] _]. destruct (f (ref_of y)); try reflexivity; contradiction. }
  rewrite E1. clear E1. f_equal. f_equal.
  - unfold tres_list. induction names as [|y names IH]; [reflexivity|]. cbn [map flat_map fst snd].
    rewrite IH by (intros z Hz; apply H; right; exact Hz).
    destruct (H y (or_introl eq_refl)) as [_ Hu]. rewrite Hu. reflexivity.
  - unfold tunres. induction names as [|y names IH]; [reflexivity|]. cbn [map filter fst snd].
    destruct (H y (or_introl eq_refl)) as [_ Hu]. rewrite Hu.
    destruct (m y) as [t|]; cbn [is_some negb length]; [|f_equal]; apply IH; intros z Hz; apply H; right; exact Hz.
Qed.

Lemma rlookup_tres_list : forall m names y, In y names -> rlookup (ref_of y) (tres_list m names) = m y.
Proof.
  intros m. induction names as [|x names IH]; intros y Hin; [contradiction|].
  unfold tres_list in *. cbn [flat_map].
  destruct (str_eqb y x) eqn:E.
  - apply str_eqb_eq in E. subst x. destruct (m y) as [v|] eqn:Em.
    + cbn [app rlookup]. rewrite str_eqb_refl. reflexivity.
    + cbn [app]. clear IH Hin. induction names as [|x names IHn]; [reflexivity|]. cbn [flat_map].
      destruct (m x) as [w|] eqn:Ex; cbn [app]; [|exact IHn]. cbn [rlookup]. rewrite str_eqb_ref_of.
      destruct (str_eqb y x) eqn:E; [|exact IHn]. apply str_eqb_eq in E. subst x. congruence.
  - destruct Hin as [Hin|Hin]; [subst x; rewrite str_eqb_refl in E; discriminate|].
    destruct (m x) as [w|]; cbn [app]; [|apply IH; exact Hin].
    cbn [rlookup]. rewrite str_eqb_ref_of, E. apply IH. exact Hin.
Qed.

Lemma expr_refs_ref : forall y, word_name y -> expr_refs_of (ref_of y) = [ref_of y].
Proof.
  intros y Hy.
  assert (Hg : blank_fn g_tight) by (intro i; reflexivity).
  pose proof (rrefs_render nothing g_tight (AVar y) Hg) as H. cbn [avars] in H.
  specialize (H (Forall_cons y (word_rname y Hy) (Forall_nil _))).
  rewrite render_var in H. unfold nothing, g_tight in H. cbn [app filter is_some negb map] in H.
  rewrite app_nil_r in H. exact H.
Qed.

Lemma all_refs_rtable : forall d, (forall y, In y (rtargets d) -> word_name y) ->
  all_refs (rtable d) = map ref_of (rtargets d).
Proof.
  induction d as [|[x [t|i y]] d IH]; intro Hw; [reflexivity| |].
  - apply IH. exact Hw.
  - unfold rtable, rtargets, all_refs in *. cbn [flat_map rentry snd app map fst].
    rewrite (expr_refs_ref y) by (apply Hw; left; reflexivity). cbn [app]. f_equal.
    apply IH. intros z Hz. apply Hw. right. exact Hz.
Qed.

Lemma follow_lit : forall d n y t, In y (rtargets d) -> follow d n y = Some t ->
  exists z, In z (rtargets d) /\ In (z, VLit t) d.
Proof.
  intros d. induction n as [|n IH]; intros y t Hy H; [discriminate H|].
  rewrite follow_S in H. destruct (rlook y d) as [[t0|i z]|] eqn:El; [| |discriminate H].
  - inversion H; subst t0. exists y. split; [exact Hy | apply rlook_in; exact El].
  - apply (IH z t); [|exact H]. apply (in_rtargets d y i z). apply rlook_in. exact El.
Qed.

Lemma usable_denote : forall d y, rok d -> In y (rtargets d) ->
  usable (match denote_ref d y with Some t => RVal t | None => RNone end) = ref_value d y.
Proof.
  intros d y Hok Hy. unfold ref_value. destruct (denote_ref d y) as [t|] eqn:Ed; [|reflexivity].
  destruct (follow_lit d _ y t Hy Ed) as [z [Hz Hin]]. pose proof (rok_lit d Hok z t Hz Hin) as H.
  unfold lit_ok in H. apply andb_true_iff in H. destruct H as [H _]. apply andb_true_iff in H. destruct H as [H He].
  apply andb_true_iff in H. destruct H as [_ Hd]. apply negb_true_iff in He, Hd.
  unfold usable. rewrite Hd, He. cbn [orb]. destruct t as [[ | | | | ]| |]; reflexivity.
Qed.

Lemma resolve_all_ref_sdict : forall d lc bc inc, rok d ->
  resolve_all (ref_sdict d lc bc inc) =
  Some (tres_list (ref_value d) (dedup [] (rtargets d)), tunres (ref_value d) (dedup [] (rtargets d))).
Proof.
  intros d lc bc inc Hok. rewrite resolve_all_body. unfold ref_sdict at 2. cbn [sd_expr].
  rewrite (all_refs_rtable d (rok_word d Hok)).
  change (@nil str) with (map ref_of []) at 1. rewrite dedup_map_ref.
  apply resolve_body_tnames. intros y Hy. apply (proj1 (dedup_in _ _)) in Hy.
  rewrite (resolve_ref_sdict d lc bc inc y Hok Hy). split.
  - destruct (denote_ref d y); split; discriminate.
  - apply (usable_denote d y Hok Hy).
Qed.

(* ================================================================================================ *)
(* 4. one pass                                                                                      *)
(* ================================================================================================ *)
(* the placeholder leaf among entries that do not contain it is overwritten by a value that does not contain it *)
Lemma insert_result_at : forall (l1 l2 : list (key * tree)) (k : key) (ph : str) (v : tree),
  NoDup (map fst (l1 ++ (k, Leaf (SStr ph)) :: l2)) ->
  Forall (fun kv => find_key ph (snd kv) = None) (l1 ++ l2) ->
  find_key ph v = None ->
  insert_result (S (count_leaves (Dict (l1 ++ (k, Leaf (SStr ph)) :: l2)))) ph v
                (Dict (l1 ++ (k, Leaf (SStr ph)) :: l2))
  = Ok (Dict (l1 ++ (k, v) :: l2)).
Proof.
  intros l1 l2 k ph v Hnd Hf Hv.
  rewrite insert_result_S.
  assert (Hfind : find_global_key ph (Dict (l1 ++ (k, Leaf (SStr ph)) :: l2)) = Some [k]).
  { unfold find_global_key. rewrite (find_key_dict_one' ph l1 l2 k Hf). reflexivity. }
  rewrite Hfind. unfold set_global_key. cbn [set_at set_child bind].
  rewrite aset_mid.
  2:{ rewrite map_app in Hnd. cbn [map fst] in Hnd. pose proof (NoDup_remove_2 _ _ _ Hnd) as Hn.
      intro Hin. apply Hn. apply in_or_app. left. exact Hin. }
  destruct (contains ph (py_str_tree v)); [reflexivity|].
  pose proof (count_leaves_mid l1 l2 k (SStr ph)) as Hc.
  destruct (count_leaves (Dict (l1 ++ (k, Leaf (SStr ph)) :: l2))) as [|n]; [lia|].
  rewrite insert_result_S.
  assert (Hnone : find_global_key ph (Dict (l1 ++ (k, v) :: l2)) = None).
  { unfold find_global_key. rewrite find_key_dict_none; [reflexivity|].
    apply Forall_app in Hf. destruct Hf as [Hf1 Hf2]. apply Forall_app. split; [exact Hf1|].
    constructor; [exact Hv | exact Hf2]. }
  rewrite Hnone. reflexivity.
Qed.

Definition rstep1 (d : rdoc) (v : rval) : rval :=
  match v with
  | VRef i y => match ref_value d y with Some t => VLit t | None => v end
  | VLit _ => v
  end.
Definition rstep (d : rdoc) : rdoc := map (fun xv => (fst xv, rstep1 d (snd xv))) d.

Lemma ref_value_lit : forall d y t, In y (rtargets d) -> ref_value d y = Some t -> exists z, In z (rtargets d) /\ In (z, VLit t) d.
Proof.
  intros d y t Hy H. unfold ref_value in H. destruct (denote_ref d y) as [t0|] eqn:Ed; [|discriminate H].
  assert (t0 = t) by (destruct t0 as [[ | | | | ]| |]; try discriminate H; inversion H; reflexivity). subst t0.
  apply (follow_lit d _ y t Hy Ed).
Qed.

Lemma ph_leaf_other : forall i j, (i < 1000000)%N -> (j < 1000000)%N -> i <> j ->
  find_key (ph_of i) (Leaf (SStr (ph_of j))) = None.
Proof.
  intros i j Hi Hj Hne. cbn [find_key py_str]. rewrite (ph_contains_ph i j Hi Hj).
  destruct (N.eqb_spec i j); [contradiction | reflexivity].
Qed.

Section Pass.
  Variable d : rdoc.
  Variables (lc bc : list (N * str)) (inc : list (N * include_entry)).
  Hypothesis Hok : rok d.
  Let res := tres_list (ref_value d) (dedup [] (rtargets d)).
  Let st := fun xv : str * rval => (fst xv, rstep1 d (snd xv)).

  Definition rmixed (d1 d2 : rdoc) : sdict := ref_sdict (map st d1 ++ d2) lc bc inc.

  Lemma free_entry : forall x v i, In (x, v) d -> In i (rids d) -> (forall y, v <> VRef i y) ->
    find_key (ph_of i) (rleaf v) = None /\ find_key (ph_of i) (rleaf (rstep1 d v)) = None.
  Proof.
    intros x v i Hin Hi Hne. destruct v as [t|j y]; cbn [rleaf rstep1].
    - split; apply (rok_ph d Hok i t Hi (in_rlits d x t Hin)).
    - assert (Hj : find_key (ph_of i) (Leaf (SStr (ph_of j))) = None).
      { apply ph_leaf_other; [apply (rok_idb d Hok i Hi) | apply (rok_idb d Hok j (in_rids d x j y Hin)) |].
        intro E. subst j. apply (Hne y). reflexivity. }
      split; [exact Hj|]. destruct (ref_value d y) as [t|] eqn:Ev; cbn [rleaf]; [|exact Hj].
      destruct (ref_value_lit d y t (in_rtargets d x j y Hin) Ev) as [z [_ Hz]].
      apply (rok_ph d Hok i t Hi (in_rlits d z t Hz)).
  Qed.

  Lemma st_fst : forall l, map fst (map st l) = map fst l.
  Proof. intro l. rewrite map_map. reflexivity. Qed.

  Lemma rids_st : forall l i, In i (rids (map st l)) -> In i (rids l).
  Proof.
    induction l as [|[x [t|j y]] l IH]; intros i H; [exact H| |].
    - apply IH. exact H.
    - unfold rids in *. cbn [map flat_map st fst snd rstep1] in *.
      destruct (ref_value d y); cbn [snd app] in *; [right; apply IH; exact H|].
      destruct H as [H|H]; [left; exact H | right; apply IH; exact H].
  Qed.

  Lemma sel_ref : forall x i y, In (x, VRef i y) d -> sel res (ref_of y) = ref_value d y.
  Proof.
    intros x i y Hin. pose proof (in_rtargets d x i y Hin) as Hy.
    pose proof (word_rname y (rok_word d Hok y Hy)) as Hr.
    unfold sel. rewrite (strip_ref y Hr), (plain_ref_of y Hr). unfold res.
    apply rlookup_tres_list. apply dedup_in. exact Hy.
  Qed.

  Lemma pass_mixed : forall d2 d1, d = d1 ++ d2 ->
    fold_left (pass_step res) (rtable d2) (Some (Ok (rmixed d1 d2))) = Some (Ok (rmixed d [])).
  Proof.
    induction d2 as [|[x v] d2 IH]; intros d1 Hd.
    - rewrite app_nil_r in Hd. subst d1. reflexivity.
    - assert (Hd' : d = (d1 ++ [(x, v)]) ++ d2) by (rewrite <- app_assoc; exact Hd).
      assert (Hin : In (x, v) d) by (rewrite Hd; apply in_or_app; right; left; reflexivity).
      destruct v as [t|i y].
      + change (rtable ((x, VLit t) :: d2)) with (rtable d2).
        assert (E : rmixed d1 ((x, VLit t) :: d2) = rmixed (d1 ++ [(x, VLit t)]) d2).
        { unfold rmixed. rewrite map_app, <- app_assoc. reflexivity. }
        rewrite E. apply IH. exact Hd'.
      + change (rtable ((x, VRef i y) :: d2)) with ((i, (ref_of y, ph_of i)) :: rtable d2). cbn [fold_left].
        pose proof (in_rtargets d x i y Hin) as Hy. pose proof (in_rids d x i y Hin) as Hi.
        pose proof (rok_word d Hok y Hy) as Hw.
        assert (Hids : NoDup (rids d1 ++ i :: rids d2)).
        { pose proof (rok_ids d Hok) as H. rewrite Hd, rids_app in H. exact H. }
        assert (Hi1 : ~ In i (map fst (rtable (map st d1)))).
        { rewrite rtable_ids. intro H. apply rids_st in H. apply NoDup_remove_2 in Hids. apply Hids. apply in_or_app. left. exact H. }
        assert (Hother : forall x' v', In (x', v') (d1 ++ d2) -> In (x', v') d /\ forall y', v' <> VRef i y').
        { intros x' v' H. split.
          - rewrite Hd. apply in_app_or in H. apply in_or_app. destruct H as [H|H]; [left; exact H | right; right; exact H].
          - intros y' E. subst v'. apply NoDup_remove_2 in Hids. apply Hids.
            rewrite <- rids_app. apply (in_rids _ x' i y' H). }
        assert (Hstate : rmixed d1 ((x, VRef i y) :: d2) =
                         mkSD (rdata (map st d1) ++ (KS x, Leaf (SStr (ph_of i))) :: rdata d2) lc bc inc
                              (rtable (map st d1) ++ (i, (ref_of y, ph_of i)) :: rtable d2)).
        { unfold rmixed, ref_sdict. rewrite rdata_app, rtable_app. reflexivity. }
        assert (Hnd : NoDup (map fst (rdata (map st d1) ++ (KS x, Leaf (SStr (ph_of i))) :: rdata d2))).
        { change ((KS x, Leaf (SStr (ph_of i))) :: rdata d2) with (rdata ((x, VRef i y) :: d2)).
          rewrite <- rdata_app, rdata_keys, map_app, st_fst, <- map_app, <- Hd. apply KS_nodup. apply (rok_names d Hok). }
        assert (Hfree : Forall (fun kv => find_key (ph_of i) (snd kv) = None) (rdata (map st d1) ++ rdata d2)).
        { apply Forall_app. split; apply Forall_forall; intros kv Hkv; unfold rdata in Hkv; apply in_map_iff in Hkv;
            destruct Hkv as [[x' v'] [E Hkv]]; subst kv; cbn [fst snd].
          - apply in_map_iff in Hkv. destruct Hkv as [[x0 v0] [E Hkv]]. unfold st in E. cbn [fst snd] in E. inversion E; subst x' v'.
            destruct (Hother x0 v0 (in_or_app _ _ _ (or_introl Hkv))) as [H1 H2].
            apply (free_entry x0 v0 i H1 Hi H2).
          - destruct (Hother x' v' (in_or_app _ _ _ (or_intror Hkv))) as [H1 H2].
            apply (free_entry x' v' i H1 Hi H2). }
        rewrite Hstate.
        destruct (ref_value d y) as [t|] eqn:Ev.
        * (* resolved: the literal is inserted, the entry leaves the table *)
          assert (Hvt : find_key (ph_of i) t = None).
          { destruct (ref_value_lit d y t Hy Ev) as [z [_ Hz]]. apply (rok_ph d Hok i t Hi (in_rlits d z t Hz)). }
          rewrite (pass_step_value res _ i (ref_of y) (ph_of i) t (rdata (map st d1) ++ (KS x, t) :: rdata d2)).
          -- cbn [sd_lc sd_bc sd_inc sd_expr]. rewrite (tdel_mid _ _ i _ Hi1).
             assert (E : mkSD (rdata (map st d1) ++ (KS x, t) :: rdata d2) lc bc inc (rtable (map st d1) ++ rtable d2) =
                         rmixed (d1 ++ [(x, VRef i y)]) d2).
             { unfold rmixed, ref_sdict. rewrite map_app, <- app_assoc. cbn [map app]. change (st (x, VRef i y)) with (x, rstep1 d (VRef i y)). cbn [rstep1]. rewrite Ev.
               rewrite rdata_app, rtable_app. reflexivity. }
             rewrite E. apply IH. exact Hd'.
          -- rewrite (sel_ref x i y Hin). exact Ev.
          -- cbn [sd_data]. apply (insert_result_at _ _ (KS x) (ph_of i) t Hnd Hfree Hvt).
        * (* unresolved: the entry stays as it is *)
          assert (Hsub : substitute res (ref_of y) = ref_of y).
          { unfold substitute. rewrite (expr_refs_ref y Hw). cbn [fold_left].
            pose proof (sel_ref x i y Hin) as Hs. unfold sel in Hs.
            rewrite (strip_ref y (word_rname y Hw)), (plain_ref_of y (word_rname y Hw)), Ev in Hs. rewrite Hs. reflexivity. }
          rewrite pass_step_keep';
            [ | rewrite (sel_ref x i y Hin); exact Ev
              | rewrite Hsub; unfold has_char, ref_of; cbn [existsb]; rewrite N.eqb_refl; reflexivity ].
          cbn [sd_data sd_lc sd_bc sd_inc sd_expr]. rewrite (tset_mid _ _ i _ _ Hi1), Hsub.
          match goal with |- fold_left _ _ (Some (Ok ?s)) = _ => replace s with (rmixed (d1 ++ [(x, VRef i y)]) d2) end;
            [apply IH; exact Hd'|].
          unfold rmixed, ref_sdict. rewrite map_app, <- app_assoc. cbn [map app].
          change (st (x, VRef i y)) with (x, rstep1 d (VRef i y)). cbn [rstep1]. rewrite Ev.
          rewrite rdata_app, rtable_app. reflexivity.
  Qed.

  Lemma pass_ref_sdict : eval_pass res (ref_sdict d lc bc inc) = Some (Ok (ref_sdict (rstep d) lc bc inc)).
  Proof.
    rewrite eval_pass_fold. unfold ref_sdict at 1. cbn [sd_expr].
    pose proof (pass_mixed d [] eq_refl) as H. unfold rmixed in H. cbn [map app] in H. rewrite app_nil_r in H. exact H.
  Qed.
End Pass.

(* ================================================================================================ *)
(* 5. the document after the pass: nothing more resolves                                            *)
(* ================================================================================================ *)
Lemma rstep_fst : forall d0 l, map fst (map (fun xv : str * rval => (fst xv, rstep1 d0 (snd xv))) l) = map fst l.
Proof. intros. rewrite map_map. reflexivity. Qed.

Lemma rstep_in : forall d x v', In (x, v') (rstep d) -> exists v, In (x, v) d /\ v' = rstep1 d v.
Proof.
  intros d x v' H. unfold rstep in H. apply in_map_iff in H. destruct H as [[x0 v0] [E H]]. cbn [fst snd] in E.
  inversion E; subst. exists v0. split; [exact H | reflexivity].
Qed.

Lemma rstep_ref : forall d x i y, In (x, VRef i y) (rstep d) -> In (x, VRef i y) d /\ ref_value d y = None.
Proof.
  intros d x i y H. destruct (rstep_in d x _ H) as [v [Hin E]]. destruct v as [t|j z]; cbn [rstep1] in E; [discriminate E|].
  destruct (ref_value d z) eqn:Ev; [discriminate E|]. inversion E; subst. split; assumption.
Qed.

Lemma rstep_lit : forall d x t, In (x, VLit t) (rstep d) ->
  In (x, VLit t) d \/ exists i y, In (x, VRef i y) d /\ ref_value d y = Some t.
Proof.
  intros d x t H. destruct (rstep_in d x _ H) as [v [Hin E]]. destruct v as [t0|j z]; cbn [rstep1] in E.
  - inversion E; subst. left. exact Hin.
  - destruct (ref_value d z) eqn:Ev; [|discriminate E]. inversion E; subst. right. exists j, z. split; assumption.
Qed.

Lemma rlook_rstep : forall d0 d y, rlook y (map (fun xv : str * rval => (fst xv, rstep1 d0 (snd xv))) d) = option_map (rstep1 d0) (rlook y d).
Proof.
  intros d0. induction d as [|[x v] d IH]; intro y; [reflexivity|]. cbn [map fst snd rlook].
  destruct (str_eqb y x); [reflexivity | apply IH].
Qed.

Lemma rids_rstep_sub : forall d0 l i, In i (rids (map (fun xv : str * rval => (fst xv, rstep1 d0 (snd xv))) l)) -> In i (rids l).
Proof.
  intros d0. induction l as [|[x [t|j y]] l IH]; intros i H; [exact H| |].
  - apply IH. exact H.
  - unfold rids in *. cbn [map flat_map fst snd rstep1] in *.
    destruct (ref_value d0 y); cbn [snd app] in *; [right; apply IH; exact H|].
    destruct H as [H|H]; [left; exact H | right; apply IH; exact H].
Qed.

Lemma rids_rstep_nodup : forall d0 l, NoDup (rids l) -> NoDup (rids (map (fun xv : str * rval => (fst xv, rstep1 d0 (snd xv))) l)).
Proof.
  intros d0. induction l as [|[x [t|j y]] l IH]; intro H; [exact H| |].
  - apply IH. exact H.
  - unfold rids in *. cbn [map flat_map fst snd rstep1 app] in *. inversion H as [|? ? Hj Hl]; subst.
    destruct (ref_value d0 y); cbn [snd app]; [apply IH; exact Hl|].
    constructor; [|apply IH; exact Hl]. intro Hc. apply Hj. apply (rids_rstep_sub d0 l j Hc).
Qed.

Lemma denote_step : forall d y i z t, rlook y d = Some (VRef i z) -> denote_ref d z = Some t -> denote_ref d y = Some t.
Proof.
  intros d y i z t El H. apply (follow_denote d (S (length d)) y t). rewrite follow_S, El. exact H.
Qed.

Lemma ref_value_step : forall d y i z t, rlook y d = Some (VRef i z) -> ref_value d z = Some t -> ref_value d y = Some t.
Proof.
  intros d y i z t El H. unfold ref_value in *. destruct (denote_ref d z) as [t0|] eqn:Ed; [|discriminate H].
  rewrite (denote_step d y i z t0 El Ed). exact H.
Qed.

Lemma rok_rstep : forall d, rok d -> rok (rstep d).
Proof.
  intros d Hok.
  assert (Htg : forall y, In y (rtargets (rstep d)) -> In y (rtargets d) /\ ref_value d y = None).
  { intros y Hy. destruct (rtargets_inv _ y Hy) as [x [i Hin]]. destruct (rstep_ref d x i y Hin) as [H1 H2].
    split; [apply (in_rtargets d x i y H1) | exact H2]. }
  assert (Hid : forall i, In i (rids (rstep d)) -> In i (rids d)) by (apply rids_rstep_sub).
  assert (Hlt : forall t, In t (rlits (rstep d)) -> In t (rlits d)).
  { intros t Ht. destruct (rlits_inv _ t Ht) as [x Hin]. destruct (rstep_lit d x t Hin) as [H|[i [y [H Hv]]]].
    - apply (in_rlits d x t H).
    - destruct (ref_value_lit d y t (in_rtargets d x i y H) Hv) as [z [_ Hz]]. apply (in_rlits d z t Hz). }
  constructor.
  - unfold rstep. rewrite rstep_fst. apply (rok_names d Hok).
  - apply rids_rstep_nodup. apply (rok_ids d Hok).
  - intros i Hi. apply (rok_idb d Hok i (Hid i Hi)).
  - intros y Hy. apply (rok_word d Hok y (proj1 (Htg y Hy))).
  - intros y t Hy Ht. apply (rok_top d Hok y t (proj1 (Htg y Hy)) (Hlt t Ht)).
  - intros i t Hi Ht. apply (rok_ph d Hok i t (Hid i Hi) (Hlt t Ht)).
  - intros i y Hi Hy. apply (rok_phy d Hok i y (Hid i Hi) (proj1 (Htg y Hy))).
  - intros y t Hy Hin. destruct (Htg y Hy) as [Hy1 Hy2]. destruct (rstep_lit d y t Hin) as [H|[i [z [H Hv]]]].
    + apply (rok_lit d Hok y t Hy1 H).
    + exfalso. rewrite (ref_value_step d y i z t (in_rlook d y _ (rok_names d Hok) H) Hv) in Hy2. discriminate Hy2.
Qed.

(* a chain of the stepped document is a chain of the document *)
Lemma follow_rstep : forall d n y t, follow (rstep d) n y = Some t -> denote_ref d y = Some t.
Proof.
  intros d. induction n as [|n IH]; intros y t H; [discriminate H|].
  rewrite follow_S in H. unfold rstep in H. rewrite rlook_rstep in H. fold (rstep d) in H.
  destruct (rlook y d) as [[t0|i z]|] eqn:El; cbn [option_map rstep1] in H; [| |discriminate H].
  - inversion H; subst t0. apply (follow_denote d 1 y t). rewrite follow_S, El. reflexivity.
  - destruct (ref_value d z) as [t1|] eqn:Ev.
    + inversion H; subst t1. unfold ref_value in Ev. destruct (denote_ref d z) as [t0|] eqn:Ed; [|discriminate Ev].
      assert (t0 = t) by (destruct t0 as [[ | | | | ]| |]; try discriminate Ev; inversion Ev; reflexivity). subst t0.
      apply (denote_step d y i z t El Ed).
    + apply (denote_step d y i z t El). apply (IH z t H).
Qed.

Lemma rstep_stable : forall d y, In y (rtargets (rstep d)) -> ref_value d y = None -> ref_value (rstep d) y = None.
Proof.
  intros d y _ Hv. unfold ref_value in *. destruct (denote_ref (rstep d) y) as [t|] eqn:Ed; [|reflexivity].
  unfold denote_ref in Ed. rewrite (follow_rstep d _ y t Ed) in Hv. exact Hv.
Qed.

Lemma rstep_fixed : forall d, rok d -> rstep (rstep d) = rstep d.
Proof.
  intros d Hok. unfold rstep at 1. rewrite <- (map_id (rstep d)) at 2. apply map_ext_in. intros [x v] Hin. cbn [fst snd].
  destruct v as [t|i y]; [reflexivity|]. cbn [rstep1]. destruct (rstep_ref d x i y Hin) as [_ Hv].
  rewrite (rstep_stable d y (in_rtargets _ x i y Hin) Hv). reflexivity.
Qed.

Lemma eval_loop_S : forall f s resolved unresolved,
  eval_loop (S f) s resolved unresolved =
  match eval_pass resolved s with
  | Some (Ok s') =>
      match resolve_all s' with
      | None => None
      | Some (resolved', unresolved') =>
          if Nat.ltb unresolved' unresolved then eval_loop f s' resolved' unresolved' else Some (Ok s')
      end
  | other => other
  end.
Proof. reflexivity. Qed.

Lemma loop_ref_sdict : forall d lc bc inc, rok d ->
  eval_expressions (ref_sdict d lc bc inc) = Some (back_insert (ref_sdict (rstep d) lc bc inc)).
Proof.
  intros d lc bc inc Hok. unfold eval_expressions.
  rewrite (resolve_all_ref_sdict d lc bc inc Hok).
  set (u := tunres (ref_value d) (dedup [] (rtargets d))).
  rewrite eval_loop_S, (pass_ref_sdict d lc bc inc Hok).
  pose proof (rok_rstep d Hok) as Hok'.
  rewrite (resolve_all_ref_sdict (rstep d) lc bc inc Hok').
  set (u' := tunres (ref_value (rstep d)) (dedup [] (rtargets (rstep d)))).
  destruct (Nat.ltb u' u); [|reflexivity].
  rewrite eval_loop_S, (pass_ref_sdict (rstep d) lc bc inc Hok'), (rstep_fixed d Hok).
  rewrite (resolve_all_ref_sdict (rstep d) lc bc inc Hok'). fold u'. rewrite Nat.ltb_irrefl. reflexivity.
Qed.

(* ================================================================================================ *)
(* 6. the write-back of what could not be resolved                                                  *)
(* ================================================================================================ *)
Definition rb_step (acc : res (list (key * tree))) (e : N * expr_entry) : res (list (key * tree)) :=
  bind acc (fun dd =>
    let '(_, (expression, ph)) := e in
    bind (insert_result (S (count_leaves (Dict dd))) ph (Leaf (SStr expression)) (Dict dd))
         (fun t => match t with Dict d' => Ok d' | _ => Ok dd end)).

Lemma back_insert_rb : forall s,
  back_insert s = bind (fold_left rb_step (sd_expr s) (Ok (sd_data s)))
                       (fun dd => Ok (mkSD dd (sd_lc s) (sd_bc s) (sd_inc s) [])).
Proof. reflexivity. Qed.

Definition rback_leaf (v : rval) : tree := match v with VLit t => t | VRef _ y => Leaf (SStr (ref_of y)) end.
Definition rback (e : rdoc) : list (key * tree) := map (fun xv => (KS (fst xv), rback_leaf (snd xv))) e.

Lemma rback_app : forall e1 e2, rback (e1 ++ e2) = rback e1 ++ rback e2.
Proof. intros. unfold rback. apply map_app. Qed.
Lemma rback_keys : forall e, map fst (rback e) = map KS (map fst e).
Proof. intro e. unfold rback. rewrite !map_map. reflexivity. Qed.

Lemma back_mixed : forall e, rok e -> forall e2 e1, e = e1 ++ e2 ->
  fold_left rb_step (rtable e2) (Ok (rback e1 ++ rdata e2)) = Ok (rback e).
Proof.
  intros e Hok. induction e2 as [|[x v] e2 IH]; intros e1 He.
  - rewrite app_nil_r in He. subst e1. cbn [rtable flat_map fold_left rdata map]. rewrite app_nil_r. reflexivity.
  - assert (He' : e = (e1 ++ [(x, v)]) ++ e2) by (rewrite <- app_assoc; exact He).
    assert (Hin : In (x, v) e) by (rewrite He; apply in_or_app; right; left; reflexivity).
    destruct v as [t|i y].
    + change (rtable ((x, VLit t) :: e2)) with (rtable e2).
      replace (rback e1 ++ rdata ((x, VLit t) :: e2)) with (rback (e1 ++ [(x, VLit t)]) ++ rdata e2);
        [apply IH; exact He'|]. rewrite rback_app, <- app_assoc. reflexivity.
    + change (rtable ((x, VRef i y) :: e2)) with ((i, (ref_of y, ph_of i)) :: rtable e2). cbn [fold_left].
      pose proof (in_rtargets e x i y Hin) as Hy. pose proof (in_rids e x i y Hin) as Hi.
      assert (Hids : NoDup (rids e1 ++ i :: rids e2)).
      { pose proof (rok_ids e Hok) as H. rewrite He, rids_app in H. exact H. }
      assert (Hother : forall x' v', In (x', v') (e1 ++ e2) -> In (x', v') e /\ forall y', v' <> VRef i y').
      { intros x' v' H. split.
        - rewrite He. apply in_app_or in H. apply in_or_app. destruct H as [H|H]; [left; exact H | right; right; exact H].
        - intros y' E. subst v'. apply NoDup_remove_2 in Hids. apply Hids.
          rewrite <- rids_app. apply (in_rids _ x' i y' H). }
      assert (Hnd : NoDup (map fst (rback e1 ++ (KS x, Leaf (SStr (ph_of i))) :: rdata e2))).
      { rewrite map_app. cbn [map fst]. rewrite rback_keys, rdata_keys.
        change (KS x :: map KS (map fst e2)) with (map KS (map fst ((x, VRef i y) :: e2))).
        rewrite <- map_app, <- map_app, <- He. apply KS_nodup. apply (rok_names e Hok). }
      assert (Hfree : Forall (fun kv => find_key (ph_of i) (snd kv) = None) (rback e1 ++ rdata e2)).
      { apply Forall_app. split; apply Forall_forall; intros kv Hkv; [unfold rback in Hkv | unfold rdata in Hkv];
          apply in_map_iff in Hkv; destruct Hkv as [[x' v'] [E Hkv]]; subst kv; cbn [fst snd].
        - destruct (Hother x' v' (in_or_app _ _ _ (or_introl Hkv))) as [H1 H2]. destruct v' as [t|j z]; cbn [rback_leaf].
          + apply (rok_ph e Hok i t Hi (in_rlits e x' t H1)).
          + cbn [find_key py_str]. rewrite (rok_phy e Hok i z Hi (in_rtargets e x' j z H1)). reflexivity.
        - destruct (Hother x' v' (in_or_app _ _ _ (or_intror Hkv))) as [H1 H2]. destruct v' as [t|j z]; cbn [rleaf].
          + apply (rok_ph e Hok i t Hi (in_rlits e x' t H1)).
          + apply ph_leaf_other; [apply (rok_idb e Hok i Hi) | apply (rok_idb e Hok j (in_rids e x' j z H1)) |].
            intro E. subst j. apply (H2 z). reflexivity. }
      assert (Hv : find_key (ph_of i) (Leaf (SStr (ref_of y))) = None).
      { cbn [find_key py_str]. rewrite (rok_phy e Hok i y Hi Hy). reflexivity. }
      change (rdata ((x, VRef i y) :: e2)) with ((KS x, Leaf (SStr (ph_of i))) :: rdata e2).
      cbn [rb_step bind]. rewrite (insert_result_at _ _ (KS x) (ph_of i) _ Hnd Hfree Hv). cbn [bind].
      replace (rback e1 ++ (KS x, Leaf (SStr (ref_of y))) :: rdata e2) with (rback (e1 ++ [(x, VRef i y)]) ++ rdata e2);
        [apply IH; exact He'|]. rewrite rback_app, <- app_assoc. reflexivity.
Qed.

Lemma back_insert_ref_sdict : forall e lc bc inc, rok e ->
  back_insert (ref_sdict e lc bc inc) = Ok (mkSD (rback e) lc bc inc []).
Proof.
  intros e lc bc inc Hok. rewrite back_insert_rb. unfold ref_sdict. cbn [sd_expr sd_data sd_lc sd_bc sd_inc].
  pose proof (back_mixed e Hok e [] eq_refl) as H. cbn [rback map app] in H. rewrite H. reflexivity.
Qed.

Lemma rback_rstep : forall d, rback (rstep d) = ref_result d.
Proof.
  intro d. unfold rback, rstep, ref_result. rewrite map_map. apply map_ext. intros [x v]. cbn [fst snd]. f_equal.
  destruct v as [t|i y]; [reflexivity|]. cbn [rstep1 rfinal]. destruct (ref_value d y); reflexivity.
Qed.

(* ================================================================================================ *)
(* 7. the theorem                                                                                   *)
(* ================================================================================================ *)
Theorem reference_document_any_type_rok : forall d lc bc inc, rok d ->
  eval_expressions (ref_sdict d lc bc inc) = Some (Ok (mkSD (ref_result d) lc bc inc [])).
Proof.
  intros d lc bc inc Hok. rewrite (loop_ref_sdict d lc bc inc Hok).
  rewrite (back_insert_ref_sdict (rstep d) lc bc inc (rok_rstep d Hok)), rback_rstep. reflexivity.
Qed.

Lemma rdoc_okb_rok : forall d, rdoc_okb d = true -> rok d.
Proof.
  intros d H. unfold rdoc_okb in H.
  apply andb_true_iff in H. destruct H as [H H7]. apply andb_true_iff in H. destruct H as [H H6].
  apply andb_true_iff in H. destruct H as [H H5]. apply andb_true_iff in H. destruct H as [H H4].
  apply andb_true_iff in H. destruct H as [H H3]. apply andb_true_iff in H. destruct H as [H1 H2].
  rewrite forallb_forall in H3, H4, H5, H6, H7.
  constructor.
  - apply nodupb_sound. exact H1.
  - apply nodupNb_sound. exact H2.
  - intros i Hi. apply N.ltb_lt. apply (H3 i Hi).
  - intros y Hy. apply word_nameb_sound. apply (H4 y Hy).
  - intros y t Hy Ht Hc. pose proof (H5 y Hy) as Hm. apply negb_true_iff in Hm.
    assert (mem y (flat_map inner_names (rlits d)) = true); [|congruence].
    apply existsb_exists. exists y. split; [|apply str_eqb_refl]. apply in_flat_map. exists t. split; assumption.
  - intros i t Hi Ht. pose proof (H6 i Hi) as Hm. apply andb_true_iff in Hm. destruct Hm as [Hm _].
    rewrite forallb_forall in Hm. specialize (Hm t Ht). unfold no_ph in Hm.
    destruct (find_key (ph_of i) t); [discriminate Hm | reflexivity].
  - intros i y Hi Hy. pose proof (H6 i Hi) as Hm. apply andb_true_iff in Hm. destruct Hm as [_ Hm].
    rewrite forallb_forall in Hm. specialize (Hm y Hy). apply negb_true_iff in Hm. exact Hm.
  - intros y t Hy Hin. pose proof (H7 (y, VLit t) Hin) as Hm. cbn [fst snd] in Hm.
    assert (E : mem y (rtargets d) = true) by (apply existsb_exists; exists y; split; [exact Hy | apply str_eqb_refl]).
    rewrite E in Hm. exact Hm.
Qed.

Theorem reference_document_any_type : forall d lc bc inc, rdoc_okb d = true ->
  eval_expressions (ref_sdict d lc bc inc) = Some (Ok (mkSD (ref_result d) lc bc inc [])).
Proof. intros d lc bc inc H. apply reference_document_any_type_rok. apply rdoc_okb_rok. exact H. Qed.
Print Assumptions reference_document_any_type.

(* ================================================================================================ *)
(* 8. reading the result; the order of the entries                                                  *)
(* ================================================================================================ *)
Lemma alookup_ref_result : forall d x, alookup (KS x) (ref_result d) = option_map (rfinal d) (rlook x d).
Proof.
  intros d x. unfold ref_result. generalize (rfinal d). intro f.
  induction d as [|[y v] d IH]; [reflexivity|]. cbn [map fst snd alookup key_eqb rlook].
  destruct (str_eqb x y); [reflexivity | apply IH].
Qed.

Lemma ref_result_keys : forall d, map fst (ref_result d) = map KS (map fst d).
Proof. intro d. unfold ref_result. rewrite !map_map. reflexivity. Qed.

Theorem reference_value_any_type : forall d lc bc inc, rdoc_okb d = true ->
  exists s', eval_expressions (ref_sdict d lc bc inc) = Some (Ok s') /\ sd_expr s' = [] /\
    map fst (sd_data s') = map KS (map fst d) /\
    (forall x t, In (x, VLit t) d -> alookup (KS x) (sd_data s') = Some t) /\
    (forall x i y t, In (x, VRef i y) d -> denote_ref d y = Some t -> t <> Leaf SNone ->
       alookup (KS x) (sd_data s') = Some t) /\
    (forall x i y, In (x, VRef i y) d -> denote_ref d y = None \/ denote_ref d y = Some (Leaf SNone) ->
       alookup (KS x) (sd_data s') = Some (Leaf (SStr (ref_of y)))).
Proof.
  intros d lc bc inc H. pose proof (rdoc_okb_rok d H) as Hok.
  exists (mkSD (ref_result d) lc bc inc []). split; [apply reference_document_any_type; exact H|].
  split; [reflexivity|]. cbn [sd_data]. split; [apply ref_result_keys|].
  split; [|split].
  - intros x t Hin. rewrite alookup_ref_result, (in_rlook d x _ (rok_names d Hok) Hin). reflexivity.
  - intros x i y t Hin Hd Hn. rewrite alookup_ref_result, (in_rlook d x _ (rok_names d Hok) Hin). cbn [option_map rfinal].
    unfold ref_value. rewrite Hd. destruct t as [[ | | | | ]| |]; try reflexivity. exfalso. apply Hn. reflexivity.
  - intros x i y Hin Hd. rewrite alookup_ref_result, (in_rlook d x _ (rok_names d Hok) Hin). cbn [option_map rfinal].
    unfold ref_value. destruct Hd as [Hd|Hd]; rewrite Hd; reflexivity.
Qed.
Print Assumptions reference_value_any_type.

(* ---- permutations -------------------------------------------------------------------------------------- *)
Lemma rlook_perm : forall d d' y, NoDup (map fst d) -> Permutation d d' -> rlook y d = rlook y d'.
Proof.
  intros d d' y Hnd Hp.
  assert (Hnd' : NoDup (map fst d')) by (eapply Permutation_NoDup; [apply Permutation_map; exact Hp | exact Hnd]).
  destruct (rlook y d) as [v|] eqn:E.
  - symmetry. apply in_rlook; [exact Hnd'|]. eapply Permutation_in; [exact Hp|]. apply rlook_in. exact E.
  - destruct (rlook y d') as [v'|] eqn:E'; [|reflexivity].
    apply rlook_in in E'. apply (Permutation_in _ (Permutation_sym Hp)) in E'.
    rewrite (in_rlook d y v' Hnd E') in E. discriminate E.
Qed.

Lemma follow_perm : forall d d', NoDup (map fst d) -> Permutation d d' -> forall n y, follow d n y = follow d' n y.
Proof.
  intros d d' Hnd Hp. induction n as [|n IH]; intro y; [reflexivity|].
  rewrite !follow_S, <- (rlook_perm d d' y Hnd Hp). destruct (rlook y d) as [[t|i z]|]; [reflexivity | apply IH | reflexivity].
Qed.

Lemma denote_ref_perm : forall d d' y, NoDup (map fst d) -> Permutation d d' -> denote_ref d y = denote_ref d' y.
Proof.
  intros d d' y Hnd Hp. unfold denote_ref. rewrite <- (Permutation_length Hp). apply follow_perm; assumption.
Qed.

Lemma rfinal_perm : forall d d' v, NoDup (map fst d) -> Permutation d d' -> rfinal d v = rfinal d' v.
Proof.
  intros d d' v Hnd Hp. destruct v as [t|i y]; [reflexivity|]. cbn [rfinal]. unfold ref_value.
  rewrite (denote_ref_perm d d' y Hnd Hp). reflexivity.
Qed.

Lemma perm_flat_map_in : forall {A B} (f : A -> list B) (l l' : list A) b, Permutation l l' -> In b (flat_map f l) -> In b (flat_map f l').
Proof.
  intros A B f l l' b Hp H. apply in_flat_map in H. destruct H as [a [Ha Hb]]. apply in_flat_map. exists a.
  split; [eapply Permutation_in; eassumption | exact Hb].
Qed.

Lemma rok_perm : forall d d', rok d -> Permutation d d' -> rok d'.
Proof.
  intros d d' Hok Hp. pose proof (Permutation_sym Hp) as Hp'.
  assert (Ht : forall y, In y (rtargets d') -> In y (rtargets d)) by (intro y; apply perm_flat_map_in; exact Hp').
  assert (Hi : forall i, In i (rids d') -> In i (rids d)) by (intro i; apply perm_flat_map_in; exact Hp').
  assert (Hl : forall t, In t (rlits d') -> In t (rlits d)) by (intro t; apply perm_flat_map_in; exact Hp').
  constructor.
  - eapply Permutation_NoDup; [apply Permutation_map; exact Hp | apply (rok_names d Hok)].
  - eapply Permutation_NoDup; [apply Permutation_flat_map; exact Hp | apply (rok_ids d Hok)].
  - intros i H. apply (rok_idb d Hok i (Hi i H)).
  - intros y H. apply (rok_word d Hok y (Ht y H)).
  - intros y t H1 H2. apply (rok_top d Hok y t (Ht y H1) (Hl t H2)).
  - intros i t H1 H2. apply (rok_ph d Hok i t (Hi i H1) (Hl t H2)).
  - intros i y H1 H2. apply (rok_phy d Hok i y (Hi i H1) (Ht y H2)).
  - intros y t H1 H2. apply (rok_lit d Hok y t (Ht y H1)). eapply Permutation_in; [exact Hp' | exact H2].
Qed.

(* the entries in any order: the reader answers, and every key holds the same value *)
Theorem reference_order_independent_any_type : forall d d' lc bc inc, rdoc_okb d = true -> Permutation d d' ->
  (forall y, denote_ref d y = denote_ref d' y) /\
  exists s s', eval_expressions (ref_sdict d lc bc inc) = Some (Ok s) /\
               eval_expressions (ref_sdict d' lc bc inc) = Some (Ok s') /\
               map fst (sd_data s) = map KS (map fst d) /\ map fst (sd_data s') = map KS (map fst d') /\
               forall x, alookup (KS x) (sd_data s) = alookup (KS x) (sd_data s').
Proof.
  intros d d' lc bc inc H Hp. pose proof (rdoc_okb_rok d H) as Hok. pose proof (rok_perm d d' Hok Hp) as Hok'.
  split; [intro y; apply denote_ref_perm; [apply (rok_names d Hok) | exact Hp]|].
  exists (mkSD (ref_result d) lc bc inc []), (mkSD (ref_result d') lc bc inc []).
  split; [apply reference_document_any_type_rok; exact Hok|].
  split; [apply reference_document_any_type_rok; exact Hok'|]. cbn [sd_data].
  split; [apply ref_result_keys|]. split; [apply ref_result_keys|].
  intro x. rewrite !alookup_ref_result, <- (rlook_perm d d' x (rok_names d Hok) Hp).
  destruct (rlook x d) as [v|]; [|reflexivity]. cbn [option_map]. f_equal.
  apply rfinal_perm; [apply (rok_names d Hok) | exact Hp].
Qed.
Print Assumptions reference_order_independent_any_type.
