(* C02, arbitrary layouts, part 1: the lexer on a text with holes whose white space is ANY run of white space
   characters (blank, tab, LF, VT, FF, CR, FS, GS, RS, US, NEL, NBSP, the Unicode spaces, LS, PS) and whose holes are
   filled with quoted literals of EITHER flavour.  Generalises E2EHoles.lex_filled (blank + LF only, the writer's
   flavour only).  Line splitting is now non-trivial (CR, CRLF, VT, FF, ... all end a line), but nothing a line can
   begin with is a hash, no two slashes meet, and only LF is rewritten by the line-ending removal. *)
From Coq Require Import String.
From Coq Require Import NArith ZArith List Bool Lia ZifyBool ZifyN ZifyNat.
From DictIO Require Import Chars Str Value Scalar KeyPath SDict Layout Lexer TokParser TreeSpec NativeSpec LayoutSpec E2ESpec.
From DictIO Require ScalarProofs SDictProofs TokProofs LayoutProofs SemProofs QuoteProofs.
From DictIO Require Import E2EProofs E2EHoles.
Import ListNotations.
Import LayoutProofs.
Open Scope N_scope.

(* ================================================================================================ *)
(* 1. characters of a layout                                                                        *)
(* ================================================================================================ *)

(* token characters, the five structural delimiters, and every white space character *)
Definition gchar (c : N) : bool :=
  simple_char c || is_space c || (c =? c_lbrace) || (c =? c_rbrace) || (c =? c_lpar) || (c =? c_rpar) || (c =? c_semi).
Definition gachar (c : N) : bool := gchar c || (c =? HOLE).

Ltac gch := unfold gchar, simple_char, is_word, is_delim, is_linebreak in *; uc; lia.

Lemma gchar_excl c : gchar c = true ->
  (c =? c_slash) = false /\ (c =? c_hash) = false /\ (c =? c_sq) = false /\ (c =? c_dq) = false /\
  (c =? c_dollar) = false /\ (c =? c_bsl) = false.
Proof. intros H. repeat split; gch. Qed.

Lemma linebreak_space c : is_linebreak c = true -> is_space c = true.
Proof. intros H. unfold is_linebreak in H. uc. lia. Qed.

Lemma simple_gchar c : simple_char c = true -> gchar c = true.
Proof. intros H. unfold gchar. rewrite H. reflexivity. Qed.
Lemma space_gchar c : is_space c = true -> gchar c = true.
Proof. intros H. unfold gchar. rewrite H. apply orb_true_iff. left. apply orb_true_iff. left. apply orb_true_iff. left.
  apply orb_true_iff. left. apply orb_true_iff. left. apply orb_true_r. Qed.
Lemma tchar_gchar c : tchar c = true -> gchar c = true.
Proof. intros H. unfold tchar in H. gch. Qed.

Lemma gachar_inv c : gachar c = true -> (c =? HOLE) = false -> gchar c = true.
Proof. unfold gachar. intros H E. rewrite E, orb_false_r in H. exact H. Qed.

Lemma gachar_excl c : gachar c = true ->
  (c =? c_slash) = false /\ (c =? c_hash) = false /\ (c =? c_sq) = false /\ (c =? c_dq) = false /\ (c =? c_bsl) = false.
Proof.
  unfold gachar. intros H. apply orb_true_iff in H. destruct H as [H|H].
  - destruct (gchar_excl c H) as (A & B & C & D & _ & F). repeat split; assumption.
  - apply N.eqb_eq in H. subst c. repeat split; reflexivity.
Qed.

Lemma forallb_no (p : N -> bool) x (s : list N) : forallb p s = true -> p x = false -> has_char x s = false.
Proof.
  intros H Hx. unfold has_char. destruct (existsb (N.eqb x) s) eqn:E; [|reflexivity].
  apply existsb_exists in E. destruct E as (y & Hy & Ey). apply N.eqb_eq in Ey. subst y.
  rewrite (forallb_In _ _ _ H Hy) in Hx. discriminate Hx.
Qed.

Lemma gchars_nohole (X : list N) : forallb gchar X = true -> has_char HOLE X = false.
Proof. intros H. apply (forallb_no _ _ _ H). reflexivity. Qed.

Lemma gchars_gachars (X : list N) : forallb gchar X = true -> forallb gachar X = true.
Proof.
  intros H. apply forallb_forall. intros c Hc. unfold gachar. rewrite (forallb_In _ _ _ H Hc). reflexivity.
Qed.

Lemma ws_gchars (w : list N) : ws_run w -> forallb gchar w = true.
Proof. induction 1 as [|c w Hc _ IH]; [reflexivity|]. cbn [forallb]. rewrite (space_gchar c Hc), IH. reflexivity. Qed.

(* ================================================================================================ *)
(* 2. splitlines partitions every text                                                              *)
(* ================================================================================================ *)

Lemma splitlines_go_lf (s : list N) : splitlines_go [] (c_lf :: s) = [c_lf] :: splitlines_go [] s.
Proof. reflexivity. Qed.

Lemma concat_splitlines_all (s : list N) : forall cur, concat (splitlines_go cur s) = rev cur ++ s.
Proof.
  induction s as [|c s IH]; intros cur.
  - cbn [splitlines_go]. destruct cur; [reflexivity|]. cbn [concat]. reflexivity.
  - cbn [splitlines_go]. destruct (c =? c_cr) eqn:Ec.
    + destruct s as [|d s'].
      * cbn [concat]. rewrite app_nil_r. reflexivity.
      * destruct (d =? c_lf) eqn:Ed.
        -- apply N.eqb_eq in Ed. subst d. pose proof (IH []) as H. rewrite splitlines_go_lf in H.
           cbn [concat rev app] in H. injection H as H.
           cbn [concat]. rewrite H. cbn [rev]. rewrite <- !app_assoc. reflexivity.
        -- cbn [concat]. rewrite (IH []). cbn [rev app]. rewrite <- app_assoc. reflexivity.
    + destruct (is_linebreak c).
      * cbn [concat]. rewrite (IH []). cbn [rev app]. rewrite <- app_assoc. reflexivity.
      * rewrite (IH (c :: cur)). cbn [rev]. rewrite <- app_assoc. reflexivity.
Qed.

(* ================================================================================================ *)
(* 3. either flavour                                                                                *)
(* ================================================================================================ *)

(* f is an admissible spelling of the string s: single quotes if s has none, double quotes if s has none (and, as
   everywhere in the quantifier, no dollar: a double-quoted text with a dollar is an expression, not a literal) *)
Definition flav (f s : list N) : Prop :=
  has_char c_dollar s = false /\ ((f = sq s /\ no_sq s = true) \/ (f = dq s /\ no_dq s = true)).
(* ... of a string in the writer's quoting domain *)
Definition qflav (f s : list N) : Prop :=
  quotable s = true /\ ((f = sq s /\ no_sq s = true) \/ (f = dq s /\ no_dq s = true)).

Lemma qflav_flav f s : qflav f s -> flav f s.
Proof.
  intros [Hq Hc]. destruct (quotable_inv s Hq) as (H1 & _). split; [exact (lit_chars_nodollar s H1)|exact Hc].
Qed.

Lemma qflav_litform f s : qflav f s -> litform f.
Proof.
  intros [Hq Hc]. destruct (quotable_inv s Hq) as (H1 & _ & H3 & H4 & _).
  destruct Hc as [[-> _]|[-> _]]; [exists c_sq, s|exists c_dq, s]; (split; [reflexivity|]); (split; [reflexivity|]);
    (split; [exact H1|]); split; apply contains2_nopair; assumption.
Qed.

Lemma Forall2_length' {A B} (R : A -> B -> Prop) l1 l2 : Forall2 R l1 l2 -> length l1 = length l2.
Proof. induction 1; cbn [length]; congruence. Qed.

Lemma Forall2_Forall_l {A B} (R : A -> B -> Prop) (P : A -> Prop) l1 l2 :
  (forall a b, R a b -> P a) -> Forall2 R l1 l2 -> Forall P l1.
Proof. intros H. induction 1; constructor; eauto. Qed.

(* ================================================================================================ *)
(* 4. the literal scanner on a filled layout                                                        *)
(* ================================================================================================ *)

Lemma quoted_at_gchar q c (X : list N) : gchar c = true -> (q = c_sq \/ q = c_dq) -> quoted_at q false (c :: X) = None.
Proof.
  intros Hc Hq. destruct (gchar_excl c Hc) as (_ & _ & Hsq & Hdq & _ & Hb).
  unfold quoted_at, opener_at. cbn [count_bsl]. rewrite Hb. cbn [drop_n].
  destruct Hq as [-> | ->]; [rewrite Hsq|rewrite Hdq]; reflexivity.
Qed.

Lemma scan_step_gchar f count out tab c (X : list N) : gchar c = true ->
  scan_literals (S f) false count out tab (c :: X) = scan_literals f false count (c :: out) tab X.
Proof.
  intros Hc. cbn [scan_literals].
  rewrite (quoted_at_gchar c_sq c X Hc (or_introl eq_refl)), (quoted_at_gchar c_dq c X Hc (or_intror eq_refl)).
  destruct (gchar_excl c Hc) as (_ & _ & _ & _ & _ & Hb). rewrite Hb. reflexivity.
Qed.

Lemma flav_len f s : flav f s -> exists c r, f = c :: r.
Proof. intros (_ & [[-> _]|[-> _]]); [unfold sq|unfold dq]; eauto. Qed.

Lemma scan_expand_gen (A : list N) : forall fs ls fuel count out tab,
  Forall2 flav fs ls -> forallb gachar A = true -> nh A = length ls ->
  (length (expandL fs A) <= fuel)%nat ->
  scan_literals fuel false count out tab (expandL fs A) =
    (rev out ++ expandL (map PH (ids count (length ls))) A, cafter count (length ls),
     tupdate tab (combine (ids count (length ls)) ls)).
Proof.
  induction A as [|c A IH]; intros fs ls fuel count out tab Hls HA Hn Hf.
  - destruct ls as [|s ls]; [|discriminate Hn]. cbn [expandL length ids idsZ map cafter combine].
    destruct fuel; cbn [scan_literals]; rewrite ?app_nil_r; reflexivity.
  - cbn [forallb] in HA. apply andb_true_iff in HA. destruct HA as [Hc HA].
    destruct (c =? HOLE) eqn:E.
    + apply N.eqb_eq in E. subst c. cbn [nh] in Hn. rewrite N.eqb_refl in Hn.
      destruct ls as [|s ls]; [discriminate Hn|]. cbn [length] in Hn.
      inversion Hls as [|f0 s' fs' ls' Hs Hls' E1 E2]; subst.
      rewrite expandL_hole. rewrite expandL_hole in Hf.
      destruct (flav_len f0 s Hs) as (c0 & r0 & Efs).
      destruct fuel as [|f]; [rewrite Efs in Hf; cbn [app length] in Hf; lia|].
      assert (Hf' : (length (expandL fs' A) <= f)%nat).
      { rewrite Efs in Hf. cbn [app length] in Hf. rewrite app_length in Hf. lia. }
      assert (Hstep : scan_literals (S f) false count out tab (f0 ++ expandL fs' A) =
                      scan_literals f false (counter_next count) (rev (PH (Z.to_N (counter_next count))) ++ out)
                                    (tset (Z.to_N (counter_next count)) s tab) (expandL fs' A)).
      { destruct Hs as (Hd & [[E1 E2]|[E1 E2]]); rewrite E1.
        - apply scan_step_sq. exact E2.
        - apply scan_step_dq; assumption. }
      rewrite Hstep. rewrite (IH fs' ls f _ _ _ Hls' HA ltac:(lia) Hf').
      cbn [length ids idsZ map cafter combine]. fold (ids (counter_next count) (length ls)).
      rewrite expandL_hole, tupdate_cons. cbn [fst snd].
      rewrite rev_app_distr, rev_involutive, <- app_assoc. reflexivity.
    + pose proof (gachar_inv c Hc E) as Ht.
      rewrite (expandL_char _ c A E). rewrite (expandL_char _ c A E) in Hf.
      destruct fuel as [|f]; [cbn [length] in Hf; lia|].
      cbn [nh] in Hn. rewrite E in Hn. cbn [Nat.add] in Hn.
      rewrite (scan_step_gchar f count out tab c _ Ht).
      rewrite (IH fs ls f count (c :: out) tab Hls HA Hn ltac:(cbn [length] in Hf; lia)).
      cbn [rev]. rewrite <- app_assoc, (expandL_char _ c A E). reflexivity.
Qed.

(* ================================================================================================ *)
(* 5. no comment opener, no include directive                                                       *)
(* ================================================================================================ *)

Lemma nopair_expand_gen b (A : list N) : (b = c_slash \/ b = c_star) -> forall fs,
  forallb gachar A = true -> Forall litform fs -> nopair c_slash b (expandL fs A) = true.
Proof.
  intros Hb. induction A as [|c A IH]; intros fs HA Hfs; [reflexivity|].
  cbn [forallb] in HA. apply andb_true_iff in HA. destruct HA as [Hc HA].
  destruct (gachar_excl c Hc) as (Hcs & _).
  cbn [expandL]. destruct (c =? HOLE).
  - destruct fs as [|f fs].
    + rewrite nopair_cons_ne by exact Hcs. exact (IH [] HA Hfs).
    + inversion Hfs as [|f' fs' Hf Hfs']; subst. destruct (litform_nopair b f Hf Hb) as [N1 N2].
      apply nopair_app_l; [exact N1|exact (IH fs HA Hfs')|exact N2].
  - rewrite nopair_cons_ne by exact Hcs. exact (IH fs HA Hfs).
Qed.

Lemma Forall_tail {A} (P : A -> Prop) x l : Forall P (x :: l) -> Forall P l.
Proof. intros H. inversion H; assumption. Qed.

Lemma includes_expand_gen (A : list N) : forall fs cur,
  forallb gachar A = true -> Forall litform fs -> inc_pre (rev cur) ->
  Forall (fun l => include_line_rest l = None) (splitlines_go cur (expandL fs A)).
Proof.
  induction A as [|c A IH]; intros fs cur HA Hfs Hp.
  - cbn [expandL splitlines_go]. destruct cur as [|x cur]; [constructor|].
    constructor; [|constructor]. rewrite <- (app_nil_r (rev (x :: cur))). apply inc_pre_none; [exact Hp|left; reflexivity].
  - cbn [forallb] in HA. apply andb_true_iff in HA. destruct HA as [Hc HA].
    destruct (gachar_excl c Hc) as (_ & Hh & _).
    assert (Hreal : forall fs', Forall litform fs' ->
              Forall (fun l => include_line_rest l = None) (splitlines_go cur (c :: expandL fs' A))).
    { intros fs' Hfs'.
      pose proof (IH fs' [] HA Hfs' (or_introl (Forall_nil _))) as Hnext.
      assert (Hsnoc : inc_pre (rev (c :: cur))) by (cbn [rev]; apply inc_pre_snoc; assumption).
      cbn [splitlines_go]. destruct (c =? c_cr) eqn:Ecr.
      - destruct (expandL fs' A) as [|d s'] eqn:Ex.
        + constructor; [|constructor]. rewrite <- (app_nil_r (rev (c :: cur))). apply inc_pre_none; [exact Hsnoc|left; reflexivity].
        + destruct (d =? c_lf) eqn:Ed.
          * apply N.eqb_eq in Ed. subst d. rewrite splitlines_go_lf in Hnext. constructor; [|exact (Forall_tail _ _ _ Hnext)].
            change (rev (c_lf :: c :: cur)) with (rev (c :: cur) ++ [c_lf]). apply inc_pre_none; [exact Hsnoc|right; reflexivity].
          * constructor; [|exact Hnext].
            rewrite <- (app_nil_r (rev (c :: cur))). apply inc_pre_none; [exact Hsnoc|left; reflexivity].
      - destruct (is_linebreak c) eqn:El.
        + constructor; [|exact Hnext].
          rewrite <- (app_nil_r (rev (c :: cur))). apply inc_pre_none; [exact Hsnoc|left; reflexivity].
        + apply IH; [exact HA|exact Hfs'|exact Hsnoc]. }
    cbn [expandL]. destruct (c =? HOLE) eqn:E.
    + destruct fs as [|f fs]; [apply Hreal; exact Hfs|].
      inversion Hfs as [|f' fs' Hf Hfs']; subst.
      rewrite (splitlines_go_nolb f (litform_nolb f Hf)). apply IH; [exact HA|exact Hfs'|].
      rewrite rev_app_distr, rev_involutive. apply inc_pre_app; [exact Hp|].
      destruct Hf as (q & s & -> & Hq & _). destruct (quote_facts q Hq) as (Q1 & _ & _ & Q4 & _).
      exists q, (s ++ [q]). repeat split; assumption.
    + apply Hreal. exact Hfs.
Qed.

(* ================================================================================================ *)
(* 6. the lexer on a filled layout                                                                  *)
(* ================================================================================================ *)

Lemma gachar_rle (A : list N) : forallb gachar A = true -> forallb gachar (remove_line_endings A) = true.
Proof.
  intros H. rewrite remove_line_endings_eq. unfold strip. apply forallb_rstrip, forallb_lstrip, forallb_lf2sp; [reflexivity|exact H].
Qed.

Lemma expandL_fill (p q : N -> bool) : (forall c, q c = true -> (c =? HOLE) = false -> p c = true) ->
  forall (A : list N) fs, forallb q A = true -> Forall (fun f => forallb p f = true) fs -> (nh A <= length fs)%nat ->
  forallb p (expandL fs A) = true.
Proof.
  intros Hpq. induction A as [|c A IH]; intros fs HA Hfs Hn; [reflexivity|].
  cbn [forallb] in HA. apply andb_true_iff in HA. destruct HA as [Hc HA].
  cbn [expandL nh] in *. destruct (c =? HOLE) eqn:E.
  - destruct fs as [|f fs]; [cbn [length] in Hn; lia|].
    inversion Hfs as [|f' fs' Hf Hfs']; subst. rewrite forallb_app, Hf. apply (IH fs HA Hfs'). cbn [length] in Hn. lia.
  - cbn [forallb]. rewrite (Hpq c Hc E). exact (IH fs HA Hfs Hn).
Qed.

Lemma PH_gchars k : forallb gchar (PH k) = true.
Proof.
  apply forallb_forall. intros c Hc. apply simple_gchar. exact (forallb_In _ _ _ (PH_simple k) Hc).
Qed.

Theorem lex_filled_gen comments dir count (A : list N) fs ls :
  forallb gachar A = true -> Forall2 qflav fs ls -> nh A = length ls ->
  lex comments dir count (expandL fs A) =
  mkLexed (tokenize (separate_delimiters (expandL (map PH (ids count (length ls))) (remove_line_endings A))))
          (cafter count (length ls)) [] [] [] [] (tupdate [] (combine (ids count (length ls)) ls)).
Proof.
  intros HA Hls Hn.
  set (W := expandL fs A).
  assert (Hlf : Forall litform fs) by (exact (Forall2_Forall_l _ _ _ _ qflav_litform Hls)).
  assert (Hsol : Forall solid fs) by (revert Hlf; apply Forall_impl; exact litform_solid).
  assert (Hcat : concat (splitlines W) = W) by (exact (concat_splitlines_all W [])).
  assert (Hl1 : Forall (fun l => nopair c_slash c_slash l = true) (splitlines W)).
  { apply nopair_lines. rewrite Hcat. unfold W. apply nopair_expand_gen; [left; reflexivity|exact HA|exact Hlf]. }
  assert (Hl2 : Forall (fun l => include_line_rest l = None) (splitlines W)).
  { unfold splitlines, W. apply includes_expand_gen; [exact HA|exact Hlf|left; constructor]. }
  assert (Hb : nopair c_slash c_star W = true).
  { unfold W. apply nopair_expand_gen; [right; reflexivity|exact HA|exact Hlf]. }
  pose proof (gachar_rle A HA) as HA2.
  assert (Hn2 : nh (remove_line_endings A) = length ls) by (rewrite nh_rle; exact Hn).
  assert (Hw : Forall2 flav fs ls).
  { clear -Hls. induction Hls; constructor; [apply qflav_flav; assumption|assumption]. }
  assert (Ht4 : forallb gchar (expandL (map PH (ids count (length ls))) (remove_line_endings A)) = true).
  { apply (expandL_fill gchar gachar gachar_inv); [exact HA2| |rewrite map_length, ids_length, Hn2; lia].
    apply Forall_map_iff. apply Forall_forall. intros k _. apply PH_gchars. }
  unfold lex. cbv zeta.
  rewrite (extract_line_comments_nopair comments _ Hl1 count).
  rewrite (extract_includes_none' dir _ Hl2 count).
  rewrite Hcat.
  rewrite (extract_block_comments_nopair comments W Hb).
  unfold W at 1. rewrite (rle_expand A fs Hsol).
  unfold extract_string_literals.
  rewrite (scan_expand_gen (remove_line_endings A) fs ls _ count [] [] Hw HA2 Hn2 (Nat.le_succ_diag_r _)).
  cbn [rev app].
  rewrite (extract_expressions_none _ _ (forallb_no _ c_dq _ Ht4 eq_refl) (forallb_no _ c_dollar _ Ht4 eq_refl)).
  reflexivity.
Qed.

(* the quote-free case: no holes, no literals *)
Corollary lex_gplain comments dir count (text : list N) : forallb gchar text = true ->
  lex comments dir count text =
  mkLexed (tokenize (separate_delimiters (remove_line_endings text))) count [] [] [] [] [].
Proof.
  intros Ht.
  pose proof (lex_filled_gen comments dir count text [] [] (gchars_gachars _ Ht) (Forall2_nil _)
                (nh_plain _ (gchars_nohole _ Ht))) as H.
  cbn [length ids idsZ map cafter combine tupdate fold_left] in H.
  rewrite (expandL_plain0 [] text (gchars_nohole _ Ht)) in H.
  rewrite (expandL_plain0 [] (remove_line_endings text)) in H; [exact H|].
  apply gchars_nohole. rewrite remove_line_endings_eq. unfold strip.
  apply forallb_rstrip, forallb_lstrip, forallb_lf2sp; [reflexivity|exact Ht].
Qed.
