(* Proofs for C04: scalar typing is total, deterministic and follows the type table. *)
From Coq Require Import NArith ZArith List Bool.
From Coq Require Import Lia ZifyBool ZifyN ZifyNat.
From DictIO Require Import Chars Str Value Scalar TypeTable.
Import ListNotations.
Open Scope N_scope.

(* ------------------------------------------------------------------------------------------ *)
(* character level arithmetic                                                                  *)

Ltac unfold_chars :=
  unfold is_digit, is_sign, is_space, is_uni_space, is_quote, is_upper, is_lower,
    c_tab, c_lf, c_vt, c_ff, c_cr, c_sp, c_dq, c_hash, c_dollar, c_sq, c_lpar, c_rpar, c_star,
    c_plus, c_comma, c_minus, c_dot, c_slash, c_colon, c_semi, c_lt, c_gt, c_lbrk, c_bsl, c_rbrk,
    c_us, c_lbrace, c_rbrace, c_E, c_e in *.
Ltac chars := unfold_chars; lia.


(* ------------------------------------------------------------------------------------------ *)
(* generic list facts                                                                          *)

(* the head of [b] (if any) fails [p] *)
Definition hd_not (p : N -> bool) (b : list N) : Prop :=
  match b with [] => True | c :: _ => p c = false end.

Lemma str_eqb_refl a : str_eqb a a = true.
Proof. induction a as [|x a IH]; cbn [str_eqb]; [reflexivity|]. rewrite N.eqb_refl, IH. reflexivity. Qed.

Lemma str_eqb_eq a b : str_eqb a b = true <-> a = b.
Proof.
  split.
  - revert b. induction a as [|x a IH]; intros [|y b] H; cbn [str_eqb] in H; try discriminate; [reflexivity|].
    apply andb_true_iff in H. destruct H as [Hx Hr]. apply N.eqb_eq in Hx. apply IH in Hr. subst. reflexivity.
  - intros ->. apply str_eqb_refl.
Qed.

Lemma str_eqb_neq a b : str_eqb a b = false <-> a <> b.
Proof.
  split.
  - intros H E. apply str_eqb_eq in E. congruence.
  - intros H. destruct (str_eqb a b) eqn:E; [|reflexivity]. apply str_eqb_eq in E. contradiction.
Qed.

Lemma span_spec (p : N -> bool) (s : list N) : forall a b : list N, span p s = (a, b) ->
  s = a ++ b /\ Forall (fun c => p c = true) a /\ hd_not p b.
Proof.
  induction s as [|c s IH]; intros a b H; cbn [span] in H.
  - injection H as <- <-. repeat split; constructor.
  - destruct (p c) eqn:Hp.
    + destruct (span p s) as [a' b'] eqn:Hs. injection H as <- <-.
      destruct (IH a' b' eq_refl) as (E & Fa & Hb). subst s. repeat split; [constructor; assumption|assumption].
    + injection H as <- <-. repeat split; [constructor|exact Hp].
Qed.

Lemma span_app (p : N -> bool) (a b : list N) : Forall (fun c => p c = true) a -> hd_not p b -> span p (a ++ b) = (a, b).
Proof.
  intros Fa Hb. induction Fa as [|c a Hc Fa IH]; cbn [app span].
  - destruct b as [|c b]; [reflexivity|]. cbn [hd_not] in Hb. cbn [span]. rewrite Hb. reflexivity.
  - rewrite Hc, IH. reflexivity.
Qed.

Lemma hd_not_app p (a b : list N) : a <> [] -> hd_not p a -> hd_not p (a ++ b).
Proof. destruct a; [congruence|]. intros _ H. exact H. Qed.

Lemma nonempty_true {A} (l : list A) : nonempty l = true <-> l <> [].
Proof. destruct l; cbn; split; congruence. Qed.

(* ------------------------------------------------------------------------------------------ *)
(* pieces of the literal grammar                                                               *)

Lemma at_end_fin e : at_end e = true <-> fin e.
Proof.
  unfold fin. split.
  - destruct e as [|c [|d e]]; cbn [at_end]; intros H; [left; reflexivity| |discriminate].
    apply N.eqb_eq in H. subst. right. reflexivity.
  - intros [->| ->]; reflexivity.
Qed.

Lemma opt_sign_spec s : exists sg, s = sg ++ opt_sign s /\ sgn sg.
Proof.
  unfold sgn. destruct s as [|c r]; cbn [opt_sign].
  - exists []. split; [reflexivity|left; reflexivity].
  - destruct (is_sign c) eqn:Hc.
    + exists [c]. split; [reflexivity|]. right. unfold is_sign in Hc. apply orb_true_iff in Hc.
      destruct Hc as [Hc|Hc]; apply N.eqb_eq in Hc; subst; [left|right]; reflexivity.
    + exists []. split; [reflexivity|left; reflexivity].
Qed.

Lemma opt_sign_app sg t : sgn sg -> hd_not is_sign t -> opt_sign (sg ++ t) = t.
Proof.
  intros [->|[->| ->]] Ht; cbn [app opt_sign]; try reflexivity.
  destruct t as [|c r]; [reflexivity|]. cbn [hd_not] in Ht. cbn [opt_sign]. rewrite Ht. reflexivity.
Qed.

Lemma digits1_hd p ds t :
  (forall c, is_digit c = true -> p c = false) -> digits1 ds -> hd_not p (ds ++ t).
Proof.
  intros Hp [Fd Hne]. destruct ds as [|c ds]; [congruence|]. cbn [app hd_not].
  apply Hp. inversion Fd; assumption.
Qed.

Lemma digit_not_sign c : is_digit c = true -> is_sign c = false.
Proof. intros H. chars. Qed.

(* ------------------------------------------------------------------------------------------ *)
(* re_int  <->  int_lit                                                                        *)

Lemma re_int_sound s : re_int s = true -> int_lit s.
Proof.
  unfold re_int. intros H. destruct (span is_digit (opt_sign s)) as [d rest] eqn:Hs.
  apply andb_true_iff in H. destruct H as [Hd He].
  apply span_spec in Hs. destruct Hs as (E & Fd & _).
  destruct (opt_sign_spec s) as (sg & Es & Hsg).
  exists sg, d, rest. repeat split.
  - rewrite Es at 1. rewrite E. reflexivity.
  - exact Hsg.
  - exact Fd.
  - apply nonempty_true. exact Hd.
  - apply at_end_fin. exact He.
Qed.

Lemma fin_hd_not_digit e : fin e -> hd_not is_digit e.
Proof. intros [->| ->]; cbn [hd_not]; [trivial|reflexivity]. Qed.

Lemma int_lit_span sg ds e : sgn sg -> digits1 ds -> fin e ->
  span is_digit (opt_sign (sg ++ ds ++ e)) = (ds, e).
Proof.
  intros Hsg Hds He. rewrite opt_sign_app; [|exact Hsg|apply digits1_hd; [exact digit_not_sign|exact Hds]].
  apply span_app; [exact (proj1 Hds)|apply fin_hd_not_digit; exact He].
Qed.

Lemma re_int_complete s : int_lit s -> re_int s = true.
Proof.
  intros (sg & ds & e & -> & Hsg & Hds & He). unfold re_int. rewrite int_lit_span by assumption.
  apply andb_true_iff. split; [apply nonempty_true; exact (proj2 Hds)|apply at_end_fin; exact He].
Qed.

Lemma re_int_iff s : re_int s = true <-> int_lit s.
Proof. split; [apply re_int_sound|apply re_int_complete]. Qed.

(* ------------------------------------------------------------------------------------------ *)
(* re_float2 / re_float3  <->  float_lit                                                       *)

Definition dig_or_dot (c : cp) : bool := is_digit c || (c =? c_dot).

Lemma hd_not_dd_digit r : hd_not dig_or_dot r -> hd_not is_digit r.
Proof. destruct r as [|c r]; cbn [hd_not]; [trivial|]. unfold dig_or_dot. intros H. apply orb_false_iff in H. tauto. Qed.

Lemma re_mantissa_sound t rest : re_mantissa t = Some rest -> exists m, t = m ++ rest /\ mant m.
Proof.
  unfold re_mantissa. destruct (span is_digit t) as [d r1] eqn:Hs.
  apply span_spec in Hs. destruct Hs as (E & Fd & Hr1). intros H.
  destruct d as [|d0 d'].
  - destruct r1 as [|c r2]; [discriminate|]. destruct (c =? c_dot) eqn:Hc; [|discriminate].
    destruct (span is_digit r2) as [d2 r3] eqn:Hs2. apply span_spec in Hs2. destruct Hs2 as (E2 & Fd2 & _).
    destruct (nonempty d2) eqn:Hn; [|discriminate]. injection H as <-.
    apply N.eqb_eq in Hc. subst c. apply nonempty_true in Hn.
    exists (c_dot :: d2). split; [subst; reflexivity|]. right. exists [], d2.
    repeat split; [constructor|exact Fd2|right; exact Hn].
  - destruct r1 as [|c r2].
    + injection H as <-. exists (d0 :: d'). split; [exact E|]. left. split; [exact Fd|discriminate].
    + destruct (c =? c_dot) eqn:Hc.
      * destruct (span is_digit r2) as [d2 r3] eqn:Hs2. cbn [snd] in H. injection H as <-.
        apply span_spec in Hs2. destruct Hs2 as (E2 & Fd2 & _). apply N.eqb_eq in Hc. subst c.
        exists ((d0 :: d') ++ c_dot :: d2). split.
        -- subst. rewrite <- app_assoc. reflexivity.
        -- right. exists (d0 :: d'), d2. repeat split; [exact Fd|exact Fd2|left; discriminate].
      * injection H as <-. exists (d0 :: d'). split; [exact E|]. left. split; [exact Fd|discriminate].
Qed.

Lemma re_mantissa_complete m r : mant m -> hd_not dig_or_dot r -> re_mantissa (m ++ r) = Some r.
Proof.
  intros Hm Hr. pose proof (hd_not_dd_digit r Hr) as Hrd. unfold re_mantissa.
  destruct Hm as [[Fm Hne]|(d1 & d2 & -> & F1 & F2 & Hne)].
  - rewrite (span_app is_digit m r Fm Hrd). destruct m as [|m0 m']; [congruence|].
    destruct r as [|c r2]; [reflexivity|]. cbn [hd_not] in Hr. unfold dig_or_dot in Hr.
    apply orb_false_iff in Hr. destruct Hr as [_ Hr]. rewrite Hr. reflexivity.
  - rewrite <- app_assoc. cbn [app].
    rewrite (span_app is_digit d1 (c_dot :: d2 ++ r) F1 eq_refl).
    destruct d1 as [|x d1'].
    + rewrite N.eqb_refl. rewrite (span_app is_digit d2 r F2 Hrd).
      destruct Hne as [Hne|Hne]; [congruence|]. apply nonempty_true in Hne. rewrite Hne. reflexivity.
    + rewrite N.eqb_refl. rewrite (span_app is_digit d2 r F2 Hrd). reflexivity.
Qed.

Lemma re_exp_end_sound r : re_exp_end r = true -> exists x e, r = x ++ e /\ (x = [] \/ expo x) /\ fin e.
Proof.
  unfold re_exp_end. intros H. apply orb_true_iff in H. destruct H as [H|H].
  - exists [], r. split; [reflexivity|]. split; [left; reflexivity|apply at_end_fin; exact H].
  - destruct r as [|c r1]; [discriminate|]. destruct ((c =? c_e) || (c =? c_E)) eqn:Hc; [|discriminate].
    destruct (span is_digit (opt_sign r1)) as [d r2] eqn:Hs. apply span_spec in Hs. destruct Hs as (E & Fd & _).
    apply andb_true_iff in H. destruct H as [Hd He]. destruct (opt_sign_spec r1) as (sg & Es & Hsg).
    exists (c :: sg ++ d), r2. split; [|split].
    + rewrite Es at 1. rewrite E. cbn [app]. rewrite <- !app_assoc. reflexivity.
    + right. exists c, sg, d. split; [reflexivity|]. split; [|split; [exact Hsg|]].
      * apply orb_true_iff in Hc. destruct Hc as [Hc|Hc]; apply N.eqb_eq in Hc; [left|right]; exact Hc.
      * split; [exact Fd|apply nonempty_true; exact Hd].
    + apply at_end_fin. exact He.
Qed.

Lemma re_exp_end_complete x e : (x = [] \/ expo x) -> fin e -> re_exp_end (x ++ e) = true.
Proof.
  intros Hx He. unfold re_exp_end. destruct Hx as [->|(c & sg & ds & -> & Hc & Hsg & Hds)].
  - cbn [app]. apply at_end_fin in He. rewrite He. reflexivity.
  - apply orb_true_iff. right. cbn [app].
    assert (Hce : (c =? c_e) || (c =? c_E) = true).
    { apply orb_true_iff. destruct Hc as [->| ->]; [left|right]; apply N.eqb_refl. }
    rewrite Hce. rewrite <- app_assoc. rewrite int_lit_span by assumption.
    apply andb_true_iff. split; [apply nonempty_true; exact (proj2 Hds)|apply at_end_fin; exact He].
Qed.

Lemma mant_nonempty m : mant m -> m <> [].
Proof.
  intros [[_ H]|(d1 & d2 & -> & _)]; [exact H|]. destruct d1; discriminate.
Qed.

(* the first character of a mantissa is a digit or a dot *)
Lemma mant_hd_not p m t :
  (forall c, is_digit c = true -> p c = false) -> p c_dot = false -> mant m -> hd_not p (m ++ t).
Proof.
  intros Hd Hdot [Hm|(d1 & d2 & -> & F1 & F2 & Hne)].
  - apply digits1_hd; assumption.
  - destruct d1 as [|c d1]; cbn [app hd_not]; [exact Hdot|]. apply Hd. inversion F1; assumption.
Qed.

Lemma expo_fin_hd x e : (x = [] \/ expo x) -> fin e -> hd_not dig_or_dot (x ++ e).
Proof.
  intros [->|(c & sg & ds & -> & Hc & _)] He.
  - cbn [app]. destruct He as [->| ->]; cbn [hd_not]; [trivial|reflexivity].
  - cbn [app hd_not]. destruct Hc as [->| ->]; reflexivity.
Qed.

Lemma float_lit_mantissa sg m x e : sgn sg -> mant m -> (x = [] \/ expo x) -> fin e ->
  re_mantissa (opt_sign (sg ++ m ++ x ++ e)) = Some (x ++ e).
Proof.
  intros Hsg Hm Hx He. rewrite opt_sign_app; [|exact Hsg|].
  - apply re_mantissa_complete; [exact Hm|apply expo_fin_hd; assumption].
  - apply mant_hd_not; [exact digit_not_sign|reflexivity|exact Hm].
Qed.

Lemma re_float3_complete s : float_lit s -> re_float3 s = true.
Proof.
  intros (sg & m & x & e & -> & Hsg & Hm & Hx & He). unfold re_float3.
  rewrite float_lit_mantissa by assumption. apply re_exp_end_complete; assumption.
Qed.

Lemma re_float3_sound s : re_float3 s = true -> float_lit s.
Proof.
  unfold re_float3. intros H. destruct (re_mantissa (opt_sign s)) as [rest|] eqn:Hm; [|discriminate].
  apply re_mantissa_sound in Hm. destruct Hm as (m & Em & Hm).
  apply re_exp_end_sound in H. destruct H as (x & e & Er & Hx & He).
  destruct (opt_sign_spec s) as (sg & Es & Hsg).
  exists sg, m, x, e. split; [|tauto]. rewrite Es at 1. rewrite Em, Er. reflexivity.
Qed.

Lemma re_float2_float3 s : re_float2 s = true -> re_float3 s = true.
Proof.
  unfold re_float2, re_float3. destruct (re_mantissa (opt_sign s)) as [rest|]; [|trivial].
  intros H. unfold re_exp_end. rewrite H. reflexivity.
Qed.

Lemma re_float_iff s : re_float2 s || re_float3 s = true <-> float_lit s.
Proof.
  split.
  - intros H. apply orb_true_iff in H. destruct H as [H|H]; [apply re_float2_float3 in H|]; apply re_float3_sound; exact H.
  - intros H. apply re_float3_complete in H. rewrite H. apply orb_true_r.
Qed.

(* ------------------------------------------------------------------------------------------ *)
(* characters of numeric literals: no white space, no quotes                                   *)

Definition numch (c : N) : Prop := is_space c = false /\ is_quote c = false.

Lemma sgn_numch sg : sgn sg -> Forall numch sg.
Proof. intros [->|[->| ->]]; repeat constructor. Qed.

Lemma digits_numch ds : digits ds -> Forall numch ds.
Proof.
  intros H. induction H as [|c ds Hc _ IH]; constructor; [|exact IH]. split; chars.
Qed.

Lemma mant_numch m : mant m -> Forall numch m.
Proof.
  intros [[H _]|(d1 & d2 & -> & F1 & F2 & _)]; [apply digits_numch; exact H|].
  apply Forall_app. split; [apply digits_numch; exact F1|].
  constructor; [split; reflexivity|apply digits_numch; exact F2].
Qed.

Lemma expo_numch x : (x = [] \/ expo x) -> Forall numch x.
Proof.
  intros [->|(c & sg & ds & -> & Hc & Hsg & Hds)]; [constructor|].
  constructor; [destruct Hc as [->| ->]; split; reflexivity|].
  apply Forall_app. split; [apply sgn_numch; exact Hsg|apply digits_numch; exact (proj1 Hds)].
Qed.

Lemma float_body_numch sg m x : sgn sg -> mant m -> (x = [] \/ expo x) -> Forall numch (sg ++ m ++ x).
Proof.
  intros Hsg Hm Hx. apply Forall_app. split; [apply sgn_numch; exact Hsg|].
  apply Forall_app. split; [apply mant_numch; exact Hm|apply expo_numch; exact Hx].
Qed.

(* ------------------------------------------------------------------------------------------ *)
(* strip                                                                                       *)

Lemma Forall_hd_not (P : N -> Prop) p (a : list N) :
  (forall c, P c -> p c = false) -> Forall P a -> hd_not p a.
Proof. intros HP [|c a' Hc _]; cbn [hd_not]; [trivial|apply HP; exact Hc]. Qed.

Lemma lstrip_hd t : hd_not is_space t -> lstrip t = t.
Proof. destruct t as [|c t]; cbn [hd_not lstrip]; [reflexivity|]. intros ->. reflexivity. Qed.

Lemma strip_lit (a e : list N) : a <> [] -> Forall numch a -> fin e -> strip (a ++ e) = a.
Proof.
  intros Hne Fa He. unfold strip, rstrip.
  assert (Hsp : forall c, numch c -> is_space c = false) by (intros c [H _]; exact H).
  rewrite (lstrip_hd (a ++ e)) by (apply hd_not_app; [exact Hne|apply (Forall_hd_not numch); assumption]).
  rewrite rev_app_distr.
  assert (Hr : lstrip (rev a) = rev a).
  { apply lstrip_hd. apply (Forall_hd_not numch); [exact Hsp|apply Forall_rev; exact Fa]. }
  destruct He as [->| ->].
  - cbn [rev app]. rewrite Hr. apply rev_involutive.
  - cbn [rev app lstrip]. replace (is_space c_lf) with true by reflexivity.
    rewrite Hr. apply rev_involutive.
Qed.

(* ------------------------------------------------------------------------------------------ *)
(* CPython grammars on literals                                                                *)

Definition dig_or_us (c : cp) : bool := is_digit c || (c =? c_us).

Lemma py_tail_digits ds t : digits ds -> hd_not dig_or_us t -> py_digitpart_tail (ds ++ t) = t.
Proof.
  intros Fd Ht. induction Fd as [|c ds Hc _ IH]; cbn [app].
  - destruct t as [|c r]; [reflexivity|]. cbn [hd_not] in Ht. unfold dig_or_us in Ht.
    apply orb_false_iff in Ht. destruct Ht as [H1 H2]. cbn [py_digitpart_tail]. rewrite H1, H2. reflexivity.
  - cbn [py_digitpart_tail]. rewrite Hc. exact IH.
Qed.

Lemma py_digitpart_digits ds t : digits1 ds -> hd_not dig_or_us t -> py_digitpart (ds ++ t) = Some t.
Proof.
  intros [Fd Hne] Ht. destruct ds as [|c ds]; [congruence|]. cbn [app py_digitpart].
  inversion Fd as [|c' ds' Hc Fd']; subst. rewrite Hc. rewrite py_tail_digits by assumption. reflexivity.
Qed.

Lemma py_digitpart_none t : hd_not is_digit t -> py_digitpart t = None.
Proof. destruct t as [|c r]; cbn [hd_not py_digitpart]; [reflexivity|]. intros ->. reflexivity. Qed.

Lemma hd_not_du_digit r : hd_not dig_or_us r -> hd_not is_digit r.
Proof. destruct r as [|c r]; cbn [hd_not]; [trivial|]. unfold dig_or_us. intros H. apply orb_false_iff in H. tauto. Qed.

Lemma expo_hd_du x : (x = [] \/ expo x) -> hd_not dig_or_us x.
Proof.
  intros [->|(c & sg & ds & -> & Hc & _)]; cbn [hd_not]; [trivial|]. destruct Hc as [->| ->]; reflexivity.
Qed.

Lemma py_exponent_end_lit x : (x = [] \/ expo x) -> py_exponent_end x = true.
Proof.
  intros [->|(c & sg & ds & -> & Hc & Hsg & Hds)]; [reflexivity|]. cbn [py_exponent_end].
  assert (Hce : (c =? c_e) || (c =? c_E) = true).
  { apply orb_true_iff. destruct Hc as [->| ->]; [left|right]; apply N.eqb_refl. }
  rewrite Hce. rewrite <- (app_nil_r ds).
  rewrite opt_sign_app; [|exact Hsg|apply digits1_hd; [exact digit_not_sign|exact Hds]].
  rewrite py_digitpart_digits; [reflexivity|exact Hds|exact I].
Qed.

Lemma digits_dec d : digits d -> d = [] \/ digits1 d.
Proof. intros H. destruct d; [left; reflexivity|right; split; [exact H|discriminate]]. Qed.

Lemma py_float_body_lit sg m x : sgn sg -> mant m -> (x = [] \/ expo x) -> py_float_body (sg ++ m ++ x) = true.
Proof.
  intros Hsg Hm Hx. unfold py_float_body.
  rewrite opt_sign_app; [|exact Hsg|apply mant_hd_not; [exact digit_not_sign|reflexivity|exact Hm]].
  cbv zeta. apply orb_true_iff. right.
  pose proof (expo_hd_du x Hx) as Hxh. pose proof (py_exponent_end_lit x Hx) as Hxe.
  destruct Hm as [Hm|(d1 & d2 & -> & F1 & F2 & Hne)].
  - rewrite py_digitpart_digits by assumption.
    destruct x as [|c r2]; [reflexivity|].
    assert (Hc : (c =? c_dot) = false).
    { destruct Hx as [Hx|(c' & sg' & ds' & E & Hc & _)]; [discriminate|]. injection E as -> _.
      destruct Hc as [->| ->]; reflexivity. }
    rewrite Hc. exact Hxe.
  - rewrite <- app_assoc. cbn [app].
    assert (H2 : match py_digitpart (d2 ++ x) with Some r3 => py_exponent_end r3 | None => py_exponent_end (d2 ++ x) end = true).
    { destruct (digits_dec d2 F2) as [->|H2].
      - cbn [app]. rewrite py_digitpart_none by (apply hd_not_du_digit; exact Hxh). exact Hxe.
      - rewrite py_digitpart_digits by assumption. exact Hxe. }
    destruct (digits_dec d1 F1) as [->|H1].
    + cbn [app]. rewrite py_digitpart_none by reflexivity. rewrite N.eqb_refl.
      destruct Hne as [Hne|Hne]; [congruence|].
      rewrite py_digitpart_digits; [exact Hxe|split; assumption|exact Hxh].
    + rewrite py_digitpart_digits; [|exact H1|reflexivity]. rewrite N.eqb_refl. exact H2.
Qed.

Lemma float_lit_py_ok s : float_lit s -> py_float_ok s = true.
Proof.
  intros (sg & m & x & e & -> & Hsg & Hm & Hx & He). unfold py_float_ok.
  replace (sg ++ m ++ x ++ e) with ((sg ++ m ++ x) ++ e) by (rewrite <- !app_assoc; reflexivity).
  rewrite strip_lit; [apply py_float_body_lit; assumption| |apply float_body_numch; assumption|exact He].
  intros E. apply app_eq_nil in E. destruct E as [_ E]. apply app_eq_nil in E. destruct E as [E _].
  exact (mant_nonempty m Hm E).
Qed.

Lemma int_lit_py_ok s : int_lit s -> py_int_ok s = true.
Proof.
  intros (sg & ds & e & -> & Hsg & Hds & He). unfold py_int_ok.
  replace (sg ++ ds ++ e) with ((sg ++ ds) ++ e) by (rewrite <- app_assoc; reflexivity).
  rewrite strip_lit; [| | |exact He].
  - rewrite <- (app_nil_r ds).
    rewrite opt_sign_app; [|exact Hsg|apply digits1_hd; [exact digit_not_sign|exact Hds]].
    rewrite py_digitpart_digits; [reflexivity|exact Hds|exact I].
  - intros E. apply app_eq_nil in E. destruct E as [_ E]. exact (proj2 Hds E).
  - apply Forall_app. split; [apply sgn_numch; exact Hsg|apply digits_numch; exact (proj1 Hds)].
Qed.

Lemma numeric_regexes_safe : forall s,
  (re_int s = true -> py_int_ok s = true) /\
  (re_float2 s = true -> py_float_ok s = true) /\ (re_float3 s = true -> py_float_ok s = true).
Proof.
  intros s. split; [|split]; intros H.
  - apply int_lit_py_ok. apply re_int_sound. exact H.
  - apply float_lit_py_ok. apply re_float3_sound. apply re_float2_float3. exact H.
  - apply float_lit_py_ok. apply re_float3_sound. exact H.
Qed.

Lemma parse_value_total : forall s e, parse_value s <> Raise e.
Proof.
  intros s e. destruct (numeric_regexes_safe s) as (Hi & H2 & H3). unfold parse_value.
  destruct (negb (nonempty (remove_quotes s))); [discriminate|].
  destruct (str_eqb s [c_minus] || str_eqb s [c_us] || str_eqb s [c_dot]); [discriminate|].
  destruct (re_int s) eqn:Ei; [rewrite (Hi eq_refl); discriminate|].
  destruct (re_float2 s) eqn:E2; [rewrite (H2 eq_refl); discriminate|].
  destruct (re_float3 s) eqn:E3; [rewrite (H3 eq_refl); discriminate|].
  cbv zeta.
  repeat match goal with |- (if ?b then _ else _) <> _ => destruct b; [discriminate|] end.
  discriminate.
Qed.

(* ------------------------------------------------------------------------------------------ *)
(* integer values                                                                              *)

Lemma dec_value_fold ds : forall a,
  dec_value ds (Z.of_N a) = Z.of_N (fold_left (fun acc c => 10 * acc + digit_val c) ds a).
Proof.
  induction ds as [|c ds IH]; intros a; cbn [dec_value fold_left]; [reflexivity|].
  rewrite <- IH. f_equal. unfold digit_val. lia.
Qed.

Lemma dec_value_dec_to_N ds : dec_value ds 0 = Z.of_N (dec_to_N ds).
Proof. unfold dec_to_N. rewrite <- dec_value_fold. reflexivity. Qed.

Lemma int_value_lit sg ds e : sgn sg -> digits1 ds -> fin e ->
  int_value (sg ++ ds ++ e) = (if str_eqb sg [c_minus] then - dec_value ds 0 else dec_value ds 0)%Z.
Proof.
  intros Hsg Hds He. unfold int_value. rewrite int_lit_span by assumption.
  rewrite dec_value_dec_to_N. destruct Hsg as [->|[->| ->]]; cbn [app].
  - destruct Hds as [Fd Hne]. destruct ds as [|c ds]; [congruence|]. cbn [app str_eqb].
    inversion Fd as [|c' ds' Hc Fd']; subst.
    assert (Hm : (c =? c_minus) = false) by chars. rewrite Hm. reflexivity.
  - reflexivity.
  - reflexivity.
Qed.

Lemma int_denotes_lit s z : int_denotes s z -> int_lit s.
Proof. intros (sg & ds & e & E & Hsg & Hds & He & _). exists sg, ds, e. tauto. Qed.

Lemma int_denotes_value s z : int_denotes s z -> z = int_value s.
Proof.
  intros (sg & ds & e & -> & Hsg & Hds & He & ->). symmetry. apply int_value_lit; assumption.
Qed.

Lemma int_value_denotes s : int_lit s -> int_denotes s (int_value s).
Proof.
  intros (sg & ds & e & -> & Hsg & Hds & He). exists sg, ds, e.
  split; [reflexivity|]. split; [exact Hsg|]. split; [exact Hds|]. split; [exact He|].
  apply int_value_lit; assumption.
Qed.

(* ------------------------------------------------------------------------------------------ *)
(* decimal rendering                                                                           *)

Lemma pos_digits_fuel_S f n acc : pos_digits_fuel (S f) n acc =
  if n / 10 =? 0 then (48 + n mod 10) :: acc else pos_digits_fuel f (n / 10) ((48 + n mod 10) :: acc).
Proof. reflexivity. Qed.

Lemma dec_to_N_snoc ds d : dec_to_N (ds ++ [d]) = 10 * dec_to_N ds + digit_val d.
Proof. unfold dec_to_N. rewrite fold_left_app. reflexivity. Qed.

Lemma last_digit_ok n : is_digit (48 + n mod 10) = true.
Proof. pose proof (N.mod_lt n 10). unfold is_digit. lia. Qed.

Lemma pos_digits_spec f : forall n acc, n < 2 ^ N.of_nat (S f) ->
  exists ds, pos_digits_fuel (S f) n acc = ds ++ acc /\ digits1 ds /\ dec_to_N ds = n.
Proof.
  assert (Hsmall : forall n acc, n / 10 = 0 ->
            exists ds, (48 + n mod 10) :: acc = ds ++ acc /\ digits1 ds /\ dec_to_N ds = n).
  { intros n acc Hq. exists [48 + n mod 10]. split; [reflexivity|]. split.
    - split; [|discriminate]. constructor; [apply last_digit_ok|constructor].
    - unfold dec_to_N, digit_val. cbn [fold_left].
      pose proof (N.div_mod n 10). pose proof (N.mod_lt n 10). lia. }
  induction f as [|f IH]; intros n acc Hn; rewrite pos_digits_fuel_S.
  - change (2 ^ N.of_nat 1) with 2 in Hn.
    assert (Hq : n / 10 = 0) by (apply N.div_small; lia).
    rewrite Hq. cbn [N.eqb]. apply Hsmall. exact Hq.
  - destruct (n / 10 =? 0) eqn:Hq.
    + apply N.eqb_eq in Hq. apply Hsmall. exact Hq.
    + apply N.eqb_neq in Hq. rewrite (Nat2N.inj_succ (S f)), N.pow_succ_r' in Hn.
      pose proof (N.div_mod n 10) as Hdm. pose proof (N.mod_lt n 10) as Hml.
      assert (Hq' : n / 10 < 2 ^ N.of_nat (S f)) by lia.
      destruct (IH (n / 10) ((48 + n mod 10) :: acc) Hq') as (ds & E & [Fd Hne] & Hv).
      exists (ds ++ [48 + n mod 10]). split; [|split].
      * rewrite E. rewrite <- app_assoc. reflexivity.
      * split.
        -- apply Forall_app. split; [exact Fd|]. constructor; [apply last_digit_ok|constructor].
        -- intros Ea. apply app_eq_nil in Ea. destruct Ea as [_ Ea]. discriminate.
      * rewrite dec_to_N_snoc, Hv. unfold digit_val. lia.
Qed.

Lemma N_to_dec_spec n : digits1 (N_to_dec n) /\ dec_to_N (N_to_dec n) = n.
Proof.
  unfold N_to_dec.
  assert (Hn : n < 2 ^ N.of_nat (S (N.to_nat (N.log2 n)))).
  { rewrite Nat2N.inj_succ, N2Nat.id. destruct n as [|p]; [reflexivity|].
    apply N.log2_spec. reflexivity. }
  destruct (pos_digits_spec _ n [] Hn) as (ds & E & Hds & Hv).
  rewrite E, app_nil_r. split; assumption.
Qed.

(* ------------------------------------------------------------------------------------------ *)
(* remove_quotes on quote free strings                                                         *)

Definition noquote (s : list N) : Prop := @Forall N (fun c => is_quote c = false) s.

Lemma quote_free_noquote s : quote_free s = true <-> noquote s.
Proof.
  unfold quote_free, noquote. rewrite forallb_forall, Forall_forall. split; intros H c Hc.
  - apply negb_true_iff. apply H. exact Hc.
  - apply negb_true_iff. apply H. exact Hc.
Qed.

Lemma rev_nil_inv {A} (l : list A) : rev l = [] -> l = [].
Proof. intros H. rewrite <- (rev_involutive l), H. reflexivity. Qed.

Lemma remove_quotes_noquote s : noquote s -> remove_quotes s = s.
Proof.
  intros Hs. unfold remove_quotes.
  assert (E1 : strip_lead_quote s = s).
  { destruct s as [|c s]; [reflexivity|]. cbn [strip_lead_quote]. inversion Hs as [|c' s' Hc _]; subst.
    rewrite Hc. reflexivity. }
  rewrite E1. unfold strip_trail_quote. pose proof (Forall_rev Hs) as Hr.
  destruct (rev s) as [|c t] eqn:Er.
  - apply rev_nil_inv in Er. subst. reflexivity.
  - inversion Hr as [|c' t' Hc Ht]; subst c' t'. rewrite Hc.
    destruct (c =? c_lf); [|reflexivity].
    destruct t as [|q t']; [reflexivity|]. inversion Ht as [|q' t'' Hq _]; subst q' t''. rewrite Hq. reflexivity.
Qed.

Lemma numch_noquote s : Forall numch s -> noquote s.
Proof. apply Forall_impl. intros c [_ H]. exact H. Qed.

Lemma fin_noquote e : fin e -> noquote e.
Proof. intros [->| ->]; repeat constructor. Qed.

Lemma int_lit_noquote s : int_lit s -> noquote s.
Proof.
  intros (sg & ds & e & -> & Hsg & Hds & He). apply Forall_app. split; [apply numch_noquote, sgn_numch; exact Hsg|].
  apply Forall_app. split; [apply numch_noquote, digits_numch; exact (proj1 Hds)|apply fin_noquote; exact He].
Qed.

Lemma float_lit_noquote s : float_lit s -> noquote s.
Proof.
  intros (sg & m & x & e & -> & Hsg & Hm & Hx & He).
  apply Forall_app. split; [apply numch_noquote, sgn_numch; exact Hsg|].
  apply Forall_app. split; [apply numch_noquote, mant_numch; exact Hm|].
  apply Forall_app. split; [apply numch_noquote, expo_numch; exact Hx|apply fin_noquote; exact He].
Qed.

Lemma int_lit_nonempty s : int_lit s -> s <> [].
Proof.
  intros (sg & ds & e & -> & _ & [_ Hne] & _) E. apply app_eq_nil in E. destruct E as [_ E].
  apply app_eq_nil in E. destruct E as [E _]. contradiction.
Qed.

Lemma float_lit_nonempty s : float_lit s -> s <> [].
Proof.
  intros (sg & m & x & e & -> & _ & Hm & _) E. apply app_eq_nil in E. destruct E as [_ E].
  apply app_eq_nil in E. destruct E as [E _]. exact (mant_nonempty m Hm E).
Qed.

(* ------------------------------------------------------------------------------------------ *)
(* reserved words                                                                              *)

Lemma reserved_b s :
  str_eqb s [c_minus] || str_eqb s [c_us] || str_eqb s [c_dot] = true <-> reserved s.
Proof. unfold reserved. rewrite !orb_true_iff, !str_eqb_eq. tauto. Qed.

Lemma has_digit_not_reserved s c : In c s -> is_digit c = true -> ~ reserved s.
Proof.
  intros Hin Hc [->|[->| ->]]; destruct Hin as [<-|[]]; discriminate Hc.
Qed.

Lemma digits1_has_digit ds : digits1 ds -> exists c, In c ds /\ is_digit c = true.
Proof.
  intros [Fd Hne]. destruct ds as [|c ds]; [congruence|]. exists c. split; [left; reflexivity|].
  inversion Fd; assumption.
Qed.

Lemma int_lit_not_reserved s : int_lit s -> ~ reserved s.
Proof.
  intros (sg & ds & e & -> & _ & Hds & _). destruct (digits1_has_digit ds Hds) as (c & Hin & Hc).
  apply (has_digit_not_reserved _ c); [|exact Hc]. apply in_or_app. right. apply in_or_app. left. exact Hin.
Qed.

(* ------------------------------------------------------------------------------------------ *)
(* parse_value on literals                                                                     *)

Lemma parse_value_int s : int_lit s -> parse_value s = Ok (SInt (int_value s)).
Proof.
  intros H. unfold parse_value. rewrite (remove_quotes_noquote s (int_lit_noquote s H)).
  pose proof (int_lit_nonempty s H) as Hne. apply nonempty_true in Hne. rewrite Hne. cbn [negb].
  destruct (str_eqb s [c_minus] || str_eqb s [c_us] || str_eqb s [c_dot]) eqn:Hr.
  - apply reserved_b in Hr. exfalso. exact (int_lit_not_reserved s H Hr).
  - rewrite (re_int_complete s H), (int_lit_py_ok s H). reflexivity.
Qed.

Lemma parse_value_float s : float_lit s -> re_int s = false -> ~ reserved s -> parse_value s = Ok (SFloat s).
Proof.
  intros H Hi Hnr. unfold parse_value. rewrite (remove_quotes_noquote s (float_lit_noquote s H)).
  pose proof (float_lit_nonempty s H) as Hne. apply nonempty_true in Hne. rewrite Hne. cbn [negb].
  destruct (str_eqb s [c_minus] || str_eqb s [c_us] || str_eqb s [c_dot]) eqn:Hr.
  - apply reserved_b in Hr. contradiction.
  - rewrite Hi, (re_float3_complete s H), (float_lit_py_ok s H). destruct (re_float2 s); reflexivity.
Qed.

(* ------------------------------------------------------------------------------------------ *)
(* writer spellings: int, bool, None                                                           *)

Lemma fmt_int_roundtrip : forall z, parse_value (format_scalar (SInt z)) = Ok (SInt z).
Proof.
  intros z. cbn [format_scalar].
  assert (Hgen : forall sg n, sgn sg ->
            parse_value (sg ++ N_to_dec n) =
            Ok (SInt (if str_eqb sg [c_minus] then - Z.of_N n else Z.of_N n)%Z)).
  { intros sg n Hsg. destruct (N_to_dec_spec n) as [Hds Hv].
    assert (E : sg ++ N_to_dec n = sg ++ N_to_dec n ++ []) by (rewrite app_nil_r; reflexivity).
    assert (Hlit : int_lit (sg ++ N_to_dec n ++ [])).
    { exists sg, (N_to_dec n), []. split; [reflexivity|]. split; [exact Hsg|]. split; [exact Hds|left; reflexivity]. }
    rewrite E. rewrite (parse_value_int _ Hlit).
    rewrite int_value_lit; [|exact Hsg|exact Hds|left; reflexivity].
    rewrite dec_value_dec_to_N, Hv. reflexivity. }
  destruct z as [|p|p]; unfold Z_to_dec.
  - vm_compute. reflexivity.
  - apply (Hgen [] (Npos p)). left. reflexivity.
  - apply (Hgen [c_minus] (Npos p)). right. right. reflexivity.
Qed.

Lemma fmt_bool_none_roundtrip :
  (forall b, parse_value (format_scalar (SBool b)) = Ok (SBool b)) /\ parse_value (format_scalar SNone) = Ok SNone.
Proof. split; [intros [|]|]; vm_compute; reflexivity. Qed.

(* ------------------------------------------------------------------------------------------ *)
(* the table is functional                                                                     *)

Ltac word_clash :=
  match goal with
  | H1 : word ?s = ?a, H2 : word ?s = ?b |- _ => rewrite H1 in H2; vm_compute in H2; discriminate H2
  end.

Ltac clash :=
  match goal with
  | H : ?P, N : ~ ?P |- _ => exact (False_ind _ (N H))
  | H : ?a = ?b, N : ?a <> ?b |- _ => exact (False_ind _ (N H))
  | H : int_denotes ?s ?z, N : ~ int_lit ?s |- _ => exact (False_ind _ (N (int_denotes_lit s z H)))
  | W : _ \/ _, N : ~ is_word_lit _ |- _ => exfalso; apply N; unfold is_word_lit; tauto
  | W1 : word ?s = _ \/ _, W2 : word ?s = _ \/ _ |- _ => exfalso; destruct W1, W2; word_clash
  end.

Lemma classify_functional : forall s v1 v2, classify s v1 -> classify s v2 -> v1 = v2.
Proof.
  intros s v1 v2 H1 H2.
  destruct H1 as [A1|A1 B1|z1 A1 B1 C1|A1 B1 C1 D1|A1 B1 C1 D1 W1|A1 B1 C1 D1 W1|A1 B1 C1 D1 W1|A1 B1 C1 D1 W1];
  destruct H2 as [A2|A2 B2|z2 A2 B2 C2|A2 B2 C2 D2|A2 B2 C2 D2 W2|A2 B2 C2 D2 W2|A2 B2 C2 D2 W2|A2 B2 C2 D2 W2];
  try reflexivity; try clash.
  apply int_denotes_value in C1. apply int_denotes_value in C2. congruence.
Qed.

(* ------------------------------------------------------------------------------------------ *)
(* parse_value follows the table                                                               *)

Lemma parse_value_table : forall s, exists v, parse_value s = Ok v /\ classify s v.
Proof.
  intros s. unfold parse_value.
  destruct (nonempty (remove_quotes s)) eqn:Hne; cbn [negb].
  2:{ exists (SStr []). split; [reflexivity|]. apply cl_empty.
      destruct (remove_quotes s); [reflexivity|discriminate]. }
  apply nonempty_true in Hne.
  destruct (str_eqb s [c_minus] || str_eqb s [c_us] || str_eqb s [c_dot]) eqn:Hr.
  { apply reserved_b in Hr. exists (SStr s). split; [reflexivity|]. apply cl_reserved; assumption. }
  assert (Hnr : ~ reserved s). { intros R. apply reserved_b in R. congruence. }
  destruct (re_int s) eqn:Hi.
  { apply re_int_sound in Hi. rewrite (int_lit_py_ok s Hi). exists (SInt (int_value s)).
    split; [reflexivity|]. apply cl_int; [assumption|assumption|apply int_value_denotes; exact Hi]. }
  assert (Hni : ~ int_lit s). { intros L. apply re_int_complete in L. congruence. }
  destruct (re_float3 s) eqn:H3.
  { apply re_float3_sound in H3. rewrite (float_lit_py_ok s H3). exists (SFloat s).
    split; [destruct (re_float2 s); reflexivity|]. apply cl_float; assumption. }
  assert (H2 : re_float2 s = false).
  { destruct (re_float2 s) eqn:H2; [|reflexivity]. apply re_float2_float3 in H2. congruence. }
  rewrite H2.
  assert (Hnf : ~ float_lit s). { intros L. apply re_float3_complete in L. congruence. }
  cbv zeta. change (lower (strip s)) with (word s).
  destruct (str_eqb (word s) w_true) eqn:W1.
  { apply str_eqb_eq in W1. exists (SBool true). split; [reflexivity|]. apply cl_true; try assumption. left; exact W1. }
  destruct (str_eqb (word s) w_false) eqn:W2.
  { apply str_eqb_eq in W2. exists (SBool false). split; [reflexivity|]. apply cl_false; try assumption. left; exact W2. }
  destruct (str_eqb (word s) w_on) eqn:W3.
  { apply str_eqb_eq in W3. exists (SBool true). split; [reflexivity|]. apply cl_true; try assumption. right; exact W3. }
  destruct (str_eqb (word s) w_off) eqn:W4.
  { apply str_eqb_eq in W4. exists (SBool false). split; [reflexivity|]. apply cl_false; try assumption. right; exact W4. }
  destruct (str_eqb (word s) w_none) eqn:W5.
  { apply str_eqb_eq in W5. exists SNone. split; [reflexivity|]. apply cl_none; try assumption. left; exact W5. }
  destruct (str_eqb (word s) w_null) eqn:W6.
  { apply str_eqb_eq in W6. exists SNone. split; [reflexivity|]. apply cl_none; try assumption. right; exact W6. }
  apply str_eqb_neq in W1, W2, W3, W4, W5, W6.
  exists (SStr (remove_quotes s)). split; [reflexivity|]. apply cl_str; try assumption.
  unfold is_word_lit. tauto.
Qed.

(* ------------------------------------------------------------------------------------------ *)
(* idempotence on quote free strings                                                           *)

Lemma parse_value_idem : forall s v, quote_free s = true -> parse_value s = Ok v -> parse_scalar v = Ok v.
Proof.
  intros s v Hq H. destruct v as [z|l|b| |t]; try reflexivity. cbn [parse_scalar].
  apply quote_free_noquote in Hq. pose proof (remove_quotes_noquote s Hq) as Erq.
  assert (Ht : t = [] \/ t = s).
  { revert H. unfold parse_value. rewrite Erq.
    destruct (negb (nonempty s)); [intros H; injection H as <-; left; reflexivity|].
    destruct (str_eqb s [c_minus] || str_eqb s [c_us] || str_eqb s [c_dot]);
      [intros H; injection H as <-; right; reflexivity|].
    destruct (re_int s); [destruct (py_int_ok s); intros H; discriminate H|].
    destruct (re_float2 s); [destruct (py_float_ok s); intros H; discriminate H|].
    destruct (re_float3 s); [destruct (py_float_ok s); intros H; discriminate H|].
    cbv zeta.
    repeat match goal with
           | |- (if ?b then _ else _) = _ -> _ => destruct b; [intros H; discriminate H|]
           end.
    intros H; injection H as <-; right; reflexivity. }
  destruct Ht as [->| ->]; [vm_compute; reflexivity|exact H].
Qed.

(* ------------------------------------------------------------------------------------------ *)
(* float repr round trip                                                                       *)

Lemma forallb_digits ds : forallb is_digit ds = true -> digits ds.
Proof. intros H. unfold digits. apply Forall_forall. intros c Hc. rewrite forallb_forall in H. apply H. exact Hc. Qed.

Lemma repr_exp_expo x : repr_exp x = true ->
  expo x /\ hd_not is_digit x /\ at_end x = false.
Proof.
  destruct x as [|c [|sg ds]]; cbn [repr_exp]; try discriminate. intros H.
  apply andb_true_iff in H. destruct H as [H Hf]. apply andb_true_iff in H. destruct H as [H Hn].
  apply andb_true_iff in H. destruct H as [Hc Hsg]. apply N.eqb_eq in Hc. subst c.
  split; [|split; reflexivity].
  exists c_e, [sg], ds. split; [reflexivity|]. split; [left; reflexivity|]. split.
  - unfold is_sign in Hsg. apply orb_true_iff in Hsg. unfold sgn.
    destruct Hsg as [Hs|Hs]; apply N.eqb_eq in Hs; subst sg; [right; left|right; right]; reflexivity.
  - split; [apply forallb_digits; exact Hf|apply nonempty_true; exact Hn].
Qed.

Lemma py_repr_spec r : is_py_repr r = true ->
  exists sg d1 rest m x,
    r = sg ++ d1 ++ rest /\ sgn sg /\ digits1 d1 /\ hd_not is_digit rest /\ at_end rest = false /\
    d1 ++ rest = m ++ x /\ mant m /\ (x = [] \/ expo x).
Proof.
  unfold is_py_repr. intros H.
  match type of H with context [span is_digit ?t] => set (r0 := t) in H end.
  assert (Hsg : exists sg, r = sg ++ r0 /\ sgn sg).
  { subst r0. destruct r as [|c r']; [exists []; split; [reflexivity|left; reflexivity]|].
    destruct (c =? c_minus) eqn:Hc.
    - apply N.eqb_eq in Hc. subst c. exists [c_minus]. split; [reflexivity|right; right; reflexivity].
    - exists []. split; [reflexivity|left; reflexivity]. }
  clearbody r0. destruct Hsg as (sg & -> & Hsg).
  destruct (span is_digit r0) as [d1 r1] eqn:Hs. apply span_spec in Hs. destruct Hs as (E & F1 & Hr1).
  apply andb_true_iff in H. destruct H as [Hd1 H]. apply nonempty_true in Hd1.
  destruct r1 as [|c r2]; [discriminate|].
  destruct (c =? c_dot) eqn:Hc.
  - apply N.eqb_eq in Hc. subst c. destruct (span is_digit r2) as [d2 r3] eqn:Hs2.
    apply span_spec in Hs2. destruct Hs2 as (E2 & F2 & _).
    apply andb_true_iff in H. destruct H as [Hd2 H]. apply nonempty_true in Hd2.
    exists sg, d1, (c_dot :: r2), (d1 ++ c_dot :: d2), r3.
    split; [subst r0; reflexivity|]. split; [exact Hsg|]. split; [split; assumption|].
    split; [reflexivity|]. split.
    { subst r2. destruct d2 as [|c d2']; [congruence|]. reflexivity. }
    split; [subst r2; rewrite <- app_assoc; reflexivity|]. split.
    { right. exists d1, d2. split; [reflexivity|]. split; [exact F1|]. split; [exact F2|left; exact Hd1]. }
    destruct r3 as [|c3 r3']; [left; reflexivity|]. right. apply repr_exp_expo. exact H.
  - apply repr_exp_expo in H. destruct H as (Hx & Hh & Ha).
    exists sg, d1, (c :: r2), d1, (c :: r2).
    split; [subst r0; reflexivity|]. split; [exact Hsg|]. split; [split; assumption|].
    split; [exact Hh|]. split; [exact Ha|]. split; [reflexivity|]. split; [left; split; assumption|right; exact Hx].
Qed.

Lemma fmt_float_roundtrip : forall r, is_py_repr r = true -> parse_value (format_scalar (SFloat r)) = Ok (SFloat r).
Proof.
  intros r H. cbn [format_scalar].
  destruct (py_repr_spec r H) as (sg & d1 & rest & m & x & -> & Hsg & Hd1 & Hh & Ha & E & Hm & Hx).
  apply parse_value_float.
  - exists sg, m, x, []. split; [rewrite app_nil_r, <- E; reflexivity|]. split; [exact Hsg|].
    split; [exact Hm|]. split; [exact Hx|left; reflexivity].
  - unfold re_int. rewrite opt_sign_app; [|exact Hsg|apply digits1_hd; [exact digit_not_sign|exact Hd1]].
    rewrite (span_app is_digit d1 rest (proj1 Hd1) Hh). rewrite Ha. apply andb_false_r.
  - destruct (digits1_has_digit d1 Hd1) as (c & Hin & Hc).
    apply (has_digit_not_reserved _ c); [|exact Hc]. apply in_or_app. right. apply in_or_app. left. exact Hin.
Qed.
