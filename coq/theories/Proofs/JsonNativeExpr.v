(* C09, part 3: $-references and expressions.  For flat documents (every top-level key holds a scalar) whose leaves are
   ordinary bare scalars (ints, floats, booleans, none, single words), references ($name, $name[0]...) or expressions
   (a text with at least one reference that is not a lone reference), the JSON front end (json_extract_expression on
   the string values) and the native front end (the lexer's expression stage on the written text) register the same
   expression texts and put a placeholder where each stood: resolving the placeholders with the own table gives the
   document back on both sides.  The numbering differs (JSON: document order; native: all quoted expressions first,
   then the bare references). *)
From Coq Require Import String.
From Coq Require Import NArith ZArith List Bool Lia ZifyBool ZifyN ZifyNat.
From DictIO Require Import Chars Str Value Scalar KeyPath SDict Layout Lexer TokParser Reader TreeSpec NativeSpec LayoutSpec E2ESpec FlatSpec.
From DictIO Require ScalarProofs SDictProofs TokProofs LayoutProofs SemProofs QuoteProofs KeyPathProofs FlatDataProofs FoamProofs.
From DictIO Require Import E2EProofs E2EHoles E2EInsert E2EKeyTok E2EFullProofs AnyLayoutLex AnyLayoutProofs AnyLayoutComments JsonNativeProofs.
Import ListNotations.
Import LayoutProofs.
Open Scope N_scope.

(* ================================================================================================ *)
(* 0. the documents                                                                                 *)
(* ================================================================================================ *)

(* a reference: dollar, word character, then word characters or square brackets *)
Definition is_ref_str (s : list N) : bool :=
  match s with d :: w :: tl => (d =? c_dollar) && is_word w && forallb is_ref_char tl | _ => false end.
(* the characters of an expression text: anything but the two quote characters, the backslash, the semicolon, the slash,
   the hash and the line feed *)
Definition expr_char (c : cp) : bool :=
  negb (c =? c_sq) && negb (c =? c_dq) && negb (c =? c_bsl) && negb (c =? c_semi) && negb (c =? c_slash)
  && negb (c =? c_hash) && negb (c =? c_lf).
Definition has_ref (s : list N) : bool := match find_reference [] s with Some _ => true | None => false end.
Definition lone_ref (s : list N) : bool := match single_reference s with Some _ => true | None => false end.
(* the classifier takes the text for a string (true of every text with a dollar; kept as a computable condition) *)
Definition pv_str (s : list N) : bool := match parse_value s with Ok (SStr _) => true | _ => false end.
Definition is_expr_str (s : list N) : bool :=
  forallb expr_char s && has_ref s && negb (lone_ref s) && negb (re_reference s) && str_eqb (strip s) s && pv_str s.
(* an ordinary bare scalar that the classifier reads back as itself *)
Definition is_plain_leaf (v : scalar) : bool := simple_leaf v && scalar_eqb (norm_scalar v) v.

Inductive xkind := XPlain | XRef | XExpr.
Definition xkind_of (v : scalar) : option xkind :=
  match v with
  | SStr s => if is_ref_str s && pv_str s then Some XRef else if is_expr_str s then Some XExpr
              else if is_plain_leaf v then Some XPlain else None
  | _ => if is_plain_leaf v then Some XPlain else None
  end.
Definition xtext (v : scalar) : str := match v with SStr s => s | _ => [] end.

Definition xentry_ok (kv : key * tree) : bool :=
  simple_key (fst kv) && match snd kv with Leaf v => match xkind_of v with Some _ => true | None => false end | _ => false end.
Definition xkind_kv (kv : key * tree) : option xkind := match snd kv with Leaf v => xkind_of v | _ => None end.
Definition xtext_kv (kv : key * tree) : str := match snd kv with Leaf v => xtext v | _ => [] end.

(* the texts of the expressions / references / both, in document order *)
Definition xexprs (kvs : list (key * tree)) : list str :=
  flat_map (fun kv => match xkind_kv kv with Some XExpr => [xtext_kv kv] | _ => [] end) kvs.
Definition xrefs (kvs : list (key * tree)) : list str :=
  flat_map (fun kv => match xkind_kv kv with Some XRef => [xtext_kv kv] | _ => [] end) kvs.
Definition xtexts (kvs : list (key * tree)) : list str :=
  flat_map (fun kv => match xkind_kv kv with Some XExpr | Some XRef => [xtext_kv kv] | _ => [] end) kvs.

Definition xdoc_ok (kvs : list (key * tree)) : bool :=
  forallb xentry_ok kvs && keys_nodup (map fst kvs) && strs_nodup (xexprs kvs).

(* numbering: one list of ids consumed in document order (JSON) *)
Fixpoint lab1 (ks : list N) (kvs : list (key * tree)) : list (key * tree) :=
  match kvs with
  | [] => []
  | kv :: r => match xkind_kv kv with
               | Some XExpr | Some XRef => (fst kv, Leaf (SStr (ph_of (hd 0 ks)))) :: lab1 (tl ks) r
               | _ => kv :: lab1 ks r
               end
  end.
(* numbering: the expressions from one list, the references from another (native) *)
Fixpoint lab2 (es rs : list N) (kvs : list (key * tree)) : list (key * tree) :=
  match kvs with
  | [] => []
  | kv :: r => match xkind_kv kv with
               | Some XExpr => (fst kv, Leaf (SStr (ph_of (hd 0 es)))) :: lab2 (tl es) rs r
               | Some XRef => (fst kv, Leaf (SStr (ph_of (hd 0 rs)))) :: lab2 es (tl rs) r
               | _ => kv :: lab2 es rs r
               end
  end.
Definition xentry (i : N) (t : list N) : N * expr_entry := (i, (t, ph_of i)).
Definition xtab (ks : list N) (ts : list str) : list (N * expr_entry) := map (fun it => xentry (fst it) (snd it)) (combine ks ts).

(* resolving the placeholder leaves with a table: what the shared code does with every value (_insert_expression) *)
Definition resolve (tab : list (N * expr_entry)) (d : list (key * tree)) : list (key * tree) :=
  map (fun kv => (fst kv, insert_expression (snd kv) tab)) d.

(* ================================================================================================ *)
(* 1. strings                                                                                       *)
(* ================================================================================================ *)
Lemma replace_go_swallow old new : forall (s : list N) k, (length s <= k)%nat -> replace_go old new k s = [].
Proof.
  induction s as [|c s IH]; intros k Hk; [reflexivity|]. destruct k as [|k]; [cbn [length] in Hk; lia|].
  cbn [replace_go]. apply IH. cbn [length] in Hk. lia.
Qed.

Lemma starts_with_refl' (s : list N) : starts_with s s = true.
Proof. induction s as [|c s IH]; [reflexivity|]. cbn [starts_with]. rewrite N.eqb_refl. exact IH. Qed.

Lemma replace_all_self (s new : list N) : s <> [] -> replace_all s new s = new.
Proof.
  intros Hne. destruct s as [|c s]; [congruence|]. unfold replace_all. cbn [replace_go].
  rewrite (starts_with_refl' (c :: s)). cbn [length Nat.pred]. rewrite (replace_go_swallow _ _ s (length s) (Nat.le_refl _)).
  apply app_nil_r.
Qed.

Lemma span_all (p : N -> bool) (s : list N) : forallb p s = true -> span p s = (s, []).
Proof.
  induction s as [|c s IH]; intros H; [reflexivity|]. cbn [forallb] in H. apply andb_true_iff in H. destruct H as [Hc Hs].
  cbn [span]. rewrite Hc, (IH Hs). reflexivity.
Qed.

Lemma ref_find (r : list N) : is_ref_str r = true -> find_reference [] r = Some ([], r, []).
Proof.
  destruct r as [|d [|w tl]]; try discriminate. cbn [is_ref_str]. intros H.
  apply andb_true_iff in H. destruct H as [H H3]. apply andb_true_iff in H. destruct H as [H1 H2].
  cbn [find_reference]. rewrite H1, H2. cbn [andb]. rewrite (span_all _ tl H3). reflexivity.
Qed.

Lemma ref_single (r : list N) : is_ref_str r = true -> single_reference r = Some r.
Proof. intros H. unfold single_reference. rewrite (ref_find r H). reflexivity. Qed.

Lemma ref_nonempty (r : list N) : is_ref_str r = true -> r <> [].
Proof. destruct r; [discriminate|discriminate]. Qed.

Lemma find_refs_some (s : list N) x : find_reference [] s = Some x -> find_refs (S (length s)) s <> [].
Proof. intros H. cbn [find_refs]. rewrite H. destruct x as [[b r] a]. discriminate. Qed.

(* the JSON front end on one string value *)
Lemma json_extract_ref c (r : list N) : is_ref_str r = true ->
  json_extract_expression c r =
    (ph_of (Z.to_N (counter_next c)), counter_next c, [xentry (Z.to_N (counter_next c)) r]).
Proof.
  intros H. unfold json_extract_expression.
  destruct (find_refs (S (length r)) r) eqn:E; [exfalso; exact (find_refs_some r _ (ref_find r H) E)|].
  rewrite (ref_single r H), (replace_all_self r _ (ref_nonempty r H)). reflexivity.
Qed.

Lemma expr_inv (e : list N) : is_expr_str e = true ->
  forallb expr_char e = true /\ has_ref e = true /\ single_reference e = None /\ strip e = e /\
  (exists s', parse_value e = Ok (SStr s')).
Proof.
  unfold is_expr_str. intros H. apply andb_true_iff in H. destruct H as [H H5]. apply andb_true_iff in H. destruct H as [H H4].
  apply andb_true_iff in H. destruct H as [H _].
  apply andb_true_iff in H. destruct H as [H H3]. apply andb_true_iff in H. destruct H as [H1 H2].
  split; [exact H1|]. split; [exact H2|]. split.
  - unfold lone_ref in H3. destruct (single_reference e); [discriminate H3|reflexivity].
  - split; [apply SDictProofs.str_eqb_eq; exact H4|]. unfold pv_str in H5. destruct (parse_value e) as [[]|]; try discriminate H5. eexists. reflexivity.
Qed.

Lemma expr_nonempty (e : list N) : is_expr_str e = true -> e <> [].
Proof. intros H. destruct (expr_inv e H) as (_ & H2 & _). destruct e; [discriminate H2|discriminate]. Qed.

Lemma json_extract_expr c (e : list N) : is_expr_str e = true ->
  json_extract_expression c e =
    (ph_of (Z.to_N (counter_next c)), counter_next c, [xentry (Z.to_N (counter_next c)) e]).
Proof.
  intros H. destruct (expr_inv e H) as (_ & H2 & H3 & H4 & _). unfold json_extract_expression.
  unfold has_ref in H2. destruct (find_reference [] e) as [x|] eqn:Ef; [|discriminate H2].
  destruct (find_refs (S (length e)) e) eqn:E; [exfalso; exact (find_refs_some e _ Ef E)|].
  rewrite H3, H4, (replace_all_self e _ (expr_nonempty e H)). reflexivity.
Qed.

(* ================================================================================================ *)
(* 2. the JSON front end on a flat document                                                         *)
(* ================================================================================================ *)
Lemma simple_leaf_nodollar s : simple_leaf (SStr s) = true -> has_char c_dollar s = false.
Proof.
  unfold simple_leaf. cbn [format_scalar]. intros H. destruct (simple_tok_inv _ H) as (_ & Hc & _).
  assert (Hs : forallb simple_char s = true).
  { unfold format_string in Hc. destruct (classify_string s); try exact Hc;
      unfold sq, dq in Hc; cbn [forallb] in Hc; discriminate Hc. }
  apply forallb_nochar. apply forallb_forall. intros c Hin. pose proof (forallb_In _ _ _ Hs Hin) as H1. cbn beta.
  destruct (c =? c_dollar) eqn:E; [|reflexivity]. apply N.eqb_eq in E. subst c. discriminate H1.
Qed.

(* the table after the JSON pass: the entries are appended in document order *)
Fixpoint jxtab (c : Z) (tab : list (N * expr_entry)) (ts : list str) : list (N * expr_entry) :=
  match ts with
  | [] => tab
  | t :: ts' => jxtab (counter_next c) (tupdate tab [xentry (Z.to_N (counter_next c)) t]) ts'
  end.

Lemma je_leaf_x c tab k v : xentry_ok (k, Leaf v) = true ->
  json_expressions (Leaf v) c tab =
    match xkind_of v with
    | Some XExpr | Some XRef => (Leaf (SStr (ph_of (Z.to_N (counter_next c)))), counter_next c,
                                 tupdate tab [xentry (Z.to_N (counter_next c)) (xtext v)])
    | _ => (Leaf v, c, tab)
    end.
Proof.
  unfold xentry_ok. cbn [fst snd]. intros H. apply andb_true_iff in H. destruct H as [_ H].
  destruct v as [z|l|b| |s]; cbn [xkind_of] in *; try (destruct (is_plain_leaf _); reflexivity).
  destruct (is_ref_str s && pv_str s) eqn:Er.
  - apply andb_true_iff in Er. destruct Er as [Er Ep]. cbn [json_expressions xtext]. unfold pv_str in Ep.
    destruct (parse_value s) as [[]|]; try discriminate Ep. rewrite (json_extract_ref c s Er). reflexivity.
  - destruct (is_expr_str s) eqn:Ee.
    + destruct (expr_inv s Ee) as (_ & _ & _ & _ & (s' & Ep)). cbn [json_expressions xtext]. rewrite Ep.
      rewrite (json_extract_expr c s Ee). reflexivity.
    + destruct (is_plain_leaf (SStr s)) eqn:Epl; [|discriminate H]. unfold is_plain_leaf in Epl.
      apply andb_true_iff in Epl. destruct Epl as [Es _]. apply SemProofs.json_leaf_untouched. exact (simple_leaf_nodollar s Es).
Qed.

Lemma je_kvs_x : forall kvs c tab, forallb xentry_ok kvs = true ->
  SemProofs.je_kvs kvs c tab =
    (lab1 (ids c (length (xtexts kvs))) kvs, cafter c (length (xtexts kvs)), jxtab c tab (xtexts kvs)).
Proof.
  induction kvs as [|[k t] kvs IH]; intros c tab H; [reflexivity|].
  cbn [forallb] in H. apply andb_true_iff in H. destruct H as [H1 H2].
  assert (Ht : exists v, t = Leaf v).
  { unfold xentry_ok in H1. cbn [fst snd] in H1. apply andb_true_iff in H1. destruct H1 as [_ H1].
    destruct t as [v| |]; try discriminate H1. exists v. reflexivity. }
  destruct Ht as [v ->]. cbn [SemProofs.je_kvs]. rewrite (je_leaf_x c tab k v H1). fold SemProofs.je_kvs.
  unfold xtexts. cbn [flat_map lab1]. unfold xkind_kv, xtext_kv. cbn [fst snd]. fold (xtexts kvs).
  destruct (xkind_of v) as [[| |]|] eqn:Ek.
  - cbn [app]. rewrite (IH c tab H2). reflexivity.
  - cbn [app length]. rewrite ids_S. cbn [hd tl cafter jxtab]. rewrite (IH (counter_next c) _ H2). reflexivity.
  - cbn [app length]. rewrite ids_S. cbn [hd tl cafter jxtab]. rewrite (IH (counter_next c) _ H2). reflexivity.
  - cbn [app]. rewrite (IH c tab H2). reflexivity.
Qed.

Lemma jxtab_fresh : forall ts c tab, NoDup (map fst tab ++ ids c (length ts)) ->
  jxtab c tab ts = tab ++ xtab (ids c (length ts)) ts.
Proof.
  induction ts as [|t ts IH]; intros c tab Hnd; [cbn; rewrite app_nil_r; reflexivity|].
  cbn [length] in Hnd. rewrite ids_S in Hnd. cbn [jxtab length]. rewrite ids_S.
  rewrite (tupdate_fresh [xentry (Z.to_N (counter_next c)) t] tab).
  - rewrite IH.
    + rewrite <- app_assoc. reflexivity.
    + rewrite map_app, <- app_assoc. exact Hnd.
  - rewrite map_app. cbn [map fst xentry]. apply (RereadStr.NoDup_app_l _ (ids (counter_next c) (length ts))).
    rewrite <- app_assoc. exact Hnd.
Qed.

Lemma simple_key_not_include k : simple_key k = true -> is_include_key_json k = false.
Proof.
  intros Hk. destruct k as [z|s]; [reflexivity|]. destruct (simple_key_inv _ Hk) as (Hkt & Hkx & _).
  destruct (simple_tok_inv _ Hkt) as (Hne & Hc & _). cbn [key_text] in Hkx. rewrite <- Hkx in Hne, Hc.
  cbn [is_include_key_json]. unfold include_line_rest. destruct s as [|c s]; [congruence|].
  cbn [forallb] in Hc. apply andb_true_iff in Hc. destruct Hc as [Hc _].
  destruct (simple_char_word c Hc) as [Hs _]. cbn [lstrip]. rewrite Hs.
  assert (Hh : (c =? c_hash) = false) by (destruct (c =? c_hash) eqn:E; [apply N.eqb_eq in E; subst c; discriminate Hc|reflexivity]).
  rewrite Hh. reflexivity.
Qed.

Lemma xdoc_inv kvs : xdoc_ok kvs = true ->
  forallb xentry_ok kvs = true /\ NoDup (map fst kvs) /\ NoDup (xexprs kvs) /\ no_include_keys kvs = true /\
  wf (Dict kvs) = true.
Proof.
  unfold xdoc_ok. intros H. apply andb_true_iff in H. destruct H as [H H3]. apply andb_true_iff in H. destruct H as [H1 H2].
  split; [exact H1|]. split; [apply SDictProofs.keys_nodup_iff; exact H2|]. split; [apply strs_nodup_NoDup; exact H3|]. split.
  - unfold no_include_keys. apply forallb_forall. intros kv Hin. rewrite forallb_forall in H1. pose proof (H1 kv Hin) as Hk.
    unfold xentry_ok in Hk. apply andb_true_iff in Hk. rewrite (simple_key_not_include _ (proj1 Hk)). reflexivity.
  - rewrite TokProofs.wf_dict, H2. cbn [andb]. apply forallb_forall. intros kv Hin. rewrite forallb_forall in H1.
    pose proof (H1 kv Hin) as Hk. unfold xentry_ok in Hk. apply andb_true_iff in Hk. destruct Hk as [_ Hk].
    destruct (snd kv); [reflexivity|discriminate Hk|discriminate Hk].
Qed.

Lemma lab1_keys : forall kvs ks, map fst (lab1 ks kvs) = map fst kvs.
Proof.
  induction kvs as [|kv kvs IH]; intros ks; [reflexivity|]. cbn [lab1]. destruct (xkind_kv kv) as [[| |]|]; cbn [map fst]; rewrite IH; reflexivity.
Qed.
Lemma lab2_keys : forall kvs es rs, map fst (lab2 es rs kvs) = map fst kvs.
Proof.
  induction kvs as [|kv kvs IH]; intros es rs; [reflexivity|]. cbn [lab2]. destruct (xkind_kv kv) as [[| |]|]; cbn [map fst]; rewrite IH; reflexivity.
Qed.

(* a flat document with simple keys: nothing for the clean-up to do, whatever the tables *)
Lemma flat_clean d lc bc inc ex : (forall kv, In kv d -> simple_key (fst kv) = true /\ exists v, snd kv = Leaf v) ->
  NoDup (map fst d) -> sd_clean (mkSD d lc bc inc ex) = mkSD d lc bc inc ex.
Proof.
  intros Hd Hnd. apply sd_clean_keys.
  - induction d as [|[k t] d IH]; [reflexivity|]. rewrite skeys_dict_cons.
    destruct (Hd (k, t) (or_introl eq_refl)) as [Hk [v Hv]]. cbn [fst snd] in Hk, Hv. subst t. rewrite Hk. cbn [andb].
    change (skeys (Leaf v)) with true. cbn [andb]. apply IH; [intros kv Hin; apply Hd; right; exact Hin|].
    inversion Hnd; assumption.
  - rewrite TokProofs.wf_dict. apply andb_true_iff. split; [apply SDictProofs.keys_nodup_iff; exact Hnd|].
    apply forallb_forall. intros kv Hin. destruct (Hd kv Hin) as [_ [v Hv]]. rewrite Hv. reflexivity.
Qed.

Lemma lab1_flat : forall kvs ks kv, forallb xentry_ok kvs = true -> In kv (lab1 ks kvs) ->
  simple_key (fst kv) = true /\ exists v, snd kv = Leaf v.
Proof.
  induction kvs as [|kv0 kvs IH]; intros ks kv H Hin; [destruct Hin|].
  cbn [forallb] in H. apply andb_true_iff in H. destruct H as [H1 H2]. unfold xentry_ok in H1. apply andb_true_iff in H1.
  destruct H1 as [Hk Hv]. cbn [lab1] in Hin.
  assert (G : kv = kv0 \/ (exists i, kv = (fst kv0, Leaf (SStr (ph_of i)))) \/ exists ks', In kv (lab1 ks' kvs)).
  { destruct (xkind_kv kv0) as [[| |]|]; destruct Hin as [E|Hin]; eauto. }
  destruct G as [-> |[[i ->]|[ks' Hin']]].
  - split; [exact Hk|]. destruct (snd kv0) as [v| |]; try discriminate Hv. eexists. reflexivity.
  - split; [exact Hk|]. eexists. reflexivity.
  - exact (IH ks' kv H2 Hin').
Qed.
Lemma lab2_flat : forall kvs es rs kv, forallb xentry_ok kvs = true -> In kv (lab2 es rs kvs) ->
  simple_key (fst kv) = true /\ exists v, snd kv = Leaf v.
Proof.
  induction kvs as [|kv0 kvs IH]; intros es rs kv H Hin; [destruct Hin|].
  cbn [forallb] in H. apply andb_true_iff in H. destruct H as [H1 H2]. unfold xentry_ok in H1. apply andb_true_iff in H1.
  destruct H1 as [Hk Hv]. cbn [lab2] in Hin.
  assert (G : kv = kv0 \/ (exists i, kv = (fst kv0, Leaf (SStr (ph_of i)))) \/ exists es' rs', In kv (lab2 es' rs' kvs)).
  { destruct (xkind_kv kv0) as [[| |]|]; destruct Hin as [E|Hin]; eauto. }
  destruct G as [-> |[[i ->]|(es' & rs' & Hin')]].
  - split; [exact Hk|]. destruct (snd kv0) as [v| |]; try discriminate Hv. eexists. reflexivity.
  - split; [exact Hk|]. eexists. reflexivity.
  - exact (IH es' rs' kv H2 Hin').
Qed.

Theorem json_parse_xdoc dir c kvs : xdoc_ok kvs = true -> (-1 <= c)%Z -> (Z.of_nat (length (xtexts kvs)) <= 1000000)%Z ->
  let ks := ids c (length (xtexts kvs)) in
  json_parse dir c kvs = mkParsed (mkSD (lab1 ks kvs) [] [] [] (xtab ks (xtexts kvs))) (cafter c (length (xtexts kvs))).
Proof.
  intros Hx Hc Hm ks. destruct (xdoc_inv kvs Hx) as (He & Hnd & _ & Hni & Hwf).
  assert (Hu : aupdate [] kvs = kvs) by (rewrite KeyPathProofs.aupdate_app; [reflexivity|exact Hnd]).
  assert (H0 : sd_update sd_empty kvs None = mkSD kvs [] [] [] []).
  { unfold sd_update, sd_empty. cbn [sd_data sd_lc sd_bc sd_inc sd_expr post_update]. rewrite Hu. apply sd_clean_bare. exact Hwf. }
  unfold json_parse. rewrite H0. cbn [sd_data sd_lc sd_bc sd_inc sd_expr].
  rewrite (SemProofs.json_includes_none dir kvs c Hni).
  assert (H1 : sd_update (mkSD [] [] [] [] []) [] None = mkSD [] [] [] [] []).
  { unfold sd_update. cbn [sd_data sd_lc sd_bc sd_inc sd_expr post_update aupdate fold_left]. apply sd_clean_bare. reflexivity. }
  rewrite H1.
  assert (H2 : sd_update (mkSD [] [] [] [] []) kvs (Some (mkSD kvs [] [] [] [])) = mkSD kvs [] [] [] []).
  { unfold sd_update. cbn [sd_data sd_lc sd_bc sd_inc sd_expr post_update tupdate fold_left]. rewrite Hu. apply sd_clean_bare. exact Hwf. }
  rewrite H2. cbn [sd_data sd_lc sd_bc sd_inc sd_expr].
  rewrite SemProofs.json_expressions_dict, (je_kvs_x kvs c [] He). cbn [kvs_of_tree]. fold ks.
  rewrite (jxtab_fresh (xtexts kvs) c []) by (cbn [map app]; apply ids_nodup; assumption). cbn [app]. fold ks.
  rewrite flat_clean; [reflexivity| |rewrite lab1_keys; exact Hnd].
  intros kv Hin. exact (lab1_flat kvs ks kv He Hin).
Qed.

(* ================================================================================================ *)
(* 3. texts made of plain stretches, double-quoted expressions and bare references                  *)
(* ================================================================================================ *)
Inductive seg := SP (p : list N) | SE (e : list N) | SR (r : list N).
Definition seg_text (s : seg) : str := match s with SP p => p | SE e => dq e | SR r => r end.
Definition stext (l : list seg) : str := flat_map seg_text l.

(* plain: no quote, no backslash, no dollar *)
Definition plainc (c : N) : bool := negb (c =? c_sq) && negb (c =? c_dq) && negb (c =? c_bsl) && negb (c =? c_dollar).
(* what the literal scanner walks over one character at a time *)
Definition scanc (c : N) : bool := negb (c =? c_sq) && negb (c =? c_dq) && negb (c =? c_bsl).
(* the body of a quoted expression *)
Definition ebody (e : list N) : Prop := forallb expr_char e = true /\ has_char c_dollar e = true /\ e <> [].
Definition next_semi (l : list seg) : Prop := exists p r, l = SP (c_semi :: p) :: r.
Fixpoint segs_ok (l : list seg) : Prop :=
  match l with
  | [] => True
  | SP p :: r => forallb plainc p = true /\ segs_ok r
  | SE e :: r => ebody e /\ next_semi r /\ segs_ok r
  | SR x :: r => is_ref_str x = true /\ next_semi r /\ segs_ok r
  end.

Lemma stext_app a b : stext (a ++ b) = stext a ++ stext b.
Proof. unfold stext. apply flat_map_app. Qed.

Lemma expr_char_facts c : expr_char c = true ->
  (c =? c_sq) = false /\ (c =? c_dq) = false /\ (c =? c_bsl) = false /\ (c =? c_semi) = false.
Proof. unfold expr_char. intros H. repeat split; uc; lia. Qed.

Lemma ref_char_facts c : is_ref_char c = true ->
  (c =? c_sq) = false /\ (c =? c_dq) = false /\ (c =? c_bsl) = false /\ (c =? c_semi) = false /\ (c =? c_dollar) = false.
Proof. unfold is_ref_char, is_word, is_digit, is_upper, is_lower, is_uni_space. intros H. repeat split; uc; lia. Qed.

Lemma word_facts c : is_word c = true ->
  (c =? c_sq) = false /\ (c =? c_dq) = false /\ (c =? c_bsl) = false /\ (c =? c_semi) = false /\ (c =? c_dollar) = false.
Proof. intros H. apply ref_char_facts. unfold is_ref_char. rewrite H. reflexivity. Qed.

Lemma ref_scanc r : is_ref_str r = true -> forallb scanc r = true /\ has_char c_dq r = false.
Proof.
  destruct r as [|d [|w tl]]; try discriminate. cbn [is_ref_str]. intros H.
  apply andb_true_iff in H. destruct H as [H H3]. apply andb_true_iff in H. destruct H as [H1 H2]. apply N.eqb_eq in H1. subst d.
  destruct (word_facts w H2) as (A1 & A2 & A3 & _).
  assert (G : forallb scanc tl = true /\ has_char c_dq tl = false).
  { clear -H3. induction tl as [|c tl IH]; [split; reflexivity|]. cbn [forallb] in H3. apply andb_true_iff in H3.
    destruct H3 as [Hc Ht]. destruct (ref_char_facts c Hc) as (B1 & B2 & B3 & _). destruct (IH Ht) as [I1 I2].
    split; [cbn [forallb]; unfold scanc at 1; rewrite B1, B2, B3, I1; reflexivity|].
    rewrite has_char_cons, I2, N.eqb_sym, B2. reflexivity. }
  destruct G as [G1 G2]. split.
  - cbn [forallb]. unfold scanc at 1 2. rewrite A1, A2, A3, G1. reflexivity.
  - rewrite !has_char_cons, G2, (N.eqb_sym c_dq w), A2. reflexivity.
Qed.

Lemma plain_scanc p : forallb plainc p = true -> forallb scanc p = true /\ has_char c_dq p = false /\ has_char c_dollar p = false.
Proof.
  induction p as [|c p IH]; intros H; [repeat split; reflexivity|]. cbn [forallb] in H. apply andb_true_iff in H.
  destruct H as [Hc Hp]. destruct (IH Hp) as (I1 & I2 & I3). unfold plainc in Hc.
  apply andb_true_iff in Hc. destruct Hc as [Hc H4]. apply andb_true_iff in Hc. destruct Hc as [Hc H3].
  apply andb_true_iff in Hc. destruct Hc as [H1 H2]. apply negb_true_iff in H1, H2, H3, H4.
  split; [cbn [forallb]; unfold scanc at 1; rewrite H1, H2, H3, I1; reflexivity|].
  rewrite !has_char_cons, I2, I3, (N.eqb_sym c_dq c), (N.eqb_sym c_dollar c), H2, H4. split; reflexivity.
Qed.

Lemma ebody_nodq e : ebody e -> has_char c_dq e = false /\ forallb scanc e = true.
Proof.
  intros (H & _ & _). induction e as [|c e IH]; [split; reflexivity|]. cbn [forallb] in H. apply andb_true_iff in H.
  destruct H as [Hc He]. destruct (expr_char_facts c Hc) as (A1 & A2 & A3 & _). destruct (IH He) as [I1 I2].
  split; [rewrite has_char_cons, I1, N.eqb_sym, A2; reflexivity|cbn [forallb]; unfold scanc at 1; rewrite A1, A2, A3, I2; reflexivity].
Qed.

(* ---- the literal scanner leaves such a text alone ------------------------------------------------- *)
Lemma scan_char fuel c count out tab (s : list N) : scanc c = true ->
  scan_literals (S fuel) false count out tab (c :: s) = scan_literals fuel false count (c :: out) tab s.
Proof.
  intros H. unfold scanc in H. apply andb_true_iff in H. destruct H as [H H3]. apply andb_true_iff in H. destruct H as [H1 H2].
  apply negb_true_iff in H1, H2, H3. cbn [scan_literals].
  assert (Q : forall q, (c =? q) = false -> quoted_at q false (c :: s) = None).
  { intros q Hq. unfold quoted_at, opener_at. cbn [count_bsl]. rewrite H3. cbn [drop_n]. rewrite Hq. reflexivity. }
  rewrite (Q c_sq H1), (Q c_dq H2), H3. reflexivity.
Qed.

Lemma scan_run : forall (p : list N) fuel count out tab (s : list N), forallb scanc p = true ->
  scan_literals (length p + fuel) false count out tab (p ++ s) = scan_literals fuel false count (rev p ++ out) tab s.
Proof.
  induction p as [|c p IH]; intros fuel count out tab s H; [reflexivity|]. cbn [forallb] in H. apply andb_true_iff in H.
  destruct H as [Hc Hp]. cbn [length Nat.add app]. rewrite (scan_char _ c count out tab _ Hc).
  etransitivity; [exact (IH fuel count (c :: out) tab s Hp)|]. cbn [rev]. rewrite <- app_assoc. reflexivity.
Qed.

Lemma until_closer_dq : forall (e acc rest : list N), has_char c_dq e = false ->
  until_closer [c_dq] acc (e ++ c_dq :: rest) = Some (rev acc ++ e ++ [c_dq], rest).
Proof.
  induction e as [|c e IH]; intros acc rest H.
  - cbn [app until_closer starts_with]. rewrite N.eqb_refl. cbn [andb length drop_n]. reflexivity.
  - rewrite has_char_cons in H. apply orb_false_iff in H. destruct H as [Hc He]. cbn [app until_closer starts_with].
    rewrite Hc. cbn [andb]. rewrite (IH (c :: acc) rest He). cbn [rev]. rewrite <- app_assoc. reflexivity.
Qed.

Lemma scan_expr fuel count out tab (e s : list N) : ebody e ->
  scan_literals (S fuel) false count out tab (dq e ++ s) = scan_literals fuel false count (rev (dq e) ++ out) tab s.
Proof.
  intros He. destruct (ebody_nodq e He) as [Hq _]. destruct He as (_ & Hd & _). unfold dq. cbn [app scan_literals].
  assert (Q1 : quoted_at c_sq false (c_dq :: (e ++ [c_dq]) ++ s) = None) by reflexivity.
  rewrite Q1.
  assert (Q2 : quoted_at c_dq false (c_dq :: (e ++ [c_dq]) ++ s) = Some (c_dq :: e ++ [c_dq], s)).
  { unfold quoted_at, opener_at. cbn [count_bsl]. change (c_dq =? c_bsl) with false. cbv iota. cbn [drop_n].
    rewrite N.eqb_refl. cbn [Nat.eqb orb andb repeat app length drop_n].
    rewrite <- app_assoc. cbn [app]. unfold cp in *. rewrite (until_closer_dq e [] s Hq). reflexivity. }
  rewrite Q2. rewrite has_char_cons, FlatDataProofs.has_char_app, Hd. rewrite orb_true_r. reflexivity.
Qed.

Lemma scan_segs : forall l fuel count out tab, segs_ok l -> (length (stext l) <= fuel)%nat ->
  scan_literals fuel false count out tab (stext l) = (rev out ++ stext l, count, tab).
Proof.
  induction l as [|s l IH]; intros fuel count out tab Hok Hf.
  - cbn [stext flat_map]. destruct fuel; cbn [scan_literals]; rewrite ?app_nil_r; reflexivity.
  - unfold stext in *. cbn [flat_map] in *. fold (stext l) in *. rewrite app_length in Hf. destruct s as [p|e|r]; cbn [seg_text segs_ok] in *.
    + destruct Hok as [Hp Hl]. destruct (plain_scanc p Hp) as (Hs & _).
      replace fuel with (length p + (fuel - length p))%nat by lia.
      rewrite (scan_run p _ count out tab _ Hs), (IH _ count _ tab Hl) by lia. rewrite rev_app_distr, rev_involutive, <- app_assoc. reflexivity.
    + destruct Hok as (He & _ & Hl). destruct fuel as [|fuel]; [unfold dq in Hf; cbn [length] in Hf; lia|].
      rewrite (scan_expr fuel count out tab e _ He), (IH _ count _ tab Hl).
      * rewrite rev_app_distr, rev_involutive, <- app_assoc. reflexivity.
      * unfold dq in Hf. cbn [length] in Hf. lia.
    + destruct Hok as (Hr & _ & Hl). destruct (ref_scanc r Hr) as [Hs _].
      replace fuel with (length r + (fuel - length r))%nat by lia.
      rewrite (scan_run r _ count out tab _ Hs), (IH _ count _ tab Hl) by lia. rewrite rev_app_distr, rev_involutive, <- app_assoc. reflexivity.
Qed.

(* ---- the expression stage, part 1: the quoted expressions ---------------------------------------- *)
Definition sexprs (l : list seg) : list str := flat_map (fun s => match s with SE e => [e] | _ => [] end) l.
Definition srefs (l : list seg) : list str := flat_map (fun s => match s with SR r => [r] | _ => [] end) l.

Lemma fe_run : forall (p : list N) fuel (s : list N), has_char c_dq p = false ->
  find_expressions (length p + fuel) (p ++ s) = find_expressions fuel s.
Proof.
  induction p as [|c p IH]; intros fuel s H; [reflexivity|]. rewrite has_char_cons in H. apply orb_false_iff in H.
  destruct H as [Hc Hp]. cbn [length Nat.add app find_expressions]. rewrite N.eqb_sym in Hc. rewrite Hc. exact (IH fuel s Hp).
Qed.

Lemma efq : forall (e acc : list N) seen (rest : list N), has_char c_dq e = false -> seen || has_char c_dollar e = true ->
  expr_from_quote acc seen (e ++ c_dq :: rest) = Some (rev acc ++ e ++ [c_dq], rest).
Proof.
  induction e as [|c e IH]; intros acc seen rest Hq Hd.
  - cbn [app expr_from_quote]. rewrite N.eqb_refl. cbn [has_char existsb] in Hd. rewrite orb_false_r in Hd. rewrite Hd.
    cbn [rev]. reflexivity.
  - rewrite has_char_cons in Hq. apply orb_false_iff in Hq. destruct Hq as [Hc He]. rewrite N.eqb_sym in Hc.
    cbn [app expr_from_quote]. rewrite Hc. rewrite (IH (c :: acc) _ rest He).
    + cbn [rev]. rewrite <- app_assoc. reflexivity.
    + rewrite has_char_cons in Hd. rewrite (N.eqb_sym c c_dollar), <- orb_assoc. exact Hd.
Qed.

Lemma fe_segs : forall l fuel, segs_ok l -> (length (stext l) <= fuel)%nat ->
  find_expressions fuel (stext l) = map dq (sexprs l).
Proof.
  induction l as [|s l IH]; intros fuel Hok Hf.
  - destruct fuel; reflexivity.
  - unfold stext, sexprs in *. cbn [flat_map] in *. fold (stext l) in *. fold (sexprs l) in *. rewrite app_length in Hf.
    destruct s as [p|e|r]; cbn [seg_text segs_ok app] in *.
    + destruct Hok as [Hp Hl]. destruct (plain_scanc p Hp) as (_ & Hq & _).
      replace fuel with (length p + (fuel - length p))%nat by lia. rewrite (fe_run p _ _ Hq). apply IH; [exact Hl|lia].
    + destruct Hok as (He & _ & Hl). destruct (ebody_nodq e He) as [Hq _]. destruct He as (_ & Hd & _).
      destruct fuel as [|fuel]; [unfold dq in Hf; cbn [length] in Hf; lia|].
      unfold dq at 1. cbn [app find_expressions]. rewrite N.eqb_refl. rewrite <- app_assoc. cbn [app].
      rewrite (efq e [c_dq] false _ Hq) by (rewrite Hd; reflexivity). cbn [rev app map]. f_equal.
      apply IH; [exact Hl|]. unfold dq in Hf. cbn [length] in Hf. lia.
    + destruct Hok as (Hr & _ & Hl). destruct (ref_scanc r Hr) as [_ Hq].
      replace fuel with (length r + (fuel - length r))%nat by lia. rewrite (fe_run r _ _ Hq). apply IH; [exact Hl|lia].
Qed.

(* replacing one quoted expression everywhere *)
Definition subst_e (e ph : list N) (l : list seg) : list seg :=
  map (fun s => match s with SE e' => if str_eqb e' e then SP ph else s | _ => s end) l.

Lemma rg_run old new : forall (p s : list N), has_char c_dq p = false ->
  replace_go (c_dq :: old) new 0 (p ++ s) = p ++ replace_go (c_dq :: old) new 0 s.
Proof.
  induction p as [|c p IH]; intros s H; [reflexivity|]. rewrite has_char_cons in H. apply orb_false_iff in H.
  destruct H as [Hc Hp]. cbn [app replace_go starts_with]. rewrite Hc. cbn [andb]. rewrite (IH s Hp). reflexivity.
Qed.

Lemma rg_skip old new : forall (x s : list N), replace_go old new (length x) (x ++ s) = replace_go old new 0 s.
Proof. induction x as [|c x IH]; intros s; [reflexivity|]. cbn [length app]. destruct s; cbn [replace_go]; apply IH. Qed.

Lemma rg_hit (old new s : list N) : old <> [] -> replace_go old new 0 (old ++ s) = new ++ replace_go old new 0 s.
Proof.
  intros Hne. destruct old as [|c old]; [congruence|]. cbn [app replace_go].
  change (c :: old ++ s) with ((c :: old) ++ s). rewrite CounterBase.starts_with_app. cbn [length Nat.pred].
  rewrite rg_skip. reflexivity.
Qed.

Lemma sw_neq : forall (e e' rest : list N), has_char c_dq e = false -> has_char c_dq e' = false ->
  starts_with (e ++ [c_dq]) (e' ++ c_dq :: rest) = true -> e = e'.
Proof.
  induction e as [|c e IH]; intros e' rest He He' H.
  - destruct e' as [|c' e']; [reflexivity|]. cbn [app starts_with] in H. rewrite has_char_cons in He'. apply orb_false_iff in He'.
    destruct He' as [Hc _]. rewrite Hc in H. discriminate H.
  - destruct e' as [|c' e'].
    + cbn [app starts_with] in H. rewrite has_char_cons in He. apply orb_false_iff in He. destruct He as [Hc _].
      rewrite N.eqb_sym in Hc. rewrite Hc in H. discriminate H.
    + cbn [app starts_with] in H. apply andb_true_iff in H. destruct H as [H1 H2]. apply N.eqb_eq in H1. subst c'.
      rewrite has_char_cons in He, He'. apply orb_false_iff in He, He'. f_equal. exact (IH e' rest (proj2 He) (proj2 He') H2).
Qed.

Lemma rg_miss (e e' new p : list N) (s : list N) : ebody e -> ebody e' -> e' <> e ->
  replace_go (dq e) new 0 (dq e' ++ c_semi :: p ++ s) = dq e' ++ replace_go (dq e) new 0 (c_semi :: p ++ s).
Proof.
  intros He He' Hne. destruct (ebody_nodq e He) as [Hq _]. destruct (ebody_nodq e' He') as [Hq' _].
  unfold dq at 2 3. cbn [app replace_go].
  assert (S1 : starts_with (dq e) (c_dq :: (e' ++ [c_dq]) ++ c_semi :: p ++ s) = false).
  { destruct (starts_with (dq e) (c_dq :: (e' ++ [c_dq]) ++ c_semi :: p ++ s)) eqn:E; [|reflexivity]. exfalso.
    unfold dq in E. cbn [starts_with] in E. rewrite N.eqb_refl in E. cbn [andb] in E. rewrite <- app_assoc in E. cbn [app] in E.
    apply Hne. symmetry. exact (sw_neq e e' _ Hq Hq' E). }
  rewrite S1. f_equal. rewrite <- !app_assoc. unfold dq. rewrite (rg_run _ new e' _ Hq'). f_equal.
  destruct He as (Hc & _ & Hn). destruct e as [|c e]; [congruence|]. cbn [forallb] in Hc. apply andb_true_iff in Hc.
  destruct (expr_char_facts c (proj1 Hc)) as (_ & _ & _ & A).
  cbn [app replace_go starts_with]. rewrite N.eqb_refl, A. reflexivity.
Qed.

Lemma replace_segs : forall l (e ph : list N), segs_ok l -> ebody e ->
  replace_go (dq e) ph 0 (stext l) = stext (subst_e e ph l).
Proof.
  induction l as [|s l IH]; intros e ph Hok He; [reflexivity|].
  unfold stext, subst_e in *. cbn [flat_map map] in *. fold (stext l) in *. fold (subst_e e ph l) in *.
  destruct s as [p|e'|r]; cbn [seg_text segs_ok] in *.
  - destruct Hok as [Hp Hl]. destruct (plain_scanc p Hp) as (_ & Hq & _). unfold dq. rewrite (rg_run _ ph p _ Hq).
    f_equal. exact (IH e ph Hl He).
  - destruct Hok as (He' & (p & r & ->) & Hl). destruct (str_eqb e' e) eqn:E.
    + apply SDictProofs.str_eqb_eq in E. subst e'. cbn [seg_text]. rewrite rg_hit by (unfold dq; discriminate).
      f_equal. exact (IH e ph Hl He).
    + cbn [seg_text]. specialize (IH e ph Hl He). unfold stext, subst_e in IH |- *. cbn [flat_map map seg_text app] in IH |- *.
      rewrite (rg_miss e e' ph p _ He He'); [f_equal; exact IH|]. intros ->. rewrite ScalarProofs.str_eqb_refl in E. discriminate E.
  - destruct Hok as (Hr & _ & Hl). destruct (ref_scanc r Hr) as [_ Hq]. unfold dq. rewrite (rg_run _ ph r _ Hq).
    f_equal. exact (IH e ph Hl He).
Qed.

(* numbering the quoted expressions / the bare references of a segment list *)
Fixpoint labE (ks : list N) (l : list seg) : list seg :=
  match l with
  | [] => []
  | SE e :: r => SP (ph_of (hd 0 ks)) :: labE (tl ks) r
  | s :: r => s :: labE ks r
  end.
Fixpoint labR (ks : list N) (l : list seg) : list seg :=
  match l with
  | [] => []
  | SR x :: r => SP (ph_of (hd 0 ks)) :: labR (tl ks) r
  | s :: r => s :: labR ks r
  end.

Lemma ph_plain i : forallb plainc (ph_of i) = true.
Proof.
  unfold ph_of, placeholder. rewrite forallb_app. apply andb_true_iff. split; [reflexivity|].
  apply forallb_forall. intros c Hc. pose proof (forallb_In _ _ _ (pad6_digits i) Hc) as Hd.
  unfold plainc. unfold is_digit in Hd. uc. lia.
Qed.

Lemma labE_none : forall l ks, sexprs l = [] -> labE ks l = l.
Proof.
  induction l as [|s l IH]; intros ks H; [reflexivity|]. destruct s as [p|e|r]; cbn [labE]; try (f_equal; apply IH; exact H).
  discriminate H.
Qed.

Lemma subst_none : forall l e ph, ~ In e (sexprs l) -> subst_e e ph l = l.
Proof.
  induction l as [|s l IH]; intros e ph H; [reflexivity|]. unfold subst_e. cbn [map]. fold (subst_e e ph l).
  destruct s as [p|e'|r]; try (f_equal; apply IH; exact H).
  unfold sexprs in H. cbn [flat_map app] in H. fold (sexprs l) in H.
  destruct (str_eqb e' e) eqn:E; [apply SDictProofs.str_eqb_eq in E; subst e'; exfalso; apply H; left; reflexivity|].
  f_equal. apply IH. intros Hin. apply H. right. exact Hin.
Qed.

Lemma subst_ok : forall l e i, segs_ok l -> segs_ok (subst_e e (ph_of i) l).
Proof.
  induction l as [|s l IH]; intros e i H; [exact I|]. unfold subst_e. cbn [map]. fold (subst_e e (ph_of i) l).
  assert (Hns : next_semi l -> next_semi (subst_e e (ph_of i) l)).
  { intros (p & r & ->). exists p, (subst_e e (ph_of i) r). reflexivity. }
  destruct s as [p|e'|r]; cbn [segs_ok] in *.
  - destruct H as [H1 H2]. split; [exact H1|exact (IH e i H2)].
  - destruct H as (H1 & H2 & H3). destruct (str_eqb e' e); cbn [segs_ok].
    + split; [apply ph_plain|exact (IH e i H3)].
    + split; [exact H1|]. split; [exact (Hns H2)|exact (IH e i H3)].
  - destruct H as (H1 & H2 & H3). split; [exact H1|]. split; [exact (Hns H2)|exact (IH e i H3)].
Qed.

Lemma sexprs_cons s l : sexprs (s :: l) = match s with SE e => [e] | _ => [] end ++ sexprs l.
Proof. reflexivity. Qed.
Lemma srefs_cons s l : srefs (s :: l) = match s with SR e => [e] | _ => [] end ++ srefs l.
Proof. reflexivity. Qed.

Lemma labE_subst : forall l e es k ks, sexprs l = e :: es -> ~ In e es ->
  labE (k :: ks) l = labE ks (subst_e e (ph_of k) l) /\ sexprs (subst_e e (ph_of k) l) = es.
Proof.
  induction l as [|s l IH]; intros e es k ks H Hn; [discriminate H|].
  unfold subst_e. cbn [map]. fold (subst_e e (ph_of k) l). rewrite sexprs_cons in H.
  destruct s as [p|e'|r]; cbn [app] in H.
  - destruct (IH e es k ks H Hn) as [I1 I2]. cbn [labE]. rewrite sexprs_cons, I1. split; [reflexivity|exact I2].
  - inversion H as [[E1 E2]]. subst e'. rewrite ScalarProofs.str_eqb_refl. cbn [labE hd tl]. rewrite sexprs_cons. cbn [app].
    assert (Hn' : ~ In e (sexprs l)) by (rewrite E2; exact Hn).
    rewrite (subst_none l e _ Hn'). split; [reflexivity|first [exact E2|reflexivity]].
  - destruct (IH e es k ks H Hn) as [I1 I2]. cbn [labE]. rewrite sexprs_cons, I1. split; [reflexivity|exact I2].
Qed.

Lemma sexprs_ebody : forall l e, segs_ok l -> In e (sexprs l) -> ebody e.
Proof.
  induction l as [|s l IH]; intros e H Hin; [destruct Hin|]. unfold sexprs in Hin. cbn [flat_map] in Hin. fold (sexprs l) in Hin.
  destruct s as [p|e'|r]; cbn [segs_ok app] in *.
  - exact (IH e (proj2 H) Hin).
  - destruct H as (H1 & _ & H3). destruct Hin as [<-|Hin]; [exact H1|exact (IH e H3 Hin)].
  - exact (IH e (proj2 (proj2 H)) Hin).
Qed.

Definition estep (acc : str * Z * list (N * expr_entry)) (e : list N) : str * Z * list (N * expr_entry) :=
  let '(t, c, tab) := acc in
  let k := counter_next c in
  let ph := placeholder w_EXPRESSION (Z.to_N k) in
  (replace_all e ph t, k, tupdate tab [(Z.to_N k, (strip_dq e, ph))]).

Lemma strip_dq_dq e : has_char c_dq e = false -> strip_dq (dq e) = e.
Proof.
  intros H. unfold strip_dq, dq. cbn [filter]. rewrite N.eqb_refl. cbn [negb]. rewrite filter_app. cbn [filter].
  rewrite N.eqb_refl. cbn [negb]. rewrite app_nil_r. apply filter_all. intros c Hc.
  rewrite (has_char_In c_dq e H c Hc). reflexivity.
Qed.

Lemma fold_exprs : forall es l c tab, segs_ok l -> sexprs l = es -> NoDup es ->
  fold_left estep (map dq es) (stext l, c, tab) =
    (stext (labE (ids c (length es)) l), cafter c (length es), jxtab c tab es).
Proof.
  induction es as [|e es IH]; intros l c tab Hok Hs Hnd.
  - cbn [map fold_left length ids idsZ cafter jxtab]. rewrite (labE_none l _ Hs). reflexivity.
  - inversion Hnd as [|? ? Hn Hnd']; subst. cbn [map fold_left]. unfold estep at 2.
    assert (He : ebody e) by (apply (sexprs_ebody l e Hok); rewrite Hs; left; reflexivity).
    destruct (ebody_nodq e He) as [Hq _]. rewrite (strip_dq_dq e Hq).
    change (replace_all (dq e) ?ph ?t) with (replace_go (dq e) ph 0 t). fold (ph_of (Z.to_N (counter_next c))).
    rewrite (replace_segs l e _ Hok He).
    destruct (labE_subst l e es (Z.to_N (counter_next c)) (ids (counter_next c) (length es)) Hs Hn) as [L1 L2].
    rewrite (IH _ (counter_next c) _ (subst_ok l e _ Hok) L2 Hnd'). cbn [length cafter jxtab]. rewrite ids_S, L1. reflexivity.
Qed.

(* ---- the expression stage, part 2: the bare references -------------------------------------------- *)
Lemma fr_cons (c w : N) (r acc : list N) : find_reference acc (c :: w :: r) =
  if (c =? c_dollar) && is_word w then let (tl, rest) := span is_ref_char r in Some (rev acc, c :: w :: tl, rest)
  else find_reference (c :: acc) (w :: r).
Proof. reflexivity. Qed.

Lemma fr_run : forall (p acc s : list N), has_char c_dollar p = false ->
  find_reference acc (p ++ s) = find_reference (rev p ++ acc) s.
Proof.
  induction p as [|c p IH]; intros acc s H; [reflexivity|]. rewrite has_char_cons in H. apply orb_false_iff in H.
  destruct H as [Hc Hp]. cbn [app]. destruct (p ++ s) as [|w r] eqn:E.
  - apply app_eq_nil in E. destruct E as [-> ->]. reflexivity.
  - rewrite fr_cons. rewrite N.eqb_sym in Hc. rewrite Hc. cbn [andb]. unfold cp, str in *. rewrite <- E, (IH (c :: acc) s Hp).
    cbn [rev]. rewrite <- app_assoc. reflexivity.
Qed.

Lemma span_stop (p : N -> bool) : forall (a : list N) c (rest : list N), forallb p a = true -> p c = false ->
  span p (a ++ c :: rest) = (a, c :: rest).
Proof.
  induction a as [|x a IH]; intros c rest Ha Hc; [cbn [app span]; rewrite Hc; reflexivity|].
  cbn [forallb] in Ha. apply andb_true_iff in Ha. destruct Ha as [Hx Ha]. cbn [app span]. rewrite Hx, (IH c rest Ha Hc). reflexivity.
Qed.

Lemma fr_hit (r acc rest : list N) : is_ref_str r = true ->
  find_reference acc (r ++ c_semi :: rest) = Some (rev acc, r, c_semi :: rest).
Proof.
  destruct r as [|d [|w tl]]; try discriminate. cbn [is_ref_str]. intros H.
  apply andb_true_iff in H. destruct H as [H H3]. apply andb_true_iff in H. destruct H as [H1 H2].
  cbn [app]. rewrite fr_cons, H1, H2. cbn [andb]. rewrite (span_stop is_ref_char tl c_semi rest H3 eq_refl). reflexivity.
Qed.

Lemma refs_segs : forall l (pre : list N) c tab fuel, segs_ok l -> sexprs l = [] -> has_char c_dollar pre = false ->
  (length (srefs l) < fuel)%nat ->
  extract_references fuel c (pre ++ stext l) tab =
    (pre ++ stext (labR (ids c (length (srefs l))) l), cafter c (length (srefs l)), jxtab c tab (srefs l)).
Proof.
  induction l as [|s l IH]; intros pre c tab fuel Hok Hse Hpre Hf.
  - destruct fuel as [|fuel]; [cbn [srefs flat_map length] in Hf; lia|]. cbn [stext flat_map]. rewrite app_nil_r.
    cbn [extract_references]. rewrite (SemProofs.find_reference_none pre [] Hpre).
    cbn [srefs flat_map length ids idsZ map labR stext cafter jxtab]. rewrite app_nil_r. reflexivity.
  - unfold stext, srefs, sexprs in *. cbn [flat_map] in *. fold (stext l) in *. fold (srefs l) in *. fold (sexprs l) in *.
    destruct s as [p|e|r]; cbn [seg_text segs_ok app labR] in *.
    + destruct Hok as [Hp Hl]. destruct (plain_scanc p Hp) as (_ & _ & Hd). rewrite app_assoc.
      rewrite (IH (pre ++ p) c tab fuel Hl Hse).
      * rewrite <- app_assoc. reflexivity.
      * rewrite FlatDataProofs.has_char_app, Hpre, Hd. reflexivity.
      * exact Hf.
    + discriminate Hse.
    + destruct Hok as (Hr & Hns & Hl). cbn [length] in Hf |- *. destruct fuel as [|fuel]; [lia|].
      assert (Es : exists rest, stext l = c_semi :: rest).
      { destruct Hns as (p' & r' & ->). eexists. reflexivity. }
      destruct Es as [rest Es]. set (k := counter_next c).
      cbn [extract_references]. rewrite Es.
      rewrite (fr_run pre [] _ Hpre), app_nil_r, (fr_hit r (rev pre) _ Hr), rev_involutive.
      fold k. fold (ph_of (Z.to_N k)). rewrite <- Es. rewrite ids_S. fold k. cbn [hd tl cafter jxtab].
      cbn [flat_map seg_text]. rewrite !app_assoc. apply (IH (pre ++ ph_of (Z.to_N k)) k _ fuel Hl Hse).
      * rewrite FlatDataProofs.has_char_app, Hpre. destruct (plain_scanc _ (ph_plain (Z.to_N k))) as (_ & _ & Hd). rewrite Hd. reflexivity.
      * lia.
Qed.

Lemma labE_facts : forall l ks, segs_ok l -> segs_ok (labE ks l) /\ sexprs (labE ks l) = [] /\ srefs (labE ks l) = srefs l.
Proof.
  induction l as [|s l IH]; intros ks H; [repeat split; exact I|].
  assert (Hns : forall ks', next_semi l -> next_semi (labE ks' l)).
  { intros ks' (p & r & ->). exists p, (labE ks' r). reflexivity. }
  destruct s as [p|e|r]; cbn [labE segs_ok] in *.
  - destruct H as [H1 H2]. destruct (IH ks H2) as (I1 & I2 & I3). rewrite sexprs_cons, !srefs_cons, I2, I3. repeat split; assumption.
  - destruct H as (H1 & H2 & H3). destruct (IH (tl ks) H3) as (I1 & I2 & I3). rewrite sexprs_cons, !srefs_cons, I2, I3.
    repeat split; [apply ph_plain|exact I1].
  - destruct H as (H1 & H2 & H3). destruct (IH ks H3) as (I1 & I2 & I3). rewrite sexprs_cons, !srefs_cons, I2, I3.
    repeat split; [exact H1|exact (Hns ks H2)|exact I1].
Qed.

Lemma srefs_short : forall l, segs_ok l -> (length (srefs l) <= length (stext l))%nat.
Proof.
  induction l as [|s l IH]; intros H; [apply Nat.le_refl|]. rewrite srefs_cons. unfold stext. cbn [flat_map]. fold (stext l).
  rewrite !app_length. destruct s as [p|e|r]; cbn [segs_ok seg_text length] in *.
  - specialize (IH (proj2 H)). unfold str in *. lia.
  - specialize (IH (proj2 (proj2 H))). unfold str in *. lia.
  - destruct H as (H1 & _ & H3). specialize (IH H3). destruct r; [discriminate H1|]. cbn [length]. unfold str in *. lia.
Qed.

Theorem xe_segs l c : segs_ok l -> NoDup (sexprs l) ->
  let ne := length (sexprs l) in let nr := length (srefs l) in
  let c' := cafter c ne in
  extract_expressions c (stext l) =
    (stext (labR (ids c' nr) (labE (ids c ne) l)), cafter c' nr, jxtab c' (jxtab c [] (sexprs l)) (srefs l)).
Proof.
  intros Hok Hnd ne nr c'. unfold extract_expressions.
  rewrite (fe_segs l _ Hok (Nat.le_succ_diag_r _)).
  change (fold_left _ (map dq (sexprs l)) (stext l, c, [])) with (fold_left estep (map dq (sexprs l)) (stext l, c, [])).
  rewrite (fold_exprs (sexprs l) l c [] Hok eq_refl Hnd). fold ne c'.
  destruct (labE_facts l (ids c ne) Hok) as (L1 & L2 & L3).
  pose proof (refs_segs (labE (ids c ne) l) [] c' (jxtab c [] (sexprs l)) (S (length (stext (labE (ids c ne) l)))) L1 L2 eq_refl) as H.
  cbn [app] in H. rewrite L3 in H. apply H. fold nr. pose proof (srefs_short _ L1) as Hs. rewrite L3 in Hs. fold nr in Hs. lia.
Qed.

(* ================================================================================================ *)
(* 4. the written text of a flat document                                                           *)
(* ================================================================================================ *)
Definition vtxt (kv : key * tree) : list N := match snd kv with Leaf v => FS v | _ => [] end.
Definition kpre (kv : key * tree) : list N := FK (fst kv) ++ spaces (Nat.max 8 (30 - length (FK (fst kv)) - 4 * 0)).
Definition kline (kv : key * tree) : list N := kpre kv ++ vtxt kv ++ [c_semi].
Fixpoint ftext (kvs : list (key * tree)) : list N :=
  match kvs with
  | [] => []
  | [kv] => kline kv
  | kv :: r => kline kv ++ c_sp :: ftext r
  end.
Definition flat_entry (kv : key * tree) : Prop :=
  simple_key (fst kv) = true /\ exists v, snd kv = Leaf v /\ has_char c_lf (FS v) = false.

Lemma fentries_flat kvs : Forall flat_entry kvs -> fentries 0 kvs = flat_map (fun kv => kline kv ++ [c_lf]) kvs.
Proof.
  induction 1 as [|[k t] kvs Hkv _ IH]; [reflexivity|]. destruct Hkv as [_ (v & Hv & _)]. cbn [snd] in Hv. subst t.
  cbn [fentries flat_map]. rewrite IH. f_equal. unfold line, kline, kpre, vtxt. cbn [fst snd indent_of Nat.mul spaces repeat app].
  rewrite <- !app_assoc. reflexivity.
Qed.

Lemma FK_facts k : simple_key k = true ->
  word_lexeme (FK k) /\ forallb simple_char (FK k) = true /\ exists h r, FK k = h :: r /\ simple_char h = true.
Proof.
  intros Hk. destruct (simple_key_inv k Hk) as (Hkt & _). destruct (simple_tok_inv _ Hkt) as (Hne & Hc & _).
  split; [exact (simple_tok_word _ Hkt)|]. split; [exact Hc|]. destruct (FK k) as [|h r]; [congruence|].
  exists h, r. split; [reflexivity|]. cbn [forallb] in Hc. apply andb_true_iff in Hc. exact (proj1 Hc).
Qed.

Lemma nolf_app (a b : list N) : has_char c_lf a = false -> has_char c_lf b = false -> has_char c_lf (a ++ b) = false.
Proof. intros Ha Hb. rewrite FlatDataProofs.has_char_app, Ha, Hb. reflexivity. Qed.

Lemma simple_nolf (s : list N) : forallb simple_char s = true -> has_char c_lf s = false.
Proof.
  intros H. apply forallb_nochar. apply forallb_forall. intros c Hc. pose proof (forallb_In _ _ _ H Hc) as H1. cbn beta.
  destruct (c =? c_lf) eqn:E; [|reflexivity]. apply N.eqb_eq in E. subst c. discriminate H1.
Qed.

Lemma spaces_nolf n : has_char c_lf (spaces n) = false.
Proof. induction n as [|n IH]; [reflexivity|]. unfold spaces in *. cbn [repeat]. rewrite has_char_cons, IH. reflexivity. Qed.

Lemma kline_nolf kv : flat_entry kv -> has_char c_lf (kline kv) = false.
Proof.
  intros [Hk (v & Hv & Hn)]. unfold kline, kpre, vtxt. rewrite Hv. destruct (FK_facts _ Hk) as (_ & Hc & _).
  repeat apply nolf_app; [exact (simple_nolf _ Hc)|apply spaces_nolf|exact Hn|reflexivity].
Qed.

Lemma rts_flat kvs : Forall flat_entry kvs ->
  remove_trailing_spaces (flat_map (fun kv => kline kv ++ [c_lf]) kvs) = flat_map (fun kv => kline kv ++ [c_lf]) kvs.
Proof.
  induction 1 as [|kv kvs Hkv _ IH]; [reflexivity|]. cbn [flat_map]. rewrite <- app_assoc. cbn [app].
  rewrite (rts_line _ _ (kline_nolf kv Hkv)), IH. f_equal. unfold kline. rewrite !app_assoc. apply rstrip_nosp. reflexivity.
Qed.

Lemma map_lf2sp_nolf (s : list N) : has_char c_lf s = false -> map lf2sp s = s.
Proof.
  induction s as [|c s IH]; intros H; [reflexivity|]. rewrite has_char_cons in H. apply orb_false_iff in H. destruct H as [Hc Hs].
  cbn [map]. unfold lf2sp at 1. rewrite N.eqb_sym in Hc. rewrite Hc, (IH Hs). reflexivity.
Qed.

Lemma ftext_lines kvs : Forall flat_entry kvs -> kvs <> [] ->
  map lf2sp (flat_map (fun kv => kline kv ++ [c_lf]) kvs) = ftext kvs ++ [c_sp].
Proof.
  induction 1 as [|kv kvs Hkv Hall IH]; intros Hne; [congruence|]. cbn [flat_map]. rewrite map_app, map_app.
  rewrite (map_lf2sp_nolf _ (kline_nolf kv Hkv)). cbn [map]. change (lf2sp c_lf) with c_sp.
  destruct kvs as [|kv' kvs'].
  - cbn [flat_map map ftext app]. rewrite app_nil_r. reflexivity.
  - rewrite (IH ltac:(discriminate)). cbn [ftext]. rewrite <- !app_assoc. reflexivity.
Qed.

Lemma ftext_ends kvs : kvs <> [] -> exists x, ftext kvs = x ++ [c_semi].
Proof.
  induction kvs as [|kv kvs IH]; intros Hne; [congruence|]. destruct kvs as [|kv' kvs'].
  - cbn [ftext]. unfold kline. exists (kpre kv ++ vtxt kv). rewrite app_assoc. reflexivity.
  - destruct (IH ltac:(discriminate)) as [x Ex]. exists (kline kv ++ c_sp :: x). cbn [ftext] in *. rewrite Ex.
    rewrite <- app_assoc. reflexivity.
Qed.

Lemma ftext_head kvs : Forall flat_entry kvs -> kvs <> [] -> exists h r, ftext kvs = h :: r /\ simple_char h = true.
Proof.
  intros H Hne. destruct kvs as [|kv kvs]; [congruence|]. inversion H as [|? ? [Hk _] _]; subst.
  destruct (FK_facts _ Hk) as (_ & _ & (h & r & E & Hh)).
  destruct kvs; cbn [ftext]; unfold kline, kpre; rewrite E; cbn [app]; eexists _, _; (split; [reflexivity|exact Hh]).
Qed.

Lemma rstrip_sp (y : list N) : rstrip (y ++ [c_sp]) = rstrip y.
Proof. unfold rstrip. rewrite rev_unit. cbn [lstrip]. reflexivity. Qed.

Theorem rle_flat kvs : Forall flat_entry kvs -> remove_line_endings (to_string_plain kvs) = ftext kvs.
Proof.
  intros H. unfold to_string_plain.
  assert (Hk : forall kc, In kc kvs -> simple_key (fst kc) = true).
  { intros kc Hin. rewrite Forall_forall in H. exact (proj1 (H kc Hin)). }
  unfold native_body. rewrite (sort_top_keys kvs Hk), fmt_dict, (fentries_flat kvs H), (rts_flat kvs H).
  destruct kvs as [|kv kvs]; [reflexivity|].
  rewrite remove_line_endings_eq, (ftext_lines _ H ltac:(discriminate)).
  destruct (ftext_head _ H ltac:(discriminate)) as (h & r & Eh & Hh). destruct (simple_char_word h Hh) as [Hs _].
  destruct (ftext_ends (kv :: kvs) ltac:(discriminate)) as [x Ex].
  set (F := ftext (kv :: kvs)) in *. unfold strip.
  assert (El : lstrip (F ++ [c_sp]) = F ++ [c_sp]) by (rewrite Eh; cbn [app lstrip]; rewrite Hs; reflexivity).
  rewrite El, rstrip_sp, Ex. apply rstrip_nosp. reflexivity.
Qed.

(* ---- the kinds of leaves ----------------------------------------------------------------------------- *)
Lemma ref_re r : is_ref_str r = true -> re_reference r = true /\ has_char c_dollar r = true.
Proof.
  destruct r as [|d [|w tl]]; try discriminate. cbn [is_ref_str re_reference]. intros H.
  apply andb_true_iff in H. destruct H as [H H3]. apply andb_true_iff in H. destruct H as [H1 H2].
  rewrite H1, H2, (span_all _ tl H3). split; [reflexivity|]. apply N.eqb_eq in H1. subst d. reflexivity.
Qed.

Lemma has_ref_dollar (e : list N) : has_ref e = true -> has_char c_dollar e = true.
Proof.
  unfold has_ref. intros H. destruct (has_char c_dollar e) eqn:E; [reflexivity|].
  rewrite (SemProofs.find_reference_none e [] E) in H. discriminate H.
Qed.

Lemma expr_body (e : list N) : is_expr_str e = true -> ebody e /\ re_reference e = false.
Proof.
  intros H. pose proof (expr_nonempty e H) as Hne. destruct (expr_inv e H) as (H1 & H2 & _).
  split; [split; [exact H1|split; [exact (has_ref_dollar e H2)|exact Hne]]|].
  unfold is_expr_str in H. apply andb_true_iff in H. destruct H as [H _]. apply andb_true_iff in H. destruct H as [H _].
  apply andb_true_iff in H. destruct H as [_ H]. apply negb_true_iff in H. exact H.
Qed.

Inductive xcase (v : scalar) : Prop :=
  | XCplain : xkind_of v = Some XPlain -> simple_leaf v = true -> norm_scalar v = v -> xcase v
  | XCref r : xkind_of v = Some XRef -> v = SStr r -> is_ref_str r = true -> FS v = r -> xcase v
  | XCexpr e : xkind_of v = Some XExpr -> v = SStr e -> is_expr_str e = true -> FS v = dq e -> xcase v.

Lemma xcases k v : xentry_ok (k, Leaf v) = true -> xcase v.
Proof.
  unfold xentry_ok. cbn [fst snd]. intros H. apply andb_true_iff in H. destruct H as [_ H].
  assert (P : forall v, is_plain_leaf v = true -> simple_leaf v = true /\ norm_scalar v = v).
  { intros v0 Hp. unfold is_plain_leaf in Hp. apply andb_true_iff in Hp. destruct Hp as [A B]. split; [exact A|apply FoamProofs.scalar_eqb_eq; exact B]. }
  destruct v as [z|l|b| |s]; cbn [xkind_of] in *;
    try (destruct (is_plain_leaf _) eqn:Ep; [|discriminate H]; destruct (P _ Ep); apply XCplain; [cbn [xkind_of]; rewrite Ep; reflexivity|assumption..]).
  destruct (is_ref_str s && pv_str s) eqn:Er.
  - apply andb_true_iff in Er. destruct Er as [Er Ep]. destruct (ref_re s Er) as [R1 R2].
    apply (XCref _ s); [cbn [xkind_of]; rewrite Er, Ep; reflexivity|reflexivity|exact Er|].
    cbn [format_scalar]. unfold format_string, classify_string. rewrite R2, R1. reflexivity.
  - destruct (is_expr_str s) eqn:Ee.
    + destruct (expr_body s Ee) as [(B1 & B2 & B3) B4].
      apply (XCexpr _ s); [cbn [xkind_of]; rewrite Er, Ee; reflexivity|reflexivity|exact Ee|].
      cbn [format_scalar]. unfold format_string, classify_string. rewrite B2, B4. reflexivity.
    + destruct (is_plain_leaf (SStr s)) eqn:Ep; [|discriminate H]. destruct (P _ Ep).
      apply XCplain; [cbn [xkind_of]; rewrite Er, Ee, Ep; reflexivity|assumption..].
Qed.

Lemma simple_leaf_chars v : simple_leaf v = true -> forallb simple_char (FS v) = true /\ word_lexeme (FS v).
Proof. unfold simple_leaf. intros H. destruct (simple_tok_inv _ H) as (_ & Hc & _). split; [exact Hc|exact (simple_tok_word _ H)]. Qed.

Lemma simple_plainc (s : list N) : forallb simple_char s = true -> forallb plainc s = true.
Proof.
  intros H. apply forallb_forall. intros c Hc. pose proof (forallb_In _ _ _ H Hc) as H1. unfold plainc.
  unfold simple_char, is_word, is_digit, is_upper, is_lower, is_uni_space in H1. uc. lia.
Qed.

Lemma spaces_plainc n : forallb plainc (spaces n) = true.
Proof. induction n as [|n IH]; [reflexivity|]. unfold spaces in *. cbn [repeat forallb]. rewrite IH. reflexivity. Qed.

(* ---- the segments of a flat document ------------------------------------------------------------------- *)
Definition vseg (kv : key * tree) : seg :=
  match xkind_kv kv with
  | Some XExpr => SE (xtext_kv kv)
  | Some XRef => SR (xtext_kv kv)
  | _ => SP (vtxt kv)
  end.
Definition esegs (kv : key * tree) : list seg := [SP (kpre kv); vseg kv; SP [c_semi]].
Fixpoint dsegs (kvs : list (key * tree)) : list seg :=
  match kvs with
  | [] => []
  | [kv] => esegs kv
  | kv :: r => esegs kv ++ SP [c_sp] :: dsegs r
  end.

Lemma vseg_text kv : xentry_ok kv = true -> seg_text (vseg kv) = vtxt kv.
Proof.
  intros H. destruct kv as [k t]. pose proof H as H0. unfold xentry_ok in H0. cbn [fst snd] in H0. apply andb_true_iff in H0.
  destruct H0 as [_ H0]. destruct t as [v| |]; try discriminate H0. unfold vseg, xkind_kv, xtext_kv, vtxt. cbn [snd].
  destruct (xcases k v H) as [E _ _|r E -> _ F|e E -> _ F]; rewrite E; cbn [seg_text xtext]; [reflexivity|symmetry; exact F|symmetry; exact F].
Qed.

Lemma esegs_text kv : xentry_ok kv = true -> stext (esegs kv) = kline kv.
Proof. intros H. unfold esegs, stext, kline. cbn [flat_map seg_text]. rewrite (vseg_text kv H), app_nil_r. reflexivity. Qed.

Lemma dsegs_text kvs : forallb xentry_ok kvs = true -> stext (dsegs kvs) = ftext kvs.
Proof.
  induction kvs as [|kv kvs IH]; intros H; [reflexivity|]. cbn [forallb] in H. apply andb_true_iff in H. destruct H as [H1 H2].
  destruct kvs as [|kv' kvs'].
  - cbn [dsegs ftext]. exact (esegs_text kv H1).
  - cbn [dsegs ftext] in *. rewrite stext_app, (esegs_text kv H1). f_equal. unfold stext in *. cbn [flat_map seg_text app].
    f_equal. exact (IH H2).
Qed.

Lemma esegs_ok kv rest : xentry_ok kv = true -> segs_ok rest -> segs_ok (esegs kv ++ rest).
Proof.
  intros H Hr. destruct kv as [k t]. pose proof H as H0. unfold xentry_ok in H0. cbn [fst snd] in H0. apply andb_true_iff in H0.
  destruct H0 as [Hk H0]. destruct t as [v| |]; try discriminate H0.
  destruct (FK_facts k Hk) as (_ & Hc & _).
  unfold esegs. cbn [app segs_ok]. split.
  - unfold kpre. cbn [fst]. rewrite forallb_app, (simple_plainc _ Hc), spaces_plainc. reflexivity.
  - assert (Hns : next_semi (SP [c_semi] :: rest)) by (exists [], rest; reflexivity).
    unfold vseg, xkind_kv, xtext_kv, vtxt. cbn [snd].
    destruct (xcases k v H) as [E Hs _|r E -> Hr' _|e E -> He _]; rewrite E; cbn [segs_ok xtext].
    + split; [exact (simple_plainc _ (proj1 (simple_leaf_chars v Hs)))|]. split; [reflexivity|exact Hr].
    + split; [exact Hr'|]. split; [exact Hns|]. split; [reflexivity|exact Hr].
    + split; [exact (proj1 (expr_body e He))|]. split; [exact Hns|]. split; [reflexivity|exact Hr].
Qed.

Lemma dsegs_ok kvs : forallb xentry_ok kvs = true -> segs_ok (dsegs kvs).
Proof.
  induction kvs as [|kv kvs IH]; intros H; [exact I|]. cbn [forallb] in H. apply andb_true_iff in H. destruct H as [H1 H2].
  destruct kvs as [|kv' kvs'].
  - cbn [dsegs]. rewrite <- (app_nil_r (esegs kv)). apply esegs_ok; [exact H1|exact I].
  - cbn [dsegs] in *. apply esegs_ok; [exact H1|]. cbn [segs_ok]. split; [reflexivity|exact (IH H2)].
Qed.

Lemma dsegs_exprs kvs : sexprs (dsegs kvs) = xexprs kvs /\ srefs (dsegs kvs) = xrefs kvs.
Proof.
  induction kvs as [|kv kvs [I1 I2]]; [split; reflexivity|].
  assert (E : sexprs (esegs kv) = match xkind_kv kv with Some XExpr => [xtext_kv kv] | _ => [] end /\
              srefs (esegs kv) = match xkind_kv kv with Some XRef => [xtext_kv kv] | _ => [] end).
  { unfold esegs, vseg. destruct (xkind_kv kv) as [[| |]|]; split; reflexivity. }
  destruct E as [E1 E2]. unfold xexprs, xrefs in *. cbn [flat_map]. destruct kvs as [|kv' kvs'].
  - cbn [dsegs flat_map]. rewrite !app_nil_r. split; assumption.
  - cbn [dsegs] in *. unfold sexprs, srefs in *. rewrite !flat_map_app. cbn [flat_map app] in *. rewrite E1, E2, I1, I2. split; reflexivity.
Qed.

(* ================================================================================================ *)
(* 5. expression placeholders as tokens and values                                                  *)
(* ================================================================================================ *)
Lemma ph_cons i : exists r, ph_of i = 69 :: r.
Proof. unfold ph_of, placeholder. eexists. reflexivity. Qed.

Lemma ph_chars i c : In c (ph_of i) -> In c w_EXPRESSION \/ is_digit c = true.
Proof.
  unfold ph_of, placeholder. intros H. apply in_app_or in H. destruct H as [H|H]; [left; exact H|right].
  exact (forallb_In _ _ _ (pad6_digits i) H).
Qed.

Lemma ph_simple i : forallb simple_char (ph_of i) = true.
Proof.
  unfold ph_of, placeholder. rewrite forallb_app. apply andb_true_iff. split; [reflexivity|].
  apply forallb_forall. intros c Hc. pose proof (forallb_In _ _ _ (pad6_digits i) Hc) as Hd.
  unfold simple_char, is_word. rewrite Hd. reflexivity.
Qed.

Lemma ph_word i : word_lexeme (ph_of i).
Proof.
  destruct (ph_cons i) as [r E]. split; [rewrite E; discriminate|].
  apply Forall_forall. intros c Hc. apply simple_char_word. exact (forallb_In _ _ _ (ph_simple i) Hc).
Qed.

Lemma contains_split (w : list N) : forall s : list N, contains w s = true -> exists a b, s = a ++ w ++ b.
Proof.
  induction s as [|c s IH]; intros H.
  - destruct w; [exists [], []; reflexivity|discriminate H].
  - cbn [contains] in H. apply orb_true_iff in H. destruct H as [H|H].
    + destruct (starts_with_split _ _ H) as [t E]. exists [], t. exact E.
    + destruct (IH H) as (a & b & E). exists (c :: a), b. rewrite E. reflexivity.
Qed.

Lemma ph_not_contains i (w : list N) h : In h w -> ~ In h w_EXPRESSION -> is_digit h = false -> contains w (ph_of i) = false.
Proof.
  intros Hw Hn Hd. destruct (contains w (ph_of i)) eqn:E; [|reflexivity]. exfalso.
  destruct (contains_split w _ E) as (a & b & Es).
  assert (Hin : In h (ph_of i)) by (rewrite Es; apply in_or_app; right; apply in_or_app; left; exact Hw).
  destruct (ph_chars i _ Hin) as [H|H]; [exact (Hn H)|congruence].
Qed.

Lemma plain_ph i : plain_token (ph_of i) = true.
Proof.
  destruct (ph_cons i) as [r E].
  assert (Hs : simple_char 69 = true) by reflexivity.
  pose proof (simple_not_struct 69 r Hs) as (B1 & B2 & B3).
  assert (A1 : is_open (ph_of i) = false) by (rewrite E; exact B1).
  assert (A2 : is_close (ph_of i) = false) by (rewrite E; exact B2).
  assert (A3 : str_eqb (ph_of i) t_semi = false) by (rewrite E; exact B3).
  assert (A4 : is_comment_tok (ph_of i) = false).
  { unfold is_comment_tok. apply (ph_not_contains i w_COMMENT 67); [left; reflexivity|cbn; intuition discriminate|reflexivity]. }
  assert (A5 : is_include_tok (ph_of i) = false).
  { unfold is_include_tok. apply (ph_not_contains i w_INCLUDE 67); [cbn; tauto|cbn; intuition discriminate|reflexivity]. }
  unfold plain_token. rewrite A1, A2, A3, A4, A5. rewrite E. reflexivity.
Qed.

Lemma parse_ph i : parse_value (ph_of i) = Ok (SStr (ph_of i)).
Proof.
  assert (Hnq : ScalarProofs.noquote (ph_of i)).
  { apply Forall_forall. intros c Hc. pose proof (forallb_In _ _ _ (ph_simple i) Hc) as H. tch. }
  assert (Hlast : exists r e, ph_of i = r ++ [e] /\ is_space e = false).
  { pose proof (ph_word i) as [Hne Hall]. destruct (exists_last Hne) as (x & c & E). exists x, c. split; [exact E|].
    rewrite Forall_forall in Hall. apply (Hall c). rewrite E. apply in_or_app. right. left. reflexivity. }
  destruct Hlast as (r0 & e & E0 & He).
  assert (Hstrip : strip (ph_of i) = ph_of i).
  { unfold strip. destruct (ph_cons i) as [r E]. rewrite E. cbn [lstrip]. replace (is_space 69) with false by reflexivity.
    rewrite <- E, E0. apply rstrip_nonspace_last. exact He. }
  unfold parse_value. rewrite (ScalarProofs.remove_quotes_noquote _ Hnq), Hstrip.
  destruct (ph_cons i) as [r E]. rewrite E. reflexivity.
Qed.

(* total token and value functions for the token parser theorem *)
Definition is_eph (v : scalar) : bool :=
  match v with
  | SStr s => match first_6digits s with Some i => str_eqb s (ph_of i) | None => false end
  | _ => false
  end.
Definition ltX (v : scalar) : str := if simple_leaf v then FS v else if is_eph v then xtext v else [120].
Definition nvX (v : scalar) : scalar := if simple_leaf v then norm_scalar v else if is_eph v then v else SStr [120].

Lemma is_eph_inv v : is_eph v = true -> exists i, v = SStr (ph_of i).
Proof.
  destruct v as [z|l|b| |s]; try discriminate. cbn [is_eph]. destruct (first_6digits s) as [i|]; [|discriminate].
  intros H. apply SDictProofs.str_eqb_eq in H. exists i. f_equal. exact H.
Qed.

Lemma HltX : forall v, plain_token (ltX v) = true /\ parse_value (ltX v) = Ok (nvX v).
Proof.
  intros v. unfold ltX, nvX. destruct (simple_leaf v) eqn:E.
  - split; [apply plain_simple; exact E|apply parse_norm].
  - destruct (is_eph v) eqn:El; [|split; reflexivity].
    destruct (is_eph_inv v El) as (k & ->). cbn [xtext]. split; [apply plain_ph|apply parse_ph].
Qed.

Lemma ph_not_simple_leaf i : simple_leaf (SStr (ph_of i)) = false.
Proof.
  destruct (simple_leaf (SStr (ph_of i))) eqn:E; [|reflexivity]. exfalso. unfold simple_leaf in E.
  destruct (simple_tok_inv _ E) as (_ & Hc & Hr). cbn [format_scalar] in *.
  assert (Ef : format_string (ph_of i) = ph_of i).
  { unfold format_string in *. destruct (classify_string (ph_of i)); try reflexivity; exfalso;
      unfold sq, dq in Hc; cbn [forallb] in Hc; discriminate Hc. }
  rewrite Ef in Hr. unfold no_reserved_word in Hr. apply andb_true_iff in Hr. destruct Hr as [Hr _].
  apply andb_true_iff in Hr. destruct Hr as [_ Hr]. apply negb_true_iff in Hr.
  unfold ph_of, placeholder in Hr. rewrite contains_refl_app in Hr by discriminate. discriminate Hr.
Qed.

Lemma ph_format i : i < 1000000 -> format_string (ph_of i) = ph_of i /\ is_eph (SStr (ph_of i)) = true.
Proof.
  intros Hi. split.
  - unfold format_string, classify_string.
    destruct (plain_scanc _ (ph_plain i)) as (_ & Hq & Hd). rewrite Hd.
    destruct (ph_cons i) as [r E]. rewrite E at 1. cbn [nonempty negb]. rewrite Hq.
    assert (Hs : has_char c_sq (ph_of i) = false).
    { apply forallb_nochar. apply forallb_forall. intros c Hc. pose proof (forallb_In _ _ _ (ph_plain i) Hc) as H. unfold plainc in H.
      cbn beta. destruct (c =? c_sq); [discriminate H|reflexivity]. }
    rewrite Hs.
    assert (Hx : existsb is_struct_char (ph_of i) = false).
    { destruct (existsb is_struct_char (ph_of i)) eqn:Ex; [|reflexivity]. exfalso. apply existsb_exists in Ex.
      destruct Ex as (c & Hc & Hsc). pose proof (forallb_In _ _ _ (ph_simple i) Hc) as H.
      unfold is_struct_char in Hsc. unfold simple_char, is_word, is_digit, is_upper, is_lower, is_uni_space in H.
      unfold is_space, is_uni_space in Hsc. uc. lia. }
    rewrite Hx. reflexivity.
  - cbn [is_eph]. rewrite (FlatDataProofs.ph_first_6digits i Hi). apply ScalarProofs.str_eqb_refl.
Qed.

(* ================================================================================================ *)
(* 6. the numbered document: text, tokens, values                                                   *)
(* ================================================================================================ *)
Definition fin_entry (kv : key * tree) : Prop :=
  simple_key (fst kv) = true /\
  exists v, snd kv = Leaf v /\ ((simple_leaf v = true /\ norm_scalar v = v) \/ exists i, i < 1000000 /\ v = SStr (ph_of i)).

Lemma hd_small ks : small ks -> hd 0 ks < 1000000.
Proof. intros H. destruct ks as [|k ks]; [reflexivity|]. inversion H; assumption. Qed.
Lemma tl_small ks : small ks -> small (tl ks).
Proof. intros H. destruct ks as [|k ks]; [exact H|]. inversion H; assumption. Qed.

Lemma lab2_fin : forall kvs es rs, forallb xentry_ok kvs = true -> small es -> small rs -> Forall fin_entry (lab2 es rs kvs).
Proof.
  induction kvs as [|[k t] kvs IH]; intros es rs H Hes Hrs; [constructor|].
  cbn [forallb] in H. apply andb_true_iff in H. destruct H as [H1 H2].
  pose proof H1 as H0. unfold xentry_ok in H0. cbn [fst snd] in H0. apply andb_true_iff in H0. destruct H0 as [Hk H0].
  destruct t as [v| |]; try discriminate H0. cbn [lab2]. unfold xkind_kv. cbn [snd fst].
  destruct (xcases k v H1) as [E Hs Hn|r E -> _ _|e E -> _ _]; rewrite E.
  - constructor; [|exact (IH es rs H2 Hes Hrs)]. split; [exact Hk|]. exists v. split; [reflexivity|left; split; assumption].
  - constructor; [|exact (IH es (tl rs) H2 Hes (tl_small _ Hrs))]. split; [exact Hk|]. eexists. split; [reflexivity|].
    right. exists (hd 0 rs). split; [exact (hd_small _ Hrs)|reflexivity].
  - constructor; [|exact (IH (tl es) rs H2 (tl_small _ Hes) Hrs)]. split; [exact Hk|]. eexists. split; [reflexivity|].
    right. exists (hd 0 es). split; [exact (hd_small _ Hes)|reflexivity].
Qed.

Lemma fin_facts kv : fin_entry kv ->
  flat_entry kv /\ word_lexeme (FK (fst kv)) /\ word_lexeme (vtxt kv) /\
  (exists v, snd kv = Leaf v /\ ltX v = vtxt kv /\ nvX v = v /\ ~ (xkind_of v = Some XExpr \/ xkind_of v = Some XRef)).
Proof.
  intros [Hk (v & Hv & Hc)]. destruct (FK_facts _ Hk) as (Hw & _ & _). unfold vtxt, flat_entry. rewrite Hv.
  destruct Hc as [[Hs Hn]|(i & Hi & ->)].
  - destruct (simple_leaf_chars v Hs) as [Hc Hwv]. split; [split; [exact Hk|exists v; split; [reflexivity|exact (simple_nolf _ Hc)]]|].
    split; [exact Hw|]. split; [exact Hwv|]. exists v. split; [reflexivity|]. unfold ltX, nvX. rewrite Hs. split; [reflexivity|].
    split; [exact Hn|]. intros [Hx|Hx].
    + destruct v as [z|l|b| |s]; cbn [xkind_of] in Hx; try (destruct (is_plain_leaf _); discriminate Hx).
      destruct (is_ref_str s && pv_str s) eqn:Er; [discriminate Hx|]. destruct (is_expr_str s) eqn:Ee; [|destruct (is_plain_leaf _); discriminate Hx].
      destruct (expr_body s Ee) as [(_ & Hd & _) _]. rewrite (simple_leaf_nodollar s Hs) in Hd. discriminate Hd.
    + destruct v as [z|l|b| |s]; cbn [xkind_of] in Hx; try (destruct (is_plain_leaf _); discriminate Hx).
      destruct (is_ref_str s && pv_str s) eqn:Er.
      * apply andb_true_iff in Er. destruct (ref_re s (proj1 Er)) as [_ Hd]. rewrite (simple_leaf_nodollar s Hs) in Hd. discriminate Hd.
      * destruct (is_expr_str s); [discriminate Hx|destruct (is_plain_leaf _); discriminate Hx].
  - destruct (ph_format i Hi) as [Ef Ee]. cbn [format_scalar]. rewrite Ef.
    split; [split; [exact Hk|eexists; split; [reflexivity|cbn [format_scalar]; rewrite Ef; exact (simple_nolf _ (ph_simple i))]]|].
    split; [exact Hw|]. split; [exact (ph_word i)|]. eexists. split; [reflexivity|]. unfold ltX, nvX.
    rewrite (ph_not_simple_leaf i), Ee. cbn [xtext]. split; [reflexivity|]. split; [reflexivity|].
    destruct (plain_scanc _ (ph_plain i)) as (_ & _ & Hd). destruct (ph_cons i) as [r E].
    cbn [xkind_of]. assert (Er : is_ref_str (ph_of i) = false) by (rewrite E; destruct r; reflexivity). rewrite Er. cbn [andb].
    assert (Ex : is_expr_str (ph_of i) = false).
    { destruct (is_expr_str (ph_of i)) eqn:Ex; [|reflexivity]. destruct (expr_body _ Ex) as [(_ & Hd' & _) _]. rewrite Hd in Hd'. discriminate Hd'. }
    rewrite Ex. intros [Hx|Hx]; destruct (is_plain_leaf _); discriminate Hx.
Qed.

Definition ftoks (kvs : list (key * tree)) : list (list N) := flat_map (fun kv => [FK (fst kv); vtxt kv; t_semi]) kvs.

Lemma tg_kline kv (rest : list N) : word_lexeme (FK (fst kv)) -> word_lexeme (vtxt kv) ->
  toks_go [] (kline kv ++ rest) = FK (fst kv) :: vtxt kv :: t_semi :: toks_go [] rest.
Proof.
  intros Hk Hv. unfold kline, kpre. rewrite <- !app_assoc.
  assert (Hn : exists n, Nat.max 8 (30 - length (FK (fst kv)) - 4 * 0) = S n).
  { destruct (Nat.max 8 (30 - length (FK (fst kv)) - 4 * 0)) eqn:E; [lia|eexists; reflexivity]. }
  destruct Hn as [n ->].
  rewrite (word_then_brk _ _ Hk (brk_spaces_S n _)), (toks_go_ws _ _ (ws_spaces (S n))).
  rewrite (word_then_brk _ _ Hv); [|right; reflexivity]. cbn [app]. rewrite (toks_go_delim c_semi _ eq_refl). reflexivity.
Qed.

Lemma tg_ftext kvs : Forall fin_entry kvs -> toks_go [] (ftext kvs) = ftoks kvs.
Proof.
  induction 1 as [|kv kvs Hkv _ IH]; [reflexivity|]. destruct (fin_facts kv Hkv) as (_ & Hw & Hv & _).
  unfold ftoks. cbn [flat_map]. fold (ftoks kvs). destruct kvs as [|kv' kvs'].
  - cbn [ftext]. rewrite <- (app_nil_r (kline kv)), (tg_kline kv [] Hw Hv). reflexivity.
  - cbn [ftext] in *. rewrite (tg_kline kv _ Hw Hv). cbn [app]. do 3 f_equal.
    change (c_sp :: ?x) with ([c_sp] ++ x). rewrite (toks_go_ws [c_sp] _ ltac:(constructor; [reflexivity|constructor])). exact IH.
Qed.

Lemma fin_flat kvs : Forall fin_entry kvs -> Forall flat_entry kvs.
Proof. apply Forall_impl. intros kv H. exact (proj1 (fin_facts kv H)). Qed.

Lemma tokens_ftext kvs : Forall fin_entry kvs -> tokenize (separate_delimiters (ftext kvs)) = ftoks kvs ++ [[]].
Proof.
  intros H. destruct kvs as [|kv kvs]; [reflexivity|].
  destruct (ftext_head _ (fin_flat _ H) ltac:(discriminate)) as (h & r & Eh & Hh). destruct (simple_char_word h Hh) as [Hs Hd].
  destruct (ftext_ends (kv :: kvs) ltac:(discriminate)) as [x Ex].
  rewrite <- (tg_ftext _ H). rewrite Ex in Eh. destruct x as [|x0 x].
  - cbn [app] in Eh. inversion Eh; subst. discriminate Hh.
  - cbn [app] in Eh. inversion Eh; subst x0 r. rewrite Ex. cbn [app]. apply tokens_full; [exact Hs|exact Hd|reflexivity].
Qed.

Lemma ftoks_entries kvs : Forall fin_entry kvs -> ftoks kvs = TokProofs.entries ltX ktS kvs.
Proof.
  induction 1 as [|[k t] kvs Hkv _ IH]; [reflexivity|]. destruct (fin_facts _ Hkv) as (_ & _ & _ & (v & Hv & Hl & _)).
  destruct Hkv as [Hk _]. cbn [fst snd] in *. subst t. unfold ftoks, TokProofs.entries. cbn [flat_map]. fold (ftoks kvs).
  fold (TokProofs.entries ltX ktS kvs). rewrite IH. unfold TokProofs.entry_toks. cbn [fst snd app]. rewrite Hl. unfold ktS. rewrite Hk. reflexivity.
Qed.

Lemma fin_values kvs : Forall fin_entry kvs -> map (TokProofs.mkv nvX) kvs = kvs.
Proof.
  induction 1 as [|[k t] kvs Hkv _ IH]; [reflexivity|]. destruct (fin_facts _ Hkv) as (_ & _ & _ & (v & Hv & _ & Hn & _)).
  cbn [snd] in Hv. subst t. cbn [map]. unfold TokProofs.mkv at 1. cbn [fst snd map_leaves]. rewrite Hn, IH. reflexivity.
Qed.

Lemma dsegs_lab : forall kvs es rs, forallb xentry_ok kvs = true -> small es -> small rs ->
  labR rs (labE es (dsegs kvs)) = dsegs (lab2 es rs kvs).
Proof.
  induction kvs as [|[k t] kvs IH]; intros es rs H Hes Hrs; [reflexivity|].
  cbn [forallb] in H. apply andb_true_iff in H. destruct H as [H1 H2].
  pose proof H1 as H0. unfold xentry_ok in H0. cbn [fst snd] in H0. apply andb_true_iff in H0. destruct H0 as [Hk H0].
  destruct t as [v| |]; try discriminate H0.
  assert (Hph : forall i, i < 1000000 -> esegs (k, Leaf (SStr (ph_of i))) = [SP (kpre (k, Leaf v)); SP (ph_of i); SP [c_semi]]).
  { intros i Hi. unfold esegs. f_equal. f_equal. unfold vseg.
    assert (Hf : fin_entry (k, Leaf (SStr (ph_of i)))) by (split; [exact Hk|eexists; split; [reflexivity|right; exists i; split; [exact Hi|reflexivity]]]).
    destruct (fin_facts _ Hf) as (_ & _ & _ & (v' & Hv' & _ & _ & Hnk)). cbn [snd] in Hv'. inversion Hv'; subst v'.
    unfold xkind_kv. cbn [snd]. unfold vtxt. cbn [snd format_scalar]. rewrite (proj1 (ph_format i Hi)).
    destruct (xkind_of (SStr (ph_of i))) as [[| |]|]; try reflexivity; exfalso; apply Hnk; [right|left]; reflexivity. }
  assert (G : forall rest, labR rs (labE es (esegs (k, Leaf v) ++ rest)) =
              match xkind_of v with
              | Some XExpr => esegs (k, Leaf (SStr (ph_of (hd 0 es)))) ++ labR rs (labE (tl es) rest)
              | Some XRef => esegs (k, Leaf (SStr (ph_of (hd 0 rs)))) ++ labR (tl rs) (labE es rest)
              | _ => esegs (k, Leaf v) ++ labR rs (labE es rest)
              end).
  { intros rest. destruct (xkind_of v) as [[| |]|] eqn:E.
    - unfold esegs, vseg, xkind_kv. cbn [snd]. rewrite E. reflexivity.
    - rewrite (Hph _ (hd_small _ Hrs)). unfold esegs, vseg, xkind_kv. cbn [snd]. rewrite E. reflexivity.
    - rewrite (Hph _ (hd_small _ Hes)). unfold esegs, vseg, xkind_kv. cbn [snd]. rewrite E. reflexivity.
    - unfold esegs, vseg, xkind_kv. cbn [snd]. rewrite E. reflexivity. }
  cbn [lab2]. unfold xkind_kv at 1. cbn [snd fst]. destruct kvs as [|kv' kvs'].
  - cbn [dsegs lab2]. specialize (G []). rewrite app_nil_r in G. rewrite G.
    destruct (xkind_of v) as [[| |]|]; cbn [labE labR dsegs]; rewrite app_nil_r; reflexivity.
  - assert (Hne : forall es' rs', lab2 es' rs' (kv' :: kvs') <> []).
    { intros es' rs'. cbn [lab2]. destruct (xkind_kv kv') as [[| |]|]; discriminate. }
    change (dsegs ((k, Leaf v) :: kv' :: kvs')) with (esegs (k, Leaf v) ++ SP [c_sp] :: dsegs (kv' :: kvs')).
    rewrite G.
    assert (D : forall kv0 l, l <> [] -> dsegs (kv0 :: l) = esegs kv0 ++ SP [c_sp] :: dsegs l).
    { intros kv0 l Hl. destruct l; [congruence|reflexivity]. }
    destruct (xkind_of v) as [[| |]|]; cbn [labE labR]; rewrite (D _ _ (Hne _ _)); do 2 f_equal;
      first [exact (IH es rs H2 Hes Hrs) | exact (IH es (tl rs) H2 Hes (tl_small _ Hrs)) | exact (IH (tl es) rs H2 (tl_small _ Hes) Hrs)].
Qed.

(* ================================================================================================ *)
(* 7. the native front end on the written text of a flat document                                   *)
(* ================================================================================================ *)
Definition okc (c : N) : bool := negb (c =? c_slash) && negb (c =? c_hash).

Lemma okc_all (p : N -> bool) (s : list N) : (forall c, p c = true -> okc c = true) -> forallb p s = true -> forallb okc s = true.
Proof. intros Hp H. apply forallb_forall. intros c Hc. apply Hp. exact (forallb_In _ _ _ H Hc). Qed.

Lemma simple_okc c : simple_char c = true -> okc c = true.
Proof. unfold okc, simple_char, is_word, is_digit, is_upper, is_lower, is_uni_space. intros H. uc. lia. Qed.
Lemma refchar_okc c : is_ref_char c = true -> okc c = true.
Proof. unfold okc, is_ref_char, is_word, is_digit, is_upper, is_lower, is_uni_space. intros H. uc. lia. Qed.
Lemma exprchar_okc c : expr_char c = true -> okc c = true.
Proof. unfold okc, expr_char. intros H. uc. lia. Qed.
Lemma spaces_okc n : forallb okc (spaces n) = true.
Proof. induction n as [|n IH]; [reflexivity|]. unfold spaces in *. cbn [repeat forallb]. rewrite IH. reflexivity. Qed.

Lemma kline_okc kv : xentry_ok kv = true -> forallb okc (kline kv) = true.
Proof.
  intros H. destruct kv as [k t]. pose proof H as H0. unfold xentry_ok in H0. cbn [fst snd] in H0. apply andb_true_iff in H0.
  destruct H0 as [Hk H0]. destruct t as [v| |]; try discriminate H0. destruct (FK_facts k Hk) as (_ & Hc & _).
  unfold kline, kpre, vtxt. cbn [fst snd]. rewrite !forallb_app, (okc_all _ _ simple_okc Hc), spaces_okc. cbn [andb forallb].
  rewrite andb_true_r.
  destruct (xcases k v H) as [E Hs _|r E -> Hr F|e E -> He F].
  - exact (okc_all _ _ simple_okc (proj1 (simple_leaf_chars v Hs))).
  - rewrite F. destruct r as [|d [|w tl]]; try discriminate Hr. cbn [is_ref_str] in Hr.
    apply andb_true_iff in Hr. destruct Hr as [Hr H3]. apply andb_true_iff in Hr. destruct Hr as [H1 H2]. apply N.eqb_eq in H1. subst d.
    cbn [forallb]. rewrite (okc_all _ _ refchar_okc H3), andb_true_r. apply andb_true_iff. split; [reflexivity|].
    apply refchar_okc. unfold is_ref_char. rewrite H2. reflexivity.
  - rewrite F. destruct (expr_body e He) as [(Hce & _) _]. unfold dq. cbn [forallb]. rewrite forallb_app, (okc_all _ _ exprchar_okc Hce). reflexivity.
Qed.

Lemma flat_of_x kvs : forallb xentry_ok kvs = true -> Forall flat_entry kvs.
Proof.
  intros H. apply Forall_forall. intros [k t] Hin. rewrite forallb_forall in H. pose proof (H _ Hin) as Hx.
  pose proof Hx as H0. unfold xentry_ok in H0. cbn [fst snd] in H0. apply andb_true_iff in H0. destruct H0 as [Hk H0].
  destruct t as [v| |]; try discriminate H0. split; [exact Hk|]. exists v. split; [reflexivity|].
  pose proof (kline_okc _ Hx) as Ho. pose proof (esegs_text _ Hx) as Et.
  (* the value text has no line feed: it is part of a one-line text *)
  destruct (xcases k v Hx) as [E Hs _|r E -> Hr F|e E -> He F].
  - exact (simple_nolf _ (proj1 (simple_leaf_chars v Hs))).
  - rewrite F. destruct (ref_scanc r Hr) as [_ _]. apply forallb_nochar.
    destruct r as [|d [|w tl]]; try discriminate Hr. cbn [is_ref_str] in Hr.
    apply andb_true_iff in Hr. destruct Hr as [Hr H3]. apply andb_true_iff in Hr. destruct Hr as [H1 H2]. apply N.eqb_eq in H1. subst d.
    cbn [forallb]. apply andb_true_iff. split; [reflexivity|]. apply andb_true_iff. split.
    + destruct (w =? c_lf) eqn:Ew; [apply N.eqb_eq in Ew; subst w; discriminate H2|reflexivity].
    + apply forallb_forall. intros c Hc. pose proof (forallb_In _ _ _ H3 Hc) as Hrc. cbn beta.
      destruct (c =? c_lf) eqn:Ec; [apply N.eqb_eq in Ec; subst c; discriminate Hrc|reflexivity].
  - rewrite F. destruct (expr_body e He) as [(Hce & _) _]. apply forallb_nochar. unfold dq. cbn [forallb]. rewrite forallb_app.
    cbn [forallb andb]. rewrite andb_true_r. apply forallb_forall. intros c Hc. pose proof (forallb_In _ _ _ Hce Hc) as Hec. cbn beta.
    destruct (c =? c_lf) eqn:Ec; [apply N.eqb_eq in Ec; subst c; discriminate Hec|reflexivity].
Qed.

Lemma text_okc kvs : forallb xentry_ok kvs = true -> forallb okc (to_string_plain kvs) = true.
Proof.
  intros H. pose proof (flat_of_x kvs H) as Hf. unfold to_string_plain.
  assert (Hk : forall kc, In kc kvs -> simple_key (fst kc) = true).
  { intros kc Hin. rewrite Forall_forall in Hf. exact (proj1 (Hf kc Hin)). }
  unfold native_body. rewrite (sort_top_keys kvs Hk), fmt_dict, (fentries_flat kvs Hf), (rts_flat kvs Hf).
  clear Hf Hk. induction kvs as [|kv kvs IH]; [reflexivity|]. cbn [forallb] in H. apply andb_true_iff in H. destruct H as [H1 H2].
  cbn [flat_map]. rewrite !forallb_app, (kline_okc kv H1), (IH H2). reflexivity.
Qed.

Lemma lex_clean_early com dir c (T : list N) : forallb okc T = true -> lex com dir c T = lex_tail c [] [] [] T.
Proof.
  intros Ht.
  assert (Hsl : has_char c_slash T = false) by (apply forallb_nochar; apply forallb_forall; intros x Hx;
    pose proof (forallb_In _ _ _ Ht Hx) as H; unfold okc in H; cbn beta; destruct (x =? c_slash); [discriminate H|reflexivity]).
  assert (Hha : has_char c_hash T = false) by (apply forallb_nochar; apply forallb_forall; intros x Hx;
    pose proof (forallb_In _ _ _ Ht Hx) as H; unfold okc in H; cbn beta; destruct (x =? c_hash); [rewrite andb_false_r in H; discriminate H|reflexivity]).
  assert (Hcat : concat (splitlines T) = T) by (unfold splitlines; rewrite concat_splitlines_all; reflexivity).
  assert (Hl : Forall (fun l => forallb okc l = true) (splitlines T)) by (apply forallb_concat; rewrite Hcat; exact Ht).
  apply (lex_early com dir c T (splitlines T) c [] T []).
  - apply extract_line_comments_none. revert Hl. apply Forall_impl. intros l H. apply forallb_nochar. apply forallb_forall.
    intros x Hx. pose proof (forallb_In _ _ _ H Hx) as H'. unfold okc in H'. cbn beta. destruct (x =? c_slash); [discriminate H'|reflexivity].
  - revert Hl. apply Forall_impl. intros l H. apply include_line_rest_none. apply forallb_nochar. apply forallb_forall.
    intros x Hx. pose proof (forallb_In _ _ _ H Hx) as H'. unfold okc in H'. cbn beta. destruct (x =? c_hash); [rewrite andb_false_r in H'; discriminate H'|reflexivity].
  - rewrite Hcat. apply extract_block_comments_none. exact Hsl.
Qed.

Lemma ids_app c n m : ids c (n + m) = ids c n ++ ids (cafter c n) m.
Proof. revert c. induction n as [|n IH]; intros c; [reflexivity|]. cbn [Nat.add cafter]. rewrite !ids_S, IH. reflexivity. Qed.

Lemma xtab_keys ks ts : length ks = length ts -> map fst (xtab ks ts) = ks.
Proof.
  revert ts. induction ks as [|k ks IH]; intros [|t ts] H; try discriminate H; [reflexivity|].
  unfold xtab in *. cbn [combine map fst xentry]. f_equal. apply IH. cbn [length] in H. lia.
Qed.

Lemma dsegs_text_gen kvs : Forall (fun kv => seg_text (vseg kv) = vtxt kv) kvs -> stext (dsegs kvs) = ftext kvs.
Proof.
  induction 1 as [|kv kvs H1 _ IH]; [reflexivity|].
  assert (E : stext (esegs kv) = kline kv).
  { unfold esegs, stext, kline. cbn [flat_map seg_text]. rewrite H1, app_nil_r. reflexivity. }
  destruct kvs as [|kv' kvs'].
  - cbn [dsegs ftext]. exact E.
  - cbn [dsegs ftext] in *. rewrite stext_app, E. f_equal. unfold stext in *. cbn [flat_map seg_text app]. f_equal. exact IH.
Qed.

Lemma fin_vseg kv : fin_entry kv -> seg_text (vseg kv) = vtxt kv.
Proof.
  intros H. destruct (fin_facts kv H) as (_ & _ & _ & (v & Hv & _ & _ & Hn)). unfold vseg, xkind_kv. rewrite Hv.
  destruct (xkind_of v) as [[| |]|]; try reflexivity; exfalso; apply Hn; [right|left]; reflexivity.
Qed.

Theorem native_parse_xdoc com dir c kvs : xdoc_ok kvs = true -> (-1 <= c)%Z ->
  (Z.of_nat (length (xexprs kvs) + length (xrefs kvs)) <= 1000000)%Z ->
  let es := ids c (length (xexprs kvs)) in let c' := cafter c (length (xexprs kvs)) in
  let rs := ids c' (length (xrefs kvs)) in
  parse_string com dir c (to_string_plain kvs) =
    Ok (mkParsed (mkSD (lab2 es rs kvs) [] [] [] (xtab es (xexprs kvs) ++ xtab rs (xrefs kvs))) (cafter c' (length (xrefs kvs)))).
Proof.
  intros Hx Hc Hm es c' rs. destruct (xdoc_inv kvs Hx) as (He & Hnd & Hne & _ & _).
  set (l := dsegs kvs). pose proof (dsegs_ok kvs He) as Hok. destruct (dsegs_exprs kvs) as [Ee Er]. fold l in Hok, Ee, Er.
  set (kvs' := lab2 es rs kvs).
  assert (Hfin : Forall fin_entry kvs') by (apply lab2_fin; [exact He|apply ids_small|apply ids_small]).
  assert (Hall : NoDup (es ++ rs)).
  { unfold es, rs, c'. rewrite <- ids_app. apply ids_nodup; assumption. }
  assert (Hc' : (-1 <= c')%Z) by (apply cafter_ge; exact Hc).
  assert (Hle : length es = length (xexprs kvs)) by apply ids_length.
  assert (Hlr : length rs = length (xrefs kvs)) by apply ids_length.
  assert (Htab : jxtab c' (jxtab c [] (xexprs kvs)) (xrefs kvs) = xtab es (xexprs kvs) ++ xtab rs (xrefs kvs)).
  { rewrite (jxtab_fresh (xexprs kvs) c []) by (cbn [map app]; exact (RereadStr.NoDup_app_l _ _ Hall)). cbn [app]. fold es.
    rewrite (jxtab_fresh (xrefs kvs) c'); [reflexivity|]. fold rs. rewrite (xtab_keys _ _ Hle). exact Hall. }
  assert (Hlex : lex com dir c (to_string_plain kvs) =
    mkLexed (toks_doc ltX ktS kvs') (cafter c' (length (xrefs kvs))) [] [] []
            (xtab es (xexprs kvs) ++ xtab rs (xrefs kvs)) []).
  { rewrite (lex_clean_early com dir c _ (text_okc kvs He)). unfold lex_tail.
    rewrite (rle_flat kvs (flat_of_x kvs He)), <- (dsegs_text kvs He). fold l.
    unfold extract_string_literals. rewrite (scan_segs l _ c [] [] Hok (Nat.le_succ_diag_r _)). cbn [rev app].
    rewrite (xe_segs l c Hok ltac:(rewrite Ee; exact Hne)). cbv zeta. rewrite Ee, Er. fold es c' rs.
    unfold l. rewrite (dsegs_lab kvs es rs He (ids_small _ _) (ids_small _ _)). fold kvs'.
    rewrite (dsegs_text_gen kvs'), (tokens_ftext kvs' Hfin), (ftoks_entries kvs' Hfin), toks_doc_entries', Htab; [reflexivity|].
    revert Hfin. apply Forall_impl. exact fin_vseg. }
  assert (Hkeys : map fst kvs' = map fst kvs) by apply lab2_keys.
  assert (Hk' : forall kc, In kc kvs' -> simple_key (fst kc) = true).
  { intros kc Hin. rewrite Forall_forall in Hfin. exact (proj1 (Hfin kc Hin)). }
  assert (Hflat : forall kv, In kv kvs' -> simple_key (fst kv) = true /\ exists v, snd kv = Leaf v).
  { intros kv Hin. exact (lab2_flat kvs es rs kv He Hin). }
  assert (Hw' : wf (Dict kvs') = true).
  { rewrite TokProofs.wf_dict, Hkeys. apply andb_true_iff. split; [apply SDictProofs.keys_nodup_iff; exact Hnd|].
    apply forallb_forall. intros kv Hin. destruct (Hflat kv Hin) as [_ [v Hv]]. rewrite Hv. reflexivity. }
  assert (Hsk : skeys (Dict kvs') = true).
  { clear -Hflat. induction kvs' as [|[k t] d IH]; [reflexivity|]. rewrite skeys_dict_cons.
    destruct (Hflat (k, t) (or_introl eq_refl)) as [Hk [v Hv]]. cbn [fst snd] in Hk, Hv. subst t. rewrite Hk. cbn [andb].
    change (skeys (Leaf v)) with true. cbn [andb]. apply IH. intros kv Hin. apply Hflat. right. exact Hin. }
  assert (Hcl : forall tab, sd_clean (mkSD kvs' [] [] [] tab) = mkSD kvs' [] [] [] tab).
  { intros tab. apply flat_clean; [exact Hflat|rewrite Hkeys; exact Hnd]. }
  unfold parse_string. cbv zeta. rewrite Hlex. cbn [lxd_tokens lxd_count lxd_lc lxd_bc lxd_inc lxd_expr lxd_lit].
  rewrite (TRK.tok_roundtrip_main ltX ktS nvX HltX HktpS HkpkS kvs' Hw' Hsk).
  rewrite TokProofs.map_leaves_dict, (fin_values kvs' Hfin). cbn [kvs_of bind]. rewrite Hcl.
  cbn [sd_data sd_lc sd_bc sd_inc sd_expr insert_string_literals fold_left bind].
  pose proof (parser_clean_keys nvX kvs' Hk') as Hpc. rewrite (fin_values kvs' Hfin) in Hpc. rewrite Hpc, Hcl. reflexivity.
Qed.
Print Assumptions native_parse_xdoc.
Print Assumptions json_parse_xdoc.

(* ================================================================================================ *)
(* 8. the two front ends agree up to the numbering                                                  *)
(* ================================================================================================ *)
From Coq Require Import Permutation.

Lemma plain_insert v tab : simple_leaf v = true -> insert_expression (Leaf v) tab = Leaf v.
Proof.
  intros Hs. destruct v as [z|l|b| |s]; try reflexivity. unfold insert_expression.
  destruct (has_placeholder w_EXPRESSION s) eqn:E; [|reflexivity]. exfalso.
  apply has_placeholder_contains in E. unfold simple_leaf in Hs. cbn [format_scalar] in Hs.
  destruct (simple_tok_inv _ Hs) as (_ & Hc & Hr).
  assert (Ef : format_string s = s).
  { unfold format_string in *. destruct (classify_string s); try reflexivity; exfalso; unfold sq, dq in Hc; cbn [forallb] in Hc; discriminate Hc. }
  rewrite Ef in Hr. unfold no_reserved_word in Hr. apply andb_true_iff in Hr. destruct Hr as [Hr _].
  apply andb_true_iff in Hr. destruct Hr as [_ Hr]. apply negb_true_iff in Hr. congruence.
Qed.

Lemma xtab_lookup ks ts i t : NoDup ks -> length ks = length ts -> In (i, t) (combine ks ts) ->
  tlookup i (xtab ks ts) = Some (t, ph_of i).
Proof.
  intros Hnd Hl Hin. apply In_tlookup'; [rewrite (xtab_keys _ _ Hl); exact Hnd|].
  unfold xtab. apply in_map_iff. exists (i, t). split; [reflexivity|exact Hin].
Qed.

Lemma tlookup_app_l {V} i (a b : list (N * V)) v : tlookup i a = Some v -> tlookup i (a ++ b) = Some v.
Proof. induction a as [|[j x] a IH]; intros H; [discriminate H|]. cbn [app tlookup] in *. destruct (i =? j); [exact H|exact (IH H)]. Qed.
Lemma tlookup_app_r {V} i (a b : list (N * V)) : ~ In i (map fst a) -> tlookup i (a ++ b) = tlookup i b.
Proof.
  induction a as [|[j x] a IH]; intros H; [reflexivity|]. cbn [app tlookup map fst] in *.
  destruct (i =? j) eqn:E; [apply N.eqb_eq in E; subst j; exfalso; apply H; left; reflexivity|]. apply IH. intros Hin. apply H. right. exact Hin.
Qed.

Lemma resolve_lab1 : forall kvs ks (tab : list (N * expr_entry)), forallb xentry_ok kvs = true -> small ks -> length ks = length (xtexts kvs) ->
  (forall i t, In (i, t) (combine ks (xtexts kvs)) -> tlookup i tab = Some (t, ph_of i)) ->
  resolve tab (lab1 ks kvs) = kvs.
Proof.
  induction kvs as [|[k t] kvs IH]; intros ks tab H Hs Hl Hlk; [reflexivity|].
  cbn [forallb] in H. apply andb_true_iff in H. destruct H as [H1 H2].
  pose proof H1 as H0. unfold xentry_ok in H0. cbn [fst snd] in H0. apply andb_true_iff in H0. destruct H0 as [_ H0].
  destruct t as [v| |]; try discriminate H0. unfold xtexts in Hl, Hlk. cbn [flat_map lab1] in *. fold (xtexts kvs) in Hl, Hlk.
  unfold xkind_kv, xtext_kv in *. cbn [snd fst] in *.
  destruct (xcases k v H1) as [E Hsl _|r E -> _ _|e E -> _ _]; rewrite E in *; cbn [app] in Hl, Hlk.
  - unfold resolve. cbn [map fst snd]. rewrite (plain_insert v tab Hsl). fold (resolve tab (lab1 ks kvs)). rewrite (IH ks tab H2 Hs Hl Hlk). reflexivity.
  - destruct ks as [|i ks]; [discriminate Hl|]. inversion Hs as [|? ? Hi Hs']; subst. cbn [hd tl combine] in *.
    unfold resolve. cbn [map fst snd]. rewrite (FlatDataProofs.insert_expression_ph i tab Hi), (Hlk i r (or_introl eq_refl)).
    fold (resolve tab (lab1 ks kvs)). rewrite (IH ks tab H2 Hs'); [reflexivity|cbn [length] in Hl; lia|].
    intros j t Hin. apply Hlk. right. exact Hin.
  - destruct ks as [|i ks]; [discriminate Hl|]. inversion Hs as [|? ? Hi Hs']; subst. cbn [hd tl combine] in *.
    unfold resolve. cbn [map fst snd]. rewrite (FlatDataProofs.insert_expression_ph i tab Hi), (Hlk i e (or_introl eq_refl)).
    fold (resolve tab (lab1 ks kvs)). rewrite (IH ks tab H2 Hs'); [reflexivity|cbn [length] in Hl; lia|].
    intros j t Hin. apply Hlk. right. exact Hin.
Qed.

Lemma resolve_lab2 : forall kvs es rs (tab : list (N * expr_entry)), forallb xentry_ok kvs = true -> small es -> small rs ->
  length es = length (xexprs kvs) -> length rs = length (xrefs kvs) ->
  (forall i t, In (i, t) (combine es (xexprs kvs)) -> tlookup i tab = Some (t, ph_of i)) ->
  (forall i t, In (i, t) (combine rs (xrefs kvs)) -> tlookup i tab = Some (t, ph_of i)) ->
  resolve tab (lab2 es rs kvs) = kvs.
Proof.
  induction kvs as [|[k t] kvs IH]; intros es rs tab H Hse Hsr Hle Hlr Hke Hkr; [reflexivity|].
  cbn [forallb] in H. apply andb_true_iff in H. destruct H as [H1 H2].
  pose proof H1 as H0. unfold xentry_ok in H0. cbn [fst snd] in H0. apply andb_true_iff in H0. destruct H0 as [_ H0].
  destruct t as [v| |]; try discriminate H0. unfold xexprs, xrefs in Hle, Hlr, Hke, Hkr. cbn [flat_map lab2] in *.
  fold (xexprs kvs) in Hle, Hke. fold (xrefs kvs) in Hlr, Hkr.
  unfold xkind_kv, xtext_kv in *. cbn [snd fst] in *.
  destruct (xcases k v H1) as [E Hsl _|r E -> _ _|e E -> _ _]; rewrite E in *; cbn [app] in Hle, Hlr, Hke, Hkr.
  - unfold resolve. cbn [map fst snd]. rewrite (plain_insert v tab Hsl). fold (resolve tab (lab2 es rs kvs)).
    rewrite (IH es rs tab H2 Hse Hsr Hle Hlr Hke Hkr). reflexivity.
  - destruct rs as [|i rs]; [discriminate Hlr|]. inversion Hsr as [|? ? Hi Hsr']; subst. cbn [hd tl combine] in *.
    unfold resolve. cbn [map fst snd]. rewrite (FlatDataProofs.insert_expression_ph i tab Hi), (Hkr i r (or_introl eq_refl)).
    fold (resolve tab (lab2 es rs kvs)). rewrite (IH es rs tab H2 Hse Hsr' Hle); [reflexivity|cbn [length] in Hlr; lia|exact Hke|].
    intros j t Hin. apply Hkr. right. exact Hin.
  - destruct es as [|i es]; [discriminate Hle|]. inversion Hse as [|? ? Hi Hse']; subst. cbn [hd tl combine] in *.
    unfold resolve. cbn [map fst snd]. rewrite (FlatDataProofs.insert_expression_ph i tab Hi), (Hke i e (or_introl eq_refl)).
    fold (resolve tab (lab2 es rs kvs)). rewrite (IH es rs tab H2 Hse' Hsr); [reflexivity|cbn [length] in Hle; lia|exact Hlr| |exact Hkr].
    intros j t Hin. apply Hke. right. exact Hin.
Qed.

Lemma xtexts_perm kvs : Permutation (xexprs kvs ++ xrefs kvs) (xtexts kvs).
Proof.
  induction kvs as [|kv kvs IH]; [constructor|]. unfold xexprs, xrefs, xtexts in *. cbn [flat_map].
  destruct (xkind_kv kv) as [[| |]|]; cbn [app].
  - exact IH.
  - apply Permutation_sym. apply Permutation_cons_app. apply Permutation_sym. exact IH.
  - constructor. exact IH.
  - exact IH.
Qed.

Lemma xtexts_length kvs : length (xtexts kvs) = (length (xexprs kvs) + length (xrefs kvs))%nat.
Proof. rewrite <- (Permutation_length (xtexts_perm kvs)), app_length. reflexivity. Qed.

Definition xtab_texts (tab : list (N * expr_entry)) : list str := map (fun e => fst (snd e)) tab.
Lemma xtab_texts_xtab ks ts : length ks = length ts -> xtab_texts (xtab ks ts) = ts.
Proof.
  revert ts. induction ks as [|k ks IH]; intros [|t ts] H; try discriminate H; [reflexivity|].
  unfold xtab, xtab_texts in *. cbn [combine map fst snd xentry]. f_equal. apply IH. cbn [length] in H. lia.
Qed.
Lemma xtab_texts_app a b : xtab_texts (a ++ b) = xtab_texts a ++ xtab_texts b.
Proof. apply map_app. Qed.
Definition xtab_wf (tab : list (N * expr_entry)) : Prop :=
  NoDup (map fst tab) /\ Forall (fun e => fst e < 1000000 /\ snd (snd e) = ph_of (fst e)) tab.
Lemma xtab_wf_xtab ks ts : NoDup ks -> small ks -> length ks = length ts -> xtab_wf (xtab ks ts).
Proof.
  intros Hnd Hs Hl. split; [rewrite (xtab_keys _ _ Hl); exact Hnd|]. unfold xtab. apply Forall_forall. intros e Hin.
  apply in_map_iff in Hin. destruct Hin as ([i t] & <- & Hin). cbn [xentry fst snd]. split; [|reflexivity].
  unfold small in Hs. rewrite Forall_forall in Hs. apply Hs. exact (in_combine_l _ _ _ _ Hin).
Qed.

(* JSON == native for references and expressions (front ends) *)
Theorem json_native_expressions : forall dir c1 c2 kvs,
  xdoc_ok kvs = true -> (-1 <= c1)%Z -> (-1 <= c2)%Z -> (Z.of_nat (length (xtexts kvs)) <= 1000000)%Z ->
  let pj := json_parse dir c1 kvs in
  exists pn, parse_string true dir c2 (to_string_plain kvs) = Ok pn /\
    (* the same document once the placeholders are resolved with the own table *)
    resolve (sd_expr (pr_sd pj)) (sd_data (pr_sd pj)) = kvs /\
    resolve (sd_expr (pr_sd pn)) (sd_data (pr_sd pn)) = kvs /\
    (* the same expression texts: JSON in document order, native the quoted expressions first, then the references *)
    xtab_texts (sd_expr (pr_sd pj)) = xtexts kvs /\
    xtab_texts (sd_expr (pr_sd pn)) = xexprs kvs ++ xrefs kvs /\
    Permutation (xtab_texts (sd_expr (pr_sd pn))) (xtab_texts (sd_expr (pr_sd pj))) /\
    (* well formed tables: distinct ids, every entry names its own placeholder *)
    xtab_wf (sd_expr (pr_sd pj)) /\ xtab_wf (sd_expr (pr_sd pn)) /\
    (* nothing else *)
    sd_inc (pr_sd pj) = [] /\ sd_inc (pr_sd pn) = [] /\ map fst (sd_data (pr_sd pj)) = map fst kvs /\
    map fst (sd_data (pr_sd pn)) = map fst kvs.
Proof.
  intros dir c1 c2 kvs Hx Hc1 Hc2 Hm pj. destruct (xdoc_inv kvs Hx) as (He & _).
  pose proof (xtexts_length kvs) as Hlen.
  unfold pj. rewrite (json_parse_xdoc dir c1 kvs Hx Hc1 Hm). cbv zeta.
  rewrite (native_parse_xdoc true dir c2 kvs Hx Hc2) by (rewrite <- Hlen; exact Hm). cbv zeta.
  eexists. split; [reflexivity|]. cbn [pr_sd sd_data sd_expr sd_inc].
  set (ks := ids c1 (length (xtexts kvs))). set (es := ids c2 (length (xexprs kvs))).
  set (c' := cafter c2 (length (xexprs kvs))). set (rs := ids c' (length (xrefs kvs))).
  assert (Hks : NoDup ks) by (apply ids_nodup; assumption).
  assert (Hall : NoDup (es ++ rs)).
  { unfold es, rs, c'. rewrite <- ids_app. apply ids_nodup; [exact Hc2|]. rewrite <- Hlen. exact Hm. }
  assert (Lk : length ks = length (xtexts kvs)) by apply ids_length.
  assert (Le : length es = length (xexprs kvs)) by apply ids_length.
  assert (Lr : length rs = length (xrefs kvs)) by apply ids_length.
  pose proof (RereadStr.NoDup_app_l _ _ Hall) as Hes. pose proof (RereadStr.NoDup_app_r _ _ Hall) as Hrs.
  split; [apply resolve_lab1; [exact He|apply ids_small|exact Lk|]; intros i t Hin; exact (xtab_lookup ks _ i t Hks Lk Hin)|].
  split.
  { apply resolve_lab2; try assumption; try apply ids_small.
    - intros i t Hin. apply tlookup_app_l. exact (xtab_lookup es _ i t Hes Le Hin).
    - intros i t Hin. rewrite tlookup_app_r; [exact (xtab_lookup rs _ i t Hrs Lr Hin)|].
      rewrite (xtab_keys _ _ Le). intros Hi. pose proof (in_combine_l _ _ _ _ Hin) as Hr.
      clear -Hall Hi Hr. induction es as [|x es IH]; [destruct Hi|]. cbn [app] in Hall. inversion Hall as [|? ? Hx Hall']; subst.
      destruct Hi as [->|Hi]; [apply Hx; apply in_or_app; right; exact Hr|exact (IH Hall' Hi)]. }
  split; [apply xtab_texts_xtab; exact Lk|].
  assert (Tn : xtab_texts (xtab es (xexprs kvs) ++ xtab rs (xrefs kvs)) = xexprs kvs ++ xrefs kvs).
  { rewrite xtab_texts_app, (xtab_texts_xtab _ _ Le), (xtab_texts_xtab _ _ Lr). reflexivity. }
  split; [exact Tn|]. split; [rewrite Tn, (xtab_texts_xtab _ _ Lk); apply xtexts_perm|].
  split; [apply xtab_wf_xtab; [exact Hks|apply ids_small|exact Lk]|].
  split.
  { destruct (xtab_wf_xtab es (xexprs kvs) Hes (ids_small _ _) Le) as [_ F1].
    destruct (xtab_wf_xtab rs (xrefs kvs) Hrs (ids_small _ _) Lr) as [_ F2].
    split; [rewrite map_app, (xtab_keys _ _ Le), (xtab_keys _ _ Lr); exact Hall|apply Forall_app; split; assumption]. }
  split; [reflexivity|]. split; [reflexivity|]. split; [apply lab1_keys|apply lab2_keys].
Qed.
Print Assumptions json_native_expressions.
