(* LIST VERSION of RereadNum.v: the same development over the event stream of RereadListTree.v, which enters lists
   (comment entries inside dicts that are list items, at any nesting).  Statements and proofs are those of RereadNum.v
   with the cases of the list skeleton events (ELOpen / EIOpen / EDOpen / ELEnd) added and the tree recursions entering
   lists; see RereadList.v for the interface. *)
(* C03 / C12 on documents with comments, part 6: numbering.
   Literal labels through a document with comments, the comment passes of the lexer as maps keyed by the comment text,
   the numbered document and its clean-up. *)
From Coq Require Import String.
From Coq Require Import NArith ZArith List Bool Lia ZifyBool ZifyN ZifyNat.
From DictIO Require Import Chars Str Value Scalar KeyPath SDict Layout Lexer TokParser TreeSpec NativeSpec LayoutSpec E2ESpec.
From DictIO Require ScalarProofs SDictProofs TokProofs LayoutProofs SemProofs QuoteProofs KeyPathProofs.
From DictIO Require Import E2EProofs E2EHoles E2EInsert E2EKeyTok E2EFullProofs RereadStr RereadListTree RereadListWrite RereadListLex RereadListParse.
Import ListNotations.
Import LayoutProofs.
Open Scope N_scope.

(* ================================================================================================ *)
(* 1. literal labels through a document with comments                                               *)
(* ================================================================================================ *)

Fixpoint cnqT (t : tree) {struct t} : nat :=
  match t with
  | Leaf v => length (qstr v)
  | Dict kvs =>
      (fix go (l : list (key * tree)) : nat :=
         match l with
         | [] => O
         | (k, c) :: l' => ((match cm_entry (k, c) with Some _ => O | None => cnqT c end) + go l')%nat
         end) kvs
  | Lst ts => (fix go (l : list tree) : nat := match l with [] => O | c :: l' => (cnqT c + go l')%nat end) ts
  end.
Definition cnq_entry (kc : key * tree) : nat :=
  match cm_entry kc with Some _ => O | None => cnqT (snd kc) end.
Lemma cnqT_cons kc l : cnqT (Dict (kc :: l)) = (cnq_entry kc + cnqT (Dict l))%nat.
Proof. destruct kc as [k c]. unfold cnq_entry. cbn [cnqT fst snd]. destruct (cm_entry (k, c)); reflexivity. Qed.
Lemma cnqT_lst_cons c l : cnqT (Lst (c :: l)) = (cnqT c + cnqT (Lst l))%nat.
Proof. reflexivity. Qed.

Fixpoint clabel (ks : list N) (t : tree) {struct t} : tree :=
  match t with
  | Leaf v => Leaf (lleaf ks v)
  | Dict kvs =>
      Dict ((fix go (ks : list N) (l : list (key * tree)) {struct l} : list (key * tree) :=
               match l with
               | [] => []
               | (k, c) :: l' =>
                   (match cm_entry (k, c) with
                    | Some _ => (k, c)
                    | None => (k, clabel ks c)
                    end) :: go (skipn (cnq_entry (k, c)) ks) l'
               end) ks kvs)
  | Lst ts =>
      Lst ((fix go (ks : list N) (l : list tree) {struct l} : list tree :=
              match l with [] => [] | c :: l' => clabel ks c :: go (skipn (cnqT c) ks) l' end) ks ts)
  end.
Definition clabel_entry (ks : list N) (kc : key * tree) : key * tree :=
  match cm_entry kc with
  | Some _ => kc
  | None => (fst kc, clabel ks (snd kc))
  end.
Fixpoint clabelL (ks : list N) (l : list tree) : list tree :=
  match l with [] => [] | c :: l' => clabel ks c :: clabelL (skipn (cnqT c) ks) l' end.
Lemma clabel_cons ks kc l :
  clabel ks (Dict (kc :: l)) = Dict (clabel_entry ks kc :: kvs_of (clabel (skipn (cnq_entry kc) ks) (Dict l))).
Proof.
  destruct kc as [k c]. unfold clabel_entry. cbn [clabel kvs_of fst snd]. apply (f_equal Dict). apply (f_equal (fun x => x :: _)).
  destruct (cm_entry (k, c)); reflexivity.
Qed.
Lemma clabel_dict ks kvs : exists kvs', clabel ks (Dict kvs) = Dict kvs'.
Proof. eexists. reflexivity. Qed.
Lemma clabel_lst ks ts : clabel ks (Lst ts) = Lst (clabelL ks ts).
Proof. reflexivity. Qed.

(* the labels of a run of scalar items *)
Fixpoint lrun (ks : list N) (run : list scalar) : list scalar :=
  match run with [] => [] | v :: r => lleaf ks v :: lrun (skipn (length (qstr v)) ks) r end.
Lemma lrun_length run : forall ks, length (lrun ks run) = length run.
Proof. induction run as [|v r IH]; intros ks; [reflexivity|]. cbn [lrun length]. rewrite IH. reflexivity. Qed.
Lemma lrun_app a : forall ks b, lrun ks (a ++ b) = lrun ks a ++ lrun (skipn (length (flat_map qstr a)) ks) b.
Proof.
  induction a as [|v a IH]; intros ks b; [reflexivity|]. cbn [app lrun flat_map]. rewrite IH, app_length, skipn_add. reflexivity.
Qed.

Definition ev_lab (ks : list N) (e : ev) : ev :=
  match e with
  | ELeaf lvl k v => ELeaf lvl k (lleaf ks v)
  | EIOpen lvl len idx first run => EIOpen lvl len idx first (lrun ks run)
  | EDOpen lvl len idx first run => EDOpen lvl len idx first (lrun ks run)
  | ELEnd lvl anc len idx first run => ELEnd lvl anc len idx first (lrun ks run)
  | _ => e
  end.
Fixpoint evs_lab (ks : list N) (es : list ev) : list ev :=
  match es with [] => [] | e :: es' => ev_lab ks e :: evs_lab (skipn (length (ev_lits e)) ks) es' end.

Lemma lits_app a b : lits (a ++ b) = lits a ++ lits b.
Proof. unfold lits. apply flat_map_app. Qed.

Lemma evs_lab_app a : forall ks b, evs_lab ks (a ++ b) = evs_lab ks a ++ evs_lab (skipn (length (lits a)) ks) b.
Proof.
  induction a as [|e a IH]; intros ks b; [reflexivity|]. cbn [app evs_lab]. rewrite IH. f_equal. f_equal. f_equal.
  change (lits (e :: a)) with (ev_lits e ++ lits a). rewrite app_length, skipn_add. reflexivity.
Qed.

Lemma events_clabelA : forall t lvl anc ks, cshapeT t = true ->
  match t with
  | Leaf _ => True
  | _ => eventsA lvl anc (clabel ks t) = evs_lab ks (eventsA lvl anc t) /\ length (lits (eventsA lvl anc t)) = cnqT t
  end.
Proof.
  induction t as [v|kvs IH|ts IH] using tree_ind'; intros lvl anc ks Hs; [exact I| |].
  - assert (G : forall lvl ks, eventsA lvl anc (clabel ks (Dict kvs)) = evs_lab ks (eventsA lvl anc (Dict kvs)) /\ length (lits (eventsA lvl anc (Dict kvs))) = cnqT (Dict kvs)); [|exact (G lvl ks)].
    clear lvl ks. induction IH as [|[k c] kvs Hc _ IHk]; intros lvl ks; [split; reflexivity|].
    rewrite cshapeT_cons in Hs. apply andb_true_iff in Hs. destruct Hs as [Hs1 Hs2].
    rewrite clabel_cons, cnqT_cons. destruct (clabel_dict (skipn (cnq_entry (k, c)) ks) kvs) as [kvs' Ek].
    destruct (IHk Hs2 lvl (skipn (cnq_entry (k, c)) ks)) as [I1 I2]. rewrite Ek in I1 |- *. cbn [kvs_of].
    rewrite !eventsA_dict in *. rewrite !events_cons, evs_lab_app, lits_app, app_length, I1, I2. cbn [snd] in Hc.
    unfold entry_events, clabel_entry, cnq_entry, cshape_entry in *. destruct (cm_entry (k, c)) as [[n x]|] eqn:Ecm.
    + rewrite Ecm. split; reflexivity.
    + cbn [fst snd] in *. apply andb_true_iff in Hs1. destruct Hs1 as [Hk Hc1]. rewrite (cm_entry_simple k _ Hk).
      destruct c as [v|d|l].
      * cbn [clabel lits flat_map ev_lits evs_lab ev_lab app length cnqT]. rewrite app_nil_r. split; reflexivity.
      * destruct (Hc (S lvl) false ks Hc1) as [C1 C2]. destruct (clabel_dict ks d) as [d' Ed]. rewrite Ed in C1 |- *.
        cbn [snd fst]. unfold events in *. rewrite C1. set (X := eventsA (S lvl) false (Dict d)) in *.
        assert (E1 : evs_lab ks (EOpen lvl k :: X ++ [EClose lvl]) = EOpen lvl k :: evs_lab ks X ++ [EClose lvl]).
        { cbn [evs_lab ev_lab ev_lits length skipn]. rewrite evs_lab_app. reflexivity. }
        assert (E2 : length (lits (EOpen lvl k :: X ++ [EClose lvl])) = length (lits X)).
        { change (EOpen lvl k :: X ++ [EClose lvl]) with ([EOpen lvl k] ++ X ++ [EClose lvl]). rewrite !lits_app, !app_length.
          cbn [lits flat_map ev_lits app length]. lia. }
        rewrite E1, E2, C2. split; reflexivity.
      * destruct (Hc lvl false ks Hc1) as [C1 C2]. rewrite clabel_lst in *. cbn [fst snd]. rewrite C1.
        assert (E2 : length (lits (ELOpen lvl k :: eventsA lvl false (Lst l))) = length (lits (eventsA lvl false (Lst l)))).
        { change (ELOpen lvl k :: eventsA lvl false (Lst l)) with ([ELOpen lvl k] ++ eventsA lvl false (Lst l)). rewrite lits_app, app_length. reflexivity. }
        rewrite E2, C2. cbn [evs_lab ev_lab ev_lits length skipn]. split; reflexivity.
  - rewrite clabel_lst, !eventsA_lst.
    assert (El : forall ks l, length (clabelL ks l) = length l).
    { intros ks0 l. revert ks0. induction l as [|c l IHl]; intros ks0; [reflexivity|]. cbn [clabelL length]. rewrite IHl. reflexivity. }
    rewrite El. set (len := length ts). clearbody len.
    assert (G : forall run idx first ks,
              ievents lvl anc len (clabelL (skipn (length (flat_map qstr run)) ks) ts) (lrun ks run) idx first =
              evs_lab ks (ievents lvl anc len ts run idx first) /\ length (lits (ievents lvl anc len ts run idx first)) = (length (flat_map qstr run) + cnqT (Lst ts))%nat).
    { clear ks El. induction IH as [|c l Hc _ IHl]; intros run idx first ks.
      - cbn [clabelL ievents evs_lab ev_lab lits flat_map ev_lits cnqT]. rewrite app_nil_r. split; [reflexivity|lia].
      - rewrite cshapeT_lst_cons in Hs. apply andb_true_iff in Hs. destruct Hs as [Hs1 Hs2].
        rewrite cnqT_lst_cons. cbn [clabelL]. destruct c as [v|d|l2].
        + cbn [clabel ievents]. change (cnqT (Leaf v)) with (length (qstr v)). destruct (IHl Hs2 (run ++ [v]) idx first ks) as [I1 I2].
          rewrite lrun_app, flat_map_app, app_length in I1. cbn [lrun flat_map] in I1. rewrite app_nil_r, <- skipn_add in I1.
          split; [exact I1|]. rewrite I2, flat_map_app, app_length. cbn [flat_map]. rewrite app_nil_r. lia.
        + destruct (clabel_dict (skipn (length (flat_map qstr run)) ks) d) as [d' Ed]. rewrite Ed. cbn [ievents]. rewrite <- Ed.
          destruct (Hc (S (S lvl)) false (skipn (length (flat_map qstr run)) ks) Hs1) as [C1 C2].
          destruct (IHl Hs2 [] (S (idx + length run)) true (skipn (cnqT (Dict d)) (skipn (length (flat_map qstr run)) ks))) as [I1 I2].
          cbn [flat_map length skipn lrun] in I1. rewrite C1, lrun_length, I1.
          cbn [evs_lab ev_lab ev_lits]. rewrite evs_lab_app, C2. cbn [evs_lab ev_lab ev_lits length skipn]. split; [reflexivity|].
          change (EDOpen lvl len idx first run :: ?A ++ EClose (S lvl) :: ?B) with ([EDOpen lvl len idx first run] ++ A ++ [EClose (S lvl)] ++ B).
          rewrite !lits_app, !app_length, C2, I2. cbn [lits flat_map ev_lits app length]. rewrite app_nil_r. lia.
        + rewrite clabel_lst. cbn [ievents]. rewrite <- clabel_lst.
          destruct (Hc (S lvl) true (skipn (length (flat_map qstr run)) ks) Hs1) as [C1 C2].
          destruct (IHl Hs2 [] (S (idx + length run)) (rstate len idx first (length run)) (skipn (cnqT (Lst l2)) (skipn (length (flat_map qstr run)) ks))) as [I1 I2].
          cbn [flat_map length skipn lrun] in I1. rewrite C1, lrun_length, I1.
          cbn [evs_lab ev_lab ev_lits]. rewrite evs_lab_app, C2. split; [reflexivity|].
          change (EIOpen lvl len idx first run :: ?A ++ ?B) with ([EIOpen lvl len idx first run] ++ A ++ B).
          rewrite !lits_app, !app_length, C2, I2. cbn [lits flat_map ev_lits app length]. rewrite app_nil_r. lia. }
    destruct (G [] 0%nat true ks) as [G1 G2]. cbn [flat_map length skipn lrun] in G1. split; [exact G1|exact G2].
Qed.
Lemma events_clabel t lvl ks : cshape t = true ->
  events lvl (clabel ks t) = evs_lab ks (events lvl t) /\ length (lits (events lvl t)) = cnqT t.
Proof. destruct t as [v|kvs|ts]; try discriminate. intros H. exact (events_clabelA (Dict kvs) lvl false ks H). Qed.

(* the tokens of the labelled events *)
Lemma labelL_leaves run : forall ks, labelL ks (map Leaf run) = map Leaf (lrun ks run).
Proof. induction run as [|v r IH]; intros ks; [reflexivity|]. cbn [map labelL label lrun]. rewrite <- IH. reflexivity. Qed.
Lemma items_leaves (lt : scalar -> str) (kt : key -> str) run : TokProofs.items lt kt (map Leaf run) = map lt run.
Proof. induction run as [|v r IH]; [reflexivity|]. unfold TokProofs.items in *. cbn [map flat_map toks_tree app]. rewrite IH. reflexivity. Qed.
Lemma rtoks_lrun ks run : rtoks ks run = map ltL (lrun ks run).
Proof. unfold rtoks. rewrite labelL_leaves, items_leaves. reflexivity. Qed.

Lemma evs_tokL_lab : forall es ks, Forall ev_fin es -> (forall lvl n, ~ In (ECm lvl n []) es) ->
  evs_tokL ks es = TRC.ctoks ltL ktS (evs_lab ks es).
Proof.
  induction es as [|e es IH]; intros ks Hf Hne; [reflexivity|]. inversion Hf as [|e' es' He Hes]; subst.
  cbn [evs_tokL evs_lab]. unfold TRC.ctoks. cbn [flat_map]. fold (TRC.ctoks ltL ktS (evs_lab (skipn (length (ev_lits e)) ks) es)).
  rewrite <- IH by (try exact Hes; intros lvl n Hin; apply (Hne lvl n); right; exact Hin). f_equal.
  destruct e as [lvl k v|lvl k|lvl|lvl n x|lvl k|lvl len idx first run|lvl len idx first run|lvl anc len idx first run]; cbn [ev_fin ev_ok ev_tokL ev_lab TRC.ev_tokP] in *.
  - rewrite (ktS_simple k (proj1 He)). reflexivity.
  - rewrite (ktS_simple k He). reflexivity.
  - reflexivity.
  - destruct x as [|c x]; [exfalso; apply (Hne lvl n); left; reflexivity|reflexivity].
  - rewrite (ktS_simple k He). reflexivity.
  - rewrite rtoks_lrun. reflexivity.
  - rewrite rtoks_lrun. reflexivity.
  - rewrite rtoks_lrun. reflexivity.
Qed.

(* ================================================================================================ *)
(* 2. the comment passes as maps keyed by the comment text                                          *)
(* ================================================================================================ *)

Definition relL (cm : bool) (tab : list (N * str)) (e : ev) : ev :=
  match e with
  | ECm lvl n x => if str_eqb n w_LINECOMMENT then ECm lvl n (if cm then lph (rlookup x tab) else []) else e
  | _ => e
  end.

Lemma rlookup_cons_eq k x tab : rlookup x ((k, x) :: tab) = k.
Proof. unfold rlookup. cbn [find snd fst]. rewrite ScalarProofs.str_eqb_refl. reflexivity. Qed.
Lemma rlookup_cons_ne k (y x : str) tab : y <> x -> rlookup x ((k, y) :: tab) = rlookup x tab.
Proof.
  intros H. unfold rlookup. cbn [find snd]. destruct (str_eqb y x) eqn:E; [|reflexivity].
  apply SDictProofs.str_eqb_eq in E. contradiction.
Qed.

Lemma relL_ext cm tab tab' es : (forall x, In x (lcx es) -> rlookup x tab = rlookup x tab') ->
  map (relL cm tab) es = map (relL cm tab') es.
Proof.
  induction es as [|e es IH]; intros H; [reflexivity|]. cbn [map].
  destruct e as [lvl k v|lvl k|lvl|lvl n x|lvl k|lvl len idx first run|lvl len idx first run|lvl anc len idx first run]; cbn [lcx relL] in *; try (rewrite IH by exact H; reflexivity).
  destruct (str_eqb n w_LINECOMMENT).
  - rewrite (H x (or_introl eq_refl)), IH by (intros y Hy; apply H; right; exact Hy). reflexivity.
  - rewrite IH by exact H. reflexivity.
Qed.

Lemma relab_keyed cm : forall es ks, NoDup (lcx es) -> length ks = length (lcx es) ->
  relab cm ks es = map (relL cm (combine ks (lcx es))) es.
Proof.
  induction es as [|e es IH]; intros ks Hnd Hl; [reflexivity|].
  destruct e as [lvl k v|lvl k|lvl|lvl n x|lvl k|lvl len idx first run|lvl len idx first run|lvl anc len idx first run]; cbn [relab lcx map relL] in *; try (rewrite (IH ks Hnd Hl); reflexivity).
  destruct (str_eqb n w_LINECOMMENT) eqn:En.
  - destruct ks as [|k ks]; [discriminate Hl|]. cbn [length] in Hl. inversion Hnd as [|y ys Hx Hnd']; subst.
    cbn [combine map relL]. rewrite rlookup_cons_eq. f_equal. rewrite (IH ks Hnd' ltac:(lia)).
    apply relL_ext. intros y Hy. symmetry. apply rlookup_cons_ne. intros ->. exact (Hx Hy).
  - rewrite (IH ks Hnd Hl). reflexivity.
Qed.

(* the final value of a comment entry: the placeholder of the id its text got *)
Definition numx (ltab btab : list (N * str)) (n x : str) : str :=
  if str_eqb n w_LINECOMMENT then lph (rlookup x ltab) else bph (rlookup x btab).
Definition keepn (n _ : str) : str := n.

Lemma passes_keyed ltab btab : forall es, Forall ev_src es -> (forall x, In x (bcx es) -> inb x btab = true) ->
  map (numB true btab) (map (relL true ltab) es) = map (ev_map keepn (numx ltab btab) idf) es.
Proof.
  induction es as [|e es IH]; intros H Hin; [reflexivity|]. inversion H as [|e' es' He Hes]; subst. cbn [map].
  destruct e as [lvl k v|lvl k|lvl|lvl n x|lvl k|lvl len idx first run|lvl len idx first run|lvl anc len idx first run]; cbn [relL numB ev_map bcx] in *;
    try (rewrite (IH Hes Hin); try rewrite map_idf; reflexivity).
  cbn [ev_src] in He. unfold numx, keepn. destruct He as [[-> Hx]|[-> Hx]].
  - replace (str_eqb w_LINECOMMENT w_LINECOMMENT) with true by reflexivity. cbn [numB].
    replace (str_eqb w_LINECOMMENT w_BLOCKCOMMENT) with false in * by reflexivity. cbn [andb]. rewrite (IH Hes Hin). reflexivity.
  - replace (str_eqb w_BLOCKCOMMENT w_LINECOMMENT) with false by reflexivity. cbn [numB].
    replace (str_eqb w_BLOCKCOMMENT w_BLOCKCOMMENT) with true in * by reflexivity. rewrite (Hin x (or_introl eq_refl)). cbn [andb].
    rewrite (IH Hes (fun y Hy => Hin y (or_intror Hy))). reflexivity.
Qed.

(* ---- events of a canonical document ------------------------------------------------------------------ *)
Lemma cms_of_events_src : forall es, Forall ev_ok es -> forallb cm_ok (cms_of es) = true -> Forall ev_src es.
Proof.
  induction es as [|e es IH]; intros Hok Hc; [constructor|]. inversion Hok as [|e' es' He Hes]; subst.
  destruct e as [lvl k v|lvl k|lvl|lvl n x|lvl k|lvl len idx first run|lvl len idx first run|lvl anc len idx first run]; cbn [cms_of ev_cm] in Hc; try (constructor; [exact He|exact (IH Hes Hc)]).
  cbn [forallb] in Hc. apply andb_true_iff in Hc. destruct Hc as [Hc1 Hc2]. constructor; [|exact (IH Hes Hc2)].
  cbn [cm_ok ev_src] in *. apply orb_true_iff in Hc1. destruct Hc1 as [H|H]; apply andb_true_iff in H; destruct H as [H1 H2];
    apply SDictProofs.str_eqb_eq in H1; [left|right]; split; assumption.
Qed.

Lemma lcx_texts es : lcx es = map cm_text (filter (fun c => str_eqb (cm_name c) w_LINECOMMENT) (cms_of es)).
Proof.
  induction es as [|e es IH]; [reflexivity|]. destruct e as [lvl k v|lvl k|lvl|lvl n x|lvl k|lvl len idx first run|lvl len idx first run|lvl anc len idx first run]; cbn [lcx cms_of ev_cm]; try exact IH.
  cbn [filter cm_name fst snd]. destruct (str_eqb n w_LINECOMMENT); cbn [map cm_text snd]; rewrite IH; reflexivity.
Qed.
Lemma bcx_texts es : bcx es = map cm_text (filter (fun c => str_eqb (cm_name c) w_BLOCKCOMMENT) (cms_of es)).
Proof.
  induction es as [|e es IH]; [reflexivity|]. destruct e as [lvl k v|lvl k|lvl|lvl n x|lvl k|lvl len idx first run|lvl len idx first run|lvl anc len idx first run]; cbn [bcx cms_of ev_cm]; try exact IH.
  cbn [filter cm_name fst snd]. destruct (str_eqb n w_BLOCKCOMMENT); cbn [map cm_text snd]; rewrite IH; reflexivity.
Qed.

Lemma events_first_nc : forall kvs lvl, first_nc (events lvl (Dict kvs)).
Proof.
  intros kvs lvl. induction kvs as [|[k c] kvs IH]; [exact I|].
  rewrite events_cons. unfold entry_events. destruct (cm_entry (k, c)) as [[n x]|]; [exact IH|]. cbn [snd fst]. destruct c; exact I.
Qed.

(* ================================================================================================ *)
(* 3. _clean keeps a numbered document                                                              *)
(* ================================================================================================ *)

Section CleanKeep.
  Context {V : Type} (veqb : V -> V -> bool).
  Hypothesis veqb_eq : forall a b, veqb a b = true -> a = b.

  (* the table values of the placeholder keys, in key order *)
  Definition kvals (keys : list key) (tab : list (N * V)) : list V :=
    flat_map (fun k => match key_id k with
                       | Some i => match tlookup i tab with Some v => [v] | None => [] end
                       | None => []
                       end) keys.

  Lemma clean_kind_keep : forall keys data (tab : list (N * V)) seen, NoDup (seen ++ kvals keys tab) ->
    clean_kind veqb keys data tab seen = (data, tab).
  Proof.
    induction keys as [|k keys IH]; intros data tab seen Hnd; [reflexivity|]. cbn [clean_kind].
    unfold kvals in Hnd. cbn [flat_map] in Hnd. fold (kvals keys tab) in Hnd.
    destruct (key_id k) as [i|]; [|apply IH; exact Hnd]. destruct (tlookup i tab) as [v|]; [|apply IH; exact Hnd].
    cbn [app] in Hnd. assert (Hex : existsb (veqb v) seen = false).
    { destruct (existsb (veqb v) seen) eqn:E; [|reflexivity]. exfalso. apply existsb_exists in E. destruct E as (y & Hy & Ey).
      apply veqb_eq in Ey. subst y. apply NoDup_remove_2 in Hnd. apply Hnd. apply in_or_app. left. exact Hy. }
    rewrite Hex. apply IH. rewrite <- app_assoc. exact Hnd.
  Qed.
End CleanKeep.

Lemma str_eqb_eq' a b : str_eqb a b = true -> a = b.
Proof. apply SDictProofs.str_eqb_eq. Qed.

(* at every dict level the block comment texts, and the line comment texts, looked up for the placeholder keys are
   pairwise distinct *)
Fixpoint ctabs (lc bc : list (N * str)) (t : tree) {struct t} : Prop :=
  match t with
  | Dict kvs =>
      NoDup (kvals (keys_of_kind PhBlock kvs) bc) /\ NoDup (kvals (keys_of_kind PhLine kvs) lc) /\
      (fix go (l : list (key * tree)) : Prop :=
         match l with [] => True | (_, c) :: l' => (match c with Dict _ => ctabs lc bc c | _ => True end) /\ go l' end) kvs
  | _ => True
  end.

Lemma ctabs_child lc bc kvs k sub : ctabs lc bc (Dict kvs) -> In (k, Dict sub) kvs -> ctabs lc bc (Dict sub).
Proof.
  intros (_ & _ & H) Hin. induction kvs as [|[k' c'] kvs IH]; [destruct Hin|]. destruct H as [H1 H2].
  destruct Hin as [Heq|Hin]; [inversion Heq; subst; exact H1|exact (IH H2 Hin)].
Qed.

Lemma clean_level_keep data s : sd_inc s = [] ->
  NoDup (kvals (keys_of_kind PhBlock data) (sd_bc s)) -> NoDup (kvals (keys_of_kind PhLine data) (sd_lc s)) ->
  clean_level data s = (data, s).
Proof.
  intros Hi Hb Hl. unfold clean_level. rewrite (clean_kind_keep str_eqb str_eqb_eq' _ data (sd_bc s) [] Hb).
  rewrite Hi, clean_kind_nil. rewrite (clean_kind_keep str_eqb str_eqb_eq' _ data (sd_lc s) [] Hl).
  destruct s as [d lc bc inc ex]. cbn [sd_lc sd_bc sd_inc sd_data sd_expr] in *. subst inc. reflexivity.
Qed.

Lemma clean_tree_keep : forall fuel data s, sd_inc s = [] -> ctabs (sd_lc s) (sd_bc s) (Dict data) -> wf (Dict data) = true ->
  clean_tree fuel data s = (data, s).
Proof.
  induction fuel as [|f IH]; intros data s Hi Hc Hw; [reflexivity|].
  rewrite SDictProofs.clean_tree_S. apply SDictProofs.wf_Dict_iff in Hw. destruct Hw as [Hnd Hw].
  pose proof Hc as (Hb & Hl & _). rewrite (clean_level_keep data s Hi Hb Hl). cbn [fst].
  assert (Hgen : forall l, (forall kv, In kv l -> In kv data) -> fold_left (SDictProofs.cstep f) l (data, s) = (data, s)).
  { induction l as [|[k v] l IHl]; intros Hsub; [reflexivity|]. cbn [fold_left].
    assert (Hin : In (k, v) data) by (apply Hsub; left; reflexivity).
    assert (Hcs : SDictProofs.cstep f (data, s) (k, v) = (data, s)).
    { unfold SDictProofs.cstep. cbn [fst snd]. destruct v as [x|sub|ts]; try reflexivity.
      rewrite Forall_forall in Hw. pose proof (Hw _ Hin) as Hws. unfold SDictProofs.wfkv in Hws. cbn [snd] in Hws.
      rewrite (IH sub s Hi (ctabs_child _ _ _ _ _ Hc Hin) Hws).
      rewrite SDictProofs.aset_same; [reflexivity|]. apply SDictProofs.alookup_In_nodup; assumption. }
    rewrite Hcs. apply IHl. intros kv H'. apply Hsub. right. exact H'. }
  apply Hgen. auto.
Qed.

Lemma sd_clean_keep d lc bc ex : ctabs lc bc (Dict d) -> wf (Dict d) = true -> sd_clean (mkSD d lc bc [] ex) = mkSD d lc bc [] ex.
Proof.
  intros Hc Hw. unfold sd_clean. cbn [sd_data]. rewrite (clean_tree_keep _ d (mkSD d lc bc [] ex)); [reflexivity|reflexivity|exact Hc|exact Hw].
Qed.

(* ================================================================================================ *)
(* 4. the numbered document                                                                         *)
(* ================================================================================================ *)

Lemma rlookup_In x tab : inb x tab = true -> In (rlookup x tab, x) tab.
Proof.
  unfold inb, rlookup. induction tab as [|[i y] tab IH]; intros H; [discriminate H|]. cbn [existsb find snd fst] in *.
  destruct (str_eqb y x) eqn:E; [apply SDictProofs.str_eqb_eq in E; subst y; left; reflexivity|]. right. apply IH. exact H.
Qed.

Lemma tlookup_rlookup x tab : NoDup (map fst tab) -> inb x tab = true -> tlookup (rlookup x tab) tab = Some x.
Proof. intros Hnd H. apply In_tlookup; [exact Hnd|apply rlookup_In; exact H]. Qed.

Lemma rlookup_inj x y tab : NoDup (map fst tab) -> inb x tab = true -> inb y tab = true -> rlookup x tab = rlookup y tab -> x = y.
Proof.
  intros Hnd Hx Hy E. pose proof (tlookup_rlookup x tab Hnd Hx) as A. pose proof (tlookup_rlookup y tab Hnd Hy) as B.
  rewrite E in A. rewrite A in B. inversion B. reflexivity.
Qed.

Lemma first_6digits_ph w i : cw w -> i < 1000000 -> first_6digits (placeholder w i) = Some i.
Proof.
  intros Hw Hi. destruct (cw_facts w Hw) as (_ & Hu & _). unfold placeholder.
  assert (G : forall u : list N, forallb is_upper u = true -> first_6digits (u ++ pad6 i) = Some i).
  { induction u as [|c u IH]; intros H.
    - cbn [app]. pose proof (all_digits_app (pad6 i) [] (pad6_digits i)) as Hd. rewrite (pad6_length i Hi), app_nil_r in Hd.
      destruct (pad6 i) as [|d0 d] eqn:Ed; [rewrite <- Ed in Hd; pose proof (pad6_length i Hi) as Hl; rewrite Ed in Hl; discriminate Hl|].
      cbn [first_6digits]. rewrite Hd. pose proof (take_n_app (d0 :: d) []) as Ht. rewrite app_nil_r in Ht.
      rewrite <- Ed, (pad6_length i Hi) in Ht. rewrite <- Ed, Ht, dec_to_N_pad6. reflexivity.
    - cbn [forallb] in H. apply andb_true_iff in H. destruct H as [Hc Hu']. cbn [app first_6digits all_digits_n].
      assert (Hd : is_digit c = false) by (unfold is_upper, is_digit in *; lia). rewrite Hd. cbn [andb]. exact (IH Hu'). }
  exact (G w Hu).
Qed.

Lemma bph_kind i : i < 1000000 -> ph_kind_of (KS (bph i)) = Some PhBlock.
Proof. intros Hi. cbn [ph_kind_of]. pose proof (bph_block i Hi) as H. cbn [is_block_key] in H. rewrite H. reflexivity. Qed.

Lemma lph_line i : i < 1000000 -> has_placeholder w_LINECOMMENT (lph i) = true.
Proof.
  intros Hi. unfold lph, placeholder.
  assert (E : forall d : list N, all_digits_n 6 d = true -> has_placeholder w_LINECOMMENT (w_LINECOMMENT ++ d) = true).
  { intros d Hd. change (w_LINECOMMENT ++ d) with (76 :: (skipn 1 w_LINECOMMENT ++ d)). cbn [has_placeholder].
    change (76 :: skipn 1 w_LINECOMMENT ++ d) with (w_LINECOMMENT ++ d). rewrite starts_with_app, drop_n_app, Hd. reflexivity. }
  apply E. pose proof (all_digits_app (pad6 i) [] (pad6_digits i)) as H. rewrite (pad6_length i Hi), app_nil_r in H. exact H.
Qed.

Lemma lph_kind i : i < 1000000 -> ph_kind_of (KS (lph i)) = Some PhLine.
Proof.
  intros Hi. cbn [ph_kind_of]. pose proof (lph_not_block i) as H1. cbn [is_block_key] in H1. rewrite H1.
  pose proof (ph_not_include (lph i) (lph_name i Hi)) as H2. cbn [is_include_key] in H2. rewrite H2, (lph_line i Hi). reflexivity.
Qed.

Lemma simple_kind k : simple_key k = true -> ph_kind_of k = None.
Proof.
  intros Hk. destruct k as [z|s]; [reflexivity|]. cbn [ph_kind_of].
  destruct (simple_key_unsorted _ Hk) as [H1 H2]. cbn [is_block_key is_include_key] in H1, H2. rewrite H1, H2.
  destruct (has_placeholder w_LINECOMMENT s) eqn:E; [|reflexivity]. exfalso.
  apply has_placeholder_contains in E. apply (contains_suffix (of_string "LINE") w_COMMENT s ltac:(discriminate)) in E.
  destruct (simple_key_inv _ Hk) as (Hkt & _). destruct (simple_tok_inv _ Hkt) as (_ & _ & Hr).
  cbn [format_key] in Hr. apply nores_nocomment in Hr. rewrite (format_string_has _ _ E) in Hr. discriminate Hr.
Qed.

Lemma simple_not_ph k w i : simple_key k = true -> cw w -> k <> KS (placeholder w i).
Proof.
  intros Hk Hw ->. pose proof (cm_entry_simple _ (Leaf (SStr [])) Hk) as H. cbn [cm_entry] in H.
  destruct (cw_facts w Hw) as (Hne & _ & Hc). unfold is_cm in H.
  assert (E : contains w_COMMENT (placeholder w i) = true) by (unfold placeholder; apply contains_app_l; exact Hc).
  rewrite E in H. discriminate H.
Qed.

(* the texts of the comment entries of one name, in text order *)
Fixpoint wxe (w : str) (es : list ev) : list str :=
  match es with
  | [] => []
  | ECm _ n x :: es' => if str_eqb n w then x :: wxe w es' else wxe w es'
  | _ :: es' => wxe w es'
  end.
Lemma lcx_wxe es : lcx es = wxe w_LINECOMMENT es.
Proof. induction es as [|e es IH]; [reflexivity|]. destruct e; cbn [lcx wxe]; rewrite ?IH; reflexivity. Qed.
Lemma bcx_wxe es : bcx es = wxe w_BLOCKCOMMENT es.
Proof. induction es as [|e es IH]; [reflexivity|]. destruct e; cbn [bcx wxe]; rewrite ?IH; reflexivity. Qed.
Lemma wxe_app w a b : wxe w (a ++ b) = wxe w a ++ wxe w b.
Proof. induction a as [|e a IH]; [reflexivity|]. destruct e; cbn [app wxe]; try exact IH. destruct (str_eqb n w); cbn [app]; rewrite IH; reflexivity. Qed.

(* the texts of the comment entries of one dict level *)
Definition level_texts (w : str) (kvs : list (key * tree)) : list str :=
  flat_map (fun kc => match cm_entry kc with Some (n, x) => if str_eqb n w then [x] else [] | None => [] end) kvs.

(* the comment entries of a tree in text order, name and text: independent of the layout *)
Fixpoint tcms (t : tree) {struct t} : list (str * str) :=
  match t with
  | Leaf _ => []
  | Dict kvs =>
      (fix go (l : list (key * tree)) : list (str * str) :=
         match l with
         | [] => []
         | (k, c) :: l' => (match cm_entry (k, c) with Some (n, x) => [(n, x)] | None => tcms c end) ++ go l'
         end) kvs
  | Lst ts => (fix go (l : list tree) : list (str * str) := match l with [] => [] | c :: l' => tcms c ++ go l' end) ts
  end.
Definition tcms_entry (kc : key * tree) : list (str * str) :=
  match cm_entry kc with Some (n, x) => [(n, x)] | None => tcms (snd kc) end.
Lemma tcms_dict kvs : tcms (Dict kvs) = flat_map tcms_entry kvs.
Proof.
  cbn [tcms]. induction kvs as [|[k c] kvs IH]; [reflexivity|]. cbn [flat_map]. rewrite IH. unfold tcms_entry.
  destruct (cm_entry (k, c)) as [[n x]|]; reflexivity.
Qed.
Lemma tcms_lst ts : tcms (Lst ts) = flat_map tcms ts.
Proof. cbn [tcms]. induction ts as [|c ts IH]; [reflexivity|]. cbn [flat_map]. rewrite IH. reflexivity. Qed.

Definition cm_nt (c : nat * str * str) : str * str := (cm_name c, cm_text c).
Lemma cms_tcms : forall t lvl anc, map cm_nt (cms_of (eventsA lvl anc t)) = tcms t.
Proof.
  induction t as [v|kvs IH|ts IH] using tree_ind'; intros lvl anc; [reflexivity| |].
  - rewrite eventsA_dict, tcms_dict. revert lvl. induction IH as [|[k c] kvs Hc _ IHk]; intros lvl; [reflexivity|].
    rewrite events_cons, cms_of_app, map_app, (IHk lvl). cbn [flat_map]. f_equal. cbn [snd] in Hc.
    unfold entry_events, tcms_entry. destruct (cm_entry (k, c)) as [[n x]|]; [reflexivity|]. cbn [fst snd]. destruct c as [v|d|l].
    + reflexivity.
    + change (EOpen lvl k :: events (S lvl) (Dict d) ++ [EClose lvl]) with ([EOpen lvl k] ++ events (S lvl) (Dict d) ++ [EClose lvl]).
      rewrite !cms_of_app, !map_app. unfold events. rewrite (Hc (S lvl) false). cbn [cms_of ev_cm map app]. rewrite app_nil_r. reflexivity.
    + change (ELOpen lvl k :: eventsA lvl false (Lst l)) with ([ELOpen lvl k] ++ eventsA lvl false (Lst l)).
      rewrite cms_of_app, map_app, (Hc lvl false). reflexivity.
  - rewrite eventsA_lst, tcms_lst. set (len := length ts). clearbody len.
    assert (G : forall run idx first, map cm_nt (cms_of (ievents lvl anc len ts run idx first)) = flat_map tcms ts).
    { induction IH as [|c l Hc _ IHl]; intros run idx first; [reflexivity|]. cbn [ievents flat_map]. destruct c as [v|d|l2].
      - rewrite IHl. reflexivity.
      - change (EDOpen lvl len idx first run :: ?A ++ EClose (S lvl) :: ?B) with ([EDOpen lvl len idx first run] ++ A ++ [EClose (S lvl)] ++ B).
        rewrite !cms_of_app, !map_app, (Hc (S (S lvl)) false), IHl. reflexivity.
      - change (EIOpen lvl len idx first run :: ?A ++ ?B) with ([EIOpen lvl len idx first run] ++ A ++ B).
        rewrite !cms_of_app, !map_app, (Hc (S lvl) true), IHl. reflexivity. }
    exact (G [] 0%nat true).
Qed.

(* the texts under one name *)
Definition wtx (w : str) (l : list (str * str)) : list str := map snd (filter (fun c => str_eqb (fst c) w) l).
Lemma wtx_app w a b : wtx w (a ++ b) = wtx w a ++ wtx w b.
Proof. unfold wtx. rewrite filter_app, map_app. reflexivity. Qed.
Lemma wxe_wtx w es : wxe w es = wtx w (map cm_nt (cms_of es)).
Proof.
  induction es as [|e es IH]; [reflexivity|]. destruct e; cbn [wxe cms_of ev_cm]; try exact IH.
  cbn [map]. unfold wtx in *. cbn [filter]. change (fst (cm_nt (lvl, n, x))) with n. destruct (str_eqb n w); cbn [map]; rewrite IH; reflexivity.
Qed.
Lemma wxe_tcms w t lvl anc : wxe w (eventsA lvl anc t) = wtx w (tcms t).
Proof. rewrite wxe_wtx, cms_tcms. reflexivity. Qed.
Lemma wtx_In w n x l : In (n, x) l -> n = w -> In x (wtx w l).
Proof.
  intros H ->. unfold wtx. apply in_map_iff. exists (w, x). split; [reflexivity|]. apply filter_In. split; [exact H|]. apply ScalarProofs.str_eqb_refl.
Qed.
Lemma In_wtx w x l : In x (wtx w l) -> In (w, x) l.
Proof.
  unfold wtx. intros H. apply in_map_iff in H. destruct H as ([n y] & <- & H). apply filter_In in H. destruct H as [H E]. cbn [fst snd] in *.
  apply SDictProofs.str_eqb_eq in E. subst n. exact H.
Qed.

Lemma level_texts_sub w kvs : (forall x, In x (level_texts w kvs) -> In x (wtx w (tcms (Dict kvs)))) /\
  (NoDup (wtx w (tcms (Dict kvs))) -> NoDup (level_texts w kvs)).
Proof.
  rewrite tcms_dict. induction kvs as [|kc kvs [IH1 IH2]]; [split; [intros x []|intros _; constructor]|].
  cbn [flat_map]. rewrite wtx_app. unfold level_texts in *. cbn [flat_map]. unfold tcms_entry.
  destruct (cm_entry kc) as [[n x]|].
  - unfold wtx at 1 3. cbn [filter fst]. destruct (str_eqb n w); cbn [map snd app].
    + split.
      * intros y [<-|Hy]; [left; reflexivity|right; exact (IH1 y Hy)].
      * intros H. inversion H as [|z zs Hz Hnd]; subst. constructor; [intros Hin; exact (Hz (IH1 x Hin))|exact (IH2 Hnd)].
    + split; [exact IH1|exact IH2].
  - cbn [app]. split.
    + intros y Hy. apply in_or_app. right. exact (IH1 y Hy).
    + intros H. apply NoDup_app_r in H. exact (IH2 H).
Qed.

Section NumDoc.
  Variable ltab btab : list (N * str).
  Hypothesis HLnd : NoDup (map fst ltab).
  Hypothesis HBnd : NoDup (map fst btab).
  Hypothesis HLlt : forall i x, In (i, x) ltab -> i < 1000000.
  Hypothesis HBlt : forall i x, In (i, x) btab -> i < 1000000.
  Variable f : scalar -> scalar.
  Notation gx := (numx ltab btab).
  Notation ce := (cmap_entry (gkv gx gx) f).
  Definition numT (t : tree) : tree := cmapg (gkv gx gx) f t.

  (* the comment entries of one level are line or block comments whose texts are in the tables *)
  Definition lvl_cm (kvs : list (key * tree)) : Prop :=
    forall kc n x, In kc kvs -> cm_entry kc = Some (n, x) ->
    (n = w_LINECOMMENT /\ inb x ltab = true) \/ (n = w_BLOCKCOMMENT /\ inb x btab = true).
  Definition lvl_simple (kvs : list (key * tree)) : Prop :=
    forall kc, In kc kvs -> cm_entry kc = None -> simple_key (fst kc) = true.

  Lemma gx_lc x : gx w_LINECOMMENT x = lph (rlookup x ltab).
  Proof. reflexivity. Qed.
  Lemma gx_bc x : gx w_BLOCKCOMMENT x = bph (rlookup x btab).
  Proof. reflexivity. Qed.

  Lemma rl_lt x : inb x ltab = true -> rlookup x ltab < 1000000.
  Proof. intros H. exact (HLlt _ _ (rlookup_In x ltab H)). Qed.
  Lemma rb_lt x : inb x btab = true -> rlookup x btab < 1000000.
  Proof. intros H. exact (HBlt _ _ (rlookup_In x btab H)). Qed.

  Lemma fst_ce kc : fst (ce kc) = match cm_entry kc with Some (n, x) => KS (gx n x) | None => fst kc end.
  Proof. unfold cmap_entry. destruct (cm_entry kc) as [[n x]|]; reflexivity. Qed.

  Lemma In_level w kc n x kvs : In kc kvs -> cm_entry kc = Some (n, x) -> n = w -> In x (level_texts w kvs).
  Proof.
    intros Hin Hc ->. unfold level_texts. apply in_flat_map. exists kc. split; [exact Hin|]. rewrite Hc, ScalarProofs.str_eqb_refl. left. reflexivity.
  Qed.

  Lemma In_ordinary kc kvs : In kc kvs -> cm_entry kc = None -> In (fst kc) (map fst (flat_map cstrip_entry kvs)).
  Proof.
    intros Hin Hc. apply in_map_iff. exists (fst kc, cstrip (snd kc)). split; [reflexivity|].
    apply in_flat_map. exists kc. split; [exact Hin|]. unfold cstrip_entry. rewrite Hc. left. reflexivity.
  Qed.

  Lemma rkey_nodup kvs : lvl_cm kvs -> lvl_simple kvs -> NoDup (level_texts w_LINECOMMENT kvs) -> NoDup (level_texts w_BLOCKCOMMENT kvs) ->
    NoDup (map fst (flat_map cstrip_entry kvs)) -> NoDup (map fst (map ce kvs)).
  Proof.
    induction kvs as [|kc kvs IH]; intros Hcm Hsi Hl Hb Ho; [constructor|]. cbn [map]. constructor.
    - intros Hin. apply in_map_iff in Hin. destruct Hin as (e' & Ee & Hin'). apply in_map_iff in Hin'. destruct Hin' as (kc' & <- & Hin').
      rewrite !fst_ce in Ee.
      destruct (cm_entry kc) as [[n x]|] eqn:Ec; destruct (cm_entry kc') as [[n' x']|] eqn:Ec'.
      + destruct (Hcm kc n x (or_introl eq_refl) Ec) as [[-> Hx]|[-> Hx]]; destruct (Hcm kc' n' x' (or_intror Hin') Ec') as [[-> Hx']|[-> Hx']].
        * rewrite !gx_lc in Ee. apply (f_equal (fun k => match k with KS s => ph_id w_LINECOMMENT s | KI _ => 0 end)) in Ee.
          cbn beta iota in Ee. rewrite !ph_id_lph in Ee. apply (rlookup_inj _ _ _ HLnd Hx' Hx) in Ee. subst x'.
          unfold level_texts in Hl. cbn [flat_map] in Hl. rewrite Ec in Hl. replace (str_eqb w_LINECOMMENT w_LINECOMMENT) with true in Hl by reflexivity.
          cbn [app] in Hl. inversion Hl as [|y ys Hy _]; subst. apply Hy. exact (In_level _ kc' _ x kvs Hin' Ec' eq_refl).
        * rewrite gx_lc, gx_bc in Ee. exact (bph_lph_ne _ _ (f_equal (fun k => match k with KS s => s | KI _ => [] end) Ee)).
        * rewrite gx_lc, gx_bc in Ee. exact (bph_lph_ne _ _ (eq_sym (f_equal (fun k => match k with KS s => s | KI _ => [] end) Ee))).
        * rewrite !gx_bc in Ee. apply (f_equal (fun k => match k with KS s => ph_id w_BLOCKCOMMENT s | KI _ => 0 end)) in Ee.
          cbn beta iota in Ee. rewrite !ph_id_bph in Ee. apply (rlookup_inj _ _ _ HBnd Hx' Hx) in Ee. subst x'.
          unfold level_texts in Hb. cbn [flat_map] in Hb. rewrite Ec in Hb. replace (str_eqb w_BLOCKCOMMENT w_BLOCKCOMMENT) with true in Hb by reflexivity.
          cbn [app] in Hb. inversion Hb as [|y ys Hy _]; subst. apply Hy. exact (In_level _ kc' _ x kvs Hin' Ec' eq_refl).
      + pose proof (Hsi kc' (or_intror Hin') Ec') as Hk'. destruct (Hcm kc n x (or_introl eq_refl) Ec) as [[-> _]|[-> _]].
        * exact (simple_not_ph _ w_LINECOMMENT _ Hk' (or_introl eq_refl) Ee).
        * exact (simple_not_ph _ w_BLOCKCOMMENT _ Hk' (or_intror eq_refl) Ee).
      + pose proof (Hsi kc (or_introl eq_refl) Ec) as Hk. destruct (Hcm kc' n' x' (or_intror Hin') Ec') as [[-> _]|[-> _]].
        * exact (simple_not_ph _ w_LINECOMMENT _ Hk (or_introl eq_refl) (eq_sym Ee)).
        * exact (simple_not_ph _ w_BLOCKCOMMENT _ Hk (or_intror eq_refl) (eq_sym Ee)).
      + cbn [flat_map] in Ho. unfold cstrip_entry at 1 in Ho. rewrite Ec in Ho. cbn [app map fst] in Ho.
        inversion Ho as [|y ys Hy _]; subst. apply Hy. rewrite <- Ee. exact (In_ordinary kc' kvs Hin' Ec').
    - apply IH.
      + intros kc' n x Hin' Hc'. exact (Hcm kc' n x (or_intror Hin') Hc').
      + intros kc' Hin' Hc'. exact (Hsi kc' (or_intror Hin') Hc').
      + unfold level_texts in Hl. cbn [flat_map] in Hl. exact (NoDup_app_r _ _ Hl).
      + unfold level_texts in Hb. cbn [flat_map] in Hb. exact (NoDup_app_r _ _ Hb).
      + cbn [flat_map] in Ho. rewrite map_app in Ho. exact (NoDup_app_r _ _ Ho).
  Qed.

  Lemma keys_of_kind_cons kd (kc : key * tree) l :
    keys_of_kind kd (kc :: l) = (if match ph_kind_of (fst kc), kd with
                                    | Some PhBlock, PhBlock | Some PhInclude, PhInclude | Some PhLine, PhLine => true
                                    | _, _ => false end then [fst kc] else []) ++ keys_of_kind kd l.
  Proof. unfold keys_of_kind. cbn [map filter]. destruct (ph_kind_of (fst kc)) as [[| |]|]; destruct kd; reflexivity. Qed.

  Lemma kvals_app {V} (a b : list key) (tab : list (N * V)) : kvals (a ++ b) tab = kvals a tab ++ kvals b tab.
  Proof. unfold kvals. apply flat_map_app. Qed.

  Lemma kvals_level kvs : lvl_cm kvs -> lvl_simple kvs ->
    kvals (keys_of_kind PhBlock (map ce kvs)) btab = level_texts w_BLOCKCOMMENT kvs /\
    kvals (keys_of_kind PhLine (map ce kvs)) ltab = level_texts w_LINECOMMENT kvs.
  Proof.
    induction kvs as [|kc kvs IH]; intros Hcm Hsi; [split; reflexivity|].
    destruct IH as [I1 I2]; [intros kc' n x Hin' Hc'; exact (Hcm kc' n x (or_intror Hin') Hc')|intros kc' Hin' Hc'; exact (Hsi kc' (or_intror Hin') Hc')|].
    cbn [map]. rewrite !keys_of_kind_cons, !kvals_app, I1, I2, fst_ce. unfold level_texts. cbn [flat_map].
    destruct (cm_entry kc) as [[n x]|] eqn:Ec.
    - destruct (Hcm kc n x (or_introl eq_refl) Ec) as [[-> Hx]|[-> Hx]].
      + rewrite gx_lc, (lph_kind _ (rl_lt _ Hx)).
        replace (str_eqb w_LINECOMMENT w_BLOCKCOMMENT) with false by reflexivity. replace (str_eqb w_LINECOMMENT w_LINECOMMENT) with true by reflexivity.
        unfold kvals. cbn [flat_map key_id app]. unfold lph. rewrite (first_6digits_ph _ _ (or_introl eq_refl) (rl_lt _ Hx)), (tlookup_rlookup x ltab HLnd Hx).
        split; reflexivity.
      + rewrite gx_bc, (bph_kind _ (rb_lt _ Hx)).
        replace (str_eqb w_BLOCKCOMMENT w_LINECOMMENT) with false by reflexivity. replace (str_eqb w_BLOCKCOMMENT w_BLOCKCOMMENT) with true by reflexivity.
        unfold kvals. cbn [flat_map key_id app]. unfold bph. rewrite (first_6digits_ph _ _ (or_intror eq_refl) (rb_lt _ Hx)), (tlookup_rlookup x btab HBnd Hx).
        split; reflexivity.
    - rewrite (simple_kind _ (Hsi kc (or_introl eq_refl) Ec)). split; reflexivity.
  Qed.

  (* the source document: well shaped, unique ordinary keys, every comment entry a line or block comment whose text
     is in its table, texts pairwise distinct under either name *)
  Definition src_tree (t : tree) : Prop :=
    cshapeT t = true /\ wf (cstrip t) = true /\
    (forall n x, In (n, x) (tcms t) -> (n = w_LINECOMMENT /\ inb x ltab = true) \/ (n = w_BLOCKCOMMENT /\ inb x btab = true)) /\
    NoDup (wtx w_LINECOMMENT (tcms t)) /\ NoDup (wtx w_BLOCKCOMMENT (tcms t)).

  Lemma src_child kvs k c : src_tree (Dict kvs) -> In (k, c) kvs -> cm_entry (k, c) = None -> src_tree c.
  Proof.
    intros (Hs & Hw & Hin & Hl & Hb) Hkc Hc. destruct (in_split _ _ Hkc) as (l1 & l2 & ->).
    assert (ET : tcms (Dict (l1 ++ (k, c) :: l2)) = tcms (Dict l1) ++ tcms c ++ tcms (Dict l2)).
    { rewrite !tcms_dict, flat_map_app. cbn [flat_map]. unfold tcms_entry at 2. rewrite Hc. reflexivity. }
    rewrite ET in Hin, Hl, Hb. rewrite !wtx_app in Hl, Hb.
    assert (Hse : cshape_entry (k, c) = true).
    { clear -Hs. induction l1 as [|e l1 IH]; cbn [app] in Hs; rewrite cshapeT_cons in Hs; apply andb_true_iff in Hs; destruct Hs as [H1 H2]; [exact H1|exact (IH H2)]. }
    unfold cshape_entry in Hse. rewrite Hc in Hse. cbn [fst snd] in Hse. apply andb_true_iff in Hse. destruct Hse as [_ Hsd].
    rewrite cstrip_dict in Hw. apply SDictProofs.wf_Dict_iff in Hw. destruct Hw as [_ Hw]. rewrite Forall_forall in Hw.
    assert (Hwd : wf (cstrip c) = true).
    { apply (Hw (k, cstrip c)). apply in_flat_map. exists (k, c). split; [exact Hkc|].
      unfold cstrip_entry. rewrite Hc. left. reflexivity. }
    split; [exact Hsd|]. split; [exact Hwd|]. split; [|split].
    - intros n x H. apply Hin. apply in_or_app. right. apply in_or_app. left. exact H.
    - exact (NoDup_app_l _ _ (NoDup_app_r _ _ Hl)).
    - exact (NoDup_app_l _ _ (NoDup_app_r _ _ Hb)).
  Qed.

  Lemma src_item ts c : src_tree (Lst ts) -> In c ts -> src_tree c.
  Proof.
    intros (Hs & Hw & Hin & Hl & Hb) Hc. destruct (in_split _ _ Hc) as (l1 & l2 & ->).
    assert (ET : tcms (Lst (l1 ++ c :: l2)) = tcms (Lst l1) ++ tcms c ++ tcms (Lst l2)).
    { rewrite !tcms_lst, flat_map_app. reflexivity. }
    rewrite ET in Hin, Hl, Hb. rewrite !wtx_app in Hl, Hb.
    assert (Hsc : cshapeT c = true).
    { clear -Hs. induction l1 as [|e l1 IH]; cbn [app] in Hs; rewrite cshapeT_lst_cons in Hs; apply andb_true_iff in Hs; destruct Hs as [H1 H2]; [exact H1|exact (IH H2)]. }
    assert (Hwc : wf (cstrip c) = true).
    { rewrite cstrip_lst, KeyPathProofs.wf_lst in Hw. rewrite forallb_forall in Hw. apply Hw. apply in_map. exact Hc. }
    split; [exact Hsc|]. split; [exact Hwc|]. split; [|split].
    - intros n x H. apply Hin. apply in_or_app. right. apply in_or_app. left. exact H.
    - exact (NoDup_app_l _ _ (NoDup_app_r _ _ Hl)).
    - exact (NoDup_app_l _ _ (NoDup_app_r _ _ Hb)).
  Qed.

  Lemma cshapeT_forallb l : cshapeT (Dict l) = forallb cshape_entry l.
  Proof. induction l as [|kc l IH]; [reflexivity|]. rewrite cshapeT_cons. cbn [forallb]. rewrite IH. reflexivity. Qed.

  Lemma src_level kvs : src_tree (Dict kvs) ->
    lvl_cm kvs /\ lvl_simple kvs /\ NoDup (level_texts w_LINECOMMENT kvs) /\ NoDup (level_texts w_BLOCKCOMMENT kvs) /\
    NoDup (map fst (flat_map cstrip_entry kvs)).
  Proof.
    intros (Hs & Hw & Hin & Hl & Hb). split; [|split; [|split; [|split]]].
    - intros kc n x Hkc Hc. apply Hin. rewrite tcms_dict. apply in_flat_map. exists kc. split; [exact Hkc|].
      unfold tcms_entry. rewrite Hc. left. reflexivity.
    - intros kc Hkc Hc. rewrite cshapeT_forallb, forallb_forall in Hs. pose proof (Hs _ Hkc) as Hse. unfold cshape_entry in Hse.
      rewrite Hc in Hse. apply andb_true_iff in Hse. exact (proj1 Hse).
    - exact (proj2 (level_texts_sub _ kvs) Hl).
    - exact (proj2 (level_texts_sub _ kvs) Hb).
    - rewrite cstrip_dict in Hw. apply SDictProofs.wf_Dict_iff in Hw. exact (proj1 Hw).
  Qed.

  Lemma ctabs_dict (kvs : list (key * tree)) :
    NoDup (kvals (keys_of_kind PhBlock kvs) btab) -> NoDup (kvals (keys_of_kind PhLine kvs) ltab) ->
    (forall k d, In (k, Dict d) kvs -> ctabs ltab btab (Dict d)) -> ctabs ltab btab (Dict kvs).
  Proof.
    intros H1 H2 H3. cbn [ctabs]. split; [exact H1|]. split; [exact H2|].
    clear H1 H2. induction kvs as [|[k c] kvs IH]; [exact I|]. split.
    - destruct c as [v|d|l]; try exact I. apply (H3 k d). left. reflexivity.
    - apply IH. intros k' d' Hin. apply (H3 k' d'). right. exact Hin.
  Qed.

  Lemma numT_lst ts : numT (Lst ts) = Lst (map numT ts).
  Proof. unfold numT. apply cmapg_lst. Qed.

  Theorem num_ok : forall t, src_tree t -> wf (numT t) = true /\ ctabs ltab btab (numT t).
  Proof.
    induction t as [v|kvs IH|ts IH] using tree_ind'; intros Hsrc.
    - split; [reflexivity|exact I].
    - destruct (src_level kvs Hsrc) as (Hcm & Hsi & Hl & Hb & Ho).
      destruct (kvals_level kvs Hcm Hsi) as [Kb Kl].
      unfold numT. rewrite cmapg_dict.
      assert (Hch : forall kc, In kc kvs -> wf (snd (ce kc)) = true /\ (forall d', snd (ce kc) = Dict d' -> ctabs ltab btab (Dict d'))).
      { intros [k c] Hin. unfold cmap_entry. destruct (cm_entry (k, c)) as [[n x]|] eqn:Ec.
        - cbn [gkv snd]. split; [reflexivity|intros d' H; discriminate H].
        - cbn [fst snd]. rewrite Forall_forall in IH. destruct (IH (k, c) Hin (src_child kvs k c Hsrc Hin Ec)) as [W C].
          unfold numT in W, C. cbn [snd] in W, C. split; [exact W|]. intros d' Ed. rewrite <- Ed. exact C. }
      split.
      + apply SDictProofs.wf_Dict_iff. split; [exact (rkey_nodup kvs Hcm Hsi Hl Hb Ho)|].
        apply Forall_forall. intros e He. apply in_map_iff in He. destruct He as (kc & <- & Hin). exact (proj1 (Hch kc Hin)).
      + apply ctabs_dict; [rewrite Kb; exact Hb|rewrite Kl; exact Hl|].
        intros k d Hin. apply in_map_iff in Hin. destruct Hin as (kc & Ekc & Hin). apply (proj2 (Hch kc Hin) d). rewrite Ekc. reflexivity.
    - rewrite numT_lst. split; [|exact I]. rewrite KeyPathProofs.wf_lst. apply forallb_forall. intros e He. apply in_map_iff in He.
      destruct He as (c & <- & Hin). rewrite Forall_forall in IH. exact (proj1 (IH c Hin (src_item ts c Hsrc Hin))).
  Qed.
End NumDoc.
