(* Termination of the token-level parser on EVERY token list (not only those of well-formed documents):
   the shared fuel of parse_dict_go / parse_list_go and the fuels of their helpers are always sufficient.
   In the Python original these are unfuelled while loops and recursive calls; E_Fuel in the model would
   correspond to a hang of the library. *)
From Coq Require Import NArith ZArith List Bool Lia ZifyBool ZifyNat ZifyN.
From DictIO Require Import Chars Str Value Scalar KeyPath SDict Lexer TokParser.
From DictIO Require ScalarProofs TokProofs SDictProofs KeyPathProofs FlatDataProofs E2EHoles E2EInsert.
Import ListNotations.
Local Open Scope Z_scope.

(* ---- results that are not "out of fuel" -------------------------------------------------------- *)
Definition nofuel {A} (r : res A) : Prop := r <> Raise E_Fuel.

Lemma nofuel_ok {A} (a : A) : nofuel (Ok a).
Proof. unfold nofuel. discriminate. Qed.

Lemma nofuel_raise {A} e : e <> E_Fuel -> nofuel (@Raise A e).
Proof. unfold nofuel. intros Hne Heq. apply Hne. injection Heq as Heq. exact Heq. Qed.

Lemma nofuel_index {A} : nofuel (@Raise A E_Index).
Proof. apply nofuel_raise. unfold E_Index, E_Fuel. discriminate. Qed.

Lemma nofuel_bind {A B} (r : res A) (k : A -> res B) :
  nofuel r -> (forall a, r = Ok a -> nofuel (k a)) -> nofuel (bind r k).
Proof.
  intros Hr Hk. destruct r as [a|e]; cbn [bind].
  - apply Hk. reflexivity.
  - unfold nofuel in *. intros Heq. apply Hr. injection Heq as Heq. rewrite Heq. reflexivity.
Qed.

Lemma parse_value_nofuel s : nofuel (parse_value s).
Proof. unfold nofuel. apply ScalarProofs.parse_value_total. Qed.

Lemma parse_key_nofuel s : nofuel (parse_key s).
Proof.
  unfold parse_key. apply nofuel_bind; [apply parse_value_nofuel|].
  intros v _. destruct (scalar_to_key v); [apply nofuel_ok|].
  apply nofuel_raise. unfold E_Outside, E_Fuel. discriminate.
Qed.

(* ---- Python indexing --------------------------------------------------------------------------- *)
Definition len {A} (l : list A) : Z := Z.of_nat (length l).

Lemma py_nth_some_range {A} (l : list A) i x :
  py_nth l i = Some x -> - len l <= i < len l.
Proof.
  unfold py_nth, len. intros H.
  destruct (0 <=? i) eqn:E1.
  - destruct (i <? Z.of_nat (length l)) eqn:E2; [lia|discriminate H].
  - destruct (0 <=? i + Z.of_nat (length l)) eqn:E2; [lia|discriminate H].
Qed.

Lemma py_nth_0_base (ts : list ztok) lv txt base :
  py_nth ts 0 = Some (lv, txt) -> (base <? fst (hd (0, []) ts)) = false -> (base <? lv) = false.
Proof.
  unfold py_nth. intros H Hb. destruct ts as [|y l]; [vm_compute in H; discriminate H|].
  change (0 <=? 0) with true in H. cbn [length] in H.
  destruct (0 <? Z.of_nat (S (length l))); [|discriminate H].
  change (Z.to_nat 0) with 0%nat in H. cbn [nth_error] in H.
  injection H as H. subst y. cbn [hd fst] in Hb. exact Hb.
Qed.

(* ---- the helpers: a walking index cannot cycle ------------------------------------------------- *)
(* key_index walks backwards from ti - offset; below -len the index is out of range: the wrap-around of
   negative indices lets the walk run once more over the whole list (from its end), but not twice *)
Lemma key_index_fuel : forall f (ts : list ztok) ti off,
  (1 <= f)%nat -> Z.of_nat f > ti - off + len ts + 1 -> nofuel (key_index f ts ti off).
Proof.
  induction f as [|f IH]; intros ts ti off H1 H2; [lia|].
  cbn [key_index].
  destruct (py_nth ts (ti - off)) as [[lv txt]|] eqn:E; [|apply nofuel_index].
  apply py_nth_some_range in E.
  destruct (is_comment_tok txt); [|apply nofuel_ok].
  apply IH; lia.
Qed.

Lemma check_dict_end_fuel : forall f (ds : list ztok) idx,
  (1 <= f)%nat -> Z.of_nat f > idx + len ds + 1 -> nofuel (check_dict_end f ds idx).
Proof.
  induction f as [|f IH]; intros ds idx H1 H2; [lia|].
  cbn [check_dict_end].
  destruct (py_nth ds idx) as [[lv txt]|] eqn:E; [|apply nofuel_index].
  apply py_nth_some_range in E.
  destruct (is_comment_tok txt); [|apply nofuel_ok].
  apply IH; lia.
Qed.

Lemma collect_struct_fuel : forall f (ts : list ztok) ti i cl clv acc,
  (1 <= f)%nat -> Z.of_nat f > len ts - (ti + i) -> nofuel (collect_struct f ts ti i cl clv acc).
Proof.
  induction f as [|f IH]; intros ts ti i cl clv acc H1 H2; [lia|].
  cbn [collect_struct].
  destruct (py_nth ts (ti + i)) as [[lv txt]|] eqn:E; [|apply nofuel_index].
  apply py_nth_some_range in E.
  destruct (negb (str_eqb txt cl) || negb (lv =? clv) && negb (is_comment_tok txt)); [|apply nofuel_ok].
  replace (ti + (i + 1)) with (ti + i + 1) in * by lia.
  apply IH; lia.
Qed.

(* what collect_struct returns: i' is the offset of the last collected token, which is inside the list *)
Lemma collect_struct_spec : forall f (ts : list ztok) ti i cl clv acc ds i',
  collect_struct f ts ti i cl clv acc = Ok (ds, i') ->
  i <= i' /\ - len ts <= ti + i' < len ts /\ len ds = len acc + (i' - i) + 1.
Proof.
  induction f as [|f IH]; intros ts ti i cl clv acc ds i' H; [discriminate H|].
  cbn [collect_struct] in H.
  destruct (py_nth ts (ti + i)) as [[lv txt]|] eqn:E; [|discriminate H].
  apply py_nth_some_range in E.
  destruct (negb (str_eqb txt cl) || negb (lv =? clv) && negb (is_comment_tok txt)).
  - apply IH in H. unfold len in *. cbn [length] in H. lia.
  - injection H as Hds Hi. subst i'. rewrite <- Hds. change (rev acc ++ [(lv, txt)]) with (rev ((lv, txt) :: acc)).
    unfold len, ztok in *. rewrite rev_length. cbn [length]. lia.
Qed.

(* the helpers on their own: twice the list length is enough wherever they are started *)
Lemma helpers_terminate : forall (ts : list ztok) f, (2 * length ts + 1 <= f)%nat ->
  (forall ti off, ti <= len ts -> 1 <= off -> key_index f ts ti off <> Raise E_Fuel) /\
  (forall idx, idx < 0 -> check_dict_end f ts idx <> Raise E_Fuel) /\
  (forall ti i cl clv acc, 0 <= ti + i -> collect_struct f ts ti i cl clv acc <> Raise E_Fuel).
Proof.
  intros ts f Hf. unfold len. repeat split.
  - intros ti off Hti Hoff. apply key_index_fuel; unfold len; lia.
  - intros idx Hidx. apply check_dict_end_fuel; unfold len; lia.
  - intros ti i cl clv acc Hi. apply collect_struct_fuel; unfold len; lia.
Qed.

Lemma inner_length {A} (l : list A) : l <> [] -> len (inner l) < len l.
Proof.
  intros Hne. unfold inner, len. destruct l as [|x l]; [congruence|]. cbn [tl length].
  destruct l as [|y l]; [cbn [removelast length]; lia|].
  rewrite (@app_removelast_last _ (y :: l) y) at 2 by discriminate.
  rewrite app_length. cbn [length]. lia.
Qed.

(* ---- the two parsers ---------------------------------------------------------------------------
   Potential: 3 * len ts - ti + c.  At index ti the helpers need at most ti + len ts + 1 (key_index, which
   may wrap around), len ts - ti + 1 (collect_struct) and len ds (check_dict_end) steps; the recursive
   calls run on a strictly shorter list (dict: inner ds; list: ds, which is shorter than ts because a list
   is only entered at ti >= 1 -- at ti = 0 the level of the first token is not above the base level). *)
Lemma parse_go_fuel : forall f,
  (forall (ts : list ztok) ti acc,
      0 <= ti <= len ts -> Z.of_nat f + ti >= 3 * len ts + 3 -> nofuel (parse_dict_go f ts ti acc)) /\
  (forall (ts : list ztok) ti base acc,
      0 <= ti <= len ts -> (ti = 0 -> (base <? fst (hd (0, []) ts)) = false) ->
      Z.of_nat f + ti >= 3 * len ts + 2 -> nofuel (parse_list_go f ts ti base acc)).
Proof.
  induction f as [|f [IHd IHl]]; [split; intros; lia|].
  split.
  - (* dict *)
    intros ts ti acc Hti Hf. rewrite TokProofs.parse_dict_go_S.
    destruct (py_nth ts ti) as [[lv txt]|] eqn:Et; [|apply nofuel_ok].
    pose proof (py_nth_some_range _ _ _ Et) as Hr.
    destruct (ti <? 0); [apply nofuel_ok|].
    destruct (is_open txt).
    + apply nofuel_bind; [apply key_index_fuel; lia|]. intros kidx _.
      destruct (py_nth ts kidx) as [[klv ktxt]|]; [|apply nofuel_index].
      apply nofuel_bind; [apply parse_key_nofuel|]. intros k _.
      apply nofuel_bind; [apply collect_struct_fuel; lia|]. intros [ds i] Hcs.
      apply collect_struct_spec in Hcs. change (len (@nil ztok)) with 0 in Hcs.
      destruct Hcs as (Hi0 & Hi1 & Hlen).
      apply nofuel_bind.
      { destruct (str_eqb (last_text ds) t_rpar); [|apply nofuel_ok].
        destruct (py_nth ts (ti + i + 1)); [apply nofuel_ok|apply nofuel_index]. }
      intros _ _.
      apply nofuel_bind.
      { destruct (str_eqb (last_text ds) t_rbrace); [|apply nofuel_ok].
        apply check_dict_end_fuel; lia. }
      intros _ _.
      apply nofuel_bind.
      { destruct (str_eqb (first_text ds) t_lpar).
        - destruct (Nat.ltb (length ds) 3); [apply nofuel_ok|].
          apply nofuel_bind; [|intros; apply nofuel_ok].
          apply IHl; [lia|intros _; apply Z.ltb_irrefl|lia].
        - destruct (str_eqb (first_text ds) t_lbrace); [|apply nofuel_ok].
          apply nofuel_bind; [|intros; apply nofuel_ok].
          assert (Hne : ds <> []) by (intros ->; unfold len in Hlen; cbn [length] in Hlen; lia).
          pose proof (inner_length ds Hne) as Hin.
          assert (0 <= len (inner ds)) by (unfold len; lia).
          apply IHd; lia. }
      intros acc' _.
      destruct (0 <? i); apply IHd; lia.
    + destruct (str_eqb txt t_semi && _).
      * destruct (py_nth ts (ti - 1)); [|apply nofuel_index].
        destruct (kv_back f ts ti 1 lv [(lv, txt)]) as [|[l1 ktxt] [|[l2 vtxt] [|x3 [|x4 r]]]];
          try (apply IHd; lia).
        apply nofuel_bind; [apply parse_key_nofuel|]. intros k _.
        apply nofuel_bind; [apply parse_value_nofuel|]. intros v _.
        apply IHd; lia.
      * destruct (is_comment_tok txt || is_include_tok txt); apply IHd; lia.
  - (* list *)
    intros ts ti base acc Hti Hb Hf. rewrite TokProofs.parse_list_go_S.
    destruct (py_nth ts ti) as [[lv txt]|] eqn:Et; [|apply nofuel_ok].
    pose proof (py_nth_some_range _ _ _ Et) as Hr.
    destruct (ti <? 0); [apply nofuel_ok|].
    destruct (is_open txt && (base <? lv)) eqn:Eopen.
    + assert (Hti1 : 1 <= ti).
      { destruct (Z.eq_dec ti 0) as [E0|E0]; [|lia]. exfalso. subst ti.
        rewrite (py_nth_0_base ts lv txt base Et (Hb eq_refl)) in Eopen. rewrite andb_false_r in Eopen. discriminate Eopen. }
      apply nofuel_bind; [apply collect_struct_fuel; lia|]. intros [ds i] Hcs.
      apply collect_struct_spec in Hcs. change (len (@nil ztok)) with 0 in Hcs.
      destruct Hcs as (Hi0 & Hi1 & Hlen).
      apply nofuel_bind.
      { destruct (str_eqb (last_text ds) t_rbrace); [|apply nofuel_ok].
        apply check_dict_end_fuel; lia. }
      intros _ _.
      apply nofuel_bind.
      { destruct (str_eqb (first_text ds) t_lpar).
        - destruct (Nat.ltb (length ds) 3); [apply nofuel_ok|].
          apply nofuel_bind; [|intros; apply nofuel_ok].
          apply IHl; [lia|intros _; apply Z.ltb_irrefl|lia].
        - destruct (str_eqb (first_text ds) t_lbrace); [|apply nofuel_ok].
          apply nofuel_bind; [|intros; apply nofuel_ok].
          assert (Hne : ds <> []) by (intros ->; unfold len in Hlen; cbn [length] in Hlen; lia).
          pose proof (inner_length ds Hne) as Hin.
          assert (0 <= len (inner ds)) by (unfold len; lia).
          apply IHd; lia. }
      intros acc' _.
      destruct (0 <? i); apply IHl; try lia; intros; lia.
    + destruct (negb (str_eqb txt t_lpar) && negb (str_eqb txt t_rpar) && negb (str_eqb txt t_semi)).
      * apply nofuel_bind; [apply parse_value_nofuel|]. intros v _.
        apply IHl; try lia; intros; lia.
      * apply IHl; try lia; intros; lia.
Qed.

Lemma levels_length ts : length (levels ts) = length ts.
Proof. apply TokProofs.levels_go_length. Qed.

Theorem parse_tokens_terminates : forall ts, parse_tokens ts <> Raise E_Fuel.
Proof.
  intros ts. unfold parse_tokens.
  apply (proj1 (parse_go_fuel (4 * length (levels ts) + 8))); unfold len; lia.
Qed.

(* ---- fuel irrelevance ---------------------------------------------------------------------------
   Not running out of fuel is not the whole story: kv_back returns what it has collected when ITS fuel runs
   out (no E_Fuel), so a too small fuel could silently change the result.  Above the potential, the result
   does not depend on the fuel at all. *)
Lemma bind_ext2 {A B} (r r' : res A) (k k' : A -> res B) :
  r = r' -> (forall a, r = Ok a -> k a = k' a) -> bind r k = bind r' k'.
Proof. intros <- Hk. destruct r as [a|e]; cbn [bind]; [apply Hk; reflexivity|reflexivity]. Qed.

Lemma key_index_stable : forall f g (ts : list ztok) ti off,
  (1 <= f)%nat -> (1 <= g)%nat -> Z.of_nat f > ti - off + len ts + 1 -> Z.of_nat g > ti - off + len ts + 1 ->
  key_index f ts ti off = key_index g ts ti off.
Proof.
  induction f as [|f IH]; intros [|g] ts ti off Hf1 Hg1 Hf Hg; try lia.
  cbn [key_index].
  destruct (py_nth ts (ti - off)) as [[lv txt]|] eqn:E; [|reflexivity].
  apply py_nth_some_range in E.
  destruct (is_comment_tok txt); [|reflexivity].
  apply IH; lia.
Qed.

Lemma check_dict_end_stable : forall f g (ds : list ztok) idx,
  (1 <= f)%nat -> (1 <= g)%nat -> Z.of_nat f > idx + len ds + 1 -> Z.of_nat g > idx + len ds + 1 ->
  check_dict_end f ds idx = check_dict_end g ds idx.
Proof.
  induction f as [|f IH]; intros [|g] ds idx Hf1 Hg1 Hf Hg; try lia.
  cbn [check_dict_end].
  destruct (py_nth ds idx) as [[lv txt]|] eqn:E; [|reflexivity].
  apply py_nth_some_range in E.
  destruct (is_comment_tok txt); [|reflexivity].
  apply IH; lia.
Qed.

Lemma collect_struct_stable : forall f g (ts : list ztok) ti i cl clv acc,
  (1 <= f)%nat -> (1 <= g)%nat -> Z.of_nat f > len ts - (ti + i) -> Z.of_nat g > len ts - (ti + i) ->
  collect_struct f ts ti i cl clv acc = collect_struct g ts ti i cl clv acc.
Proof.
  induction f as [|f IH]; intros [|g] ts ti i cl clv acc Hf1 Hg1 Hf Hg; try lia.
  cbn [collect_struct].
  destruct (py_nth ts (ti + i)) as [[lv txt]|] eqn:E; [|reflexivity].
  apply py_nth_some_range in E.
  destruct (negb (str_eqb txt cl) || negb (lv =? clv) && negb (is_comment_tok txt)); [|reflexivity].
  apply IH; lia.
Qed.

(* kv_back walks backwards from ti - i and stops below index 0 (no wrap-around here) *)
Lemma kv_back_stable : forall f g (ts : list ztok) ti i lvl acc,
  Z.of_nat f > ti - i -> Z.of_nat g > ti - i ->
  kv_back f ts ti i lvl acc = kv_back g ts ti i lvl acc.
Proof.
  induction f as [|f IH]; intros [|g] ts ti i lvl acc Hf Hg.
  - reflexivity.
  - cbn [kv_back]. destruct (ti - i <? 0) eqn:E; [reflexivity|lia].
  - cbn [kv_back]. destruct (ti - i <? 0) eqn:E; [reflexivity|lia].
  - cbn [kv_back]. destruct (ti - i <? 0) eqn:E; [reflexivity|].
    destruct (py_nth ts (ti - i)) as [[lv txt]|]; [|reflexivity].
    destruct (_ && _); [|reflexivity].
    apply IH; lia.
Qed.

Lemma parse_go_stable : forall f,
  (forall g (ts : list ztok) ti acc,
      0 <= ti <= len ts -> Z.of_nat f + ti >= 3 * len ts + 3 -> Z.of_nat g + ti >= 3 * len ts + 3 ->
      parse_dict_go f ts ti acc = parse_dict_go g ts ti acc) /\
  (forall g (ts : list ztok) ti base acc,
      0 <= ti <= len ts -> (ti = 0 -> (base <? fst (hd (0, []) ts)) = false) ->
      Z.of_nat f + ti >= 3 * len ts + 2 -> Z.of_nat g + ti >= 3 * len ts + 2 ->
      parse_list_go f ts ti base acc = parse_list_go g ts ti base acc).
Proof.
  induction f as [|f [IHd IHl]]; [split; intros; lia|].
  split.
  - (* dict *)
    intros [|g] ts ti acc Hti Hf Hg; [lia|]. rewrite !TokProofs.parse_dict_go_S.
    destruct (py_nth ts ti) as [[lv txt]|] eqn:Et; [|reflexivity].
    pose proof (py_nth_some_range _ _ _ Et) as Hr.
    destruct (ti <? 0); [reflexivity|].
    destruct (is_open txt).
    + apply bind_ext2; [apply key_index_stable; lia|]. intros kidx _.
      destruct (py_nth ts kidx) as [[klv ktxt]|]; [|reflexivity].
      apply bind_ext2; [reflexivity|]. intros k _.
      apply bind_ext2; [apply collect_struct_stable; lia|]. intros [ds i] Hcs.
      apply collect_struct_spec in Hcs. change (len (@nil ztok)) with 0 in Hcs.
      destruct Hcs as (Hi0 & Hi1 & Hlen).
      apply bind_ext2; [reflexivity|]. intros _ _.
      apply bind_ext2.
      { destruct (str_eqb (last_text ds) t_rbrace); [|reflexivity].
        apply check_dict_end_stable; lia. }
      intros _ _.
      apply bind_ext2.
      { destruct (str_eqb (first_text ds) t_lpar).
        - destruct (Nat.ltb (length ds) 3); [reflexivity|].
          apply bind_ext2; [|reflexivity].
          apply IHl; [lia|intros _; apply Z.ltb_irrefl|lia|lia].
        - destruct (str_eqb (first_text ds) t_lbrace); [|reflexivity].
          apply bind_ext2; [|reflexivity].
          assert (Hne : ds <> []) by (intros ->; unfold len in Hlen; cbn [length] in Hlen; lia).
          pose proof (inner_length ds Hne) as Hin.
          assert (0 <= len (inner ds)) by (unfold len; lia).
          apply IHd; lia. }
      intros acc' _.
      destruct (0 <? i); apply IHd; lia.
    + destruct (str_eqb txt t_semi && _).
      * destruct (py_nth ts (ti - 1)); [|reflexivity].
        rewrite (kv_back_stable f g ts ti 1 lv [(lv, txt)]) by lia.
        destruct (kv_back g ts ti 1 lv [(lv, txt)]) as [|[l1 ktxt] [|[l2 vtxt] [|x3 [|x4 r]]]];
          try (apply IHd; lia).
        apply bind_ext2; [reflexivity|]. intros k _.
        apply bind_ext2; [reflexivity|]. intros v _.
        apply IHd; lia.
      * destruct (is_comment_tok txt || is_include_tok txt); apply IHd; lia.
  - (* list *)
    intros [|g] ts ti base acc Hti Hb Hf Hg; [lia|]. rewrite !TokProofs.parse_list_go_S.
    destruct (py_nth ts ti) as [[lv txt]|] eqn:Et; [|reflexivity].
    pose proof (py_nth_some_range _ _ _ Et) as Hr.
    destruct (ti <? 0); [reflexivity|].
    destruct (is_open txt && (base <? lv)) eqn:Eopen.
    + assert (Hti1 : 1 <= ti).
      { destruct (Z.eq_dec ti 0) as [E0|E0]; [|lia]. exfalso. subst ti.
        rewrite (py_nth_0_base ts lv txt base Et (Hb eq_refl)) in Eopen.
        rewrite andb_false_r in Eopen. discriminate Eopen. }
      apply bind_ext2; [apply collect_struct_stable; lia|]. intros [ds i] Hcs.
      apply collect_struct_spec in Hcs. change (len (@nil ztok)) with 0 in Hcs.
      destruct Hcs as (Hi0 & Hi1 & Hlen).
      apply bind_ext2.
      { destruct (str_eqb (last_text ds) t_rbrace); [|reflexivity].
        apply check_dict_end_stable; lia. }
      intros _ _.
      apply bind_ext2.
      { destruct (str_eqb (first_text ds) t_lpar).
        - destruct (Nat.ltb (length ds) 3); [reflexivity|].
          apply bind_ext2; [|reflexivity].
          apply IHl; [lia|intros _; apply Z.ltb_irrefl|lia|lia].
        - destruct (str_eqb (first_text ds) t_lbrace); [|reflexivity].
          apply bind_ext2; [|reflexivity].
          assert (Hne : ds <> []) by (intros ->; unfold len in Hlen; cbn [length] in Hlen; lia).
          pose proof (inner_length ds Hne) as Hin.
          assert (0 <= len (inner ds)) by (unfold len; lia).
          apply IHd; lia. }
      intros acc' _.
      destruct (0 <? i); apply IHl; try lia; intros; lia.
    + destruct (negb (str_eqb txt t_lpar) && negb (str_eqb txt t_rpar) && negb (str_eqb txt t_semi)).
      * apply bind_ext2; [reflexivity|]. intros v _.
        apply IHl; try lia; intros; lia.
      * apply IHl; try lia; intros; lia.
Qed.

(* every fuel from 3 * length + 3 on -- in particular the model's 4 * length + 8 and anything larger -- gives the
   same result: the fuel is a pure artefact of the model *)
Theorem parse_tokens_fuel_irrelevant : forall ts f,
  (3 * length ts + 3 <= f)%nat -> parse_dict_go f (levels ts) 0 [] = parse_tokens ts.
Proof.
  intros ts f Hf. unfold parse_tokens.
  pose proof (levels_length ts) as Hl.
  apply (proj1 (parse_go_stable f)); unfold len; lia.
Qed.

(* ================================================================================================
   _insert_string_literals: `while key := find_global_key(placeholder)` -- loops for ever when the inserted
   value itself contains the placeholder searched for.  Otherwise every round removes one matching leaf. *)
Lemma child_nofuel t k : nofuel (child t k).
Proof.
  destruct t as [x|kvs|ts]; cbn [child].
  - apply nofuel_raise. unfold E_Key, E_Fuel. discriminate.
  - destruct (alookup k kvs); [apply nofuel_ok|apply nofuel_raise; unfold E_Key, E_Fuel; discriminate].
  - destruct k as [z|s]; [|apply nofuel_raise; unfold E_Key, E_Fuel; discriminate].
    destruct (norm_index z (length ts)) as [i|]; [|apply nofuel_index].
    destruct (nth_error ts i); [apply nofuel_ok|apply nofuel_index].
Qed.

Lemma set_child_nofuel t k v : nofuel (set_child t k v).
Proof.
  destruct t as [x|kvs|ts]; cbn [set_child].
  - apply nofuel_raise. unfold E_Key, E_Fuel. discriminate.
  - apply nofuel_ok.
  - destruct k as [z|s]; [|apply nofuel_raise; unfold E_Key, E_Fuel; discriminate].
    destruct (norm_index z (length ts)) as [i|]; [apply nofuel_ok|apply nofuel_index].
Qed.

Lemma set_at_step t k k2 p (v : tree) ii :
  set_at t (k :: k2 :: p) v ii =
  bind (child t k) (fun c =>
    if negb (is_container c) then Raise E_Key
    else if Nat.eqb (S ii) 10 then Raise E_Recursion
    else bind (set_at c (k2 :: p) v (S ii)) (fun c' => set_child t k c')).
Proof. reflexivity. Qed.

Lemma set_at_nofuel : forall p t v ii, nofuel (set_at t p v ii).
Proof.
  induction p as [|k p IH]; intros t v ii; [apply nofuel_ok|].
  destruct p as [|k2 p]; [cbn [set_at]; apply set_child_nofuel|].
  rewrite set_at_step. apply nofuel_bind; [apply child_nofuel|]. intros c _.
  destruct (negb (is_container c)); [apply nofuel_raise; unfold E_Key, E_Fuel; discriminate|].
  destruct (Nat.eqb (S ii) 10); [apply nofuel_raise; unfold E_Recursion, E_Fuel; discriminate|].
  apply nofuel_bind; [apply IH|]. intros c' _. apply set_child_nofuel.
Qed.

(* a path of more than ten keys makes set_global_key raise RecursionError (not: loop) *)
Lemma set_at_deep : forall p t v ii t',
  (ii <= 9)%nat -> (11 <= ii + length p)%nat -> set_at t p v ii <> Ok t'.
Proof.
  induction p as [|k p IH]; intros t v ii t' H9 H11; [cbn [length] in H11; lia|].
  destruct p as [|k2 p]; [cbn [length] in H11; lia|].
  rewrite set_at_step. destruct (child t k) as [c|e]; cbn [bind]; [|discriminate].
  destruct (negb (is_container c)); [discriminate|].
  destruct (Nat.eqb (S ii) 10) eqn:E10; [discriminate|].
  apply Nat.eqb_neq in E10.
  destruct (set_at c (k2 :: p) v (S ii)) as [c'|e] eqn:Es; cbn [bind]; [|discriminate].
  exfalso. apply (IH c v (S ii) c'); [lia|cbn [length] in *; lia|exact Es].
Qed.

Definition res_inv (r : res tree) : Prop :=
  match r with Ok t' => wf t' = true /\ is_container t' = true | Raise e => e <> E_Fuel end.

Lemma insert_literal_inv q v' : E2EInsert.Pq q v' = false ->
  forall fuel t, (E2EInsert.cntq q t < fuel)%nat -> is_container t = true -> wf t = true ->
  res_inv (insert_literal fuel q (Leaf v') t).
Proof.
  intros Hv. induction fuel as [|f IH]; intros t Hc Hcont Hwf; [lia|].
  cbn [insert_literal].
  destruct (find_key q t) as [p|] eqn:Ef.
  - destruct (E2EInsert.find_some_set q v' (E2EInsert.Pq q) (fun x H => H) Hv t p Hwf Ef)
      as [_ [(x & -> & _)|(Hne & _ & Hset)]]; [discriminate Hcont|].
    assert (Eg : find_global_key q t = Some p).
    { unfold find_global_key. destruct t as [x|kvs|ts]; [discriminate Hcont| |]; rewrite Ef;
        destruct p; [congruence|reflexivity|congruence|reflexivity]. }
    rewrite Eg. unfold set_global_key.
    destruct (set_at t p (Leaf v') 0) as [t'|e] eqn:Es; cbn [bind].
    + assert (Hl : (length p <= 10)%nat).
      { destruct (le_lt_dec (length p) 10) as [Hle|Hgt]; [exact Hle|].
        exfalso. apply (set_at_deep p t (Leaf v') 0%nat t'); [lia|lia|exact Es]. }
      destruct (Hset 0%nat ltac:(lia)) as (t'' & Et'' & Rt).
      rewrite Es in Et''. injection Et'' as <-.
      destruct (E2EInsert.R1_facts q v' (E2EInsert.Pq q) (fun x H => H) Hv t t' Rt) as (_ & I2 & I3 & I4 & _).
      apply IH; [lia|exact (I4 Hcont)|exact (I3 Hwf)].
    + cbn [res_inv]. pose proof (set_at_nofuel p t (Leaf v') 0%nat) as Hn. rewrite Es in Hn.
      intros ->. apply Hn. reflexivity.
  - assert (Eg : find_global_key q t = None).
    { unfold find_global_key. destruct t as [x|kvs|ts]; [reflexivity| |]; rewrite Ef; reflexivity. }
    rewrite Eg. cbn [res_inv]. split; assumption.
Qed.

(* the side condition: no registered literal evaluates to a value whose text contains the literal's OWN placeholder
   (other placeholders are harmless: the leaf is then simply replaced as a whole by that other literal) *)
Definition literal_ok (e : N * str) : Prop :=
  forall v, parse_value (snd e) = Ok v -> contains (placeholder w_STRINGLITERAL (fst e)) (py_str v) = false.

Definition kvs_inv (r : res (list (key * tree))) : Prop :=
  match r with Ok d => wf (Dict d) = true | Raise e => e <> E_Fuel end.

Lemma insert_string_literals_inv : forall lits r,
  Forall literal_ok lits -> kvs_inv r ->
  kvs_inv (fold_left (fun (acc : res (list (key * tree))) (e : N * str) =>
               bind acc (fun d =>
               bind (parse_value (snd e)) (fun v =>
               bind (insert_literal (S (count_leaves (Dict d))) (placeholder w_STRINGLITERAL (fst e)) (Leaf v) (Dict d))
                    (fun t => match t with Dict d' => Ok d' | _ => Ok d end)))) lits r).
Proof.
  induction lits as [|e lits IH]; intros r Hl Hr; [exact Hr|].
  inversion Hl as [|e0 l0 He Hl']; subst. cbn [fold_left]. apply IH; [exact Hl'|].
  destruct r as [d|err]; cbn [bind]; [|exact Hr]. cbn [kvs_inv] in Hr.
  destruct (parse_value (snd e)) as [v|err] eqn:Ev; cbn [bind].
  2:{ cbn [kvs_inv]. exfalso. exact (ScalarProofs.parse_value_total _ _ Ev). }
  pose proof (insert_literal_inv (placeholder w_STRINGLITERAL (fst e)) v (He v Ev)
                (S (count_leaves (Dict d))) (Dict d)) as Hi.
  pose proof (E2EInsert.cntq_le (placeholder w_STRINGLITERAL (fst e)) SNone (fun _ => true) (Dict d)) as Hle.
  specialize (Hi ltac:(lia) eq_refl Hr).
  destruct (insert_literal _ _ _ _) as [t|err]; cbn [bind res_inv kvs_inv] in *; [|exact Hi].
  destruct t as [x|d'|l]; [exact Hr|exact (proj1 Hi)|exact Hr].
Qed.

Lemma kvs_inv_nofuel r : kvs_inv r -> nofuel r.
Proof. destruct r as [d|e]; cbn [kvs_inv]; [intros _; apply nofuel_ok|apply nofuel_raise]. Qed.

Theorem insert_string_literals_terminates : forall lits d,
  wf (Dict d) = true -> Forall literal_ok lits -> insert_string_literals lits d <> Raise E_Fuel.
Proof.
  intros lits d Hwf Hl. apply kvs_inv_nofuel. unfold insert_string_literals.
  apply insert_string_literals_inv; [exact Hl|exact Hwf].
Qed.

Lemma insert_string_literals_wf : forall lits d d',
  wf (Dict d) = true -> Forall literal_ok lits -> insert_string_literals lits d = Ok d' -> wf (Dict d') = true.
Proof.
  intros lits d d' Hwf Hl H.
  pose proof (insert_string_literals_inv lits (Ok d) Hl Hwf) as Hi.
  unfold insert_string_literals in H. rewrite H in Hi. exact Hi.
Qed.

(* ================================================================================================
   parse_string: the parsed dict is a Python dict (unique keys at every level), also after _clean; so the
   literal insertion runs on a well-formed tree. *)
Lemma bind_ok {A B} (r : res A) (k : A -> res B) b :
  bind r k = Ok b -> exists a, r = Ok a /\ k a = Ok b.
Proof. destruct r as [a|e]; cbn [bind]; intros H; [exists a; split; [reflexivity|exact H]|discriminate H]. Qed.

Lemma forallb_rev {A} (g : A -> bool) (l : list A) : forallb g (rev l) = forallb g l.
Proof.
  induction l as [|x l IH]; [reflexivity|]. cbn [rev forallb]. rewrite forallb_app, IH. cbn [forallb].
  rewrite andb_true_r. apply andb_comm.
Qed.

Lemma wf_lst_cons c l : wf (Lst (c :: l)) = wf c && wf (Lst l).
Proof. rewrite !KeyPathProofs.wf_lst. reflexivity. Qed.

Lemma parse_go_wf : forall f,
  (forall (ts : list ztok) ti acc r,
      wf (Dict acc) = true -> parse_dict_go f ts ti acc = Ok r -> wf (Dict r) = true) /\
  (forall (ts : list ztok) ti base acc r,
      wf (Lst acc) = true -> parse_list_go f ts ti base acc = Ok r -> wf (Lst r) = true).
Proof.
  induction f as [|f [IHd IHl]]; [split; intros; discriminate|].
  split.
  - intros ts ti acc r Hacc H. rewrite TokProofs.parse_dict_go_S in H.
    destruct (py_nth ts ti) as [[lv txt]|]; [|injection H as <-; exact Hacc].
    destruct (ti <? 0); [injection H as <-; exact Hacc|].
    destruct (is_open txt).
    + apply bind_ok in H. destruct H as (kidx & _ & H).
      destruct (py_nth ts kidx) as [[klv ktxt]|]; [|discriminate H].
      apply bind_ok in H. destruct H as (k & _ & H).
      apply bind_ok in H. destruct H as ([ds i] & _ & H).
      apply bind_ok in H. destruct H as (u1 & _ & H).
      apply bind_ok in H. destruct H as (u2 & _ & H).
      apply bind_ok in H. destruct H as (acc' & Hacc' & H).
      refine (IHd ts _ acc' r _ H).
      destruct (str_eqb (first_text ds) t_lpar).
      * destruct (Nat.ltb (length ds) 3).
        -- injection Hacc' as <-. apply SDictProofs.aset_wf; [reflexivity|exact Hacc].
        -- apply bind_ok in Hacc'. destruct Hacc' as (l & Hl & Hacc'). injection Hacc' as <-.
           apply SDictProofs.aset_wf; [|exact Hacc]. exact (IHl _ _ _ [] _ eq_refl Hl).
      * destruct (str_eqb (first_text ds) t_lbrace).
        -- apply bind_ok in Hacc'. destruct Hacc' as (d & Hd & Hacc'). injection Hacc' as <-.
           apply SDictProofs.aset_wf; [|exact Hacc]. exact (IHd _ _ [] _ eq_refl Hd).
        -- injection Hacc' as <-. exact Hacc.
    + destruct (str_eqb txt t_semi && _).
      * destruct (py_nth ts (ti - 1)); [|discriminate H].
        destruct (kv_back f ts ti 1 lv [(lv, txt)]) as [|[l1 ktxt] [|[l2 vtxt] [|x3 [|x4 rr]]]];
          try exact (IHd _ _ _ _ Hacc H).
        apply bind_ok in H. destruct H as (k & _ & H).
        apply bind_ok in H. destruct H as (v & _ & H).
        refine (IHd _ _ _ _ _ H). apply SDictProofs.aset_wf; [reflexivity|exact Hacc].
      * destruct (is_comment_tok txt || is_include_tok txt); [|exact (IHd _ _ _ _ Hacc H)].
        refine (IHd _ _ _ _ _ H). apply SDictProofs.aset_wf; [reflexivity|exact Hacc].
  - intros ts ti base acc r Hacc H. rewrite TokProofs.parse_list_go_S in H.
    assert (Hrev : wf (Lst (rev acc)) = true).
    { rewrite KeyPathProofs.wf_lst, forallb_rev, <- KeyPathProofs.wf_lst. exact Hacc. }
    destruct (py_nth ts ti) as [[lv txt]|]; [|injection H as <-; exact Hrev].
    destruct (ti <? 0); [injection H as <-; exact Hrev|].
    destruct (is_open txt && (base <? lv)).
    + apply bind_ok in H. destruct H as ([ds i] & _ & H).
      apply bind_ok in H. destruct H as (u2 & _ & H).
      apply bind_ok in H. destruct H as (acc' & Hacc' & H).
      refine (IHl ts _ base acc' r _ H).
      destruct (str_eqb (first_text ds) t_lpar).
      * destruct (Nat.ltb (length ds) 3).
        -- injection Hacc' as <-. rewrite wf_lst_cons, Hacc. reflexivity.
        -- apply bind_ok in Hacc'. destruct Hacc' as (l & Hl & Hacc'). injection Hacc' as <-.
           rewrite wf_lst_cons, Hacc, (IHl _ _ _ [] _ eq_refl Hl). reflexivity.
      * destruct (str_eqb (first_text ds) t_lbrace).
        -- apply bind_ok in Hacc'. destruct Hacc' as (d & Hd & Hacc'). injection Hacc' as <-.
           rewrite wf_lst_cons, Hacc, (IHd _ _ [] _ eq_refl Hd). reflexivity.
        -- injection Hacc' as <-. exact Hacc.
    + destruct (negb (str_eqb txt t_lpar) && negb (str_eqb txt t_rpar) && negb (str_eqb txt t_semi)).
      * apply bind_ok in H. destruct H as (v & _ & H).
        refine (IHl _ _ _ _ _ _ H). rewrite wf_lst_cons, Hacc. reflexivity.
      * exact (IHl _ _ _ _ _ Hacc H).
Qed.

Lemma parse_tokens_wf ts d : parse_tokens ts = Ok d -> wf (Dict d) = true.
Proof. unfold parse_tokens. intros H. exact (proj1 (parse_go_wf _) _ _ [] _ eq_refl H). Qed.

(* _clean only deletes entries and re-sets cleaned sub-dicts *)
Lemma clean_kind_wf {V} (veqb : V -> V -> bool) : forall keys data tab seen,
  wf (Dict data) = true -> wf (Dict (fst (clean_kind veqb keys data tab seen))) = true.
Proof.
  induction keys as [|k keys IH]; intros data tab seen Hwf; [exact Hwf|].
  cbn [clean_kind]. destruct (key_id k) as [i|]; [|apply IH; exact Hwf].
  destruct (tlookup i tab) as [v|]; [|apply IH; exact Hwf].
  destruct (existsb (veqb v) seen); apply IH; [apply SDictProofs.adel_wf|]; exact Hwf.
Qed.

Lemma clean_level_wf data s : wf (Dict data) = true -> wf (Dict (fst (clean_level data s))) = true.
Proof.
  intros Hwf. unfold clean_level.
  pose proof (clean_kind_wf str_eqb (keys_of_kind PhBlock data) data (sd_bc s) [] Hwf) as H1.
  destruct (clean_kind str_eqb (keys_of_kind PhBlock data) data (sd_bc s) []) as [d1 bc]. cbn [fst] in H1.
  pose proof (clean_kind_wf inc_eqb (keys_of_kind PhInclude data) d1 (sd_inc s) [] H1) as H2.
  destruct (clean_kind inc_eqb (keys_of_kind PhInclude data) d1 (sd_inc s) []) as [d2 inc]. cbn [fst] in H2.
  pose proof (clean_kind_wf str_eqb (keys_of_kind PhLine data) d2 (sd_lc s) [] H2) as H3.
  destruct (clean_kind str_eqb (keys_of_kind PhLine data) d2 (sd_lc s) []) as [d3 lc]. cbn [fst] in *.
  exact H3.
Qed.

Lemma clean_tree_wf : forall fuel data s, wf (Dict data) = true -> wf (Dict (fst (clean_tree fuel data s))) = true.
Proof.
  induction fuel as [|f IH]; intros data s Hwf; [exact Hwf|].
  cbn [clean_tree].
  pose proof (clean_level_wf data s Hwf) as Hd.
  destruct (clean_level data s) as [d s1]. cbn [fst] in Hd.
  assert (Hch : forall kv, In kv d -> wf (snd kv) = true).
  { intros [k c] Hin. exact (KeyPathProofs.wf_dict_child d k c Hd Hin). }
  assert (Hgen : forall l (acc : list (key * tree) * sdict),
             (forall kv, In kv l -> wf (snd kv) = true) -> wf (Dict (fst acc)) = true ->
             wf (Dict (fst (fold_left (fun (acc : list (key * tree) * sdict) (kv : key * tree) =>
                   let '(dacc, sacc) := acc in
                   match snd kv with
                   | Dict sub => let '(sub', s') := clean_tree f sub sacc in
                                 (aset (fst kv) (Dict sub') dacc, s')
                   | _ => acc
                   end) l acc))) = true).
  { induction l as [|kv l IHl]; intros acc Hl Hacc; [exact Hacc|].
    cbn [fold_left]. apply IHl; [intros kv' Hin; apply Hl; right; exact Hin|].
    destruct acc as [dacc sacc]. cbn [fst] in Hacc.
    pose proof (Hl kv (or_introl eq_refl)) as Hkv.
    destruct (snd kv) as [x|sub|ll]; [exact Hacc| |exact Hacc].
    pose proof (IH sub sacc Hkv) as Hsub.
    destruct (clean_tree f sub sacc) as [sub' s']. cbn [fst] in *.
    apply SDictProofs.aset_wf; assumption. }
  apply Hgen; [exact Hch|exact Hd].
Qed.

Lemma sd_clean_wf s : wf (Dict (sd_data s)) = true -> wf (Dict (sd_data (sd_clean s))) = true.
Proof.
  intros Hwf. unfold sd_clean.
  pose proof (clean_tree_wf (S (depth (Dict (sd_data s)))) (sd_data s) s Hwf) as H.
  destruct (clean_tree (S (depth (Dict (sd_data s)))) (sd_data s) s) as [d s']. exact H.
Qed.

Theorem parse_string_terminates : forall com dir count text,
  Forall literal_ok (lxd_lit (lex com dir count text)) ->
  parse_string com dir count text <> Raise E_Fuel.
Proof.
  intros com dir count text Hl. unfold parse_string.
  change (nofuel (bind (parse_tokens (lxd_tokens (lex com dir count text))) (fun d0 =>
    let s0 := sd_clean (mkSD d0 (lxd_lc (lex com dir count text)) (lxd_bc (lex com dir count text))
                              (lxd_inc (lex com dir count text)) (lxd_expr (lex com dir count text))) in
    bind (insert_string_literals (lxd_lit (lex com dir count text)) (sd_data s0)) (fun d1 =>
    let s1 := mkSD (parser_clean d1) (sd_lc s0) (sd_bc s0) (sd_inc s0) (sd_expr s0) in
    Ok (mkParsed (sd_clean s1) (lxd_count (lex com dir count text))))))).
  apply nofuel_bind; [apply parse_tokens_terminates|]. intros d0 Hd0. cbv zeta.
  apply nofuel_bind; [|intros; apply nofuel_ok].
  apply insert_string_literals_terminates; [|exact Hl].
  apply sd_clean_wf. cbn [sd_data]. exact (parse_tokens_wf _ _ Hd0).
Qed.

(* sufficient: no registered literal contains the word STRINGLITERAL at all *)
Lemma contains_tl (p : str) c s : contains p s = true -> contains p (c :: s) = true.
Proof. intros H. cbn [contains]. rewrite H. apply orb_true_r. Qed.

Lemma starts_with_app_r (p s b : str) : starts_with p s = true -> starts_with p (s ++ b) = true.
Proof.
  revert s. induction p as [|x p IH]; intros s H; [reflexivity|].
  destruct s as [|y s]; [discriminate H|]. cbn [app starts_with] in *.
  apply andb_true_iff in H. destruct H as [H1 H2]. rewrite H1, (IH s H2). reflexivity.
Qed.

Lemma contains_app_r (p s b : str) : p <> [] -> contains p s = true -> contains p (s ++ b) = true.
Proof.
  intros Hp. induction s as [|c s IH]; intros H.
  - cbn [contains] in H. destruct p; [congruence|discriminate H].
  - cbn [app contains] in *. apply orb_true_iff in H. destruct H as [H|H].
    + change (c :: s ++ b) with ((c :: s) ++ b). rewrite (starts_with_app_r p (c :: s) b H). reflexivity.
    + rewrite (IH H). apply orb_true_r.
Qed.

Lemma contains_rev_tl (p : str) c t : p <> [] -> contains p (rev t) = true -> contains p (rev (c :: t)) = true.
Proof. intros Hp H. cbn [rev]. apply contains_app_r; assumption. Qed.

Lemma contains_strip_lead p s : contains p (strip_lead_quote s) = true -> contains p s = true.
Proof.
  unfold strip_lead_quote. destruct s as [|c r]; [intros H; exact H|].
  destruct (is_quote c); [apply contains_tl|intros H; exact H].
Qed.

Lemma starts_with_snoc_notin c : forall (p y : str),
  ~ In c p -> starts_with p (y ++ [c]) = true -> starts_with p y = true.
Proof.
  induction p as [|z p IH]; intros y Hn H; [reflexivity|].
  destruct y as [|b y]; cbn [app starts_with] in *.
  - apply andb_true_iff in H. destruct H as [H _]. apply N.eqb_eq in H. subst z. exfalso. apply Hn. left. reflexivity.
  - apply andb_true_iff in H. destruct H as [H1 H2]. rewrite H1. cbn [andb].
    apply IH; [intros Hin; apply Hn; right; exact Hin|exact H2].
Qed.

Lemma contains_snoc_notin c (p : str) : p <> [] -> ~ In c p ->
  forall x, contains p (x ++ [c]) = true -> contains p x = true.
Proof.
  intros Hp Hn. induction x as [|a x IH]; intros H.
  - exfalso. cbn [app contains] in H. destruct p as [|z p]; [congruence|].
    cbn [starts_with] in H. rewrite orb_false_r in H. apply andb_true_iff in H. destruct H as [H _].
    apply N.eqb_eq in H. subst z. apply Hn. left. reflexivity.
  - cbn [app contains] in *. apply orb_true_iff in H. destruct H as [H|H].
    + change (a :: x ++ [c]) with ((a :: x) ++ [c]) in H. rewrite (starts_with_snoc_notin c p (a :: x) Hn H). reflexivity.
    + rewrite (IH H). apply orb_true_r.
Qed.

Lemma contains_strip_trail p s : p <> [] -> ~ In c_lf p ->
  contains p (strip_trail_quote s) = true -> contains p s = true.
Proof.
  intros Hp Hlf. unfold strip_trail_quote.
  remember (rev s) as r eqn:Er.
  assert (Es : s = rev r) by (subst r; rewrite rev_involutive; reflexivity).
  clear Er. subst s. destruct r as [|c t]; [intros H; exact H|].
  destruct (is_quote c); [apply contains_rev_tl; exact Hp|].
  destruct (c =? c_lf)%N eqn:Elf; [|intros H; exact H].
  destruct t as [|q t']; [intros H; exact H|].
  destruct (is_quote q); [|intros H; exact H].
  apply N.eqb_eq in Elf. subst c. cbn [rev]. intros H.
  apply contains_app_r; [exact Hp|]. apply contains_app_r; [exact Hp|].
  exact (contains_snoc_notin c_lf p Hp Hlf (rev t') H).
Qed.

Lemma W_nonempty : w_STRINGLITERAL <> [].
Proof. discriminate. Qed.
Lemma W_no_lf : ~ In c_lf w_STRINGLITERAL.
Proof.
  intros Hin. assert (H : has_char c_lf w_STRINGLITERAL = true).
  { unfold has_char. apply existsb_exists. exists c_lf. split; [exact Hin|apply N.eqb_refl]. }
  vm_compute in H. discriminate H.
Qed.

Lemma contains_W_remove_quotes s :
  contains w_STRINGLITERAL (remove_quotes s) = true -> contains w_STRINGLITERAL s = true.
Proof.
  unfold remove_quotes. intros H. apply contains_strip_lead.
  exact (contains_strip_trail _ _ W_nonempty W_no_lf H).
Qed.

Lemma W_not_in_int z : contains w_STRINGLITERAL (Z_to_dec z) = false.
Proof.
  change w_STRINGLITERAL with (83%N :: tl w_STRINGLITERAL).
  apply FlatDataProofs.contains_no_head.
  apply FlatDataProofs.Z_to_dec_no_char; [reflexivity|discriminate].
Qed.

Lemma parse_value_contains_W s v :
  parse_value s = Ok v -> contains w_STRINGLITERAL (py_str v) = true -> contains w_STRINGLITERAL s = true.
Proof.
  unfold parse_value. intros H Hc.
  destruct (negb (nonempty (remove_quotes s))); [injection H as <-; vm_compute in Hc; discriminate Hc|].
  destruct (str_eqb s [c_minus] || str_eqb s [c_us] || str_eqb s [c_dot]); [injection H as <-; exact Hc|].
  destruct (re_int s).
  { destruct (py_int_ok s); [|discriminate H]. injection H as <-. cbn [py_str] in Hc.
    rewrite W_not_in_int in Hc. discriminate Hc. }
  destruct (re_float2 s).
  { destruct (py_float_ok s); [|discriminate H]. injection H as <-. exact Hc. }
  destruct (re_float3 s).
  { destruct (py_float_ok s); [|discriminate H]. injection H as <-. exact Hc. }
  cbv zeta in H.
  repeat match type of H with
         | (if ?c then _ else _) = _ => destruct c; [injection H as <-; vm_compute in Hc; discriminate Hc|]
         end.
  injection H as <-. cbn [py_str] in Hc. apply contains_W_remove_quotes. exact Hc.
Qed.

Lemma literal_ok_no_word e : contains w_STRINGLITERAL (snd e) = false -> literal_ok e.
Proof.
  intros H v Hv. destruct (contains (placeholder w_STRINGLITERAL (fst e)) (py_str v)) eqn:E; [|reflexivity].
  unfold placeholder in E. apply E2EInsert.contains_prefix in E.
  rewrite (parse_value_contains_W _ _ Hv E) in H. discriminate H.
Qed.

Corollary insert_string_literals_terminates_no_word : forall lits d,
  wf (Dict d) = true -> Forall (fun e => contains w_STRINGLITERAL (snd e) = false) lits ->
  insert_string_literals lits d <> Raise E_Fuel.
Proof.
  intros lits d Hwf Hl. apply insert_string_literals_terminates; [exact Hwf|].
  eapply Forall_impl; [|exact Hl]. intros e He. apply literal_ok_no_word. exact He.
Qed.

(* decidable form of the side condition (parse_value is total) *)
Definition literal_okb (e : N * str) : bool :=
  match parse_value (snd e) with
  | Ok v => negb (contains (placeholder w_STRINGLITERAL (fst e)) (py_str v))
  | Raise _ => true
  end.
Lemma literal_okb_ok e : literal_okb e = true -> literal_ok e.
Proof.
  unfold literal_okb, literal_ok. intros H v Hv. rewrite Hv in H. apply negb_true_iff in H. exact H.
Qed.
Lemma literals_okb_ok lits : forallb literal_okb lits = true -> Forall literal_ok lits.
Proof.
  intros H. apply Forall_forall. intros e Hin. apply literal_okb_ok.
  rewrite forallb_forall in H. exact (H e Hin).
Qed.

(* ================================================================================================
   The fuelled scanners of the lexer: each round consumes at least one character (or one dollar sign), so
   the fuel S (length text) is never exhausted: every larger fuel gives the same result. *)
Local Open Scope nat_scope.

Lemma take_until_close_length : forall s acc cmt rest,
  take_until_close acc s = Some (cmt, rest) -> length rest + 2 <= length s.
Proof.
  induction s as [|a s IH]; intros acc cmt rest H; [discriminate H|].
  destruct s as [|b r]; [discriminate H|].
  cbn [take_until_close] in H.
  destruct ((a =? c_star)%N && (b =? c_slash)%N).
  - injection H as _ <-. cbn [length]. lia.
  - apply IH in H. cbn [length] in *. lia.
Qed.

Lemma find_block_comments_stable : forall f g s,
  length s < f -> length s < g -> find_block_comments f s = find_block_comments g s.
Proof.
  induction f as [|f IH]; intros [|g] s Hf Hg; try lia.
  cbn [find_block_comments].
  destruct s as [|a [|b r]]; [reflexivity|reflexivity|].
  cbn [length] in Hf, Hg.
  destruct ((a =? c_slash)%N && (b =? c_star)%N).
  - destruct (take_until_close [b; a] r) as [[cmt rest]|] eqn:Et.
    + apply take_until_close_length in Et. f_equal. apply IH; lia.
    + apply IH; cbn [length]; lia.
  - apply IH; cbn [length]; lia.
Qed.

Lemma drop_n_length {A} : forall n (l : list A), length (drop_n n l) <= length l.
Proof.
  induction n as [|n IH]; intros l; [cbn [drop_n]; lia|].
  destruct l as [|x l]; cbn [drop_n length]; [lia|]. specialize (IH l). lia.
Qed.

Lemma drop_n_length_lt {A} n (l : list A) : 1 <= n -> l <> [] -> length (drop_n n l) < length l.
Proof.
  intros Hn Hl. destruct n as [|n]; [lia|]. destruct l as [|x l]; [congruence|].
  cbn [drop_n length]. pose proof (drop_n_length n l). lia.
Qed.

Lemma until_closer_length op : forall s acc body rest,
  until_closer op acc s = Some (body, rest) -> length rest <= length s.
Proof.
  induction s as [|c s IH]; intros acc body rest H; [discriminate H|].
  cbn [until_closer] in H.
  destruct (starts_with op (c :: s)).
  - injection H as _ <-. apply drop_n_length.
  - apply IH in H. cbn [length]. lia.
Qed.

Lemma opener_at_length q prev s op : opener_at q prev s = Some op -> 1 <= length op.
Proof.
  unfold opener_at. destruct prev; [discriminate|].
  destruct (drop_n (count_bsl s) s) as [|c r]; [discriminate|].
  destruct (_ && _); [|discriminate].
  intros H. injection H as <-. rewrite app_length. cbn [length]. lia.
Qed.

Lemma quoted_at_length q prev s lit rest :
  s <> [] -> quoted_at q prev s = Some (lit, rest) -> length rest < length s.
Proof.
  intros Hs. unfold quoted_at.
  destruct (opener_at q prev s) as [op|] eqn:Eo; [|discriminate].
  apply opener_at_length in Eo.
  destruct (until_closer op [] (drop_n (length op) s)) as [[body rest']|] eqn:Eu; [|discriminate].
  intros H. injection H as _ <-.
  apply until_closer_length in Eu.
  pose proof (drop_n_length_lt (length op) s Eo Hs). lia.
Qed.

Lemma scan_literals_stable : forall f g prev count out tab s,
  length s < f -> length s < g ->
  scan_literals f prev count out tab s = scan_literals g prev count out tab s.
Proof.
  induction f as [|f IH]; intros [|g] prev count out tab s Hf Hg; try lia.
  cbn [scan_literals].
  destruct s as [|c s']; [reflexivity|].
  assert (Hne : c :: s' <> []) by discriminate.
  destruct (quoted_at c_sq prev (c :: s')) as [[lit rest]|] eqn:E1.
  - apply (quoted_at_length _ _ _ _ _ Hne) in E1. apply IH; lia.
  - destruct (quoted_at c_dq prev (c :: s')) as [[lit rest]|] eqn:E2.
    + apply (quoted_at_length _ _ _ _ _ Hne) in E2.
      destruct (has_char c_dollar lit); apply IH; lia.
    + cbn [length] in Hf, Hg. apply IH; lia.
Qed.

Lemma expr_from_quote_length : forall s acc seen e rest,
  expr_from_quote acc seen s = Some (e, rest) -> length rest < length s.
Proof.
  induction s as [|c s IH]; intros acc seen e rest H; [discriminate H|].
  cbn [expr_from_quote] in H.
  destruct (c =? c_dq)%N.
  - destruct seen; [|discriminate H]. injection H as _ <-. cbn [length]. lia.
  - apply IH in H. cbn [length]. lia.
Qed.

Lemma find_expressions_stable : forall f g s,
  length s < f -> length s < g -> find_expressions f s = find_expressions g s.
Proof.
  induction f as [|f IH]; intros [|g] s Hf Hg; try lia.
  cbn [find_expressions].
  destruct s as [|c s']; [reflexivity|]. cbn [length] in Hf, Hg.
  destruct (c =? c_dq)%N.
  - destruct (expr_from_quote [c] false s') as [[e rest]|] eqn:Ee.
    + apply expr_from_quote_length in Ee. f_equal. apply IH; lia.
    + apply IH; lia.
  - apply IH; lia.
Qed.

(* extract_references: every round replaces one reference (which starts with a dollar sign and contains no other)
   by a placeholder without dollar signs *)
Definition dollars (s : str) : nat := length (filter (N.eqb c_dollar) s).

Lemma dollars_app a b : dollars (a ++ b) = dollars a + dollars b.
Proof. unfold dollars. rewrite filter_app, app_length. reflexivity. Qed.

Lemma dollars_cons c s : dollars (c :: s) = (if (c_dollar =? c)%N then 1 else 0) + dollars s.
Proof. unfold dollars. cbn [filter]. destruct (c_dollar =? c)%N; reflexivity. Qed.

Lemma dollars_rev s : dollars (rev s) = dollars s.
Proof.
  induction s as [|c s IH]; [reflexivity|]. cbn [rev]. rewrite dollars_app, IH, !dollars_cons.
  unfold dollars at 2. cbn [filter length]. lia.
Qed.

Lemma dollars_le s : dollars s <= length s.
Proof. induction s as [|c s IH]; [unfold dollars; cbn [filter length]; lia|]. rewrite dollars_cons. cbn [length]. destruct (c_dollar =? c)%N; lia. Qed.

Lemma span_dollars p : forall s a b, span p s = (a, b) -> dollars b <= dollars s.
Proof.
  induction s as [|c s IH]; intros a b H; cbn [span] in H.
  - injection H as _ <-. lia.
  - destruct (p c).
    + destruct (span p s) as [a' b'] eqn:E. injection H as _ <-.
      specialize (IH a' b' eq_refl). rewrite dollars_cons. lia.
    + injection H as _ <-. lia.
Qed.

Lemma find_reference_dollars : forall s acc before ref after,
  find_reference acc s = Some (before, ref, after) ->
  dollars before + dollars after + 1 <= dollars acc + dollars s.
Proof.
  induction s as [|d s IH]; intros acc before ref after H; [discriminate H|].
  destruct s as [|w r]; [discriminate H|].
  cbn [find_reference] in H.
  destruct ((d =? c_dollar)%N && is_word w) eqn:Ec.
  - destruct (span is_ref_char r) as [tl rest] eqn:Es.
    injection H as <- _ <-.
    apply span_dollars in Es.
    apply andb_true_iff in Ec. destruct Ec as [Ed _]. apply N.eqb_eq in Ed. subst d.
    rewrite dollars_rev, !dollars_cons. rewrite N.eqb_refl. lia.
  - apply IH in H. rewrite !dollars_cons in *. lia.
Qed.

Lemma digits_no_dollar s : forallb is_digit s = true -> dollars s = 0.
Proof.
  induction s as [|c s IH]; intros H; [reflexivity|].
  cbn [forallb] in H. apply andb_true_iff in H. destruct H as [Hc Hs].
  rewrite dollars_cons, (IH Hs).
  destruct (c_dollar =? c)%N eqn:E; [|reflexivity].
  apply N.eqb_eq in E. subst c. vm_compute in Hc. discriminate Hc.
Qed.

Lemma placeholder_no_dollar k : dollars (placeholder w_EXPRESSION k) = 0.
Proof.
  unfold placeholder. rewrite dollars_app, (digits_no_dollar _ (E2EHoles.pad6_digits k)). reflexivity.
Qed.

Lemma extract_references_stable : forall f g count text tab,
  dollars text < f -> dollars text < g ->
  extract_references f count text tab = extract_references g count text tab.
Proof.
  induction f as [|f IH]; intros [|g] count text tab Hf Hg; try lia.
  cbn [extract_references].
  destruct (find_reference [] text) as [[[before ref] after]|] eqn:Er; [|reflexivity].
  apply find_reference_dollars in Er. change (dollars []) with 0 in Er.
  apply IH; rewrite !dollars_app, placeholder_no_dollar; lia.
Qed.

Theorem lexer_fuel_adequate : forall f,
  (forall s, S (length s) <= f -> find_block_comments f s = find_block_comments (S (length s)) s) /\
  (forall count s, S (length s) <= f -> scan_literals f false count [] [] s = extract_string_literals count s) /\
  (forall s, S (length s) <= f -> find_expressions f s = find_expressions (S (length s)) s) /\
  (forall count t tab, S (length t) <= f ->
     extract_references f count t tab = extract_references (S (length t)) count t tab).
Proof.
  intros f. repeat split.
  - intros s Hf. apply find_block_comments_stable; lia.
  - intros count s Hf. unfold extract_string_literals. apply scan_literals_stable; lia.
  - intros s Hf. apply find_expressions_stable; lia.
  - intros count t tab Hf. pose proof (dollars_le t). apply extract_references_stable; lia.
Qed.

(* ---- _recursive_clean (used by parse_string through sd_clean): the fuel S (depth) is adequate ---------------- *)
Lemma clean_kind_incl {V} (veqb : V -> V -> bool) : forall keys data tab seen kv,
  In kv (fst (clean_kind veqb keys data tab seen)) -> In kv data.
Proof.
  induction keys as [|k keys IH]; intros data tab seen kv H; [exact H|].
  cbn [clean_kind] in H. destruct (key_id k) as [i|]; [|exact (IH _ _ _ _ H)].
  destruct (tlookup i tab) as [v|]; [|exact (IH _ _ _ _ H)].
  destruct (existsb (veqb v) seen); [|exact (IH _ _ _ _ H)].
  apply IH in H. exact (SDictProofs.adel_incl _ _ _ H).
Qed.

Lemma clean_level_incl data s kv : In kv (fst (clean_level data s)) -> In kv data.
Proof.
  unfold clean_level.
  pose proof (clean_kind_incl str_eqb (keys_of_kind PhBlock data) data (sd_bc s) [] kv) as H1.
  destruct (clean_kind str_eqb (keys_of_kind PhBlock data) data (sd_bc s) []) as [d1 bc]. cbn [fst] in H1.
  pose proof (clean_kind_incl inc_eqb (keys_of_kind PhInclude data) d1 (sd_inc s) [] kv) as H2.
  destruct (clean_kind inc_eqb (keys_of_kind PhInclude data) d1 (sd_inc s) []) as [d2 inc]. cbn [fst] in H2.
  pose proof (clean_kind_incl str_eqb (keys_of_kind PhLine data) d2 (sd_lc s) [] kv) as H3.
  destruct (clean_kind str_eqb (keys_of_kind PhLine data) d2 (sd_lc s) []) as [d3 lc]. cbn [fst] in *.
  intros H. exact (H1 (H2 (H3 H))).
Qed.

Lemma clean_tree_stable : forall f g data s,
  depth (Dict data) <= f -> depth (Dict data) <= g -> clean_tree f data s = clean_tree g data s.
Proof.
  induction f as [|f IH]; intros [|g] data s Hf Hg; try (cbn [depth] in Hf, Hg; lia).
  cbn [clean_tree].
  pose proof (clean_level_incl data s) as Hincl.
  destruct (clean_level data s) as [d s1]. cbn [fst] in Hincl.
  apply SDictProofs.fold_left_ext_in. intros [dacc sacc] kv Hin.
  pose proof (SDictProofs.depth_child data kv (Hincl kv Hin)) as Hc.
  cbn [depth] in Hf, Hg.
  destruct (snd kv) as [x|sub|l]; [reflexivity| |reflexivity].
  rewrite (IH g sub sacc); [reflexivity|lia|lia].
Qed.

Theorem clean_fuel_adequate : forall f data s,
  S (depth (Dict data)) <= f -> clean_tree f data s = clean_tree (S (depth (Dict data))) data s.
Proof. intros f data s Hf. apply clean_tree_stable; lia. Qed.
