(* Proofs for C05 (expressions): the substitute-and-evaluate loop of DictReader._eval_expressions. *)
From Coq Require Import String.
From Coq Require Import NArith ZArith List Bool Lia.
From DictIO Require Import Chars Str Value Scalar KeyPath SDict Layout Lexer TokParser Reader Expr Eval
     MiscSpec EvalSpec FlatSpec ScalarProofs KeyPathProofs SDictProofs SemProofs ArithProofs TextProofs FlatDataProofs.
Import ListNotations.

(* ================================================================================================ *)
(* insert_result (the repaired re-insertion loop) and insert_literal                                *)
(* ================================================================================================ *)
Lemma insert_result_S : forall f ph v d,
  insert_result (S f) ph v d =
  match find_global_key ph d with
  | Some p => bind (set_global_key d p v) (fun d' => if contains ph (py_str_tree v) then Ok d' else insert_result f ph v d')
  | None => Ok d
  end.
Proof. reflexivity. Qed.

(* a value that does not spell the placeholder: the repaired loop is the old one *)
Lemma insert_result_literal : forall fuel ph v d, contains ph (py_str_tree v) = false ->
  insert_result fuel ph v d = insert_literal fuel ph v d.
Proof.
  induction fuel as [|f IH]; intros ph v d H; [reflexivity|].
  rewrite insert_result_S. cbn [insert_literal]. destruct (find_global_key ph d) as [p|]; [|reflexivity].
  destruct (set_global_key d p v) as [d'|e]; cbn [bind]; [|reflexivity]. rewrite H. apply IH. exact H.
Qed.

(* on flat data the placeholder leaf is overwritten, whether or not the inserted text spells the placeholder *)
Lemma insert_result_flat : forall (l1 l2 : list (key * tree)) (k : key) (ph : str) (sv : scalar),
  NoDup (map fst (l1 ++ (k, Leaf (SStr ph)) :: l2)) ->
  Forall (flat_leaf_free ph) (l1 ++ l2) ->
  insert_result (S (count_leaves (Dict (l1 ++ (k, Leaf (SStr ph)) :: l2)))) ph (Leaf sv)
                (Dict (l1 ++ (k, Leaf (SStr ph)) :: l2))
  = Ok (Dict (l1 ++ (k, Leaf sv) :: l2)).
Proof.
  intros l1 l2 k ph sv Hnd Hf.
  destruct (contains ph (py_str_tree (Leaf sv))) eqn:Ec.
  - rewrite insert_result_S.
    assert (Hfind : find_global_key ph (Dict (l1 ++ (k, Leaf (SStr ph)) :: l2)) = Some [k]).
    { unfold find_global_key. rewrite (find_key_dict_one ph l1 l2 k Hf). reflexivity. }
    rewrite Hfind. unfold set_global_key. cbn [set_at set_child bind]. rewrite Ec. rewrite aset_mid; [reflexivity|].
    rewrite map_app in Hnd. cbn [map fst] in Hnd. pose proof (NoDup_remove_2 _ _ _ Hnd) as Hn.
    intro Hin. apply Hn. apply in_or_app. left. exact Hin.
  - rewrite (insert_result_literal _ ph (Leaf sv) _ Ec). apply insert_literal_flat; [exact Hnd | exact Hf | exact Ec].
Qed.

(* ================================================================================================ *)
(* The while loop: its fuel is never the reason for stopping                                        *)
(* ================================================================================================ *)

(* the loop as a relation, without fuel: "while the number of unresolved references decreases" *)
Inductive loop_rel : sdict -> list (str * tree) -> nat -> option (res sdict) -> Prop :=
  | LR_pass_stops : forall s r u o,
      eval_pass r s = o -> (forall s', o <> Some (Ok s')) -> loop_rel s r u o
  | LR_outside : forall s r u s',
      eval_pass r s = Some (Ok s') -> resolve_all s' = None -> loop_rel s r u None
  | LR_done : forall s r u s' r' u',
      eval_pass r s = Some (Ok s') -> resolve_all s' = Some (r', u') -> (u <= u')%nat ->
      loop_rel s r u (Some (Ok s'))
  | LR_again : forall s r u s' r' u' o,
      eval_pass r s = Some (Ok s') -> resolve_all s' = Some (r', u') -> (u' < u)%nat ->
      loop_rel s' r' u' o -> loop_rel s r u o.

Lemma eval_loop_rel : forall f s r u, (S u <= f)%nat -> loop_rel s r u (eval_loop f s r u).
Proof.
  induction f as [|f IH]; intros s r u Hf; [lia|].
  cbn [eval_loop].
  destruct (eval_pass r s) as [[s'|e]|] eqn:Ep.
  - destruct (resolve_all s') as [[r' u']|] eqn:Er.
    + destruct (Nat.ltb u' u) eqn:Hlt.
      * apply Nat.ltb_lt in Hlt. eapply LR_again; [exact Ep | exact Er | exact Hlt |]. apply IH. lia.
      * apply Nat.ltb_ge in Hlt. eapply LR_done; [exact Ep | exact Er | exact Hlt].
    + eapply LR_outside; [exact Ep | exact Er].
  - apply LR_pass_stops; [exact Ep | intros s' H; discriminate].
  - apply LR_pass_stops; [exact Ep | intros s' H; discriminate].
Qed.

Lemma loop_rel_eval : forall s r u o, loop_rel s r u o -> forall f, (S u <= f)%nat -> eval_loop f s r u = o.
Proof.
  intros s r u o H.
  induction H as [s r u o Ep Hn | s r u s' Ep Er | s r u s' r' u' Ep Er Hu | s r u s' r' u' o Ep Er Hu H1 IH];
    intros f Hf; (destruct f as [|f]; [lia|]); cbn [eval_loop]; rewrite Ep.
  - destruct o as [[s'|e]|]; [exfalso; eapply Hn; reflexivity | reflexivity | reflexivity].
  - rewrite Er. reflexivity.
  - rewrite Er. apply Nat.ltb_ge in Hu. rewrite Hu. reflexivity.
  - rewrite Er. pose proof Hu as Hu'. apply Nat.ltb_lt in Hu'. rewrite Hu'. apply IH. lia.
Qed.

Lemma loop_rel_functional : forall s r u o1 o2, loop_rel s r u o1 -> loop_rel s r u o2 -> o1 = o2.
Proof.
  intros s r u o1 o2 H1 H2.
  rewrite <- (loop_rel_eval _ _ _ _ H1 (S u) (le_n _)). apply (loop_rel_eval _ _ _ _ H2). apply le_n.
Qed.

(* larger fuel gives the same answer *)
Lemma eval_loop_fuel : forall f s r u, (S u <= f)%nat -> eval_loop f s r u = eval_loop (S u) s r u.
Proof.
  intros f s r u Hf. apply (loop_rel_functional s r u); apply eval_loop_rel; lia.
Qed.

(* an exception that comes out of the loop was raised by one of the passes *)
Lemma loop_rel_raise : forall s r u o, loop_rel s r u o -> forall e, o = Some (Raise e) ->
  exists s0 r0, eval_pass r0 s0 = Some (Raise e).
Proof.
  intros s r u o H. induction H as [s r u o Ep Hn | s r u s' Ep Er | s r u s' r' u' Ep Er Hu | s r u s' r' u' o Ep Er Hu H1 IH];
    intros e E; try discriminate.
  - subst o. exists s, r. exact E.
  - exact (IH e E).
Qed.

(* ... and a pass raises only what insert_result raises *)
Definition pass_step (resolved : list (str * tree)) (acc : option (res sdict)) (e : N * expr_entry) : option (res sdict) :=
  match acc with
  | Some (Ok st) =>
      let '(key, (expression0, ph)) := e in
      let expression := substitute resolved expression0 in
      let plain := strip expression0 in
      let outcome : option (option tree) :=
        match (if is_plain_reference plain then rlookup plain resolved else None) with
        | Some t => Some (Some t)
        | None =>
            if has_char c_dollar expression then Some None
            else match pyeval expression with
                 | EvInt z => Some (Some (Leaf (SInt z)))
                 | EvSyntax => Some None
                 | EvOutside => None
                 end
        end in
      match outcome with
      | None => None
      | Some (Some v) =>
          match insert_result (S (count_leaves (Dict (sd_data st)))) ph v (Dict (sd_data st)) with
          | Ok (Dict d') => Some (Ok (mkSD d' (sd_lc st) (sd_bc st) (sd_inc st) (tdel key (sd_expr st))))
          | Ok _ => Some (Ok st)
          | Raise er => Some (Raise er)
          end
      | Some None =>
          Some (Ok (mkSD (sd_data st) (sd_lc st) (sd_bc st) (sd_inc st) (tset key (expression, ph) (sd_expr st))))
      end
  | other => other
  end.

Lemma eval_pass_fold : forall resolved s,
  eval_pass resolved s = fold_left (pass_step resolved) (sd_expr s) (Some (Ok s)).
Proof. reflexivity. Qed.

Lemma pass_fold_raise : forall resolved l acc e,
  fold_left (pass_step resolved) l acc = Some (Raise e) ->
  acc = Some (Raise e) \/ exists fuel ph v d, insert_result fuel ph v d = Raise e.
Proof.
  intros resolved. induction l as [|[key [e0 ph]] l IH]; intros acc e H; cbn [fold_left] in H; [left; exact H|].
  apply IH in H. destruct H as [H|H]; [|right; exact H].
  destruct acc as [[st|e1]|]; cbn [pass_step] in H; [|left; exact H|discriminate].
  destruct (if is_plain_reference (strip e0) then rlookup (strip e0) resolved else None) as [t|].
  - destruct (insert_result (S (count_leaves (Dict (sd_data st)))) ph t (Dict (sd_data st))) as [[| |]|er] eqn:Ei;
      try discriminate.
    right. inversion H; subst. eauto.
  - destruct (has_char c_dollar (substitute resolved e0)); [discriminate|].
    destruct (pyeval (substitute resolved e0)) as [z| |]; try discriminate.
    destruct (insert_result (S (count_leaves (Dict (sd_data st)))) ph (Leaf (SInt z)) (Dict (sd_data st))) as [[| |]|er] eqn:Ei;
      try discriminate.
    right. inversion H; subst. eauto.
Qed.

Lemma eval_pass_raise : forall resolved s e, eval_pass resolved s = Some (Raise e) ->
  exists fuel ph v d, insert_result fuel ph v d = Raise e.
Proof.
  intros resolved s e H. rewrite eval_pass_fold in H. apply pass_fold_raise in H.
  destruct H as [H|H]; [discriminate | exact H].
Qed.

Lemma back_insert_raise : forall s e, back_insert s = Raise e -> exists fuel ph v d, insert_result fuel ph v d = Raise e.
Proof.
  intros s e H. unfold back_insert in H.
  set (step := fun (acc : res (list (key * tree))) (e : N * expr_entry) =>
                 bind acc (fun d => let '(_, (expression, ph)) := e in
                   bind (insert_result (S (count_leaves (Dict d))) ph (Leaf (SStr expression)) (Dict d))
                        (fun t => match t with Dict d' => Ok d' | _ => Ok d end))) in H.
  assert (G : forall l acc, fold_left step l acc = Raise e -> acc = Raise e \/ exists fuel ph v d, insert_result fuel ph v d = Raise e).
  { induction l as [|[key [e0 ph]] l IH]; intros acc Hf; cbn [fold_left] in Hf; [left; exact Hf|].
    apply IH in Hf. destruct Hf as [Hf|Hf]; [|right; exact Hf].
    destruct acc as [d|e1]; [|left; exact Hf]. unfold step in Hf. cbn [bind] in Hf.
    destruct (insert_result (S (count_leaves (Dict d))) ph (Leaf (SStr e0)) (Dict d)) as [[| |]|er] eqn:Ei;
      cbn [bind] in Hf; try discriminate.
    right. inversion Hf; subst. eauto. }
  destruct (fold_left step (sd_expr s) (Ok (sd_data s))) as [d|e1] eqn:Ef; cbn [bind] in H; [discriminate|].
  inversion H; subst e1. apply G in Ef. destruct Ef as [Ef|Ef]; [discriminate | exact Ef].
Qed.

(* the loop of eval_expressions never runs out of fuel: whatever it answers is the answer of the fuel-free loop, and
   an exception (E_Fuel included) in the result of eval_expressions was raised by some insert_result call *)
Lemma eval_expressions_loop : forall s resolved u,
  resolve_all s = Some (resolved, u) ->
  loop_rel s resolved u (eval_loop (S (S u)) s resolved u) /\
  (forall f, (S u <= f)%nat -> eval_loop f s resolved u = eval_loop (S (S u)) s resolved u).
Proof.
  intros s resolved u _. split.
  - apply eval_loop_rel. lia.
  - intros f Hf. rewrite (eval_loop_fuel f) by exact Hf. rewrite (eval_loop_fuel (S (S u))) by lia. reflexivity.
Qed.

Lemma eval_expressions_raise : forall s e, eval_expressions s = Some (Raise e) ->
  exists fuel ph v d, insert_result fuel ph v d = Raise e.
Proof.
  intros s e H. unfold eval_expressions in H.
  destruct (resolve_all s) as [[resolved u]|] eqn:Er; [|discriminate].
  pose proof (eval_loop_rel (S (S u)) s resolved u ltac:(lia)) as Hl.
  destruct (eval_loop (S (S u)) s resolved u) as [[s'|e1]|] eqn:El; [| |discriminate].
  - inversion H as [Hb]. apply back_insert_raise in Hb. exact Hb.
  - inversion H; subst e1. destruct (loop_rel_raise _ _ _ _ Hl e eq_refl) as [s0 [r0 Hp]].
    apply eval_pass_raise in Hp. exact Hp.
Qed.

(* ================================================================================================ *)
(* Expressions whose references are all undeclared stay what they are                               *)
(* ================================================================================================ *)
Lemma dedup_subset : forall l seen r, In r (dedup seen l) -> In r l.
Proof.
  induction l as [|x l IH]; intros seen r H; cbn [dedup] in H; [contradiction|].
  destruct (existsb (str_eqb x) seen).
  - right. eapply IH. exact H.
  - destruct H as [H|H]; [left; exact H | right; eapply IH; exact H].
Qed.

Definition undeclared_in (s : sdict) (r : str) : Prop := alookup (KS (ref_name r)) (variables_of s) = None.

(* nothing is resolved when every reference of every pending expression names an undeclared variable *)
Lemma resolve_all_undeclared : forall s,
  Forall (undeclared_in s) (all_refs (sd_expr s)) ->
  resolve_all s = Some ([], length (dedup [] (all_refs (sd_expr s)))).
Proof.
  intros s H. unfold resolve_all.
  set (refs := dedup [] (all_refs (sd_expr s))).
  assert (Hr : Forall (undeclared_in s) refs).
  { apply Forall_forall. intros r Hin. rewrite Forall_forall in H. apply H. eapply dedup_subset. exact Hin. }
  clearbody refs. clear H.
  assert (Hm : map (fun r => (r, resolve_reference (variables_of s) r)) refs = map (fun r => (r, RNone)) refs).
  { apply map_ext_in. intros r Hin. rewrite Forall_forall in Hr. rewrite (resolve_undeclared _ r (Hr r Hin)). reflexivity. }
  rewrite Hm. clear Hm Hr.
  assert (He : existsb (fun p : str * rres => match snd p with ROutside | RFuel => true | _ => false end)
                 (map (fun r => (r, RNone)) refs) = false).
  { induction refs as [|r refs IH]; [reflexivity|]. cbn [map existsb snd orb]. exact IH. }
  rewrite He. clear He. f_equal. f_equal.
  - induction refs as [|r refs IH]; [reflexivity|]. cbn [map flat_map snd fst usable app]. exact IH.
  - induction refs as [|r refs IH]; [reflexivity|]. cbn [map filter snd fst usable length]. f_equal. exact IH.
Qed.

Lemma substitute_nil : forall e, substitute [] e = e.
Proof.
  intro e. unfold substitute. generalize (expr_refs_of e) as refs. intro refs. generalize e as acc.
  induction refs as [|r refs IH]; intro acc; [reflexivity|]. cbn [fold_left rlookup]. apply IH.
Qed.

Lemma tset_same : forall {V} (l : list (N * V)) i v, tlookup i l = Some v -> tset i v l = l.
Proof.
  intros V. induction l as [|[j w] l IH]; intros i v H; cbn [tlookup] in H; [discriminate|].
  cbn [tset]. destruct (N.eqb i j) eqn:E.
  - inversion H; subst. reflexivity.
  - rewrite (IH i v H). reflexivity.
Qed.

Lemma tlookup_in_nodup : forall {V} (l : list (N * V)) i v, NoDup (map fst l) -> In (i, v) l -> tlookup i l = Some v.
Proof.
  intros V. induction l as [|[j w] l IH]; intros i v Hnd Hin; [contradiction|].
  cbn [map fst] in Hnd. inversion Hnd as [|? ? Hj Hnd']; subst. cbn [tlookup].
  destruct Hin as [Hin|Hin].
  - inversion Hin; subst. rewrite N.eqb_refl. reflexivity.
  - destruct (N.eqb i j) eqn:E; [|apply IH; assumption].
    apply N.eqb_eq in E. subst j. exfalso. apply Hj. apply in_map_iff. exists (i, v). split; [reflexivity | exact Hin].
Qed.

(* with nothing resolved, a pass over expressions that all carry a dollar sign changes nothing *)
Lemma pass_nothing_resolved : forall s,
  NoDup (map fst (sd_expr s)) ->
  Forall (fun e => has_char c_dollar (fst (snd e)) = true) (sd_expr s) ->
  eval_pass [] s = Some (Ok s).
Proof.
  intros s Hnd Hd. rewrite eval_pass_fold.
  assert (Hs : forall e, In e (sd_expr s) -> pass_step [] (Some (Ok s)) e = Some (Ok s)).
  { intros [key [e0 ph]] Hin. cbn [pass_step]. rewrite substitute_nil.
    assert (Hp : (if is_plain_reference (strip e0) then rlookup (strip e0) [] else None) = None)
      by (destruct (is_plain_reference (strip e0)); reflexivity).
    rewrite Hp. rewrite Forall_forall in Hd. pose proof (Hd _ Hin) as Hdol. cbn [snd fst] in Hdol. rewrite Hdol.
    rewrite tset_same; [destruct s; reflexivity|].
    apply tlookup_in_nodup; assumption. }
  assert (G : forall l, (forall e, In e l -> In e (sd_expr s)) ->
              fold_left (pass_step []) l (Some (Ok s)) = Some (Ok s)).
  { induction l as [|e l IH]; intros Hsub; [reflexivity|]. cbn [fold_left].
    rewrite (Hs e (Hsub e (or_introl eq_refl))). apply IH. intros e' He. apply Hsub. right. exact He. }
  apply G. auto.
Qed.

(* C05_unresolved_kept, general form: every pending expression refers to undeclared names only.  The result is the
   input with every placeholder replaced by the original text of its expression (back_insert of the input itself). *)
Lemma unresolved_kept_all : forall s,
  NoDup (map fst (sd_expr s)) ->
  Forall (fun e => has_char c_dollar (fst (snd e)) = true) (sd_expr s) ->
  Forall (undeclared_in s) (all_refs (sd_expr s)) ->
  eval_expressions s = Some (back_insert s).
Proof.
  intros s Hnd Hd Hu. unfold eval_expressions. rewrite (resolve_all_undeclared s Hu).
  cbn [eval_loop]. rewrite (pass_nothing_resolved s Hnd Hd). rewrite (resolve_all_undeclared s Hu).
  rewrite Nat.ltb_irrefl. reflexivity.
Qed.

(* the one-expression case, spelled out: the data is the input data with the placeholder overwritten by the text *)
Lemma unresolved_kept_one : forall d lc bc inc key e ph,
  has_char c_dollar e = true ->
  Forall (fun r => alookup (KS (ref_name r)) (variables_of (mkSD d lc bc inc [(key, (e, ph))])) = None) (expr_refs_of e) ->
  eval_expressions (mkSD d lc bc inc [(key, (e, ph))]) =
  Some (match insert_result (S (count_leaves (Dict d))) ph (Leaf (SStr e)) (Dict d) with
        | Ok (Dict d') => Ok (mkSD d' lc bc inc [])
        | Ok _ => Ok (mkSD d lc bc inc [])
        | Raise er => Raise er
        end).
Proof.
  intros d lc bc inc key e ph Hd Hu.
  rewrite unresolved_kept_all.
  - unfold back_insert. cbn [sd_expr sd_data sd_lc sd_bc sd_inc fold_left bind].
    destruct (insert_result (S (count_leaves (Dict d))) ph (Leaf (SStr e)) (Dict d)) as [[| |]|er]; reflexivity.
  - cbn [sd_expr map fst]. constructor; [intros []|constructor].
  - cbn [sd_expr]. constructor; [exact Hd|constructor].
  - cbn [sd_expr all_refs flat_map fst snd]. rewrite app_nil_r. exact Hu.
Qed.

(* ================================================================================================ *)
(* One pending expression, any data: a plain reference takes the value, an expression its result     *)
(* ================================================================================================ *)
Lemma resolve_all_empty : forall d lc bc inc, resolve_all (mkSD d lc bc inc []) = Some ([], 0%nat).
Proof. reflexivity. Qed.

Lemma eval_pass_empty : forall r d lc bc inc, eval_pass r (mkSD d lc bc inc []) = Some (Ok (mkSD d lc bc inc [])).
Proof. reflexivity. Qed.

(* once the table is empty the loop stops, whatever the count was before *)
Lemma eval_loop_after_last : forall f u d lc bc inc, (2 <= f)%nat ->
  (if Nat.ltb 0 u then eval_loop f (mkSD d lc bc inc []) [] 0 else Some (Ok (mkSD d lc bc inc []))) =
  Some (Ok (mkSD d lc bc inc [])).
Proof.
  intros f u d lc bc inc Hf. destruct (Nat.ltb 0 u); [|reflexivity].
  destruct f as [|f]; [lia|]. cbn [eval_loop]. rewrite eval_pass_empty, resolve_all_empty. reflexivity.
Qed.

Definition inserted (d : list (key * tree)) (lc bc : list (N * str)) (inc : list (N * include_entry))
           (ph : str) (v : tree) : res sdict :=
  match insert_result (S (count_leaves (Dict d))) ph v (Dict d) with
  | Ok (Dict d') => Ok (mkSD d' lc bc inc [])
  | Ok _ => Ok (mkSD d lc bc inc [])
  | Raise er => Raise er
  end.

Lemma one_entry_value : forall d lc bc inc key e ph resolved u v,
  resolve_all (mkSD d lc bc inc [(key, (e, ph))]) = Some (resolved, u) ->
  pass_step resolved (Some (Ok (mkSD d lc bc inc [(key, (e, ph))]))) (key, (e, ph)) =
    match insert_result (S (count_leaves (Dict d))) ph v (Dict d) with
    | Ok (Dict d') => Some (Ok (mkSD d' lc bc inc (tdel key [(key, (e, ph))])))
    | Ok _ => Some (Ok (mkSD d lc bc inc [(key, (e, ph))]))
    | Raise er => Some (Raise er)
    end ->
  (forall t, insert_result (S (count_leaves (Dict d))) ph v (Dict d) = Ok t -> exists d', t = Dict d') ->
  eval_expressions (mkSD d lc bc inc [(key, (e, ph))]) = Some (inserted d lc bc inc ph v).
Proof.
  intros d lc bc inc key e ph resolved u v Hr Hp Hd. unfold eval_expressions. rewrite Hr.
  cbn [eval_loop]. rewrite eval_pass_fold. cbn [sd_expr fold_left]. rewrite Hp. unfold inserted.
  destruct (insert_result (S (count_leaves (Dict d))) ph v (Dict d)) as [t|er] eqn:Ei; [|reflexivity].
  destruct (Hd t eq_refl) as [d' Et]. subst t.
  cbn [tdel]. rewrite N.eqb_refl. rewrite resolve_all_empty.
  change (match (if Nat.ltb 0 u then eval_loop (S u) (mkSD d' lc bc inc []) [] 0 else Some (Ok (mkSD d' lc bc inc []))) with
          | Some (Ok s') => Some (back_insert s')
          | other => other
          end = Some (Ok (mkSD d' lc bc inc []))).
  destruct u as [|u]; [reflexivity|].
  rewrite (eval_loop_after_last (S (S u)) (S u)) by lia. reflexivity.
Qed.

Lemma set_global_key_dict : forall d p v t1, set_global_key (Dict d) p v = Ok t1 -> exists d', t1 = Dict d'.
Proof.
  intros d p v t1 Es. unfold set_global_key in Es. destruct p as [|k p]; cbn [set_at] in Es; [inversion Es; eauto|].
  destruct p as [|k2 p].
  - cbn [set_child] in Es. inversion Es. eauto.
  - destruct (child (Dict d) k) as [c|]; cbn [bind] in Es; [|discriminate].
    destruct (negb (is_container c)); [discriminate|]. destruct (Nat.eqb 1 10); [discriminate|].
    destruct (set_at c (k2 :: p) v 1) as [c'|]; cbn [bind] in Es; [|discriminate].
    cbn [set_child] in Es. inversion Es. eauto.
Qed.

Lemma insert_result_dict : forall fuel ph v t t', insert_result fuel ph v t = Ok t' ->
  (exists d, t = Dict d) -> exists d', t' = Dict d'.
Proof.
  induction fuel as [|f IH]; intros ph v t t' H Hd; [discriminate|]. rewrite insert_result_S in H.
  destruct (find_global_key ph t) as [p|] eqn:Ef; [|inversion H; subst; exact Hd].
  destruct (set_global_key t p v) as [t1|er] eqn:Es; cbn [bind] in H; [|discriminate].
  assert (Hd1 : exists d1, t1 = Dict d1).
  { destruct Hd as [d Ed]. subst t. eapply set_global_key_dict. exact Es. }
  destruct (contains ph (py_str_tree v)); [inversion H; subst; exact Hd1|].
  apply (IH ph v t1 t' H Hd1).
Qed.

(* a plain reference (possibly indexed) takes the value -- and type -- the reference resolves to *)
Lemma plain_reference_one : forall d lc bc inc key e ph resolved u t,
  resolve_all (mkSD d lc bc inc [(key, (e, ph))]) = Some (resolved, u) ->
  is_plain_reference (strip e) = true ->
  rlookup (strip e) resolved = Some t ->
  eval_expressions (mkSD d lc bc inc [(key, (e, ph))]) = Some (inserted d lc bc inc ph t).
Proof.
  intros d lc bc inc key e ph resolved u t Hr Hp Hl.
  apply (one_entry_value d lc bc inc key e ph resolved u t Hr).
  - cbn [pass_step sd_data sd_lc sd_bc sd_inc sd_expr]. rewrite Hp, Hl.
    destruct (insert_result (S (count_leaves (Dict d))) ph t (Dict d)) as [[| |]|]; reflexivity.
  - intros t' Hi. eapply insert_result_dict; [exact Hi | eauto].
Qed.

(* an expression all of whose references are resolved takes the result of evaluating the substituted text *)
Lemma expression_one : forall d lc bc inc key e ph resolved u z,
  resolve_all (mkSD d lc bc inc [(key, (e, ph))]) = Some (resolved, u) ->
  (if is_plain_reference (strip e) then rlookup (strip e) resolved else None) = None ->
  has_char c_dollar (substitute resolved e) = false ->
  pyeval (substitute resolved e) = EvInt z ->
  eval_expressions (mkSD d lc bc inc [(key, (e, ph))]) = Some (inserted d lc bc inc ph (Leaf (SInt z))).
Proof.
  intros d lc bc inc key e ph resolved u z Hr Hp Hd He.
  apply (one_entry_value d lc bc inc key e ph resolved u (Leaf (SInt z)) Hr).
  - cbn [pass_step sd_data sd_lc sd_bc sd_inc sd_expr]. rewrite Hp, Hd, He.
    destruct (insert_result (S (count_leaves (Dict d))) ph (Leaf (SInt z)) (Dict d)) as [[| |]|]; reflexivity.
  - intros t' Hi. eapply insert_result_dict; [exact Hi | eauto].
Qed.

(* ================================================================================================ *)
(* Flat documents                                                                                   *)
(* ================================================================================================ *)

(* ---- direct evaluation: basic facts ------------------------------------------------------------- *)
Lemma aeval_ext : forall env env' a, (forall y, In y (avars a) -> env y = env' y) -> aeval env a = aeval env' a.
Proof.
  intros env env'. induction a as [n|x|a IH|a IH|a IHa b IHb|a IHa b IHb|a IHa b IHb|a IH]; intros H; cbn [aeval avars] in *.
  - reflexivity.
  - apply H. left. reflexivity.
  - rewrite (IH H). reflexivity.
  - exact (IH H).
  - rewrite IHa, IHb; [reflexivity| |]; intros y Hy; apply H; apply in_or_app; [right|left]; exact Hy.
  - rewrite IHa, IHb; [reflexivity| |]; intros y Hy; apply H; apply in_or_app; [right|left]; exact Hy.
  - rewrite IHa, IHb; [reflexivity| |]; intros y Hy; apply H; apply in_or_app; [right|left]; exact Hy.
  - exact (IH H).
Qed.

Definition env_le (k k' : str -> option Z) : Prop := forall y v, k y = Some v -> k' y = Some v.

Lemma known_all_iff : forall k a, known_all k a = true <-> (forall y, In y (avars a) -> exists v, k y = Some v).
Proof.
  intros k a. unfold known_all. rewrite forallb_forall. split.
  - intros H y Hy. specialize (H y Hy). destruct (k y) as [v|]; [eauto | discriminate].
  - intros H y Hy. destruct (H y Hy) as [v E]. rewrite E. reflexivity.
Qed.

Lemma eval_in_mono : forall k k' a v, env_le k k' -> eval_in k a = Some v -> eval_in k' a = Some v.
Proof.
  intros k k' a v Hle H. unfold eval_in in *. destruct (known_all k a) eqn:Ek; [|discriminate].
  assert (Ek' : known_all k' a = true).
  { apply known_all_iff. intros y Hy. apply known_all_iff with (y := y) in Ek; [|exact Hy].
    destruct Ek as [w Ew]. exists w. apply Hle. exact Ew. }
  rewrite Ek'. inversion H; subst. f_equal. apply aeval_ext. intros y Hy.
  apply known_all_iff with (y := y) in Ek; [|exact Hy]. destruct Ek as [w Ew].
  unfold env_of. rewrite (Hle y w Ew), Ew. reflexivity.
Qed.

Lemma kstep_mono : forall d k k', env_le k k' -> env_le (kstep d k) (kstep d k').
Proof.
  intros d k k' Hle x v H. unfold kstep in *. destruct (flookup x d) as [[z|i g a]|]; [exact H | | exact H].
  eapply eval_in_mono; eassumption.
Qed.

Lemma know_mono1 : forall d n, env_le (know d n) (know d (S n)).
Proof.
  intros d. induction n as [|n IH].
  - intros y v H. discriminate.
  - cbn [know]. apply kstep_mono. exact IH.
Qed.

Lemma know_mono : forall d n m, (n <= m)%nat -> env_le (know d n) (know d m).
Proof.
  intros d n m H. induction H as [|m H IH]; [intros y v E; exact E|].
  intros y v E. apply know_mono1. apply IH. exact E.
Qed.

Lemma flookup_in : forall (d : fdoc) x v, NoDup (map fst d) -> In (x, v) d -> flookup x d = Some v.
Proof.
  induction d as [|[y w] d IH]; intros x v Hnd Hin; [contradiction|].
  cbn [map fst] in Hnd. inversion Hnd as [|? ? Hy Hnd']; subst. cbn [flookup].
  destruct Hin as [Hin|Hin].
  - inversion Hin; subst. rewrite ScalarProofs.str_eqb_refl. reflexivity.
  - destruct (str_eqb x y) eqn:E; [|apply IH; assumption].
    apply ScalarProofs.str_eqb_eq in E. subst y. exfalso. apply Hy. apply in_map_iff. exists (x, v). split; [reflexivity|exact Hin].
Qed.

Lemma flookup_some_in : forall (d : fdoc) x v, flookup x d = Some v -> In (x, v) d.
Proof.
  induction d as [|[y w] d IH]; intros x v H; cbn [flookup] in H; [discriminate|].
  destruct (str_eqb x y) eqn:E.
  - apply ScalarProofs.str_eqb_eq in E. inversion H; subst. left. reflexivity.
  - right. apply IH. exact H.
Qed.

(* ---- the data of a flat state --------------------------------------------------------------------- *)
Lemma fdata_keys : forall d k, map fst (fdata d k) = map KS (map fst d).
Proof. intros d k. unfold fdata. rewrite !map_map. reflexivity. Qed.

Lemma NoDup_map_KS : forall l : list str, NoDup l -> NoDup (map KS l).
Proof.
  induction l as [|x l IH]; intro H; cbn [map]; [constructor|]. inversion H as [|? ? Hx Hl]; subst. constructor.
  - intro Hin. apply in_map_iff in Hin. destruct Hin as [y [E Hy]]. inversion E; subst. contradiction.
  - apply IH. exact Hl.
Qed.

Lemma fdata_nodup : forall d k, NoDup (map fst d) -> NoDup (map fst (fdata d k)).
Proof. intros d k H. rewrite fdata_keys. apply NoDup_map_KS. exact H. Qed.

Lemma fdata_flat : forall d k, flat_kvs (fdata d k).
Proof.
  intros d k. unfold flat_kvs, fdata. apply Forall_forall. intros kv Hin. apply in_map_iff in Hin.
  destruct Hin as [[x v] [E _]]. subst kv. cbn [fst snd]. split; [eexists; reflexivity|].
  unfold fleaf. destruct v as [z|i g a]; [eexists; reflexivity|]. destruct (k x); eexists; reflexivity.
Qed.

Lemma alookup_fdata : forall d k y, alookup (KS y) (fdata d k) = option_map (fleaf k y) (flookup y d).
Proof.
  induction d as [|[x v] d IH]; intros k y; [reflexivity|].
  cbn [fdata map fst snd alookup key_eqb flookup]. destruct (str_eqb y x) eqn:E.
  - apply ScalarProofs.str_eqb_eq in E. subst x. reflexivity.
  - apply IH.
Qed.

(* ---- the table of a flat state -------------------------------------------------------------------- *)
Lemma ftable_ids_sub : forall d rho k i, In i (map fst (ftable d rho k)) -> In i (fexp_ids d).
Proof.
  induction d as [|[x v] d IH]; intros rho k i H; [contradiction|].
  unfold ftable, fexp_ids in *. cbn [flat_map] in *. rewrite map_app in H. apply in_app_or in H. apply in_or_app.
  destruct H as [H|H]; [left | right; eapply IH; exact H].
  unfold fentry in H. cbn [fst snd] in *. destruct v as [z|j g a]; [contradiction|].
  destruct (k x); [contradiction|]. exact H.
Qed.

Lemma ftable_nodup : forall d rho k, NoDup (fexp_ids d) -> NoDup (map fst (ftable d rho k)).
Proof.
  induction d as [|[x v] d IH]; intros rho k H; [constructor|].
  unfold ftable, fexp_ids in *. cbn [flat_map] in *. rewrite map_app.
  destruct v as [z|j g a]; cbn [snd fentry app] in *; [apply IH; exact H|].
  inversion H as [|? ? Hj Hd]; subst. cbn [fst]. destruct (k x); cbn [map app]; [apply IH; exact Hd|].
  constructor; [|apply IH; exact Hd]. intro Hin. apply Hj. eapply ftable_ids_sub. exact Hin.
Qed.

Lemma ftable_in : forall d rho k x i g a, In (x, FExp i g a) d -> k x = None ->
  In (i, (render_in rho g a, ph_of i)) (ftable d rho k).
Proof.
  intros d rho k x i g a Hin Hk. unfold ftable. apply in_flat_map. exists (x, FExp i g a). split; [exact Hin|].
  unfold fentry. cbn [fst snd]. rewrite Hk. left. reflexivity.
Qed.

Lemma ftable_lookup : forall d rho k x i g a, NoDup (fexp_ids d) -> In (x, FExp i g a) d -> k x = None ->
  tlookup i (ftable d rho k) = Some (render_in rho g a, ph_of i).
Proof.
  intros d rho k x i g a Hnd Hin Hk. apply tlookup_in_nodup; [apply ftable_nodup; exact Hnd|].
  eapply ftable_in; eassumption.
Qed.

(* ---- what a reference resolves to ---------------------------------------------------------------- *)
(* the value a name currently has in the data, if it is an integer *)
Definition rmap (d : fdoc) (k : str -> option Z) : str -> option Z := fun y =>
  match flookup y d with
  | Some (FInt z) => Some z
  | Some (FExp _ _ _) => k y
  | None => None
  end.

Lemma usable_int : forall z, usable (RVal (Leaf (SInt z))) = Some (Leaf (SInt z)).
Proof.
  intro z. unfold usable. cbn [py_str_tree py_str]. rewrite int_no_dollar, expression_not_in_int. reflexivity.
Qed.

Lemma resolve_int : forall vars y z, word_name y -> alookup (KS y) vars = Some (Leaf (SInt z)) ->
  resolve_reference vars (ref_of y) = RVal (Leaf (SInt z)).
Proof.
  intros vars y z Hy Ha. destruct (ref_of_parts y Hy) as [Hn Hi].
  unfold resolve_reference. rewrite resolve_ref_S. cbv zeta. rewrite Hn. cbn [existsb]. rewrite Ha.
  cbn [chase_f tree_has_dollar]. unfold resolve_tail. rewrite Hi. reflexivity.
Qed.

Lemma resolve_text : forall vars y e, word_name y -> alookup (KS y) vars = Some (Leaf (SStr e)) ->
  has_char c_dollar e = true -> is_plain_reference e = false ->
  resolve_reference vars (ref_of y) = RNone.
Proof.
  intros vars y e Hy Ha Hd Hp. destruct (ref_of_parts y Hy) as [Hn Hi].
  unfold resolve_reference. rewrite resolve_ref_S. cbv zeta. rewrite Hn. cbn [existsb]. rewrite Ha.
  cbn [chase_f tree_has_dollar]. rewrite Hd. cbv zeta. cbn [py_str_tree py_str existsb]. rewrite Hp. cbn [negb].
  unfold resolve_tail. rewrite Hi. reflexivity.
Qed.

(* ---- pending references ---------------------------------------------------------------------------- *)
Definition unknown (k : str -> option Z) (y : str) : bool := negb (is_some (k y)).
Definition pvars_entry (rho k : str -> option Z) (xv : str * fval) : list str :=
  match snd xv with
  | FExp i g a => match k (fst xv) with None => filter (unknown rho) (avars a) | Some _ => [] end
  | FInt _ => []
  end.
Definition pvars (d : fdoc) (rho k : str -> option Z) : list str := flat_map (pvars_entry rho k) d.

Lemma all_refs_app : forall l1 l2, all_refs (l1 ++ l2) = all_refs l1 ++ all_refs l2.
Proof. intros l1 l2. unfold all_refs. apply flat_map_app. Qed.

Lemma all_refs_ftable : forall d rho k, Forall fexp_ok (map snd d) ->
  all_refs (ftable d rho k) = map ref_of (pvars d rho k).
Proof.
  induction d as [|[x v] d IH]; intros rho k H; [reflexivity|].
  cbn [map snd] in H. inversion H as [|? ? Hv Hd]; subst.
  unfold ftable, pvars in *. cbn [flat_map]. rewrite all_refs_app, map_app, (IH rho k Hd). f_equal.
  unfold fentry, pvars_entry. cbn [fst snd]. destruct v as [z|i g a]; [reflexivity|].
  destruct (k x); [reflexivity|]. cbn [all_refs flat_map fst snd]. rewrite app_nil_r.
  destruct Hv as [_ [Hg [Hw _]]]. apply refs_render; assumption.
Qed.

Lemma str_eqb_ref_of : forall a b, str_eqb (ref_of a) (ref_of b) = str_eqb a b.
Proof. intros a b. unfold ref_of. cbn [str_eqb]. rewrite N.eqb_refl. reflexivity. Qed.

Lemma dedup_map_ref : forall l seen, dedup (map ref_of seen) (map ref_of l) = map ref_of (dedup seen l).
Proof.
  induction l as [|r l IH]; intro seen; [reflexivity|]. cbn [map dedup].
  assert (E : existsb (str_eqb (ref_of r)) (map ref_of seen) = existsb (str_eqb r) seen).
  { induction seen as [|s seen IHs]; [reflexivity|]. cbn [map existsb]. rewrite str_eqb_ref_of, IHs. reflexivity. }
  rewrite E. destruct (existsb (str_eqb r) seen); [apply IH|].
  cbn [map]. f_equal. apply (IH (r :: seen)).
Qed.

Lemma dedup_complete : forall l seen r, In r l -> In r (dedup seen l) \/ existsb (str_eqb r) seen = true.
Proof.
  induction l as [|x l IH]; intros seen r H; [contradiction|]. cbn [dedup].
  destruct H as [H|H].
  - subst x. destruct (existsb (str_eqb r) seen) eqn:E; [right; reflexivity | left; left; reflexivity].
  - destruct (existsb (str_eqb x) seen) eqn:E; [apply IH; exact H|].
    destruct (IH (x :: seen) r H) as [H1|H1]; [left; right; exact H1|].
    cbn [existsb] in H1. apply orb_true_iff in H1. destruct H1 as [H1|H1]; [|right; exact H1].
    apply ScalarProofs.str_eqb_eq in H1. subst x. left. left. reflexivity.
Qed.

Lemma dedup_in : forall l r, In r (dedup [] l) <-> In r l.
Proof.
  intros l r. split; [apply dedup_subset|]. intro H. destruct (dedup_complete l [] r H) as [H1|H1]; [exact H1 | discriminate].
Qed.

Lemma dedup_nodup : forall l seen, NoDup (dedup seen l) /\ (forall r, In r (dedup seen l) -> existsb (str_eqb r) seen = false).
Proof.
  induction l as [|x l IH]; intro seen; cbn [dedup]; [split; [constructor | intros r []]|].
  destruct (existsb (str_eqb x) seen) eqn:E; [apply IH|].
  destruct (IH (x :: seen)) as [H1 H2]. split.
  - constructor; [|exact H1]. intro Hin. apply H2 in Hin. cbn [existsb] in Hin.
    rewrite ScalarProofs.str_eqb_refl in Hin. discriminate.
  - intros r [Hr|Hr]; [subst r; exact E|]. apply H2 in Hr. cbn [existsb] in Hr. apply orb_false_iff in Hr. tauto.
Qed.

(* ---- resolve_all, generically ------------------------------------------------------------------------ *)
Definition res_list (m : str -> option Z) (names : list str) : list (str * tree) :=
  flat_map (fun y => match m y with Some v => [(ref_of y, Leaf (SInt v))] | None => [] end) names.
Definition unres_count (m : str -> option Z) (names : list str) : nat := length (filter (unknown m) names).

Definition resolve_body (f : str -> rres) (refs : list str) : option (list (str * tree) * nat) :=
  let rs := map (fun r => (r, f r)) refs in
  if existsb (fun p : str * rres => match snd p with ROutside | RFuel => true | _ => false end) rs then None
  else
    let us := map (fun p : str * rres => (fst p, usable (snd p))) rs in
    Some (flat_map (fun p : str * option tree => match snd p with Some t => [(fst p, t)] | None => [] end) us,
          length (filter (fun p : str * option tree => match snd p with None => true | Some _ => false end) us)).

Lemma resolve_all_body : forall s,
  resolve_all s = resolve_body (resolve_reference (variables_of s)) (dedup [] (all_refs (sd_expr s))).
Proof. reflexivity. Qed.

Lemma resolve_body_names : forall f m names,
  (forall y, In y names -> f (ref_of y) = match m y with Some v => RVal (Leaf (SInt v)) | None => RNone end) ->
  resolve_body f (map ref_of names) = Some (res_list m names, unres_count m names).
Proof.
  intros f m names H. unfold resolve_body.
  assert (E : map (fun r => (r, f r)) (map ref_of names) =
              map (fun y => (ref_of y, match m y with Some v => RVal (Leaf (SInt v)) | None => RNone end)) names).
  { rewrite map_map. apply map_ext_in. intros y Hy. rewrite (H y Hy). reflexivity. }
  rewrite E. clear E H.
  assert (E1 : existsb (fun p : str * rres => match snd p with ROutside | RFuel => true | _ => false end)
                 (map (fun y => (ref_of y, match m y with Some v => RVal (Leaf (SInt v)) | None => RNone end)) names) = false).
  { induction names as [|y names IH]; [reflexivity|]. cbn [map existsb snd]. rewrite IH. destruct (m y); reflexivity. }
  rewrite E1. clear E1. f_equal. f_equal.
  - unfold res_list. induction names as [|y names IH]; [reflexivity|]. cbn [map flat_map fst snd]. rewrite IH.
    destruct (m y) as [v|]; [rewrite usable_int; reflexivity | reflexivity].
  - unfold unres_count. induction names as [|y names IH]; [reflexivity|]. cbn [map filter fst snd]. unfold unknown at 1.
    destruct (m y) as [v|]; cbn [is_some negb]; [rewrite usable_int; exact IH | cbn [usable length]; f_equal; exact IH].
Qed.

Lemma rlookup_res_list : forall m names y, In y names ->
  rlookup (ref_of y) (res_list m names) = option_map (fun v => Leaf (SInt v)) (m y).
Proof.
  intros m. induction names as [|x names IH]; intros y Hin; [contradiction|].
  unfold res_list in *. cbn [flat_map].
  destruct (str_eqb y x) eqn:E.
  - apply ScalarProofs.str_eqb_eq in E. subst x. destruct (m y) as [v|] eqn:Em.
    + cbn [app rlookup]. rewrite ScalarProofs.str_eqb_refl. reflexivity.
    + cbn [app]. destruct Hin as [_|Hin].
      * clear IH. induction names as [|x names IHn]; [reflexivity|]. cbn [flat_map].
        destruct (m x) as [w|] eqn:Ex; cbn [app]; [|exact IHn]. cbn [rlookup]. rewrite str_eqb_ref_of.
        destruct (str_eqb y x) eqn:E; [|exact IHn]. apply ScalarProofs.str_eqb_eq in E. subst x. congruence.
      * rewrite (IH y Hin), Em. reflexivity.
  - destruct Hin as [Hin|Hin]; [subst x; rewrite ScalarProofs.str_eqb_refl in E; discriminate|].
    destruct (m x) as [w|]; cbn [app]; [|apply IH; exact Hin].
    cbn [rlookup]. rewrite str_eqb_ref_of, E. apply IH. exact Hin.
Qed.

(* ---- one step of a pass ------------------------------------------------------------------------------ *)
Lemma pass_step_eval : forall res st key e0 ph z d',
  is_plain_reference (strip e0) = false ->
  has_char c_dollar (substitute res e0) = false ->
  pyeval (substitute res e0) = EvInt z ->
  insert_result (S (count_leaves (Dict (sd_data st)))) ph (Leaf (SInt z)) (Dict (sd_data st)) = Ok (Dict d') ->
  pass_step res (Some (Ok st)) (key, (e0, ph)) =
  Some (Ok (mkSD d' (sd_lc st) (sd_bc st) (sd_inc st) (tdel key (sd_expr st)))).
Proof.
  intros res st key e0 ph z d' Hp Hd He Hi. cbn [pass_step]. rewrite Hp, Hd, He, Hi. reflexivity.
Qed.

Lemma pass_step_keep : forall res st key e0 ph,
  is_plain_reference (strip e0) = false ->
  has_char c_dollar (substitute res e0) = true ->
  pass_step res (Some (Ok st)) (key, (e0, ph)) =
  Some (Ok (mkSD (sd_data st) (sd_lc st) (sd_bc st) (sd_inc st) (tset key (substitute res e0, ph) (sd_expr st)))).
Proof.
  intros res st key e0 ph Hp Hd. cbn [pass_step]. rewrite Hp, Hd. reflexivity.
Qed.

Lemma fexp_ids_app : forall d1 d2, fexp_ids (d1 ++ d2) = fexp_ids d1 ++ fexp_ids d2.
Proof. intros d1 d2. unfold fexp_ids. apply flat_map_app. Qed.

Lemma fexp_ids_in : forall (d : fdoc) y j g a, In (y, FExp j g a) d -> In j (fexp_ids d).
Proof.
  intros d y j g a H. unfold fexp_ids. apply in_flat_map. exists (y, FExp j g a). split; [exact H | left; reflexivity].
Qed.

Lemma fdata_app : forall d1 d2 k, fdata (d1 ++ d2) k = fdata d1 k ++ fdata d2 k.
Proof. intros d1 d2 k. unfold fdata. apply map_app. Qed.

Lemma ftable_app : forall d1 d2 rho k, ftable (d1 ++ d2) rho k = ftable d1 rho k ++ ftable d2 rho k.
Proof. intros d1 d2 rho k. unfold ftable. apply flat_map_app. Qed.

Lemma fdata_leaf_free : forall (dd : fdoc) kk i, (i < 1000000)%N ->
  (forall y j g a, In (y, FExp j g a) dd -> j <> i /\ (j < 1000000)%N) ->
  Forall (flat_leaf_free (ph_of i)) (fdata dd kk).
Proof.
  intros dd kk i Hi H. unfold fdata. apply Forall_forall. intros kv Hin. apply in_map_iff in Hin.
  destruct Hin as [[y v] [E Hin]]. subst kv. unfold flat_leaf_free. cbn [fst snd]. unfold fleaf.
  destruct v as [z|j g a].
  - eexists. split; [reflexivity|]. cbn [py_str]. apply ph_not_in_int.
  - destruct (kk y) as [z|].
    + eexists. split; [reflexivity|]. cbn [py_str]. apply ph_not_in_int.
    + eexists. split; [reflexivity|]. cbn [py_str]. destruct (H y j g a Hin) as [Hne Hj].
      rewrite (ph_contains_ph i j Hi Hj). apply N.eqb_neq. congruence.
Qed.

(* ---- extensionality --------------------------------------------------------------------------------- *)
Lemma known_all_ext : forall k k' a, (forall y, In y (avars a) -> k y = k' y) -> known_all k a = known_all k' a.
Proof.
  intros k k' a H. unfold known_all. induction (avars a) as [|y l IH]; [reflexivity|].
  cbn [forallb]. rewrite (H y (or_introl eq_refl)), IH; [reflexivity|]. intros z Hz. apply H. right. exact Hz.
Qed.

Lemma eval_in_ext : forall k k' a, (forall y, k y = k' y) -> eval_in k a = eval_in k' a.
Proof.
  intros k k' a H. unfold eval_in. rewrite (known_all_ext k k' a) by (intros; apply H).
  destruct (known_all k' a); [|reflexivity]. f_equal. apply aeval_ext. intros y _. unfold env_of. rewrite H. reflexivity.
Qed.

Lemma kstep_ext : forall d k k' x, (forall y, k y = k' y) -> kstep d k x = kstep d k' x.
Proof.
  intros d k k' x H. unfold kstep. destruct (flookup x d) as [[z|i g a]|]; try reflexivity. apply eval_in_ext. exact H.
Qed.

Lemma ftable_ext_rho : forall d rho rho' k, (forall y, rho y = rho' y) -> ftable d rho k = ftable d rho' k.
Proof.
  intros d rho rho' k H. unfold ftable. apply flat_map_ext. intros [x v]. unfold fentry. cbn [fst snd].
  destruct v as [z|i g a]; [reflexivity|]. destruct (k x); [reflexivity|].
  rewrite (render_ext rho rho' g a) by (intros; apply H). reflexivity.
Qed.

Lemma fdata_ext_k : forall (d : fdoc) k k2, (forall x i g a, In (x, FExp i g a) d -> k x = k2 x) -> fdata d k = fdata d k2.
Proof.
  intros d k k2 H. unfold fdata. apply map_ext_in. intros [x v] Hin. cbn [fst snd]. unfold fleaf.
  destruct v as [z|i g a]; [reflexivity|]. rewrite (H x i g a Hin). reflexivity.
Qed.

Lemma ftable_ext_k : forall (d : fdoc) rho k k2, (forall x i g a, In (x, FExp i g a) d -> k x = k2 x) ->
  ftable d rho k = ftable d rho k2.
Proof.
  induction d as [|[x v] d IH]; intros rho k k2 H; [reflexivity|].
  unfold ftable in *. cbn [flat_map]. rewrite (IH rho k k2) by (intros; eapply H; right; eassumption). f_equal.
  unfold fentry. cbn [fst snd]. destruct v as [z|i g a]; [reflexivity|]. rewrite (H x i g a) by (left; reflexivity). reflexivity.
Qed.

Lemma forallb_false_ex : forall {A} (f : A -> bool) l, forallb f l = false -> exists x, In x l /\ f x = false.
Proof.
  intros A f. induction l as [|x l IH]; intro H; cbn [forallb] in H; [discriminate|].
  destruct (f x) eqn:E.
  - cbn [andb] in H. destruct (IH H) as [y [Hy Ey]]. exists y. split; [right; exact Hy | exact Ey].
  - exists x. split; [left; reflexivity | exact E].
Qed.

Lemma NoDup_filter' : forall {A} (f : A -> bool) l, NoDup l -> NoDup (filter f l).
Proof.
  intros A f. induction l as [|x l IH]; intro H; cbn [filter]; [constructor|].
  inversion H as [|? ? Hx Hl]; subst. destruct (f x); [|apply IH; exact Hl].
  constructor; [|apply IH; exact Hl]. intro Hin. apply filter_In in Hin. apply Hx. tauto.
Qed.

(* ================================================================================================ *)
(* One flat document                                                                                *)
(* ================================================================================================ *)
Section FlatDoc.
  Variable d : fdoc.
  Variables (lc bc : list (N * str)) (inc : list (N * include_entry)).
  Hypothesis Hok : fdoc_ok d.

  Let Hnames : NoDup (map fst d) := proj1 Hok.
  Let Hids : NoDup (fexp_ids d) := proj1 (proj2 Hok).
  Let Hexps : Forall fexp_ok (map snd d) := proj2 (proj2 Hok).

  Lemma fexp_in : forall x i g a, In (x, FExp i g a) d ->
    (i < 1000000)%N /\ blank_fn g /\ Forall word_name (avars a) /\ avars a <> [] /\ (forall y, a <> AVar y).
  Proof.
    intros x i g a Hin. assert (H : fexp_ok (FExp i g a)).
    { rewrite Forall_forall in Hexps. apply Hexps. apply in_map_iff. exists (x, FExp i g a). split; [reflexivity|exact Hin]. }
    exact H.
  Qed.

  (* the invariant of the states the loop runs through *)
  Record inv (rho k : str -> option Z) : Prop := {
    inv_le : env_le rho (rmap d k);
    inv_dollar : forall x i g a, In (x, FExp i g a) d -> k x = None -> known_all rho a = false
  }.

  Lemma resolve_fstate : forall rho k y, inv rho k -> word_name y ->
    resolve_reference (variables_of (fstate d lc bc inc rho k)) (ref_of y) =
    match rmap d k y with Some v => RVal (Leaf (SInt v)) | None => RNone end.
  Proof.
    intros rho k y Hinv Hy. unfold variables_of, fstate. cbn [sd_expr sd_data].
    set (vars := vars_tree (ftable d rho k) false (Dict (fdata d k)) []).
    assert (Hl : alookup (KS y) vars =
                 match alookup (KS y) (fdata d k) with
                 | Some v => let v' := insert_expression v (ftable d rho k) in if circular (KS y) v' then None else Some v'
                 | None => None
                 end).
    { apply variables_flat; [apply fdata_flat | apply fdata_nodup; exact Hnames]. }
    rewrite alookup_fdata in Hl. unfold rmap.
    destruct (ref_of_parts y Hy) as [Hn _].
    destruct (flookup y d) as [[z|i g a]|] eqn:Ef; cbn [option_map fleaf] in Hl.
    - cbv zeta in Hl. cbn [insert_expression circular] in Hl. apply resolve_int; assumption.
    - apply flookup_some_in in Ef. destruct (fexp_in _ _ _ _ Ef) as [Hi [Hg [Hw [_ Hb]]]].
      destruct (k y) as [v|] eqn:Ek.
      + cbv zeta in Hl. cbn [insert_expression circular] in Hl. apply resolve_int; assumption.
      + cbv zeta in Hl. rewrite (insert_expression_ph i _ Hi) in Hl.
        rewrite (ftable_lookup d rho k y i g a Hids Ef Ek) in Hl.
        destruct (circular (KS y) (Leaf (SStr (render_in rho g a)))).
        * apply resolve_undeclared. rewrite Hn. exact Hl.
        * apply (resolve_text vars y (render_in rho g a) Hy Hl).
          -- rewrite (dollar_render rho g a Hg Hw). rewrite (inv_dollar rho k Hinv y i g a Ef Ek). reflexivity.
          -- apply (render_not_plain rho g a Hg Hw Hb).
    - apply resolve_undeclared. rewrite Hn. exact Hl.
  Qed.

  Lemma pvars_word : forall dd rho k y, Forall fexp_ok (map snd dd) -> In y (pvars dd rho k) -> word_name y.
  Proof.
    induction dd as [|[x v] dd IH]; intros rho k y H Hin; [contradiction|].
    cbn [map snd] in H. inversion H as [|? ? Hv Hd]; subst.
    unfold pvars in Hin. cbn [flat_map] in Hin. apply in_app_or in Hin. destruct Hin as [Hin|Hin]; [|eapply IH; eassumption].
    unfold pvars_entry in Hin. cbn [fst snd] in Hin. destruct v as [z|i g a]; [contradiction|].
    destruct (k x); [contradiction|]. apply filter_In in Hin. destruct Hin as [Hin _].
    destruct Hv as [_ [_ [Hw _]]]. rewrite Forall_forall in Hw. apply Hw. exact Hin.
  Qed.

  Definition pnames (rho k : str -> option Z) : list str := dedup [] (pvars d rho k).

  Lemma resolve_all_fstate : forall rho k, inv rho k ->
    resolve_all (fstate d lc bc inc rho k) = Some (res_list (rmap d k) (pnames rho k), unres_count (rmap d k) (pnames rho k)).
  Proof.
    intros rho k Hinv. rewrite resolve_all_body. unfold fstate at 2. cbn [sd_expr].
    rewrite (all_refs_ftable d rho k Hexps).
    change (@nil str) with (map ref_of []) at 1. rewrite dedup_map_ref. fold (pnames rho k).
    apply resolve_body_names. intros y Hy. apply resolve_fstate; [exact Hinv|].
    apply (pvars_word d rho k y Hexps). apply dedup_in. exact Hy.
  Qed.

  Lemma pvars_in : forall rho k x i g a y, In (x, FExp i g a) d -> k x = None -> In y (avars a) -> rho y = None ->
    In y (pnames rho k).
  Proof.
    intros rho k x i g a y Hin Hk Hy Hr. unfold pnames. apply dedup_in. unfold pvars. apply in_flat_map.
    exists (x, FExp i g a). split; [exact Hin|]. unfold pvars_entry. cbn [fst snd]. rewrite Hk.
    apply filter_In. split; [exact Hy|]. unfold unknown. rewrite Hr. reflexivity.
  Qed.

  (* ---- one pass ---------------------------------------------------------------------------------------- *)
  Section Pass.
    Variables rho k k' : str -> option Z.
    Hypothesis Hinv : inv rho k.
    Hypothesis Hk'_new : forall x i g a, In (x, FExp i g a) d -> k x = None -> k' x = eval_in (rmap d k) a.
    Hypothesis Hk'_old : forall x v, k x = Some v -> k' x = Some v.

    Let rho' := rmap d k.
    Let res := res_list (rmap d k) (pnames rho k).

    Definition mixed (d1 d2 : fdoc) : sdict :=
      mkSD (fdata d1 k' ++ fdata d2 k) lc bc inc (ftable d1 rho' k' ++ ftable d2 rho k).

    Lemma substitute_entry : forall x i g a, In (x, FExp i g a) d -> k x = None ->
      substitute res (render_in rho g a) = render_in rho' g a.
    Proof.
      intros x i g a Hin Hk. destruct (fexp_in _ _ _ _ Hin) as [Hi [Hg [Hw [_ Hb]]]].
      rewrite (substitute_render res rho (rmap d k) g a Hg Hw).
      - apply render_ext. intros y Hy. unfold join_env, rho'. destruct (rho y) as [v|] eqn:Er; [|reflexivity].
        symmetry. apply (inv_le rho k Hinv). exact Er.
      - intros y Hy Hr. unfold res. apply rlookup_res_list. eapply pvars_in; eassumption.
    Qed.

    Lemma pass_mixed : forall d2 d1, d = d1 ++ d2 ->
      fold_left (pass_step res) (ftable d2 rho k) (Some (Ok (mixed d1 d2))) = Some (Ok (mixed d [])).
    Proof.
      induction d2 as [|[x v] d2 IH]; intros d1 Hd.
      - rewrite app_nil_r in Hd. subst d1. reflexivity.
      - assert (Hd' : d = (d1 ++ [(x, v)]) ++ d2) by (rewrite <- app_assoc; exact Hd).
        assert (Hin : In (x, v) d) by (rewrite Hd; apply in_or_app; right; left; reflexivity).
        unfold ftable. cbn [flat_map]. rewrite fold_left_app. fold (ftable d2 rho k).
        assert (Hstep : fold_left (pass_step res) (fentry rho k (x, v)) (Some (Ok (mixed d1 ((x, v) :: d2)))) =
                        Some (Ok (mixed (d1 ++ [(x, v)]) d2))).
        { unfold fentry. cbn [fst snd]. destruct v as [z|i g a].
          - cbn [fold_left]. unfold mixed. rewrite fdata_app, ftable_app. cbn [fdata ftable flat_map map fentry fst snd fleaf app].
            rewrite <- !app_assoc. reflexivity.
          - destruct (k x) as [z|] eqn:Ek.
            + cbn [fold_left]. unfold mixed. rewrite fdata_app, ftable_app.
              cbn [fdata ftable flat_map map fentry fst snd fleaf app]. rewrite Ek, (Hk'_old x z Ek).
              rewrite <- !app_assoc. reflexivity.
            + cbn [fold_left].
              destruct (fexp_in _ _ _ _ Hin) as [Hi [Hg [Hw [_ Hb]]]].
              destruct (render_not_plain rho g a Hg Hw Hb) as [Hplain _].
              pose proof (substitute_entry x i g a Hin Ek) as Hsub.
              (* ids *)
              assert (Hids' : NoDup (fexp_ids d1 ++ i :: fexp_ids d2)).
              { pose proof Hids as H. rewrite Hd, fexp_ids_app in H. exact H. }
              assert (Hi1 : ~ In i (fexp_ids d1)).
              { intro H. apply NoDup_remove_2 in Hids'. apply Hids'. apply in_or_app. left. exact H. }
              assert (Hi2 : ~ In i (fexp_ids d2)).
              { intro H. apply NoDup_remove_2 in Hids'. apply Hids'. apply in_or_app. right. exact H. }
              assert (HT1 : ~ In i (map fst (ftable d1 rho' k'))).
              { intro H. apply Hi1. eapply ftable_ids_sub. exact H. }
              unfold mixed at 1. unfold ftable at 2. cbn [flat_map fentry fst snd]. rewrite Ek. cbn [app].
              cbn [fdata map fst snd fleaf]. rewrite Ek. fold (fdata d2 k). fold (ftable d2 rho k).
              unfold eval_in in Hk'_new.
              destruct (known_all (rmap d k) a) eqn:Eka.
              * (* everything it refers to is resolved: evaluate and insert *)
                set (z := aeval (env_of (rmap d k)) a).
                assert (Hkx : k' x = Some z).
                { rewrite (Hk'_new x i g a Hin Ek), Eka. reflexivity. }
                erewrite pass_step_eval with (z := z);
                  [ | exact Hplain
                    | rewrite Hsub; unfold rho'; rewrite (dollar_render _ g a Hg Hw), Eka; reflexivity
                    | rewrite Hsub; unfold rho'; apply pyeval_render_in; [exact Hg|];
                      intros y Hy; apply known_all_iff with (y := y) in Eka; [|exact Hy];
                      destruct Eka as [w Ew]; unfold env_of; rewrite Ew; reflexivity
                    | cbn [sd_data]; apply insert_result_flat ].
                -- cbn [sd_lc sd_bc sd_inc sd_expr]. rewrite (tdel_mid _ _ i _ HT1).
                   unfold mixed. rewrite fdata_app, ftable_app.
                   cbn [fdata ftable flat_map map fentry fst snd fleaf app]. rewrite Hkx.
                   rewrite <- !app_assoc. cbn [app]. reflexivity.
                -- (* distinct keys *)
                   assert (E : map fst (fdata d1 k' ++ (KS x, Leaf (SStr (ph_of i))) :: fdata d2 k) = map KS (map fst d)).
                   { rewrite Hd. rewrite map_app. cbn [map fst]. rewrite !fdata_keys. rewrite !map_app. reflexivity. }
                   rewrite E. apply NoDup_map_KS. exact Hnames.
                -- apply Forall_app. split; apply fdata_leaf_free; try exact Hi.
                   ++ intros y j g' a' Hy. split.
                      ** intro E. subst j. apply Hi1. eapply fexp_ids_in. exact Hy.
                      ** assert (Hy' : In (y, FExp j g' a') d) by (rewrite Hd; apply in_or_app; left; exact Hy).
                         apply (fexp_in _ _ _ _ Hy').
                   ++ intros y j g' a' Hy. split.
                      ** intro E. subst j. apply Hi2. eapply fexp_ids_in. exact Hy.
                      ** assert (Hy' : In (y, FExp j g' a') d) by (rewrite Hd; apply in_or_app; right; right; exact Hy).
                         apply (fexp_in _ _ _ _ Hy').
              * (* something is still unresolved: the partly substituted text is stored *)
                assert (Hkx : k' x = None).
                { rewrite (Hk'_new x i g a Hin Ek), Eka. reflexivity. }
                rewrite pass_step_keep;
                  [ | exact Hplain | rewrite Hsub; unfold rho'; rewrite (dollar_render _ g a Hg Hw), Eka; reflexivity ].
                cbn [sd_data sd_lc sd_bc sd_inc sd_expr]. rewrite (tset_mid _ _ i _ _ HT1). rewrite Hsub.
                unfold mixed. rewrite fdata_app, ftable_app.
                cbn [fdata ftable flat_map map fentry fst snd fleaf app]. rewrite Hkx.
                rewrite <- !app_assoc. cbn [app]. reflexivity. }
        rewrite Hstep. apply IH. exact Hd'.
    Qed.

    Lemma mixed_start : mixed [] d = fstate d lc bc inc rho k.
    Proof. reflexivity. Qed.
    Lemma mixed_end : mixed d [] = fstate d lc bc inc rho' k'.
    Proof. unfold mixed, fstate. cbn [fdata ftable map flat_map]. rewrite !app_nil_r. reflexivity. Qed.

    Lemma pass_fstate : eval_pass res (fstate d lc bc inc rho k) = Some (Ok (fstate d lc bc inc rho' k')).
    Proof.
      rewrite eval_pass_fold. unfold fstate at 1. cbn [sd_expr]. rewrite <- mixed_end.
      change (fstate d lc bc inc rho k) with (mixed [] d). apply pass_mixed. reflexivity.
    Qed.
  End Pass.

  (* ---- the states the loop runs through --------------------------------------------------------------- *)
  Lemma rmap_know : forall n y, rmap d (know d (S n)) y = know d (S n) y.
  Proof.
    intros n y. unfold rmap. cbn [know]. unfold kstep. destruct (flookup y d) as [[z|i g a]|]; reflexivity.
  Qed.

  Lemma know_fexp : forall n x i g a, In (x, FExp i g a) d -> know d (S n) x = eval_in (know d n) a.
  Proof.
    intros n x i g a Hin. cbn [know]. unfold kstep. rewrite (flookup_in d x _ Hnames Hin). reflexivity.
  Qed.

  Lemma inv_know : forall n, inv (know d n) (know d (S n)).
  Proof.
    intro n. split.
    - intros y v H. rewrite rmap_know. apply (know_mono1 d n). exact H.
    - intros x i g a Hin Hk. rewrite (know_fexp n x i g a Hin) in Hk. unfold eval_in in Hk.
      destruct (known_all (know d n) a); [discriminate | reflexivity].
  Qed.

  Definition St (n : nat) : sdict := fstate d lc bc inc (know d n) (know d (S n)).
  Definition RL (n : nat) : list (str * tree) := res_list (rmap d (know d (S n))) (pnames (know d n) (know d (S n))).
  Definition UL (n : nat) : list str := filter (unknown (rmap d (know d (S n)))) (pnames (know d n) (know d (S n))).
  Definition U (n : nat) : nat := length (UL n).

  Lemma resolve_all_St : forall n, resolve_all (St n) = Some (RL n, U n).
  Proof. intro n. unfold St. rewrite (resolve_all_fstate _ _ (inv_know n)). reflexivity. Qed.

  Lemma pass_St : forall n, eval_pass (RL n) (St n) = Some (Ok (St (S n))).
  Proof.
    intro n. unfold RL, St.
    rewrite (pass_fstate (know d n) (know d (S n)) (know d (S (S n))) (inv_know n)).
    - unfold fstate. do 2 f_equal. f_equal. apply ftable_ext_rho. intro y. apply rmap_know.
    - intros x i g a Hin _. rewrite (know_fexp (S n) x i g a Hin). apply eval_in_ext. intro y. symmetry. apply rmap_know.
    - intros x v H. apply (know_mono1 d (S n)). exact H.
  Qed.

  Lemma loop_St : forall f n, (S (U n) <= f)%nat ->
    exists m, (n <= m)%nat /\ (U m <= U (S m))%nat /\ eval_loop f (St n) (RL n) (U n) = Some (Ok (St (S m))).
  Proof.
    induction f as [|f IH]; intros n Hf; [lia|].
    cbn [eval_loop]. rewrite pass_St, resolve_all_St.
    destruct (Nat.ltb (U (S n)) (U n)) eqn:E.
    - apply Nat.ltb_lt in E. destruct (IH (S n)) as [m [Hm [Hs He]]]; [lia|].
      exists m. split; [lia|]. split; [exact Hs | exact He].
    - apply Nat.ltb_ge in E. exists n. split; [lia|]. split; [exact E | reflexivity].
  Qed.

  (* ---- when the count stops decreasing nothing more can be evaluated ------------------------------------ *)
  Lemma pvars_inv : forall dd rho k y, In y (pvars dd rho k) ->
    exists x i g a, In (x, FExp i g a) dd /\ k x = None /\ In y (avars a) /\ rho y = None.
  Proof.
    intros dd rho k y H. unfold pvars in H. apply in_flat_map in H. destruct H as [[x v] [Hin Hy]].
    unfold pvars_entry in Hy. cbn [fst snd] in Hy. destruct v as [z|i g a]; [contradiction|].
    destruct (k x) eqn:Ek; [contradiction|]. apply filter_In in Hy. destruct Hy as [Hy Hu].
    exists x, i, g, a. repeat split; try assumption. unfold unknown in Hu. destruct (rho y); [discriminate | reflexivity].
  Qed.

  Lemma know_none_down : forall n m y, (n <= m)%nat -> know d m y = None -> know d n y = None.
  Proof.
    intros n m y Hle H. destruct (know d n y) as [v|] eqn:E; [|reflexivity].
    rewrite (know_mono d n m Hle y v E) in H. discriminate.
  Qed.

  Lemma UL_in : forall n y, In y (UL n) <->
    (exists x i g a, In (x, FExp i g a) d /\ know d (S n) x = None /\ In y (avars a)) /\ know d (S n) y = None.
  Proof.
    intros n y. unfold UL. rewrite filter_In. unfold pnames. rewrite dedup_in. unfold unknown. rewrite rmap_know. split.
    - intros [Hp Hu]. apply pvars_inv in Hp. destruct Hp as [x [i [g [a [Hin [Hk [Hy _]]]]]]]. split.
      + exists x, i, g, a. tauto.
      + destruct (know d (S n) y); [discriminate | reflexivity].
    - intros [[x [i [g [a [Hin [Hk Hy]]]]]] Hn]. split.
      + unfold pvars. apply in_flat_map. exists (x, FExp i g a). split; [exact Hin|].
        unfold pvars_entry. cbn [fst snd]. rewrite Hk. apply filter_In. split; [exact Hy|].
        unfold unknown. rewrite (know_none_down n (S n) y) by (try lia; exact Hn). reflexivity.
      + rewrite Hn. reflexivity.
  Qed.

  Lemma UL_nodup : forall n, NoDup (UL n).
  Proof. intro n. unfold UL. apply NoDup_filter'. unfold pnames. apply dedup_nodup. Qed.

  Lemma stall_fixpoint : forall m, (U m <= U (S m))%nat -> forall x, know d (S (S (S m))) x = know d (S (S m)) x.
  Proof.
    intros m Hs x.
    destruct (know d (S (S m)) x) as [v|] eqn:E2; [apply (know_mono1 d (S (S m))); exact E2|].
    destruct (know d (S (S (S m))) x) as [v|] eqn:E3; [|reflexivity]. exfalso.
    assert (Hx : exists i g a, In (x, FExp i g a) d).
    { cbn [know] in E2. unfold kstep in E2. destruct (flookup x d) as [[z|i g a]|] eqn:Ef; [discriminate| |].
      - exists i, g, a. apply flookup_some_in. exact Ef.
      - cbn [know] in E3. unfold kstep in E3. rewrite Ef in E3. discriminate. }
    destruct Hx as [i [g [a Hin]]].
    rewrite (know_fexp (S (S m)) x i g a Hin) in E3. rewrite (know_fexp (S m) x i g a Hin) in E2.
    unfold eval_in in E2, E3.
    destruct (known_all (know d (S (S m))) a) eqn:K3; [|discriminate].
    destruct (known_all (know d (S m)) a) eqn:K2; [discriminate|].
    unfold known_all in K2. apply forallb_false_ex in K2. destruct K2 as [y0 [Hy0 Ey0]].
    assert (N2 : know d (S m) y0 = None) by (destruct (know d (S m) y0); [discriminate | reflexivity]).
    apply known_all_iff with (y := y0) in K3; [|exact Hy0]. destruct K3 as [w Ew].
    assert (Hxm : know d (S m) x = None).
    { apply (know_none_down (S m) (S (S m))); [lia|]. rewrite (know_fexp (S m) x i g a Hin). unfold eval_in.
      assert (Hk : known_all (know d (S m)) a = false).
      { unfold known_all. apply not_true_is_false. intro Ht. rewrite forallb_forall in Ht. specialize (Ht y0 Hy0).
        rewrite Ey0 in Ht. discriminate. }
      rewrite Hk. reflexivity. }
    assert (HA : In y0 (UL m)).
    { apply UL_in. split; [|exact N2]. exists x, i, g, a. tauto. }
    assert (HB : ~ In y0 (UL (S m))).
    { intro H. apply UL_in in H. destruct H as [_ H]. congruence. }
    assert (Hincl : incl (y0 :: UL (S m)) (UL m)).
    { intros y [Hy|Hy]; [subst y; exact HA|]. apply UL_in in Hy. destruct Hy as [[x1 [i1 [g1 [a1 [Hin1 [Hk1 Hy1]]]]]] Hn1].
      apply UL_in. split.
      - exists x1, i1, g1, a1. split; [exact Hin1|]. split; [|exact Hy1]. apply (know_none_down (S m) (S (S m))); [lia | exact Hk1].
      - apply (know_none_down (S m) (S (S m))); [lia | exact Hn1]. }
    assert (Hnd : NoDup (y0 :: UL (S m))) by (constructor; [exact HB | apply UL_nodup]).
    pose proof (NoDup_incl_length Hnd Hincl) as Hlen. cbn [length] in Hlen. unfold U in Hs. lia.
  Qed.

  Lemma fixpoint_forever : forall j, (forall x, know d (S j) x = know d j x) ->
    forall n x, (j <= n)%nat -> know d n x = know d j x.
  Proof.
    intros j Hfix n x Hle. revert x. induction Hle as [|n Hle IH]; intro x; [reflexivity|].
    cbn [know]. rewrite (kstep_ext d (know d n) (know d j) x IH). exact (Hfix x).
  Qed.

  (* the values in the state the loop stops in are the final ones *)
  Lemma stall_final : forall m, (U m <= U (S m))%nat -> forall n x v, know d n x = Some v -> know d (S (S m)) x = Some v.
  Proof.
    intros m Hs n x v H. destruct (Nat.le_ge_cases n (S (S m))) as [Hle|Hge].
    - apply (know_mono d n (S (S m)) Hle). exact H.
    - rewrite <- (fixpoint_forever (S (S m)) (stall_fixpoint m Hs) n x Hge). exact H.
  Qed.

  (* ---- the start ------------------------------------------------------------------------------------- *)
  Lemma know1_fexp : forall x i g a, In (x, FExp i g a) d -> know d 1 x = None.
  Proof.
    intros x i g a Hin. rewrite (know_fexp 0 x i g a Hin). unfold eval_in.
    destruct (fexp_in _ _ _ _ Hin) as [_ [_ [_ [Hne _]]]].
    destruct (avars a) as [|y l] eqn:E; [contradiction Hne; reflexivity|].
    unfold known_all. rewrite E. reflexivity.
  Qed.

  Lemma flat_sdict_St0 : flat_sdict d lc bc inc = St 0.
  Proof.
    unfold flat_sdict, St, fstate. f_equal.
    - apply fdata_ext_k. intros x i g a Hin. symmetry. apply (know1_fexp x i g a Hin).
    - change (know d 0) with nothing. apply ftable_ext_k. intros x i g a Hin. symmetry. apply (know1_fexp x i g a Hin).
  Qed.

  Lemma eval_expressions_flat : exists m, (U m <= U (S m))%nat /\
    eval_expressions (flat_sdict d lc bc inc) = Some (back_insert (St (S m))).
  Proof.
    rewrite flat_sdict_St0. unfold eval_expressions. rewrite resolve_all_St.
    destruct (loop_St (S (S (U 0))) 0) as [m [_ [Hs He]]]; [lia|].
    exists m. split; [exact Hs|]. rewrite He. reflexivity.
  Qed.

  (* ---- every name has a value: the result is the direct evaluation -------------------------------------- *)
  Definition value_of (x : str) : Z := match denote d x with Some v => v | None => 0%Z end.

  Lemma direct_value_total :
    (forall x, In x (map fst d) -> denote d x <> None) ->
    eval_expressions (flat_sdict d lc bc inc) =
    Some (Ok (mkSD (map (fun xv => (KS (fst xv), Leaf (SInt (value_of (fst xv))))) d) lc bc inc [])).
  Proof.
    intro Htot. destruct eval_expressions_flat as [m [Hs He]]. rewrite He. clear He.
    assert (Hk : forall x, In x (map fst d) -> know d (S (S m)) x = Some (value_of x)).
    { intros x Hx. specialize (Htot x Hx). unfold value_of. destruct (denote d x) as [v|] eqn:E; [|contradiction].
      apply (stall_final m Hs (S (length d))). exact E. }
    unfold St, fstate, back_insert. cbn [sd_expr sd_data sd_lc sd_bc sd_inc].
    assert (Et : ftable d (know d (S m)) (know d (S (S m))) = []).
    { unfold ftable. assert (G : forall dd, (forall xv, In xv dd -> In xv d) -> flat_map (fentry (know d (S m)) (know d (S (S m)))) dd = []).
      { induction dd as [|[x v] dd IH]; intro Hsub; [reflexivity|]. cbn [flat_map].
        rewrite IH by (intros; apply Hsub; right; assumption). rewrite app_nil_r.
        unfold fentry. cbn [fst snd]. destruct v as [z|i g a]; [reflexivity|].
        rewrite Hk; [reflexivity|]. apply in_map_iff. exists (x, FExp i g a). split; [reflexivity|]. apply Hsub. left. reflexivity. }
      apply G. auto. }
    rewrite Et. cbn [fold_left bind]. do 3 f_equal.
    unfold fdata. apply map_ext_in. intros [x v] Hin. cbn [fst snd]. f_equal.
    assert (Hx : In x (map fst d)) by (apply in_map_iff; exists (x, v); split; [reflexivity|exact Hin]).
    unfold fleaf. destruct v as [z|i g a].
    - pose proof (Hk x Hx) as H. cbn [know] in H. unfold kstep in H. rewrite (flookup_in d x _ Hnames Hin) in H.
      inversion H as [Hz]. rewrite <- Hz. reflexivity.
    - rewrite (Hk x Hx). reflexivity.
  Qed.

  (* ---- the general result: what cannot be evaluated is written back as its (partly substituted) text ------- *)
  Definition final_leaf (rho k : str -> option Z) (x : str) (v : fval) : tree :=
    match v with
    | FInt z => Leaf (SInt z)
    | FExp i g a => match k x with Some z => Leaf (SInt z) | None => Leaf (SStr (render_in rho g a)) end
    end.
  Definition final_data (rho k : str -> option Z) (dd : fdoc) : list (key * tree) :=
    map (fun xv => (KS (fst xv), final_leaf rho k (fst xv) (snd xv))) dd.

  Definition names_free : Prop :=
    forall x i g a, In (x, FExp i g a) d -> Forall (fun y => contains w_EXPRESSION y = false) (avars a).

  Definition bi_step (acc : res (list (key * tree))) (e : N * expr_entry) : res (list (key * tree)) :=
    bind acc (fun dd =>
      let '(_, (expression, ph)) := e in
      bind (insert_result (S (count_leaves (Dict dd))) ph (Leaf (SStr expression)) (Dict dd))
           (fun t => match t with Dict d' => Ok d' | _ => Ok dd end)).

  Lemma back_insert_fold : forall s,
    back_insert s = bind (fold_left bi_step (sd_expr s) (Ok (sd_data s)))
                         (fun dd => Ok (mkSD dd (sd_lc s) (sd_bc s) (sd_inc s) [])).
  Proof. reflexivity. Qed.

  Lemma final_data_keys : forall rho k dd, map fst (final_data rho k dd) = map KS (map fst dd).
  Proof. intros rho k dd. unfold final_data. rewrite !map_map. reflexivity. Qed.

  Lemma final_leaf_free : forall rho k dd i, (i < 1000000)%N -> names_free -> (forall xv, In xv dd -> In xv d) ->
    Forall (flat_leaf_free (ph_of i)) (final_data rho k dd).
  Proof.
    intros rho k dd i Hi Hfree Hsub. unfold final_data. apply Forall_forall. intros kv Hin. apply in_map_iff in Hin.
    destruct Hin as [[y v] [E Hin]]. subst kv. unfold flat_leaf_free. cbn [fst snd]. unfold final_leaf.
    destruct v as [z|j g a].
    - eexists. split; [reflexivity|]. cbn [py_str]. apply ph_not_in_int.
    - destruct (k y) as [z|].
      + eexists. split; [reflexivity|]. cbn [py_str]. apply ph_not_in_int.
      + eexists. split; [reflexivity|]. cbn [py_str]. pose proof (Hsub _ Hin) as Hd.
        destruct (fexp_in _ _ _ _ Hd) as [_ [Hg [Hw _]]].
        apply render_no_placeholder; [exact Hg | exact Hw | exact (Hfree y j g a Hd)].
  Qed.

  Lemma back_mixed : forall rho k, names_free -> forall d2 d1, d = d1 ++ d2 ->
    fold_left bi_step (ftable d2 rho k) (Ok (final_data rho k d1 ++ fdata d2 k)) = Ok (final_data rho k d).
  Proof.
    intros rho k Hfree. induction d2 as [|[x v] d2 IH]; intros d1 Hd.
    - rewrite app_nil_r in Hd. subst d1. cbn [ftable flat_map fold_left fdata map]. rewrite app_nil_r. reflexivity.
    - assert (Hd' : d = (d1 ++ [(x, v)]) ++ d2) by (rewrite <- app_assoc; exact Hd).
      assert (Hin : In (x, v) d) by (rewrite Hd; apply in_or_app; right; left; reflexivity).
      unfold ftable. cbn [flat_map]. rewrite fold_left_app. fold (ftable d2 rho k).
      assert (Hstep : fold_left bi_step (fentry rho k (x, v)) (Ok (final_data rho k d1 ++ fdata ((x, v) :: d2) k)) =
                      Ok (final_data rho k (d1 ++ [(x, v)]) ++ fdata d2 k)).
      { unfold fentry. cbn [fst snd]. unfold final_data. rewrite map_app. cbn [map fst snd fdata]. fold (fdata d2 k).
        fold (final_data rho k d1). rewrite <- app_assoc. cbn [app].
        destruct v as [z|i g a]; [reflexivity|]. unfold fleaf, final_leaf.
        destruct (k x) as [z|] eqn:Ek; [reflexivity|]. cbn [fold_left bi_step bind].
        destruct (fexp_in _ _ _ _ Hin) as [Hi [Hg [Hw _]]].
        assert (Hids' : NoDup (fexp_ids d1 ++ i :: fexp_ids d2)).
        { pose proof Hids as H. rewrite Hd, fexp_ids_app in H. exact H. }
        assert (Hi2 : ~ In i (fexp_ids d2)).
        { intro H. apply NoDup_remove_2 in Hids'. apply Hids'. apply in_or_app. right. exact H. }
        rewrite insert_result_flat; [reflexivity | |].
        - assert (E : map fst (final_data rho k d1 ++ (KS x, Leaf (SStr (ph_of i))) :: fdata d2 k) = map KS (map fst d)).
          { rewrite Hd. rewrite map_app. cbn [map fst]. rewrite final_data_keys, fdata_keys. rewrite !map_app. reflexivity. }
          rewrite E. apply NoDup_map_KS. exact Hnames.
        - apply Forall_app. split.
          + apply final_leaf_free; [exact Hi | exact Hfree |]. intros xv Hx. rewrite Hd. apply in_or_app. left. exact Hx.
          + apply fdata_leaf_free; [exact Hi|]. intros y j g' a' Hy. split.
            * intro E. subst j. apply Hi2. eapply fexp_ids_in. exact Hy.
            * assert (Hy' : In (y, FExp j g' a') d) by (rewrite Hd; apply in_or_app; right; right; exact Hy).
              apply (fexp_in _ _ _ _ Hy'). }
      rewrite Hstep. apply IH. exact Hd'.
  Qed.

  Lemma back_insert_fstate : forall rho k, names_free ->
    back_insert (fstate d lc bc inc rho k) = Ok (mkSD (final_data rho k d) lc bc inc []).
  Proof.
    intros rho k Hfree. rewrite back_insert_fold. unfold fstate. cbn [sd_expr sd_data sd_lc sd_bc sd_inc].
    pose proof (back_mixed rho k Hfree d [] eq_refl) as H. cbn [final_data map app] in H. rewrite H. reflexivity.
  Qed.

  Theorem flat_result : names_free ->
    exists m, (forall n x v, know d n x = Some v -> know d (S (S m)) x = Some v) /\
      eval_expressions (flat_sdict d lc bc inc) =
      Some (Ok (mkSD (final_data (know d (S m)) (know d (S (S m))) d) lc bc inc [])).
  Proof.
    intro Hfree. destruct eval_expressions_flat as [m [Hs He]]. exists m. split; [exact (stall_final m Hs)|].
    rewrite He. unfold St. rewrite (back_insert_fstate _ _ Hfree). reflexivity.
  Qed.

  Lemma know_undeclared : forall n y, flookup y d = None -> know d n y = None.
  Proof. intros [|n] y H; [reflexivity|]. cbn [know]. unfold kstep. rewrite H. reflexivity. Qed.

  (* an expression none of whose references ever gets a value -- undeclared, self- or mutually referential names --
     keeps its original text *)
  Theorem flat_never_known_kept : names_free -> forall x i g a, In (x, FExp i g a) d ->
    (forall y, In y (avars a) -> forall n, know d n y = None) ->
    exists s', eval_expressions (flat_sdict d lc bc inc) = Some (Ok s') /\
               alookup (KS x) (sd_data s') = Some (Leaf (SStr (render g a))) /\ sd_expr s' = [].
  Proof.
    intros Hfree x i g a Hin Hund. destruct (flat_result Hfree) as [m [_ He]].
    eexists. split; [exact He|]. cbn [sd_data sd_expr]. split; [|reflexivity].
    apply alookup_In_nodup; [rewrite final_data_keys; apply NoDup_map_KS; exact Hnames|].
    unfold final_data. apply in_map_iff. exists (x, FExp i g a). split; [|exact Hin]. cbn [fst snd]. f_equal.
    unfold final_leaf.
    assert (Hk : know d (S (S m)) x = None).
    { rewrite (know_fexp (S m) x i g a Hin). unfold eval_in.
      destruct (fexp_in _ _ _ _ Hin) as [_ [_ [_ [Hne _]]]].
      unfold known_all. destruct (avars a) as [|y l]; [contradiction Hne; reflexivity|].
      cbn [forallb]. rewrite (Hund y (or_introl eq_refl) (S m)). reflexivity. }
    rewrite Hk. do 2 f_equal. unfold render. apply render_ext. intros y Hy. apply Hund. exact Hy.
  Qed.

  Theorem flat_unresolved_kept : names_free -> forall x i g a, In (x, FExp i g a) d ->
    (forall y, In y (avars a) -> flookup y d = None) ->
    exists s', eval_expressions (flat_sdict d lc bc inc) = Some (Ok s') /\
               alookup (KS x) (sd_data s') = Some (Leaf (SStr (render g a))) /\ sd_expr s' = [].
  Proof.
    intros Hfree x i g a Hin Hund. apply (flat_never_known_kept Hfree x i g a Hin).
    intros y Hy n. apply know_undeclared. apply Hund. exact Hy.
  Qed.
End FlatDoc.

(* ================================================================================================ *)
(* Corollaries in terms of look-ups; independence of the declaration order                          *)
(* ================================================================================================ *)
From Coq Require Import Permutation.

Definition total_doc (d : fdoc) : bool := forallb (fun xv => is_some (denote d (fst xv))) d.

Lemma total_doc_spec : forall d, total_doc d = true -> forall x, In x (map fst d) -> denote d x <> None.
Proof.
  intros d H x Hx. unfold total_doc in H. rewrite forallb_forall in H. apply in_map_iff in Hx.
  destruct Hx as [[y v] [E Hin]]. cbn [fst] in E. subst y. specialize (H _ Hin). cbn [fst] in H.
  destruct (denote d x); [discriminate | discriminate].
Qed.

Lemma alookup_values : forall (f : str -> tree) (d : fdoc) x,
  alookup (KS x) (map (fun xv => (KS (fst xv), f (fst xv))) d) = if existsb (str_eqb x) (map fst d) then Some (f x) else None.
Proof.
  intros f. induction d as [|[y v] d IH]; intro x; [reflexivity|].
  cbn [map fst alookup key_eqb existsb]. destruct (str_eqb x y) eqn:E.
  - apply ScalarProofs.str_eqb_eq in E. subst y. reflexivity.
  - cbn [orb]. apply IH.
Qed.

(* C05_direct_value: every name holds the integer the direct recursive evaluation gives *)
Theorem direct_value : forall d lc bc inc, fdoc_ok d -> total_doc d = true ->
  exists s', eval_expressions (flat_sdict d lc bc inc) = Some (Ok s') /\
             sd_expr s' = [] /\ map fst (sd_data s') = map KS (map fst d) /\
             (forall x v, In x (map fst d) -> denote d x = Some v -> alookup (KS x) (sd_data s') = Some (Leaf (SInt v))).
Proof.
  intros d lc bc inc Hok Htot. eexists. split; [apply (direct_value_total d lc bc inc Hok (total_doc_spec d Htot))|].
  cbn [sd_expr sd_data]. split; [reflexivity|]. split; [rewrite !map_map; reflexivity|].
  intros x v Hx Hv. rewrite (alookup_values (fun y => Leaf (SInt (value_of d y))) d x).
  assert (E : existsb (str_eqb x) (map fst d) = true).
  { apply existsb_exists. exists x. split; [exact Hx | apply ScalarProofs.str_eqb_refl]. }
  rewrite E. unfold value_of. rewrite Hv. reflexivity.
Qed.

Lemma flookup_perm : forall d d' x, NoDup (map fst d) -> Permutation d d' -> flookup x d = flookup x d'.
Proof.
  intros d d' x Hnd Hp.
  assert (Hnd' : NoDup (map fst d')) by (eapply Permutation_NoDup; [apply Permutation_map; exact Hp | exact Hnd]).
  destruct (flookup x d) as [v|] eqn:E.
  - symmetry. apply flookup_in; [exact Hnd'|]. eapply Permutation_in; [exact Hp|]. apply flookup_some_in. exact E.
  - destruct (flookup x d') as [v'|] eqn:E'; [|reflexivity].
    apply flookup_some_in in E'. apply (Permutation_in _ (Permutation_sym Hp)) in E'.
    rewrite (flookup_in d x v' Hnd E') in E. discriminate.
Qed.

Lemma know_perm : forall d d', NoDup (map fst d) -> Permutation d d' -> forall n x, know d n x = know d' n x.
Proof.
  intros d d' Hnd Hp. induction n as [|n IH]; intro x; [reflexivity|].
  cbn [know]. rewrite (kstep_ext d (know d n) (know d' n) x IH). unfold kstep.
  rewrite (flookup_perm d d' x Hnd Hp). reflexivity.
Qed.

(* the direct evaluation does not depend on the order of the declarations ... *)
Lemma denote_perm : forall d d' x, NoDup (map fst d) -> Permutation d d' -> denote d x = denote d' x.
Proof.
  intros d d' x Hnd Hp. unfold denote. rewrite (Permutation_length Hp). apply know_perm; assumption.
Qed.

(* ... and therefore neither does what the reader computes *)
Theorem order_independent : forall d d' lc bc inc, fdoc_ok d -> fdoc_ok d' -> Permutation d d' -> total_doc d = true ->
  exists s s', eval_expressions (flat_sdict d lc bc inc) = Some (Ok s) /\
               eval_expressions (flat_sdict d' lc bc inc) = Some (Ok s') /\
               forall x, alookup (KS x) (sd_data s) = alookup (KS x) (sd_data s').
Proof.
  intros d d' lc bc inc Hok Hok' Hp Htot.
  assert (Hnd : NoDup (map fst d)) by apply Hok.
  assert (Htot' : forall x, In x (map fst d') -> denote d' x <> None).
  { intros x Hx. rewrite <- (denote_perm d d' x Hnd Hp). apply (total_doc_spec d Htot).
    eapply Permutation_in; [apply Permutation_sym; apply Permutation_map; exact Hp | exact Hx]. }
  eexists. eexists. split; [apply (direct_value_total d lc bc inc Hok (total_doc_spec d Htot))|].
  split; [apply (direct_value_total d' lc bc inc Hok' Htot')|].
  intro x. cbn [sd_data].
  rewrite (alookup_values (fun y => Leaf (SInt (value_of d y))) d x).
  rewrite (alookup_values (fun y => Leaf (SInt (value_of d' y))) d' x).
  assert (E : existsb (str_eqb x) (map fst d) = existsb (str_eqb x) (map fst d')).
  { apply eq_true_iff_eq. rewrite !existsb_exists. split; intros [y [Hy Ey]]; exists y; (split; [|exact Ey]).
    - eapply Permutation_in; [apply Permutation_map; exact Hp | exact Hy].
    - eapply Permutation_in; [apply Permutation_sym; apply Permutation_map; exact Hp | exact Hy]. }
  rewrite E. unfold value_of. rewrite (denote_perm d d' x Hnd Hp). reflexivity.
Qed.

(* ================================================================================================ *)
(* The direct evaluation with depth (number of entries + 1) is defined on every acyclic document     *)
(* ================================================================================================ *)
Section Acyclic.
  Variable d : fdoc.
  Hypothesis Hnd : NoDup (map fst d).

  Let kn (n : nat) (x : str) : bool := is_some (know d n x).
  Let cnt (n : nat) : nat := length (filter (kn n) (map fst d)).

  Lemma filter_length_le : forall (f g : str -> bool) l, (forall y, f y = true -> g y = true) ->
    (length (filter f l) <= length (filter g l))%nat.
  Proof.
    intros f g l H. induction l as [|y l IH]; [apply le_n|]. cbn [filter].
    destruct (f y) eqn:Ef.
    - rewrite (H y Ef). cbn [length]. lia.
    - destruct (g y); cbn [length]; lia.
  Qed.

  Lemma filter_length_lt : forall (f g : str -> bool) l x, (forall y, f y = true -> g y = true) ->
    In x l -> f x = false -> g x = true -> (length (filter f l) < length (filter g l))%nat.
  Proof.
    intros f g l x H. induction l as [|y l IH]; intros Hin Hf Hg; [contradiction|]. cbn [filter].
    destruct Hin as [Hin|Hin].
    - subst y. rewrite Hf, Hg. cbn [length]. pose proof (filter_length_le f g l H). lia.
    - specialize (IH Hin Hf Hg). destruct (f y) eqn:Ef.
      + rewrite (H y Ef). cbn [length]. lia.
      + destruct (g y); cbn [length]; lia.
  Qed.

  Lemma kn_mono : forall n y, kn n y = true -> kn (S n) y = true.
  Proof.
    intros n y H. unfold kn in *. destruct (know d n y) as [v|] eqn:E; [|discriminate].
    rewrite (know_mono1 d n y v E). reflexivity.
  Qed.

  Lemma flookup_none : forall x, ~ In x (map fst d) -> flookup x d = None.
  Proof.
    intros x H. destruct (flookup x d) as [v|] eqn:E; [|reflexivity]. exfalso. apply H.
    apply flookup_some_in in E. apply in_map_iff. exists (x, v). split; [reflexivity | exact E].
  Qed.

  Lemma cnt_stall : forall n, cnt (S n) = cnt n -> forall x, know d (S n) x = know d n x.
  Proof.
    intros n Hc x. destruct (know d n x) as [v|] eqn:E; [apply (know_mono1 d n); exact E|].
    destruct (know d (S n) x) as [v|] eqn:E'; [|reflexivity]. exfalso.
    assert (Hx : In x (map fst d)).
    { destruct (in_dec (list_eq_dec N.eq_dec) x (map fst d)) as [Hi|Hn]; [exact Hi|].
      cbn [know] in E'. unfold kstep in E'. rewrite (flookup_none x Hn) in E'. discriminate. }
    assert (Hlt : (cnt n < cnt (S n))%nat).
    { unfold cnt. apply (filter_length_lt (kn n) (kn (S n)) (map fst d) x (kn_mono n) Hx); unfold kn.
      - rewrite E. reflexivity.
      - rewrite E'. reflexivity. }
    lia.
  Qed.

  Lemma cnt_search : forall n, (exists j, (j < n)%nat /\ cnt (S j) = cnt j) \/ (n <= cnt n)%nat.
  Proof.
    induction n as [|n IH]; [right; lia|].
    destruct IH as [[j [Hj Hs]]|Hle]; [left; exists j; split; [lia | exact Hs]|].
    pose proof (filter_length_le (kn n) (kn (S n)) (map fst d) (kn_mono n)) as Hm. fold (cnt n) in Hm. fold (cnt (S n)) in Hm.
    destruct (Nat.eq_dec (cnt (S n)) (cnt n)) as [He|Hne]; [left; exists n; split; [lia | exact He] | right; lia].
  Qed.

  Lemma know_fixpoint_exists : exists j, (j <= length d)%nat /\ forall x, know d (S j) x = know d j x.
  Proof.
    destruct (cnt_search (S (length d))) as [[j [Hj Hs]]|Hle].
    - exists j. split; [lia|]. apply cnt_stall. exact Hs.
    - exfalso. assert (H : (cnt (S (length d)) <= length (map fst d))%nat).
      { unfold cnt. generalize (map fst d) as l. induction l as [|y l IHl]; [apply le_n|]. cbn [filter].
        destruct (kn (S (length d)) y); cbn [length]; lia. }
      rewrite map_length in H. lia.
  Qed.

  Lemma know_after_fixpoint : forall j, (forall x, know d (S j) x = know d j x) ->
    forall n x, (j <= n)%nat -> know d n x = know d j x.
  Proof.
    intros j Hfix n x Hle. revert x. induction Hle as [|n Hle IH]; intro x; [reflexivity|].
    cbn [know]. rewrite (kstep_ext d (know d n) (know d j) x IH). exact (Hfix x).
  Qed.

  (* every reference is declared and there is a rank that decreases along references *)
  Definition acyclic_doc (rank : str -> nat) : Prop :=
    forall x i g a, In (x, FExp i g a) d -> forall y, In y (avars a) -> In y (map fst d) /\ (rank y < rank x)%nat.

  Theorem acyclic_total : forall rank, acyclic_doc rank -> forall x, In x (map fst d) -> denote d x <> None.
  Proof.
    intros rank Hac. destruct know_fixpoint_exists as [j [Hj Hfix]].
    assert (Hall : forall r x, (rank x < r)%nat -> In x (map fst d) -> know d j x <> None).
    { induction r as [|r IH]; intros x Hr Hx; [lia|].
      apply in_map_iff in Hx. destruct Hx as [[x' v] [E Hin]]. cbn [fst] in E. subst x'.
      rewrite <- (Hfix x). cbn [know]. unfold kstep. rewrite (flookup_in d x v Hnd Hin).
      destruct v as [z|i g a]; [discriminate|]. unfold eval_in.
      assert (Hk : known_all (know d j) a = true).
      { apply known_all_iff. intros y Hy. destruct (Hac x i g a Hin y Hy) as [Hyd Hyr].
        destruct (know d j y) as [w|] eqn:Ey; [eauto|]. exfalso. apply (IH y); [lia | exact Hyd | exact Ey]. }
      rewrite Hk. discriminate. }
    intros x Hx. unfold denote. rewrite (know_after_fixpoint j Hfix (S (length d)) x) by lia.
    apply (Hall (S (rank x))); [lia | exact Hx].
  Qed.
End Acyclic.

(* ---- summary statements used by Properties/C05.v ------------------------------------------------------ *)
Lemma loop_terminates : forall f s resolved u, (S u <= f)%nat ->
  eval_loop f s resolved u = eval_loop (S u) s resolved u /\ loop_rel s resolved u (eval_loop f s resolved u).
Proof. intros f s resolved u H. split; [apply eval_loop_fuel | apply eval_loop_rel]; exact H. Qed.

(* ================================================================================================ *)
(* The re-insertion loop terminates                                                                 *)
(* ================================================================================================ *)
(* number of leaves whose text contains the placeholder *)
Fixpoint bad (ph : str) (t : tree) : nat :=
  match t with
  | Leaf s => if contains ph (py_str s) then 1%nat else 0%nat
  | Dict kvs => fold_right (fun kv n => (bad ph (snd kv) + n)%nat) 0%nat kvs
  | Lst ts => fold_right (fun c n => (bad ph c + n)%nat) 0%nat ts
  end.

Lemma bad_le_leaves : forall ph t, (bad ph t <= count_leaves t)%nat.
Proof.
  intros ph. induction t as [s|kvs IH|ts IH] using tree_ind'.
  - cbn [bad count_leaves]. destruct (contains ph (py_str s)); lia.
  - cbn [bad count_leaves]. induction IH as [|kv l Hk Hl IHl]; cbn [fold_right]; lia.
  - cbn [bad count_leaves]. induction IH as [|c l Hc Hl IHl]; cbn [fold_right]; lia.
Qed.

Lemma bad_aset : forall ph k x kvs c, alookup k kvs = Some c ->
  (bad ph (Dict (aset k x kvs)) + bad ph c = bad ph (Dict kvs) + bad ph x)%nat.
Proof.
  intros ph k x. induction kvs as [|[k1 c1] l IH]; intros c H; cbn [alookup] in H; [discriminate|].
  cbn [aset]. destruct (key_eqb k k1).
  - inversion H; subst. cbn [bad fold_right snd]. lia.
  - specialize (IH c H). cbn [bad fold_right snd] in *. lia.
Qed.

Lemma bad_set_nth : forall ph x i ts c, nth_error ts i = Some c ->
  (bad ph (Lst (set_nth i x ts)) + bad ph c = bad ph (Lst ts) + bad ph x)%nat.
Proof.
  intros ph x. induction i as [|i IH]; intros [|c1 l] c H; cbn [nth_error] in H; try discriminate.
  - inversion H; subst. cbn [set_nth bad fold_right]. lia.
  - specialize (IH l c H). cbn [set_nth bad fold_right] in *. lia.
Qed.

Lemma bad_set_child : forall ph t k x t' c, child t k = Ok c -> set_child t k x = Ok t' ->
  (bad ph t' + bad ph c = bad ph t + bad ph x)%nat.
Proof.
  intros ph t k x t' c Hc Hs. destruct t as [s|kvs|ts]; cbn [child set_child] in *; [discriminate| |].
  - destruct (alookup k kvs) as [c0|] eqn:Ea; [|discriminate]. inversion Hc; subst c0. inversion Hs; subst t'.
    apply bad_aset. exact Ea.
  - destruct k as [z|s]; [|discriminate]. destruct (norm_index z (length ts)) as [i|]; [|discriminate].
    destruct (nth_error ts i) as [c0|] eqn:En; [|discriminate]. inversion Hc; subst c0. inversion Hs; subst t'.
    apply bad_set_nth. exact En.
Qed.

Lemma bad_set_at : forall ph v p t ii t' old, p <> [] -> get_path t p = Some old -> set_at t p v ii = Ok t' ->
  (bad ph t' + bad ph old = bad ph t + bad ph v)%nat.
Proof.
  intros ph v. induction p as [|k p IH]; intros t ii t' old Hne Hg Hs; [contradiction|].
  cbn [get_path] in Hg. destruct (child t k) as [c|e] eqn:Ec; [|discriminate].
  apply set_at_inv in Hs. destruct Hs as [x [Hsc [[Hp Hx]|[Hp [c' [Ec' Hs']]]]]].
  - subst p x. cbn [get_path] in Hg. inversion Hg; subst old. eapply bad_set_child; eassumption.
  - rewrite Ec in Ec'. inversion Ec'; subst c'.
    pose proof (IH c (S ii) x old Hp Hg Hs') as H1. pose proof (bad_set_child ph t k x t' c Ec Hsc) as H2. lia.
Qed.

(* well-formedness is kept *)
Lemma wf_child : forall t k c, wf t = true -> child t k = Ok c -> wf c = true.
Proof.
  intros t k c Hw Hc. destruct t as [s|kvs|ts]; cbn [child] in Hc; [discriminate| |].
  - destruct (alookup k kvs) as [c0|] eqn:Ea; [|discriminate]. inversion Hc; subst c0.
    apply (wf_dict_child kvs k c Hw). apply SDictProofs.alookup_Some_In. exact Ea.
  - destruct k as [z|s]; [|discriminate]. destruct (norm_index z (length ts)) as [i|]; [|discriminate].
    destruct (nth_error ts i) as [c0|] eqn:En; [|discriminate]. inversion Hc; subst c0.
    rewrite wf_lst in Hw. rewrite forallb_forall in Hw. apply Hw. eapply nth_error_In. exact En.
Qed.

Lemma forallb_set_nth : forall {A} (f : A -> bool) i x l, f x = true -> forallb f l = true -> forallb f (set_nth i x l) = true.
Proof.
  intros A f. induction i as [|i IH]; intros x [|y l] Hx Hl; cbn [set_nth forallb] in *; try reflexivity.
  - apply andb_true_iff in Hl. rewrite Hx. cbn [andb]. apply Hl.
  - apply andb_true_iff in Hl. destruct Hl as [H1 H2]. rewrite H1. apply IH; assumption.
Qed.

Lemma wf_set_child : forall t k x t', wf t = true -> wf x = true -> set_child t k x = Ok t' -> wf t' = true.
Proof.
  intros t k x t' Hw Hx Hs. destruct t as [s|kvs|ts]; cbn [set_child] in Hs; [discriminate| |].
  - inversion Hs; subst. apply aset_wf; assumption.
  - destruct k as [z|s]; [|discriminate]. destruct (norm_index z (length ts)) as [i|]; [|discriminate].
    inversion Hs; subst. rewrite wf_lst in *. apply forallb_set_nth; assumption.
Qed.

Lemma wf_set_at : forall v p t ii t', wf t = true -> wf v = true -> set_at t p v ii = Ok t' -> wf t' = true.
Proof.
  intros v. induction p as [|k p IH]; intros t ii t' Hw Hv Hs; [cbn [set_at] in Hs; inversion Hs; subst; exact Hw|].
  apply set_at_inv in Hs. destruct Hs as [x [Hsc [[Hp Hx]|[Hp [c [Ec Hs']]]]]].
  - subst x. apply (wf_set_child t k v t' Hw Hv Hsc).
  - apply (wf_set_child t k x t' Hw); [|exact Hsc]. apply (IH c (S ii) x); [apply (wf_child t k c Hw Ec) | exact Hv | exact Hs'].
Qed.

(* set_global_key raises KeyError / IndexError / RecursionError, never the model's E_Fuel *)
Lemma child_not_fuel : forall t k, child t k <> Raise E_Fuel.
Proof.
  intros t k. destruct t as [s|kvs|ts]; cbn [child]; [discriminate| |].
  - destruct (alookup k kvs); discriminate.
  - destruct k as [z|s]; [|discriminate]. destruct (norm_index z (length ts)) as [i|]; [|discriminate].
    destruct (nth_error ts i); discriminate.
Qed.
Lemma set_child_not_fuel : forall t k x, set_child t k x <> Raise E_Fuel.
Proof.
  intros t k x. destruct t as [s|kvs|ts]; cbn [set_child]; [discriminate|discriminate|].
  destruct k as [z|s]; [|discriminate]. destruct (norm_index z (length ts)); discriminate.
Qed.
Lemma set_at_not_fuel : forall v p t ii, set_at t p v ii <> Raise E_Fuel.
Proof.
  intros v. induction p as [|k p IH]; intros t ii; [cbn [set_at]; discriminate|].
  destruct p as [|k2 p]; [cbn [set_at]; apply set_child_not_fuel|].
  change (set_at t (k :: k2 :: p) v ii) with
    (bind (child t k) (fun c => if negb (is_container c) then Raise E_Key
                                else if Nat.eqb (S ii) 10 then Raise E_Recursion
                                else bind (set_at c (k2 :: p) v (S ii)) (fun c' => set_child t k c'))).
  pose proof (child_not_fuel t k) as Hc. destruct (child t k) as [c|e]; cbn [bind]; [|exact Hc].
  destruct (negb (is_container c)); [discriminate|]. destruct (Nat.eqb (S ii) 10); [discriminate|].
  pose proof (IH c (S ii)) as Hs. destruct (set_at c (k2 :: p) v (S ii)) as [c'|e]; cbn [bind]; [apply set_child_not_fuel | exact Hs].
Qed.

Lemma find_global_nonempty : forall ph d p, find_global_key ph d = Some p -> p <> [].
Proof.
  intros ph d p H. unfold find_global_key in H. destruct d as [s|kvs|ts]; [discriminate| |].
  - destruct (find_key ph (Dict kvs)) as [[|k0 p0]|]; [discriminate | inversion H; discriminate | discriminate].
  - destruct (find_key ph (Lst ts)) as [[|k0 p0]|]; [discriminate | inversion H; discriminate | discriminate].
Qed.

(* one round: a leaf that contains the placeholder is overwritten *)
Lemma insert_round : forall ph v d p d', wf d = true -> wf v = true ->
  find_global_key ph d = Some p -> set_global_key d p v = Ok d' ->
  wf d' = true /\ (bad ph d' + 1 = bad ph d + bad ph v)%nat.
Proof.
  intros ph v d p d' Hw Hv Hf Hs. split; [apply (wf_set_at v p d 0%nat d' Hw Hv Hs)|].
  destruct (find_sound ph d p Hw Hf) as [s [Hg Hc]].
  pose proof (bad_set_at ph v p d 0%nat d' (Leaf s) (find_global_nonempty ph d p Hf) Hg Hs) as H.
  cbn [bad] in H. rewrite Hc in H. exact H.
Qed.

Lemma insert_result_wf : forall fuel ph v d d', wf d = true -> wf v = true ->
  insert_result fuel ph v d = Ok d' -> wf d' = true.
Proof.
  induction fuel as [|f IH]; intros ph v d d' Hw Hv H; [discriminate|]. rewrite insert_result_S in H.
  destruct (find_global_key ph d) as [p|] eqn:Ef; [|inversion H; subst; exact Hw].
  destruct (set_global_key d p v) as [d1|e] eqn:Es; cbn [bind] in H; [|discriminate].
  destruct (insert_round ph v d p d1 Hw Hv Ef Es) as [Hw1 _].
  destruct (contains ph (py_str_tree v)); [inversion H; subst; exact Hw1|]. apply (IH ph v d1 d' Hw1 Hv H).
Qed.

Lemma insert_result_no_fuel_gen : forall fuel ph v d, wf d = true -> wf v = true ->
  (contains ph (py_str_tree v) = true \/ bad ph v = 0%nat) -> (bad ph d < fuel)%nat ->
  insert_result fuel ph v d <> Raise E_Fuel.
Proof.
  induction fuel as [|f IH]; intros ph v d Hw Hv Hd Hlt; [lia|]. rewrite insert_result_S.
  destruct (find_global_key ph d) as [p|] eqn:Ef; [|discriminate].
  pose proof (set_at_not_fuel v p d 0%nat) as Hnf. fold (set_global_key d p v) in Hnf.
  destruct (set_global_key d p v) as [d1|e] eqn:Es; cbn [bind]; [|exact Hnf].
  destruct (contains ph (py_str_tree v)) eqn:Ec; [discriminate|].
  destruct Hd as [Hd|Hd]; [discriminate|].
  destruct (insert_round ph v d p d1 Hw Hv Ef Es) as [Hw1 Hb].
  apply IH; [exact Hw1 | exact Hv | right; exact Hd | lia].
Qed.

(* ---- a placeholder of ordinary characters: a value one of whose leaves contains it spells it ------------- *)
Definition plain_char (c : cp) : bool :=
  (32 <=? c)%N && negb (c =? 127)%N && negb (c =? c_bsl)%N && negb (c =? c_sq)%N && negb (c =? c_dq)%N.
Definition plain_ph (ph : str) : bool := forallb plain_char ph.

Lemma repr_char_plain : forall q c, plain_char c = true -> (q = c_sq \/ q = c_dq) -> repr_char q c = [c].
Proof.
  intros q c H Hq. unfold plain_char in H. unfold repr_char.
  assert (E1 : (c =? c_bsl)%N = false) by (destruct (c =? c_bsl)%N; [rewrite !andb_false_r in H; discriminate H | reflexivity]).
  assert (E2 : (c =? q)%N = false).
  { destruct Hq; subst q.
    - destruct (c =? c_sq)%N; [rewrite !andb_false_r in H; discriminate H | reflexivity].
    - destruct (c =? c_dq)%N; [rewrite !andb_false_r in H; discriminate H | reflexivity]. }
  rewrite E1, E2.
  assert (H32 : (32 <=? c)%N = true) by (destruct (32 <=? c)%N; [reflexivity | discriminate H]).
  assert (H127 : (c =? 127)%N = false) by (destruct (c =? 127)%N; [rewrite !andb_false_r in H; discriminate H | reflexivity]).
  apply N.leb_le in H32.
  assert (E3 : (c =? c_lf)%N = false) by (apply N.eqb_neq; unfold c_lf; lia).
  assert (E4 : (c =? c_cr)%N = false) by (apply N.eqb_neq; unfold c_cr; lia).
  assert (E5 : (c =? c_tab)%N = false) by (apply N.eqb_neq; unfold c_tab; lia).
  assert (E6 : (c <? 32)%N = false) by (apply N.ltb_ge; exact H32).
  rewrite E3, E4, E5, E6, H127. reflexivity.
Qed.

Lemma starts_with_split : forall p s : str, starts_with p s = true -> exists post, s = p ++ post.
Proof.
  induction p as [|x p IH]; intros s H; [exists s; reflexivity|].
  destruct s as [|y s]; cbn [starts_with] in H; [discriminate|]. apply andb_true_iff in H. destruct H as [H1 H2].
  apply N.eqb_eq in H1. subst y. destruct (IH s H2) as [post E]. exists post. rewrite E. reflexivity.
Qed.

Lemma contains_split : forall p s : str, contains p s = true -> exists pre post, s = pre ++ p ++ post.
Proof.
  intros p. induction s as [|c s IH]; intro H; cbn [contains] in H.
  - destruct p; [exists [], []; reflexivity | discriminate].
  - apply orb_true_iff in H. destruct H as [H|H].
    + destruct (starts_with_split p (c :: s) H) as [post E]. exists [], post. exact E.
    + destruct (IH H) as [pre [post E]]. exists (c :: pre), post. rewrite E. reflexivity.
Qed.

Lemma contains_app_r : forall p a b : str, contains p b = true -> contains p (a ++ b) = true.
Proof.
  intros p. induction a as [|c a IH]; intros b H; [exact H|].
  cbn [app contains]. rewrite (IH b H). apply orb_true_r.
Qed.

Lemma starts_with_app_l : forall p a b : str, starts_with p a = true -> starts_with p (a ++ b) = true.
Proof.
  induction p as [|x p IH]; intros a b H; [reflexivity|].
  destruct a as [|y a]; cbn [starts_with] in H; [discriminate|]. cbn [app starts_with].
  apply andb_true_iff in H. destruct H as [H1 H2]. rewrite H1, (IH a b H2). reflexivity.
Qed.

Lemma contains_app_l : forall p a b : str, contains p a = true -> contains p (a ++ b) = true.
Proof.
  intros p. induction a as [|c a IH]; intros b H; cbn [contains] in H.
  - destruct p; [|discriminate]. destruct b; reflexivity.
  - cbn [app contains]. apply orb_true_iff in H. destruct H as [H|H].
    + change (c :: a ++ b) with ((c :: a) ++ b). rewrite (starts_with_app_l p (c :: a) b H). reflexivity.
    + rewrite (IH b H). apply orb_true_r.
Qed.

Lemma contains_mid : forall p pre post : str, contains p (pre ++ p ++ post) = true.
Proof.
  intros p pre post. apply contains_app_r. apply contains_app_l. apply contains_refl.
Qed.

Lemma flat_map_plain : forall q ph, plain_ph ph = true -> (q = c_sq \/ q = c_dq) -> @flat_map N N (repr_char q) ph = ph.
Proof.
  intros q. induction ph as [|c ph IH]; intros H Hq; [reflexivity|].
  unfold plain_ph in H. cbn [forallb] in H. apply andb_true_iff in H. destruct H as [H1 H2].
  cbn [flat_map]. rewrite (repr_char_plain q c H1 Hq), (IH H2 Hq). reflexivity.
Qed.

Lemma repr_str_contains : forall ph s, plain_ph ph = true -> contains ph s = true -> contains ph (py_repr_str s) = true.
Proof.
  intros ph s Hp H. destruct (contains_split ph s H) as [pre [post E]]. subst s. unfold py_repr_str. cbv zeta.
  set (q := if has_char c_sq (pre ++ ph ++ post) && negb (has_char c_dq (pre ++ ph ++ post)) then c_dq else c_sq).
  assert (Hq : q = c_sq \/ q = c_dq) by (unfold q; destruct (has_char c_sq _ && negb _); [right | left]; reflexivity).
  rewrite !flat_map_app, (flat_map_plain q ph Hp Hq).
  change (q :: (flat_map (repr_char q) pre ++ ph ++ flat_map (repr_char q) post) ++ [q])
    with ([q] ++ (flat_map (repr_char q) pre ++ ph ++ flat_map (repr_char q) post) ++ [q]).
  apply contains_app_r. apply contains_app_l. apply contains_mid.
Qed.

Lemma repr_scalar_contains : forall ph s, plain_ph ph = true -> contains ph (py_str s) = true ->
  contains ph (py_repr_scalar s) = true.
Proof.
  intros ph s Hp H. destruct s; try exact H. cbn [py_repr_scalar]. apply repr_str_contains; assumption.
Qed.

(* the repr of a list / dict body *)
Definition repr_list_body : list tree -> str :=
  fix go (l : list tree) : str :=
    match l with
    | [] => []
    | [c] => py_repr_tree c
    | c :: l' => py_repr_tree c ++ [c_comma; c_sp] ++ go l'
    end.
Definition repr_dict_body : list (key * tree) -> str :=
  fix go (l : list (key * tree)) : str :=
    match l with
    | [] => []
    | [(k, c)] => py_repr_key k ++ [c_colon; c_sp] ++ py_repr_tree c
    | (k, c) :: l' => py_repr_key k ++ [c_colon; c_sp] ++ py_repr_tree c ++ [c_comma; c_sp] ++ go l'
    end.
Lemma py_repr_lst : forall ts, py_repr_tree (Lst ts) = c_lbrk :: repr_list_body ts ++ [c_rbrk].
Proof. reflexivity. Qed.
Lemma py_repr_dict : forall kvs, py_repr_tree (Dict kvs) = c_lbrace :: repr_dict_body kvs ++ [c_rbrace].
Proof. reflexivity. Qed.

Lemma repr_tree_contains : forall ph, plain_ph ph = true -> forall t, (0 < bad ph t)%nat ->
  contains ph (py_repr_tree t) = true.
Proof.
  intros ph Hp. induction t as [s|kvs IH|ts IH] using tree_ind'; intro Hb.
  - cbn [bad] in Hb. cbn [py_repr_tree]. apply repr_scalar_contains; [exact Hp|].
    destruct (contains ph (py_str s)); [reflexivity | lia].
  - rewrite py_repr_dict. change (c_lbrace :: repr_dict_body kvs ++ [c_rbrace]) with ([c_lbrace] ++ repr_dict_body kvs ++ [c_rbrace]).
    apply contains_app_r. apply contains_app_l.
    cbn [bad] in Hb. induction IH as [|[k c] l Hc Hl IHl]; cbn [fold_right snd] in Hb; [lia|]. cbn [snd] in Hc.
    assert (Hcase : (0 < bad ph c)%nat \/ (0 < fold_right (fun kv n => (bad ph (snd kv) + n)%nat) 0%nat l)%nat) by lia.
    destruct l as [|kv2 l2].
    + cbn [repr_dict_body]. destruct Hcase as [H|H]; [|cbn [fold_right] in H; lia].
      apply contains_app_r. apply contains_app_r. apply Hc. exact H.
    + change (repr_dict_body ((k, c) :: kv2 :: l2))
        with (py_repr_key k ++ [c_colon; c_sp] ++ py_repr_tree c ++ [c_comma; c_sp] ++ repr_dict_body (kv2 :: l2)).
      destruct Hcase as [H|H].
      * apply contains_app_r. apply contains_app_r. apply contains_app_l. apply Hc. exact H.
      * apply contains_app_r. apply contains_app_r. apply contains_app_r. apply contains_app_r. apply IHl. exact H.
  - rewrite py_repr_lst. change (c_lbrk :: repr_list_body ts ++ [c_rbrk]) with ([c_lbrk] ++ repr_list_body ts ++ [c_rbrk]).
    apply contains_app_r. apply contains_app_l.
    cbn [bad] in Hb. induction IH as [|c l Hc Hl IHl]; cbn [fold_right] in Hb; [lia|].
    assert (Hcase : (0 < bad ph c)%nat \/ (0 < fold_right (fun c n => (bad ph c + n)%nat) 0%nat l)%nat) by lia.
    destruct l as [|c2 l2].
    + cbn [repr_list_body]. destruct Hcase as [H|H]; [|cbn [fold_right] in H; lia]. apply Hc. exact H.
    + change (repr_list_body (c :: c2 :: l2)) with (py_repr_tree c ++ [c_comma; c_sp] ++ repr_list_body (c2 :: l2)).
      destruct Hcase as [H|H].
      * apply contains_app_l. apply Hc. exact H.
      * apply contains_app_r. apply contains_app_r. apply IHl. exact H.
Qed.

Lemma plain_dichotomy : forall ph v, plain_ph ph = true -> contains ph (py_str_tree v) = true \/ bad ph v = 0%nat.
Proof.
  intros ph v Hp. destruct (bad ph v) as [|n] eqn:E; [right; reflexivity|]. left.
  destruct v as [s|kvs|ts].
  - cbn [py_str_tree]. cbn [bad] in E. destruct (contains ph (py_str s)); [reflexivity | discriminate].
  - cbn [py_str_tree]. apply repr_tree_contains; [exact Hp | lia].
  - cbn [py_str_tree]. apply repr_tree_contains; [exact Hp | lia].
Qed.

Lemma leaf_dichotomy : forall ph s, contains ph (py_str_tree (Leaf s)) = true \/ bad ph (Leaf s) = 0%nat.
Proof.
  intros ph s. cbn [py_str_tree bad]. destruct (contains ph (py_str s)); [left | right]; reflexivity.
Qed.

(* C05_insert_terminates *)
Theorem insert_terminates : forall ph v d, wf d = true -> wf v = true ->
  (contains ph (py_str_tree v) = true \/ bad ph v = 0%nat) ->
  insert_result (S (count_leaves d)) ph v d <> Raise E_Fuel.
Proof.
  intros ph v d Hw Hv Hd. apply insert_result_no_fuel_gen; try assumption.
  pose proof (bad_le_leaves ph d). lia.
Qed.

Theorem insert_terminates_plain : forall ph v d, wf d = true -> wf v = true -> plain_ph ph = true ->
  insert_result (S (count_leaves d)) ph v d <> Raise E_Fuel.
Proof. intros ph v d Hw Hv Hp. apply insert_terminates; try assumption. apply plain_dichotomy. exact Hp. Qed.

Theorem insert_terminates_leaf : forall ph s d, wf d = true ->
  insert_result (S (count_leaves d)) ph (Leaf s) d <> Raise E_Fuel.
Proof. intros ph s d Hw. apply insert_terminates; [exact Hw | reflexivity | apply leaf_dichotomy]. Qed.

(* ---- everything a reference resolves to is well formed ---------------------------------------------------- *)
Definition wfv (kv : key * tree) : Prop := wf (snd kv) = true.

Lemma insert_expression_wf : forall v exprs, wf v = true -> wf (insert_expression v exprs) = true.
Proof.
  intros v exprs H. destruct v as [[z|l|b| |t]|kvs|ts]; cbn [insert_expression]; try exact H.
  destruct (has_placeholder w_EXPRESSION t); [|exact H]. destruct (first_6digits t) as [i|]; [|exact H].
  destruct (tlookup i exprs) as [[e ph]|]; [reflexivity | exact H].
Qed.

Definition vt_dict_step (exprs : list (N * expr_entry)) (kv : key * tree) (acc : vtab) : vtab :=
  let (k, v) := kv in
  let acc1 := match v with
              | Dict _ => vars_tree exprs false v acc
              | Lst _ => if list_contains_dict v then vars_tree exprs true v acc else acc
              | Leaf _ => acc
              end in
  match k with
  | KI _ => acc1
  | KS name =>
      match v with
      | Lst _ => aset k v acc1
      | _ => let v' := insert_expression v exprs in if circular k v' then acc1 else aset k v' acc1
      end
  end.
Definition vt_lst_step (exprs : list (N * expr_entry)) (c : tree) (acc : vtab) : vtab :=
  match c with
  | Dict _ => vars_tree exprs false c acc
  | Lst _ => vars_tree exprs true c acc
  | Leaf _ => acc
  end.

Lemma vars_tree_dict : forall exprs b kvs acc,
  vars_tree exprs b (Dict kvs) acc = fold_left (fun a kv => vt_dict_step exprs kv a) kvs acc.
Proof.
  intros exprs b kvs. induction kvs as [|[k v] l IH]; intro acc; [reflexivity|].
  cbn [fold_left]. rewrite <- IH. reflexivity.
Qed.
Lemma vars_tree_lst : forall exprs b ts acc,
  vars_tree exprs b (Lst ts) acc = fold_left (fun a c => vt_lst_step exprs c a) ts acc.
Proof.
  intros exprs b ts. induction ts as [|c l IH]; intro acc; [reflexivity|].
  cbn [fold_left]. rewrite <- IH. reflexivity.
Qed.

Lemma vars_tree_wf : forall exprs t, wf t = true -> forall b acc, Forall wfv acc -> Forall wfv (vars_tree exprs b t acc).
Proof.
  intros exprs. induction t as [s|kvs IH|ts IH] using tree_ind'; intros Hw b acc Ha.
  - exact Ha.
  - rewrite vars_tree_dict. rewrite wf_dict in Hw. apply andb_true_iff in Hw. destruct Hw as [_ Hw].
    revert acc Ha. induction IH as [|[k v] l Hv Hl IHl]; intros acc Ha; [exact Ha|].
    cbn [forallb snd] in Hw. apply andb_true_iff in Hw. destruct Hw as [Hwv Hwl]. cbn [snd] in Hv.
    cbn [fold_left]. apply (IHl Hwl). unfold vt_dict_step.
    assert (H1 : Forall wfv (match v with
                             | Dict _ => vars_tree exprs false v acc
                             | Lst _ => if list_contains_dict v then vars_tree exprs true v acc else acc
                             | Leaf _ => acc
                             end)).
    { destruct v as [s|kvs'|ts']; [exact Ha | apply (Hv Hwv); exact Ha|].
      destruct (list_contains_dict (Lst ts')); [apply (Hv Hwv); exact Ha | exact Ha]. }
    destruct k as [z|name]; [exact H1|].
    destruct v as [s|kvs'|ts'].
    + cbv zeta. destruct (circular (KS name) (insert_expression (Leaf s) exprs)); [exact H1|].
      apply aset_Forall; [|exact H1]. unfold wfv. cbn [snd]. apply insert_expression_wf. exact Hwv.
    + cbv zeta. destruct (circular (KS name) (insert_expression (Dict kvs') exprs)); [exact H1|].
      apply aset_Forall; [|exact H1]. unfold wfv. cbn [snd]. apply insert_expression_wf. exact Hwv.
    + apply aset_Forall; [|exact H1]. exact Hwv.
  - rewrite vars_tree_lst. rewrite wf_lst in Hw.
    revert acc Ha. induction IH as [|c l Hc Hl IHl]; intros acc Ha; [exact Ha|].
    cbn [forallb] in Hw. apply andb_true_iff in Hw. destruct Hw as [Hwc Hwl].
    cbn [fold_left]. apply (IHl Hwl). unfold vt_lst_step.
    destruct c as [s|kvs'|ts']; [exact Ha | apply (Hc Hwc); exact Ha | apply (Hc Hwc); exact Ha].
Qed.

Lemma variables_wf : forall s, wf (Dict (sd_data s)) = true -> Forall wfv (variables_of s).
Proof. intros s H. unfold variables_of. apply vars_tree_wf; [exact H | constructor]. Qed.

Lemma index_tree_wf : forall idx t t', wf t = true -> index_tree t idx = Some t' -> wf t' = true.
Proof.
  induction idx as [|i idx IH]; intros t t' Hw H; cbn [index_tree] in H; [inversion H; subst; exact Hw|].
  destruct t as [s|kvs|ts]; [|discriminate|].
  - destruct s as [z|l|b| |s]; try discriminate.
    destruct (norm_index i (length s)) as [n|]; [|discriminate]. destruct (nth_error s n) as [c|]; [|discriminate].
    apply (IH _ _ (eq_refl : wf (Leaf (SStr [c])) = true) H).
  - destruct (norm_index i (length ts)) as [n|]; [|discriminate]. destruct (nth_error ts n) as [c|] eqn:En; [|discriminate].
    apply (IH c t'); [|exact H]. rewrite wf_lst in Hw. rewrite forallb_forall in Hw. apply Hw. eapply nth_error_In. exact En.
Qed.

Lemma chase_wf : forall rr, (forall r2 t, rr r2 = RVal t -> wf t = true) ->
  forall g t lr tried t', wf t = true -> fst (chase_f rr g (Some t) lr tried) = RVal t' -> wf t' = true.
Proof.
  intros rr Hrr. induction g as [|g IH]; intros t lr tried t' Hw H; cbn [chase_f] in H; [cbn [fst] in H; discriminate|].
  destruct (tree_has_dollar t); [|cbn [fst] in H; inversion H; subst; exact Hw].
  cbv zeta in H. destruct (existsb (str_eqb (py_str_tree t)) tried); [cbn [fst] in H; discriminate|].
  destruct (negb (is_plain_reference (py_str_tree t))); [cbn [fst] in H; discriminate|].
  destruct (rr (py_str_tree t)) as [|t1| |] eqn:Er; try (cbn [fst] in H; discriminate).
  apply (IH t1 _ _ t' (Hrr _ _ Er) H).
Qed.

Lemma resolve_tail_wf : forall r val lr t', (forall t, val = RVal t -> wf t = true) ->
  resolve_tail r (val, lr) = RVal t' -> wf t' = true.
Proof.
  intros r val lr t' Hv H. unfold resolve_tail in H.
  destruct val as [|t0| |]; try discriminate.
  - destruct (ref_indexing r) as [|x ix]; [discriminate|].
    destruct (parse_indices (S (length (x :: ix))) (x :: ix)); discriminate.
  - destruct (ref_indexing r) as [|x ix]; [inversion H; subst; apply Hv; reflexivity|].
    destruct (parse_indices (S (length (x :: ix))) (x :: ix)) as [idx|]; [|discriminate].
    destruct (index_tree t0 idx) as [ti|] eqn:Ei; [|discriminate]. inversion H; subst.
    apply (index_tree_wf idx t0 t' (Hv t0 eq_refl) Ei).
Qed.

Lemma resolve_ref_wf : forall vars, Forall wfv vars -> forall fuel seen r t,
  resolve_ref fuel vars seen r = RVal t -> wf t = true.
Proof.
  intros vars Hv. induction fuel as [|f IH]; intros seen r t H; [discriminate|].
  rewrite resolve_ref_S in H. cbv zeta in H.
  destruct (existsb (str_eqb (ref_name r)) seen); [discriminate|].
  destruct (alookup (KS (ref_name r)) vars) as [v0|] eqn:Ea; [|discriminate].
  assert (Hw0 : wf v0 = true).
  { apply SDictProofs.alookup_Some_In in Ea. rewrite Forall_forall in Hv. apply (Hv _ Ea). }
  destruct (chase_f (resolve_ref f vars (seen ++ [ref_name r])) (S (vars_size vars)) (Some v0) None []) as [val lr] eqn:Ec.
  apply (resolve_tail_wf r val lr t); [|exact H].
  intros t1 E. subst val.
  apply (chase_wf (resolve_ref f vars (seen ++ [ref_name r])) (fun r2 t2 => IH _ r2 t2) (S (vars_size vars)) v0 None [] t1 Hw0).
  rewrite Ec. reflexivity.
Qed.

Lemma usable_val : forall r t, usable r = Some t -> r = RVal t.
Proof.
  intros r t H. destruct r as [|t0| |]; try discriminate. unfold usable in H.
  destruct (has_char c_dollar (py_str_tree t0) || contains w_EXPRESSION (py_str_tree t0)); [discriminate|].
  destruct t0 as [[]| |]; inversion H; reflexivity.
Qed.

Lemma resolve_all_wf : forall s resolved u, wf (Dict (sd_data s)) = true -> resolve_all s = Some (resolved, u) ->
  Forall (fun p : str * tree => wf (snd p) = true) resolved.
Proof.
  intros s resolved u Hw H. rewrite resolve_all_body in H. unfold resolve_body in H.
  destruct (existsb _ _); [discriminate|]. inversion H; subst. clear H.
  apply Forall_forall. intros [r t] Hin. apply in_flat_map in Hin. destruct Hin as [[r' o] [Hin1 Hin2]].
  cbn [fst snd] in Hin2. destruct o as [t'|]; [|contradiction]. destruct Hin2 as [E|[]]. inversion E; subst r' t'.
  apply in_map_iff in Hin1. destruct Hin1 as [[r2 rr] [E1 Hin1]]. cbn [fst snd] in E1. injection E1 as Er Eu.
  apply in_map_iff in Hin1. destruct Hin1 as [r3 [E2 _]]. injection E2 as E3 E4. subst r3 r2 rr.
  cbn [snd]. apply usable_val in Eu.
  apply (resolve_ref_wf (variables_of s) (variables_wf s Hw) _ [] r t Eu).
Qed.

(* ---- eval_expressions never answers E_Fuel ------------------------------------------------------------------ *)
(* unique keys at every level; the placeholders of the table are made of ordinary characters *)
Definition good_sd (s : sdict) : Prop :=
  wf (Dict (sd_data s)) = true /\ Forall (fun e : N * expr_entry => plain_ph (snd (snd e)) = true) (sd_expr s).
Definition ok_acc (acc : option (res sdict)) : Prop :=
  match acc with
  | Some (Ok st) => good_sd st
  | Some (Raise e) => e <> E_Fuel
  | None => True
  end.

Lemma Forall_tdel : forall {V} (P : N * V -> Prop) i l, Forall P l -> Forall P (tdel i l).
Proof.
  intros V P i. induction l as [|[j v] l IH]; intro H; cbn [tdel]; [constructor|].
  inversion H as [|? ? Hj Hl]; subst. destruct (N.eqb i j); [exact Hl | constructor; [exact Hj | apply IH; exact Hl]].
Qed.
Lemma Forall_tset : forall {V} (P : N * V -> Prop) i v l, (forall j, P (j, v)) -> Forall P l -> Forall P (tset i v l).
Proof.
  intros V P i v. induction l as [|[j w] l IH]; intros Hv H; cbn [tset]; [constructor; [apply Hv | constructor]|].
  inversion H as [|? ? Hj Hl]; subst. destruct (N.eqb i j); constructor; try assumption; [apply Hv | apply IH; assumption].
Qed.

Lemma rlookup_in : forall r (tab : list (str * tree)) t, rlookup r tab = Some t -> exists q, In (q, t) tab.
Proof.
  intros r. induction tab as [|[q t0] tab IH]; intros t H; cbn [rlookup] in H; [discriminate|].
  destruct (str_eqb r q); [inversion H; subst; exists q; left; reflexivity|].
  destruct (IH t H) as [q' Hq]. exists q'. right. exact Hq.
Qed.

Lemma insert_step_ok : forall st key ph v, good_sd st -> wf v = true ->
  (contains ph (py_str_tree v) = true \/ bad ph v = 0%nat) ->
  ok_acc (match insert_result (S (count_leaves (Dict (sd_data st)))) ph v (Dict (sd_data st)) with
          | Ok (Dict d') => Some (Ok (mkSD d' (sd_lc st) (sd_bc st) (sd_inc st) (tdel key (sd_expr st))))
          | Ok _ => Some (Ok st)
          | Raise er => Some (Raise er)
          end).
Proof.
  intros st key ph v [Hw Hp] Hv Hd.
  pose proof (insert_terminates ph v (Dict (sd_data st)) Hw Hv Hd) as Hnf.
  destruct (insert_result (S (count_leaves (Dict (sd_data st)))) ph v (Dict (sd_data st))) as [t|er] eqn:Ei.
  - pose proof (insert_result_wf _ _ _ _ _ Hw Hv Ei) as Hwt.
    destruct t as [s|d'|ts]; cbn [ok_acc]; try (split; assumption).
    split; [exact Hwt | cbn [sd_expr]; apply Forall_tdel; exact Hp].
  - cbn [ok_acc]. intro E. subst er. apply Hnf. reflexivity.
Qed.

Lemma pass_step_ok : forall resolved acc e, Forall (fun p : str * tree => wf (snd p) = true) resolved ->
  plain_ph (snd (snd e)) = true -> ok_acc acc -> ok_acc (pass_step resolved acc e).
Proof.
  intros resolved acc [key [e0 ph]] Hr Hph Hacc. cbn [snd] in Hph.
  destruct acc as [[st|er]|]; [|exact Hacc|exact Hacc]. cbn [ok_acc] in Hacc. cbn [pass_step].
  destruct (if is_plain_reference (strip e0) then rlookup (strip e0) resolved else None) as [t|] eqn:Ep.
  - assert (Hwt : wf t = true).
    { destruct (is_plain_reference (strip e0)); [|discriminate]. destruct (rlookup_in _ _ _ Ep) as [q Hq].
      rewrite Forall_forall in Hr. apply (Hr _ Hq). }
    apply insert_step_ok; [exact Hacc | exact Hwt | apply plain_dichotomy; exact Hph].
  - destruct (has_char c_dollar (substitute resolved e0)).
    + cbn [ok_acc]. destruct Hacc as [Hw Hp]. split; [exact Hw|]. cbn [sd_expr sd_data].
      apply Forall_tset; [intro j; exact Hph | exact Hp].
    + destruct (pyeval (substitute resolved e0)) as [z| |].
      * apply insert_step_ok; [exact Hacc | reflexivity | apply leaf_dichotomy].
      * cbn [ok_acc]. destruct Hacc as [Hw Hp]. split; [exact Hw|]. cbn [sd_expr sd_data].
        apply Forall_tset; [intro j; exact Hph | exact Hp].
      * exact I.
Qed.

Lemma eval_pass_ok : forall resolved s, Forall (fun p : str * tree => wf (snd p) = true) resolved -> good_sd s ->
  ok_acc (eval_pass resolved s).
Proof.
  intros resolved s Hr Hg. rewrite eval_pass_fold.
  assert (G : forall l acc, Forall (fun e : N * expr_entry => plain_ph (snd (snd e)) = true) l -> ok_acc acc ->
              ok_acc (fold_left (pass_step resolved) l acc)).
  { induction l as [|e l IH]; intros acc Hl Hacc; [exact Hacc|]. inversion Hl as [|? ? He Hl']; subst.
    cbn [fold_left]. apply IH; [exact Hl'|]. apply pass_step_ok; assumption. }
  apply G; [apply Hg | exact Hg].
Qed.

Lemma eval_loop_ok : forall f s resolved u, (S u <= f)%nat ->
  Forall (fun p : str * tree => wf (snd p) = true) resolved -> good_sd s -> ok_acc (eval_loop f s resolved u).
Proof.
  induction f as [|f IH]; intros s resolved u Hf Hr Hg; [lia|]. cbn [eval_loop].
  pose proof (eval_pass_ok resolved s Hr Hg) as Hp.
  destruct (eval_pass resolved s) as [[s'|er]|]; [|exact Hp|exact I].
  cbn [ok_acc] in Hp. destruct (resolve_all s') as [[r' u']|] eqn:Era; [|exact I].
  destruct (Nat.ltb u' u) eqn:E; [|exact Hp]. apply Nat.ltb_lt in E.
  apply IH; [lia | apply (resolve_all_wf s' r' u' (proj1 Hp) Era) | exact Hp].
Qed.

Lemma back_insert_ok : forall s, good_sd s -> back_insert s <> Raise E_Fuel.
Proof.
  intros s [Hw _]. rewrite back_insert_fold.
  assert (G : forall l (acc : res (list (key * tree))),
              match acc with Ok dd => wf (Dict dd) = true | Raise e => e <> E_Fuel end ->
              match fold_left bi_step l acc with Ok dd => wf (Dict dd) = true | Raise e => e <> E_Fuel end).
  { induction l as [|[key [e0 ph]] l IH]; intros acc Hacc; [exact Hacc|]. cbn [fold_left]. apply IH.
    destruct acc as [dd|er]; [|exact Hacc]. cbn [bi_step bind].
    pose proof (insert_terminates_leaf ph (SStr e0) (Dict dd) Hacc) as Hnf.
    destruct (insert_result (S (count_leaves (Dict dd))) ph (Leaf (SStr e0)) (Dict dd)) as [t|er] eqn:Ei; cbn [bind].
    - pose proof (insert_result_wf _ _ _ _ _ Hacc (eq_refl : wf (Leaf (SStr e0)) = true) Ei) as Hwt.
      destruct t as [x|d'|ts]; [exact Hacc | exact Hwt | exact Hacc].
    - intro E. subst er. apply Hnf. reflexivity. }
  pose proof (G (sd_expr s) (Ok (sd_data s)) Hw) as H.
  destruct (fold_left bi_step (sd_expr s) (Ok (sd_data s))) as [dd|er]; cbn [bind]; [discriminate|].
  intro E. inversion E. contradiction.
Qed.

Theorem eval_expressions_no_fuel : forall s, good_sd s -> eval_expressions s <> Some (Raise E_Fuel).
Proof.
  intros s Hg. unfold eval_expressions. destruct (resolve_all s) as [[resolved u]|] eqn:Er; [|discriminate].
  pose proof (eval_loop_ok (S (S u)) s resolved u ltac:(lia) (resolve_all_wf s resolved u (proj1 Hg) Er) Hg) as Hl.
  destruct (eval_loop (S (S u)) s resolved u) as [[s'|er]|]; [| |discriminate].
  - cbn [ok_acc] in Hl. intro E. inversion E as [Hb]. exact (back_insert_ok s' Hl Hb).
  - cbn [ok_acc] in Hl. intro E. inversion E. contradiction.
Qed.

Lemma ph_of_plain : forall i, (i < 1000000)%N -> plain_ph (ph_of i) = true.
Proof.
  intros i Hi. unfold ph_of, placeholder, plain_ph. rewrite forallb_app. apply andb_true_iff. split; [reflexivity|].
  destruct (pad6_props i Hi) as [Hd _]. apply forallb_forall. intros c Hc. rewrite Forall_forall in Hd.
  specialize (Hd c Hc). unfold is_digit in Hd. apply andb_true_iff in Hd. destruct Hd as [H1 H2].
  apply N.leb_le in H1. apply N.leb_le in H2. unfold plain_char.
  assert (E1 : (32 <=? c)%N = true) by (apply N.leb_le; lia).
  assert (E2 : (c =? 127)%N = false) by (apply N.eqb_neq; lia).
  assert (E3 : (c =? c_bsl)%N = false) by (apply N.eqb_neq; unfold c_bsl; lia).
  assert (E4 : (c =? c_sq)%N = false) by (apply N.eqb_neq; unfold c_sq; lia).
  assert (E5 : (c =? c_dq)%N = false) by (apply N.eqb_neq; unfold c_dq; lia).
  rewrite E1, E2, E3, E4, E5. reflexivity.
Qed.

(* ---- flat documents: reading terminates normally, whatever the names are -------------------------------------- *)
Definition leafkv (kv : key * tree) : Prop := exists s, snd kv = Leaf s.

Lemma flat_path_one : forall l p s, Forall leafkv l -> p <> [] -> get_path (Dict l) p = Some (Leaf s) -> exists k, p = [k].
Proof.
  intros l p s Hl Hne Hg. destruct p as [|k p]; [contradiction|]. exists k. f_equal.
  cbn [get_path child] in Hg. destruct (alookup k l) as [c|] eqn:Ea; [|discriminate].
  apply SDictProofs.alookup_Some_In in Ea. rewrite Forall_forall in Hl. destruct (Hl _ Ea) as [s0 Es]. cbn [snd] in Es. subst c.
  destruct p as [|k2 p]; [reflexivity|]. cbn [get_path child] in Hg. discriminate.
Qed.

Lemma insert_result_flat_ok : forall fuel ph sv l, wf (Dict l) = true -> Forall leafkv l ->
  (exists l', insert_result fuel ph (Leaf sv) (Dict l) = Ok (Dict l') /\ wf (Dict l') = true /\ Forall leafkv l' /\
              map fst l' = map fst l) \/
  insert_result fuel ph (Leaf sv) (Dict l) = Raise E_Fuel.
Proof.
  induction fuel as [|f IH]; intros ph sv l Hw Hl; [right; reflexivity|]. rewrite insert_result_S.
  destruct (find_global_key ph (Dict l)) as [p|] eqn:Ef; [|left; exists l; repeat split; assumption].
  destruct (find_sound ph (Dict l) p Hw Ef) as [s [Hg _]].
  destruct (flat_path_one l p s Hl (find_global_nonempty _ _ _ Ef) Hg) as [k Ek]. subst p.
  unfold set_global_key. cbn [set_at set_child bind].
  assert (Hw1 : wf (Dict (aset k (Leaf sv) l)) = true) by (apply aset_wf; [reflexivity | exact Hw]).
  assert (Hl1 : Forall leafkv (aset k (Leaf sv) l)) by (apply aset_Forall; [exists sv; reflexivity | exact Hl]).
  assert (Hk1 : map fst (aset k (Leaf sv) l) = map fst l).
  { cbn [get_path child] in Hg. destruct (alookup k l) as [c|] eqn:Ea; [|discriminate].
    apply (aset_keys_present k (Leaf sv) c l Ea). }
  destruct (contains ph (py_str_tree (Leaf sv))); [left; exists (aset k (Leaf sv) l); repeat split; assumption|].
  destruct (IH ph sv (aset k (Leaf sv) l) Hw1 Hl1) as [[l' [E [H1 [H2 H3]]]]|E]; [|right; exact E].
  left. exists l'. repeat split; try assumption. rewrite H3. exact Hk1.
Qed.

Lemma back_insert_flat_ok : forall s, wf (Dict (sd_data s)) = true -> Forall leafkv (sd_data s) ->
  exists dd, back_insert s = Ok (mkSD dd (sd_lc s) (sd_bc s) (sd_inc s) []) /\ map fst dd = map fst (sd_data s) /\
             Forall leafkv dd.
Proof.
  intros s Hw Hl. rewrite back_insert_fold.
  assert (G : forall l dd, wf (Dict dd) = true -> Forall leafkv dd ->
              exists dd', fold_left bi_step l (Ok dd) = Ok dd' /\ map fst dd' = map fst dd /\ Forall leafkv dd').
  { induction l as [|[key [e0 ph]] l IH]; intros dd Hwd Hld; [exists dd; repeat split; assumption|].
    cbn [fold_left bi_step bind].
    destruct (insert_result_flat_ok (S (count_leaves (Dict dd))) ph (SStr e0) dd Hwd Hld) as [[l' [E [H1 [H2 H3]]]]|E].
    - rewrite E. cbn [bind]. destruct (IH l' H1 H2) as [dd' [E' [K1 K2]]]. exists dd'. repeat split; try assumption.
      rewrite K1. exact H3.
    - exfalso. exact (insert_terminates_leaf ph (SStr e0) (Dict dd) Hwd E). }
  destruct (G (sd_expr s) (sd_data s) Hw Hl) as [dd [E [K1 K2]]]. exists dd. rewrite E. repeat split; assumption.
Qed.

Theorem flat_terminates : forall d lc bc inc, fdoc_ok d ->
  exists s', eval_expressions (flat_sdict d lc bc inc) = Some (Ok s') /\ sd_expr s' = [] /\
             map fst (sd_data s') = map KS (map fst d).
Proof.
  intros d lc bc inc Hok. destruct (eval_expressions_flat d lc bc inc Hok) as [m [_ He]].
  set (st := St d lc bc inc (S m)) in *.
  assert (Hw : wf (Dict (sd_data st)) = true).
  { unfold st, St, fstate. cbn [sd_data]. apply wf_Dict_iff. split; [apply fdata_nodup; apply Hok|].
    apply Forall_forall. intros kv Hin. pose proof (fdata_flat d (know d (S (S m)))) as Hf. unfold flat_kvs in Hf.
    rewrite Forall_forall in Hf. destruct (Hf kv Hin) as [_ [s Es]]. unfold wfkv. rewrite Es. reflexivity. }
  assert (Hl : Forall leafkv (sd_data st)).
  { unfold st, St, fstate. cbn [sd_data]. pose proof (fdata_flat d (know d (S (S m)))) as Hf. unfold flat_kvs in Hf.
    eapply Forall_impl; [|exact Hf]. intros kv [_ H]. exact H. }
  destruct (back_insert_flat_ok st Hw Hl) as [dd [E [K1 _]]].
  eexists. split; [rewrite He, E; reflexivity|]. cbn [sd_expr sd_data]. split; [reflexivity|].
  rewrite K1. unfold st, St, fstate. cbn [sd_data]. apply fdata_keys.
Qed.
