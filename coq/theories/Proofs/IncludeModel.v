(* C18: the executable model of SDict.include (Paths.sd_include / Paths.include_slot) tied to the stand-in
   IncludeChainProofs.sd_with_include that the chain theorems of C18 talk about; its general specification on any
   state and counter; totality (the id draw loop ends on every dict with fewer than 10^6 keys: pigeonhole);
   the chain include + dump + read restated with sd_include. *)
From Coq Require Export String.
From Coq Require Import NArith ZArith List Bool Lia.
From DictIO Require Import Chars Str Value Scalar KeyPath SDict Layout Lexer TokParser Reader Paths
     TreeSpec NativeSpec MiscSpec LayoutSpec E2ESpec.
From DictIO Require Import SDictProofs IncludeProofs IncludeChainProofs IncludeChainFull.
From DictIO Require CliProofs LayoutProofs E2EFullProofs FlatDataProofs RereadTree RereadProofs.
From DictIO Require Import E2EHoles.
Import ListNotations.
Open Scope N_scope.

(* ================================================================================================ *)
(* 0. small facts                                                                                    *)
(* ================================================================================================ *)

(* str.replace of a character that does not occur *)
Lemma replace_go_absent (x : N) (new : str) : forall s : str, has_char x s = false -> replace_go [x] new O s = s.
Proof.
  induction s as [|c s IH]; intros H; [reflexivity|].
  unfold has_char in H. cbn [existsb] in H. apply orb_false_iff in H. destruct H as [Hc Hs].
  cbn [replace_go starts_with]. rewrite Hc. cbn [andb]. f_equal. apply IH. exact Hs.
Qed.

Lemma replace_all_absent (x : N) (new s : str) : has_char x s = false -> replace_all [x] new s = s.
Proof. intros H. unfold replace_all. apply replace_go_absent. exact H. Qed.

(* the include placeholder key of a counter value *)
Definition ikey (c : Z) : key := KS (iph (Z.to_N c)).

Lemma amem_false_alookup {V} k (l : list (key * V)) : amem k l = false -> alookup k l = None.
Proof. unfold amem. destruct (alookup k l); [discriminate|reflexivity]. Qed.

Lemma amem_true_In {V} k (l : list (key * V)) : amem k l = true -> In k (map fst l).
Proof.
  unfold amem. destruct (alookup k l) as [v|] eqn:E; [|discriminate]. intros _.
  apply alookup_Some_In in E. apply in_map_iff. exists (k, v). split; [reflexivity|exact E].
Qed.

(* ================================================================================================ *)
(* 1. a dict built in memory, the first id drawn is free: sd_include = the stand-in                  *)
(* ================================================================================================ *)

Lemma include_slot_first fuel data c : amem (ikey (counter_next c)) data = false ->
  include_slot (S fuel) data c = Some (Z.to_N (counter_next c), counter_next c).
Proof. intros H. cbn [include_slot]. unfold ikey, iph in H. rewrite H. reflexivity. Qed.

Theorem model_include_fresh da c pa pb :
  amem (KS (iph (Z.to_N (counter_next c)))) da = false -> has_char 92 (include_name pa pb) = false ->
  sd_include (mkSD da [] [] [] []) c (dir_comps pa) (comps_of pb) pb =
  Ok (sd_with_include da (Z.to_N (counter_next c)) (include_name pa pb) pb, counter_next c).
Proof.
  intros Hm Hb. unfold sd_include. cbn [sd_data sd_lc sd_bc sd_inc sd_expr].
  rewrite (include_slot_first _ da c Hm). fold (include_name pa pb).
  rewrite (replace_all_absent 92 _ _ Hb).
  rewrite (aset_notin _ _ da (amem_false_alookup _ _ Hm)). reflexivity.
Qed.

(* ================================================================================================ *)
(* 2. the id draw loop and the general specification of sd_include                                   *)
(* ================================================================================================ *)

Lemma counter_iter_shift n c : counter_iter n (counter_next c) = counter_next (counter_iter n c).
Proof. induction n as [|n IH]; [reflexivity|]. cbn [counter_iter]. rewrite IH. reflexivity. Qed.

(* the loop returns after k skipped draws: the first k ids drawn name include placeholder keys of the data, the
   (k+1)-th does not; k is below the fuel *)
Lemma include_slot_spec : forall fuel data c i c', include_slot fuel data c = Some (i, c') ->
  exists k, (k < fuel)%nat /\ c' = counter_iter (S k) c /\ i = Z.to_N c' /\
    (forall j, (1 <= j <= k)%nat -> amem (ikey (counter_iter j c)) data = true) /\
    amem (ikey c') data = false.
Proof.
  induction fuel as [|f IH]; intros data c i c' H; [discriminate H|].
  cbn [include_slot] in H. cbv zeta in H.
  destruct (amem (KS (placeholder w_INCLUDE (Z.to_N (counter_next c)))) data) eqn:E.
  - destruct (IH data (counter_next c) i c' H) as (k & Hk & Hc' & Hi & Hall & Hlast).
    exists (S k). split; [lia|]. split.
    { rewrite Hc'. cbn [counter_iter]. rewrite !counter_iter_shift. reflexivity. }
    split; [exact Hi|]. split; [|exact Hlast].
    intros j Hj. destruct j as [|j]; [lia|]. destruct j as [|j].
    + cbn [counter_iter]. exact E.
    + specialize (Hall (S j) ltac:(lia)). rewrite counter_iter_shift in Hall. exact Hall.
  - injection H as Hi Hc. subst i c'. exists O. split; [lia|]. split; [reflexivity|]. split; [reflexivity|].
    split; [intros j Hj; lia|exact E].
Qed.

(* the loop runs out of fuel: every id drawn names an include placeholder key of the data *)
Lemma include_slot_none : forall fuel data c, include_slot fuel data c = None ->
  forall j, (1 <= j <= fuel)%nat -> amem (ikey (counter_iter j c)) data = true.
Proof.
  induction fuel as [|f IH]; intros data c H j Hj; [lia|].
  cbn [include_slot] in H. cbv zeta in H.
  destruct (amem (KS (placeholder w_INCLUDE (Z.to_N (counter_next c)))) data) eqn:E; [|discriminate H].
  destruct j as [|j]; [lia|]. destruct j as [|j]; [exact E|].
  specialize (IH data (counter_next c) H (S j) ltac:(lia)). rewrite counter_iter_shift in IH. exact IH.
Qed.

(* completeness of the loop on fuel: k skipped draws and a free (k+1)-th, k below the fuel *)
Lemma include_slot_complete : forall fuel data c k, (k < fuel)%nat ->
  (forall j, (1 <= j <= k)%nat -> amem (ikey (counter_iter j c)) data = true) ->
  amem (ikey (counter_iter (S k) c)) data = false ->
  include_slot fuel data c = Some (Z.to_N (counter_iter (S k) c), counter_iter (S k) c).
Proof.
  induction fuel as [|f IH]; intros data c k Hk Hall Hlast; [lia|].
  cbn [include_slot]. cbv zeta. destruct k as [|k].
  - cbn [counter_iter] in Hlast |- *. unfold ikey, iph in Hlast. rewrite Hlast. reflexivity.
  - pose proof (Hall 1%nat ltac:(lia)) as H1. cbn [counter_iter] in H1. unfold ikey, iph in H1. rewrite H1.
    rewrite (IH data (counter_next c) k ltac:(lia)).
    + cbn [counter_iter]. rewrite !counter_iter_shift. reflexivity.
    + intros j Hj. rewrite counter_iter_shift. apply (Hall (S j)). lia.
    + rewrite counter_iter_shift. exact Hlast.
Qed.

(* walking a key path that does not start at the new entry *)
Lemma get_path_aset_other k0 (v0 : tree) d k p : k <> k0 ->
  get_path (Dict (aset k0 v0 d)) (k :: p) = get_path (Dict d) (k :: p).
Proof.
  intros Hk. cbn [get_path child]. rewrite (alookup_aset k k0 v0 d).
  destruct (key_eqb k k0) eqn:E; [apply key_eqb_eq in E; contradiction|reflexivity].
Qed.

(* The general specification: any state, any counter. *)
Theorem model_include_spec : forall s c from_dir to path s' c',
  sd_include s c from_dir to path = Ok (s', c') ->
  let name := join_slash (relative_path from_dir to) in
  let directive := of_string "#include " ++ format_string (replace_all [92] [92; 92] name) in
  let i := Z.to_N c' in
  let ph := placeholder w_INCLUDE i in
  (exists k, (k <= List.length (sd_data s))%nat /\ c' = counter_iter (S k) c /\
     (forall j, (1 <= j <= k)%nat -> amem (ikey (counter_iter j c)) (sd_data s) = true)) /\
  amem (KS ph) (sd_data s) = false /\
  sd_data s' = sd_data s ++ [(KS ph, Leaf (SStr ph))] /\
  sd_lc s' = sd_lc s /\ sd_bc s' = sd_bc s /\ sd_expr s' = sd_expr s /\
  sd_inc s' = tset i (directive, name, path) (sd_inc s) /\
  tlookup i (sd_inc s') = Some (directive, name, path) /\
  (forall j, j <> i -> tlookup j (sd_inc s') = tlookup j (sd_inc s)) /\
  alookup (KS ph) (sd_data s') = Some (Leaf (SStr ph)) /\
  (forall k, k <> KS ph -> alookup k (sd_data s') = alookup k (sd_data s)) /\
  (forall k v, alookup k (sd_data s) = Some v -> alookup k (sd_data s') = Some v) /\
  (forall k p, k <> KS ph -> get_path (Dict (sd_data s')) (k :: p) = get_path (Dict (sd_data s)) (k :: p)) /\
  (forall p v, p <> [] -> get_path (Dict (sd_data s)) p = Some v -> get_path (Dict (sd_data s')) p = Some v).
Proof.
  intros s c from_dir to path s' c' H name directive i ph. unfold sd_include in H.
  destruct (include_slot (S (List.length (sd_data s))) (sd_data s) c) as [[i0 c0]|] eqn:E; [|discriminate H].
  destruct (include_slot_spec _ _ _ _ _ E) as (k & Hk & Hc0 & Hi0 & Hall & Hlast).
  injection H as Hs Hc. subst c0. subst i0. fold i in Hs. fold ph in Hs. fold name in Hs. fold directive in Hs.
  assert (Hm : amem (KS ph) (sd_data s) = false) by exact Hlast.
  assert (Hn : alookup (KS ph) (sd_data s) = None) by (apply amem_false_alookup; exact Hm).
  subst s'. cbn [sd_data sd_lc sd_bc sd_inc sd_expr].
  split; [exists k; split; [lia|]; split; [exact Hc0|exact Hall]|].
  split; [exact Hm|]. split; [apply aset_notin; exact Hn|].
  split; [reflexivity|]. split; [reflexivity|]. split; [reflexivity|]. split; [reflexivity|].
  split; [rewrite tlookup_tset, N.eqb_refl; reflexivity|].
  split. { intros j Hj. rewrite tlookup_tset. destruct (N.eqb j i) eqn:Ej; [apply N.eqb_eq in Ej; contradiction|reflexivity]. }
  split; [rewrite alookup_aset, key_eqb_refl; reflexivity|].
  assert (Hother : forall k1, k1 <> KS ph -> alookup k1 (aset (KS ph) (Leaf (SStr ph)) (sd_data s)) = alookup k1 (sd_data s)).
  { intros k1 Hk1. rewrite alookup_aset. destruct (key_eqb k1 (KS ph)) eqn:Ek; [apply key_eqb_eq in Ek; contradiction|reflexivity]. }
  split; [exact Hother|].
  assert (Hold : forall k1 v, alookup k1 (sd_data s) = Some v -> alookup k1 (aset (KS ph) (Leaf (SStr ph)) (sd_data s)) = Some v).
  { intros k1 v Hv. rewrite Hother; [exact Hv|]. intros Ek. subst k1. rewrite Hn in Hv. discriminate Hv. }
  split; [exact Hold|].
  split; [intros k1 p Hk1; apply get_path_aset_other; exact Hk1|].
  intros p v Hp Hv. destruct p as [|k1 p]; [contradiction|].
  rewrite get_path_aset_other; [exact Hv|]. intros Ek. subst k1. cbn [get_path child] in Hv. rewrite Hn in Hv. discriminate Hv.
Qed.

(* ================================================================================================ *)
(* 3. totality: the loop ends on every dict with fewer than 10^6 keys (pigeonhole)                   *)
(* ================================================================================================ *)

Lemma counter_iter_from c0 : (0 <= c0 <= 999999)%Z -> forall k, counter_iter k c0 = ((c0 + Z.of_nat k) mod 1000000)%Z.
Proof.
  intros H k. destruct k as [|k].
  - cbn [counter_iter]. rewrite Z.add_0_r, Z.mod_small by lia. reflexivity.
  - rewrite CliProofs.counter_closed_form by (unfold counter_ok; lia). f_equal. lia.
Qed.

(* the j-th id drawn from c, j >= 1 *)
Lemma counter_iter_S_from c : (-1 <= c)%Z -> forall k,
  counter_iter (S k) c = ((counter_next c + Z.of_nat k) mod 1000000)%Z.
Proof.
  intros H k. pose proof (E2EFullProofs.counter_next_nonneg c H) as Hr.
  rewrite <- (counter_iter_from (counter_next c) ltac:(lia) k).
  induction k as [|k IH]; [reflexivity|]. cbn [counter_iter] in IH |- *. rewrite IH. reflexivity.
Qed.

Lemma mod_shift_inj (c0 a b : Z) : (0 <= a < 1000000)%Z -> (0 <= b < 1000000)%Z ->
  ((c0 + a) mod 1000000 = (c0 + b) mod 1000000)%Z -> a = b.
Proof.
  intros Ha Hb E.
  pose proof (Z.div_mod (c0 + a) 1000000 ltac:(lia)) as E1.
  pose proof (Z.div_mod (c0 + b) 1000000 ltac:(lia)) as E2.
  rewrite E in E1.
  set (q1 := ((c0 + a) / 1000000)%Z) in *. set (q2 := ((c0 + b) / 1000000)%Z) in *.
  set (r := ((c0 + b) mod 1000000)%Z) in *. clearbody q1 q2 r. lia.
Qed.

Lemma ikey_inj z1 z2 : (0 <= z1)%Z -> (0 <= z2)%Z -> ikey z1 = ikey z2 -> z1 = z2.
Proof.
  intros H1 H2 E. assert (E' : iph (Z.to_N z1) = iph (Z.to_N z2)) by (unfold ikey in E; congruence).
  clear E. rename E' into E. unfold iph, placeholder in E. apply app_inv_head in E.
  apply FlatDataProofs.pad6_inj in E. apply Z2N.inj in E; assumption.
Qed.

Lemma NoDup_map_on {A B} (f : A -> B) : forall l : list A, NoDup l ->
  (forall x y, In x l -> In y l -> f x = f y -> x = y) -> NoDup (map f l).
Proof.
  induction l as [|a l IH]; intros Hnd Hinj; [constructor|].
  inversion Hnd as [|? ? Hn Hd]; subst. cbn [map]. constructor.
  - intros Hin. apply in_map_iff in Hin. destruct Hin as (y & Ey & Hy).
    assert (y = a) by (apply Hinj; [right; exact Hy|left; reflexivity|exact Ey]). subst y. contradiction.
  - apply IH; [exact Hd|]. intros x y Hx Hy. apply Hinj; right; assumption.
Qed.

(* the keys of the first n ids drawn from c *)
Definition drawn_keys (c : Z) (n : nat) : list key := map (fun j => ikey (counter_iter (S j) c)) (seq 0 n).

Lemma drawn_keys_nodup c n : (-1 <= c)%Z -> (Z.of_nat n <= 1000000)%Z -> NoDup (drawn_keys c n).
Proof.
  intros Hc Hn. unfold drawn_keys. apply NoDup_map_on; [apply seq_NoDup|].
  intros x y Hx Hy E. apply in_seq in Hx. apply in_seq in Hy.
  rewrite !(counter_iter_S_from c Hc) in E.
  apply ikey_inj in E; try (apply Z.mod_pos_bound; lia).
  apply mod_shift_inj in E; lia.
Qed.

Lemma include_slot_total data c : (-1 <= c)%Z -> (Z.of_nat (List.length data) < 1000000)%Z ->
  include_slot (S (List.length data)) data c <> None.
Proof.
  intros Hc Hn E. pose proof (include_slot_none _ _ _ E) as Hall.
  assert (Hincl : incl (drawn_keys c (S (List.length data))) (map fst data)).
  { intros k Hk. unfold drawn_keys in Hk. apply in_map_iff in Hk. destruct Hk as (j & Ej & Hj). subst k.
    apply in_seq in Hj. apply amem_true_In. apply Hall. lia. }
  assert (Hb : (Z.of_nat (S (List.length data)) <= 1000000)%Z) by lia.
  pose proof (NoDup_incl_length (drawn_keys_nodup c (S (List.length data)) Hc Hb) Hincl) as Hlen.
  unfold drawn_keys in Hlen. rewrite !map_length, seq_length in Hlen. lia.
Qed.

(* Totality.  No condition on the keys being distinct is needed: length + 1 pairwise distinct keys cannot all occur in
   a list of that length, duplicates or not. *)
Theorem model_include_total s c from_dir to path :
  (-1 <= c)%Z -> (N.of_nat (List.length (sd_data s)) < 1000000)%N ->
  exists s' c', sd_include s c from_dir to path = Ok (s', c').
Proof.
  intros Hc Hn. unfold sd_include.
  destruct (include_slot (S (List.length (sd_data s))) (sd_data s) c) as [[i c']|] eqn:E.
  - eexists. eexists. reflexivity.
  - exfalso. apply (include_slot_total (sd_data s) c Hc); [lia|exact E].
Qed.

Theorem model_include_no_fuel s c from_dir to path :
  (-1 <= c)%Z -> (N.of_nat (List.length (sd_data s)) < 1000000)%N ->
  sd_include s c from_dir to path <> Raise E_Fuel.
Proof.
  intros Hc Hn. destruct (model_include_total s c from_dir to path Hc Hn) as (s' & c' & E). rewrite E. discriminate.
Qed.

(* ================================================================================================ *)
(* 4. the chain include + dump + read with sd_include                                                *)
(* ================================================================================================ *)

(* every id the counter hands out is below one million, from any counter value *)
Lemma drawn_id_lt c : Z.to_N (counter_next c) < 1000000.
Proof.
  destruct (E2EFullProofs.counter_next_range c) as [H|[H _]]; [lia|].
  destruct (counter_next c); [lia|lia|reflexivity].
Qed.

(* plain_top: no top-level key is an include placeholder, so the first id drawn is free *)
Lemma plain_top_free da i : plain_top da = true -> i < 1000000 -> amem (KS (iph i)) da = false.
Proof.
  intros Hp Hi. destruct (amem (KS (iph i)) da) eqn:E; [|reflexivity]. exfalso.
  apply amem_true_In in E. apply in_map_iff in E. destruct E as (kc & Ek & Hin).
  destruct (plain_top_inv da Hp kc Hin) as [_ Hn]. rewrite Ek, (iph_include_key i Hi) in Hn. discriminate Hn.
Qed.

(* the stand-in with any directive text in the table row *)
Definition sd_with_include_d (da : list (key * tree)) (i : N) (d name path : str) : sdict :=
  mkSD (da ++ [inc_kv i]) [] [] [(i, (d, name, path))] [].

Lemma model_include_fresh_d da c from_dir to path :
  amem (KS (iph (Z.to_N (counter_next c)))) da = false ->
  sd_include (mkSD da [] [] [] []) c from_dir to path =
  Ok (sd_with_include_d da (Z.to_N (counter_next c))
        (of_string "#include " ++ format_string (replace_all [92] [92; 92] (join_slash (relative_path from_dir to))))
        (join_slash (relative_path from_dir to)) path, counter_next c).
Proof.
  intros Hm. unfold sd_include. cbn [sd_data sd_lc sd_bc sd_inc sd_expr].
  rewrite (include_slot_first _ da c Hm).
  rewrite (aset_notin _ _ da (amem_false_alookup _ _ Hm)). reflexivity.
Qed.

(* the writer and the class rereadable_inc do not look at the directive text of a table row *)
Lemma to_string_sd_d da i d name path :
  to_string_sd (sd_with_include_d da i d name path) = to_string_sd (sd_with_include da i name path).
Proof. reflexivity. Qed.

Lemma inc_name_d i (d1 d2 name path : str) j :
  RW.inc_name [(i, (d1, name, path))] j = RW.inc_name [(i, (d2, name, path))] j.
Proof. unfold RW.inc_name. cbn [tlookup]. destruct (N.eqb j i); reflexivity. Qed.

Lemma inc_entry_ok_d i (d1 d2 name path : str) kc :
  RW.inc_entry_ok [(i, (d1, name, path))] kc = RW.inc_entry_ok [(i, (d2, name, path))] kc.
Proof.
  unfold RW.inc_entry_ok. destruct kc as [[z|n] [v|kvs|ts]]; try reflexivity. destruct v; try reflexivity.
  cbn [tlookup]. destruct (N.eqb _ i); reflexivity.
Qed.

Lemma forallb_ext_all {A} (f g : A -> bool) (l : list A) : (forall x, f x = g x) -> forallb f l = forallb g l.
Proof. intros H. induction l as [|a l IH]; [reflexivity|]. cbn [forallb]. rewrite H, IH. reflexivity. Qed.

Lemma rereadable_inc_d da i d name path :
  RW.rereadable_inc (sd_with_include_d da i d name path) = RW.rereadable_inc (sd_with_include da i name path).
Proof.
  unfold RW.rereadable_inc, RW.inc_names, RW.inc_ids, sd_with_include_d, sd_with_include. cbn [sd_data sd_inc sd_bc sd_expr].
  set (d0 := of_string "#include " ++ format_string name).
  rewrite (forallb_ext_all (fun kc => negb (RW.is_inc_entry kc) || RW.inc_entry_ok [(i, (d, name, path))] kc)
                           (fun kc => negb (RW.is_inc_entry kc) || RW.inc_entry_ok [(i, (d0, name, path))] kc))
    by (intros kc; rewrite (inc_entry_ok_d i d d0 name path kc); reflexivity).
  rewrite (map_ext (RW.inc_name [(i, (d, name, path))]) (RW.inc_name [(i, (d0, name, path))]) (inc_name_d i d d0 name path)).
  reflexivity.
Qed.

(* (4a) the chain with the hypothesis on the parsed include table (C18_include_dump_read_partial with sd_include) *)
Theorem model_include_dump_read_partial : forall fs pa pb da c0 sa c0' c s c' pra ub,
  norm_path pa = pa -> norm_path pb = pb -> name_ok (include_name pa pb) = true ->
  plain_top da = true ->
  sd_include (mkSD da [] [] [] []) c0 (dir_comps pa) (comps_of pb) pb = Ok (sa, c0') ->
  contains (iph (Z.to_N c0')) (native_body da) = false ->
  has_char c_hash (to_string_plain da) = false -> nopair c_slash c_slash (to_string_plain da) = true ->
  fs_lookup pa fs = Some (FNative (to_string_sd sa)) -> fs_lookup pb fs = Some ub ->
  parse_unit true pa c (FNative (to_string_sd sa)) = Ok pra -> sd_inc (pr_sd pra) <> [] ->
  read_plain fs pa true true c = Ok (s, c') ->
  c0' = counter_next c0 /\
  (exists c1 prb, parse_unit true (path_join (dir_of pa) (include_name pa pb)) c1 ub = Ok prb /\
     forall k, ordinary_key k = true -> alookup k (sd_data (pr_sd prb)) <> None -> alookup k (sd_data s) <> None) /\
  (forall k v, ordinary_key k = true -> ordinary_leaf v = true ->
     alookup k (sd_data (pr_sd pra)) = Some (Leaf v) -> alookup k (sd_data s) = Some (Leaf v)).
Proof.
  intros fs pa pb da c0 sa c0' c s c' pra ub Ha Hb Hn Hp Hinc.
  pose proof (drawn_id_lt c0) as Hi.
  rewrite (model_include_fresh_d da c0 _ _ pb (plain_top_free da _ Hp Hi)) in Hinc.
  injection Hinc as Hsa Hc0. subst sa c0'. fold (include_name pa pb). rewrite to_string_sd_d.
  intros Hc Hh Hnp Hfa Hfb Hpa Hne Hread. split; [reflexivity|].
  exact (include_dump_read_sd_partial fs pa pb da _ c s c' pra ub Ha Hb Hn Hi Hp Hc Hh Hnp Hfa Hfb Hpa Hne Hread).
Qed.

(* (4b) the chain end to end, no hypothesis on the parse (C18_include_dump_read with sd_include) *)
Theorem model_include_dump_read_full : forall fs pa pb da c0 sa c0' c s c' ub,
  norm_path pa = pa -> norm_path pb = pb -> plain_top da = true ->
  sd_include (mkSD da [] [] [] []) c0 (dir_comps pa) (comps_of pb) pb = Ok (sa, c0') ->
  RW.rereadable_inc sa = true -> (-1 <= c)%Z ->
  (Z.of_nat (List.length (RereadProofs.lc_list (RP.written_doc_inc sa))) <= 1000000)%Z ->
  (Z.of_nat (List.length (RereadProofs.bc_list (RP.written_doc_inc sa))) <= 1000000)%Z ->
  (Z.of_nat (List.length (RereadProofs.lit_list (RP.written_doc_inc sa))) <= 1000000)%Z ->
  fs_lookup pa fs = Some (FNative (to_string_sd sa)) -> fs_lookup pb fs = Some ub ->
  read_plain fs pa true true c = Ok (s, c') ->
  c0' = counter_next c0 /\
  exists pra,
    parse_unit true pa c (FNative (to_string_sd sa)) = Ok pra /\
    (exists c1 prb, parse_unit true (path_join (dir_of pa) (include_name pa pb)) c1 ub = Ok prb /\
       forall k, ordinary_key k = true -> alookup k (sd_data (pr_sd prb)) <> None -> alookup k (sd_data s) <> None) /\
    (forall k v, ordinary_key k = true -> ordinary_leaf v = true ->
       alookup k (sd_data (pr_sd pra)) = Some (Leaf v) -> alookup k (sd_data s) = Some (Leaf v)) /\
    RereadTree.cstrip (Dict (sd_data (RW.strip_inc (pr_sd pra)))) = map_leaves written_value (RereadTree.cstrip (Dict da)).
Proof.
  intros fs pa pb da c0 sa c0' c s c' ub Ha Hb Hp Hinc.
  pose proof (drawn_id_lt c0) as Hi.
  rewrite (model_include_fresh_d da c0 _ _ pb (plain_top_free da _ Hp Hi)) in Hinc.
  injection Hinc as Hsa Hc0. subst sa c0'. fold (include_name pa pb). rewrite to_string_sd_d, rereadable_inc_d.
  intros Hr Hc B1 B2 B3 Hfa Hfb Hread. split; [reflexivity|].
  exact (include_dump_read_full fs pa pb da _ c s c' ub Ha Hb Hp Hr Hc B1 B2 B3 Hfa Hfb Hread).
Qed.

(* the exact result when the first k ids drawn are taken and the next one is free (k <= number of keys is implied by
   the other two hypotheses when -1 <= c and the dict has fewer than 10^6 keys: pigeonhole) *)
Theorem model_include_skips : forall s c from_dir to path k,
  (k <= List.length (sd_data s))%nat ->
  (forall j, (1 <= j <= k)%nat -> amem (ikey (counter_iter j c)) (sd_data s) = true) ->
  amem (ikey (counter_iter (S k) c)) (sd_data s) = false ->
  let c' := counter_iter (S k) c in
  let i := Z.to_N c' in
  let name := join_slash (relative_path from_dir to) in
  let directive := of_string "#include " ++ format_string (replace_all [92] [92; 92] name) in
  sd_include s c from_dir to path =
  Ok (mkSD (sd_data s ++ [inc_kv i]) (sd_lc s) (sd_bc s) (tset i (directive, name, path) (sd_inc s)) (sd_expr s), c').
Proof.
  intros s c from_dir to path k Hk Hall Hlast c' i name directive. unfold sd_include.
  rewrite (include_slot_complete (S (List.length (sd_data s))) (sd_data s) c k ltac:(lia) Hall Hlast).
  fold c'. fold i. fold name. fold directive. fold (iph i).
  rewrite (aset_notin _ _ (sd_data s) (amem_false_alookup _ _ Hlast)). reflexivity.
Qed.

(* the first side condition of model_include_fresh is necessary: with the placeholder of the first id taken the result
   is never the stand-in with that id *)
Theorem model_include_fresh_only da c from_dir to path s' :
  sd_include (mkSD da [] [] [] []) c from_dir to path = Ok (s', counter_next c) ->
  amem (KS (iph (Z.to_N (counter_next c)))) da = false.
Proof.
  intros H. pose proof (model_include_spec _ _ _ _ _ _ _ H) as S. cbv zeta in S.
  destruct S as (_ & Hm & _). exact Hm.
Qed.

(* a well-formed dict (pairwise distinct keys at every level) stays well formed *)
Theorem model_include_wf s c from_dir to path s' c' :
  sd_include s c from_dir to path = Ok (s', c') -> wf (Dict (sd_data s)) = true -> wf (Dict (sd_data s')) = true.
Proof.
  intros H Hw. unfold sd_include in H.
  destruct (include_slot (S (List.length (sd_data s))) (sd_data s) c) as [[i0 c0]|]; [|discriminate H].
  injection H as Hs _. subst s'. cbn [sd_data]. apply aset_wf; [reflexivity|exact Hw].
Qed.
