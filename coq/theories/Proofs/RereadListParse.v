(* LIST VERSION of RereadParse.v: the same development over the event stream of RereadListTree.v, which enters lists
   (comment entries inside dicts that are list items, at any nesting).  Statements and proofs are those of RereadParse.v
   with the cases of the list skeleton events (ELOpen / EIOpen / EDOpen / ELEnd) added and the tree recursions entering
   lists; see RereadList.v for the interface. *)
(* C03 / C12 on documents with comments, part 5: the token parser on a token stream with comment tokens.
   E2EKeyTok.TRK replayed for dicts whose entries may be comment placeholders (one token each); lists are comment free
   and handled by TRK itself. *)
From Coq Require Import String.
From Coq Require Import NArith ZArith List Bool Lia ZifyBool ZifyN ZifyNat.
From DictIO Require Import Chars Str Value Scalar KeyPath SDict Layout Lexer TokParser TreeSpec NativeSpec LayoutSpec E2ESpec.
From DictIO Require ScalarProofs SDictProofs TokProofs LayoutProofs SemProofs QuoteProofs KeyPathProofs.
From DictIO Require Import E2EProofs E2EHoles E2EInsert E2EKeyTok E2EFullProofs RereadStr RereadListTree.
Import ListNotations.
Import LayoutProofs.
Open Scope N_scope.

Module TRC.
Import TokProofs.
Local Open Scope Z_scope.

(* ---- balanced token lists (comment tokens allowed) ------------------------------------------------ *)
Record bal (ts : list str) : Prop := mkBal {
  b_net : net ts = 0;
  b_ge : forall L, Forall (fun z : ztok => L <= fst z) (levels_go L ts) }.

Lemma bal_nil : bal [].
Proof. split; [reflexivity|intros L; constructor]. Qed.

Lemma bal_app a b : bal a -> bal b -> bal (a ++ b).
Proof.
  intros [Ha1 Ha2] [Hb1 Hb2]. split.
  - rewrite net_app. lia.
  - intros L. rewrite levels_go_app, Ha1, Z.add_0_r. apply Forall_app. split; [apply Ha2|apply Hb2].
Qed.

Lemma bal_single t : is_open t = false -> is_close t = false -> bal [t].
Proof.
  intros Ho Hc. split.
  - cbn [net]. unfold delta. rewrite Ho, Hc. reflexivity.
  - intros L. cbn [levels_go]. rewrite Ho, Hc. constructor; [cbn [fst]; lia|constructor].
Qed.

Lemma bal_good ts : good ts -> bal ts.
Proof. intros [H1 H2 _]. split; assumption. Qed.

Lemma bal_wrap o c a : is_open o = true -> is_open c = false -> is_close c = true -> bal a -> bal (o :: a ++ [c]).
Proof.
  intros Ho Hco Hc [Ha1 Ha2]. split.
  - cbn [net]. rewrite net_app, Ha1. cbn [net]. unfold delta. rewrite Ho, Hco, Hc. reflexivity.
  - intros L. cbn [levels_go]. rewrite Ho. constructor; [cbn [fst]; lia|].
    rewrite levels_go_app, Ha1. apply Forall_app. split.
    + eapply Forall_impl; [|apply (Ha2 (L + 1))]. intros z Hz. cbn beta in Hz. lia.
    + cbn [levels_go]. rewrite Hco, Hc. constructor; [cbn [fst]; lia|constructor].
Qed.

(* ---- comment tokens ------------------------------------------------------------------------------- *)
Definition ctok (x : str) : Prop :=
  is_open x = false /\ is_close x = false /\ str_eqb x t_semi = false /\ is_comment_tok x = true.

Lemma lev_ctok L x r : ctok x -> levels_go L (x :: r) = (L, x) :: levels_go L r.
Proof. intros (A & B & _). cbn [levels_go]. rewrite A, B. reflexivity. Qed.

Lemma pd_comment f (ts : list ztok) ti acc lv txt :
  py_nth ts ti = Some (lv, txt) -> 0 <= ti -> ctok txt ->
  parse_dict_go (S f) ts ti acc = parse_dict_go f ts (ti + 1) (aset (KS txt) (Leaf (SStr txt)) acc).
Proof.
  intros H H0 (A & _ & C & D). rewrite parse_dict_go_S, H.
  destruct (ti <? 0) eqn:E; [lia|]. rewrite A, C, D. reflexivity.
Qed.

(* the token before a statement ends a statement or is a comment *)
Definition sep_tok (t : str) : Prop := t = t_semi \/ t = t_rbrace \/ is_comment_tok t = true.
Definition pre_ok' (pre : list ztok) : Prop :=
  pre = [] \/ exists pre' lv t, pre = pre' ++ [(lv, t)] /\ sep_tok t.
Definition stop3' (ts : list ztok) (ti : Z) : Prop :=
  ti - 3 < 0 \/ exists lv t, py_nth ts (ti - 3) = Some (lv, t) /\ sep_tok t.

Lemma stop3_of_pre' (pre rest ts : list ztok) ti :
  pre_ok' pre -> ts = pre ++ rest -> ti = Z.of_nat (length pre) + 2 -> stop3' ts ti.
Proof.
  intros [->|(pre' & lv & t & -> & Ht)] Hts Hti.
  - left. cbn [length] in Hti. lia.
  - right. exists lv, t. split; [|exact Ht].
    apply py_nth_split with (a := pre') (b := rest); [list_eq|len_eq].
Qed.

Lemma kv_back_ok' f (ts : list ztok) ti L k v acc :
  py_nth ts (ti - 1) = Some (L, v) -> py_nth ts (ti - 2) = Some (L, k) ->
  plain k -> plain v -> 0 <= ti - 2 -> stop3' ts ti ->
  kv_back (S (S (S f))) ts ti 1 L acc = (L, k) :: (L, v) :: acc.
Proof.
  intros Hv Hk Pk Pv Hge Hstop.
  destruct (plain_inv k Pk) as (_ & Kc & Ks & Kcm & Kin).
  destruct (plain_inv v Pv) as (_ & Vc & Vs & Vcm & Vin).
  apply not_close_inv in Kc. destruct Kc as (Kb & _ & _).
  apply not_close_inv in Vc. destruct Vc as (Vb & _ & _).
  cbn [kv_back].
  destruct (ti - 1 <? 0) eqn:E1; [lia|]. rewrite Hv.
  rewrite Z.eqb_refl, Vs, Vb, Vcm, Vin. cbn [negb andb].
  change (1 + 1) with 2.
  destruct (ti - 2 <? 0) eqn:E2; [lia|]. rewrite Hk.
  rewrite Z.eqb_refl, Ks, Kb, Kcm, Kin. cbn [negb andb].
  change (2 + 1) with 3.
  destruct Hstop as [Hs|(lv & t & Hn & Ht)].
  - destruct (ti - 3 <? 0) eqn:E3; [reflexivity|lia].
  - destruct (ti - 3 <? 0) eqn:E3; [reflexivity|]. rewrite Hn.
    destruct Ht as [-> |[-> |Hc]].
    + change (str_eqb t_semi t_semi) with true. rewrite andb_false_r. reflexivity.
    + change (str_eqb t_rbrace t_rbrace) with true. change (str_eqb t_rbrace t_semi) with false.
      cbn [negb]. rewrite andb_true_r, andb_false_r. reflexivity.
    + rewrite Hc. cbn [negb]. rewrite andb_false_r. reflexivity.
Qed.

Lemma pd_kv' f (ts : list ztok) ti acc L k v kk vv :
  py_nth ts ti = Some (L, t_semi) ->
  py_nth ts (ti - 1) = Some (L, v) -> py_nth ts (ti - 2) = Some (L, k) ->
  plain k -> plain v -> 0 <= ti - 2 -> stop3' ts ti ->
  parse_key k = Ok kk -> parse_value v = Ok vv ->
  parse_dict_go (S (S (S (S f)))) ts ti acc = parse_dict_go (S (S (S f))) ts (ti + 1) (aset kk (Leaf vv) acc).
Proof.
  intros H Hv Hk Pk Pv Hge Hstop Hpk Hpv. rewrite parse_dict_go_S, H.
  destruct (ti <? 0) eqn:E; [lia|]. rewrite Hv.
  destruct semi_facts as (A1 & A2 & A3 & A4). rewrite A1, A2.
  destruct (plain_inv v Pv) as (_ & Vc & _).
  apply not_close_inv in Vc. destruct Vc as (_ & _ & Vc). rewrite Vc.
  cbn [negb andb].
  rewrite (kv_back_ok' f ts ti L k v _ Hv Hk Pk Pv Hge Hstop).
  cbv beta iota zeta. rewrite Hpk, Hpv. reflexivity.
Qed.

(* ---- the syntax check at the end of a nested dict skips comment tokens ------------------------------ *)
Lemma py_nth_neg {A} (l : list A) (a b : list A) x j :
  l = a ++ x :: b -> j = - Z.of_nat (S (length b)) -> py_nth l j = Some x.
Proof.
  intros -> ->. unfold py_nth. rewrite app_length. cbn [length].
  destruct (0 <=? - Z.of_nat (S (length b))) eqn:E1; [lia|].
  destruct (0 <=? - Z.of_nat (S (length b)) + Z.of_nat (length a + S (length b))) eqn:E2; [|lia].
  replace (Z.to_nat (- Z.of_nat (S (length b)) + Z.of_nat (length a + S (length b)))) with (length a) by lia.
  rewrite nth_error_app2 by lia. rewrite Nat.sub_diag. reflexivity.
Qed.

Lemma check_end_go (a : list ztok) lv t (z : ztok) : nc t ->
  forall (cs1 cs2 : list ztok) f ds, Forall (fun y : ztok => is_comment_tok (snd y) = true) cs1 -> (length cs1 < f)%nat ->
  ds = (a ++ [(lv, t)]) ++ cs1 ++ cs2 ++ [z] ->
  check_dict_end f ds (- Z.of_nat (S (S (length cs2)))) = Ok tt.
Proof.
  intros Hnc cs1. induction cs1 as [|c cs1 IH] using rev_ind; intros cs2 f ds Hall Hf Eds.
  - destruct f as [|f]; [cbn [length] in Hf; lia|]. cbn [check_dict_end].
    rewrite (py_nth_neg ds a (cs2 ++ [z]) (lv, t)).
    + unfold nc in Hnc. rewrite Hnc. reflexivity.
    + rewrite Eds. cbn [app]. rewrite <- app_assoc. reflexivity.
    + rewrite app_length. cbn [length]. lia.
  - destruct f as [|f]; [rewrite app_length in Hf; cbn [length] in Hf; lia|]. cbn [check_dict_end].
    apply Forall_app in Hall. destruct Hall as [Hall Hc]. inversion Hc as [|c' l' Hcc _]; subst c' l'.
    destruct c as [lc tc]. cbn [snd] in Hcc.
    rewrite (py_nth_neg ds ((a ++ [(lv, t)]) ++ cs1) (cs2 ++ [z]) (lc, tc)).
    + rewrite Hcc. assert (Ei : forall n : nat, - Z.of_nat (S (S n)) - 1 = - Z.of_nat (S (S (S n)))) by (clear; intros; lia).
      rewrite Ei. change (S (length cs2)) with (length ((lc, tc) :: cs2)).
      apply IH; [exact Hall|rewrite app_length in Hf; cbn [length] in Hf; lia|].
      rewrite Eds. rewrite <- !app_assoc. reflexivity.
    + rewrite Eds. rewrite <- !app_assoc. reflexivity.
    + rewrite app_length. cbn [length]. lia.
Qed.

Lemma trailing_comments (l : list ztok) :
  exists a cs, l = a ++ cs /\ Forall (fun y : ztok => is_comment_tok (snd y) = true) cs /\
               (a = [] \/ exists a' lv t, a = a' ++ [(lv, t)] /\ nc t).
Proof.
  induction l as [|x l IH] using rev_ind; [exists [], []; split; [reflexivity|split; [constructor|left; reflexivity]]|].
  destruct x as [lv t]. destruct (is_comment_tok t) eqn:E.
  - destruct IH as (a & cs & -> & Hcs & Ha). exists a, (cs ++ [(lv, t)]). split; [rewrite app_assoc; reflexivity|]. split; [|exact Ha].
    apply Forall_app. split; [exact Hcs|]. constructor; [exact E|constructor].
  - exists (l ++ [(lv, t)]), []. split; [rewrite app_nil_r; reflexivity|]. split; [constructor|]. right. exists l, lv, t. split; [reflexivity|exact E].
Qed.

Lemma check_end_cm f (o : ztok) (content : list ztok) (z : ztok) : nc (snd o) -> (length content < f)%nat ->
  check_dict_end f (o :: content ++ [z]) (-2) = Ok tt.
Proof.
  intros Hb Hf. destruct o as [L ot]. cbn [snd] in Hb. destruct (trailing_comments content) as (a & cs & -> & Hcs & Ha).
  destruct Ha as [-> |(a' & lv & t & -> & Hnc)].
  - apply (check_end_go [] L ot z Hb cs [] f _ Hcs); [cbn [app] in Hf; lia|reflexivity].
  - apply (check_end_go ((L, ot) :: a') lv t z Hnc cs [] f _ Hcs); [rewrite !app_length in Hf; lia|].
    rewrite <- !app_assoc. reflexivity.
Qed.

Lemma pd_open_dict' f (ts pre content post : list ztok) ti acc L ktxt k d :
  ts = pre ++ (L, ktxt) :: (L, t_lbrace) :: content ++ (L, t_rbrace) :: post ->
  ti = Z.of_nat (length pre) + 1 ->
  nc ktxt -> parse_key ktxt = Ok k ->
  Forall (fun z : ztok => L + 1 <= fst z) content ->
  (length content + 1 < S f)%nat ->
  parse_dict_go (S f) content 0 [] = Ok d ->
  parse_dict_go (S (S f)) ts ti acc
  = parse_dict_go (S f) ts (ti + Z.of_nat (length content) + 2) (aset k (Dict d) acc).
Proof.
  intros Hts Hti Hnk Hpk Hge Hf Hd.
  destruct brace_facts as (B1 & B2 & B3 & B4 & B5 & B6 & B7 & B8 & B9 & _).
  assert (H0 : py_nth ts ti = Some (L, t_lbrace)).
  { apply py_nth_split with (a := pre ++ [(L, ktxt)]) (b := content ++ (L, t_rbrace) :: post); [list_eq|len_eq]. }
  assert (H1 : py_nth ts (ti - 1) = Some (L, ktxt)).
  { apply py_nth_split with (a := pre) (b := (L, t_lbrace) :: content ++ (L, t_rbrace) :: post); [list_eq|len_eq]. }
  rewrite parse_dict_go_S, H0.
  destruct (ti <? 0) eqn:E; [lia|]. rewrite B1.
  rewrite (key_index_ok f ts ti L ktxt H1 Hnk). cbn [bind]. rewrite H1. cbv beta iota.
  rewrite Hpk. cbn [bind]. rewrite B2.
  rewrite (collect_ok (S f) (pre ++ [(L, ktxt)]) L t_lbrace t_rbrace content post ts ti);
    [|list_eq|len_eq|exact B3|exact B4|exact Hge|exact Hf].
  cbn [bind]. cbv beta iota.
  rewrite !last_text_wrap. rewrite B6, B7. cbn [bind].
  rewrite (check_end_cm (S f) _ content _) by (first [reflexivity|lia]).
  cbn [bind first_text]. rewrite B8, B9. rewrite inner_wrap, Hd. cbn [bind].
  destruct (0 <? Z.of_nat (length content) + 1) eqn:E2; [|lia].
  f_equal. lia.
Qed.

Lemma pl_open_dict' f (ts pre content post : list ztok) ti base acc L d :
  ts = pre ++ (L, t_lbrace) :: content ++ (L, t_rbrace) :: post ->
  ti = Z.of_nat (length pre) -> base < L ->
  Forall (fun z : ztok => L + 1 <= fst z) content ->
  (length content + 1 < S f)%nat ->
  parse_dict_go (S f) content 0 [] = Ok d ->
  parse_list_go (S (S f)) ts ti base acc
  = parse_list_go (S f) ts (ti + Z.of_nat (length content) + 2) base (Dict d :: acc).
Proof.
  intros Hts Hti Hb Hge Hf Hd.
  destruct brace_facts as (B1 & B2 & B3 & B4 & B5 & B6 & B7 & B8 & B9 & _).
  assert (H0 : py_nth ts ti = Some (L, t_lbrace)).
  { apply py_nth_split with (a := pre) (b := content ++ (L, t_rbrace) :: post); [list_eq|len_eq]. }
  rewrite parse_list_go_S, H0.
  destruct (ti <? 0) eqn:E; [lia|]. rewrite B1.
  destruct (base <? L) eqn:E1; [|lia]. cbn [andb]. rewrite B2.
  rewrite (collect_ok (S f) pre L t_lbrace t_rbrace content post ts ti);
    [|list_eq|len_eq|exact B3|exact B4|exact Hge|exact Hf].
  cbn [bind]. cbv beta iota.
  rewrite !last_text_wrap. rewrite B7.
  rewrite (check_end_cm (S f) _ content _) by (first [reflexivity|lia]).
  cbn [bind first_text]. rewrite B8, B9. rewrite inner_wrap, Hd. cbn [bind].
  destruct (0 <? Z.of_nat (length content) + 1) eqn:E2; [|lia].
  f_equal. lia.
Qed.

(* ---- trees ---------------------------------------------------------------------------------------- *)
(* ordinary keys are simple at every dict level, also inside lists *)
Fixpoint cskeysT (t : tree) {struct t} : bool :=
  match t with
  | Leaf _ => true
  | Dict kvs =>
      (fix go (l : list (key * tree)) : bool :=
         match l with
         | [] => true
         | (k, c) :: l' =>
             (match cm_entry (k, c) with
              | Some _ => true
              | None => simple_key k && cskeysT c
              end) && go l'
         end) kvs
  | Lst ts => (fix go (l : list tree) : bool := match l with [] => true | c :: l' => cskeysT c && go l' end) ts
  end.
Definition cskeys (t : tree) : bool := match t with Dict _ => cskeysT t | _ => false end.
Definition cskeys_entry (kc : key * tree) : bool :=
  match cm_entry kc with
  | Some _ => true
  | None => simple_key (fst kc) && cskeysT (snd kc)
  end.
Lemma cskeysT_cons kc l : cskeysT (Dict (kc :: l)) = cskeys_entry kc && cskeysT (Dict l).
Proof. destruct kc as [k c]. unfold cskeys_entry. cbn [cskeysT fst snd]. destruct (cm_entry (k, c)); reflexivity. Qed.
Lemma cskeys_cons kc l : cskeys (Dict (kc :: l)) = cskeys_entry kc && cskeys (Dict l).
Proof. exact (cskeysT_cons kc l). Qed.
Lemma cskeysT_lst_cons c l : cskeysT (Lst (c :: l)) = cskeysT c && cskeysT (Lst l).
Proof. reflexivity. Qed.

(* every comment entry's value satisfies p *)
Fixpoint call (p : str -> bool) (t : tree) {struct t} : bool :=
  match t with
  | Leaf _ => true
  | Dict kvs =>
      (fix go (l : list (key * tree)) : bool :=
         match l with
         | [] => true
         | (k, c) :: l' =>
             (match cm_entry (k, c) with
              | Some (_, x) => p x
              | None => call p c
              end) && go l'
         end) kvs
  | Lst ts => (fix go (l : list tree) : bool := match l with [] => true | c :: l' => call p c && go l' end) ts
  end.
Definition call_entry (p : str -> bool) (kc : key * tree) : bool :=
  match cm_entry kc with
  | Some (_, x) => p x
  | None => call p (snd kc)
  end.
Lemma call_cons p kc l : call p (Dict (kc :: l)) = call_entry p kc && call p (Dict l).
Proof. destruct kc as [k c]. unfold call_entry. cbn [call fst snd]. destruct (cm_entry (k, c)) as [[n x]|]; reflexivity. Qed.
Lemma call_lst_cons p c l : call p (Lst (c :: l)) = call p c && call p (Lst l).
Proof. reflexivity. Qed.

Definition ctokb (x : str) : bool :=
  negb (is_open x) && negb (is_close x) && negb (str_eqb x t_semi) && is_comment_tok x.
Lemma ctokb_ctok x : ctokb x = true -> ctok x.
Proof.
  unfold ctokb, ctok. intros H. apply andb_true_iff in H. destruct H as [H H4]. apply andb_true_iff in H. destruct H as [H H3].
  apply andb_true_iff in H. destruct H as [H1 H2]. apply negb_true_iff in H1, H2, H3. repeat split; assumption.
Qed.

Section Main.
  Variable lt : scalar -> str.
  Variable kt : key -> str.
  Variable nv : scalar -> scalar.
  Hypothesis Hlt : forall v, plain_token (lt v) = true /\ parse_value (lt v) = Ok (nv v).
  Hypothesis Hktp : forall k, plain_token (kt k) = true.
  Hypothesis Hkpk : forall k, simple_key k = true -> parse_key (kt k) = Ok k.

  Definition close_toks (anc : bool) : list str := t_rpar :: (if anc then [] else [t_semi]).
  Definition ev_tokP (e : ev) : list str :=
    match e with
    | ELeaf _ k v => [kt k; lt v; t_semi]
    | EOpen _ k => [kt k; t_lbrace]
    | EClose _ => [t_rbrace]
    | ECm _ _ x => [x]
    | ELOpen _ k => [kt k; t_lpar]
    | EIOpen _ _ _ _ run => map lt run ++ [t_lpar]
    | EDOpen _ _ _ _ run => map lt run ++ [t_lbrace]
    | ELEnd _ anc _ _ _ run => map lt run ++ close_toks anc
    end.
  Definition ctoks (es : list ev) : list str := flat_map ev_tokP es.

  (* the tokens of a tree, independent of the layout: a value with its brackets *)
  Fixpoint wtoks (t : tree) {struct t} : list str :=
    match t with
    | Leaf v => [lt v]
    | Dict kvs =>
        t_lbrace ::
        (fix go (l : list (key * tree)) : list str :=
           match l with
           | [] => []
           | (k, c) :: l' =>
               (match cm_entry (k, c) with
                | Some (_, x) => [x]
                | None =>
                    match c with
                    | Leaf v => [kt k; lt v; t_semi]
                    | Dict _ => kt k :: wtoks c
                    | Lst _ => kt k :: wtoks c ++ [t_semi]
                    end
                end) ++ go l'
           end) kvs ++ [t_rbrace]
    | Lst ts => t_lpar :: (fix go (l : list tree) : list str := match l with [] => [] | c :: l' => wtoks c ++ go l' end) ts ++ [t_rpar]
    end.
  Definition etoks (kc : key * tree) : list str :=
    match cm_entry kc with
    | Some (_, x) => [x]
    | None =>
        match snd kc with
        | Leaf v => [kt (fst kc); lt v; t_semi]
        | Dict d => kt (fst kc) :: wtoks (Dict d)
        | Lst l => kt (fst kc) :: wtoks (Lst l) ++ [t_semi]
        end
    end.
  Definition centries (kvs : list (key * tree)) : list str := flat_map etoks kvs.
  Definition citems (ts : list tree) : list str := flat_map wtoks ts.
  Lemma wtoks_dict kvs : wtoks (Dict kvs) = t_lbrace :: centries kvs ++ [t_rbrace].
  Proof.
    cbn [wtoks]. apply (f_equal (cons t_lbrace)). apply (f_equal (fun x => x ++ [t_rbrace])). induction kvs as [|[k c] kvs IH]; [reflexivity|]. unfold centries in *. cbn [flat_map]. rewrite IH. f_equal.
    unfold etoks. destruct (cm_entry (k, c)) as [[n x]|]; [reflexivity|]. cbn [fst snd]. destruct c; reflexivity.
  Qed.
  Lemma wtoks_lst ts : wtoks (Lst ts) = t_lpar :: citems ts ++ [t_rpar].
  Proof. cbn [wtoks]. apply (f_equal (cons t_lpar)). apply (f_equal (fun x => x ++ [t_rpar])). induction ts as [|c ts IH]; [reflexivity|]. unfold citems in *. cbn [flat_map]. rewrite IH. reflexivity. Qed.
  Lemma centries_cons kc kvs : centries (kc :: kvs) = etoks kc ++ centries kvs.
  Proof. reflexivity. Qed.
  Lemma citems_cons c l : citems (c :: l) = wtoks c ++ citems l.
  Proof. reflexivity. Qed.

  (* what the parser makes of a comment token *)
  Definition gtok (_ x : str) : key * tree := (KS x, Leaf (SStr x)).
  Notation ce := (cmap_entry gtok nv).
  Definition cres (t : tree) : tree := cmapg gtok nv t.

  Lemma plain_lt v : plain (lt v). Proof. exact (proj1 (Hlt v)). Qed.
  Lemma plain_kt k : plain (kt k). Proof. exact (Hktp k). Qed.
  Lemma nc_kt k : nc (kt k).
  Proof. destruct (plain_inv _ (plain_kt k)) as (_ & _ & _ & A & _). exact A. Qed.

  Lemma bal_plain t : plain t -> bal [t].
  Proof. intros Hp. destruct (plain_inv t Hp) as (A1 & A2 & _). apply bal_single; assumption. Qed.
  Lemma bal_cons t a : bal [t] -> bal a -> bal (t :: a).
  Proof. intros H1 H2. change (t :: a) with ([t] ++ a). apply bal_app; assumption. Qed.

  Lemma ctoks_app a b : ctoks (a ++ b) = ctoks a ++ ctoks b.
  Proof. unfold ctoks. apply flat_map_app. Qed.
  Lemma ctoks_cons e es : ctoks (e :: es) = ev_tokP e ++ ctoks es.
  Proof. reflexivity. Qed.

  (* the tokens of the events are the tokens of the tree *)
  Lemma ctoks_events : forall t lvl anc,
    match t with
    | Leaf _ => True
    | Dict kvs => ctoks (eventsA lvl anc t) = centries kvs
    | Lst ts => ctoks (eventsA lvl anc t) = citems ts ++ close_toks anc
    end.
  Proof.
    induction t as [v|kvs IH|ts IH] using tree_ind'; intros lvl anc; [exact I| |].
    - rewrite eventsA_dict. revert lvl. induction IH as [|[k c] kvs Hc _ IHk]; intros lvl; [reflexivity|].
      rewrite events_cons, ctoks_app, centries_cons, (IHk lvl). f_equal. cbn [snd] in Hc.
      unfold entry_events, etoks. destruct (cm_entry (k, c)) as [[n x]|]; [reflexivity|]. cbn [fst snd]. destruct c as [v|d|l].
      + reflexivity.
      + rewrite ctoks_cons, ctoks_app. unfold events. rewrite (Hc (S lvl) false), wtoks_dict. reflexivity.
      + rewrite ctoks_cons, (Hc lvl false), wtoks_lst. cbn [ev_tokP app close_toks]. rewrite <- app_assoc. reflexivity.
    - rewrite eventsA_lst. set (len := length ts). clearbody len.
      assert (G : forall run idx first, ctoks (ievents lvl anc len ts run idx first) = map lt run ++ citems ts ++ close_toks anc).
      { induction IH as [|c l Hc _ IHl]; intros run idx first; [cbn [ievents ctoks flat_map ev_tokP citems app]; rewrite app_nil_r; reflexivity|].
        cbn [ievents]. rewrite citems_cons. destruct c as [v|d|l2].
        - rewrite IHl, map_app, <- !app_assoc. reflexivity.
        - rewrite ctoks_cons, ctoks_app, ctoks_cons, IHl, (Hc (S (S lvl)) false), wtoks_dict. cbn [ev_tokP map app]. rewrite <- !app_assoc. reflexivity.
        - rewrite ctoks_cons, ctoks_app, IHl, (Hc (S lvl) true), wtoks_lst. cbn [ev_tokP map app close_toks]. rewrite <- !app_assoc. reflexivity. }
      exact (G [] 0%nat true).
  Qed.
  Lemma ctoks_events_dict kvs lvl : ctoks (events lvl (Dict kvs)) = centries kvs.
  Proof. exact (ctoks_events (Dict kvs) lvl false). Qed.

  Lemma bal_wtoks : forall t, call ctokb t = true ->
    match t with Leaf v => True | Dict kvs => bal (centries kvs) | Lst ts => bal (citems ts) end.
  Proof.
    induction t as [v|kvs IH|ts IH] using tree_ind'; intros Hc; [exact I| |].
    - induction IH as [|[k c] kvs Hcc _ IHk]; [apply bal_nil|].
      rewrite call_cons in Hc. apply andb_true_iff in Hc. destruct Hc as [Hc1 Hc2].
      rewrite centries_cons. apply bal_app; [|exact (IHk Hc2)]. cbn [snd] in Hcc.
      unfold etoks, call_entry in *. destruct (cm_entry (k, c)) as [[n x]|].
      + destruct (ctokb_ctok x Hc1) as (A & B & _). apply bal_single; assumption.
      + cbn [fst snd] in *. destruct c as [v|d|l].
        * apply bal_cons; [apply bal_plain, plain_kt|]. apply bal_cons; [apply bal_plain, plain_lt|]. apply bal_single; reflexivity.
        * rewrite wtoks_dict. apply bal_cons; [apply bal_plain, plain_kt|]. apply bal_wrap; try reflexivity. exact (Hcc Hc1).
        * rewrite wtoks_lst. apply bal_cons; [apply bal_plain, plain_kt|].
          change (t_lpar :: citems l ++ [t_rpar]) with ((t_lpar :: citems l ++ [t_rpar])). apply bal_app; [|apply bal_single; reflexivity].
          apply bal_wrap; try reflexivity. exact (Hcc Hc1).
    - induction IH as [|c l Hcc _ IHl]; [apply bal_nil|].
      rewrite call_lst_cons in Hc. apply andb_true_iff in Hc. destruct Hc as [Hc1 Hc2].
      rewrite citems_cons. apply bal_app; [|exact (IHl Hc2)]. destruct c as [v|d|l2].
      + apply bal_plain, plain_lt.
      + rewrite wtoks_dict. apply bal_wrap; try reflexivity. exact (Hcc Hc1).
      + rewrite wtoks_lst. apply bal_wrap; try reflexivity. exact (Hcc Hc1).
  Qed.
  Lemma bal_centries kvs : call ctokb (Dict kvs) = true -> bal (centries kvs).
  Proof. exact (bal_wtoks (Dict kvs)). Qed.
  Lemma bal_citems l : call ctokb (Lst l) = true -> bal (citems l).
  Proof. exact (bal_wtoks (Lst l)). Qed.

  Lemma citems_nil l : citems l = [] -> l = [].
  Proof.
    destruct l as [|c l]; [reflexivity|]. rewrite citems_cons. intros H. apply app_eq_nil in H. destruct H as [H _].
    destruct c; [discriminate H|rewrite wtoks_dict in H; discriminate H|rewrite wtoks_lst in H; discriminate H].
  Qed.

  Definition dict_spec (kvs : list (key * tree)) : Prop :=
    forall L (pre tail : list ztok) acc f (ts : list ztok) ti,
    ts = pre ++ levels_go L (centries kvs) ++ tail -> ti = Z.of_nat (length pre) ->
    pre_ok' pre -> tail_ok tail ->
    (length (centries kvs) + length tail + 4 <= f)%nat ->
    keys_nodup (map fst acc ++ map fst (map ce kvs)) = true ->
    forallb (fun kc => wf (snd kc)) (map ce kvs) = true ->
    cskeysT (Dict kvs) = true -> call ctokb (Dict kvs) = true ->
    parse_dict_go f ts ti acc = Ok (acc ++ map ce kvs).

  Definition list_spec (l : list tree) : Prop :=
    forall L f (ts : list ztok),
    ts = (L, t_lpar) :: levels_go (L + 1) (citems l) ++ [(L, t_rpar)] ->
    (length (citems l) + 2 + 4 <= f)%nat -> forallb wf (map cres l) = true ->
    cskeysT (Lst l) = true -> call ctokb (Lst l) = true ->
    parse_list_go f ts 0 L [] = Ok (map cres l).

  Definition items_spec (l : list tree) : Prop :=
    forall L (pre : list ztok) acc f (ts : list ztok) ti,
    ts = pre ++ levels_go (L + 1) (citems l) ++ [(L, t_rpar)] -> ti = Z.of_nat (length pre) ->
    (length (citems l) + 1 + 4 <= f)%nat -> forallb wf (map cres l) = true ->
    cskeysT (Lst l) = true -> call ctokb (Lst l) = true ->
    parse_list_go f ts ti L acc = Ok (rev acc ++ map cres l).

  Definition P (t : tree) : Prop :=
    match t with Leaf _ => True | Dict kvs => dict_spec kvs | Lst l => list_spec l end.

  Ltac norm_in H := repeat (first [rewrite <- app_assoc in H | progress cbn [app] in H]).
  Ltac fuel f Hf := destruct f as [|f]; [exfalso; clear - Hf; cbn [length] in Hf; lia|].

  Lemma cres_lst l : cres (Lst l) = Lst (map cres l).
  Proof. unfold cres. apply cmapg_lst. Qed.
  Lemma cres_dict d : cres (Dict d) = Dict (map ce d).
  Proof. unfold cres. apply cmapg_dict. Qed.
  Lemma wf_cres_lst l : wf (cres (Lst l)) = forallb wf (map cres l).
  Proof. rewrite cres_lst, wf_lst. reflexivity. Qed.

  Lemma dict_loop kvs : Forall (fun kc => P (snd kc)) kvs -> dict_spec kvs.
  Proof.
    induction 1 as [|[k c] kvs Hc Hall IH]; intros L pre tail acc f ts ti Hts Hti Hpre Htail Hf Hnd Hwf Hsim Hcall.
    - cbn [centries flat_map levels_go app] in Hts. cbn [map]. rewrite app_nil_r.
      destruct Htail as [->|[l ->]].
      + fuel f Hf. apply pd_end. apply py_nth_end. len_eq.
      + fuel f Hf. fuel f Hf.
        rewrite (pd_skip (S f) ts ti acc l []); [| |lia|reflexivity..].
        * apply pd_end. apply py_nth_end. len_eq.
        * apply py_nth_split with (a := pre) (b := []); [exact Hts|exact Hti].
    - rewrite centries_cons in Hts, Hf. rewrite app_length in Hf.
      rewrite cskeysT_cons in Hsim. apply andb_true_iff in Hsim. destruct Hsim as [Hsim Hs3].
      rewrite call_cons in Hcall. apply andb_true_iff in Hcall. destruct Hcall as [Hcall Hc3].
      cbn [map] in Hnd, Hwf |- *. cbn [forallb] in Hwf. apply andb_true_iff in Hwf. destruct Hwf as [Hwc Hwf].
      cbn [snd] in Hc. unfold etoks in Hts, Hf. unfold cskeys_entry in Hsim. unfold call_entry in Hcall.
      unfold cmap_entry in Hnd, Hwc |- *.
      destruct (cm_entry (k, c)) as [[n x]|] eqn:Ecm.
      + (* a comment token *)
        pose proof (ctokb_ctok x Hcall) as Hx. cbn [app length] in Hts, Hf.
        rewrite (lev_ctok L x _ Hx) in Hts. norm_in Hts. unfold gtok in *. cbn [fst snd] in *.
        fuel f Hf.
        rewrite (pd_comment f ts ti acc L x); [| |lia|exact Hx].
        2:{ rewrite Hts. apply (py_nth_off pre []). len_eq. }
        destruct (aset_step (KS x) (Leaf (SStr x)) acc (map fst (map ce kvs)) Hnd) as [Has Hnd'].
        rewrite Has.
        rewrite (IH L (pre ++ [(L, x)]) tail (acc ++ [(KS x, Leaf (SStr x))]) f ts (ti + 1)).
        * rewrite <- app_assoc. reflexivity.
        * list_eq.
        * clear - Hti; len_eq.
        * right. exists pre, L, x. split; [reflexivity|]. right. right. exact (proj2 (proj2 (proj2 Hx))).
        * exact Htail.
        * clear - Hf; lia.
        * exact Hnd'.
        * exact Hwf.
        * exact Hs3.
        * exact Hc3.
      + cbn [fst snd] in *. apply andb_true_iff in Hsim. destruct Hsim as [Hs1 Hs2].
        pose proof (Hkpk k Hs1) as Hpk.
        destruct c as [v|d|l].
        * (* k v ; *)
          cbn [app length] in Hts, Hf.
          rewrite (lev_plain _ _ _ (plain_kt k)), (lev_plain _ _ _ (plain_lt v)), lev_semi in Hts. norm_in Hts.
          do 6 (fuel f Hf).
          rewrite (pd_plain _ ts ti acc L (kt k)); [| |lia|apply plain_kt].
          2:{ rewrite Hts. apply (py_nth_off pre []). len_eq. }
          rewrite (pd_plain _ ts (ti + 1) acc L (lt v)); [| |lia|apply plain_lt].
          2:{ rewrite Hts. apply (py_nth_off pre [(L, kt k)]). len_eq. }
          rewrite (pd_kv' f ts (ti + 1 + 1) acc L (kt k) (lt v) k (nv v)).
          -- destruct (aset_step k (Leaf (nv v)) acc (map fst (map ce kvs)) Hnd) as [Has Hnd'].
             rewrite Has.
             rewrite (IH L (pre ++ [(L, kt k); (L, lt v); (L, t_semi)]) tail (acc ++ [(k, Leaf (nv v))]) _ ts (ti + 1 + 1 + 1)).
             ++ cbn [cmapg]. rewrite <- app_assoc. reflexivity.
             ++ list_eq.
             ++ clear - Hti; len_eq.
             ++ right. exists (pre ++ [(L, kt k); (L, lt v)]), L, t_semi. split; [list_eq|left; reflexivity].
             ++ exact Htail.
             ++ clear - Hf; lia.
             ++ exact Hnd'.
             ++ exact Hwf.
             ++ exact Hs3.
             ++ exact Hc3.
          -- rewrite Hts. apply (py_nth_off pre [(L, kt k); (L, lt v)]). len_eq.
          -- rewrite Hts. apply (py_nth_off pre [(L, kt k)]). len_eq.
          -- rewrite Hts. apply (py_nth_off pre []). len_eq.
          -- apply plain_kt.
          -- apply plain_lt.
          -- lia.
          -- eapply stop3_of_pre'; [exact Hpre|exact Hts|lia].
          -- exact Hpk.
          -- exact (proj2 (Hlt v)).
        * (* k { ... } *)
          rewrite wtoks_dict in Hts, Hf. set (inner := centries d) in *.
          cbn [app] in Hts. rewrite <- !app_assoc in Hts. cbn [app] in Hts.
          pose proof (bal_centries d Hcall) as Hbal. fold inner in Hbal.
          rewrite (lev_plain _ _ _ (plain_kt k)), lev_lbrace, levels_go_app, (b_net _ Hbal), Z.add_0_r, lev_rbrace in Hts. norm_in Hts.
          assert (Hge : Forall (fun z : ztok => L + 1 <= fst z) (levels_go (L + 1) inner)) by apply (b_ge _ Hbal).
          cbn [length] in Hf. rewrite app_length in Hf. cbn [length] in Hf.
          rewrite cmapg_dict in Hwc. cbn [snd] in Hwc. rewrite wf_dict in Hwc. apply andb_true_iff in Hwc. destruct Hwc as [Hnd_d Hwf_d].
          do 3 (fuel f Hf).
          rewrite (pd_plain _ ts ti acc L (kt k)); [| |lia|apply plain_kt].
          2:{ rewrite Hts. apply (py_nth_off pre []). len_eq. }
          assert (Hd : parse_dict_go (S f) (levels_go (L + 1) inner) 0 [] = Ok (map ce d)).
          { apply (Hc (L + 1) [] [] [] (S f)).
            - rewrite app_nil_r. reflexivity.
            - reflexivity.
            - left. reflexivity.
            - left. reflexivity.
            - fold inner. clear - Hf. cbn [length]. lia.
            - exact Hnd_d.
            - exact Hwf_d.
            - exact Hs2.
            - exact Hcall. }
          rewrite (pd_open_dict' f ts pre (levels_go (L + 1) inner) (levels_go L (centries kvs) ++ tail)
                     (ti + 1) acc L (kt k) k (map ce d));
            [|exact Hts|lia|apply nc_kt|exact Hpk|exact Hge|len_eq|exact Hd].
          rewrite cmapg_dict.
          destruct (aset_step k (Dict (map ce d)) acc (map fst (map ce kvs)) Hnd) as [Has Hnd'].
          rewrite Has.
          rewrite (IH L (pre ++ (L, kt k) :: (L, t_lbrace) :: levels_go (L + 1) inner ++ [(L, t_rbrace)])
                     tail (acc ++ [(k, Dict (map ce d))]) _ ts
                     (ti + 1 + Z.of_nat (length (levels_go (L + 1) inner)) + 2)).
          -- rewrite <- app_assoc. reflexivity.
          -- list_eq.
          -- clear - Hti; len_eq.
          -- right. exists (pre ++ (L, kt k) :: (L, t_lbrace) :: levels_go (L + 1) inner), L, t_rbrace.
             split; [list_eq|right; left; reflexivity].
          -- exact Htail.
          -- clear - Hf; try rewrite levels_go_length; lia.
          -- exact Hnd'.
          -- exact Hwf.
          -- exact Hs3.
          -- exact Hc3.
        * (* k ( ... ) ; *)
          rewrite wtoks_lst in Hts, Hf. set (its := citems l) in *.
          pose proof (bal_citems l Hcall) as Hbal. fold its in Hbal.
          cbn [app] in Hts. rewrite <- !app_assoc in Hts. cbn [app] in Hts.
          rewrite (lev_plain _ _ _ (plain_kt k)), lev_lpar, levels_go_app, (b_net _ Hbal), Z.add_0_r, lev_rpar in Hts.
          cbn [app] in Hts. rewrite lev_semi in Hts. norm_in Hts.
          assert (Hge : Forall (fun z : ztok => L + 1 <= fst z) (levels_go (L + 1) its)) by apply (b_ge _ Hbal).
          cbn [app length] in Hf. rewrite !app_length in Hf. cbn [length] in Hf.
          cbn [snd] in Hwc. fold (cres (Lst l)) in Hwc. rewrite wf_cres_lst in Hwc.
          do 4 (fuel f Hf).
          rewrite (pd_plain _ ts ti acc L (kt k)); [| |lia|apply plain_kt].
          2:{ rewrite Hts. apply (py_nth_off pre []). len_eq. }
          rewrite (pd_open_list (S f) ts pre (levels_go (L + 1) its) (levels_go L (centries kvs) ++ tail)
                     (ti + 1) acc L (kt k) k (map cres l));
            [|exact Hts|lia|apply nc_kt|exact Hpk|exact Hge|len_eq| |].
          2:{ intros He. apply (f_equal (@length _)) in He. rewrite levels_go_length in He. cbn [length] in He.
              apply length_zero_iff_nil in He. apply citems_nil in He. subst l. reflexivity. }
          2:{ intros _. apply (Hc L (S (S f))); [reflexivity|fold its; lia|exact Hwc|exact Hs2|exact Hcall]. }
          rewrite (pd_semi_rpar (S f) ts (ti + 1 + Z.of_nat (length (levels_go (L + 1) its)) + 2) _ L L).
          -- fold (cres (Lst l)). rewrite cres_lst.
             destruct (aset_step k (Lst (map cres l)) acc (map fst (map ce kvs)) Hnd) as [Has Hnd'].
             rewrite Has.
             rewrite (IH L (pre ++ (L, kt k) :: (L, t_lpar) :: levels_go (L + 1) its ++ [(L, t_rpar); (L, t_semi)])
                        tail (acc ++ [(k, Lst (map cres l))]) _ ts
                        (ti + 1 + Z.of_nat (length (levels_go (L + 1) its)) + 2 + 1)).
             ++ rewrite <- app_assoc. reflexivity.
             ++ list_eq.
             ++ clear - Hti; len_eq.
             ++ right. exists (pre ++ (L, kt k) :: (L, t_lpar) :: levels_go (L + 1) its ++ [(L, t_rpar)]), L, t_semi.
                split; [list_eq|left; reflexivity].
             ++ exact Htail.
             ++ clear - Hf; try rewrite levels_go_length; lia.
             ++ exact Hnd'.
             ++ exact Hwf.
             ++ exact Hs3.
             ++ exact Hc3.
          -- apply py_nth_split with (a := pre ++ (L, kt k) :: (L, t_lpar) :: levels_go (L + 1) its ++ [(L, t_rpar)])
                                    (b := levels_go L (centries kvs) ++ tail); [list_eq|len_eq].
          -- lia.
          -- apply py_nth_split with (a := pre ++ (L, kt k) :: (L, t_lpar) :: levels_go (L + 1) its)
                                    (b := (L, t_semi) :: levels_go L (centries kvs) ++ tail); [list_eq|len_eq].
  Qed.

  Lemma list_loop l : Forall P l -> items_spec l.
  Proof.
    induction 1 as [|c l Hc Hall IH]; intros L pre acc f ts ti Hts Hti Hf Hwf Hsim Hcall.
    - cbn [citems flat_map levels_go app] in Hts. cbn [map]. rewrite app_nil_r.
      fuel f Hf. fuel f Hf.
      rewrite (pl_rpar (S f) ts ti L acc L); [| |lia].
      + apply pl_end. apply py_nth_end. len_eq.
      + apply py_nth_split with (a := pre) (b := []); [exact Hts|exact Hti].
    - rewrite citems_cons in Hts, Hf. rewrite app_length in Hf.
      cbn [map forallb] in Hwf. apply andb_true_iff in Hwf. destruct Hwf as [Hwc Hwf].
      rewrite cskeysT_lst_cons in Hsim. apply andb_true_iff in Hsim. destruct Hsim as [Hs2 Hs3].
      rewrite call_lst_cons in Hcall. apply andb_true_iff in Hcall. destruct Hcall as [Hcall Hc3].
      cbn [map].
      destruct c as [v|d|l'].
      + (* scalar item *)
        cbn [wtoks app length] in Hts, Hf. rewrite (lev_plain _ _ _ (plain_lt v)) in Hts. norm_in Hts.
        fuel f Hf.
        rewrite (pl_leaf f ts ti L acc (L + 1) (lt v) (nv v)); [| |lia|apply plain_lt|exact (proj2 (Hlt v))].
        2:{ rewrite Hts. apply (py_nth_off pre []). len_eq. }
        rewrite (IH L (pre ++ [(L + 1, lt v)]) (Leaf (nv v) :: acc) f ts (ti + 1)).
        * cbn [rev cres cmapg]. rewrite <- app_assoc. reflexivity.
        * list_eq.
        * len_eq.
        * lia.
        * exact Hwf.
        * exact Hs3.
        * exact Hc3.
      + (* dict item *)
        rewrite wtoks_dict in Hts, Hf. set (inner := centries d) in *.
        cbn [app] in Hts. rewrite <- !app_assoc in Hts. cbn [app] in Hts.
        pose proof (bal_centries d Hcall) as Hbal. fold inner in Hbal.
        rewrite lev_lbrace, levels_go_app, (b_net _ Hbal), Z.add_0_r, lev_rbrace in Hts. norm_in Hts.
        assert (Hge : Forall (fun z : ztok => L + 1 + 1 <= fst z) (levels_go (L + 1 + 1) inner)) by apply (b_ge _ Hbal).
        cbn [length] in Hf. rewrite app_length in Hf. cbn [length] in Hf.
        rewrite cres_dict in Hwc. rewrite wf_dict in Hwc. apply andb_true_iff in Hwc. destruct Hwc as [Hnd_d Hwf_d].
        cbn [P] in Hc.
        do 2 (fuel f Hf).
        assert (Hd : parse_dict_go (S f) (levels_go (L + 1 + 1) inner) 0 [] = Ok (map ce d)).
        { apply (Hc (L + 1 + 1) [] [] [] (S f)).
          - rewrite app_nil_r. reflexivity.
          - reflexivity.
          - left. reflexivity.
          - left. reflexivity.
          - fold inner. cbn [length]. lia.
          - exact Hnd_d.
          - exact Hwf_d.
          - exact Hs2.
          - exact Hcall. }
        rewrite (pl_open_dict' f ts pre (levels_go (L + 1 + 1) inner) (levels_go (L + 1) (citems l) ++ [(L, t_rpar)])
                   ti L acc (L + 1) (map ce d));
          [|exact Hts|exact Hti|lia|exact Hge|len_eq|exact Hd].
        rewrite cres_dict.
        rewrite (IH L (pre ++ (L + 1, t_lbrace) :: levels_go (L + 1 + 1) inner ++ [(L + 1, t_rbrace)])
                   (Dict (map ce d) :: acc) _ ts
                   (ti + Z.of_nat (length (levels_go (L + 1 + 1) inner)) + 2)).
        * cbn [rev]. rewrite <- app_assoc. reflexivity.
        * list_eq.
        * len_eq.
        * try rewrite levels_go_length; lia.
        * exact Hwf.
        * exact Hs3.
        * exact Hc3.
      + (* list item *)
        rewrite wtoks_lst in Hts, Hf. set (its := citems l') in *.
        cbn [app] in Hts. rewrite <- !app_assoc in Hts. cbn [app] in Hts.
        pose proof (bal_citems l' Hcall) as Hbal. fold its in Hbal.
        rewrite lev_lpar, levels_go_app, (b_net _ Hbal), Z.add_0_r, lev_rpar in Hts. norm_in Hts.
        assert (Hge : Forall (fun z : ztok => L + 1 + 1 <= fst z) (levels_go (L + 1 + 1) its)) by apply (b_ge _ Hbal).
        cbn [length] in Hf. rewrite app_length in Hf. cbn [length] in Hf.
        rewrite wf_cres_lst in Hwc.
        cbn [P] in Hc.
        do 2 (fuel f Hf).
        rewrite (pl_open_list f ts pre (levels_go (L + 1 + 1) its) (levels_go (L + 1) (citems l) ++ [(L, t_rpar)])
                   ti L acc (L + 1) (map cres l'));
          [|exact Hts|exact Hti|lia|exact Hge|len_eq| |].
        2:{ intros He. apply (f_equal (@length _)) in He. rewrite levels_go_length in He. cbn [length] in He.
            apply length_zero_iff_nil in He. apply citems_nil in He. subst l'. reflexivity. }
        2:{ intros _. apply (Hc (L + 1) (S f)); [reflexivity|fold its; lia|exact Hwc|exact Hs2|exact Hcall]. }
        rewrite cres_lst.
        rewrite (IH L (pre ++ (L + 1, t_lpar) :: levels_go (L + 1 + 1) its ++ [(L + 1, t_rpar)])
                   (Lst (map cres l') :: acc) _ ts
                   (ti + Z.of_nat (length (levels_go (L + 1 + 1) its)) + 2)).
        * cbn [rev]. rewrite <- app_assoc. reflexivity.
        * list_eq.
        * len_eq.
        * try rewrite levels_go_length; lia.
        * exact Hwf.
        * exact Hs3.
        * exact Hc3.
  Qed.

  Lemma P_all : forall t, P t.
  Proof.
    induction t as [v|kvs IH|l IH] using tree_ind'.
    - exact I.
    - cbn [P]. apply dict_loop. exact IH.
    - cbn [P]. intros L f ts Hts Hf Hwf Hsim Hcall.
      fuel f Hf.
      rewrite (pl_lpar f ts 0 L []); [| |lia].
      + rewrite (list_loop l IH L [(L, t_lpar)] [] f ts (0 + 1)).
        * reflexivity.
        * exact Hts.
        * reflexivity.
        * lia.
        * exact Hwf.
        * exact Hsim.
        * exact Hcall.
      + rewrite Hts. reflexivity.
  Qed.

  (* the token parser on the token stream of a document with comment tokens (also inside dicts that are list items);
     tl is the empty token that re.split may leave at the end *)
  Theorem tok_roundtrip kvs tl : (tl = [] \/ tl = [[]]) ->
    wf (cres (Dict kvs)) = true -> cskeys (Dict kvs) = true -> call ctokb (Dict kvs) = true ->
    parse_tokens (ctoks (events 0 (Dict kvs)) ++ tl) = Ok (kvs_of (cres (Dict kvs))).
  Proof.
    intros Htl Hwf Hsim Hcall. rewrite ctoks_events_dict. unfold cres in *. rewrite cmapg_dict in *. cbn [kvs_of].
    rewrite wf_dict in Hwf. apply andb_true_iff in Hwf. destruct Hwf as [Hnd Hwf].
    unfold parse_tokens, levels. pose proof (bal_centries kvs Hcall) as Hbal.
    rewrite levels_go_app, (b_net _ Hbal).
    apply (P_all (Dict kvs) 0 [] (levels_go (0 + 0) tl) []).
    - reflexivity.
    - reflexivity.
    - left. reflexivity.
    - destruct Htl as [-> | ->]; [left; reflexivity|right; exists 0; reflexivity].
    - rewrite app_length, !levels_go_length. destruct Htl as [-> | ->]; cbn [length]; lia.
    - exact Hnd.
    - exact Hwf.
    - exact Hsim.
    - exact Hcall.
  Qed.
End Main.
End TRC.
