(* C02 / C12, arbitrary layouts, part 4: comments, read with comments = TRUE.
   The line comment stage replaces every line comment by the placeholder of the next counter value, the block comment
   stage every block comment by the placeholder of its number; what is left is a layout of the token list of the
   PLACEHOLDER DOCUMENT: the document's statements with one comment token in front of / behind / between them, wherever
   a comment stands at a statement boundary.  The token parser (RereadParse.TRC), the cleaning and the literal
   insertion (RereadProofs) do not depend on the layout; they are re-used. *)
From Coq Require Import String.
From Coq Require Import NArith ZArith List Bool Lia ZifyBool ZifyN ZifyNat.
From DictIO Require Import Chars Str Value Scalar KeyPath SDict Layout Lexer TokParser TreeSpec NativeSpec LayoutSpec E2ESpec.
From DictIO Require ScalarProofs SDictProofs TokProofs LayoutProofs SemProofs QuoteProofs KeyPathProofs.
From DictIO Require Import E2EProofs E2EHoles E2EInsert E2EKeyTok E2EFullProofs AnyLayoutLex AnyLayoutProofs AnyLayoutComments.
From DictIO Require Import RereadStr RereadTree RereadWrite RereadLex RereadParse RereadNum RereadProofs RereadFix RereadOff FoamSdProofs.
Import ListNotations.
Import LayoutProofs.
Open Scope N_scope.

(* ================================================================================================ *)
(* L. line comments, comments = true                                                                *)
(* ================================================================================================ *)

(* Tc is T1 with the line comments xs written out where T1 has their placeholders lph k (k from ks, in text order): a
   comment stands in front of a line end LF or CR LF (the CR belongs to the comment text), or at the very end *)
Inductive lcn : bool -> list N -> list str -> str -> str -> Prop :=
  | n_nil ok : lcn ok [] [] [] []
  | n_char ok c ks xs Tc T1 : lcn (negb (c =? c_slash) && negb (c =? c_colon)) ks xs Tc T1 -> lcn ok ks xs (c :: Tc) (c :: T1)
  | n_line rest cr k ks xs Tc T1 : nolb rest = true -> (cr = [] \/ cr = [c_cr]) -> lcn true ks xs Tc T1 ->
      lcn true (k :: ks) ((lcomment rest ++ cr) :: xs) (lcomment rest ++ cr ++ c_lf :: Tc) (lph k ++ c_lf :: T1)
  | n_last rest k : nolb rest = true -> lcn true [k] [lcomment rest] (lcomment rest) (lph k).

Lemma replace_cmt_first_new (rest nl new : list N) : forall before : list N,
  nopair c_slash c_slash before = true -> ends_slash before = false -> (nl = [] \/ nl = [c_lf]) ->
  replace_go (c_slash :: c_slash :: rest) new O (before ++ c_slash :: c_slash :: rest ++ nl) = before ++ new ++ nl.
Proof.
  induction before as [|x b IH]; intros Hn He Hnl.
  - cbn [app]. rewrite replace_go_O.
    change (c_slash :: c_slash :: rest ++ nl) with ((c_slash :: c_slash :: rest) ++ nl).
    rewrite starts_with_app. cbn [length Nat.pred app].
    change (S (length rest)) with (length (c_slash :: rest)).
    change (c_slash :: rest ++ nl) with ((c_slash :: rest) ++ nl).
    rewrite replace_go_skip.
    destruct Hnl as [-> | ->]; reflexivity.
  - assert (Hb : nopair c_slash c_slash b = true) by exact (nopair_tail _ _ _ _ Hn).
    assert (He' : ends_slash b = false).
    { destruct b as [|y b']; [reflexivity|]. rewrite ends_slash_cons in He. exact He. }
    change ((x :: b) ++ c_slash :: c_slash :: rest ++ nl) with (x :: (b ++ c_slash :: c_slash :: rest ++ nl)).
    rewrite replace_go_O.
    assert (Hs : starts_with (c_slash :: c_slash :: rest) (x :: (b ++ c_slash :: c_slash :: rest ++ nl)) = false).
    { destruct b as [|y b'].
      - unfold ends_slash in He. cbn [rev app] in He. cbn [starts_with]. rewrite N.eqb_sym, He. reflexivity.
      - cbn [nopair] in Hn. apply andb_true_iff in Hn. destruct Hn as [Hn _]. apply negb_true_iff in Hn.
        cbn [app starts_with]. rewrite (N.eqb_sym c_slash x), (N.eqb_sym c_slash y).
        destruct (x =? c_slash); [|reflexivity]. cbn [andb] in Hn |- *. rewrite Hn. reflexivity. }
    rewrite Hs. cbn [app]. f_equal. exact (IH Hb He' Hnl).
Qed.

Lemma line_with_comment_on (before rest cr nl : list N) count :
  nopair c_slash c_slash before = true -> free_end before -> has_char c_lf before = false -> nolb rest = true ->
  (cr = [] \/ cr = [c_cr]) -> (nl = [] \/ nl = [c_lf]) ->
  extract_line_comment true count (before ++ (lcomment rest ++ cr) ++ nl) =
    (before ++ lph (Z.to_N (counter_next count)) ++ nl, counter_next count,
     Some (Z.to_N (counter_next count), lcomment rest ++ cr)).
Proof.
  intros Hn [He Hc] Hlf Hr Hcr Hnl. unfold extract_line_comment.
  assert (Hbody : has_char c_lf (before ++ lcomment rest ++ cr) = false).
  { rewrite !has_char_app', Hlf. unfold lcomment. rewrite !has_char_cons, (has_lf_nolb rest Hr).
    destruct Hcr as [-> | ->]; reflexivity. }
  rewrite app_assoc, (chomp_lf_spec _ nl Hbody Hnl).
  unfold lcomment. cbn [app]. rewrite (find_comment_first (rest ++ cr) before [] false Hn He Hc). cbn [rev app].
  cbv zeta. reflexivity.
Qed.

(* visible characters that are not a hash *)
Definition vischar (c : N) : bool := negb (is_linebreak c) && negb (is_space c) && negb (c =? c_hash).

Lemma phc_vischar c : phc c = true -> vischar c = true.
Proof. unfold phc, vischar, is_upper, is_digit, is_linebreak. intros H. uc. lia. Qed.

Lemma cph_vis w k : cw w -> forallb vischar (placeholder w k) = true.
Proof.
  intros Hw. apply forallb_forall. intros c Hc. apply phc_vischar. exact (forallb_In _ _ _ (cph_chars w k Hw) Hc).
Qed.

Lemma hash_safe_vis (w : list N) : forallb vischar w = true -> forall vis s, hash_safe vis (w ++ s) = true ->
  hash_safe (match w with [] => vis | _ => true end) s = true.
Proof.
  induction w as [|c w IH]; intros Hw vis s H; [exact H|].
  cbn [forallb] in Hw. apply andb_true_iff in Hw. destruct Hw as [Hc Hw]. unfold vischar in Hc.
  apply andb_true_iff in Hc. destruct Hc as [Hc Hh]. apply andb_true_iff in Hc. destruct Hc as [Hl Hs].
  apply negb_true_iff in Hl, Hs, Hh. cbn [app hash_safe] in H. rewrite Hl, Hs, Hh in H.
  specialize (IH Hw true s H). destruct w; exact IH.
Qed.

(* ---- the stage ----------------------------------------------------------------------------------- *)
Definition lstageN (count : Z) (lines : list str) (T : str) (ks : list N) (xs : list str) : Prop :=
  exists L1, elcL true count lines = (L1, cafter count (length xs), combine ks xs) /\ concat L1 = T /\
             Forall (fun l => include_line_rest l = None) L1.

Lemma lstageN_nil count : lstageN count [] [] [] [].
Proof. exists []. repeat split. constructor. Qed.

Lemma lstageN_plain count l ls T ks xs : nopair c_slash c_slash l = true -> include_line_rest l = None ->
  lstageN count ls T ks xs -> lstageN count (l :: ls) (l ++ T) ks xs.
Proof.
  intros Hn Hi (L1 & E & Ec & Hf). exists (l :: L1). cbn [elcL].
  rewrite (extract_line_comment_nopair true count l Hn), E. repeat split; [cbn [concat]; rewrite Ec; reflexivity|].
  constructor; assumption.
Qed.

Lemma lstageN_cmt count l l' x ls T ks xs :
  extract_line_comment true count l = (l', counter_next count, Some (Z.to_N (counter_next count), x)) ->
  include_line_rest l' = None -> lstageN (counter_next count) ls T ks xs ->
  lstageN count (l :: ls) (l' ++ T) (Z.to_N (counter_next count) :: ks) (x :: xs).
Proof.
  intros El Hi (L1 & E & Ec & Hf). exists (l' :: L1). cbn [elcL]. rewrite El, E.
  repeat split; [cbn [concat]; rewrite Ec; reflexivity|]. constructor; assumption.
Qed.

Lemma lstageN_lf_inv count X T ks xs : lstageN count ([c_lf] :: X) T ks xs -> exists T', T = c_lf :: T' /\ lstageN count X T' ks xs.
Proof.
  intros (L1 & E & Ec & Hf). cbn [elcL] in E.
  change (extract_line_comment true count [c_lf]) with ([c_lf], count, @None (N * str)) in E.
  cbv beta iota zeta in E.
  destruct (elcL true count X) as [[rest c2] tab] eqn:EX. cbv beta iota zeta in E. injection E as <- E2 E3.
  exists (concat rest). split; [rewrite <- Ec; reflexivity|]. exists rest.
  split; [rewrite EX, E2, E3; reflexivity|]. split; [reflexivity|exact (Forall_tail _ _ _ Hf)].
Qed.

Lemma lph_head k : exists c r, lph k = c :: r /\ is_space c = false /\ (c =? c_hash) = false.
Proof. unfold lph, placeholder. eexists. eexists. split; [reflexivity|split; reflexivity]. Qed.

Theorem line_stage_on : forall ok ks xs Tc T1, lcn ok ks xs Tc T1 -> forall cur count vis,
  ks = ids count (length xs) ->
  nopair c_slash c_slash (rev cur ++ T1) = true -> (ok = true -> free_end (rev cur)) ->
  has_char c_lf (rev cur) = false -> hash_safe vis T1 = true -> inc_st vis (rev cur) ->
  lstageN count (splitlines_go cur Tc) (rev cur ++ T1) ks xs.
Proof.
  intros ok ks xs Tc T1 D. induction D as [ok|ok c ks xs Tc T1 D IH|rest cr k ks xs Tc T1 Hr Hcr D IH|rest k Hr];
    intros cur count vis Hks Hn Hok Hlf Hh Hst.
  - (* end of text *)
    cbn [splitlines_go]. rewrite app_nil_r in *. destruct cur as [|x cur'].
    + apply lstageN_nil.
    + rewrite <- (app_nil_r (rev (x :: cur'))) at 2. apply lstageN_plain; [exact Hn| |apply lstageN_nil].
      rewrite <- (app_nil_r (rev (x :: cur'))). apply inc_pre_none; [exact (inc_st_pre _ _ Hst)|left; reflexivity].
  - (* an ordinary character *)
    destruct (hash_safe_step vis c T1 Hh) as [Hh1 Hh2].
    assert (Hn' : nopair c_slash c_slash (rev (c :: cur) ++ T1) = true) by (cbn [rev]; rewrite nopair_snoc_inv; exact Hn).
    assert (HnT : nopair c_slash c_slash T1 = true).
    { apply nopair_app_inv in Hn. destruct Hn as [_ Hn]. exact (nopair_tail _ _ _ _ Hn). }
    assert (Hline : nopair c_slash c_slash (rev (c :: cur)) = true) by (apply nopair_app_inv in Hn'; exact (proj1 Hn')).
    assert (Hend : forall X T', lstageN count X T' ks xs -> is_linebreak c = true ->
              lstageN count (rev (c :: cur) :: X) (rev cur ++ c :: T') ks xs).
    { intros X T' HX Hlb. replace (rev cur ++ c :: T') with (rev (c :: cur) ++ T') by (cbn [rev]; rewrite <- app_assoc; reflexivity).
      apply lstageN_plain; [exact Hline| |exact HX].
      destruct (c =? c_lf) eqn:Elf.
      - apply N.eqb_eq in Elf. subst c. cbn [rev]. apply inc_pre_none; [exact (inc_st_pre _ _ Hst)|right; reflexivity].
      - rewrite <- (app_nil_r (rev (c :: cur))). apply inc_pre_none; [|left; reflexivity]. cbn [rev].
        apply inc_pre_snoc; [exact (inc_st_pre _ _ Hst)|].
        pose proof (linebreak_space c Hlb) as Hs. destruct (c =? c_hash) eqn:Eh; [|reflexivity].
        apply N.eqb_eq in Eh. subst c. discriminate Hs. }
    assert (Hnext : is_linebreak c = true -> lstageN count (splitlines_go [] Tc) T1 ks xs).
    { intros Hlb. rewrite Hlb in Hh2. apply (IH [] count false); try assumption; try reflexivity.
      - intros _. exact free_end_nil.
      - constructor. }
    cbn [splitlines_go]. destruct (c =? c_cr) eqn:Ecr.
    + assert (Hlb : is_linebreak c = true) by (apply N.eqb_eq in Ecr; subst c; reflexivity).
      specialize (Hnext Hlb).
      destruct Tc as [|d Tc'].
      * inversion D; subst. apply (Hend [] [] (lstageN_nil count) Hlb).
      * destruct (d =? c_lf) eqn:Ed.
        -- apply N.eqb_eq in Ed. subst d. rewrite splitlines_go_lf in Hnext.
           destruct (lstageN_lf_inv count _ _ _ _ Hnext) as (T' & -> & HX).
           replace (rev cur ++ c :: c_lf :: T') with (rev (c_lf :: c :: cur) ++ T')
             by (cbn [rev]; rewrite <- !app_assoc; reflexivity).
           apply lstageN_plain; [| |exact HX].
           ++ cbn [rev].
              replace (rev cur ++ c :: c_lf :: T') with (((rev cur ++ [c]) ++ [c_lf]) ++ T') in Hn
                by (rewrite <- !app_assoc; reflexivity).
              exact (proj1 (nopair_app_inv _ _ _ _ Hn)).
           ++ change (rev (c_lf :: c :: cur)) with (rev (c :: cur) ++ [c_lf]). apply inc_pre_none; [|right; reflexivity].
              cbn [rev]. apply inc_pre_snoc; [exact (inc_st_pre _ _ Hst)|]. apply N.eqb_eq in Ecr. subst c. reflexivity.
        -- exact (Hend _ _ Hnext Hlb).
    + destruct (is_linebreak c) eqn:Elb.
      * exact (Hend _ _ (Hnext eq_refl) eq_refl).
      * replace (rev cur ++ c :: T1) with (rev (c :: cur) ++ T1) by (cbn [rev]; rewrite <- app_assoc; reflexivity).
        apply (IH (c :: cur) count (if is_space c then vis else true)); try assumption.
        -- intros Hk. cbn [rev]. apply free_end_snoc. exact Hk.
        -- cbn [rev]. rewrite has_char_app', Hlf. rewrite has_char_cons. cbn [has_char existsb]. rewrite orb_false_r.
           destruct (c_lf =? c) eqn:E; [|reflexivity]. apply N.eqb_eq in E. subst c. discriminate Elb.
        -- cbn [rev]. apply inc_st_snoc; assumption.
  - (* a line comment and its line end *)
    cbn [length] in Hks. rewrite ids_S in Hks. injection Hks as Hk Hks. subst k.
    assert (HnC : nopair c_slash c_slash (rev cur) = true) by (apply nopair_app_inv in Hn; exact (proj1 Hn)).
    assert (HnT : nopair c_slash c_slash T1 = true).
    { apply nopair_app_inv in Hn. destruct Hn as [_ Hn]. apply nopair_app_inv in Hn. destruct Hn as [_ Hn]. exact (nopair_tail _ _ _ _ Hn). }
    pose proof (hash_safe_vis _ (cph_vis w_LINECOMMENT (Z.to_N (counter_next count)) (or_introl eq_refl)) vis _ Hh) as Hh'.
    fold (lph (Z.to_N (counter_next count))) in Hh'.
    destruct (lph_head (Z.to_N (counter_next count))) as (c0 & r0 & Eph & Hc0 & Hh0). rewrite Eph in Hh'.
    cbn [hash_safe] in Hh'. change (is_linebreak c_lf) with true in Hh'. cbv iota in Hh'.
    assert (Hnext : lstageN (counter_next count) (splitlines_go [] Tc) T1 ks xs).
    { apply (IH [] (counter_next count) false); try assumption; try reflexivity.
      - intros _. exact free_end_nil.
      - constructor. }
    assert (Hlb : forallb (fun c => negb (is_linebreak c)) (lcomment rest) = true) by (unfold lcomment; cbn [forallb]; exact Hr).
    rewrite (splitlines_go_nolb (lcomment rest) Hlb).
    assert (Hinc : include_line_rest ((rev cur ++ lph (Z.to_N (counter_next count))) ++ [c_lf]) = None).
    { apply inc_pre_none; [|right; reflexivity]. apply inc_pre_app; [exact (inc_st_pre _ _ Hst)|]. exists c0, r0. repeat split; assumption. }
    replace (rev cur ++ lph (Z.to_N (counter_next count)) ++ c_lf :: T1)
      with (((rev cur ++ lph (Z.to_N (counter_next count))) ++ [c_lf]) ++ T1) by (rewrite <- !app_assoc; reflexivity).
    destruct Hcr as [-> | ->].
    + change ([] ++ c_lf :: Tc) with (c_lf :: Tc). cbn [splitlines_go]. change (c_lf =? c_cr) with false. change (is_linebreak c_lf) with true. cbv iota.
      apply (lstageN_cmt count _ _ (lcomment rest ++ [])); [|exact Hinc|exact Hnext].
      cbn [rev]. rewrite rev_app_distr, rev_involutive.
      pose proof (line_with_comment_on (rev cur) rest [] [c_lf] count HnC (Hok eq_refl) Hlf Hr (or_introl eq_refl) (or_intror eq_refl)) as E.
      rewrite <- !app_assoc. rewrite <- !app_assoc in E. exact E.
    + change ([c_cr] ++ c_lf :: Tc) with (c_cr :: c_lf :: Tc). cbn [splitlines_go]. rewrite !N.eqb_refl.
      apply (lstageN_cmt count _ _ (lcomment rest ++ [c_cr])); [|exact Hinc|exact Hnext].
      cbn [rev]. rewrite rev_app_distr, rev_involutive.
      pose proof (line_with_comment_on (rev cur) rest [c_cr] [c_lf] count HnC (Hok eq_refl) Hlf Hr (or_intror eq_refl) (or_intror eq_refl)) as E.
      rewrite <- !app_assoc. rewrite <- !app_assoc in E. exact E.
  - (* a line comment at the end of the text *)
    cbn [length] in Hks. rewrite ids_S in Hks. injection Hks as Hk. subst k.
    assert (HnC : nopair c_slash c_slash (rev cur) = true) by (apply nopair_app_inv in Hn; exact (proj1 Hn)).
    assert (Hlb : forallb (fun c => negb (is_linebreak c)) (lcomment rest) = true) by (unfold lcomment; cbn [forallb]; exact Hr).
    rewrite <- (app_nil_r (lcomment rest)) at 1. rewrite (splitlines_go_nolb (lcomment rest) Hlb). cbn [splitlines_go].
    destruct (rev (lcomment rest) ++ cur) as [|x l] eqn:El.
    { exfalso. apply app_eq_nil in El. destruct El as [El _]. unfold lcomment in El. cbn [rev] in El.
      apply app_eq_nil in El. destruct El as [_ El]. discriminate El. }
    rewrite <- El.
    destruct (lph_head (Z.to_N (counter_next count))) as (c0 & r0 & Eph & Hc0 & Hh0).
    replace (rev cur ++ lph (Z.to_N (counter_next count))) with (((rev cur ++ lph (Z.to_N (counter_next count))) ++ []) ++ [])
      by (rewrite !app_nil_r; reflexivity).
    rewrite <- (app_nil_r (lcomment rest)) at 2.
    apply (lstageN_cmt count _ _ (lcomment rest ++ [])); [| |apply lstageN_nil].
    + rewrite rev_app_distr, rev_involutive.
      pose proof (line_with_comment_on (rev cur) rest [] [] count HnC (Hok eq_refl) Hlf Hr (or_introl eq_refl) (or_introl eq_refl)) as E.
      rewrite !app_nil_r in E. rewrite !app_nil_r. exact E.
    + apply inc_pre_none; [|left; reflexivity]. apply inc_pre_app; [exact (inc_st_pre _ _ Hst)|]. exists c0, r0. repeat split; assumption.
Qed.

Lemma line_stage_top count xs (Tc T1 : list N) : lcn true (ids count (length xs)) xs Tc T1 ->
  nopair c_slash c_slash T1 = true -> hash_safe false T1 = true -> NoDup (ids count (length xs)) ->
  exists L1, extract_line_comments true count (splitlines Tc) =
               (L1, cafter count (length xs), combine (ids count (length xs)) xs) /\
             concat L1 = T1 /\ Forall (fun l => include_line_rest l = None) L1.
Proof.
  intros D Hn Hh Hnd.
  destruct (line_stage_on true _ xs Tc T1 D [] count false eq_refl Hn (fun _ => free_end_nil) eq_refl Hh (Forall_nil _))
    as (L1 & E & Ec & Hf).
  exists L1. split; [|split; [exact Ec|exact Hf]].
  rewrite elc_elcL. unfold splitlines. rewrite E. rewrite ins_fresh; [reflexivity|].
  rewrite combine_fst by apply ids_length. exact Hnd.
Qed.

(* ================================================================================================ *)
(* B. block comments, comments = true                                                               *)
(* ================================================================================================ *)

(* the text in which the block comments whose text is in the table D are replaced by the placeholder of their id *)
Definition seg_num (D : list (N * str)) (cp : str * str) : str :=
  (if inb (bcomment (fst cp)) D then bph (rlookup (bcomment (fst cp)) D) else bcomment (fst cp)) ++ snd cp.
Definition flatD (D : list (N * str)) (p0 : str) (cps : list (str * str)) : str := p0 ++ flat_map (seg_num D) cps.

Lemma flatD_nil p0 cps : flatD [] p0 cps = flat all_kept p0 cps.
Proof. reflexivity. Qed.

Lemma bph_noslash i : has_char c_slash (bph i) = false.
Proof. apply (phc_not_in c_slash _ eq_refl). apply cph_chars. right. reflexivity. Qed.

Lemma bph_head i : exists c r, bph i = c :: r /\ (c =? c_star) = false /\ (c =? c_slash) = false.
Proof. unfold bph, placeholder. eexists. eexists. split; [reflexivity|split; reflexivity]. Qed.

Lemma nostar_num D p cps : plain_after p = true -> forallb seg_ok cps = true -> nostar (p ++ flat_map (seg_num D) cps) = true.
Proof.
  intros Hp H. destruct p as [|c p'].
  - cbn [app]. clear Hp. induction cps as [|[b q] cps IH]; [reflexivity|]. cbn [forallb] in H. apply andb_true_iff in H. destruct H as [H1 H2].
    cbn [flat_map]. unfold seg_num at 1. cbn [fst snd]. destruct (inb (bcomment b) D); [|reflexivity].
    destruct (bph_head (rlookup (bcomment b) D)) as (c & r & -> & Hc & _). cbn [app nostar]. rewrite Hc. reflexivity.
  - cbn [plain_after] in Hp. apply andb_true_iff in Hp. cbn [app nostar]. exact (proj2 Hp).
Qed.

Lemma replace_same_new (c new R : list N) : c <> [] -> replace_go c new O (c ++ R) = new ++ replace_go c new O R.
Proof.
  intros Hc. destruct c as [|x c']; [congruence|]. cbn [app]. rewrite replace_go_O.
  change (x :: c' ++ R) with ((x :: c') ++ R). rewrite starts_with_app. cbn [app length Nat.pred]. f_equal. apply replace_go_skip.
Qed.

Lemma replace_other_new b b' new (R : list N) : bc_body b = true -> bc_body b' = true -> bcomment b <> bcomment b' ->
  nostar R = true ->
  replace_go (bcomment b) new O (bcomment b' ++ R) = bcomment b' ++ replace_go (bcomment b) new O R.
Proof.
  intros Hb Hb' Hne Hr. pose proof (mid_noslash b Hb) as Hm. pose proof (mid_noslash b' Hb') as Hm'.
  rewrite !(bcomment_app b'), !(bcomment_mid b) in *.
  set (m := c_star :: b ++ [c_star]) in *. set (m' := c_star :: b' ++ [c_star]) in *.
  rewrite replace_go_O.
  assert (H0 : starts_with (c_slash :: m ++ [c_slash]) (c_slash :: m' ++ c_slash :: R) = false).
  { destruct (starts_with (c_slash :: m ++ [c_slash]) _) eqn:E; [|reflexivity]. exfalso. apply Hne.
    cbn [starts_with] in E. rewrite N.eqb_refl in E. cbn [andb] in E.
    pose proof (starts_with_mid m m' R Hm Hm' E) as Em. rewrite (bcomment_mid b'). fold m'. rewrite Em. reflexivity. }
  rewrite H0. f_equal.
  rewrite (replace_noslash (m ++ [c_slash]) new m' _ Hm'). f_equal.
  rewrite replace_go_O.
  assert (H1 : starts_with (c_slash :: m ++ [c_slash]) (c_slash :: R) = false).
  { cbn [starts_with]. rewrite N.eqb_refl. cbn [andb]. unfold m. cbn [app]. destruct R as [|x r]; [reflexivity|].
    cbn [nostar] in Hr. apply negb_true_iff in Hr. cbn [starts_with]. rewrite N.eqb_sym, Hr. reflexivity. }
  rewrite H1. reflexivity.
Qed.

Lemma inb_snoc x D i y : inb x (D ++ [(i, y)]) = inb x D || str_eqb y x.
Proof. rewrite inb_app. unfold inb at 2. cbn [existsb snd]. rewrite orb_false_r. reflexivity. Qed.

Lemma replace_flat_on b i D : bc_body b = true -> forall cps, forallb seg_ok cps = true ->
  replace_go (bcomment b) (bph i) O (flat_map (seg_num D) cps) = flat_map (seg_num (D ++ [(i, bcomment b)])) cps.
Proof.
  intros Hb. induction cps as [|[b' p] cps IH]; intros H; [reflexivity|].
  cbn [forallb] in H. apply andb_true_iff in H. destruct H as [H1 H2].
  destruct (seg_ok_inv _ H1) as (Hb' & Hp & Hpa). cbn [fst snd] in Hb', Hp, Hpa.
  cbn [flat_map]. unfold seg_num at 1 3. cbn [fst snd]. rewrite <- !app_assoc.
  assert (Hplain : forall R, replace_go (bcomment b) (bph i) O (p ++ R) = p ++ replace_go (bcomment b) (bph i) O R).
  { intros R. unfold bcomment at 1 2. apply replace_plain. exact Hp. }
  rewrite inb_snoc. destruct (inb (bcomment b') D) eqn:ED.
  - cbn [orb]. rewrite (rlookup_app_l (bcomment b') D [(i, bcomment b)] ED). unfold bcomment at 1.
    rewrite (replace_noslash _ (bph i) (bph (rlookup (bcomment b') D)) _ (bph_noslash _)). fold (bcomment b).
    rewrite Hplain, (IH H2). reflexivity.
  - cbn [orb]. destruct (str_eqb (bcomment b) (bcomment b')) eqn:Eb.
    + apply SDictProofs.str_eqb_eq in Eb. rewrite <- Eb.
      rewrite replace_same_new by (unfold bcomment; discriminate). rewrite Hplain, (IH H2).
      rewrite (rlookup_app_r (bcomment b) D [(i, bcomment b)]) by (rewrite Eb; exact ED). unfold rlookup. cbn [find snd fst]. rewrite ScalarProofs.str_eqb_refl. reflexivity.
    + rewrite (replace_other_new b b' _ _ Hb Hb').
      * rewrite Hplain, (IH H2). reflexivity.
      * intros E. rewrite E, ScalarProofs.str_eqb_refl in Eb. discriminate Eb.
      * apply nostar_num; assumption.
Qed.

Lemma replace_all_flat_on b i D p0 cps : bc_body b = true -> plain_in p0 = true -> forallb seg_ok cps = true ->
  replace_all (bcomment b) (bph i) (flatD D p0 cps) = flatD (D ++ [(i, bcomment b)]) p0 cps.
Proof.
  intros Hb H0 H. unfold replace_all, flatD. unfold bcomment at 1. cbv iota. fold (bcomment b).
  unfold bcomment at 1. rewrite (replace_plain _ (bph i) p0 _ H0). fold (bcomment b). rewrite (replace_flat_on b i D Hb cps H). reflexivity.
Qed.

Lemma fold_flat_on p0 cps : plain_in p0 = true -> forallb seg_ok cps = true ->
  forall bodies i D, Forall (fun b => bc_body b = true) bodies ->
  fold_left (fun acc (e : N * str) => replace_all (snd e) (placeholder w_BLOCKCOMMENT (fst e)) acc)
            (number_from i (map bcomment bodies)) (flatD D p0 cps) =
  flatD (D ++ number_from i (map bcomment bodies)) p0 cps.
Proof.
  intros H0 H. induction bodies as [|b bodies IH]; intros i D Hbs; [cbn [map number_from fold_left]; rewrite app_nil_r; reflexivity|].
  inversion Hbs as [|b' l' Hb Hbs']; subst. cbn [map number_from fold_left snd fst]. fold (bph i).
  rewrite (replace_all_flat_on b i D p0 cps Hb H0 H), (IH (i + 1) _ Hbs'). rewrite <- app_assoc. reflexivity.
Qed.

(* with comments = true the block comment stage replaces every comment by the placeholder of its number (of the number
   of the first comment with the same text) *)
Theorem block_stage_on p0 cps : plain_in p0 = true -> forallb seg_ok cps = true ->
  extract_block_comments true (flat all_kept p0 cps) =
    (flatD (number_from 0 (map (fun cp => bcomment (fst cp)) cps)) p0 cps, number_from 0 (map (fun cp => bcomment (fst cp)) cps)).
Proof.
  intros H0 H. unfold extract_block_comments. rewrite (find_flat p0 cps H0 H). f_equal.
  assert (Em : map (fun cp : str * str => bcomment (fst cp)) cps = map bcomment (map fst cps)) by (rewrite map_map; reflexivity).
  rewrite Em.
  assert (Hbs : Forall (fun b => bc_body b = true) (map fst cps)).
  { apply Forall_forall. intros b Hin. apply in_map_iff in Hin. destruct Hin as (cp & <- & Hin).
    rewrite forallb_forall in H. exact (proj1 (seg_ok_inv cp (H cp Hin))). }
  rewrite <- flatD_nil. exact (fold_flat_on p0 cps H0 H (map fst cps) 0 [] Hbs).
Qed.

(* ================================================================================================ *)
(* T. the token list of a document with comment tokens                                              *)
(* ================================================================================================ *)

Notation hole_toks := (toks_tree lfa FK).

(* the tokens of one statement, quoted leaves as holes; a comment entry is the one token of its value *)
Definition ev_hole (e : ev) : list str :=
  match e with
  | ELeaf _ k v => [FK k; lfa v; t_semi]
  | EList _ k l => FK k :: hole_toks true (Lst l) ++ [t_semi]
  | EOpen _ k => [FK k; t_lbrace]
  | EClose _ => [t_rbrace]
  | ECm _ _ x => match x with [] => [] | _ => [x] end
  end.
Definition hole_evs (es : list ev) : list str := flat_map ev_hole es.

Lemma hole_evs_cons e es : hole_evs (e :: es) = ev_hole e ++ hole_evs es.
Proof. reflexivity. Qed.

Lemma lits_cons e es : lits (e :: es) = ev_lits e ++ lits es.
Proof. reflexivity. Qed.

Lemma fill_evs : forall es ks R, Forall ev_fin es -> (length (lits es) <= length ks)%nat -> small ks ->
  fillT (map PH ks) (hole_evs es ++ R) = evs_tokL ks es ++ fillT (map PH (skipn (length (lits es)) ks)) R.
Proof.
  induction es as [|e es IH]; intros ks R Hf Hn Hks; [reflexivity|].
  inversion Hf as [|e' es' He Hes]; subst. rewrite lits_cons, app_length in Hn.
  assert (Hn2 : (length (lits es) <= length (skipn (length (ev_lits e)) ks))%nat) by (rewrite skipn_length; lia).
  pose proof (small_skipn (length (ev_lits e)) ks Hks) as Hks2.
  rewrite hole_evs_cons, lits_cons, app_length, <- skipn_add, <- app_assoc. cbn [evs_tokL]. rewrite <- app_assoc.
  rewrite <- (IH _ R Hes Hn2 Hks2).
  destruct e as [lvl k v|lvl k l|lvl k|lvl|lvl n x]; cbn [ev_fin ev_ok ev_hole ev_tokL ev_lits] in *.
  - destruct He as [Hk Hv]. pose proof (simple_tok_nohole _ (proj1 (simple_key_inv k Hk))) as Hnk.
    cbn [app]. rewrite (fillT_plain_cons _ _ _ Hnk). f_equal.
    pose proof (Ft_all (Leaf v) false ks (t_semi :: hole_evs es ++ R) Hv ltac:(unfold nq; cbn [qstrs]; lia) Hks) as E.
    cbn [toks_tree app label] in E. etransitivity; [exact E|].
    f_equal; try (rewrite (fillT_plain_cons _ t_semi _ eq_refl); reflexivity).
  - destruct He as [Hk Hl]. pose proof (simple_tok_nohole _ (proj1 (simple_key_inv k Hk))) as Hnk.
    cbn [app]. rewrite (fillT_plain_cons _ _ _ Hnk). f_equal. rewrite <- app_assoc.
    pose proof (Ft_all (Lst l) true ks ([t_semi] ++ hole_evs es ++ R) Hl ltac:(unfold nq; lia) Hks) as E.
    etransitivity; [exact E|]. rewrite label_lst, TokProofs.toks_lst. cbn [app]. rewrite <- !app_assoc. cbn [app]. reflexivity.
  - pose proof (simple_tok_nohole _ (proj1 (simple_key_inv k He))) as Hnk.
    cbn [app skipn]. rewrite (fillT_plain_cons _ _ _ Hnk), (fillT_plain_cons _ t_lbrace _ eq_refl). reflexivity.
  - cbn [app skipn]. rewrite (fillT_plain_cons _ t_rbrace _ eq_refl). reflexivity.
  - destruct x as [|c x]; [reflexivity|]. cbn [app skipn]. rewrite (fillT_plain_cons _ _ _ (tchars_nohole _ (proj1 He))). reflexivity.
Qed.

Lemma hole_evs_Forall (P : str -> Prop) :
  (forall t b, ktree writable_leaf t = true -> Forall P (hole_toks b t)) ->
  (forall k, simple_key k = true -> P (FK k)) -> P t_lbrace -> P t_rbrace -> P t_semi ->
  (forall x, forallb tchar x = true -> word_lexeme x -> P x) ->
  forall es, Forall ev_fin es -> Forall P (hole_evs es).
Proof.
  intros Ht Hk H1 H2 H3 Hx. induction 1 as [|e es He _ IH]; [constructor|]. rewrite hole_evs_cons. apply Forall_app. split; [|exact IH].
  destruct e as [lvl k v|lvl k l|lvl k|lvl|lvl n x]; cbn [ev_fin ev_ok ev_hole] in *.
  - destruct He as [Hk1 Hv]. constructor; [exact (Hk k Hk1)|]. pose proof (Ht (Leaf v) false Hv) as Hl. cbn [toks_tree] in Hl.
    inversion Hl as [|y ys Hy _]; subst. constructor; [exact Hy|]. constructor; [exact H3|constructor].
  - destruct He as [Hk1 Hl]. constructor; [exact (Hk k Hk1)|]. apply Forall_app. split; [exact (Ht (Lst l) true Hl)|]. constructor; [exact H3|constructor].
  - constructor; [exact (Hk k He)|]. constructor; [exact H1|constructor].
  - constructor; [exact H2|constructor].
  - destruct He as [Hc [-> |Hw]]; [constructor|]. destruct x as [|c x]; [constructor|]. constructor; [exact (Hx _ Hc Hw)|constructor].
Qed.

Lemma tchars_gachars (x : list N) : forallb tchar x = true -> forallb gachar x = true.
Proof.
  intros H. apply gchars_gachars. apply forallb_forall. intros c Hc. apply tchar_gchar. exact (forallb_In _ _ _ H Hc).
Qed.

Lemma hole_evs_htok es : Forall ev_fin es -> Forall htok (hole_evs es).
Proof.
  apply hole_evs_Forall; try (right; reflexivity).
  - intros t b H. exact (hole_toks_htok t b H).
  - intros k Hk. right. apply simple_tok_nohole. exact (proj1 (simple_key_inv k Hk)).
  - intros x Hc _. right. exact (tchars_nohole _ Hc).
Qed.

Lemma hole_evs_lexeme es : Forall ev_fin es -> Forall lexeme (hole_evs es).
Proof.
  apply hole_evs_Forall; try (apply delim_tok_lexeme; reflexivity).
  - intros t b H. exact (hole_toks_lexeme t b H).
  - intros k Hk. right. apply simple_tok_word. exact (proj1 (simple_key_inv k Hk)).
  - intros x _ Hw. right. exact Hw.
Qed.

Lemma hole_evs_gachars es : Forall ev_fin es -> Forall (fun x => forallb gachar x = true) (hole_evs es).
Proof.
  apply hole_evs_Forall; try reflexivity.
  - intros t b H. exact (hole_toks_gachars t b H).
  - intros k Hk. apply simple_tok_gachars. exact (proj1 (simple_key_inv k Hk)).
  - intros x Hc _. exact (tchars_gachars x Hc).
Qed.

Lemma hole_evs_count es : Forall ev_fin es -> nh (concat (hole_evs es)) = length (lits es).
Proof.
  induction 1 as [|e es He _ IH]; [reflexivity|]. rewrite hole_evs_cons, nh_concat_app, IH, lits_cons, app_length. f_equal.
  destruct e as [lvl k v|lvl k l|lvl k|lvl|lvl n x]; cbn [ev_fin ev_ok ev_hole ev_lits] in *.
  - destruct He as [Hk Hv]. pose proof (nh_simple _ (proj1 (simple_key_inv k Hk))) as Hnk.
    pose proof (hole_toks_count (Leaf v) false Hv) as Hc. cbn [toks_tree concat] in Hc. rewrite app_nil_r in Hc.
    cbn [concat]. rewrite !nh_app, Hnk, Hc. change (nh t_semi) with 0%nat. change (nh []) with 0%nat. unfold nq. cbn [qstrs]. lia.
  - destruct He as [Hk Hl]. pose proof (nh_simple _ (proj1 (simple_key_inv k Hk))) as Hnk.
    change (FK k :: hole_toks true (Lst l) ++ [t_semi]) with ([FK k] ++ hole_toks true (Lst l) ++ [t_semi]).
    rewrite !nh_concat_app, (hole_toks_count (Lst l) true Hl). cbn [concat]. rewrite !app_nil_r, Hnk.
    change (nh t_semi) with 0%nat. unfold nq. lia.
  - pose proof (nh_simple _ (proj1 (simple_key_inv k He))) as Hnk. cbn [concat]. rewrite nh_app, Hnk. reflexivity.
  - reflexivity.
  - destruct He as [Hc _]. destruct x as [|c x]; [reflexivity|]. cbn [concat]. rewrite app_nil_r. apply nh_plain. exact (tchars_nohole _ Hc).
Qed.

(* a layout of the placeholder document, seen as a filled abstract text, with its token list for every numbering *)
Lemma layout_abstract_on es fs (txt w1 w2 : list N) :
  Forall ev_fin es -> first_nc es -> Forall2 qflav fs (lits es) ->
  rendering (fillT fs (hole_evs es)) txt -> ws_run w1 -> ws_run w2 ->
  exists A, w1 ++ txt ++ w2 = expandL fs A /\ forallb gachar A = true /\ nh A = length (lits es) /\
            forall ks, (length (lits es) <= length ks)%nat -> small ks ->
              exists tl, (tl = [] \/ tl = [[]]) /\
                tokenize (separate_delimiters (expandL (map PH ks) (remove_line_endings A))) = evs_tokL ks es ++ tl.
Proof.
  intros Hfin Hfn Hfl R H1 H2.
  set (hl := hole_evs es) in *.
  pose proof (hole_evs_htok es Hfin) as Hh. fold hl in Hh.
  destruct (render_fill_bwd hl fs txt Hh (Forall2_Forall_l _ _ _ _ qflav_not_delim Hfl) R) as (A0 & RA & ->).
  exists (w1 ++ A0 ++ w2). split; [symmetry; apply expand_around; assumption|].
  set (A := w1 ++ A0 ++ w2).
  assert (HA : forallb gachar A = true).
  { unfold A. rewrite !forallb_app, (gchars_gachars _ (ws_gchars w1 H1)), (gchars_gachars _ (ws_gchars w2 H2)), andb_true_r.
    cbn [andb]. apply (rendering_chars gachar hl A0 RA (hole_evs_gachars es Hfin)).
    intros c Hc. unfold gachar. rewrite (space_gchar c Hc). reflexivity. }
  assert (HnA : nh A = length (lits es)).
  { rewrite <- nh_filter. unfold A. rewrite !filter_app, (fl_ws w1 H1), (fl_ws w2 H2), app_nil_r. cbn [app].
    rewrite (rendering_filter hl A0 RA).
    - exact (hole_evs_count es Hfin).
    - pose proof (hole_evs_lexeme es Hfin) as HL. revert HL. apply Forall_impl. exact lexeme_nospace. }
  split; [exact HA|]. split; [exact HnA|]. intros ks Hlen Hsm.
  rewrite <- (rle_expand A (map PH ks) (PHs_solid ks)). unfold A. rewrite (expand_around _ w1 A0 w2 H1 H2).
  pose proof (render_fill_fwd hl A0 RA (map PH ks) Hh) as RP.
  assert (Efill : fillT (map PH ks) hl = evs_tokL ks es).
  { pose proof (fill_evs es ks [] Hfin Hlen Hsm) as E. rewrite !app_nil_r in E. exact E. }
  rewrite Efill in RP.
  assert (HLp : Forall lexeme (evs_tokL ks es)).
  { rewrite <- Efill. apply fillT_Forall; [exact (hole_evs_lexeme es Hfin)|].
    apply Forall_map_iff. apply Forall_forall. intros k _. right. apply PH_word. }
  set (T0 := expandL (map PH ks) A0) in *. set (T := w1 ++ T0 ++ w2).
  assert (Htok : toks_go [] (remove_line_endings T) = evs_tokL ks es).
  { rewrite remove_line_endings_eq, tg_strip, tg_map. unfold T. rewrite (toks_go_ws w1 _ H1).
    exact (layout_scan _ T0 RP HLp w2 H2). }
  assert (Hstrip : strip (remove_line_endings T) = remove_line_endings T) by (rewrite remove_line_endings_eq; apply strip_idem).
  exact (tokens_of_text _ _ Hstrip Htok (first_word_evs es Hfin Hfn ks)).
Qed.

(* ================================================================================================ *)
(* D. the numbered document: RereadNum.num_ok without the writer's conditions on the comment texts  *)
(* ================================================================================================ *)

(* comment entries are named LINECOMMENT / BLOCKCOMMENT (the texts are arbitrary) *)
Definition ev_nm (e : ev) : Prop :=
  match e with ECm _ n _ => n = w_LINECOMMENT \/ n = w_BLOCKCOMMENT | _ => True end.

Section NumDocAny.
  Variable ltab btab : list (N * str).
  Hypothesis HLnd : NoDup (map fst ltab).
  Hypothesis HBnd : NoDup (map fst btab).
  Hypothesis HLlt : forall i x, In (i, x) ltab -> i < 1000000.
  Hypothesis HBlt : forall i x, In (i, x) btab -> i < 1000000.
  Variable f : scalar -> scalar.
  Notation gx := (numx ltab btab).
  Notation ce := (cmap_entry (gkv gx gx) f).

  Definition src_any (t : tree) (lvl : nat) : Prop :=
    cshape t = true /\ wf (cstrip t) = true /\ Forall ev_nm (events lvl t) /\
    NoDup (wxe w_LINECOMMENT (events lvl t)) /\ NoDup (wxe w_BLOCKCOMMENT (events lvl t)) /\
    (forall x, In x (wxe w_LINECOMMENT (events lvl t)) -> inb x ltab = true) /\
    (forall x, In x (wxe w_BLOCKCOMMENT (events lvl t)) -> inb x btab = true).

  Lemma src_any_child kvs lvl k d : src_any (Dict kvs) lvl -> In (k, Dict d) kvs -> cm_entry (k, Dict d) = None ->
    src_any (Dict d) (S lvl).
  Proof.
    intros (Hs & Hw & He & Hl & Hb & Hil & Hib) Hin Hc.
    destruct (in_split _ _ Hin) as (l1 & l2 & ->).
    assert (EE : events lvl (Dict (l1 ++ (k, Dict d) :: l2)) =
                 events lvl (Dict l1) ++ (EOpen lvl k :: events (S lvl) (Dict d) ++ [EClose lvl]) ++ events lvl (Dict l2)).
    { rewrite events_app, events_cons. unfold entry_events. rewrite Hc. cbn [fst snd]. reflexivity. }
    rewrite EE in He, Hl, Hb, Hil, Hib.
    assert (Ew : forall w, wxe w (events lvl (Dict l1) ++ (EOpen lvl k :: events (S lvl) (Dict d) ++ [EClose lvl]) ++ events lvl (Dict l2)) =
                           wxe w (events lvl (Dict l1)) ++ wxe w (events (S lvl) (Dict d)) ++ wxe w (events lvl (Dict l2))).
    { intros w. rewrite !wxe_app. cbn [wxe]. rewrite wxe_app. cbn [wxe]. rewrite app_nil_r. reflexivity. }
    rewrite Ew in Hl, Hb, Hil, Hib.
    rewrite cshape_forallb, forallb_forall in Hs. pose proof (Hs _ Hin) as Hse. unfold cshape_entry in Hse. rewrite Hc in Hse. cbn [fst snd] in Hse.
    apply andb_true_iff in Hse. destruct Hse as [_ Hsd].
    rewrite cstrip_dict in Hw. apply SDictProofs.wf_Dict_iff in Hw. destruct Hw as [_ Hw]. rewrite Forall_forall in Hw.
    assert (Hwd : wf (cstrip (Dict d)) = true).
    { apply (Hw (k, cstrip (Dict d))). apply in_flat_map. exists (k, Dict d). split; [apply in_or_app; right; left; reflexivity|].
      unfold cstrip_entry. rewrite Hc. left. reflexivity. }
    split; [exact Hsd|]. split; [exact Hwd|]. split.
    - apply Forall_app in He. destruct He as [_ He]. apply Forall_app in He. destruct He as [He _]. inversion He as [|e es _ He']; subst.
      apply Forall_app in He'. exact (proj1 He').
    - split; [exact (NoDup_app_l _ _ (NoDup_app_r _ _ Hl))|]. split; [exact (NoDup_app_l _ _ (NoDup_app_r _ _ Hb))|]. split.
      + intros x Hx. apply Hil. apply in_or_app. right. apply in_or_app. left. exact Hx.
      + intros x Hx. apply Hib. apply in_or_app. right. apply in_or_app. left. exact Hx.
  Qed.

  Lemma src_any_level kvs lvl : src_any (Dict kvs) lvl ->
    lvl_cm ltab btab kvs /\ lvl_simple kvs /\ NoDup (level_texts w_LINECOMMENT kvs) /\ NoDup (level_texts w_BLOCKCOMMENT kvs) /\
    NoDup (map fst (flat_map cstrip_entry kvs)).
  Proof.
    intros (Hs & Hw & He & Hl & Hb & Hil & Hib). split; [|split; [|split; [|split]]].
    - intros kc n x Hin Hc.
      assert (Hev : In (ECm lvl n x) (events lvl (Dict kvs))).
      { rewrite events_flat. apply in_flat_map. exists kc. split; [exact Hin|]. unfold entry_events. rewrite Hc. left. reflexivity. }
      rewrite Forall_forall in He. pose proof (He _ Hev) as Hsrc. cbn [ev_nm] in Hsrc. destruct Hsrc as [-> | ->].
      + left. split; [reflexivity|]. apply Hil. exact (wxe_In _ _ _ _ _ Hev eq_refl).
      + right. split; [reflexivity|]. apply Hib. exact (wxe_In _ _ _ _ _ Hev eq_refl).
    - intros kc Hin Hc. rewrite cshape_forallb, forallb_forall in Hs. pose proof (Hs _ Hin) as Hse. unfold cshape_entry in Hse.
      rewrite Hc in Hse. apply andb_true_iff in Hse. exact (proj1 Hse).
    - exact (proj2 (level_texts_sub _ kvs lvl) Hl).
    - exact (proj2 (level_texts_sub _ kvs lvl) Hb).
    - rewrite cstrip_dict in Hw. apply SDictProofs.wf_Dict_iff in Hw. exact (proj1 Hw).
  Qed.

  Theorem num_ok_any : forall t lvl, src_any t lvl -> wf (numT ltab btab f t) = true /\ ctabs ltab btab (numT ltab btab f t).
  Proof.
    induction t as [v|kvs IH|ts IH] using tree_ind'; intros lvl Hsrc; try (destruct Hsrc as [Hs _]; discriminate Hs).
    destruct (src_any_level kvs lvl Hsrc) as (Hcm & Hsi & Hl & Hb & Ho).
    destruct (kvals_level ltab btab HLnd HBnd HLlt HBlt f kvs Hcm Hsi) as [Kb Kl].
    unfold numT. rewrite cmapg_dict.
    assert (Hch : forall kc, In kc kvs -> wf (snd (ce kc)) = true /\ (forall d', snd (ce kc) = Dict d' -> ctabs ltab btab (Dict d'))).
    { intros [k c] Hin. unfold cmap_entry. destruct (cm_entry (k, c)) as [[n x]|] eqn:Ec.
      - cbn [gkv snd]. split; [reflexivity|intros d' H; discriminate H].
      - cbn [fst snd]. destruct c as [v|d|l].
        + split; [reflexivity|intros d' H; discriminate H].
        + rewrite Forall_forall in IH. destruct (IH (k, Dict d) Hin (S lvl) (src_any_child kvs lvl k d Hsrc Hin Ec)) as [W C].
          unfold numT in W, C. split; [exact W|]. intros d' Ed. rewrite <- Ed. exact C.
        + split; [|intros d' H; rewrite TokProofs.map_leaves_lst in H; discriminate H]. rewrite wf_map_leaves.
          destruct Hsrc as (_ & Hw & _). rewrite cstrip_dict in Hw. apply SDictProofs.wf_Dict_iff in Hw. destruct Hw as [_ Hw].
          rewrite Forall_forall in Hw. apply (Hw (k, Lst l)). apply in_flat_map. exists (k, Lst l). split; [exact Hin|].
          unfold cstrip_entry. rewrite Ec. left. reflexivity. }
    split.
    - apply SDictProofs.wf_Dict_iff. split; [exact (rkey_nodup ltab btab HLnd HBnd f kvs Hcm Hsi Hl Hb Ho)|].
      apply Forall_forall. intros e He. apply in_map_iff in He. destruct He as (kc & <- & Hin). exact (proj1 (Hch kc Hin)).
    - apply ctabs_dict; [rewrite Kb; exact Hb|rewrite Kl; exact Hl|].
      intros k d Hin. apply in_map_iff in Hin. destruct Hin as (kc & Ekc & Hin). apply (proj2 (Hch kc Hin) d). rewrite Ekc. reflexivity.
  Qed.
End NumDocAny.

(* ================================================================================================ *)
(* P. everything behind the lexer                                                                   *)
(* ================================================================================================ *)

(* The class of documents.  A document with comments is given in canonical form (RereadTree): comment entries are
   (KS LINECOMMENT, text) / (KS BLOCKCOMMENT, text), at any dict level reached through dicts (not inside lists);
   cdoc_ok without the writer's conditions on the comment texts. *)
Definition cm_named (c : nat * str * str) : bool :=
  let '(_, n, _) := c in str_eqb n w_LINECOMMENT || str_eqb n w_BLOCKCOMMENT.
Definition cdoc_any (c : list (key * tree)) : bool :=
  cshape (Dict c) && wf (cstrip (Dict c)) && quoted_within 11 (cstrip (Dict c)) &&
  forallb cm_named (cms (Dict c)) && nodupb (lc_texts (Dict c)) && nodupb (bc_texts (Dict c)).

Lemma cms_of_named : forall es, forallb cm_named (cms_of es) = true -> Forall ev_nm es.
Proof.
  induction es as [|e es IH]; intros H; [constructor|].
  destruct e as [lvl k v|lvl k l|lvl k|lvl|lvl n x]; cbn [cms_of ev_cm] in H; try (constructor; [exact I|exact (IH H)]).
  cbn [forallb] in H. apply andb_true_iff in H. destruct H as [H1 H2]. constructor; [|exact (IH H2)].
  cbn [cm_named ev_nm] in *. apply orb_true_iff in H1. destruct H1 as [H1|H1]; apply SDictProofs.str_eqb_eq in H1; [left|right]; exact H1.
Qed.

Lemma cdoc_any_inv c : cdoc_any c = true ->
  cshape (Dict c) = true /\ wf (cstrip (Dict c)) = true /\ quoted_within 11 (cstrip (Dict c)) = true /\
  Forall ev_nm (events 0 (Dict c)) /\ NoDup (lc_list c) /\ NoDup (bc_list c).
Proof.
  unfold cdoc_any. intros H. apply andb_true_iff in H. destruct H as [H H6]. apply andb_true_iff in H. destruct H as [H H5].
  apply andb_true_iff in H. destruct H as [H H4]. apply andb_true_iff in H. destruct H as [H H3]. apply andb_true_iff in H. destruct H as [H1 H2].
  repeat split; try assumption.
  - apply cms_of_named. exact H4.
  - unfold lc_list. rewrite lcx_texts. apply nodupb_NoDup. exact H5.
  - unfold bc_list. rewrite bcx_texts. apply nodupb_NoDup. exact H6.
Qed.

(* the events of the placeholder document are final *)
Lemma doc2_fin ltab btab t lvl : cshape t = true -> Forall ev_fin (events lvl (doc2 ltab btab t)).
Proof.
  intros Hs. rewrite (doc2_events ltab btab t lvl Hs). pose proof (cshape_events t lvl Hs) as Hok.
  induction Hok as [|e es He _ IH]; [constructor|]. cbn [map]. constructor; [|exact IH].
  destruct e as [l k v|l k ts|l k|l|l n x]; cbn [ev_map ev_fin ev_ok] in *; try exact He.
  - rewrite map_leaves_idf_list. exact He.
  - destruct (gx_cases ltab btab n x) as (w & i & Hw & ->). split; [exact (cph_tchars w i Hw)|right; exact (cph_word w i Hw)].
Qed.

Lemma doc2_first ltab btab t lvl : cshape t = true -> first_nc (events lvl (doc2 ltab btab t)).
Proof. intros _. apply events_first_nc. Qed.

Lemma doc2_lits ltab btab t lvl : cshape t = true -> lits (events lvl (doc2 ltab btab t)) = lits (events lvl t).
Proof. intros Hs. rewrite (doc2_events ltab btab t lvl Hs). apply ev_map_lits. Qed.

Theorem parse_of_lexed_on c dir count (Tc : str) tl : cdoc_any c = true -> (-1 <= count)%Z ->
  (Z.of_nat (length (lc_list c)) <= 1000000)%Z -> (Z.of_nat (length (bc_list c)) <= 1000000)%Z ->
  (Z.of_nat (length (lit_list c)) <= 1000000)%Z -> (tl = [] \/ tl = [[]]) ->
  lex true dir count Tc =
    mkLexed (evs_tokL (ids (cafter count (length (lc_list c))) (length (lit_list c)))
                      (events 0 (doc2 (lc_tab count c) (bc_tab c) (Dict c))) ++ tl)
            (count_after count c) (lc_tab count c) (bc_tab c) [] []
            (tupdate [] (combine (ids (cafter count (length (lc_list c))) (length (lit_list c))) (lit_list c))) ->
  parse_string true dir count Tc = Ok (mkParsed (number count c) (count_after count c)).
Proof.
  intros Hc Hcount Hnl Hnb Hnq Htl Elex'. destruct (cdoc_any_inv c Hc) as (Hs & Hw & Hqw & Hnm & Hlnd & Hbnd).
  set (es := events 0 (Dict c)) in *.
  assert (Hok : Forall ev_ok es) by (apply cshape_events; exact Hs).
  set (nl := length (lc_list c)) in *. set (nq := length (lit_list c)) in *. set (lids := ids count nl). set (c1 := cafter count nl) in *.
  set (ltab := lc_tab count c) in *. set (btab := bc_tab c) in *. set (ks := ids c1 nq) in *. set (tab := combine ks (lit_list c)).
  assert (Hlids : NoDup lids) by (apply ids_nodup; assumption).
  assert (Hc1 : (-1 <= c1)%Z) by (apply cafter_ge; exact Hcount).
  assert (Hks : NoDup ks) by (apply ids_nodup; assumption).
  assert (Hlen_l : length lids = length (lc_list c)) by apply ids_length.
  assert (Hlen_k : length ks = length (lit_list c)) by apply ids_length.
  assert (TLnd : NoDup (map fst ltab)) by (unfold ltab, lc_tab; fold nl lids; rewrite (combine_fst _ _ Hlen_l); exact Hlids).
  assert (TBnd : NoDup (map fst btab)) by apply number_from_nodup.
  assert (TLlt : forall i x, In (i, x) ltab -> i < 1000000).
  { intros i x Hin. apply in_combine_l in Hin. pose proof (ids_small count nl) as Hsm. unfold small in Hsm. rewrite Forall_forall in Hsm. exact (Hsm i Hin). }
  assert (TBlt : forall i x, In (i, x) btab -> i < 1000000).
  { intros i x Hin. apply number_from_lt in Hin. fold (bc_list c) in Hnb. lia. }
  assert (TLin : forall x, In x (lc_list c) -> inb x ltab = true) by (intros x Hx; apply inb_combine; [exact Hlen_l|exact Hx]).
  assert (TBin : forall x, In x (bc_list c) -> inb x btab = true) by (intros x Hx; apply inb_number_from; exact Hx).
  assert (Hsrct : src_any ltab btab (Dict c) 0).
  { split; [exact Hs|]. split; [exact Hw|]. split; [exact Hnm|]. fold es. rewrite <- lcx_wxe, <- bcx_wxe. repeat split; assumption. }
  destruct (num_ok_any ltab btab TLnd TBnd TLlt TBlt written_value (Dict c) 0%nat Hsrct) as [Wnum Cnum].
  unfold parse_string. cbv zeta. rewrite Elex'. cbn [lxd_tokens lxd_count lxd_lc lxd_bc lxd_inc lxd_expr lxd_lit].
  assert (Hfin : Forall ev_fin (events 0 (doc2 ltab btab (Dict c)))) by (apply doc2_fin; exact Hs).
  assert (Hnb0 : forall lvl n, ~ In (ECm lvl n []) (events 0 (doc2 ltab btab (Dict c)))).
  { intros lvl n Hin. rewrite (doc2_events ltab btab (Dict c) 0 Hs) in Hin. apply in_map_iff in Hin. destruct Hin as (e & Ee & _).
    destruct e as [l k v|l k ts|l k|l|l m y]; cbn [ev_map] in Ee; try discriminate Ee. inversion Ee as [[E1 E2 E3]].
    destruct (gx_cases ltab btab m y) as (w & i & Hcw & Eg). rewrite Eg in E3. exact (cph_ne w i Hcw E3). }
  rewrite (evs_tokL_lab _ ks Hfin Hnb0).
  destruct (events_clabel (doc2 ltab btab (Dict c)) 0%nat ks (doc2_cshape ltab btab (Dict c) Hs)) as [Elab _]. rewrite <- Elab.
  fold (doc3 ltab btab ks (Dict c)).
  assert (Hlits : Forall qlit (lit_list c)) by (apply lits_qlit_ok; exact Hok).
  assert (Hpv : Forall (fun s => PWs (pv s) = false) (lit_list c)).
  { revert Hlits. apply Forall_impl. intros s Hq. destruct (qlit_content s Hq) as [A B]. apply PWs_pv; assumption. }
  assert (Hrel : Forall2 (Rel tab) ks (lits (events 0 (Dict c)) ++ [])).
  { rewrite app_nil_r. apply rel_top; [exact Hks|apply ids_small|exact Hlen_k|exact Hpv]. }
  destruct (Vc_all ltab btab tab (Dict c) Hs 0%nat ks [] 11%nat Hrel) as (V1 & V2 & V3 & V4).
  specialize (V2 Hqw).
  destruct (clabel_dict ks (kvs_of (doc2 ltab btab (Dict c)))) as [k3 Ek3].
  assert (Ed2 : exists d2, doc2 ltab btab (Dict c) = Dict d2) by (unfold doc2; rewrite cmapg_dict; eexists; reflexivity).
  destruct Ed2 as [d2 Ed2]. unfold doc3 in *. rewrite Ed2 in *. cbn [kvs_of] in Ek3. rewrite Ek3 in *.
  set (d0 := kvs_of (TRC.cres nvL (Dict k3))).
  assert (Ed0 : TRC.cres nvL (Dict k3) = Dict d0) by (unfold d0, TRC.cres; rewrite cmapg_dict; reflexivity).
  assert (Wd0 : wf (Dict d0) = true) by (rewrite <- Ed0, <- (wf_map_leaves (Gfun tab)), V1; exact Wnum).
  assert (Cd0 : ctabs ltab btab (Dict d0)) by (rewrite <- Ed0; apply (ctabs_map_leaves _ _ (Gfun tab)); rewrite V1; exact Cnum).
  rewrite (TRC.tok_roundtrip ltL ktS nvL HltL HktpS HkpkS k3 tl Htl); [|rewrite Ed0; exact Wd0|exact V3|exact V4].
  fold d0. cbn [bind].
  rewrite (sd_clean_keep d0 ltab btab [] Cd0 Wd0). cbn [sd_data sd_lc sd_bc sd_inc sd_expr].
  assert (Htab : tupdate [] (combine ks (lit_list c)) = tab).
  { apply (tupdate_fresh (combine ks (lit_list c)) []). cbn [app]. rewrite (combine_fst ks _ Hlen_k). exact Hks. }
  rewrite Htab, (insert_all tab d0 Wd0).
  - rewrite <- Ed0, V1. cbn [bind].
    rewrite (parser_clean_num ltab btab written_value c Hs).
    assert (Ednum : exists d1, numT ltab btab written_value (Dict c) = Dict d1) by (unfold numT; rewrite cmapg_dict; eexists; reflexivity).
    destruct Ednum as [d1 Ed1]. rewrite Ed1 in *. cbn [kvs_of].
    rewrite (sd_clean_keep d1 ltab btab [] Cnum Wnum). unfold number. fold ltab btab. rewrite Ed1. reflexivity.
  - rewrite <- Ed0. exact V2.
  - apply Forall_forall. intros [k s] Hin. cbn [snd]. rewrite Forall_forall in Hpv. apply Hpv. exact (in_combine_r _ _ _ _ Hin).
Qed.

(* ================================================================================================ *)
(* F. documents with comments at statement boundaries, read with comments = true                    *)
(* ================================================================================================ *)

(* the token list of a document with comment tokens, the quoted leaves spelled as given by fs *)
Definition cdoc_toks (fs : list str) (d : tree) : list str := fillT fs (hole_evs (events 0 d)).
(* the placeholder document of the canonical document c read from counter value count *)
Definition ph_doc (count : Z) (c : list (key * tree)) : tree := doc2 (lc_tab count c) (bc_tab c) (Dict c).

Lemma spellings_qflav_lits es fs : Forall ev_ok es -> Forall2 spelling fs (lits es) -> Forall2 qflav fs (lits es).
Proof.
  intros Hok H. pose proof (lits_qlit_ok es Hok) as Hq. induction H as [|f s fs ls Hf _ IH]; [constructor|].
  inversion Hq as [|s' ls' Hs1 Hq']; subst. constructor; [|exact (IH Hq')]. split; [exact (proj1 Hs1)|exact Hf].
Qed.

(* c: the document with its comments (canonical form);  Tc: the text as written;  T1 = flat all_kept p0 cps: the text
   with the placeholder lph k in place of the k-th line comment (ids from the counter), cut into plain stretches and
   block comments;  flatD (bc_tab c) p0 cps: the same with the placeholder bph i in place of the i-th block comment;
   that text is a layout of the token list of the placeholder document -- which says that every comment stands where a
   statement could begin or end.  Side conditions on T1 as in AnyLayoutComments.parse_commented. *)
Theorem parse_commented_on : forall c fs (txt w1 w2 Tc : list N) p0 cps dirc count,
  cdoc_any c = true -> Forall2 spelling fs (lit_list c) -> (-1 <= count)%Z ->
  (Z.of_nat (length (lc_list c)) <= 1000000)%Z -> (Z.of_nat (length (bc_list c)) <= 1000000)%Z ->
  (Z.of_nat (length (lit_list c)) <= 1000000)%Z ->
  lcn true (ids count (length (lc_list c))) (lc_list c) Tc (flat all_kept p0 cps) ->
  nopair c_slash c_slash (flat all_kept p0 cps) = true -> hash_safe false (flat all_kept p0 cps) = true ->
  plain_in p0 = true -> forallb seg_ok cps = true ->
  map (fun cp => bcomment (fst cp)) cps = bc_list c ->
  flatD (bc_tab c) p0 cps = w1 ++ txt ++ w2 ->
  rendering (cdoc_toks fs (ph_doc count c)) txt -> ws_run w1 -> ws_run w2 ->
  parse_string true dirc count Tc = Ok (mkParsed (number count c) (count_after count c)).
Proof.
  intros c fs txt w1 w2 Tc p0 cps dirc count Hc Hsp Hcount Hnl Hnb Hnq HL Hnp Hhs Hp0 Hcps Hbc HT0 R H1 H2.
  destruct (cdoc_any_inv c Hc) as (Hs & Hw & Hqw & Hnm & Hlnd & Hbnd).
  assert (Hok : Forall ev_ok (events 0 (Dict c))) by (apply cshape_events; exact Hs).
  destruct (line_stage_top count (lc_list c) Tc _ HL Hnp Hhs (ids_nodup count _ Hcount Hnl)) as (L1 & E1 & Ecat & Hinc).
  pose proof (block_stage_on p0 cps Hp0 Hcps) as E3. rewrite Hbc in E3. fold (bc_tab c) in E3. rewrite <- Ecat in E3.
  unfold cdoc_toks, ph_doc in R. set (es2 := events 0 (doc2 (lc_tab count c) (bc_tab c) (Dict c))) in *.
  assert (Hfin : Forall ev_fin es2) by (apply doc2_fin; exact Hs).
  assert (Hfn : first_nc es2) by (apply doc2_first; exact Hs).
  assert (El : lits es2 = lit_list c) by (apply doc2_lits; exact Hs).
  assert (Hfl : Forall2 qflav fs (lits es2)) by (rewrite El; apply spellings_qflav_lits; assumption).
  destruct (layout_abstract_on es2 fs txt w1 w2 Hfin Hfn Hfl R H1 H2) as (A & EA & HA & HnA & Htok).
  set (c1 := cafter count (length (lc_list c))) in *.
  destruct (Htok (ids c1 (length (lits es2)))) as (tl & Htl & Etok); [rewrite ids_length; apply Nat.le_refl|apply ids_small|].
  apply (parse_of_lexed_on c dirc count Tc tl); try assumption.
  rewrite (AnyLayoutComments.lex_early true dirc count Tc L1 c1 _ _ _ E1 Hinc E3), HT0, EA.
  rewrite (AnyLayoutComments.lex_tail_filled c1 _ _ [] A fs _ HA Hfl HnA).
  change (@Datatypes.length (list N) (lits es2)) with (@Datatypes.length str (lits es2)).
  rewrite Etok, El. reflexivity.
Qed.
Print Assumptions parse_commented_on.

(* ================================================================================================ *)
(* R. what the result is: ordinary data, tables, comments at their places                           *)
(* ================================================================================================ *)

Lemma lit_list_cstrip c : cshape (Dict c) = true -> lit_list c = qstrs (cstrip (Dict c)).
Proof.
  intros Hs. unfold lit_list. rewrite <- lits_ordinary, <- (events_cstrip (Dict c) 0 Hs).
  destruct (cstrip_shape (Dict c) Hs) as [_ Hk]. destruct (plain_doc (cstrip (Dict c)) Hk) as (_ & _ & H3 & _).
  destruct (H3 0%nat) as [_ E]. rewrite E. rewrite cstrip_dict. reflexivity.
Qed.

Lemma data_number_any c count : cshape (Dict c) = true ->
  cstrip (Dict (sd_data (number count c))) = map_leaves written_value (cstrip (Dict c)).
Proof.
  intros Hs. unfold number. cbn [sd_data].
  destruct (numT_dict (lc_tab count c) (bc_tab c) written_value c) as [d Ed]. rewrite Ed. cbn [kvs_of]. rewrite <- Ed.
  unfold numT. apply cstrip_cmapg; [|exact Hs]. intros n x _.
  destruct (gx_cases (lc_tab count c) (bc_tab c) n x) as (w & i & Hw & ->). destruct (cw_facts w Hw) as (_ & _ & Hcc).
  unfold is_cm, placeholder. apply contains_app_l. exact Hcc.
Qed.

Lemma src_any_cnames ltab btab : forall t lvl, src_any ltab btab t lvl -> cnames_ok ltab btab t.
Proof.
  induction t as [v|kvs IH|ts IH] using tree_ind'; intros lvl Hsrc; try exact I.
  destruct (src_any_level ltab btab kvs lvl Hsrc) as (Hcm & _).
  assert (G : forall l, (forall kc, In kc l -> In kc kvs) -> cnames_ok ltab btab (Dict l)).
  { induction l as [|[k c] l IHl]; intros Hsub; [exact I|]. cbn [cnames_ok]. split; [|apply IHl; intros kc H; apply Hsub; right; exact H].
    assert (Hin : In (k, c) kvs) by (apply Hsub; left; reflexivity).
    destruct (cm_entry (k, c)) as [[n x]|] eqn:Ec; [exact (Hcm (k, c) n x Hin Ec)|].
    destruct c as [v|d|l']; try exact I. rewrite Forall_forall in IH. exact (IH (k, Dict d) Hin (S lvl) (src_any_child ltab btab kvs lvl k d Hsrc Hin Ec)). }
  apply G. auto.
Qed.

(* the canonical form of the result is the document, leaves read back: every comment with its exact text at its place *)
Theorem canon_number_any c count : cdoc_any c = true -> (-1 <= count)%Z ->
  (Z.of_nat (length (lc_list c)) <= 1000000)%Z -> (Z.of_nat (length (bc_list c)) <= 1000000)%Z ->
  canon (number count c) = cwv c.
Proof.
  intros Hc Hcount Hnl Hnb. destruct (cdoc_any_inv c Hc) as (Hs & Hw & Hqw & Hnm & Hlnd & Hbnd).
  assert (Hlen_l : length (ids count (length (lc_list c))) = length (lc_list c)) by apply ids_length.
  assert (A1 : NoDup (map fst (lc_tab count c))) by (unfold lc_tab; rewrite (combine_fst _ _ Hlen_l); apply ids_nodup; assumption).
  assert (A2 : NoDup (map fst (bc_tab c))) by apply number_from_nodup.
  assert (A3 : forall i x, In (i, x) (lc_tab count c) -> i < 1000000).
  { intros i x Hin. apply in_combine_l in Hin. pose proof (ids_small count (length (lc_list c))) as Hsm. unfold small in Hsm.
    rewrite Forall_forall in Hsm. exact (Hsm i Hin). }
  assert (A4 : forall i x, In (i, x) (bc_tab c) -> i < 1000000) by (intros i x Hin; apply number_from_lt in Hin; lia).
  assert (A5 : src_any (lc_tab count c) (bc_tab c) (Dict c) 0).
  { split; [exact Hs|]. split; [exact Hw|]. split; [exact Hnm|]. rewrite <- lcx_wxe, <- bcx_wxe. split; [exact Hlnd|]. split; [exact Hbnd|]. split.
    + intros x Hx. apply inb_combine; [exact Hlen_l|exact Hx].
    + intros x Hx. apply inb_number_from. exact Hx. }
  unfold canon, number, cwv. cbn [sd_data sd_lc sd_bc].
  destruct (numT_dict (lc_tab count c) (bc_tab c) written_value c) as [d Ed]. rewrite Ed. cbn [kvs_of]. rewrite <- Ed.
  rewrite (canon_numT _ _ A1 A2 A3 A4 (Dict c) Hs (src_any_cnames _ _ (Dict c) 0 A5)). reflexivity.
Qed.

Lemma skeys_no_cms : forall t lvl, skeys t = true -> cms_of (events lvl t) = [].
Proof.
  induction t as [v|kvs IH|ts IH] using tree_ind'; intros lvl H; try reflexivity.
  revert lvl H. induction IH as [|[k c] kvs Hc _ IHk]; intros lvl H; [reflexivity|].
  rewrite skeys_dict_cons in H. apply andb_true_iff in H. destruct H as [H H3]. apply andb_true_iff in H. destruct H as [H1 H2].
  rewrite events_cons, cms_of_app, (IHk lvl H3), app_nil_r. unfold entry_events. rewrite (cm_entry_simple k c H1). cbn [fst snd] in *.
  destruct c as [v|d|l]; try reflexivity. cbn [cms_of ev_cm]. rewrite cms_of_app, (Hc (S lvl) H2). reflexivity.
Qed.

(* the statement in terms of the tree: the ordinary data, the tables, the counter *)
Theorem parse_commented_on_data : forall c kvs fs (txt w1 w2 Tc : list N) p0 cps dirc count,
  cdoc_any c = true -> cstrip (Dict c) = Dict kvs -> Forall2 spelling fs (qstrs (Dict kvs)) -> (-1 <= count)%Z ->
  (Z.of_nat (length (lc_list c)) <= 1000000)%Z -> (Z.of_nat (length (bc_list c)) <= 1000000)%Z ->
  (Z.of_nat (nq (Dict kvs)) <= 1000000)%Z ->
  lcn true (ids count (length (lc_list c))) (lc_list c) Tc (flat all_kept p0 cps) ->
  nopair c_slash c_slash (flat all_kept p0 cps) = true -> hash_safe false (flat all_kept p0 cps) = true ->
  plain_in p0 = true -> forallb seg_ok cps = true ->
  map (fun cp => bcomment (fst cp)) cps = bc_list c ->
  flatD (bc_tab c) p0 cps = w1 ++ txt ++ w2 ->
  rendering (cdoc_toks fs (ph_doc count c)) txt -> ws_run w1 -> ws_run w2 ->
  exists p, parse_string true dirc count Tc = Ok p /\
    cstrip (Dict (sd_data (pr_sd p))) = map_leaves written_value (Dict kvs) /\
    canon (pr_sd p) = cwv c /\
    sd_lc (pr_sd p) = combine (ids count (length (lc_list c))) (lc_list c) /\
    sd_bc (pr_sd p) = number_from 0 (bc_list c) /\ sd_inc (pr_sd p) = [] /\ sd_expr (pr_sd p) = [] /\
    pr_count p = cafter (cafter count (length (lc_list c))) (nq (Dict kvs)).
Proof.
  intros c kvs fs txt w1 w2 Tc p0 cps dirc count Hc Ek Hsp Hcount Hnl Hnb Hnq HL Hnp Hhs Hp0 Hcps Hbc HT0 R H1 H2.
  destruct (cdoc_any_inv c Hc) as (Hs & _).
  assert (El : lit_list c = qstrs (Dict kvs)) by (rewrite (lit_list_cstrip c Hs), Ek; reflexivity).
  exists (mkParsed (number count c) (count_after count c)). split.
  - apply (parse_commented_on c fs txt w1 w2 Tc p0 cps dirc count); try assumption; rewrite El; assumption.
  - cbn [pr_sd pr_count]. split; [rewrite (data_number_any c count Hs), Ek; reflexivity|].
    split; [exact (canon_number_any c count Hc Hcount Hnl Hnb)|].
    unfold number, count_after. cbn [sd_lc sd_bc sd_inc sd_expr]. rewrite El. repeat split; reflexivity.
Qed.
Print Assumptions parse_commented_on_data.

(* C12: the same text read with comments off (AnyLayoutComments.parse_commented; p0', cps', txt': the text without its
   line comments cut into plain stretches and block comments, and the layout that remains without the block comments):
   no comment entry, and the ordinary data of the two readings are the same *)
Theorem data_same_in_either_mode : forall c kvs fs (txt w1 w2 Tc : list N) p0 cps (txt' w1' w2' : list N) p0' cps' dirc count,
  cdoc_any c = true -> cstrip (Dict c) = Dict kvs -> Forall2 spelling fs (qstrs (Dict kvs)) -> (-1 <= count)%Z ->
  (Z.of_nat (length (lc_list c)) <= 1000000)%Z -> (Z.of_nat (length (bc_list c)) <= 1000000)%Z ->
  (Z.of_nat (nq (Dict kvs)) <= 1000000)%Z ->
  (* comments on *)
  lcn true (ids count (length (lc_list c))) (lc_list c) Tc (flat all_kept p0 cps) ->
  nopair c_slash c_slash (flat all_kept p0 cps) = true -> hash_safe false (flat all_kept p0 cps) = true ->
  plain_in p0 = true -> forallb seg_ok cps = true ->
  map (fun cp => bcomment (fst cp)) cps = bc_list c ->
  flatD (bc_tab c) p0 cps = w1 ++ txt ++ w2 ->
  rendering (cdoc_toks fs (ph_doc count c)) txt -> ws_run w1 -> ws_run w2 ->
  (* comments off *)
  lcm true Tc (flat all_kept p0' cps') ->
  nopair c_slash c_slash (flat all_kept p0' cps') = true -> hash_safe false (flat all_kept p0' cps') = true ->
  plain_in p0' = true -> forallb seg_ok cps' = true ->
  flat none_kept p0' cps' = w1' ++ txt' ++ w2' ->
  rendering (doc_toks fs kvs) txt' -> ws_run w1' -> ws_run w2' ->
  exists p_on p_off,
    parse_string true dirc count Tc = Ok p_on /\ parse_string false dirc count Tc = Ok p_off /\
    cstrip (Dict (sd_data (pr_sd p_on))) = Dict (sd_data (pr_sd p_off)) /\
    cms (Dict (sd_data (pr_sd p_off))) = [] /\
    Dict (sd_data (pr_sd p_off)) = map_leaves written_value (Dict kvs).
Proof.
  intros c kvs fs txt w1 w2 Tc p0 cps txt' w1' w2' p0' cps' dirc count Hc Ek Hsp Hcount Hnl Hnb Hnq HL Hnp Hhs Hp0 Hcps Hbc HT0 R H1 H2
         HL' Hnp' Hhs' Hp0' Hcps' HT0' R' H1' H2'.
  destruct (cdoc_any_inv c Hc) as (Hs & Hw & Hqw & _).
  destruct (cstrip_shape (Dict c) Hs) as [_ Hk]. rewrite Ek in Hw, Hqw, Hk.
  destruct (parse_commented_on_data c kvs fs txt w1 w2 Tc p0 cps dirc count Hc Ek Hsp Hcount Hnl Hnb Hnq HL Hnp Hhs Hp0 Hcps Hbc HT0 R H1 H2)
    as (p_on & Pon & Don & _).
  assert (Hwr : writable_tree (Dict kvs) = true) by (rewrite writable_ktree; exact Hk).
  destruct (parse_commented kvs fs txt' w1' w2' Tc p0' cps' dirc count Hw Hwr Hsp R' H1' H2' Hcount Hnq Hqw HL' Hnp' Hhs' Hp0' Hcps' HT0')
    as (lc & bc & count' & Poff).
  exists p_on, (mkParsed (mkSD (kvs_of (map_leaves written_value (Dict kvs))) lc bc [] []) count').
  split; [exact Pon|]. split; [exact Poff|]. cbn [pr_sd sd_data].
  assert (Ed : Dict (kvs_of (map_leaves written_value (Dict kvs))) = map_leaves written_value (Dict kvs))
    by (rewrite TokProofs.map_leaves_dict; reflexivity).
  rewrite Ed. split; [exact Don|]. split; [|reflexivity].
  unfold cms. apply skeys_no_cms. rewrite skeys_map_leaves. exact (ktree_skeys _ _ Hk).
Qed.
Print Assumptions data_same_in_either_mode.

(* ================================================================================================ *)
(* E. material for the non-vacuity examples of Properties/C02, C12                                  *)
(* ================================================================================================ *)

(* ---- tactics for the example (the text-level derivations are read off the concrete texts) -------------------------- *)
Ltac on_ws_run_tac := repeat (constructor; [reflexivity|]); constructor.
Ltac on_gap_tac :=
  first [ left; discriminate | right; left; eexists; split; reflexivity | right; right; eexists; split; reflexivity ].
Ltac on_rendering_tac :=
  lazymatch goal with
  | |- rendering [] _ => apply r_nil
  | |- rendering [?x] _ => apply r_one
  | |- rendering (?x :: ?y :: ?l) ?t =>
      let w := eval vm_compute in (fst (span is_space (drop_n (length x) t))) in
      let r := eval vm_compute in (snd (span is_space (drop_n (length x) t))) in
      change t with (x ++ w ++ r);
      apply r_cons; [ on_rendering_tac | on_ws_run_tac | on_gap_tac ]
  end.
(* derivations of [lcn]: two slashes in the written text start a line comment, the placeholder stands in the other text *)
Ltac on_lcn_tac :=
  lazymatch goal with
  | |- lcn _ [] [] [] [] => apply n_nil
  | |- lcn _ (?k :: ?ks) (?x :: ?xs) (47%N :: 47%N :: ?t) ?T1 =>
      let rest := eval vm_compute in (fst (span (fun c => negb (is_linebreak c)) t)) in
      let aft := eval vm_compute in (snd (span (fun c => negb (is_linebreak c)) t)) in
      let T1' := eval vm_compute in (drop_n (S (length (lph k))) T1) in
      lazymatch aft with
      | [] => change (lcn true [k] [lcomment rest] (lcomment rest) (lph k)); apply n_last; vm_compute; reflexivity
      | 10%N :: ?Tc' =>
          change (lcn true (k :: ks) ((lcomment rest ++ []) :: xs) (lcomment rest ++ [] ++ c_lf :: Tc') (lph k ++ c_lf :: T1'));
          apply n_line; [vm_compute; reflexivity|left; reflexivity|on_lcn_tac]
      | 13%N :: 10%N :: ?Tc' =>
          change (lcn true (k :: ks) ((lcomment rest ++ [c_cr]) :: xs) (lcomment rest ++ [c_cr] ++ c_lf :: Tc') (lph k ++ c_lf :: T1'));
          apply n_line; [vm_compute; reflexivity|right; reflexivity|on_lcn_tac]
      end
  | |- lcn _ _ _ (?c :: ?t) (?c :: ?T1) => apply n_char; on_lcn_tac
  end.

(* non-vacuity: nested dicts, a list with a quoted string (spelled with double quotes in the text), a block comment in
   front of the first statement, line comments on a line of their own / behind an opening brace (the line ends with CR LF)
   / behind a closing brace / at the end, block comments in front of a statement, behind a list (two lines long), as the
   only content of a nested dict, behind a closing brace (that line ends with CR LF), tabs and blanks *)
Definition exc_LC (s : str) : key * tree := (KS w_LINECOMMENT, Leaf (SStr s)).
Definition exc_BC (s : str) : key * tree := (KS w_BLOCKCOMMENT, Leaf (SStr s)).
Definition ex_on_tree : list (key * tree) :=
  [(KS (of_string "a"),
    Dict [(KS (of_string "x"), Leaf (SInt 1));
          (KS (of_string "y"), Lst [Leaf (SInt 1); Leaf (SStr (of_string "two w"))]);
          (KS (of_string "sub"), Dict [])]);
   (KS (of_string "b"), Leaf (SStr (of_string "it's")))].
Definition ex_on_b2 : str := of_string " after the list," ++ [c_lf] ++ of_string "   two lines ".
Definition ex_on_doc : list (key * tree) :=
  [exc_BC (of_string "/* header */"); exc_LC (of_string "// first comment, on a line of its own");
   (KS (of_string "a"),
    Dict [exc_LC (of_string "// in a" ++ [c_cr]); exc_BC (of_string "/* before x */"); (KS (of_string "x"), Leaf (SInt 1));
          (KS (of_string "y"), Lst [Leaf (SInt 1); Leaf (SStr (of_string "two w"))]);
          exc_BC (bcomment ex_on_b2);
          (KS (of_string "sub"), Dict [exc_BC (of_string "/* only */")]); exc_LC (of_string "// after sub")]);
   exc_BC (of_string "/* after a */"); (KS (of_string "b"), Leaf (SStr (of_string "it's"))); exc_LC (of_string "// end")].
(* the text as written *)
Definition ex_on_Tc : str :=
  [c_lf] ++ of_string "/* header */" ++ [c_lf] ++ of_string "// first comment, on a line of its own" ++ [c_lf] ++
  of_string "a" ++ [c_lf] ++ of_string "{ // in a" ++ [c_cr; c_lf; c_tab] ++
  of_string "/* before x */ x 1; y ( 1 ""two w"" ) ; " ++ bcomment ex_on_b2 ++ [c_lf] ++
  of_string "  sub { /* only */ } // after sub" ++ [c_lf] ++ of_string "} /* after a */" ++ [c_cr; c_lf] ++
  of_string "b ""it's""; // end" ++ [c_lf].
(* the plain stretches behind the block comments (line comments replaced by their placeholders, ids 6 .. 9) *)
Definition ex_on_S1 (a b : str) : str := [c_lf] ++ a ++ [c_lf] ++ of_string "a" ++ [c_lf] ++ of_string "{ " ++ b ++ [c_lf; c_tab].
Definition ex_on_S4 (a : str) : str := of_string " } " ++ a ++ [c_lf] ++ of_string "} ".
Definition ex_on_S5 (a : str) : str := [c_cr; c_lf] ++ of_string "b ""it's""; " ++ a.
Definition ex_on_s1 : str := ex_on_S1 (lph 6) (lph 7).
Definition ex_on_s2 : str := of_string " x 1; y ( 1 ""two w"" ) ; ".
Definition ex_on_s3 : str := [c_lf] ++ of_string "  sub { ".
Definition ex_on_s4 : str := ex_on_S4 (lph 8).
Definition ex_on_s5 : str := ex_on_S5 (lph 9).
Definition ex_on_p0 : str := [c_lf].
Definition ex_on_cps : list (str * str) :=
  [(of_string " header ", ex_on_s1); (of_string " before x ", ex_on_s2); (ex_on_b2, ex_on_s3); (of_string " only ", ex_on_s4);
   (of_string " after a ", ex_on_s5 ++ [c_lf])].
(* the layout of the placeholder document's tokens *)
Definition ex_on_txt : str :=
  bph 0 ++ ex_on_s1 ++ bph 1 ++ ex_on_s2 ++ bph 2 ++ ex_on_s3 ++ bph 3 ++ ex_on_s4 ++ bph 4 ++ ex_on_s5.
Definition ex_on_fs : list str := [dq (of_string "two w"); dq (of_string "it's")].

Lemma ex_on_facts :
  cdoc_any ex_on_doc = true /\ cstrip (Dict ex_on_doc) = Dict ex_on_tree /\
  Forall2 spelling ex_on_fs (qstrs (Dict ex_on_tree)) /\
  lcn true (ids 5 (length (lc_list ex_on_doc))) (lc_list ex_on_doc) ex_on_Tc (flat all_kept ex_on_p0 ex_on_cps) /\
  nopair c_slash c_slash (flat all_kept ex_on_p0 ex_on_cps) = true /\ hash_safe false (flat all_kept ex_on_p0 ex_on_cps) = true /\
  plain_in ex_on_p0 = true /\ forallb seg_ok ex_on_cps = true /\
  map (fun cp => bcomment (fst cp)) ex_on_cps = bc_list ex_on_doc /\
  flatD (bc_tab ex_on_doc) ex_on_p0 ex_on_cps = [c_lf] ++ ex_on_txt ++ [c_lf] /\
  rendering (cdoc_toks ex_on_fs (ph_doc 5 ex_on_doc)) ex_on_txt.
Proof.
  refine (conj _ (conj _ (conj _ (conj _ (conj _ (conj _ (conj _ (conj _ (conj _ (conj _ _)))))))))); try (vm_compute; reflexivity).
  - assert (Hq : qstrs (Dict ex_on_tree) = [of_string "two w"; of_string "it's"]) by (vm_compute; reflexivity).
    rewrite Hq. constructor; [right; split; reflexivity|]. constructor; [right; split; reflexivity|constructor].
  - let ks := eval vm_compute in (ids 5 (length (lc_list ex_on_doc))) in
    let xs := eval vm_compute in (lc_list ex_on_doc) in
    let a := eval vm_compute in ex_on_Tc in let b := eval vm_compute in (flat all_kept ex_on_p0 ex_on_cps) in
    change (lcn true ks xs a b); on_lcn_tac.
  - let v := eval vm_compute in (cdoc_toks ex_on_fs (ph_doc 5 ex_on_doc)) in let t := eval vm_compute in ex_on_txt in
    change (rendering v t); on_rendering_tac.
Qed.


(* the same text for comments = false (AnyLayoutComments.parse_commented): the line comments are gone, the CR of the
   CR LF behind "// in a" with them *)
Ltac on_lcm_tac :=
  lazymatch goal with
  | |- lcm _ [] [] => apply l_nil
  | |- lcm _ (47%N :: 47%N :: ?t) ?T1 =>
      let rest := eval vm_compute in (fst (span (fun c => negb (is_linebreak c)) t)) in
      let aft := eval vm_compute in (snd (span (fun c => negb (is_linebreak c)) t)) in
      lazymatch aft with
      | [] => change (lcm true (lcomment rest) []); apply l_last; vm_compute; reflexivity
      | 10%N :: ?Tc' =>
          lazymatch T1 with
          | 10%N :: ?T1' => change (lcm true (lcomment rest ++ [c_lf] ++ Tc') (c_lf :: T1'));
                          apply l_line; [vm_compute; reflexivity|left; reflexivity|on_lcm_tac]
          end
      | 13%N :: 10%N :: ?Tc' =>
          lazymatch T1 with
          | 10%N :: ?T1' => change (lcm true (lcomment rest ++ [c_cr; c_lf] ++ Tc') (c_lf :: T1'));
                          apply l_line; [vm_compute; reflexivity|right; reflexivity|on_lcm_tac]
          end
      end
  | |- lcm _ (?c :: ?t) (?c :: ?T1) => apply l_char; on_lcm_tac
  end.
Definition ex_off_cps : list (str * str) :=
  [(of_string " header ", ex_on_S1 [] []); (of_string " before x ", ex_on_s2); (ex_on_b2, ex_on_s3); (of_string " only ", ex_on_S4 []);
   (of_string " after a ", ex_on_S5 [] ++ [c_lf])].
Definition ex_off_txt : str :=
  of_string "a" ++ [c_lf] ++ of_string "{ " ++ [c_lf; c_tab] ++ ex_on_s2 ++ ex_on_s3 ++ of_string " } " ++ [c_lf] ++ of_string "} " ++
  [c_cr; c_lf] ++ of_string "b ""it's"";".

Lemma ex_off_facts :
  lcm true ex_on_Tc (flat all_kept ex_on_p0 ex_off_cps) /\
  nopair c_slash c_slash (flat all_kept ex_on_p0 ex_off_cps) = true /\ hash_safe false (flat all_kept ex_on_p0 ex_off_cps) = true /\
  forallb seg_ok ex_off_cps = true /\
  flat none_kept ex_on_p0 ex_off_cps = [c_lf; c_lf; c_lf] ++ ex_off_txt ++ [c_sp; c_lf] /\
  rendering (doc_toks ex_on_fs ex_on_tree) ex_off_txt.
Proof.
  refine (conj _ (conj _ (conj _ (conj _ (conj _ _))))); try (vm_compute; reflexivity).
  - let a := eval vm_compute in ex_on_Tc in let b := eval vm_compute in (flat all_kept ex_on_p0 ex_off_cps) in
    change (lcm true a b); on_lcm_tac.
  - let v := eval vm_compute in (doc_toks ex_on_fs ex_on_tree) in let t := eval vm_compute in ex_off_txt in
    change (rendering v t); on_rendering_tac.
Qed.
