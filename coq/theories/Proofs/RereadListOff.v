(* LIST VERSION of RereadOff.v: the same development over the event stream of RereadListTree.v, which enters lists
   (comment entries inside dicts that are list items, at any nesting).  Statements and proofs are those of RereadOff.v
   with the cases of the list skeleton events (ELOpen / EIOpen / EDOpen / ELEnd) added and the tree recursions entering
   lists; see RereadList.v for the interface. *)
(* C12 on documents with comments, part 9: reading with comments switched off.
   The comment lines of the written text are blanked; the token stream is that of the document without its comment
   entries; the tables are filled all the same. *)
From Coq Require Import String.
From Coq Require Import NArith ZArith List Bool Lia ZifyBool ZifyN ZifyNat.
From DictIO Require Import Chars Str Value Scalar KeyPath SDict Layout Lexer TokParser TreeSpec NativeSpec LayoutSpec E2ESpec.
From DictIO Require ScalarProofs SDictProofs TokProofs LayoutProofs SemProofs QuoteProofs KeyPathProofs RereadPlain.
From DictIO Require Import E2EProofs E2EHoles E2EInsert E2EKeyTok E2EFullProofs RereadStr RereadListTree RereadListWrite RereadListLex RereadListParse RereadListNum RereadListProofs RereadListFix.
Import ListNotations.
Import LayoutProofs.
Open Scope N_scope.

Definition is_cmE (e : ev) : bool := match e with ECm _ _ _ => true | _ => false end.
Definition ordinary_evs (es : list ev) : list ev := filter (fun e => negb (is_cmE e)) es.

Lemma ordinary_app a b : ordinary_evs (a ++ b) = ordinary_evs a ++ ordinary_evs b.
Proof. unfold ordinary_evs. apply filter_app. Qed.

(* the events of the document without its comment entries *)
Lemma cstrip_is_dict d : exists d', cstrip (Dict d) = Dict d'.
Proof. rewrite cstrip_dict. eexists. reflexivity. Qed.

Lemma events_cstripA : forall t lvl anc, cshapeT t = true -> eventsA lvl anc (cstrip t) = ordinary_evs (eventsA lvl anc t).
Proof.
  induction t as [v|kvs IH|ts IH] using tree_ind'; intros lvl anc Hs; [reflexivity| |].
  - rewrite cstrip_dict, !eventsA_dict.
    revert lvl Hs. induction IH as [|[k c] kvs Hc _ IHk]; intros lvl Hs; [reflexivity|].
    rewrite cshapeT_cons in Hs. apply andb_true_iff in Hs. destruct Hs as [Hs1 Hs2].
    cbn [flat_map]. rewrite events_app, events_cons, ordinary_app, (IHk lvl Hs2). f_equal. cbn [snd] in Hc.
    unfold cstrip_entry, entry_events, cshape_entry in *. destruct (cm_entry (k, c)) as [[n x]|] eqn:Ec; [reflexivity|].
    cbn [fst snd] in *. apply andb_true_iff in Hs1. destruct Hs1 as [Hk Hc1]. rewrite events_cons, events_nil, app_nil_r. unfold entry_events.
    rewrite (cm_entry_simple k _ Hk). cbn [fst snd]. destruct c as [v|d|l].
    + reflexivity.
    + destruct (cstrip_is_dict d) as [d' Ed]. rewrite Ed, <- Ed. unfold events.
      rewrite (Hc (S lvl) false Hc1). unfold ordinary_evs. cbn [filter is_cmE negb]. rewrite filter_app. cbn [filter is_cmE negb]. reflexivity.
    + rewrite cstrip_lst, <- cstrip_lst, (Hc lvl false Hc1). reflexivity.
  - rewrite cstrip_lst, !eventsA_lst, map_length. set (len := length ts). clearbody len.
    assert (G : forall run idx first, ievents lvl anc len (map cstrip ts) run idx first = ordinary_evs (ievents lvl anc len ts run idx first)).
    { induction IH as [|c l Hc _ IHl]; intros run idx first; [reflexivity|].
      rewrite cshapeT_lst_cons in Hs. apply andb_true_iff in Hs. destruct Hs as [Hs1 Hs2]. cbn [map]. destruct c as [v|d|l2].
      - cbn [cstrip ievents]. apply (IHl Hs2).
      - destruct (cstrip_is_dict d) as [d' Ed]. rewrite Ed. cbn [ievents]. rewrite <- Ed, (Hc (S (S lvl)) false Hs1), (IHl Hs2).
        unfold ordinary_evs. cbn [filter is_cmE negb]. rewrite filter_app. cbn [filter is_cmE negb]. reflexivity.
      - rewrite cstrip_lst. cbn [ievents]. rewrite <- cstrip_lst, (Hc (S lvl) true Hs1), (IHl Hs2).
        unfold ordinary_evs. cbn [filter is_cmE negb]. rewrite filter_app. reflexivity. }
    exact (G [] 0%nat true).
Qed.
Lemma events_cstrip t lvl : cshape t = true -> events lvl (cstrip t) = ordinary_evs (events lvl t).
Proof. intros H. apply events_cstripA, cshape_T. exact H. Qed.

Lemma lits_ordinary es : lits (ordinary_evs es) = lits es.
Proof.
  induction es as [|e es IH]; [reflexivity|]. unfold lits, ordinary_evs in *. cbn [filter flat_map].
  destruct e; cbn [is_cmE negb flat_map ev_lits app]; rewrite IH; reflexivity.
Qed.

(* with comments off both passes leave nothing: the tokens are those of the ordinary events *)
Lemma tokens_off btab : forall es lids ks, Forall ev_src es -> (forall x, In x (bcx es) -> inb x btab = true) -> length lids = length (lcx es) ->
  evs_tokL ks (map (numB false btab) (relab false lids es)) = evs_tokL ks (ordinary_evs es).
Proof.
  induction es as [|e es IH]; intros lids ks Hsrc Hin Hl; [reflexivity|]. inversion Hsrc as [|e' es' He Hes]; subst.
  destruct e as [l k v|l k|l|l n x|l k|l len idx first run|l len idx first run|l anc len idx first run]; cbn [relab map numB ordinary_evs filter is_cmE negb evs_tokL lcx bcx] in *;
    try (fold (ordinary_evs es); rewrite (IH lids _ Hes Hin Hl); reflexivity).
  fold (ordinary_evs es). cbn [ev_src] in He. destruct He as [[-> _]|[-> _]].
  - replace (str_eqb w_LINECOMMENT w_LINECOMMENT) with true in * by reflexivity. replace (str_eqb w_LINECOMMENT w_BLOCKCOMMENT) with false in * by reflexivity.
    destruct lids as [|i lids]; [discriminate Hl|]. cbn [map numB]. replace (str_eqb w_LINECOMMENT w_BLOCKCOMMENT) with false by reflexivity.
    cbn [andb evs_tokL ev_tokL ev_lits length skipn app]. apply IH; [exact Hes|exact Hin|cbn [length] in Hl; lia].
  - replace (str_eqb w_BLOCKCOMMENT w_LINECOMMENT) with false in * by reflexivity. replace (str_eqb w_BLOCKCOMMENT w_BLOCKCOMMENT) with true in * by reflexivity.
    cbn [map numB]. replace (str_eqb w_BLOCKCOMMENT w_BLOCKCOMMENT) with true by reflexivity. rewrite (Hin x (or_introl eq_refl)).
    cbn [andb evs_tokL ev_tokL ev_lits length skipn app]. apply IH; [exact Hes|intros y Hy; apply Hin; right; exact Hy|exact Hl].
Qed.

(* a comment-free document *)
Lemma cmapg_cstripT g f : forall t, cshapeT t = true -> cmapg g f (cstrip t) = map_leaves f (cstrip t).
Proof.
  induction t as [v|kvs IH|ts IH] using tree_ind'; intros Hs; [reflexivity| |].
  - rewrite cstrip_dict, cmapg_dict, TokProofs.map_leaves_dict. f_equal.
    revert Hs. induction IH as [|[k c] kvs Hc _ IHk]; intros Hs; [reflexivity|].
    rewrite cshapeT_cons in Hs. apply andb_true_iff in Hs. destruct Hs as [Hs1 Hs2]. cbn [flat_map]. rewrite !map_app, (IHk Hs2). f_equal.
    unfold cstrip_entry, cshape_entry in *. cbn [snd] in Hc. destruct (cm_entry (k, c)) as [[n x]|]; [reflexivity|].
    cbn [fst snd] in *. apply andb_true_iff in Hs1. destruct Hs1 as [Hk Hc1]. cbn [map]. unfold cmap_entry. rewrite (cm_entry_simple k _ Hk).
    unfold TokProofs.mkv. cbn [fst snd]. rewrite (Hc Hc1). reflexivity.
  - rewrite cstrip_lst, cmapg_lst, TokProofs.map_leaves_lst. f_equal. rewrite !map_map.
    revert Hs. induction IH as [|c l Hc _ IHl]; intros Hs; [reflexivity|].
    rewrite cshapeT_lst_cons in Hs. apply andb_true_iff in Hs. destruct Hs as [Hs1 Hs2]. cbn [map]. rewrite (Hc Hs1), (IHl Hs2). reflexivity.
Qed.
Lemma cmapg_cstrip g f t : cshape t = true -> cmapg g f (cstrip t) = map_leaves f (cstrip t).
Proof. intros H. apply cmapg_cstripT, cshape_T. exact H. Qed.

Lemma cstrip_shape t : cshape t = true -> cshape (cstrip t) = true /\ ktree writable_leaf (cstrip t) = true.
Proof.
  intros H. pose proof (ktree_cstrip t (cshape_T t H)) as K. split; [|exact K].
  destruct t as [v|kvs|ts]; try discriminate H. destruct (cstrip_is_dict kvs) as [d' Ed]. rewrite Ed in *. exact (ktree_cshapeT _ K).
Qed.

(* no placeholder keys: _clean has nothing to do *)
Lemma ctabs_plain lc bc : forall t, ktree (fun _ => true) t = true -> ctabs lc bc t.
Proof.
  induction t as [v|kvs IH|ts IH] using tree_ind'; intros Hk; try exact I.
  assert (Hkeys : forall kd, keys_of_kind kd kvs = []).
  { intros kd. unfold keys_of_kind. apply filter_none. intros k Hin. apply in_map_iff in Hin. destruct Hin as (kc & <- & Hin).
    rewrite (simple_kind _ (ktree_dict_keys _ kvs Hk kc Hin)). reflexivity. }
  apply ctabs_dict; [rewrite Hkeys; constructor|rewrite Hkeys; constructor|].
  intros k d Hin. rewrite Forall_forall in IH. apply (IH (k, Dict d) Hin).
  clear -Hk Hin. induction kvs as [|[k' c'] kvs IHk]; [destruct Hin|]. rewrite ktree_dict_cons in Hk. apply andb_true_iff in Hk. destruct Hk as [Hk Hk3].
  apply andb_true_iff in Hk. destruct Hk as [_ Hk2]. destruct Hin as [Heq|Hin]; [inversion Heq; subst; exact Hk2|exact (IHk Hk3 Hin)].
Qed.

Lemma cstrip_idemT : forall t, cshapeT t = true -> cstrip (cstrip t) = cstrip t.
Proof.
  induction t as [v|kvs IH|ts IH] using tree_ind'; intros Hs; [reflexivity| |].
  - rewrite !cstrip_dict. f_equal.
    revert Hs. induction IH as [|[k c] kvs Hc _ IHk]; intros Hs; [reflexivity|].
    rewrite cshapeT_cons in Hs. apply andb_true_iff in Hs. destruct Hs as [Hs1 Hs2]. cbn [flat_map]. rewrite flat_map_app, (IHk Hs2). f_equal.
    unfold cshape_entry in Hs1. cbn [snd] in Hc. destruct (cm_entry (k, c)) as [[n x]|] eqn:Ec.
    + assert (E : cstrip_entry (k, c) = []) by (unfold cstrip_entry; rewrite Ec; reflexivity). rewrite E. reflexivity.
    + cbn [fst snd] in *. apply andb_true_iff in Hs1. destruct Hs1 as [Hk Hc1].
      assert (Ecm : forall c', cm_entry (k, c') = None) by (intros c'; apply cm_entry_simple; exact Hk).
      assert (E : cstrip_entry (k, c) = [(k, cstrip c)]) by (unfold cstrip_entry; rewrite Ec; reflexivity). rewrite E. cbn [flat_map]. rewrite app_nil_r.
      unfold cstrip_entry. rewrite Ecm. cbn [fst snd]. rewrite (Hc Hc1). reflexivity.
  - rewrite !cstrip_lst. f_equal. rewrite map_map.
    revert Hs. induction IH as [|c l Hc _ IHl]; intros Hs; [reflexivity|].
    rewrite cshapeT_lst_cons in Hs. apply andb_true_iff in Hs. destruct Hs as [Hs1 Hs2]. cbn [map]. rewrite (Hc Hs1), (IHl Hs2). reflexivity.
Qed.
Lemma cstrip_idem t : cshape t = true -> cstrip (cstrip t) = cstrip t.
Proof. intros H. apply cstrip_idemT, cshape_T. exact H. Qed.

(* the SDict returned with comments off: the ordinary data only; the comment tables are filled all the same *)
Definition number_off (count : Z) (c : list (key * tree)) : sdict :=
  mkSD (kvs_of (map_leaves written_value (cstrip (Dict c)))) (lc_tab count c) (bc_tab c) [] [].

Theorem reader_off c dir count : cdoc_ok c = true -> (-1 <= count)%Z ->
  (Z.of_nat (length (lc_list c)) <= 1000000)%Z -> (Z.of_nat (length (bc_list c)) <= 1000000)%Z ->
  (Z.of_nat (length (lit_list c)) <= 1000000)%Z ->
  parse_string false dir count (remove_trailing_spaces (cat cm_line (events 0 (Dict c)))) =
  Ok (mkParsed (number_off count c) (count_after count c)).
Proof.
  intros Hc Hcount Hnl Hnb Hnq. destruct (cdoc_ok_inv c Hc) as (Hs & Hw & Hqw & Hcm & Hlnd & Hbnd).
  set (es := events 0 (Dict c)) in *.
  assert (Hok : Forall ev_ok es) by (apply cshape_events; exact Hs).
  assert (Hsrc : Forall ev_src es) by (apply cms_of_events_src; assumption).
  set (nl := length (lc_list c)). set (nq := length (lit_list c)). set (lids := ids count nl). set (c1 := cafter count nl).
  set (ltab := lc_tab count c). set (btab := bc_tab c). set (ks := ids c1 nq). set (tab := combine ks (lit_list c)).
  assert (Hlids : NoDup lids) by (apply ids_nodup; assumption).
  assert (Hc1 : (-1 <= c1)%Z) by (apply cafter_ge; exact Hcount).
  assert (Hks : NoDup ks) by (apply ids_nodup; assumption).
  assert (Hlen_l : length lids = length (lc_list c)) by apply ids_length.
  assert (Hlen_k : length ks = length (lit_list c)) by apply ids_length.
  assert (TBin : forall x, In x (bc_list c) -> inb x btab = true) by (intros x Hx; apply inb_number_from; exact Hx).
  (* the stripped document *)
  set (T := cstrip (Dict c)) in *.
  destruct (cstrip_shape (Dict c) Hs) as [HsT HkT]. fold T in HsT, HkT.
  assert (ET : events 0 T = ordinary_evs es) by (exact (events_cstrip (Dict c) 0 Hs)).
  assert (EdT : exists dT, T = Dict dT) by (unfold T; rewrite cstrip_dict; eexists; reflexivity). destruct EdT as [dT EdT].
  (* the lexer *)
  rewrite (rts_cat es (Forall_impl _ ev_src_lexW Hsrc)).
  destruct (lex_events false dir count es Hsrc (events_first_nc c 0) Hbnd Hlids) as (tl & Htl & Elex).
  assert (Etok : evs_tokL ks (map (numB false btab) (relab false lids es)) = evs_tokL ks (events 0 T)).
  { rewrite ET. apply tokens_off; [exact Hsrc|exact TBin|exact Hlen_l]. }
  assert (Elex' : lex false dir count (catR es) =
                  mkLexed (evs_tokL ks (events 0 T) ++ tl) (cafter c1 nq) ltab btab [] [] (tupdate [] (combine ks (lit_list c))))
    by (rewrite <- Etok; exact Elex).
  clear Elex. unfold parse_string. cbv zeta. rewrite Elex'. cbn [lxd_tokens lxd_count lxd_lc lxd_bc lxd_inc lxd_expr lxd_lit].
  assert (Hfin : Forall ev_fin (events 0 T)).
  { rewrite ET. unfold ordinary_evs. apply Forall_forall. intros e He. apply filter_In in He. destruct He as [Hin Hn].
    rewrite Forall_forall in Hok. pose proof (Hok e Hin) as Hoe. destruct e as [l k v|l k|l|l n x|l k|l len idx first run|l len idx first run|l anc len idx first run]; try exact Hoe. discriminate Hn. }
  assert (Hnb0 : forall lvl n, ~ In (ECm lvl n []) (events 0 T)).
  { intros lvl n Hin. rewrite ET in Hin. unfold ordinary_evs in Hin. apply filter_In in Hin. destruct Hin as [_ Hn]. discriminate Hn. }
  rewrite (evs_tokL_lab _ ks Hfin Hnb0).
  destruct (events_clabel T 0%nat ks HsT) as [Elab _]. rewrite <- Elab.
  (* values *)
  assert (Hlits : Forall qlit (lit_list c)) by (apply lits_qlit_ok; exact Hok).
  assert (Hpv : Forall (fun s => PWs (pv s) = false) (lit_list c)).
  { revert Hlits. apply Forall_impl. intros s Hq. destruct (qlit_content s Hq) as [A B]. apply PWs_pv; assumption. }
  assert (ElT : lits (events 0 T) = lit_list c) by (rewrite ET, lits_ordinary; reflexivity).
  assert (Hrel : Forall2 (Rel tab) ks (tlits T ++ [])).
  { rewrite app_nil_r. rewrite EdT, <- (lits_events_dict dT 0), <- EdT, ElT. apply rel_top; [exact Hks|apply ids_small|exact Hlen_k|exact Hpv]. }
  destruct (Vc_all ltab btab tab T (cshape_T T HsT) ks [] 11%nat Hrel) as (V1 & V2 & V3 & V4).
  assert (Ed2 : doc2 ltab btab T = T).
  { unfold doc2, T. rewrite (cmapg_cstrip _ idf (Dict c) Hs). exact (map_leaves_id _). }
  assert (EnT : numT ltab btab written_value T = map_leaves written_value T) by (unfold numT, T; exact (cmapg_cstrip _ written_value (Dict c) Hs)).
  unfold doc3 in V1, V2, V3, V4. rewrite Ed2 in V1, V2, V3, V4. rewrite EnT in V1.
  assert (Hq2 : quoted_within 11 (cstrip T) = true) by (unfold T; rewrite (cstrip_idem (Dict c) Hs); exact Hqw). specialize (V2 Hq2).
  destruct (clabel_dict ks dT) as [k3 Ek3]. rewrite EdT in V1, V2, V3, V4 |- *. rewrite Ek3 in V1, V2, V3, V4 |- *.
  set (d0 := kvs_of (TRC.cres nvL (Dict k3))).
  assert (Ed0 : TRC.cres nvL (Dict k3) = Dict d0) by (unfold d0, TRC.cres; rewrite cmapg_dict; reflexivity).
  assert (HwT : wf (Dict dT) = true) by (rewrite <- EdT; exact Hw).
  assert (HkT' : ktree writable_leaf (Dict dT) = true) by (rewrite <- EdT; exact HkT).
  destruct (RereadPlain.wvt_facts (Dict dT) HkT') as (F1 & _).
  assert (Cwv : ctabs ltab btab (map_leaves written_value (Dict dT))) by (apply ctabs_plain; exact (ktree_skeys _ _ F1)).
  assert (Wd0 : wf (Dict d0) = true) by (rewrite <- Ed0, <- (wf_map_leaves (Gfun tab)), V1, wf_map_leaves; exact HwT).
  assert (Cd0 : ctabs ltab btab (Dict d0)) by (rewrite <- Ed0; apply (ctabs_map_leaves _ _ (Gfun tab)); rewrite V1; exact Cwv).
  rewrite (TRC.tok_roundtrip ltL ktS nvL HltL HktpS HkpkS k3 tl Htl); [|rewrite Ed0; exact Wd0|exact V3|exact V4].
  fold d0. cbn [bind].
  rewrite (sd_clean_keep d0 ltab btab [] Cd0 Wd0). cbn [sd_data sd_lc sd_bc sd_inc sd_expr].
  assert (Htab : tupdate [] (combine ks (lit_list c)) = tab).
  { apply (tupdate_fresh (combine ks (lit_list c)) []). cbn [app]. rewrite (combine_fst ks _ Hlen_k). exact Hks. }
  rewrite Htab, (insert_all tab d0 Wd0).
  - rewrite <- Ed0, V1. cbn [bind]. rewrite TokProofs.map_leaves_dict in *. cbn [kvs_of].
    rewrite (parser_clean_keys written_value dT (ktree_dict_keys _ dT HkT')).
    rewrite (sd_clean_keep _ ltab btab [] Cwv ltac:(rewrite <- TokProofs.map_leaves_dict, wf_map_leaves; exact HwT)).
    unfold number_off, count_after. fold T. rewrite EdT, TokProofs.map_leaves_dict. reflexivity.
  - rewrite <- Ed0. exact V2.
  - apply Forall_forall. intros [k s] Hin. cbn [snd]. rewrite Forall_forall in Hpv. apply Hpv. exact (in_combine_r _ _ _ _ Hin).
Qed.

(* writing a re-readable SDict and reading the text with comments off *)
Theorem reread_off s dir count : rereadable s = true -> (-1 <= count)%Z ->
  (Z.of_nat (length (lc_list (written_doc s))) <= 1000000)%Z -> (Z.of_nat (length (bc_list (written_doc s))) <= 1000000)%Z ->
  (Z.of_nat (length (lit_list (written_doc s))) <= 1000000)%Z ->
  parse_string false dir count (to_string_sd s) =
  Ok (mkParsed (number_off count (written_doc s)) (count_after count (written_doc s))).
Proof.
  intros Hr Hc H1 H2 H3. rewrite (writer_canon s Hr). exact (reader_off (written_doc s) dir count (rereadable_doc s Hr) Hc H1 H2 H3).
Qed.

(* no comment entry at any level, and the same ordinary data as with comments on *)
Theorem off_data c count : cdoc_ok c = true ->
  cms (Dict (sd_data (number_off count c))) = [] /\
  Dict (sd_data (number_off count c)) = cstrip (Dict (sd_data (number count c))).
Proof.
  intros Hc. destruct (cdoc_ok_inv c Hc) as (Hs & _). destruct (cstrip_shape (Dict c) Hs) as [HsT HkT].
  assert (EdT : exists dT, cstrip (Dict c) = Dict dT) by (rewrite cstrip_dict; eexists; reflexivity). destruct EdT as [dT EdT].
  assert (Ed : Dict (sd_data (number_off count c)) = map_leaves written_value (cstrip (Dict c))).
  { unfold number_off. cbn [sd_data]. rewrite EdT, TokProofs.map_leaves_dict. reflexivity. }
  split; [|rewrite Ed, (data_number c count Hc); reflexivity].
  rewrite Ed. unfold cms. rewrite <- (cmapg_cstrip (gkv keepn keepx) written_value (Dict c) Hs).
  unfold events at 1. rewrite (cmapg_events keepn keepx written_value keep_cm (cstrip (Dict c)) 0%nat false (cshape_T _ HsT)), cms_of_keep.
  fold (events 0 (cstrip (Dict c))). rewrite (events_cstrip (Dict c) 0 Hs).
  unfold ordinary_evs. induction (events 0 (Dict c)) as [|e es IH]; [reflexivity|]. cbn [filter]. destruct e; cbn [is_cmE negb cms_of ev_cm]; exact IH.
Qed.

Print Assumptions reread_off.
Print Assumptions off_data.

(* ---- the ordinary data of the written document is the ordinary data of the SDict --------------------- *)
Lemma flat_cstrip_filter (p : key * tree -> bool) (l : list (key * tree)) : (forall kc, p kc = true -> cstrip_entry kc = []) ->
  flat_map cstrip_entry (filter p l) = [] /\ flat_map cstrip_entry (filter (fun kc => negb (p kc)) l) = flat_map cstrip_entry l.
Proof.
  intros H. induction l as [|kc l [IH1 IH2]]; [split; reflexivity|]. cbn [filter flat_map]. destruct (p kc) eqn:E; cbn [negb flat_map].
  - rewrite (H kc E), IH1, IH2. split; reflexivity.
  - rewrite IH1, IH2. split; reflexivity.
Qed.

Lemma is_bc_cstrip kc : is_bc_entry kc = true -> cstrip_entry kc = [].
Proof. unfold is_bc_entry, cstrip_entry. destruct (cm_entry kc) as [[n x]|]; [reflexivity|discriminate]. Qed.

Lemma cstrip_hdr c : cstrip (Dict (hdr c)) = cstrip (Dict c).
Proof.
  assert (E : cstrip (Dict (csort c)) = cstrip (Dict c)).
  { rewrite !cstrip_dict. unfold csort. rewrite flat_map_app. destruct (flat_cstrip_filter is_bc_entry c is_bc_cstrip) as [E1 E2].
    rewrite E1, E2. reflexivity. }
  unfold hdr. destruct (has_header (csort c)); [exact E|]. rewrite <- E, !cstrip_dict. cbn [flat_map].
  change (cstrip_entry hdr_entry) with (@nil (key * tree)). reflexivity.
Qed.

Lemma res_name_cm (n x : str) : is_cm n = true -> is_cm ((fun n0 _ : str => res_name n0) n x) = true.
Proof. intros H. cbv beta. unfold res_name. destruct (is_ph w_LINECOMMENT n); [reflexivity|]. destruct (is_ph w_BLOCKCOMMENT n); [reflexivity|exact H]. Qed.

Theorem cstrip_written_doc s : cshape (Dict (sd_data s)) = true -> cstrip (Dict (written_doc s)) = cstrip (Dict (sd_data s)).
Proof.
  intros Hs. unfold written_doc. rewrite cstrip_hdr. unfold canon, canon_tree.
  assert (Ed : exists d, cmapg (gkv (fun n _ => res_name n) (res_text (sd_lc s) (sd_bc s))) idf (Dict (sd_data s)) = Dict d) by (rewrite cmapg_dict; eexists; reflexivity).
  destruct Ed as [d Ed]. rewrite Ed. cbn [kvs_of]. rewrite <- Ed.
  rewrite (cstrip_cmapg _ _ idf res_name_cm (Dict (sd_data s)) Hs). exact (map_leaves_id _).
Qed.

(* ================================================================================================ *)
(* the document-level statements of C12, assembled                                                  *)
(* ================================================================================================ *)

Theorem header_first : forall s,
  has_header (written_doc s) = true /\
  (has_header (csort (canon s)) = true -> written_doc s = csort (canon s)) /\
  (has_header (csort (canon s)) = false -> written_doc s = (KS w_BLOCKCOMMENT, Leaf (SStr nh_txt)) :: csort (canon s)) /\
  nh_txt ++ [c_lf] = native_header.
Proof.
  intros s. split; [exact (proj2 (hdr_sorted (canon s)))|]. unfold written_doc, hdr.
  split; [intros H; rewrite H; reflexivity|]. split; [intros H; rewrite H; reflexivity|]. symmetry. exact native_header_split.
Qed.

Theorem comments_survive : forall s dir count, rereadable s = true -> (-1 <= count)%Z ->
  (Z.of_nat (length (lc_list (written_doc s))) <= 1000000)%Z -> (Z.of_nat (length (bc_list (written_doc s))) <= 1000000)%Z ->
  (Z.of_nat (length (lit_list (written_doc s))) <= 1000000)%Z ->
  exists s' count',
    parse_string true dir count (to_string_sd s) = Ok (mkParsed s' count') /\
    cstrip (Dict (sd_data s')) = map_leaves written_value (cstrip (Dict (sd_data s))) /\
    canon s' = cwv (written_doc s) /\
    sd_lc s' = combine (ids count (length (lc_list (written_doc s)))) (lc_list (written_doc s)) /\
    sd_bc s' = number_from 0 (bc_list (written_doc s)) /\
    sd_inc s' = [] /\ sd_expr s' = [].
Proof.
  intros s dir count Hr Hc H1 H2 H3. exists (number count (written_doc s)), (count_after count (written_doc s)).
  pose proof (rereadable_doc s Hr) as Hd. split; [exact (reread_sd s dir count Hr Hc H1 H2 H3)|]. split.
  - rewrite (data_number (written_doc s) count Hd), (cstrip_written_doc s (wf_shape s (rereadable_facts s Hr))). reflexivity.
  - split; [exact (canon_number (written_doc s) count Hd Hc H1 H2)|]. repeat split; reflexivity.
Qed.

Theorem extract_line_comments_text : forall cm es c, Forall ev_src es ->
  extract_line_comments cm c (splitlines (catR es)) =
  (splitlines (catR (relab cm (ids c (length (lcx es))) es)), cafter c (length (lcx es)),
   ins (combine (ids c (length (lcx es))) (lcx es)) []).
Proof. intros cm es c H. rewrite elc_elcL, (elc_events cm es c H). reflexivity. Qed.

Theorem comments_off_doc : forall s dir count, rereadable s = true -> (-1 <= count)%Z ->
  (Z.of_nat (length (lc_list (written_doc s))) <= 1000000)%Z -> (Z.of_nat (length (bc_list (written_doc s))) <= 1000000)%Z ->
  (Z.of_nat (length (lit_list (written_doc s))) <= 1000000)%Z ->
  let s_on := number count (written_doc s) in let s_off := number_off count (written_doc s) in
  parse_string true dir count (to_string_sd s) = Ok (mkParsed s_on (count_after count (written_doc s))) /\
  parse_string false dir count (to_string_sd s) = Ok (mkParsed s_off (count_after count (written_doc s))) /\
  cms (Dict (sd_data s_off)) = [] /\
  Dict (sd_data s_off) = cstrip (Dict (sd_data s_on)) /\
  Dict (sd_data s_off) = map_leaves written_value (cstrip (Dict (sd_data s))) /\
  sd_lc s_off = sd_lc s_on /\ sd_bc s_off = sd_bc s_on.
Proof.
  intros s dir count Hr Hc H1 H2 H3 s_on s_off. pose proof (rereadable_doc s Hr) as Hd.
  destruct (off_data (written_doc s) count Hd) as [O1 O2].
  split; [exact (reread_sd s dir count Hr Hc H1 H2 H3)|]. split; [exact (reread_off s dir count Hr Hc H1 H2 H3)|].
  split; [exact O1|]. split; [exact O2|]. split; [|split; reflexivity].
  unfold s_off. rewrite O2, (data_number (written_doc s) count Hd), (cstrip_written_doc s (wf_shape s (rereadable_facts s Hr))). reflexivity.
Qed.
