(* Python's eval on the integer arithmetic fragment (Eval.pyeval): fuel sufficiency, and correctness on the
   rendered text of an arithmetic expression whose references have been replaced by their integer values. *)
From Coq Require Import String NArith ZArith List Bool Lia ZifyBool.
From DictIO Require Import Chars Str Value Scalar TypeTable Eval EvalSpec ScalarProofs.
Import ListNotations.
Local Open Scope nat_scope.

(* ====================================================================================================== *)
(* 1. The parser with its inner loops pulled out                                                           *)

Definition products_f (p2 : list etok -> pres) : nat -> Z -> list etok -> pres :=
  fix products (g : nat) (acc : Z) (r : list etok) {struct g} : pres :=
    match g with
    | O => POutside
    | S g' =>
        match r with
        | TStar :: r1 => match p2 r1 with POk z2 r2 => products g' (acc * z2)%Z r2 | e => e end
        | _ => POk acc r
        end
    end.

Definition sums_f (p1 : list etok -> pres) : nat -> Z -> list etok -> pres :=
  fix sums (g : nat) (acc : Z) (r : list etok) {struct g} : pres :=
    match g with
    | O => POutside
    | S g' =>
        match r with
        | TPlus :: r1 => match p1 r1 with POk z2 r2 => sums g' (acc + z2)%Z r2 | e => e end
        | TMinus :: r1 => match p1 r1 with POk z2 r2 => sums g' (acc - z2)%Z r2 | e => e end
        | _ => POk acc r
        end
    end.

Definition fac_f (p2 p0 : list etok -> pres) (ts : list etok) : pres :=
  match ts with
  | TInt z :: r => if next_is_call r then POutside else POk z r
  | TMinus :: r => match p2 r with POk z r' => POk (- z)%Z r' | e => e end
  | TPlus :: r => p2 r
  | TLp :: TRp :: _ => POutside
  | TLp :: r =>
      match p0 r with
      | POk z (TRp :: r') => if next_is_call r' then POutside else POk z r'
      | POk _ _ => PSyntax
      | e => e
      end
  | _ => PSyntax
  end.

Definition lvl1_f (p2 : list etok -> pres) (k : nat) (ts : list etok) : pres :=
  match p2 ts with POk z r => products_f p2 (k + S (length r)) z r | e => e end.
Definition lvl0_f (p1 : list etok -> pres) (k : nat) (ts : list etok) : pres :=
  match p1 ts with POk z r => sums_f p1 (k + S (length r)) z r | e => e end.

Definition step (k : nat) (p : nat -> list etok -> pres) (lvl : nat) (ts : list etok) : pres :=
  match lvl with
  | 2 => fac_f (p 2) (p 0) ts
  | 1 => lvl1_f (p 2) k ts
  | _ => lvl0_f (p 1) k ts
  end.

Lemma pe_S f lvl ts : pe (S f) lvl ts = step 0 (pe f) lvl ts.
Proof. destruct lvl as [|[|[|l]]]; reflexivity. Qed.

(* the unfolding equations in the form of the task statement *)
Lemma pe_S1 f ts : pe (S f) 1 ts =
  match pe f 2 ts with POk z r => products_f (pe f 2) (S (length r)) z r | e => e end.
Proof. reflexivity. Qed.
Lemma pe_S0 f ts : pe (S f) 0 ts =
  match pe f 1 ts with POk z r => sums_f (pe f 1) (S (length r)) z r | e => e end.
Proof. reflexivity. Qed.
Lemma pe_S2 f ts : pe (S f) 2 ts = fac_f (pe f 2) (pe f 0) ts.
Proof. reflexivity. Qed.

(* ---- the copy with extra inner fuel ---------------------------------------------------------------- *)
Fixpoint peG (k : nat) (fuel : nat) (lvl : nat) (ts : list etok) {struct fuel} : pres :=
  match fuel with
  | O => POutside
  | S f =>
      match lvl with
      | 2%nat =>
          match ts with
          | TInt z :: r => if next_is_call r then POutside else POk z r
          | TMinus :: r => match peG k f 2 r with POk z r' => POk (- z)%Z r' | e => e end
          | TPlus :: r => peG k f 2 r
          | TLp :: TRp :: _ => POutside
          | TLp :: r =>
              match peG k f 0 r with
              | POk z (TRp :: r') => if next_is_call r' then POutside else POk z r'
              | POk _ _ => PSyntax
              | e => e
              end
          | _ => PSyntax
          end
      | 1%nat =>
          match peG k f 2 ts with
          | POk z r =>
              (fix products (g : nat) (acc : Z) (r : list etok) {struct g} : pres :=
                 match g with
                 | O => POutside
                 | S g' =>
                     match r with
                     | TStar :: r1 => match peG k f 2 r1 with POk z2 r2 => products g' (acc * z2)%Z r2 | e => e end
                     | _ => POk acc r
                     end
                 end) (k + S (length r)) z r
          | e => e
          end
      | _ =>
          match peG k f 1 ts with
          | POk z r =>
              (fix sums (g : nat) (acc : Z) (r : list etok) {struct g} : pres :=
                 match g with
                 | O => POutside
                 | S g' =>
                     match r with
                     | TPlus :: r1 => match peG k f 1 r1 with POk z2 r2 => sums g' (acc + z2)%Z r2 | e => e end
                     | TMinus :: r1 => match peG k f 1 r1 with POk z2 r2 => sums g' (acc - z2)%Z r2 | e => e end
                     | _ => POk acc r
                     end
                 end) (k + S (length r)) z r
          | e => e
          end
      end
  end.

Definition pyevalG (d1 d2 k : nat) (s : str) : evres :=
  match elex (d1 + S (length s)) s with
  | None => EvOutside
  | Some ts =>
      match peG k (d2 + (3 * length ts + 3)) 0 ts with
      | POk z [] => EvInt z
      | POk _ (_ :: _) => EvSyntax
      | PSyntax => EvSyntax
      | POutside => EvOutside
      end
  end.

Lemma peG_S k f lvl ts : peG k (S f) lvl ts = step k (peG k f) lvl ts.
Proof. destruct lvl as [|[|[|l]]]; reflexivity. Qed.

(* ---- the inner loops ----------------------------------------------------------------------------------- *)
Lemma products_O p acc r : products_f p 0 acc r = POutside.
Proof. reflexivity. Qed.
Lemma products_S p g acc r : products_f p (S g) acc r =
  match r with
  | TStar :: r1 => match p r1 with POk z2 r2 => products_f p g (acc * z2)%Z r2 | e => e end
  | _ => POk acc r
  end.
Proof. reflexivity. Qed.
Lemma sums_O p acc r : sums_f p 0 acc r = POutside.
Proof. reflexivity. Qed.
Lemma sums_S p g acc r : sums_f p (S g) acc r =
  match r with
  | TPlus :: r1 => match p r1 with POk z2 r2 => sums_f p g (acc + z2)%Z r2 | e => e end
  | TMinus :: r1 => match p r1 with POk z2 r2 => sums_f p g (acc - z2)%Z r2 | e => e end
  | _ => POk acc r
  end.
Proof. reflexivity. Qed.

Definition shrinks (p : list etok -> pres) : Prop :=
  forall r1 z r2, p r1 = POk z r2 -> length r2 < length r1.

Lemma products_ext_all p q : (forall r, p r = q r) ->
  forall g acc r, products_f p g acc r = products_f q g acc r.
Proof.
  intros Hpq g. induction g as [|g IH]; intros acc r; [reflexivity|].
  rewrite !products_S. destruct r as [|t r1]; [reflexivity|].
  destruct t; try reflexivity. rewrite <- Hpq. destruct (p r1) as [z2 r2| |]; try reflexivity. apply IH.
Qed.

Lemma sums_ext_all p q : (forall r, p r = q r) ->
  forall g acc r, sums_f p g acc r = sums_f q g acc r.
Proof.
  intros Hpq g. induction g as [|g IH]; intros acc r; [reflexivity|].
  rewrite !sums_S. destruct r as [|t r1]; [reflexivity|].
  destruct t; try reflexivity; rewrite <- Hpq; destruct (p r1) as [z2 r2| |]; try reflexivity; apply IH.
Qed.

Section Loops.
  Variable p : list etok -> pres.
  Hypothesis Hp : shrinks p.

  Lemma products_le : forall g acc r z r', products_f p g acc r = POk z r' -> length r' <= length r.
  Proof.
    induction g as [|g IH]; intros acc r z r' H.
    - rewrite products_O in H. discriminate.
    - rewrite products_S in H. destruct r as [|t r1].
      + injection H as _ Hr. subst r'. apply le_n.
      + destruct t; try (injection H as _ Hr; subst r'; apply le_n).
        destruct (p r1) as [z2 r2| |] eqn:E; try discriminate.
        apply IH in H. apply Hp in E. cbn [length]. lia.
  Qed.

  Lemma products_irrel : forall g g' acc r, length r < g -> length r < g' ->
    products_f p g acc r = products_f p g' acc r.
  Proof.
    induction g as [|g IH]; intros g' acc r H H'; [lia|].
    destruct g' as [|g']; [lia|]. rewrite !products_S.
    destruct r as [|t r1]; [reflexivity|]. destruct t; try reflexivity.
    destruct (p r1) as [z2 r2| |] eqn:E; try reflexivity.
    apply Hp in E. cbn [length] in H, H'. apply IH; lia.
  Qed.

  Lemma products_ext q n : (forall r1, length r1 <= n -> p r1 = q r1) ->
    forall g acc r, length r <= n -> products_f p g acc r = products_f q g acc r.
  Proof.
    intros Hq g. induction g as [|g IH]; intros acc r Hr; [reflexivity|].
    rewrite !products_S. destruct r as [|t r1]; [reflexivity|]. destruct t; try reflexivity.
    cbn [length] in Hr. rewrite <- Hq by lia.
    destruct (p r1) as [z2 r2| |] eqn:E; try reflexivity.
    apply Hp in E. apply IH. lia.
  Qed.

  Lemma sums_le : forall g acc r z r', sums_f p g acc r = POk z r' -> length r' <= length r.
  Proof.
    induction g as [|g IH]; intros acc r z r' H.
    - rewrite sums_O in H. discriminate.
    - rewrite sums_S in H. destruct r as [|t r1].
      + injection H as _ Hr. subst r'. apply le_n.
      + destruct t; try (injection H as _ Hr; subst r'; apply le_n).
        * destruct (p r1) as [z2 r2| |] eqn:E; try discriminate.
          apply IH in H. apply Hp in E. cbn [length]. lia.
        * destruct (p r1) as [z2 r2| |] eqn:E; try discriminate.
          apply IH in H. apply Hp in E. cbn [length]. lia.
  Qed.

  Lemma sums_irrel : forall g g' acc r, length r < g -> length r < g' ->
    sums_f p g acc r = sums_f p g' acc r.
  Proof.
    induction g as [|g IH]; intros g' acc r H H'; [lia|].
    destruct g' as [|g']; [lia|]. rewrite !sums_S.
    destruct r as [|t r1]; [reflexivity|].
    destruct t; try reflexivity;
      (destruct (p r1) as [z2 r2| |] eqn:E; try reflexivity;
       apply Hp in E; cbn [length] in H, H'; apply IH; lia).
  Qed.

  Lemma sums_ext q n : (forall r1, length r1 <= n -> p r1 = q r1) ->
    forall g acc r, length r <= n -> sums_f p g acc r = sums_f q g acc r.
  Proof.
    intros Hq g. induction g as [|g IH]; intros acc r Hr; [reflexivity|].
    rewrite !sums_S. destruct r as [|t r1]; [reflexivity|].
    destruct t; try reflexivity;
      (cbn [length] in Hr; rewrite <- Hq by lia;
       destruct (p r1) as [z2 r2| |] eqn:E; try reflexivity;
       apply Hp in E; apply IH; lia).
  Qed.
End Loops.

(* ---- factors ------------------------------------------------------------------------------------------- *)
Lemma fac_shrink p2 p0 : shrinks p2 -> shrinks p0 -> shrinks (fac_f p2 p0).
Proof.
  intros H2 H0 ts z r H. unfold fac_f in H.
  destruct ts as [|t r0]; [discriminate|].
  destruct t; try discriminate.
  - destruct (next_is_call r0); [discriminate|]. injection H as _ Hr. subst r. cbn [length]. lia.
  - apply H2 in H. cbn [length]. lia.
  - destruct (p2 r0) as [z1 r1| |] eqn:E; try discriminate.
    injection H as _ Hr. subst r. apply H2 in E. cbn [length]. lia.
  - assert (G : forall r0', p0 r0' = POk z (TRp :: r) -> length r < length (TLp :: r0')).
    { intros r0' E. apply H0 in E. cbn [length] in *. lia. }
    destruct r0 as [|t1 r1].
    + destruct (p0 []) as [z1 r2| |] eqn:E; try discriminate.
      destruct r2 as [|t2 r3]; [discriminate|]. destruct t2; try discriminate.
      destruct (next_is_call r3); [discriminate|]. injection H as Hz Hr. subst. apply G. exact E.
    + destruct t1; try discriminate;
        (destruct (p0 (_ :: r1)) as [z1 r2| |] eqn:E; try discriminate;
         destruct r2 as [|t2 r3]; [discriminate|]; destruct t2; try discriminate;
         destruct (next_is_call r3); [discriminate|]; injection H as Hz Hr; subst; apply G; exact E).
Qed.

Lemma fac_ext p2 p0 q2 q0 ts :
  (forall r, length r < length ts -> p2 r = q2 r) ->
  (forall r, length r < length ts -> p0 r = q0 r) ->
  fac_f p2 p0 ts = fac_f q2 q0 ts.
Proof.
  intros H2 H0. unfold fac_f.
  destruct ts as [|t r0]; [reflexivity|].
  destruct t; try reflexivity.
  - apply H2. cbn [length]. lia.
  - rewrite H2 by (cbn [length]; lia). reflexivity.
  - destruct r0 as [|t1 r1].
    + rewrite H0 by (cbn [length]; lia). reflexivity.
    + destruct t1; try reflexivity; rewrite H0 by (cbn [length]; lia); reflexivity.
Qed.

(* ---- every successful parse consumes at least one token ------------------------------------------------ *)
Lemma peG_shrink : forall f k lvl, shrinks (peG k f lvl).
Proof.
  induction f as [|f IH]; intros k lvl ts z r H; [discriminate|].
  rewrite peG_S in H.
  assert (L1 : forall ts z r, lvl1_f (peG k f 2) k ts = POk z r -> length r < length ts).
  { clear ts z r H. intros ts z r H. unfold lvl1_f in H.
    destruct (peG k f 2 ts) as [z1 r1| |] eqn:E; try discriminate.
    pose proof (IH k 2 _ _ _ E) as E'. apply products_le in H; [lia|apply IH]. }
  assert (L0 : forall ts z r, lvl0_f (peG k f 1) k ts = POk z r -> length r < length ts).
  { clear ts z r H. intros ts z r H. unfold lvl0_f in H.
    destruct (peG k f 1 ts) as [z1 r1| |] eqn:E; try discriminate.
    pose proof (IH k 1 _ _ _ E) as E'. apply sums_le in H; [lia|apply IH]. }
  destruct lvl as [|[|[|l]]]; cbn [step] in H.
  - exact (L0 _ _ _ H).
  - exact (L1 _ _ _ H).
  - revert H. apply fac_shrink; apply IH.
  - exact (L0 _ _ _ H).
Qed.

Lemma step_ext_all k p q lvl ts : (forall l r, p l r = q l r) -> step k p lvl ts = step k q lvl ts.
Proof.
  intros H.
  assert (L0 : lvl0_f (p 1) k ts = lvl0_f (q 1) k ts).
  { unfold lvl0_f. rewrite <- H. destruct (p 1 ts) as [z r| |]; try reflexivity. apply sums_ext_all. apply H. }
  destruct lvl as [|[|[|l]]]; cbn [step].
  - exact L0.
  - unfold lvl1_f. rewrite <- H. destruct (p 2 ts) as [z r| |]; try reflexivity. apply products_ext_all. apply H.
  - apply fac_ext; intros r _; apply H.
  - exact L0.
Qed.

Lemma peG_0 : forall f lvl ts, peG 0 f lvl ts = pe f lvl ts.
Proof.
  induction f as [|f IH]; intros lvl ts; [reflexivity|].
  rewrite peG_S, pe_S. apply step_ext_all. exact IH.
Qed.

Lemma pe_shrink f lvl : shrinks (pe f lvl).
Proof. intros ts z r H. rewrite <- peG_0 in H. revert H. apply peG_shrink. Qed.

(* ---- fuel irrelevance ---------------------------------------------------------------------------------- *)
Definition need (lvl n : nat) : nat := 3 * n + 3 - lvl.

Lemma peG_irrel : forall f f' k k' lvl ts, lvl <= 2 ->
  need lvl (length ts) <= f -> need lvl (length ts) <= f' -> peG k f lvl ts = peG k' f' lvl ts.
Proof.
  induction f as [|f IH]; intros f' k k' lvl ts Hl Hf Hf'; [unfold need in Hf; lia|].
  destruct f' as [|f']; [unfold need in Hf'; lia|].
  rewrite !peG_S.
  destruct lvl as [|[|[|l]]]; [| | |lia]; cbn [step].
  - unfold lvl0_f. rewrite (IH f' k k' 1 ts) by (unfold need in *; lia).
    destruct (peG k' f' 1 ts) as [z r| |] eqn:E; try reflexivity.
    apply peG_shrink in E.
    transitivity (sums_f (peG k f 1) (k' + S (length r)) z r).
    + apply sums_irrel; [apply peG_shrink|lia|lia].
    + apply sums_ext with (n := length r); [apply peG_shrink| |apply le_n].
      intros r1 Hr1. apply IH; unfold need in *; lia.
  - unfold lvl1_f. rewrite (IH f' k k' 2 ts) by (unfold need in *; lia).
    destruct (peG k' f' 2 ts) as [z r| |] eqn:E; try reflexivity.
    apply peG_shrink in E.
    transitivity (products_f (peG k f 2) (k' + S (length r)) z r).
    + apply products_irrel; [apply peG_shrink|lia|lia].
    + apply products_ext with (n := length r); [apply peG_shrink| |apply le_n].
      intros r1 Hr1. apply IH; unfold need in *; lia.
  - apply fac_ext; intros r Hr; apply IH; unfold need in *; lia.
Qed.

Lemma pe_irrel f f' lvl ts : lvl <= 2 ->
  3 * length ts + (3 - lvl) <= f -> 3 * length ts + (3 - lvl) <= f' -> pe f lvl ts = pe f' lvl ts.
Proof.
  intros Hl Hf Hf'. rewrite <- !peG_0. apply peG_irrel; [exact Hl|unfold need; lia|unfold need; lia].
Qed.

(* ====================================================================================================== *)
(* 2. The lexer                                                                                            *)

Definition lex_int (ds : str) (o : option (list etok)) : option (list etok) :=
  match o with Some l => Some (TInt (Z.of_N (dec_to_N ds)) :: l) | None => None end.

Lemma elex_nil f : elex (S f) [] = Some [].
Proof. reflexivity. Qed.

Lemma elex_cons f (c : N) (s' : list N) : elex (S f) (c :: s') =
  if ((c =? c_sp) || (c =? c_tab))%N then elex f s'
  else if is_digit c then
    let (ds, rest) := span is_digit (c :: s') in
    match ds with
    | d :: _ :: _ => if (d =? 48)%N then None else lex_int ds (elex f rest)
    | _ => lex_int ds (elex f rest)
    end
  else if (c =? c_plus)%N then option_map (cons TPlus) (elex f s')
  else if (c =? c_minus)%N then option_map (cons TMinus) (elex f s')
  else if (c =? c_star)%N then
    match s' with
    | d :: _ => if (d =? c_star)%N then None else option_map (cons TStar) (elex f s')
    | [] => option_map (cons TStar) (elex f s')
    end
  else if (c =? c_lpar)%N then option_map (cons TLp) (elex f s')
  else if (c =? c_rpar)%N then option_map (cons TRp) (elex f s')
  else None.
Proof. reflexivity. Qed.

Lemma span_len (p : N -> bool) (s a b : list N) : span p s = (a, b) -> length s = length a + length b.
Proof. intros H. apply span_spec in H. destruct H as (E & _ & _). subst s. apply app_length. Qed.

Lemma span_digit_cons (c : N) (s' : list N) : is_digit c = true ->
  span is_digit (c :: s') = (c :: fst (span is_digit s'), snd (span is_digit s')).
Proof. intros Hc. cbn [span]. rewrite Hc. destruct (span is_digit s') as [a b]. reflexivity. Qed.

Lemma elex_fuel : forall f1 f2 s, length s < f1 -> length s < f2 -> elex f1 s = elex f2 s.
Proof.
  induction f1 as [|f1 IH]; intros f2 s H1 H2; [lia|].
  destruct f2 as [|f2]; [lia|].
  destruct s as [|c s']; [reflexivity|].
  cbn [length] in H1, H2. rewrite !elex_cons.
  assert (E : elex f1 s' = elex f2 s') by (apply IH; lia). rewrite E.
  destruct (is_digit c) eqn:Hd; [|reflexivity].
  rewrite (span_digit_cons c s' Hd).
  destruct (span is_digit s') as [a b] eqn:Hs. cbn [fst snd].
  apply span_len in Hs.
  assert (E' : elex f1 b = elex f2 b) by (apply IH; lia). rewrite E'. reflexivity.
Qed.

Theorem pyeval_total : forall d1 d2 k s, pyevalG d1 d2 k s = pyeval s.
Proof.
  intros d1 d2 k s. unfold pyevalG, pyeval.
  rewrite (elex_fuel (d1 + S (length s)) (S (length s)) s) by lia.
  destruct (elex (S (length s)) s) as [ts|]; [|reflexivity].
  rewrite <- peG_0.
  rewrite (peG_irrel (d2 + (3 * length ts + 3)) (3 * length ts + 3) k 0 0 ts) by (unfold need; lia).
  reflexivity.
Qed.

(* ---- lexing with the canonical fuel -------------------------------------------------------------------- *)
Definition lexs (s : list N) : option (list etok) := elex (S (length s)) s.

Lemma lexs_nil : lexs [] = Some [].
Proof. reflexivity. Qed.

Lemma lexs_blank (c : N) (s : list N) : is_blank c = true -> lexs (c :: s) = lexs s.
Proof.
  intros H. unfold lexs. cbn [length]. rewrite elex_cons. unfold is_blank in H. rewrite H. reflexivity.
Qed.

Lemma lexs_blanks (b s : list N) : forallb is_blank b = true -> lexs (b ++ s) = lexs s.
Proof.
  induction b as [|c b IH]; intros H; cbn [app]; [reflexivity|].
  cbn [forallb] in H. apply andb_true_iff in H. destruct H as [Hc Hb].
  rewrite lexs_blank by exact Hc. apply IH. exact Hb.
Qed.

Lemma lexs_plus (s : list N) : lexs (c_plus :: s) = option_map (cons TPlus) (lexs s).
Proof. reflexivity. Qed.
Lemma lexs_minus (s : list N) : lexs (c_minus :: s) = option_map (cons TMinus) (lexs s).
Proof. reflexivity. Qed.
Lemma lexs_lpar (s : list N) : lexs (c_lpar :: s) = option_map (cons TLp) (lexs s).
Proof. reflexivity. Qed.
Lemma lexs_rpar (s : list N) : lexs (c_rpar :: s) = option_map (cons TRp) (lexs s).
Proof. reflexivity. Qed.

Definition is_star (c : N) : bool := (c =? c_star)%N.

Lemma lexs_star (s : list N) : hd_not is_star s -> lexs (c_star :: s) = option_map (cons TStar) (lexs s).
Proof.
  intros H. destruct s as [|d s]; [reflexivity|].
  cbn [hd_not] in H. unfold is_star in H.
  change (lexs (c_star :: d :: s))
    with (if (d =? c_star)%N then None else option_map (cons TStar) (lexs (d :: s))).
  rewrite H. reflexivity.
Qed.

Lemma lexs_num (ds s : list N) : digits1 ds -> (forall d x y, ds = d :: x :: y -> d <> 48%N) ->
  hd_not is_digit s -> lexs (ds ++ s) = lex_int ds (lexs s).
Proof.
  intros [Fd Hne] Hz Hs. destruct ds as [|d ds']; [congruence|].
  assert (Hd : is_digit d = true) by (inversion Fd; assumption).
  assert (Hb : ((d =? c_sp) || (d =? c_tab))%N = false) by (clear - Hd; chars).
  unfold lexs. cbn [app length]. rewrite elex_cons. rewrite Hb, Hd.
  change (d :: ds' ++ s) with ((d :: ds') ++ s).
  rewrite (span_app is_digit (d :: ds') s Fd Hs).
  rewrite (elex_fuel (S (length (ds' ++ s))) (S (length s)) s) by (rewrite ?app_length; lia).
  destruct ds' as [|x y]; [reflexivity|].
  destruct (d =? 48)%N eqn:E; [|reflexivity].
  apply N.eqb_eq in E. exfalso. exact (Hz d x y eq_refl E).
Qed.

(* ---- decimal numerals ---------------------------------------------------------------------------------- *)
Lemma pdf_hd f : forall n acc, (n < 2 ^ N.of_nat (S f))%N ->
  exists d rest, pos_digits_fuel (S f) n acc = d :: rest /\ (d = 48%N -> n = 0%N /\ rest = acc).
Proof.
  induction f as [|f IH]; intros n acc Hn; rewrite pos_digits_fuel_S.
  - change (2 ^ N.of_nat 1)%N with 2%N in Hn.
    assert (Hq : (n / 10 = 0)%N) by (apply N.div_small; lia).
    rewrite Hq. cbn [N.eqb]. exists (48 + n mod 10)%N, acc. split; [reflexivity|].
    intros Hd. split; [|reflexivity]. rewrite N.mod_small in Hd by lia. lia.
  - destruct (n / 10 =? 0)%N eqn:Hq.
    + apply N.eqb_eq in Hq. exists (48 + n mod 10)%N, acc. split; [reflexivity|].
      intros Hd. split; [|reflexivity]. pose proof (N.div_mod n 10) as Hdm. lia.
    + apply N.eqb_neq in Hq. rewrite (Nat2N.inj_succ (S f)), N.pow_succ_r' in Hn.
      pose proof (N.div_mod n 10) as Hdm. pose proof (N.mod_lt n 10) as Hml.
      assert (Hq' : (n / 10 < 2 ^ N.of_nat (S f))%N) by lia.
      destruct (IH (n / 10)%N ((48 + n mod 10)%N :: acc) Hq') as (d & rest & E & Hd).
      exists d, rest. split; [exact E|]. intros H48. destruct (Hd H48) as [H0 _]. contradiction.
Qed.

Lemma N_to_dec_nlz n : forall d x y, N_to_dec n = d :: x :: y -> d <> 48%N.
Proof.
  unfold N_to_dec.
  assert (Hn : (n < 2 ^ N.of_nat (S (N.to_nat (N.log2 n))))%N).
  { rewrite Nat2N.inj_succ, N2Nat.id. destruct n as [|p]; [reflexivity|].
    apply N.log2_spec. reflexivity. }
  destruct (pdf_hd _ n [] Hn) as (d0 & rest & E & Hd).
  intros d x y H. rewrite E in H. injection H as Hd0 Hr. subst d0 rest.
  intros H48. destruct (Hd H48) as [_ Hr]. discriminate.
Qed.

Lemma Z_to_dec_nonneg z : (0 <= z)%Z -> Z_to_dec z = N_to_dec (Z.to_N z).
Proof. intros H. destruct z as [|p|p]; [reflexivity|reflexivity|lia]. Qed.

Lemma Z_to_dec_neg z : (z < 0)%Z -> Z_to_dec z = c_minus :: N_to_dec (Z.to_N (- z)).
Proof. intros H. destruct z as [|p|p]; [lia|lia|reflexivity]. Qed.

Lemma lexs_N (n : N) (s : list N) : hd_not is_digit s ->
  lexs (N_to_dec n ++ s) = option_map (cons (TInt (Z.of_N n))) (lexs s).
Proof.
  intros Hs. destruct (N_to_dec_spec n) as [Hd Hv].
  rewrite lexs_num; [|exact Hd|apply N_to_dec_nlz|exact Hs].
  unfold lex_int. rewrite Hv. destruct (lexs s); reflexivity.
Qed.

(* ====================================================================================================== *)
(* 3. From display tokens to parser tokens                                                                 *)

Definition etoks_of (rho : str -> option Z) (t : dtok) : list etok :=
  match t with
  | DNum n => [TInt (Z.of_N n)]
  | DVar x => match rho x with
              | Some z => if (z <? 0)%Z then [TMinus; TInt (- z)%Z] else [TInt z]
              | None => []
              end
  | DPlus => [TPlus]
  | DMinus => [TMinus]
  | DStar => [TStar]
  | DLp => [TLp]
  | DRp => [TRp]
  end.
Definition etoks (rho : str -> option Z) (ts : list dtok) : list etok := flat_map (etoks_of rho) ts.

Lemma etoks_cons rho t ts : etoks rho (t :: ts) = etoks_of rho t ++ etoks rho ts.
Proof. reflexivity. Qed.
Lemma etoks_app rho a b : etoks rho (a ++ b) = etoks rho a ++ etoks rho b.
Proof. unfold etoks. apply flat_map_app. Qed.

(* ---- adjacency: no two operands and no two stars next to each other -------------------------------------- *)
Definition is_opnd (t : dtok) : bool := match t with DNum _ | DVar _ => true | _ => false end.
Definition is_dstar (t : dtok) : bool := match t with DStar => true | _ => false end.
Definition adj1 (t : dtok) (l : list dtok) : bool :=
  match l with
  | [] => true
  | t' :: _ => negb (is_opnd t && is_opnd t') && negb (is_dstar t && is_dstar t')
  end.
Fixpoint adj_ok (l : list dtok) : bool :=
  match l with
  | [] => true
  | t :: l' => adj1 t l' && adj_ok l'
  end.
Definition tail_ok (l : list dtok) : Prop := match l with [] => True | t :: _ => is_opnd t = false end.
Definition nostar_hd (l : list dtok) : Prop := match l with [] => True | t :: _ => is_dstar t = false end.

Lemma adj1_nonop t l : is_opnd t = false -> is_dstar t = false -> adj1 t l = true.
Proof. intros H1 H2. destruct l as [|t' l]; [reflexivity|]. cbn [adj1]. rewrite H1, H2. reflexivity. Qed.

Lemma adj1_opnd t l : tail_ok l -> is_dstar t = false -> adj1 t l = true.
Proof.
  intros H1 H2. destruct l as [|t' l]; [reflexivity|]. cbn [adj1 tail_ok] in *. rewrite H1, H2.
  rewrite andb_false_r. reflexivity.
Qed.

Lemma adj1_star l : nostar_hd l -> adj1 DStar l = true.
Proof. intros H. destruct l as [|t' l]; [reflexivity|]. cbn [adj1 nostar_hd is_opnd] in *. rewrite H. reflexivity. Qed.

Definition adjP (a : aexp) : Prop := forall tail, adj_ok tail = true -> tail_ok tail ->
  adj_ok (dtoks a ++ tail) = true /\ nostar_hd (dtoks a ++ tail).

Lemma adj_wrap l a : adjP a -> forall tail, adj_ok tail = true -> tail_ok tail ->
  adj_ok (dwrap l a (dtoks a) ++ tail) = true /\ nostar_hd (dwrap l a (dtoks a) ++ tail).
Proof.
  intros Ha tail H1 H2. unfold dwrap. destruct (alevel a <? l); [|apply Ha; assumption].
  cbn [app]. rewrite <- app_assoc. cbn [app]. split; [|reflexivity].
  cbn [adj_ok]. rewrite adj1_nonop by reflexivity. cbn [andb].
  apply Ha; [|reflexivity]. cbn [adj_ok]. rewrite adj1_nonop by reflexivity. exact H1.
Qed.

Lemma adj_dtoks a : adjP a.
Proof.
  induction a as [n|x|a IHa|a IHa|a IHa b IHb|a IHa b IHb|a IHa b IHb|a IHa]; intros tail H1 H2; cbn [dtoks].
  - cbn [app adj_ok]. split; [|reflexivity]. rewrite H1, andb_true_r. apply adj1_opnd; [exact H2|reflexivity].
  - cbn [app adj_ok]. split; [|reflexivity]. rewrite H1, andb_true_r. apply adj1_opnd; [exact H2|reflexivity].
  - cbn [app]. split; [|reflexivity]. cbn [adj_ok]. rewrite adj1_nonop by reflexivity.
    apply (adj_wrap 2 a IHa tail H1 H2).
  - cbn [app]. split; [|reflexivity]. cbn [adj_ok]. rewrite adj1_nonop by reflexivity.
    apply (adj_wrap 2 a IHa tail H1 H2).
  - rewrite <- app_assoc. cbn [app]. apply IHa; [|reflexivity].
    cbn [adj_ok]. rewrite adj1_nonop by reflexivity. apply (adj_wrap 1 b IHb tail H1 H2).
  - rewrite <- app_assoc. cbn [app]. apply IHa; [|reflexivity].
    cbn [adj_ok]. rewrite adj1_nonop by reflexivity. apply (adj_wrap 1 b IHb tail H1 H2).
  - rewrite <- app_assoc. cbn [app]. apply (adj_wrap 1 a IHa); [|reflexivity].
    destruct (adj_wrap 2 b IHb tail H1 H2) as [A B].
    cbn [adj_ok]. rewrite A, andb_true_r. apply adj1_star. exact B.
  - cbn [app]. rewrite <- app_assoc. cbn [app]. split; [|reflexivity].
    cbn [adj_ok]. rewrite adj1_nonop by reflexivity. cbn [andb].
    apply IHa; [|reflexivity]. cbn [adj_ok]. rewrite adj1_nonop by reflexivity. exact H1.
Qed.

Lemma adj_ok_dtoks a : adj_ok (dtoks a) = true.
Proof. destruct (adj_dtoks a [] eq_refl I) as [H _]. rewrite app_nil_r in H. exact H. Qed.

(* ---- the variables of the token list are those of the expression --------------------------------------- *)
Definition bound (rho : str -> option Z) (ts : list dtok) : Prop :=
  forall x, In (DVar x) ts -> exists z, rho x = Some z.

Lemma dwrap_var l a ts x : In (DVar x) (dwrap l a ts) -> In (DVar x) ts.
Proof.
  unfold dwrap. destruct (alevel a <? l); [|exact (fun H => H)].
  intros [H|H]; [discriminate|]. apply in_app_or in H. destruct H as [H|[H|[]]]; [exact H|discriminate].
Qed.

Lemma dtoks_vars a x : In (DVar x) (dtoks a) -> In x (avars a).
Proof.
  induction a as [n|y|a IHa|a IHa|a IHa b IHb|a IHa b IHb|a IHa b IHb|a IHa]; cbn [dtoks avars]; intros H.
  - destruct H as [H|[]]. discriminate.
  - destruct H as [H|[]]. injection H as ->. left. reflexivity.
  - destruct H as [H|H]; [discriminate|]. apply IHa. eapply dwrap_var. exact H.
  - destruct H as [H|H]; [discriminate|]. apply IHa. eapply dwrap_var. exact H.
  - apply in_or_app. apply in_app_or in H. destruct H as [H|[H|H]]; [left; apply IHa; exact H|discriminate|].
    right. apply IHb. eapply dwrap_var. exact H.
  - apply in_or_app. apply in_app_or in H. destruct H as [H|[H|H]]; [left; apply IHa; exact H|discriminate|].
    right. apply IHb. eapply dwrap_var. exact H.
  - apply in_or_app. apply in_app_or in H. destruct H as [H|[H|H]].
    + left. apply IHa. eapply dwrap_var. exact H.
    + discriminate.
    + right. apply IHb. eapply dwrap_var. exact H.
  - destruct H as [H|H]; [discriminate|]. apply in_app_or in H. destruct H as [H|[H|[]]]; [apply IHa; exact H|discriminate].
Qed.

(* ---- the first character of a token's text --------------------------------------------------------------- *)
Lemma N_to_dec_hd n : exists c r, N_to_dec n = c :: r /\ is_digit c = true.
Proof.
  destruct (N_to_dec_spec n) as [[Fd Hne] _]. destruct (N_to_dec n) as [|c r]; [congruence|].
  exists c, r. split; [reflexivity|]. inversion Fd. assumption.
Qed.

Lemma dtext_hd rho t : exists c r, dtext rho t = c :: r /\
  (is_opnd t = false -> is_digit c = false) /\ (is_dstar t = false -> is_star c = false).
Proof.
  assert (Hdig : forall c : N, is_digit c = true -> is_star c = false).
  { intros c H. unfold is_star. chars. }
  destruct t as [n|x| | | | | ]; cbn [dtext is_opnd is_dstar].
  - destruct (N_to_dec_hd n) as (c & r & E & Hc). exists c, r. split; [exact E|]. split; [discriminate|].
    intros _. apply Hdig. exact Hc.
  - destruct (rho x) as [z|].
    + destruct (Z_lt_le_dec z 0) as [Hz|Hz].
      * rewrite (Z_to_dec_neg z Hz). exists c_minus, (N_to_dec (Z.to_N (- z))). split; [reflexivity|].
        split; [discriminate|]. intros _. reflexivity.
      * rewrite (Z_to_dec_nonneg z Hz). destruct (N_to_dec_hd (Z.to_N z)) as (c & r & E & Hc).
        exists c, r. split; [exact E|]. split; [discriminate|]. intros _. apply Hdig. exact Hc.
    + exists c_dollar, x. split; [reflexivity|]. split; [discriminate|]. intros _. reflexivity.
  - exists c_plus, []. split; [reflexivity|]. split; intros _; reflexivity.
  - exists c_minus, []. split; [reflexivity|]. split; intros _; reflexivity.
  - exists c_star, []. split; [reflexivity|]. split; [intros _; reflexivity|discriminate].
  - exists c_lpar, []. split; [reflexivity|]. split; intros _; reflexivity.
  - exists c_rpar, []. split; [reflexivity|]. split; intros _; reflexivity.
Qed.

Section Lexing.
  Variable g : nat -> str.
  Variable rho : str -> option Z.
  Hypothesis Hg : blank_fn g.

  Lemma layout_hd (p : N -> bool) i ts :
    (forall c, is_blank c = true -> p c = false) ->
    match ts with [] => True | t :: _ => forall c r, dtext rho t = c :: r -> p c = false end ->
    hd_not p (layout g rho i ts).
  Proof.
    intros Hb Ht. pose proof (Hg i) as Hgi.
    assert (Hblank : forall s : list N, hd_not p s -> hd_not p (g i ++ s)).
    { intros s Hs. destruct (g i) as [|c b]; [exact Hs|].
      cbn [forallb] in Hgi. apply andb_true_iff in Hgi. destruct Hgi as [Hc _].
      cbn [app hd_not]. apply Hb. exact Hc. }
    destruct ts as [|t ts']; cbn [layout].
    - rewrite <- (app_nil_r (g i)). apply Hblank. exact I.
    - apply Hblank. destruct (dtext_hd rho t) as (c & r & E & _). rewrite E. cbn [app hd_not].
      apply (Ht c r E).
  Qed.

  Lemma layout_hd_digit t i ts : is_opnd t = true -> adj1 t ts = true -> hd_not is_digit (layout g rho i ts).
  Proof.
    intros Ho Ha. apply layout_hd.
    - intros c Hc. unfold is_blank in Hc. chars.
    - destruct ts as [|t' ts']; [exact I|]. intros c r E.
      cbn [adj1] in Ha. rewrite Ho in Ha. destruct (is_opnd t') eqn:Ho'; [discriminate|].
      destruct (dtext_hd rho t') as (c' & r' & E' & H1 & _). rewrite E in E'. injection E' as -> _.
      apply H1. exact Ho'.
  Qed.

  Lemma layout_hd_star i ts : adj1 DStar ts = true -> hd_not is_star (layout g rho i ts).
  Proof.
    intros Ha. apply layout_hd.
    - intros c Hc. unfold is_blank in Hc. unfold is_star. chars.
    - destruct ts as [|t' ts']; [exact I|]. intros c r E.
      cbn [adj1 is_opnd is_dstar andb negb] in Ha. destruct (is_dstar t') eqn:Hs'; [discriminate|].
      destruct (dtext_hd rho t') as (c' & r' & E' & _ & H2). rewrite E in E'. injection E' as -> _.
      apply H2. exact Hs'.
  Qed.

  Lemma lexs_layout : forall ts i, adj_ok ts = true -> bound rho ts ->
    lexs (layout g rho i ts) = Some (etoks rho ts).
  Proof.
    induction ts as [|t ts' IH]; intros i Ha Hb; cbn [layout].
    - rewrite <- (app_nil_r (g i)). rewrite lexs_blanks by apply Hg. reflexivity.
    - rewrite lexs_blanks by apply Hg.
      cbn [adj_ok] in Ha. apply andb_true_iff in Ha. destruct Ha as [Ha1 Ha2].
      assert (Hb' : bound rho ts') by (intros x Hx; apply Hb; right; exact Hx).
      specialize (IH (S i) Ha2 Hb'). rewrite etoks_cons.
      destruct t as [n|x| | | | | ]; cbn [dtext etoks_of app].
      + rewrite lexs_N by (apply (layout_hd_digit (DNum n)); [reflexivity|exact Ha1]).
        rewrite IH. reflexivity.
      + destruct (Hb x (or_introl eq_refl)) as [z Hz]. rewrite Hz.
        assert (Hh : hd_not is_digit (layout g rho (S i) ts'))
          by (apply (layout_hd_digit (DVar x)); [reflexivity|exact Ha1]).
        destruct (z <? 0)%Z eqn:Hneg.
        * apply Z.ltb_lt in Hneg. rewrite (Z_to_dec_neg z Hneg). cbn [app].
          rewrite lexs_minus, lexs_N by exact Hh. rewrite IH. cbn [option_map app].
          rewrite Z2N.id by lia. reflexivity.
        * apply Z.ltb_ge in Hneg. rewrite (Z_to_dec_nonneg z Hneg).
          rewrite lexs_N by exact Hh. rewrite IH. cbn [option_map app].
          rewrite Z2N.id by lia. reflexivity.
      + rewrite lexs_plus, IH. reflexivity.
      + rewrite lexs_minus, IH. reflexivity.
      + rewrite lexs_star by (apply layout_hd_star; exact Ha1). rewrite IH. reflexivity.
      + rewrite lexs_lpar, IH. reflexivity.
      + rewrite lexs_rpar, IH. reflexivity.
  Qed.
End Lexing.

(* ====================================================================================================== *)
(* 4. Parsing the tokens of an expression                                                                  *)

Lemma products_star p g acc r1 : products_f p (S g) acc (TStar :: r1) =
  match p r1 with POk z2 r2 => products_f p g (acc * z2)%Z r2 | e => e end.
Proof. reflexivity. Qed.
Lemma sums_plus p g acc r1 : sums_f p (S g) acc (TPlus :: r1) =
  match p r1 with POk z2 r2 => sums_f p g (acc + z2)%Z r2 | e => e end.
Proof. reflexivity. Qed.
Lemma sums_minus p g acc r1 : sums_f p (S g) acc (TMinus :: r1) =
  match p r1 with POk z2 r2 => sums_f p g (acc - z2)%Z r2 | e => e end.
Proof. reflexivity. Qed.
Lemma sums_rp p g acc r1 : sums_f p (S g) acc (TRp :: r1) = POk acc (TRp :: r1).
Proof. reflexivity. Qed.

Definition nostar (rest : list etok) : bool := match rest with TStar :: _ => false | _ => true end.

Lemma products_nostar p g acc rest : nostar rest = true -> products_f p (S g) acc rest = POk acc rest.
Proof.
  intros H. rewrite products_S. destruct rest as [|t r]; [reflexivity|].
  destruct t; try reflexivity. discriminate.
Qed.

Lemma fac_lp p2 p0 t ts : t <> TRp -> fac_f p2 p0 (TLp :: t :: ts) =
  match p0 (t :: ts) with
  | POk z (TRp :: r') => if next_is_call r' then POutside else POk z r'
  | POk _ _ => PSyntax
  | e => e
  end.
Proof. intros H. destruct t; try reflexivity. congruence. Qed.

Section Parse.
  Variable rho : str -> option Z.
  Variable env : str -> Z.

  Definition T (a : aexp) : list etok := etoks rho (dtoks a).
  Definition W (l : nat) (a : aexp) : list etok := etoks rho (dwrap l a (dtoks a)).
  Definition vars_ok (a : aexp) : Prop := forall x, In x (avars a) -> rho x = Some (env x).

  Lemma W_wrap l a : alevel a < l -> W l a = TLp :: T a ++ [TRp].
  Proof.
    intros H. unfold W, dwrap. apply Nat.ltb_lt in H. rewrite H.
    rewrite etoks_cons, etoks_app. reflexivity.
  Qed.
  Lemma W_T l a : l <= alevel a -> W l a = T a.
  Proof.
    intros H. unfold W, dwrap. apply Nat.ltb_ge in H. rewrite H. reflexivity.
  Qed.

  Lemma T_num n : T (ANum n) = [TInt (Z.of_N n)].
  Proof. reflexivity. Qed.
  Lemma T_var x z : rho x = Some z -> T (AVar x) = if (z <? 0)%Z then [TMinus; TInt (- z)%Z] else [TInt z].
  Proof.
    intros H. unfold T, etoks. cbn [dtoks flat_map etoks_of]. rewrite H. apply app_nil_r.
  Qed.
  Lemma T_neg a : T (ANeg a) = TMinus :: W 2 a.
  Proof. reflexivity. Qed.
  Lemma T_pos a : T (APos a) = TPlus :: W 2 a.
  Proof. reflexivity. Qed.
  Lemma T_add a b : T (AAdd a b) = T a ++ TPlus :: W 1 b.
  Proof. unfold T, W. cbn [dtoks]. rewrite etoks_app. reflexivity. Qed.
  Lemma T_sub a b : T (ASub a b) = T a ++ TMinus :: W 1 b.
  Proof. unfold T, W. cbn [dtoks]. rewrite etoks_app. reflexivity. Qed.
  Lemma T_mul a b : T (AMul a b) = W 1 a ++ TStar :: W 2 b.
  Proof. unfold T, W. cbn [dtoks]. rewrite etoks_app. reflexivity. Qed.
  Lemma T_par a : T (APar a) = TLp :: T a ++ [TRp].
  Proof. unfold T. cbn [dtoks]. rewrite etoks_cons, etoks_app. reflexivity. Qed.

  Lemma vars_ok_l a b : (forall x, In x (avars a ++ avars b) -> rho x = Some (env x)) -> vars_ok a.
  Proof. intros H x Hx. apply H. apply in_or_app. left. exact Hx. Qed.
  Lemma vars_ok_r a b : (forall x, In x (avars a ++ avars b) -> rho x = Some (env x)) -> vars_ok b.
  Proof. intros H x Hx. apply H. apply in_or_app. right. exact Hx. Qed.

  (* the tokens of an expression are not empty and do not start with a closing parenthesis *)
  Lemma T_hd a : vars_ok a -> exists t ts, T a = t :: ts /\ t <> TRp.
  Proof.
    induction a as [n|x|a IHa|a IHa|a IHa b IHb|a IHa b IHb|a IHa b IHb|a IHa]; intros Hv.
    - rewrite T_num. eexists. eexists. split; [reflexivity|discriminate].
    - rewrite (T_var x (env x)) by (apply Hv; left; reflexivity).
      destruct (env x <? 0)%Z; eexists; eexists; (split; [reflexivity|discriminate]).
    - rewrite T_neg. eexists. eexists. split; [reflexivity|discriminate].
    - rewrite T_pos. eexists. eexists. split; [reflexivity|discriminate].
    - rewrite T_add. destruct (IHa (vars_ok_l a b Hv)) as (t & ts & E & Ht). rewrite E.
      exists t, (ts ++ TPlus :: W 1 b). split; [reflexivity|exact Ht].
    - rewrite T_sub. destruct (IHa (vars_ok_l a b Hv)) as (t & ts & E & Ht). rewrite E.
      exists t, (ts ++ TMinus :: W 1 b). split; [reflexivity|exact Ht].
    - rewrite T_mul. destruct (Nat.lt_ge_cases (alevel a) 1) as [Hl|Hl].
      + rewrite (W_wrap 1 a Hl). eexists. eexists. split; [reflexivity|discriminate].
      + rewrite (W_T 1 a Hl). destruct (IHa (vars_ok_l a b Hv)) as (t & ts & E & Ht). rewrite E.
        exists t, (ts ++ TStar :: W 2 b). split; [reflexivity|exact Ht].
    - rewrite T_par. eexists. eexists. split; [reflexivity|discriminate].
  Qed.

  Definition P2 (a : aexp) : Prop := forall rest f, next_is_call rest = false ->
    3 * length (W 2 a ++ rest) + 1 <= f ->
    pe f 2 (W 2 a ++ rest) = POk (aeval env a) rest.
  Definition P1 (a : aexp) : Prop := forall rest f, next_is_call rest = false ->
    3 * length (W 1 a ++ rest) + 1 <= f ->
    pe (S f) 1 (W 1 a ++ rest) = products_f (pe f 2) (S (length rest)) (aeval env a) rest.
  Definition P0 (a : aexp) : Prop := forall rest f, next_is_call rest = false -> nostar rest = true ->
    3 * length (T a ++ rest) + 2 <= f ->
    pe (S f) 0 (T a ++ rest) = sums_f (pe f 1) (S (length rest)) (aeval env a) rest.

  Lemma W12 a : alevel a <> 1 -> W 1 a = W 2 a.
  Proof.
    intros H. destruct (Nat.lt_ge_cases (alevel a) 1) as [Hl|Hl].
    - rewrite (W_wrap 1 a Hl), (W_wrap 2 a) by lia. reflexivity.
    - rewrite (W_T 1 a Hl), (W_T 2 a) by lia. reflexivity.
  Qed.

  Lemma P1_of_P2 a : alevel a <> 1 -> P2 a -> P1 a.
  Proof.
    intros Hl H2 rest f Hc Hf. rewrite (W12 a Hl) in *.
    rewrite pe_S1. rewrite (H2 rest f Hc Hf). reflexivity.
  Qed.

  Lemma P0_of_P1 a : 1 <= alevel a -> P1 a -> P0 a.
  Proof.
    intros Hl H1 rest f Hc Hs Hf. rewrite <- (W_T 1 a Hl) in *.
    rewrite pe_S0. destruct f as [|f0]; [lia|].
    rewrite (H1 rest f0 Hc) by lia.
    rewrite (products_nostar _ _ _ _ Hs). reflexivity.
  Qed.

  Lemma paren_P0 a : vars_ok a -> P0 a -> forall rest f, next_is_call rest = false ->
    3 * length ((TLp :: T a ++ [TRp]) ++ rest) + 1 <= f ->
    pe f 2 ((TLp :: T a ++ [TRp]) ++ rest) = POk (aeval env a) rest.
  Proof.
    intros Hv H0 rest f Hc Hf.
    cbn [app] in *. rewrite <- app_assoc in *. cbn [app] in *.
    assert (Hlen : 3 * length (T a ++ TRp :: rest) + 2 <= f - 2 /\ 2 <= f) by (cbn [length] in Hf; lia).
    destruct Hlen as [Hlen Hf2].
    destruct f as [|[|f]]; [lia|lia|]. replace (S (S f) - 2) with f in Hlen by lia.
    rewrite pe_S2. destruct (T_hd a Hv) as (t & ts & E & Ht).
    pose proof (H0 (TRp :: rest) f eq_refl eq_refl Hlen) as Hp.
    rewrite E in *. cbn [app] in *. rewrite fac_lp by exact Ht. rewrite Hp.
    rewrite sums_rp. rewrite Hc. reflexivity.
  Qed.

  Lemma P2_of_P0 a : alevel a < 2 -> vars_ok a -> P0 a -> P2 a.
  Proof.
    intros Hl Hv H0 rest f Hc Hf. rewrite (W_wrap 2 a Hl) in *. apply paren_P0; assumption.
  Qed.

  Lemma all_of_P2 a : alevel a = 2 -> P2 a -> P2 a /\ P1 a /\ P0 a.
  Proof.
    intros Hl H2. assert (H1 : P1 a) by (apply P1_of_P2; [lia|exact H2]).
    split; [exact H2|]. split; [exact H1|]. apply P0_of_P1; [lia|exact H1].
  Qed.

  Lemma all_of_P0 a : alevel a = 0 -> vars_ok a -> P0 a -> P2 a /\ P1 a /\ P0 a.
  Proof.
    intros Hl Hv H0. assert (H2 : P2 a) by (apply P2_of_P0; [lia|exact Hv|exact H0]).
    split; [exact H2|]. split; [|exact H0]. apply P1_of_P2; [lia|exact H2].
  Qed.

  Lemma P2_num n : P2 (ANum n).
  Proof.
    intros rest f Hc Hf. rewrite (W_T 2 (ANum n)) in * by (cbn [alevel]; lia).
    rewrite T_num in *. cbn [app] in *. destruct f as [|f]; [lia|].
    rewrite pe_S2. cbn [fac_f]. rewrite Hc. reflexivity.
  Qed.

  Lemma P2_var x : vars_ok (AVar x) -> P2 (AVar x).
  Proof.
    intros Hv rest f Hc Hf. rewrite (W_T 2 (AVar x)) in * by (cbn [alevel]; lia).
    rewrite (T_var x (env x)) in * by (apply Hv; left; reflexivity).
    cbn [aeval]. destruct (env x <? 0)%Z; cbn [app length] in *.
    - destruct f as [|[|f]]; [lia|lia|].
      rewrite pe_S2. cbn [fac_f]. rewrite pe_S2. cbn [fac_f]. rewrite Hc.
      rewrite Z.opp_involutive. reflexivity.
    - destruct f as [|f]; [lia|]. rewrite pe_S2. cbn [fac_f]. rewrite Hc. reflexivity.
  Qed.

  Lemma P2_neg a : P2 a -> P2 (ANeg a).
  Proof.
    intros H2 rest f Hc Hf. rewrite (W_T 2 (ANeg a)) in * by (cbn [alevel]; lia).
    rewrite T_neg in *. cbn [app length] in *. destruct f as [|f]; [lia|].
    rewrite pe_S2. cbn [fac_f]. rewrite (H2 rest f Hc) by lia. reflexivity.
  Qed.

  Lemma P2_pos a : P2 a -> P2 (APos a).
  Proof.
    intros H2 rest f Hc Hf. rewrite (W_T 2 (APos a)) in * by (cbn [alevel]; lia).
    rewrite T_pos in *. cbn [app length] in *. destruct f as [|f]; [lia|].
    rewrite pe_S2. cbn [fac_f]. rewrite (H2 rest f Hc) by lia. reflexivity.
  Qed.

  Lemma P2_par a : vars_ok a -> P0 a -> P2 (APar a).
  Proof.
    intros Hv H0 rest f Hc Hf. rewrite (W_T 2 (APar a)) in * by (cbn [alevel]; lia).
    rewrite T_par in *. cbn [aeval]. apply paren_P0; assumption.
  Qed.

  Lemma P1_mul a b : P1 a -> P2 b -> P1 (AMul a b).
  Proof.
    intros H1 H2 rest f Hc Hf. rewrite (W_T 1 (AMul a b)) in * by (cbn [alevel]; lia).
    rewrite T_mul in *. rewrite <- app_assoc in *. cbn [app] in *.
    rewrite (H1 (TStar :: W 2 b ++ rest) f eq_refl Hf).
    rewrite products_star.
    rewrite app_length in Hf. cbn [length] in Hf.
    rewrite (H2 rest f Hc) by lia.
    cbn [aeval]. apply products_irrel; [apply pe_shrink| |lia].
    cbn [length]. rewrite app_length. lia.
  Qed.

  Lemma P0_add a b : P0 a -> P1 b -> P0 (AAdd a b).
  Proof.
    intros H0 H1 rest f Hc Hs Hf.
    rewrite T_add in *. rewrite <- app_assoc in *. cbn [app] in *.
    rewrite (H0 (TPlus :: W 1 b ++ rest) f eq_refl eq_refl Hf).
    rewrite sums_plus.
    rewrite app_length in Hf. cbn [length] in Hf.
    destruct f as [|f0]; [lia|].
    rewrite (H1 rest f0 Hc) by lia.
    rewrite (products_nostar _ _ _ _ Hs).
    cbn [aeval]. apply sums_irrel; [apply pe_shrink| |lia].
    cbn [length]. rewrite app_length. lia.
  Qed.

  Lemma P0_sub a b : P0 a -> P1 b -> P0 (ASub a b).
  Proof.
    intros H0 H1 rest f Hc Hs Hf.
    rewrite T_sub in *. rewrite <- app_assoc in *. cbn [app] in *.
    rewrite (H0 (TMinus :: W 1 b ++ rest) f eq_refl eq_refl Hf).
    rewrite sums_minus.
    rewrite app_length in Hf. cbn [length] in Hf.
    destruct f as [|f0]; [lia|].
    rewrite (H1 rest f0 Hc) by lia.
    rewrite (products_nostar _ _ _ _ Hs).
    cbn [aeval]. apply sums_irrel; [apply pe_shrink| |lia].
    cbn [length]. rewrite app_length. lia.
  Qed.

  Lemma parse_all a : vars_ok a -> P2 a /\ P1 a /\ P0 a.
  Proof.
    induction a as [n|x|a IHa|a IHa|a IHa b IHb|a IHa b IHb|a IHa b IHb|a IHa]; intros Hv.
    - apply all_of_P2; [reflexivity|apply P2_num].
    - apply all_of_P2; [reflexivity|apply P2_var; exact Hv].
    - apply all_of_P2; [reflexivity|]. apply P2_neg. apply (IHa Hv).
    - apply all_of_P2; [reflexivity|]. apply P2_pos. apply (IHa Hv).
    - destruct (IHa (vars_ok_l a b Hv)) as (_ & _ & A0). destruct (IHb (vars_ok_r a b Hv)) as (_ & B1 & _).
      apply all_of_P0; [reflexivity|exact Hv|]. apply P0_add; assumption.
    - destruct (IHa (vars_ok_l a b Hv)) as (_ & _ & A0). destruct (IHb (vars_ok_r a b Hv)) as (_ & B1 & _).
      apply all_of_P0; [reflexivity|exact Hv|]. apply P0_sub; assumption.
    - destruct (IHa (vars_ok_l a b Hv)) as (_ & A1 & _). destruct (IHb (vars_ok_r a b Hv)) as (B2 & _ & _).
      assert (M1 : P1 (AMul a b)) by (apply P1_mul; assumption).
      assert (M0 : P0 (AMul a b)) by (apply P0_of_P1; [cbn [alevel]; lia|exact M1]).
      split; [|split; assumption]. apply P2_of_P0; [cbn [alevel]; lia|exact Hv|exact M0].
    - destruct (IHa Hv) as (_ & _ & A0).
      apply all_of_P2; [reflexivity|]. apply P2_par; assumption.
  Qed.

  Lemma pe_T a : vars_ok a -> pe (3 * length (T a) + 3) 0 (T a) = POk (aeval env a) [].
  Proof.
    intros Hv. destruct (parse_all a Hv) as (_ & _ & H0).
    specialize (H0 [] (3 * length (T a) + 2) eq_refl eq_refl).
    rewrite app_nil_r in H0.
    replace (3 * length (T a) + 3) with (S (3 * length (T a) + 2)) by lia.
    rewrite H0 by lia. reflexivity.
  Qed.
End Parse.

(* ====================================================================================================== *)
(* 5. Main results                                                                                         *)

Theorem pyeval_render_in : forall (g : nat -> str) (rho : str -> option Z) (env : str -> Z) (a : aexp),
  blank_fn g -> (forall x, In x (avars a) -> rho x = Some (env x)) ->
  pyeval (render_in rho g a) = EvInt (aeval env a).
Proof.
  intros g rho env a Hg Hv. unfold pyeval, render_in.
  change (elex (S (length (layout g rho 0 (dtoks a)))) (layout g rho 0 (dtoks a)))
    with (lexs (layout g rho 0 (dtoks a))).
  rewrite (lexs_layout g rho Hg (dtoks a) 0 (adj_ok_dtoks a)).
  - change (etoks rho (dtoks a)) with (T rho a). rewrite (pe_T rho env a Hv). reflexivity.
  - intros x Hx. exists (env x). apply Hv. apply dtoks_vars. exact Hx.
Qed.

Theorem pyeval_render_closed : forall g env a, blank_fn g -> avars a = [] ->
  pyeval (render g a) = EvInt (aeval env a).
Proof.
  intros g env a Hg Hc. unfold render. apply pyeval_render_in; [exact Hg|].
  rewrite Hc. intros x [].
Qed.

(* ====================================================================================================== *)
(* 6. Sanity examples (closed terms)                                                                       *)

Definition ex_a : aexp :=
  ASub (AMul (ANum 2) (AAdd (AVar (of_string "a")) (ANum 3))) (ANeg (APar (ANum 10))).
Definition ex_rho : str -> option Z := fun x => if str_eqb x (of_string "a") then Some (-4)%Z else None.

Example ex_render : render g_spaced ex_a = of_string "2 * ( $a + 3 ) - - ( 10 ) ".
Proof. vm_compute. reflexivity. Qed.

Example ex_render_in_tight : render_in ex_rho g_tight ex_a = of_string "2*(-4+3)--(10)".
Proof. vm_compute. reflexivity. Qed.

Example ex_pyeval_tight : pyeval (render_in ex_rho g_tight ex_a) = EvInt 8.
Proof. vm_compute. reflexivity. Qed.

Example ex_pyeval_spaced : pyeval (render_in ex_rho g_spaced ex_a) = EvInt (aeval (fun _ => (-4)%Z) ex_a).
Proof. vm_compute. reflexivity. Qed.

Print Assumptions pyeval_render_in.
Print Assumptions pyeval_render_closed.
Print Assumptions pyeval_total.
